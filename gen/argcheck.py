"""gen/argcheck.py — TRANSLATOR for property C15.

On every run: for each of the 8 routine families x 4 precisions, preprocess the routine's file from
$REPO/SRC with the library's own flags (`gcc -E -P`), parse the *leading argument-test section* of the
function body (everything from `{` up to and including the `if (*info != 0) { xerbla_(...); return; }`
block) with a small C parser, execute it symbolically, and print the value of the `info` variable at the
error block as a Lean function of an `Args` record.  The accepted language is closed:

  statements   declarations (with optional scalar initialisers), `lhs = expr;`, if / else, blocks, the
               running-min/max loop  `for (j = 0; j < BOUND; ++j) { v = SUPERLU_MIN(v, ARR[j]); ... }`,
               and `return` (inside the error block only).  Any other statement (in particular ANY
               function call statement, e.g. an allocation moved in front of the tests) is rejected:
               the generator raises, check.py reports the Lean stage as failed.
  expressions  integer / integral float / char / string literals, parameters and locals, `->`, `*p`,
               `p[j]` (only inside the loop pattern), `(unsigned char *)p`, `! && ||`, comparisons,
               `?:` (SUPERLU_MAX / SUPERLU_MIN after expansion), unary minus, + - *,
               `lsame_(x, "c")`, `?lamch_("Safe minimum")` (a positive constant) and `1./that`.
               Anything else evaluates to an *opaque* value; an opaque value that reaches `info` is an error.

Modelling conventions (assumptions of the translation, stated in the generated header too):
  * no aliasing between distinct parameters; a variable that is unassigned on one side of an `if` and
    assigned on the other takes the assigned value after the merge (reading it on the other path would be
    undefined behaviour in C);
  * a store through a pointer parameter other than `*info` that happens before the error block is recorded in
    `<routine>PreWrites` (caller-visible writes that precede the argument check);
  * `Args` has one Int field per scalar the tests read (`A->nrow` -> `A_nrow`, `B->Store->lda` -> `B_lda`,
    `*equed` -> `equed`, a `char*` option -> its first character code), one `List Int` field per array
    scanned by a min/max loop, one positive-constant field per `?lamch_` derived constant.

Output: lean/SluVerif/Gen/ArgCheck.lean (byte-stable for an unchanged source: no timestamps, fixed order).
"""
import os, re, subprocess, sys

HERE = os.path.dirname(os.path.abspath(__file__))
VERIF = os.path.dirname(HERE)
OUT = os.path.join(VERIF, "lean", "SluVerif", "Gen", "ArgCheck.lean")

PRECS = "sdcz"
FAMILIES = [  # (family, file pattern, function pattern, Args record name)
    ("gssv", "p%sgssv.c", "p%sgssv", "GssvArgs"),
    ("gssvx", "p%sgssvx.c", "p%sgssvx", "GssvxArgs"),
    ("gstrs", "%sgstrs.c", "%sgstrs", "GstrsArgs"),
    ("gsrfs", "%sgsrfs.c", "%sgsrfs", "GsrfsArgs"),
    ("gscon", "%sgscon.c", "%sgscon", "GsconArgs"),
    ("gsequ", "%sgsequ.c", "%sgsequ", "GsequArgs"),
    ("trsv", "%ssp_blas2.c", "sp_%strsv", "TrsvArgs"),
    ("gemv", "%ssp_blas2.c", "sp_%sgemv", "GemvArgs"),
]
CPPFLAGS = ["-D__PTHREAD", "-DAdd_", "-DUSE_VENDOR_BLAS", "-DSLU_MT_VERIF"]
# Fields that the routine's header documents a requirement for but that the code never reads: they are
# part of the Args record (the documented table in Model/ArgDoc.lean needs them) although no test mentions them.
DOC_FIELDS = {
    "gssv": ["B_Stype", "B_Dtype", "B_Mtype"],
    "gstrs": ["L_Stype", "L_Dtype", "L_Mtype", "U_Stype", "U_Dtype", "U_Mtype", "B_Stype", "B_Dtype", "B_Mtype"],
    "gsrfs": ["equed"],
    "trsv": ["L_Stype", "L_Dtype", "L_Mtype", "U_Stype", "U_Dtype", "U_Mtype"],
    "gemv": ["A_Stype", "A_Dtype", "A_Mtype"],
}
ENUM_TYPES = ["Stype_t", "Dtype_t", "Mtype_t", "yes_no_t", "trans_t", "fact_t", "equed_t"]


class Unsupported(Exception):
    pass


def repo():
    return os.environ.get("REPO", "/repo")


# ------------------------------------------------------------------------------------------ lexer
TOK_RE = re.compile(r"""
   (?P<ws>\s+)
 | (?P<str>"(?:[^"\\]|\\.)*")
 | (?P<chr>'(?:[^'\\]|\\.)')
 | (?P<flt>(?:\d+\.\d*|\.\d+)(?:[eE][-+]?\d+)?[fFlL]?|\d+[eE][-+]?\d+[fFlL]?)
 | (?P<int>0[xX][0-9a-fA-F]+[uUlL]*|\d+[uUlL]*)
 | (?P<id>[A-Za-z_]\w*)
 | (?P<op>->|\+\+|--|<<=|>>=|<=|>=|==|!=|&&|\|\||\+=|-=|\*=|/=|%=|&=|\|=|\^=|<<|>>|\.\.\.|[-+*/%<>=!~&|^?:;,.(){}\[\]\#])
""", re.X)


def lex(text):
    toks, pos = [], 0
    while pos < len(text):
        m = TOK_RE.match(text, pos)
        if not m:
            raise Unsupported("lexer: cannot tokenise at %r" % text[pos:pos + 30])
        pos = m.end()
        k = m.lastgroup
        if k != "ws":
            toks.append((k, m.group(k)))
    return toks


def preprocess(path):
    r = subprocess.run(["gcc", "-E", "-P"] + CPPFLAGS + ["-I", os.path.join(repo(), "SRC"), path],
                       capture_output=True, text=True)
    if r.returncode != 0:
        raise Unsupported("gcc -E failed on %s: %s" % (path, r.stderr[-500:]))
    return r.stdout


# ------------------------------------------------------------------------------------------ parser
BUILTIN_TYPES = {"void", "char", "short", "int", "long", "float", "double", "signed", "unsigned", "_Bool"}
DECL_PREFIX = {"extern", "static", "register", "const", "volatile", "auto", "struct", "union", "enum", "inline"}


class Parser:
    def __init__(self, toks, typenames):
        self.t, self.i, self.types = toks, 0, typenames

    def peek(self, k=0):
        j = self.i + k
        return self.t[j] if j < len(self.t) else ("eof", "")

    def next(self):
        x = self.peek(); self.i += 1; return x

    def accept(self, v):
        if self.peek()[1] == v and self.peek()[0] in ("op", "id"):
            self.i += 1; return True
        return False

    def expect(self, v):
        if not self.accept(v):
            raise Unsupported("parser: expected %r got %r" % (v, self.peek()[1]))

    def is_type_start(self, k=0):
        kind, v = self.peek(k)
        return kind == "id" and (v in BUILTIN_TYPES or v in DECL_PREFIX or v in self.types)

    # ---- statements
    def stmt(self):
        kind, v = self.peek()
        if v == "{" and kind == "op":
            return self.block()
        if kind == "id" and v == "if":
            self.next(); self.expect("("); c = self.expr(); self.expect(")")
            th = self.stmt(); el = None
            if self.peek() == ("id", "else"):
                self.next(); el = self.stmt()
            return ("if", c, th, el)
        if kind == "id" and v == "for":
            self.next(); self.expect("(")
            init = None if self.peek()[1] == ";" else self.expr(); self.expect(";")
            cond = None if self.peek()[1] == ";" else self.expr(); self.expect(";")
            step = None if self.peek()[1] == ")" else self.expr(); self.expect(")")
            return ("for", init, cond, step, self.stmt())
        if kind == "id" and v == "return":
            self.next(); e = None if self.peek()[1] == ";" else self.expr(); self.expect(";")
            return ("return", e)
        if kind == "id" and v in ("while", "do", "switch", "goto", "break", "continue"):
            raise Unsupported("statement '%s' is outside the argument-check language" % v)
        if kind == "op" and v == ";":
            self.next(); return ("empty",)
        if self.is_type_start():
            return self.decl()
        e = self.expr(); self.expect(";")
        return ("expr", e)

    def block(self):
        self.expect("{"); out = []
        while not (self.peek() == ("op", "}")):
            if self.peek()[0] == "eof":
                raise Unsupported("parser: unterminated block")
            out.append(self.stmt())
        self.expect("}")
        return ("block", out)

    def decl(self):
        is_extern = False
        while self.peek()[0] == "id" and (self.peek()[1] in BUILTIN_TYPES or self.peek()[1] in DECL_PREFIX or self.peek()[1] in self.types):
            v = self.next()[1]
            if v == "extern":
                is_extern = True
            if v in ("struct", "union", "enum") and self.peek()[0] == "id":
                self.next()
        decls = []
        while True:
            nstar = 0
            while self.accept("*"):
                nstar += 1
            kind, name = self.next()
            if kind != "id":
                raise Unsupported("parser: declarator expected, got %r" % name)
            if self.peek() == ("op", "("):          # function declaration: skip the parameter list
                depth = 0
                while True:
                    k, v = self.next()
                    if v == "(": depth += 1
                    elif v == ")":
                        depth -= 1
                        if depth == 0: break
                    elif k == "eof": raise Unsupported("parser: eof in declaration")
                decls.append((name, "func", None))
            else:
                arr = False
                while self.accept("["):
                    arr = True
                    if not self.accept("]"):
                        self.expr(); self.expect("]")
                init = None
                if self.accept("="):
                    if self.peek() == ("op", "{"):
                        depth = 0
                        while True:
                            k, v = self.next()
                            if v == "{": depth += 1
                            elif v == "}":
                                depth -= 1
                                if depth == 0: break
                        init = ("braces",)
                    else:
                        init = self.assign()
                decls.append((name, "array" if arr else ("ptr" if nstar else "scalar"), init))
            if self.accept(","):
                continue
            self.expect(";"); break
        return ("decl", decls, is_extern)

    # ---- expressions (precedence climbing)
    def expr(self):
        e = self.assign()
        while self.accept(","):
            e = ("comma", e, self.assign())
        return e

    def assign(self):
        l = self.cond()
        kind, v = self.peek()
        if kind == "op" and v in ("=", "+=", "-=", "*=", "/=", "%=", "&=", "|=", "^=", "<<=", ">>="):
            self.next(); r = self.assign()
            return ("assign", v, l, r)
        return l

    def cond(self):
        c = self.binary(0)
        if self.accept("?"):
            t = self.expr(); self.expect(":"); e = self.cond()
            return ("cond", c, t, e)
        return c

    LEVELS = [["||"], ["&&"], ["|"], ["^"], ["&"], ["==", "!="], ["<", ">", "<=", ">="], ["<<", ">>"], ["+", "-"], ["*", "/", "%"]]

    def binary(self, lvl):
        if lvl == len(self.LEVELS):
            return self.unary()
        l = self.binary(lvl + 1)
        while self.peek()[0] == "op" and self.peek()[1] in self.LEVELS[lvl]:
            op = self.next()[1]
            r = self.binary(lvl + 1)
            l = ("bin", op, l, r)
        return l

    def unary(self):
        kind, v = self.peek()
        if kind == "op" and v in ("!", "-", "+", "*", "&", "~"):
            self.next(); return ("un", v, self.unary())
        if kind == "op" and v in ("++", "--"):
            self.next(); return ("preinc", v, self.unary())
        if kind == "id" and v == "sizeof":
            raise Unsupported("sizeof in the argument-check section")
        if kind == "op" and v == "(" and self.is_type_start(1):
            self.next(); ty = []
            while not (self.peek() == ("op", ")")):
                ty.append(self.next()[1])
            self.expect(")")
            return ("cast", " ".join(ty), self.unary())
        return self.postfix()

    def postfix(self):
        kind, v = self.next()
        if kind == "int":
            e = ("num", int(re.sub(r"[uUlL]+$", "", v), 0))
        elif kind == "flt":
            e = ("flt", v)
        elif kind == "str":
            s = v
            while self.peek()[0] == "str":
                s = s[:-1] + self.next()[1][1:]
            e = ("str", bytes(s[1:-1], "ascii").decode("unicode_escape"))
        elif kind == "chr":
            e = ("num", ord(bytes(v[1:-1], "ascii").decode("unicode_escape")))
        elif kind == "id":
            e = ("id", v)
        elif kind == "op" and v == "(":
            e = self.expr(); self.expect(")")
        else:
            raise Unsupported("parser: unexpected token %r" % v)
        while True:
            if self.accept("->"):
                e = ("arrow", e, self.next()[1])
            elif self.accept("."):
                e = ("dot", e, self.next()[1])
            elif self.accept("["):
                i = self.expr(); self.expect("]"); e = ("index", e, i)
            elif self.peek() == ("op", "("):
                self.next(); args = []
                if not self.accept(")"):
                    while True:
                        args.append(self.assign())
                        if self.accept(")"): break
                        self.expect(",")
                e = ("call", e, args)
            elif self.peek()[0] == "op" and self.peek()[1] in ("++", "--"):
                e = ("postinc", self.next()[1], e)
            else:
                return e


def find_typenames(toks):
    names = set()
    i = 0
    while i < len(toks):
        if toks[i] == ("id", "typedef"):
            depth, j, last = 0, i + 1, None
            while j < len(toks):
                k, v = toks[j]
                if v in "({[" and k == "op": depth += 1
                elif v in ")}]" and k == "op": depth -= 1
                elif k == "id" and depth == 0: last = v
                elif v == ";" and depth == 0: break
                j += 1
            if last: names.add(last)
            i = j
        i += 1
    return names


def find_enums(toks):
    """typedef enum { A, B = 3, C } name;  ->  {name: [(A,0),(B,3),(C,4)]}"""
    enums, i = {}, 0
    while i + 2 < len(toks):
        if toks[i] == ("id", "typedef") and toks[i + 1] == ("id", "enum"):
            j = i + 2
            if toks[j][0] == "id": j += 1
            if toks[j] == ("op", "{"):
                j += 1; items = []; val = 0
                while toks[j] != ("op", "}"):
                    nm = toks[j][1]; j += 1
                    if toks[j] == ("op", "="):
                        sign = 1; j += 1
                        if toks[j] == ("op", "-"): sign = -1; j += 1
                        val = sign * int(toks[j][1], 0); j += 1
                    items.append((nm, val)); val += 1
                    if toks[j] == ("op", ","): j += 1
                enums[toks[j + 1][1]] = items
                i = j
        i += 1
    return enums


def find_function(toks, name):
    """index of the '{' that opens the definition of `name`, and its parameter list tokens"""
    for i in range(len(toks) - 1):
        if toks[i] == ("id", name) and toks[i + 1] == ("op", "("):
            depth, j = 0, i + 1
            while True:
                v = toks[j][1]
                if v == "(": depth += 1
                elif v == ")":
                    depth -= 1
                    if depth == 0: break
                j += 1
            if toks[j + 1] == ("op", "{"):
                return j + 1, toks[i + 2:j]
    raise Unsupported("definition of %s not found" % name)


def parse_params(ptoks):
    """-> list of (name, kind) with kind in scalar|ptr, in positional order"""
    out, cur = [], []
    depth = 0
    for t in ptoks + [("op", ",")]:
        if t[1] == "(" : depth += 1
        if t[1] == ")": depth -= 1
        if t == ("op", ",") and depth == 0:
            ids = [x for x in cur if x[0] == "id"]
            name = ids[-1][1]
            out.append((name, "ptr" if ("op", "*") in cur or ("op", "[") in cur else "scalar", " ".join(x[1] for x in cur[:-1])))
            cur = []
        else:
            cur.append(t)
    return out


# ------------------------------------------------------------------------------------------ symbolic execution
PROP_TAGS = {"cmp", "and", "or", "not", "true", "false", "lsame"}


def kind(v):
    if v[0] in PROP_TAGS:
        return "prop"
    if v[0] == "ite":
        a, b = kind(v[2]), kind(v[3])
        return "prop" if "prop" in (a, b) else "int"
    if v[0] in ("opaque", "undef"):
        return v[0]
    return "int"


def as_prop(v):
    if v[0] in PROP_TAGS:
        return v
    if v[0] == "int":
        return ("false",) if v[1] == 0 else ("true",)
    if v[0] == "ite":
        return ("ite", v[1], as_prop(v[2]), as_prop(v[3]))
    if v[0] in ("opaque", "undef"):
        return v
    return ("cmp", "!=", v, ("int", 0))


def mk_not(p):
    return ("not", p)


class State:
    def __init__(self, params):
        self.loc = {}       # local name -> value
        self.mem = {}       # path -> value (stores through parameters)
        self.params = {n: k for n, k, _ in params}
        self.prewrites = []

    def copy(self):
        s = State([]); s.loc = dict(self.loc); s.mem = dict(self.mem); s.params = self.params; s.prewrites = self.prewrites
        return s


def path_str(p):
    s = p[1]
    for f in p[2]:
        s = ("*" + s) if f == "*" else (s + "->" + f)
    return s


class Exec:
    def __init__(self, params, enumvals):
        self.params = params
        self.enumvals = enumvals   # constant name -> int
        self.result = None

    # ---- reads
    def read_path(self, st, p):
        return st.mem.get(p, p)

    def ev(self, st, e):
        t = e[0]
        if t == "num":
            return ("int", e[1])
        if t == "flt":
            try:
                f = float(e[1].rstrip("fFlL"))
            except ValueError:
                return ("opaque", "float literal " + e[1])
            return ("int", int(f)) if f == int(f) and abs(f) < 2 ** 31 else ("opaque", "non-integral float literal " + e[1])
        if t == "str":
            return ("str", e[1])
        if t == "id":
            n = e[1]
            if n in st.loc:
                return st.loc[n]
            if n in st.params:
                return self.read_path(st, ("path", n, ()))
            if n in self.enumvals:
                return ("enum", n)
            return ("undef",)
        if t == "arrow" or t == "dot":
            b = self.ev(st, e[1])
            if b[0] == "path":
                return self.read_path(st, ("path", b[1], b[2] + (e[2],)))
            return ("opaque", "field of non-parameter object")
        if t == "cast":
            v = self.ev(st, e[2])
            if v[0] == "path" and re.fullmatch(r"unsigned char \*", e[1]):
                return ("ucharptr", v)
            return v
        if t == "un":
            op = e[1]
            if op == "&":
                if e[2][0] == "id":
                    return ("addr", e[2][1])
                return ("opaque", "address-of")
            v = self.ev(st, e[2])
            if op == "!":
                p = as_prop(v)
                return p if p[0] in ("opaque", "undef") else mk_not(p)
            if op == "*":
                if v[0] == "path":
                    return self.read_path(st, ("path", v[1], v[2] + ("*",)))
                if v[0] == "ucharptr":
                    return ("char0", v[1])
                return ("opaque", "deref")
            if op == "-":
                if v[0] == "int": return ("int", -v[1])
                if v[0] in ("opaque", "undef"): return v
                return ("neg", v)
            if op == "+":
                return v
            return ("opaque", "unary " + op)
        if t == "bin":
            op = e[1]
            l, r = self.ev(st, e[2]), self.ev(st, e[3])
            if op in ("&&", "||"):
                pl, pr = as_prop(l), as_prop(r)
                for x in (pl, pr):
                    if x[0] in ("opaque", "undef"): return ("opaque", "logical operand: %s" % (x,))
                return ("and" if op == "&&" else "or", pl, pr)
            for x in (l, r):
                if x[0] in ("opaque", "undef", "str", "addr", "ucharptr"):
                    return ("opaque", "operand of %s: %s" % (op, x[0]))
            if op in ("==", "!=", "<", ">", "<=", ">="):
                if kind(l) != "int" or kind(r) != "int":
                    raise Unsupported("comparison of truth values is outside the language")
                return ("cmp", op, l, r)
            if op == "/" and l == ("int", 1) and r[0] == "posconst":
                return ("posconst", "bignum")
            if op in ("+", "-", "*"):
                if kind(l) != "int" or kind(r) != "int":
                    return ("opaque", "arithmetic on truth values")
                if l[0] == "posconst" or r[0] == "posconst":
                    return ("opaque", "arithmetic on machine constant")
                return ("arith", op, l, r)
            return ("opaque", "operator " + op)
        if t == "cond":
            c = as_prop(self.ev(st, e[1]))
            if c[0] in ("opaque", "undef"): return ("opaque", "condition")
            a, b = self.ev(st, e[2]), self.ev(st, e[3])
            for x in (a, b):
                if x[0] in ("opaque", "undef"): return x
            return ("ite", c, a, b)
        if t == "call":
            fn = e[1][1] if e[1][0] == "id" else None
            args = [self.ev(st, a) for a in e[2]]
            if fn == "lsame_" and len(args) == 2 and args[0][0] == "path" and args[1][0] == "str" and len(args[1][1]) >= 1:
                return ("lsame", args[0], ord(args[1][1][0]))
            if fn in ("dlamch_", "slamch_") and len(args) == 1 and args[0][0] == "str" and args[0][1][:1] in ("S", "s"):
                return ("posconst", "smlnum")
            raise Unsupported("call of %s() before the error return: only lsame_ and ?lamch_ are part of the argument-check language" % fn)
        if t == "index":
            return ("opaque", "array element outside a min/max loop")
        if t == "assign":
            raise Unsupported("nested assignment")
        return ("opaque", t)

    # ---- writes
    def assign(self, st, lhs, v):
        if lhs[0] == "id":
            n = lhs[1]
            if n in st.params and n not in st.loc:
                st.loc[n] = v          # a by-value parameter used as a local
            else:
                st.loc[n] = v
            return
        # store through a pointer
        if lhs[0] == "un" and lhs[1] == "*":
            b = self.ev(st, lhs[2])
            if b[0] == "path":
                p = ("path", b[1], b[2] + ("*",))
            elif b[0] == "ucharptr":      # *(unsigned char *)local = 'N'  (store into a local char array)
                return
            else:
                raise Unsupported("store through a non-parameter pointer")
        elif lhs[0] in ("arrow", "dot"):
            b = self.ev(st, lhs[1])
            if b[0] != "path":
                raise Unsupported("store into a non-parameter object")
            p = ("path", b[1], b[2] + (lhs[2],))
        elif lhs[0] == "index":
            raise Unsupported("array store in the argument-check section")
        else:
            raise Unsupported("unsupported assignment target")
        st.mem[p] = v
        s = path_str(p)
        if s != "*info" and s not in st.prewrites:
            st.prewrites.append(s)

    def merge(self, c, a, b, base):
        out = base.copy()
        for name, da, db, dbase in (("loc", a.loc, b.loc, base.loc), ("mem", a.mem, b.mem, base.mem)):
            keys = list(da.keys()) + [k for k in db.keys() if k not in da]
            tgt = getattr(out, name)
            for k in keys:
                dflt = k if name == "mem" else ("undef",)
                va, vb = da.get(k, dflt), db.get(k, dflt)
                if va == vb: tgt[k] = va
                elif va[0] == "undef": tgt[k] = vb
                elif vb[0] == "undef": tgt[k] = va
                elif va[0] == "opaque": tgt[k] = va
                elif vb[0] == "opaque": tgt[k] = vb
                elif kind(va) != kind(vb) and not (va[0] == "int" or vb[0] == "int"):
                    tgt[k] = ("opaque", "merge of different kinds")
                else:
                    if kind(va) == "prop" or kind(vb) == "prop":
                        va, vb = as_prop(va), as_prop(vb)
                    tgt[k] = ("ite", c, va, vb)
        return out

    def contains_call(self, s, fname):
        if isinstance(s, tuple):
            if s[0] == "call" and s[1] == ("id", fname):
                return True
            return any(self.contains_call(x, fname) for x in s)
        if isinstance(s, list):
            return any(self.contains_call(x, fname) for x in s)
        return False

    def run_stmt(self, st, s, top=False):
        """returns the new state; sets self.result when the error block is reached (top level only)"""
        t = s[0]
        if t == "empty":
            return st
        if t == "block":
            for x in s[1]:
                st = self.run_stmt(st, x, top)
                if self.result is not None:
                    break
            return st
        if t == "decl":
            for name, k, init in s[1]:
                if k == "func":
                    continue
                if init is None:
                    st.loc[name] = ("undef",)
                elif init == ("braces",):
                    st.loc[name] = ("opaque", "aggregate initialiser")
                else:
                    st.loc[name] = self.ev(st, init)
            return st
        if t == "expr":
            e = s[1]
            if e[0] == "assign":
                if e[1] != "=":
                    raise Unsupported("compound assignment in the argument-check section")
                self.assign(st, e[2], self.ev(st, e[3]))
                return st
            raise Unsupported("statement that is not an assignment (a call?) precedes the error return: %r" % (e[:2],))
        if t == "if":
            if top and self.contains_call(s[2], "xerbla_"):
                self.error_block(st, s)
                return st
            c = as_prop(self.ev(st, s[1]))
            if c[0] in ("opaque", "undef"):
                raise Unsupported("condition outside the language: %r" % (c,))
            a = self.run_stmt(st.copy(), s[2])
            b = self.run_stmt(st.copy(), s[3]) if s[3] is not None else st.copy()
            return self.merge(c, a, b, st)
        if t == "for":
            return self.loop(st, s)
        if t == "return":
            raise Unsupported("return before the error block")
        raise Unsupported("statement kind %s" % t)

    def loop(self, st, s):
        _, init, cond, step, body = s
        ok = (init and init[0] == "assign" and init[1] == "=" and init[2][0] == "id" and init[3] == ("num", 0))
        if not ok: raise Unsupported("loop outside the min/max pattern (init)")
        j = init[2][1]
        if not (cond and cond[0] == "bin" and cond[1] == "<" and cond[2] == ("id", j)):
            raise Unsupported("loop outside the min/max pattern (bound)")
        if not (step and step[0] in ("preinc", "postinc") and step[1] == "++" and step[2] == ("id", j)):
            raise Unsupported("loop outside the min/max pattern (step)")
        bound = self.ev(st, cond[3])
        if kind(bound) != "int":
            raise Unsupported("loop bound outside the language")
        stmts = body[1] if body[0] == "block" else [body]
        for b in stmts:
            ok = (b[0] == "expr" and b[1][0] == "assign" and b[1][1] == "=" and b[1][2][0] == "id")
            if not ok: raise Unsupported("loop body outside the min/max pattern")
            v = b[1][2]; rhs = b[1][3]
            ok = (rhs[0] == "cond" and rhs[1][0] == "bin" and rhs[1][1] in ("<", ">") and rhs[1][2] == v and rhs[2] == v
                  and rhs[1][3] == rhs[3] and rhs[3][0] == "index" and rhs[3][2] == ("id", j) and rhs[3][1][0] == "id")
            if not ok: raise Unsupported("loop body outside the min/max pattern")
            arr = self.ev(st, rhs[3][1])
            if arr[0] != "path" or arr[2] != ():
                raise Unsupported("min/max loop over something that is not an array parameter")
            cur = st.loc.get(v[1], ("undef",))
            if cur[0] in ("undef", "opaque"):
                raise Unsupported("min/max loop accumulator not initialised in the language")
            st.loc[v[1]] = ("loopmin" if rhs[1][1] == "<" else "loopmax", cur, arr, bound)
        st.loc[j] = ("opaque", "loop index after loop")
        return st

    def error_block(self, st, s):
        # s = ("if", cond, then, else) whose then-branch calls xerbla_
        if s[3] is not None:
            raise Unsupported("error block with an else branch")
        cands = []
        if ("path", "info", ("*",)) in st.mem: cands.append(("*info", st.mem[("path", "info", ("*",))]))
        if "info" in st.loc and "info" not in st.params: cands.append(("info", st.loc["info"]))
        if len(cands) != 1:
            raise Unsupported("cannot identify the info variable")
        iname, ival = cands[0]
        c = as_prop(self.ev(st, s[1]))
        if c != ("cmp", "!=", ival, ("int", 0)) and c != as_prop(ival):
            raise Unsupported("error block condition is not `info != 0`")
        stmts = s[2][1] if s[2][0] == "block" else [s[2]]
        b = st.copy()
        name, pos, returned = None, None, False
        for x in stmts:
            if x[0] == "expr" and x[1][0] == "call" and x[1][1] == ("id", "xerbla_"):
                if name is not None: raise Unsupported("two xerbla_ calls")
                args = [self.ev(b, a) for a in x[1][2]]
                if len(args) != 2 or args[0][0] != "str" or args[1][0] != "addr":
                    raise Unsupported("xerbla_ call outside the pattern")
                name = args[0][1]
                pos = b.loc.get(args[1][1])
            elif x[0] == "expr" and x[1][0] == "assign" and x[1][1] == "=" and x[1][2][0] == "id":
                if name is not None: raise Unsupported("statement between xerbla_ and return")
                b.loc[x[1][2][1]] = self.ev(b, x[1][3])
            elif x[0] == "return":
                if name is None: raise Unsupported("return before xerbla_")
                returned = True
                break
            else:
                raise Unsupported("statement in the error block outside the pattern")
        if name is None or not returned:
            raise Unsupported("error block does not end with xerbla_ + return")
        if pos == ("neg", ival): sign = -1
        elif pos == ival: sign = 1
        else: raise Unsupported("xerbla_ position is neither info nor -info")
        if kind(ival) != "int":
            raise Unsupported("info value outside the language: %r" % (ival[:2],))
        self.result = {"xname": name, "info": ival, "sign": sign, "prewrites": list(st.prewrites), "infovar": iname,
                       "locals": dict(st.loc)}


def find_opaque(v):
    if isinstance(v, tuple):
        if v and v[0] in ("opaque", "undef", "str", "addr", "ucharptr"):
            return v
        for x in v[1:]:
            r = find_opaque(x)
            if r: return r
    return None


def translate_routine(path, fname):
    text = preprocess(path)
    toks = lex(text)
    types = find_typenames(toks)
    enums = find_enums(toks)
    enumvals = {n: v for items in enums.values() for n, v in items}
    lb, ptoks = find_function(toks, fname)
    params = parse_params(ptoks)
    P = Parser(toks, types); P.i = lb
    P.expect("{")
    ex = Exec(params, enumvals)
    st = State(params)
    while ex.result is None:
        if P.peek() == ("op", "}"):
            raise Unsupported("%s: no error block (xerbla_ + return) found" % fname)
        s = P.stmt()
        st = ex.run_stmt(st, s, top=True)
    bad = find_opaque(ex.result["info"])
    if bad:
        raise Unsupported("%s: info depends on a value outside the language: %r" % (fname, bad))
    ex.result["params"] = params
    ex.result["enums"] = enums
    return ex.result


# ------------------------------------------------------------------------------------------ Lean emission
LEAN_OP = {"<": "<", "<=": "≤", ">": ">", ">=": "≥", "==": "=", "!=": "≠"}


def field_of(p):
    """('path', root, fields) -> Args field name"""
    parts = [p[1]] + [f for f in p[2] if f not in ("*", "Store")]
    return "_".join(parts)


class Emitter:
    def __init__(self):
        self.fields = []      # (name, type) in order of first appearance
        self.enums_used = set()
        self.lets = {}        # id(node) -> name   (shared Int-valued ite nodes)

    def use_field(self, name, ty="Int"):
        if (name, ty) not in self.fields:
            if any(n == name for n, _ in self.fields):
                raise Unsupported("field %s used with two types" % name)
            self.fields.append((name, ty))
        return "a." + name

    def int_(self, v, letnames=None):
        t = v[0]
        if letnames and v in letnames:
            return letnames[v]
        if t == "int":
            return str(v[1]) if v[1] >= 0 else "(%d)" % v[1]
        if t == "path":
            return self.use_field(field_of(v))
        if t == "enum":
            self.enums_used.add(v[1]); return v[1]
        if t == "char0":
            return self.use_field(field_of(v[1]))
        if t == "posconst":
            return self.use_field(v[1])
        if t in ("loopmin", "loopmax"):
            arr = self.use_field(field_of(v[2]), "List Int")
            return "(%s %s %s %s)" % ("loopMin" if t == "loopmin" else "loopMax", self.int_(v[1], letnames), arr, self.int_(v[3], letnames))
        if t == "neg":
            return "(-%s)" % self.int_(v[1], letnames)
        if t == "arith":
            return "(%s %s %s)" % (self.int_(v[2], letnames), v[1], self.int_(v[3], letnames))
        if t == "ite":
            c, a, b = v[1], v[2], v[3]
            if c[0] == "cmp" and c[1] in ("<", ">") and c[2] == a and c[3] == b:   # SUPERLU_MIN / SUPERLU_MAX
                return "(%s %s %s)" % ("cmax" if c[1] == ">" else "cmin", self.int_(a, letnames), self.int_(b, letnames))
            return "(if %s then %s else %s)" % (self.prop(c, letnames), self.int_(a, letnames), self.int_(b, letnames))
        raise Unsupported("cannot print %r as an integer" % (v[:2],))

    def prop(self, v, letnames=None):
        t = v[0]
        if letnames and v in letnames:
            return letnames[v]
        if t == "true": return "True"
        if t == "false": return "False"
        if t == "cmp":
            return "%s %s %s" % (self.int_(v[2], letnames), LEAN_OP[v[1]], self.int_(v[3], letnames))
        if t == "and":
            return "(%s ∧ %s)" % (self.prop(v[1], letnames), self.prop(v[2], letnames))
        if t == "or":
            return "(%s ∨ %s)" % (self.prop(v[1], letnames), self.prop(v[2], letnames))
        if t == "not":
            return "¬(%s)" % self.prop(v[1], letnames)
        if t == "lsame":
            return "lsame %s %d = true" % (self.use_field(field_of(v[1])), v[2])
        if t == "ite":
            return "(if %s then %s else %s)" % (self.prop(v[1], letnames), self.prop(v[2], letnames), self.prop(v[3], letnames))
        raise Unsupported("cannot print %r as a truth value" % (v[:2],))


def shared_ites(root):
    """Int-valued ite nodes (not min/max shaped) that occur more than once, in post-order."""
    count, order = {}, []

    def walk(v):
        if not isinstance(v, tuple) or not v:
            return
        if v[0] == "ite" and kind(v) == "int":
            c = v[1]
            minmax = c[0] == "cmp" and c[1] in ("<", ">") and c[2] == v[2] and c[3] == v[3]
            if not minmax:
                count[v] = count.get(v, 0) + 1
                if count[v] > 1:
                    return
        for x in v[1:]:
            walk(x)
        if v[0] == "ite" and kind(v) == "int" and v in count and v not in order:
            order.append(v)
    walk(root)
    return [v for v in order if count[v] > 1]


def emit_chain(em, v, letnames, ind):
    """pretty-print an Int-valued ite chain, one test per line"""
    pad = "  " * ind
    lines = []
    first = True
    while v[0] == "ite" and v not in letnames and not (v[1][0] == "cmp" and v[1][1] in ("<", ">") and v[1][2] == v[2] and v[1][3] == v[3]):
        c, a, b = v[1], v[2], v[3]
        head = "if " if first else "else if "
        if a[0] == "ite" and a not in letnames:
            lines.append(pad + head + em.prop(c, letnames) + " then (")
            lines += emit_chain(em, a, letnames, ind + 2)
            lines.append(pad + "  )")
        else:
            lines.append(pad + head + em.prop(c, letnames) + " then " + em.int_(a, letnames))
        v = b; first = False
    lines.append(pad + ("" if first else "else ") + em.int_(v, letnames))
    return lines


def generate():
    src = os.path.join(repo(), "SRC")
    results = {}
    enums_all = None
    for fam, fpat, npat, rec in FAMILIES:
        for p in PRECS:
            r = translate_routine(os.path.join(src, fpat % p), npat % p)
            results[(fam, p)] = r
            if enums_all is None:
                enums_all = r["enums"]
            else:
                for t in ENUM_TYPES:
                    if r["enums"].get(t) != enums_all.get(t):
                        raise Unsupported("enum %s differs between translation units" % t)
    out = []
    w = out.append
    w("/- GENERATED by gen/argcheck.py from $REPO/SRC — do not edit; overwritten on every `check.py C15` run.")
    w("   Each `<routine>Chain` is the value of the routine's `info` variable when control reaches the")
    w("   `if (info != 0) { xerbla_(...); return; }` block, transcribed test by test (same order, same constants).")
    w("   `<routine>Check` = −(position handed to xerbla_), 0 when the routine goes on.")
    w("   `<routine>PreWrites` = stores through pointer parameters (other than *info) that precede that block.")
    w("   Translation assumptions: parameters do not alias; a variable assigned on one side of an `if` only keeps")
    w("   the assigned value (the other path must not read it). -/")
    w("import SluVerif.Model.ArgBase")
    w("namespace Slu.Gen")
    w("open Slu.Arg")
    w("")
    for t in ENUM_TYPES:
        items = enums_all.get(t)
        if not items:
            raise Unsupported("enum %s not found" % t)
        w("-- %s" % t)
        for n, v in items:
            w("@[simp] def %s : Int := %d" % (n, v))
    w("")
    body = []
    for fam, fpat, npat, rec in FAMILIES:
        em = Emitter()
        defs = []
        for p in "dscz":
            r = results[(fam, p)]
            fn = npat % p
            root = r["info"]
            letnames = {}
            # C locals holding a compound truth value that the info expression uses more than once
            # (rowequ, colequ, ...) become named definitions; so do shared intermediate info values.
            cnt = {}
            def count(v):
                if isinstance(v, tuple) and v:
                    cnt[v] = cnt.get(v, 0) + 1
                    for x in v[1:]:
                        count(x)
            count(root)
            named = []
            for lname, val in r["locals"].items():
                if kind(val) == "prop" and val[0] in ("ite", "and", "or", "not") and cnt.get(val, 0) >= 2 and val not in [x[1] for x in named]:
                    named.append((lname, val))
            named.sort(key=lambda x: (len(repr(x[1])), x[0]))
            for lname, val in named:
                nm = "%s_%s" % (fn, lname)
                defs.append("def %s (a : %s) : Prop :=\n  %s" % (nm, rec, em.prop(val, letnames)))
                defs.append("instance (a : %s) : Decidable (%s a) := by unfold %s; infer_instance" % (rec, nm, nm))
                letnames[val] = "%s a" % nm
            sh = shared_ites(root)
            for k, node in enumerate(sh):
                nm = "%s_info%d" % (fn, k + 1)
                sub = emit_chain(em, node, letnames, 1)
                defs.append("\n".join(["def %s (a : %s) : Int :=" % (nm, rec)] + sub))
                letnames[node] = "%s a" % nm
            lines = ["def %sChain (a : %s) : Int :=" % (fn, rec)]
            lines += emit_chain(em, root, letnames, 1)
            defs.append("\n".join(lines))
            defs.append("def %sCheck (a : %s) : Int := %s%sChain a" % (fn, rec, "" if r["sign"] == -1 else "-", fn))
            defs.append("def %sXerblaName : String := %s" % (fn, lean_str(r["xname"])))
            defs.append("def %sPreWrites : List String := [%s]" % (fn, ", ".join(lean_str(s) for s in r["prewrites"])))
            defs.append("def %sParams : List String := [%s]" % (fn, ", ".join(lean_str(n) for n, _, _ in r["params"])))
        body.append("/-! ### family %s -/" % fam)
        body.append("structure %s where" % rec)
        for n in DOC_FIELDS.get(fam, []):
            em.use_field(n)
        pnames = [n for n, _, _ in results[(fam, "d")]["params"]]
        def fkey(item):
            n = item[0]
            cands = [i for i, pn in enumerate(pnames) if n == pn or n.startswith(pn + "_")]
            return (max(cands, key=lambda i: len(pnames[i])) if cands else len(pnames))
        for n, ty in sorted(em.fields, key=fkey):   # stable: parameter position, then first use
            body.append("  %s : %s" % (n, ty))
        body.append("  deriving Repr")
        body.append("")
        for d in defs:
            body.append(d)
        body.append("")
    out += body
    w("end Slu.Gen")
    text = "\n".join(out) + "\n"
    os.makedirs(os.path.dirname(OUT), exist_ok=True)
    old = open(OUT).read() if os.path.exists(OUT) else None
    if old != text:
        open(OUT, "w").write(text)
    return text


def lean_str(s):
    return '"' + s.replace("\\", "\\\\").replace('"', '\\"') + '"'


if __name__ == "__main__":
    t = generate()
    sys.stdout.write(t if "-v" in sys.argv else "wrote %s (%d bytes)\n" % (OUT, len(t)))
