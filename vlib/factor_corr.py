"""Correspondence of whole factorizations: real p?gstrf (through the drivers) vs Model/LU.lean (sludrv factor)
on the discrete outputs (info, perm_r), under the decision-margin rule."""
from fractions import Fraction
from . import common as C, sweep as S
from .drv import dy


def factor_case_text(cid, F, perm_c, u, usepr=0, old_inv=None, rhs=()):
    n = F.n
    inv = [0] * n
    for i, j in enumerate(perm_c):
        inv[j] = i
    uf = Fraction(u).limit_denominator(1 << 60)
    out = ["case %s %d %d %d %d" % (cid, n, uf.numerator, uf.denominator, usepr)]
    out.append(" ".join(map(str, inv)))
    out.append(" ".join(map(str, old_inv if old_inv else [0] * n)))
    trip = []
    for j, col in F.cols():
        for i, v in col:
            trip.append("%d %d %d %d" % ((i, perm_c[j]) + dy(v)))
    out.append(str(len(trip)))
    out += trip
    out.append(str(len(rhs)))
    for b in rhs:
        out.append(" ".join("%d %d" % dy(v) for v in b))
    return "\n".join(out) + "\n"


def parse_factor(text):
    res = {}
    cur = None
    for line in text.split("\n"):
        t = line.split()
        if not t:
            continue
        if t[0] == "case":
            cur = {"info": int(t[3]), "ambiguous": int(t[5]), "usepr": int(t[7]), "permr": [int(x) for x in t[9:]], "x": {}}
            res[t[1]] = cur
        elif t[0] == "x" and t[2] != "singular":
            cur["x"][int(t[1])] = [Fraction(v) for v in t[2:]]
    return res


def compare(ctx, recs, nmax=24, with_x=False):
    """recs from sweep (real precisions). -> stats, disagreements.  with_x: also compare the returned X with the exact solution
    of the model's triangular solves (`solveN`, theorem solve_correct) — only meaningful for well-conditioned inputs (callers pass
    diagonally dominant populations) and column storage."""
    items = []
    for r in recs:
        cfg = r["cfg"]
        if r["status"] != "ok" or cfg["n"] > nmax or r["M"].cplx or "res" not in r or r["info"] < 0 or r["info"] > cfg["n"]:
            continue
        F = S.transpose(r["M"]) if cfg["stype"] == "NR" else r["M"]
        u = cfg["u"] if cfg["driver"] != "gssv" else 1.0
        rhs = ()
        if with_x and cfg["stype"] == "NC" and cfg["nrhs"] > 0 and r["info"] == 0 and cfg.get("trans", 0) == 0 and cfg.get("fact", 0) == 0:
            rhs = r["rhs"]
        items.append((r, factor_case_text("c%d" % cfg["t"], F, r["res"]["perm_c"], u, rhs=rhs)))
    stats = {"compared": 0, "ambiguous_skipped": 0, "singular_model": 0, "perm_r_equal": 0, "x_compared": 0, "x_max_rel_diff": 0.0}
    dis = []
    if not items:
        return stats, dis
    out = parse_factor(C.run_sludrv("factor", "".join(t for _, t in items), timeout=900))
    for r, _ in items:
        cfg = r["cfg"]; m = out.get("c%d" % cfg["t"])
        if m is None:
            dis.append({"kind": "missing", "cfg": cfg}); continue
        if m["ambiguous"]:
            stats["ambiguous_skipped"] += 1
            if m["info"]:
                stats["singular_model"] += 1
            continue
        stats["compared"] += 1
        bad = []
        if (m["info"] != 0) != (r["info"] != 0) or (m["info"] and m["info"] != r["info"]):
            bad.append("info model=%d code=%d" % (m["info"], r["info"]))
        elif m["info"] == 0:
            if m["permr"] != r["res"]["perm_r"]:
                bad.append("perm_r")
            else:
                stats["perm_r_equal"] += 1
                if with_x and m["x"]:
                    pc = r["res"]["perm_c"]; n = cfg["n"]; ld = cfg["ld"]
                    tol = 1e-9 if cfg["prec"] == "d" else 2e-3
                    for k, xm in m["x"].items():
                        xc = r["res"]["X"][k * ld:k * ld + n]
                        scale = max([abs(v) for v in xm] + [Fraction(1, 10 ** 30)])
                        d = max(abs(Fraction(xc[j]) - xm[pc[j]]) for j in range(n)) / scale
                        stats["x_compared"] += 1; stats["x_max_rel_diff"] = max(stats["x_max_rel_diff"], float(d))
                        if d > tol * n:
                            bad.append("X column %d differs from the exact solve of the model by %.3g (relative to max|x|)" % (k, float(d)))
        if bad:
            dis.append({"kind": "factor-disagreement", "fields": bad, "model": {"info": m["info"], "permr": m["permr"]},
                        "code": {"info": r["info"], "permr": r["res"]["perm_r"]}, "replay": S.replay_blob(r)})
    return stats, dis
