"""Independent writer of Harwell-Boeing / Rutherford-Boeing / SuperLU_MT column-list matrix files (for C20).

Nothing here is derived from the Lean model or from the C readers: the files are composed from the
format definitions (HB user guide: header cards (A72,A8)/(5I14)/(A3,11X,4I14)/(2A16,2A20)/(A3,11X,2I14);
RB: (A72,A8)/(I14,3(1X,I13))/(A3,11X,4(1X,I13))/(2A16,A20); Fortran I/E/D/F edit descriptors with optional
kP scale factor and Ee exponent width), and every number printed is kept as an exact integer / Fraction
next to its text (ground truth).
"""
import random
from functools import lru_cache
from fractions import Fraction


# ----------------------------------------------------------------------------- exact rounding
def round_bin(q, p, emin_ulp, emax):
    """nearest (ties to even) binary floating point number with p-bit significand, smallest ulp
    2^emin_ulp, largest finite < 2^(emax+1).  Returns Fraction, or +-'inf' as float('inf').
    Integer arithmetic only."""
    if q == 0:
        return Fraction(0)
    s = -1 if q < 0 else 1
    n, d = abs(q.numerator), q.denominator
    # e = floor(log2(n/d))
    e = n.bit_length() - d.bit_length()
    if (n if e >= 0 else n << -e) < (d << e if e >= 0 else d):
        e -= 1
    ue = max(e - p + 1, emin_ulp)                 # exponent of the unit in the last place
    num, den = (n, d << ue) if ue >= 0 else (n << -ue, d)
    m, r = divmod(num, den)
    if 2 * r > den or (2 * r == den and (m & 1)):
        m += 1
    if m.bit_length() + ue > emax + 1:
        return s * float("inf")
    return Fraction(s * m << ue) if ue >= 0 else Fraction(s * m, 1 << -ue)


@lru_cache(maxsize=1 << 20)
def rn53(q):
    return round_bin(q, 53, -1074, 1023)


@lru_cache(maxsize=1 << 20)
def rn24(q):
    if isinstance(q, float):      # inf stays inf
        return q
    return round_bin(q, 24, -149, 127)


@lru_cache(maxsize=1 << 20)
def hex_to_exact(tok):
    """C `%a` token -> Fraction (or float inf/nan)."""
    t = tok.lower()
    if "inf" in t or "nan" in t:
        return float(t)
    return Fraction(*float.fromhex(tok).as_integer_ratio())


# ----------------------------------------------------------------------------- numbers as text
def digits(rng, k, lead_nonzero=False):
    mode = rng.random()
    if mode < 0.08:
        s = "9" * k
    elif mode < 0.14:
        s = "0" * k
    elif mode < 0.2:
        s = "".join(rng.choice("05") for _ in range(k))
    else:
        s = "".join(rng.choice("0123456789") for _ in range(k))
    if lead_nonzero and k > 0 and s[0] == "0":
        s = rng.choice("123456789") + s[1:]
    return s


def pick_exp(rng, wide):
    r = rng.random()
    if r < 0.45:
        return rng.randint(-3, 3)
    if r < 0.85:
        return rng.randint(-25, 25)
    if r < 0.97 or not wide:
        return rng.randint(-60, 60)
    return rng.choice([-330, -320, -310, -300, -150, -46, -45, -44, 38, 39, 300, 308, 309])


class ValFmt:
    """a Fortran real edit descriptor  [kP]nXw.d[Ee]  with X in E D F (either case)."""

    def __init__(self, rng, cplx=False, maxline=80, force=None):
        f = force or {}
        self.kind = f.get("kind") or rng.choice("EEEDDF")
        self.lower = f.get("lower", rng.random() < 0.2)
        self.k = f.get("k", rng.choice([0, 0, 0, 1, 1, 2]))          # scale factor (kP); 0 = not written
        if self.kind == "F":
            self.k = f.get("k", 0 if rng.random() < 0.7 else rng.choice([0, 1]))
        self.d = f.get("d", rng.choice([1, 2, 3, 5, 8, 8, 12, 16, 17, 18, 20]))
        self.expw = f.get("expw", rng.choice([2, 2, 2, 3]))           # digits of the exponent
        self.show_expw = f.get("show_expw", self.expw == 3 and self.kind != "F" and rng.random() < 0.5)
        self.ipmax = rng.choice([1, 2, 4, 7])

        def need():
            if self.kind == "F":
                return 1 + self.ipmax + 1 + self.d
            return 1 + max(1, self.k) + 1 + self.d + 2 + self.expw    # sign, int part, '.', frac, E+, digits
        self.w = f.get("w", need() + rng.choice([0, 0, 1, 2, 5]))
        if self.w > maxline or need() > self.w:
            self.d = max(1, self.d - max(self.w - maxline, need() - self.w, 0))
            if need() > maxline:
                self.d = 1; self.ipmax = 1
            self.w = min(maxline, max(self.w, need())) if "w" not in f else f["w"]
            while need() > self.w and self.d > 1:
                self.d -= 1
        top = max(1, maxline // self.w)
        self.perline = f.get("perline", rng.choice([1, 2, 3, 4, 5, 6, 8, top, top]))
        self.perline = max(1, min(self.perline, top))
        self.pstyle = f.get("pstyle", rng.choice(["1P", "1p"]) if self.k else "")

    def descriptor(self):
        L = self.kind.lower() if self.lower else self.kind
        p = ""
        if self.k:
            p = "%d%s" % (self.k, "p" if self.lower else "P")
        s = "(%s%d%s%d.%d" % (p, self.perline, L, self.w, self.d)
        if self.show_expw:
            s += "%s%d" % ("e" if self.lower else "E", self.expw)
        return s + ")"

    def value(self, rng, wide=True):
        """-> (text of exactly self.w chars, exact Fraction)"""
        neg = rng.random() < 0.4
        sign = "-" if neg else ("+" if rng.random() < 0.05 else "")
        if self.kind == "F":
            ip = digits(rng, rng.randint(0, self.ipmax))
            fp = digits(rng, self.d)
            if ip == "" and rng.random() < 0.5:
                ip = "0"
            body = ip + "." + fp
            val = Fraction(int((ip + fp) or "0"), 10 ** len(fp))
        else:
            k = self.k
            if k > 0:
                ip = digits(rng, k, lead_nonzero=True); fp = digits(rng, max(0, self.d - k + 1))
            else:
                ip = "0" if rng.random() < 0.7 else ""
                fp = digits(rng, self.d, lead_nonzero=rng.random() < 0.9)
            e = pick_exp(rng, wide)
            if abs(e) >= 10 ** self.expw:
                e = e % (10 ** self.expw)
            letter = self.kind.lower() if (self.lower or rng.random() < 0.05) else self.kind
            es = ("-" if e < 0 else "+")
            if e >= 0 and rng.random() < 0.04:
                es = ""                                   # "E05": legal exponent without sign
            body = ip + "." + fp + letter + es + ("%0*d" % (self.expw, abs(e)))
            val = Fraction(int((ip + fp) or "0")) * Fraction(10) ** (e - len(fp))
        txt = sign + body
        if len(txt) > self.w:
            # drop the optional '+' / leading zero to fit (Fortran does the same)
            if sign == "+":
                txt = body
            if len(txt) > self.w and txt.lstrip("+-").startswith("0."):
                txt = txt.replace("0.", ".", 1)
        assert len(txt) <= self.w, (txt, self.w, self.descriptor())
        if neg:
            val = -val
        return txt.rjust(self.w), val


class IntFmt:
    def __init__(self, rng, maxval, maxline=80, force=None):
        f = force or {}
        need = len(str(maxval))
        self.w = f.get("w", need + rng.choice([0, 0, 1, 1, 2, 3, 6]))
        self.w = min(self.w, maxline)
        top = max(1, maxline // self.w)
        self.perline = f.get("perline", rng.choice([1, 2, 3, 5, 8, 10, 13, 16, 20, top, top, top]))
        self.perline = max(1, min(self.perline, top))
        self.lower = f.get("lower", rng.random() < 0.25)

    def descriptor(self):
        return "(%d%s%d)" % (self.perline, "i" if self.lower else "I", self.w)


def pack_lines(fields, perline, pad_to, rng):
    """fixed-width fields -> card images; the last card is short; trailing padding is optional."""
    out = []
    for i in range(0, len(fields), perline):
        line = "".join(fields[i:i + perline])
        if pad_to and rng.random() < 0.5:
            line = line.ljust(rng.choice([80, pad_to, len(line) + 1]))
        out.append(line)
    return out


# ----------------------------------------------------------------------------- matrices
class GenMat:
    """m x n, column lists in file order (row indices 0-based, not necessarily sorted), exact values."""

    def __init__(self, m, n, cols, cplx):
        self.m, self.n, self.cols, self.cplx = m, n, cols, cplx      # cols: list of list of row index
        self.colptr = [0]
        for c in cols:
            self.colptr.append(self.colptr[-1] + len(c))
        self.rowind = [i for c in cols for i in c]
        self.nnz = len(self.rowind)


def random_pattern(rng, small=True, square=None):
    r = rng.random()
    if r < 0.05:
        n = 0
    elif r < 0.35:
        n = rng.randint(1, 4)
    elif r < 0.9 or small:
        n = rng.randint(5, 30)
    else:
        n = rng.randint(31, 120)
    if square is None:
        square = rng.random() < 0.6
    m = n if square else rng.choice([1, 2, 3, rng.randint(1, 40), n + rng.randint(0, 5)])
    if n > 0 and m == 0:
        m = 1
    dens = rng.choice([0.0, 0.05, 0.15, 0.3, 0.6, 1.0])
    cols = []
    for j in range(n):
        if rng.random() < 0.15:
            cols.append([]); continue
        k = sum(1 for _ in range(m) if rng.random() < dens)
        k = max(1 if rng.random() < 0.7 else 0, min(k, m))
        rows = rng.sample(range(m), k)
        if rng.random() < 0.8:
            rows.sort()
        cols.append(rows)
    if rng.random() < 0.04:
        cols = [[] for _ in range(n)]
    return m, n, cols


# ----------------------------------------------------------------------------- HB / RB
def i14(v):
    return "%14d" % v


def write_hb_rb(rng, fmt, M, opt=None):
    """-> (text, truth dict, meta dict).  fmt in {'hb','rb'}.
    opt: dict of overrides: mxtype, pattern(bool), rhs(bool), longlines(int pad target), maxline."""
    opt = opt or {}
    maxline = opt.get("maxline", 80)
    pad_to = opt.get("pad_to", 80)
    cf = IntFmt(rng, max(1, M.nnz + 1), maxline, opt.get("cf"))
    rf = IntFmt(rng, max(1, M.m), maxline, opt.get("rf"))
    vf = ValFmt(rng, M.cplx, maxline, opt.get("vf"))
    pattern = opt.get("pattern", False)
    ptr_fields = [str(p + 1).rjust(cf.w) for p in M.colptr]
    ind_fields = [str(i + 1).rjust(rf.w) for i in M.rowind]
    vals = []; val_fields = []
    if not pattern:
        for _ in range(M.nnz * (2 if M.cplx else 1)):
            t, q = vf.value(rng, wide=opt.get("wide", True))
            val_fields.append(t); vals.append(q)
    ptr_lines = pack_lines(ptr_fields, cf.perline, pad_to, rng)
    ind_lines = pack_lines(ind_fields, rf.perline, pad_to, rng)
    val_lines = pack_lines(val_fields, vf.perline, pad_to, rng)
    # optional right-hand side block (HB only): header card 5 + data cards after the values
    rhs = fmt == "hb" and opt.get("rhs", rng.random() < 0.4)
    rhs_lines = []; rhs_fmt = ""
    if rhs:
        nrhs = rng.randint(1, 2)
        rvf = ValFmt(rng, False, maxline)
        rhs_fmt = rvf.descriptor()
        fields = [rvf.value(rng)[0] for _ in range(nrhs * M.m * (2 if M.cplx else 1))]
        rhs_lines = pack_lines(fields, rvf.perline, pad_to, rng)
        if not rhs_lines:
            rhs = False; rhs_fmt = ""
    mxtype = opt.get("mxtype") or (("P" if pattern else ("C" if M.cplx else "R")) + ("U" if M.m == M.n else "R") + "A")
    title = opt.get("title")
    if title is None:
        title = "".join(rng.choice("abcdefghijklmnopqrstuvwxyz ,.;-_0123456789(I)EeDdPp") for _ in range(rng.randint(0, 72)))
    key = "".join(rng.choice("ABCDEFGH0123456789") for _ in range(rng.randint(0, 8)))
    def endpad(s, minlen):
        s = s.ljust(minlen)
        if rng.random() < 0.5:
            s = s.ljust(rng.choice([80, minlen + 1, minlen + 3]))
        return s
    lines = []
    lines.append(title.ljust(72) + key.ljust(8))
    tot = len(ptr_lines) + len(ind_lines) + len(val_lines) + len(rhs_lines)
    if fmt == "hb":
        lines.append(endpad(i14(tot) + i14(len(ptr_lines)) + i14(len(ind_lines)) + i14(len(val_lines)) + i14(len(rhs_lines)), 70))
        lines.append(endpad(mxtype.ljust(3) + " " * 11 + i14(M.m) + i14(M.n) + i14(M.nnz) + i14(0), 70))
        lines.append(endpad(cf.descriptor().ljust(16) + rf.descriptor().ljust(16) + vf.descriptor().ljust(20) + rhs_fmt.ljust(20), 72))
        if rhs:
            lines.append(endpad(("F" + rng.choice("  G") + rng.choice("  X")).ljust(14) + i14(nrhs) + i14(0), 42))
    else:
        x13 = lambda v: " " + ("%13d" % v)
        lines.append(endpad(i14(tot) + x13(len(ptr_lines)) + x13(len(ind_lines)) + x13(len(val_lines)), 56))
        lines.append(endpad(mxtype.lower().ljust(3) + " " * 11 + x13(M.m) + x13(M.n) + x13(M.nnz) + x13(0), 70))
        lines.append(endpad(cf.descriptor().ljust(16) + rf.descriptor().ljust(16) + vf.descriptor().ljust(20), 52))
    lines += ptr_lines + ind_lines + val_lines + rhs_lines
    text = "\n".join(lines) + "\n"
    if rng.random() < 0.1:
        text += "trailing junk line\n"
    truth = {"m": M.m, "n": M.n, "nnz": M.nnz, "colptr": list(M.colptr), "rowind": list(M.rowind),
             "vals": None if (pattern or len(val_lines) == 0) else vals}
    meta = {"fmt": fmt, "ptrfmt": cf.descriptor(), "indfmt": rf.descriptor(), "valfmt": vf.descriptor(), "rhs": bool(rhs),
            "mxtype": mxtype, "maxlinelen": max(len(l) for l in lines), "novals": len(val_lines) == 0}
    return text, truth, meta


# ----------------------------------------------------------------------------- MT column-list text form
def mt_value(rng):
    """free-format decimal accepted by scanf %lf: -> (text, Fraction)"""
    neg = rng.random() < 0.4
    sign = "-" if neg else ("+" if rng.random() < 0.05 else "")
    style = rng.random()
    ip = digits(rng, rng.randint(0, 4)); fp = digits(rng, rng.randint(0, 18))
    if ip == "" and fp == "":
        ip = "7"
    if style < 0.15 and ip != "":
        body = ip; fp = ""                                   # plain integer
    elif style < 0.25 and ip != "":
        body = ip + "."; fp = ""
    else:
        body = ip + "." + fp
        if fp == "" and ip == "":
            body = "0."
    val = Fraction(int((ip + fp) or "0"), 10 ** len(fp))
    if rng.random() < 0.6:
        e = pick_exp(rng, True)
        body += rng.choice("eE") + rng.choice(["-"] if e < 0 else ["+", "+", ""]) + ("%0*d" % (rng.choice([1, 2, 3]), abs(e)))
        val *= Fraction(10) ** e
    return sign + body, (-val if neg else val)


def write_mt(rng, M, opt=None):
    opt = opt or {}
    title = "".join(rng.choice("abcdefghij klmnop 0123456789") for _ in range(rng.randint(0, opt.get("titlemax", 79))))
    ws = lambda: rng.choice([" ", " ", "  ", "\n", "\t", " \n", "   "])
    out = [title, "\n", rng.choice(["", " ", "  "]), str(M.m), ws(), str(M.n), ws(), str(M.nnz), rng.choice(["\n", " \n", "\n\n"])]
    vals = []
    for c in M.cols:
        out += [rng.choice(["", " ", "   "]), str(len(c)), rng.choice(["\n", " ", "  \n"])]
        for i in c:
            t, q = mt_value(rng); vals.append(q)
            out += [rng.choice(["", " ", "    "]), str(i + 1), rng.choice([" ", "  ", "\t"]), t]
            if M.cplx:
                t, q = mt_value(rng); vals.append(q)
                out += [rng.choice([" ", "  "]), t]
            out.append(rng.choice(["\n", "\n", " \n", "  ", "\n\n"]))
    text = "".join(out)
    if not text.endswith("\n"):
        text += "\n"
    truth = {"m": M.m, "n": M.n, "nnz": M.nnz, "colptr": list(M.colptr), "rowind": list(M.rowind), "vals": vals}
    return text, truth, {"fmt": "mt", "novals": False, "maxlinelen": max(len(l) for l in text.split("\n"))}


# ----------------------------------------------------------------------------- symmetric files
def symmetric_case(rng, fmt, n=None):
    """lower triangle stored with type RSA; truth = the full (expanded) matrix as a set of entries."""
    n = n or rng.randint(2, 8)
    cols = []
    for j in range(n):
        rows = [j] + [i for i in range(j + 1, n) if rng.random() < 0.4]
        cols.append(rows)
    if all(len(c) == 1 for c in cols):
        cols[0].append(n - 1)
    M = GenMat(n, n, cols, False)
    text, truth, meta = write_hb_rb(rng, fmt, M, {"mxtype": "RSA", "rhs": False})
    ent = {}
    k = 0
    for j, c in enumerate(cols):
        for i in c:
            ent[(i, j)] = truth["vals"][k]; ent[(j, i)] = truth["vals"][k]; k += 1
    return text, truth, meta, ent


# ----------------------------------------------------------------------------- independent HB parse (bundled files)
def parse_hb(text, cplx):
    """format-definition parse of a Harwell-Boeing image (used as ground truth for the files shipped in EXAMPLE/):
    card 2 (5I14), card 3 (A3,11X,4I14), card 4 (2A16,2A20), optional card 5, then fixed-width data cards."""
    import re
    from decimal import Decimal
    L = text.split("\n")
    c2 = [int(L[1][14 * i:14 * i + 14] or 0) for i in range(5)]
    c3 = [int(L[2][14 + 14 * i:28 + 14 * i]) for i in range(3)]
    m, n, nnz = c3
    def desc(s):
        mo = re.search(r"\(\s*(?:\d+\s*[Pp]\s*,?\s*)?(\d+)\s*([IiEeDdFf])\s*(\d+)", s)
        return int(mo.group(1)), int(mo.group(3))
    pf, idf, vf = desc(L[3][0:16]), desc(L[3][16:32]), desc(L[3][32:52])
    pos = 4 + (1 if c2[4] > 0 else 0)
    def take(count, fmt, conv):
        nonlocal pos
        out = []
        while len(out) < count:
            line = L[pos]; pos += 1
            for j in range(fmt[0]):
                if len(out) == count:
                    break
                out.append(conv(line[j * fmt[1]:(j + 1) * fmt[1]]))
        return out
    colptr = take(n + 1, pf, lambda f: int(f) - 1)
    rowind = take(nnz, idf, lambda f: int(f) - 1)
    vals = None
    if c2[3] > 0:
        vals = take(nnz * (2 if cplx else 1), vf, lambda f: Fraction(Decimal(f.strip().replace("D", "E").replace("d", "e"))))
    return {"m": m, "n": n, "nnz": nnz, "colptr": colptr, "rowind": rowind, "vals": vals}
