"""Call histories on one sparsity pattern (C08) and prefix/probe differentials (C18), driven through h_drv."""
import random
from fractions import Fraction
from . import common as C, gen as G, drv as D, sweep as S, exact as X

U = {"s": 2.0 ** -24, "d": 2.0 ** -53, "c": 2.0 ** -24, "z": 2.0 ** -53}


def new_values(rng, M, mode="float"):
    gv = G.values(rng, mode)
    vals = [gv() for _ in M.vals]
    # keep the matrix comfortably nonsingular: boost the diagonal
    for j in range(M.n):
        for k in range(M.colptr[j], M.colptr[j + 1]):
            if M.rowind[k] == j:
                vals[k] = (abs(vals[k]) + 1.0) * (4.0 + M.n * 0.5) * rng.choice([-1, 1])
    return vals


def to_prec(rng, M, prec):
    """the matrix in the precision of the run: complex precisions get an imaginary part of at most the size of the real one
    (exact zeros stay exact zeros), single precisions are rounded"""
    if prec in "cz" and not M.cplx:
        M = G.Mat(M.n, M.colptr, M.rowind, [((v, rng.uniform(-1, 1) * abs(v)) if v != 0.0 else (0.0, 0.0)) for v in M.vals], True)
    if prec in "sc": G.round_single(M)
    return M


def rhs_prec(rng, n, prec):
    b = rand_rhs(rng, n, prec in "sc")
    return [(v, w) for v, w in zip(b, rand_rhs(rng, n, prec in "sc"))] if prec in "cz" else b


def gen_history(rng, hid, prec="d", maxlen=8):
    n = rng.choice([2, 3, 5, 8, 12, rng.randint(4, 24)])
    M = G.random_matrix(rng, n, rng.choice(["random", "band", "arrow", "grid", "forest", "dense"]), "float")
    M.vals = new_values(rng, M)
    if prec == "s": G.round_single(M)
    ops = []
    length = rng.randint(2, maxlen)
    cur_vals = list(M.vals)
    have = False
    for i in range(length):
        if not have:
            kind = "first"
        else:
            kind = rng.choice(["refactor", "refactor", "refactor_same", "solve", "solve", "destroy_first", "scaled_refactor"])
        if kind in ("first", "destroy_first"):
            vals = new_values(rng, M)
            ops.append({"op": kind, "vals": vals, "u": rng.choice([1.0, 0.5, 0.1]), "P": rng.choice([1, 2, 4]), "colperm": rng.randint(0, 3)})
            cur_vals = vals; have = True
        elif kind == "refactor":
            if rng.random() < 0.35:
                # values in general position (no boosted diagonal): old pivots fail the threshold in some columns, so pivot reuse has to fall back
                gv = G.values(rng, "float"); vals = [gv() for _ in M.vals]
                ops.append({"op": "refactor", "vals": vals, "usepr": 1, "u": rng.choice([1.0, 1.0, 0.5]), "P": rng.choice([1, 2, 4])})
            else:
                vals = new_values(rng, M)
                ops.append({"op": "refactor", "vals": vals, "usepr": rng.choice([0, 1]), "u": rng.choice([1.0, 0.5, 0.1, 0.0]), "P": rng.choice([1, 2, 4])})
            cur_vals = vals
        elif kind == "refactor_same":
            ops.append({"op": "refactor", "vals": list(cur_vals), "usepr": 1, "u": ops_last_u(ops), "P": rng.choice([1, 2, 4]), "expect_same_pivots": True})
        elif kind == "scaled_refactor":
            f = rng.choice([2.0, 0.5, -4.0])
            vals = [v * f for v in cur_vals]
            ops.append({"op": "refactor", "vals": vals, "usepr": 1, "u": ops_last_u(ops), "P": rng.choice([1, 2, 4]), "expect_same_pivots": True})
            cur_vals = vals
        else:
            ops.append({"op": "solve", "trans": rng.choice([0, 1, 2]), "P": rng.choice([1, 3])})
    return {"id": hid, "prec": prec, "M": M, "ops": ops, "panel": rng.choice([1, 2, 8]), "relax": rng.choice([1, 2, 6])}


def gen_fallback_history(rng, hid, prec="d"):
    """pivot reuse that must fall back in SOME columns while other workers are busy elsewhere: many independent diagonal blocks
    (wide elimination forest), first factorization with diagonal pivots, then `usepr = YES` refactorizations whose new values make
    the old (diagonal) pivot of a few columns fail the threshold in favour of a row that is the old pivot row of an ancestor column."""
    nb = rng.randint(8, 24) if prec in "ds" else rng.randint(6, 10)      # (complex factors are judged through the 2n x 2n real embedding)
    bs = rng.choice([4, 6, 8]); n = nb * bs
    pat = set()
    for b in range(nb):
        o = b * bs
        for i in range(bs):
            pat.add((o + i, o + i))
            if i + 1 < bs and rng.random() < 0.8: pat.add((o + i + 1, o + i)); pat.add((o + i, o + i + 1))
            for _ in range(rng.randint(0, 2)):
                k = rng.randrange(bs); pat.add((o + i, o + k))
    M = G.from_pattern(n, pat, lambda i, j: 0.0, False); M.kind = "blockdiag-fallback"
    def dominant():
        v = []
        for j, col in M.cols():
            for i, _ in col:
                v.append(float(rng.choice([-1, 1]) * (8 + rng.random())) if i == j else float(rng.uniform(-1, 1)))
        return v
    V1 = dominant()
    def spoiled(base):
        v = list(base)
        for b in rng.sample(range(nb), max(1, nb // 4)):
            o = b * bs
            # a column whose old pivot (the diagonal) becomes tiny while an entry further down becomes the maximum
            for j in rng.sample(range(o, o + bs - 1), bs - 1):
                below = [k for k in range(M.colptr[j], M.colptr[j + 1]) if M.rowind[k] > j]
                dk = [k for k in range(M.colptr[j], M.colptr[j + 1]) if M.rowind[k] == j]
                if below and dk:
                    v[dk[0]] = 1.0 / 64; v[rng.choice(below)] = 5.0
                    break
        return v
    ops = [{"op": "first", "vals": V1, "u": 1.0, "P": rng.choice([1, 2, 4]), "colperm": 0}]
    cur = V1
    for _ in range(rng.randint(2, 4)):
        V2 = spoiled(V1)
        ops.append({"op": "refactor", "vals": V2, "usepr": 1, "u": 1.0, "P": rng.choice([2, 3, 4, 8])})
        ops.append({"op": "refactor", "vals": list(V1), "usepr": 0, "u": 1.0, "P": rng.choice([1, 2, 4])})
    if prec == "s": G.round_single(M)
    return {"id": hid, "prec": prec, "M": M, "ops": ops, "panel": rng.choice([1, 2, 8]), "relax": rng.choice([1, 2, 6])}


def ops_last_u(ops):
    for o in reversed(ops):
        if "u" in o: return o["u"]
    return 1.0


def rand_rhs(rng, n, single):
    import struct
    c = [rng.uniform(-1, 1) for _ in range(n)]
    if single: c = [struct.unpack("f", struct.pack("f", v))[0] for v in c]
    return c


def script_of(h, rng):
    M = h["M"]; n = M.n; single = h["prec"] in "sc"; cplx = h["prec"] in "cz"
    if cplx and not M.cplx:
        # complex copies of the drivers: every value v at nonzero position k becomes v * (1 + i t_k) with t_k fixed for the history, so that
        # "same values" and "values scaled by a power of two" mean the same as in the real case
        tk = [rng.uniform(-1, 1) for _ in M.vals]
        for o in h["ops"]:
            if "vals" in o: o["vals"] = [(v, v * t) for v, t in zip(o["vals"], tk)]
        M = h["M"] = G.Mat(n, M.colptr, M.rowind, [(v, v * t) for v, t in zip(M.vals, tk)], True)
    s = "ienv %d %d 200 200 100 -50 -50 -30\n" % (h["panel"], h["relax"])
    s += G.script_mat(0, M, single=single)
    rhs_list = []
    import struct
    r1 = (lambda x: struct.unpack("f", struct.pack("f", x))[0]) if single else (lambda x: x)
    for o in h["ops"]:
        b = rhs_prec(rng, n, h["prec"]); rhs_list.append(b)
        s += G.script_rhs(1, n, 1, n, [b], cplx, single)
        if o["op"] in ("first", "destroy_first"):
            if o["op"] == "destroy_first": s += "destroy\n"
            o["vals"] = [((r1(v[0]), r1(v[1])) if cplx else r1(v)) for v in o["vals"]]
            s += "setvals 0 " + G.fmt_vals(o["vals"], cplx, single) + "\n"
            s += "permc_get 0 %d\n" % o["colperm"]
            s += "gssvx 0 1 %d 0 0 0 0 %s %d %d 0 0\n" % (o["P"], float(o["u"]).hex(), h["panel"], h["relax"])
        elif o["op"] == "refactor":
            o["vals"] = [((r1(v[0]), r1(v[1])) if cplx else r1(v)) for v in o["vals"]]
            s += "setvals 0 " + G.fmt_vals(o["vals"], cplx, single) + "\n"
            s += "gssvx 0 1 %d 0 0 1 %d %s %d %d 0 0\n" % (o["P"], o["usepr"], float(o["u"]).hex(), h["panel"], h["relax"])
        else:
            s += "gssvx 0 1 %d 2 %d 0 0 0x1p+0 %d %d 0 0\n" % (o["P"], o["trans"], h["panel"], h["relax"])
    return s + "quit\n", rhs_list


def lu_signature(res):
    return (tuple(res.get("perm_r", [])), tuple(res.get("perm_c", [])), tuple(sorted((j, tuple(v[1])) for j, v in res.get("Lcol", {}).items())),
            tuple((tuple(r), tuple(v)) for r, v in res.get("Ucol", [])), tuple(tuple(s["rows"]) for s in res.get("Lsup", []) if s))


def run_histories(ctx, nh, flavour="plain", seed_salt=0):
    """-> (stats, violations[list of (key, what, blob)])"""
    C.build_lib(flavour)
    exes = C.build_harness_all_prec("h_drv.c", flavour, precs="dszc")
    rng = random.Random(ctx.seed * 8191 + 8 + seed_salt)
    hs = []
    nfb = (2 * nh) // 3
    for i in range(nh + nfb):
        h = gen_fallback_history(rng, "h%d" % i, prec="dszc"[i % 4]) if i >= nh else gen_history(rng, "h%d" % i, prec=rng.choice("ddsszc"))
        s, rhs = script_of(h, rng)
        h["script"] = s; h["rhs"] = rhs
        hs.append(h)
    from concurrent.futures import ThreadPoolExecutor
    def one(h):
        return D.run_script(exes[h["prec"]], h["script"], timeout=180)
    with ThreadPoolExecutor(C.NPROC) as ex:
        outs = list(ex.map(one, hs))
    stats = {"histories": nh + nfb, "fallback_family_histories": nfb, "calls": 0, "refactor_calls": 0, "usepr_kept": 0, "usepr_fell_back": 0, "factored_solves": 0, "lu_judged": 0}
    viol = []; lutexts = []; clutexts = []; luowners = {}
    for h, (ops, done, rc, err) in zip(hs, outs):
        M = h["M"]; n = M.n
        blob = {"history": [{k: v for k, v in o.items() if k != "vals"} for o in h["ops"]], "n": n, "prec": h["prec"], "script": h["script"], "rc": rc, "stderr": (err or "")[-500:]}
        if rc != 0 or not done:
            viol.append(("crash:" + (S.crash_site(err or "") or "?"), "history crashed (rc=%s)" % rc, blob)); continue
        gss = [r for r in ops if r["op"] == "gssvx"]
        if len(gss) != len(h["ops"]):
            viol.append(("op-count", "missing results", blob)); continue
        cur_vals = None; prev_sig = None; prev_permr = None
        for idx, (o, res, b) in enumerate(zip(h["ops"], gss, h["rhs"])):
            stats["calls"] += 1
            if o["op"] != "solve":
                cur_vals = o["vals"]
            Mc = G.Mat(n, M.colptr, M.rowind, list(cur_vals), M.cplx)
            if res["info"] not in (0, n + 1):
                viol.append(("info", "call %d (%s) returned info=%d on a nonsingular matrix" % (idx, o["op"], res["info"]), blob)); break
            # solution of the values current at this call
            x = S.unpack_cols(res["X"], n, n, 1, M.cplx)[0]
            tr = o.get("trans", 0)
            om = X.backward_error(Mc, x, b, tr)
            tol = Fraction(1000 * (n + 1)) * Fraction(U[h["prec"]])
            if om is None or om > tol:
                viol.append(("stale-or-wrong-solution", "call %d (%s): X does not solve the CURRENT system (backward error %s)" % (
                    idx, o["op"], "inf" if om is None else "%.2e" % float(om)), blob)); break
            sig = lu_signature(res)
            if o["op"] == "solve":
                stats["factored_solves"] += 1
                if res.get("A.val.same") != 1 or sig != prev_sig:
                    viol.append(("factored-not-readonly", "call %d: solve with FACTORED changed A, L, U or a permutation" % idx, blob)); break
            else:
                # factorization of current values: judge with the verified checker
                rec = {"cfg": {"t": len(lutexts) + len(clutexts), "n": n, "prec": h["prec"], "stype": "NC", "driver": "gssvx", "u": o["u"], "nrhs": 0, "ld": n}, "res": res, "info": res["info"]}
                try:
                    (clutexts if M.cplx else lutexts).append(S.lucase_for(rec, Mc, []))
                    luowners["c%d" % rec["cfg"]["t"]] = (h, idx, blob, o)
                except D.NonFinite:
                    viol.append(("nonfinite", "call %d produced non-finite factors" % idx, blob)); break
                if o["op"] == "refactor":
                    stats["refactor_calls"] += 1
                    if res["perm_c"] != list(prev_sig[1]):
                        viol.append(("refactor-changed-perm_c", "call %d: refactorization changed the column ordering" % idx, blob)); break
                    if o.get("usepr"):
                        same = (res["perm_r"] == prev_permr)
                        if same: stats["usepr_kept"] += 1
                        else: stats["usepr_fell_back"] += 1
                        if o.get("expect_same_pivots") and not same:
                            viol.append(("usepr-pivots-not-reused", "call %d: pivot reuse requested, old pivots admissible (same/scaled values, same threshold) but perm_r changed" % idx, blob)); break
                prev_permr = res["perm_r"]
            prev_sig = sig
    if lutexts or clutexts:
        verd = {}
        chunks = ["".join(lutexts[i:i + 100]) for i in range(0, len(lutexts), 100)]
        with ThreadPoolExecutor(C.NPROC) as ex:
            for out in ex.map(lambda t: C.run_sludrv("lucheck", t), chunks):
                verd.update(D.parse_verdicts(out))
            cchunks = ["".join(clutexts[i:i + 100]) for i in range(0, len(clutexts), 100)]
            for out in ex.map(lambda t: C.run_sludrv("clucheck", t), cchunks):
                verd.update(D.parse_verdicts(out))
        for cid, (h, idx, blob, o) in luowners.items():
            v = verd.get(cid)
            stats["lu_judged"] += 1
            if v is None: continue
            fails = [f for f in ("wfL", "wfU", "permr", "permc", "lower", "upper", "lu", "mult") if v.get(f) not in (("1", "-") if (h["M"].cplx and f == "mult") else ("1",))]
            if fails:
                viol.append(("factorization-of-current-values:" + ",".join(fails), "call %d (%s): returned factors are not a factorization of the values current at that call (%s)" % (idx, o["op"], fails), blob))
    return stats, viol


# ------------------------------------------------------------------ C18: prefix / probe differential
def probe_script(rng, prec):
    """-> (setup part, call line or None, query line or None).  A probe with caller workspace gets its size from the library's own
    estimate (lwork=-1 query in a fresh process, stage 0 of run_differential) times a small headroom, so that stale accounting left
    behind by earlier user-workspace calls matters."""
    n = rng.choice([3, 5, 9, 14, 30, 60])
    M = G.random_matrix(rng, n, rng.choice(["random", "band", "grid"]), "float")
    M.vals = new_values(rng, M)
    M = to_prec(rng, M, prec)
    b = rhs_prec(rng, n, prec)
    drv = rng.choice(["gssv", "gssvx", "gssvx_user", "gssvx_user"])
    s = G.script_mat(0, M, single=(prec in "sc")) + G.script_rhs(0, n, 1, n, [b], prec in "cz", prec in "sc") + "permc_get 0 %d\n" % rng.randint(0, 3)
    if drv == "gssv":
        return s, "gssv 0 0 1\n", None, None
    fact, trans = rng.choice([0, 1]), rng.choice([0, 1])
    if drv == "gssvx":
        return s, "gssvx 0 0 1 %d %d 0 0 0x1p+0 8 4 0 %d\n" % (fact, trans, rng.choice([0, 0, 8000000])), None, None
    call = "gssvx 0 0 1 %d %d 0 0 0x1p+0 8 4 0 " % (fact, trans)
    return s, call, call + "-1\n", rng.choice([1.25, 1.5, 2.0, 3.0])


def prefix_script(rng, prec):
    parts = []
    for _ in range(rng.randint(1, 3)):
        kind = rng.choice(["other_size", "singular", "illegal", "query", "userwork", "userwork", "userwork_big", "history", "destroy"])
        n = rng.choice([2, 4, 7, 11, 20]) if kind != "userwork_big" else rng.choice([40, 80, 120])
        M = G.random_matrix(rng, n, None, "float"); M.vals = new_values(rng, M)
        M = to_prec(rng, M, prec)
        b = rhs_prec(rng, n, prec)
        base = G.script_mat(1, M, single=(prec in "sc")) + G.script_rhs(1, n, 1, n, [b], prec in "cz", prec in "sc") + "permc_get 1 %d\n" % rng.randint(0, 3)
        if kind == "other_size":
            parts.append(base + "gssv 1 1 %d\n" % rng.choice([1, 2, 4]))
        elif kind == "singular":
            k = rng.randrange(n)
            for q in range(M.colptr[k], M.colptr[k + 1]): M.vals[q] = (0.0, 0.0) if M.cplx else 0.0
            parts.append(G.script_mat(1, M, single=(prec in "sc")) + G.script_rhs(1, n, 1, n, [b], prec in "cz", prec in "sc") + "permc_get 1 0\ngssvx 1 1 1 0 0 0 0 0x1p+0 4 2 0 0\n")
        elif kind == "illegal":
            parts.append(base + "gssv 1 1 0\n")
        elif kind == "query":
            parts.append(base + "gssvx 1 1 1 0 0 0 0 0x1p+0 4 2 0 -1\n")
        elif kind == "userwork":
            parts.append(base + "gssvx 1 1 %d 0 0 0 0 0x1p+0 4 2 0 600000\ndestroy\n" % rng.choice([1, 2]))
        elif kind == "userwork_big":
            # a larger factorization in its own caller buffer, kept (no destroy) or destroyed
            parts.append(base + "gssvx 1 1 %d 0 0 0 0 0x1p+0 4 2 0 64000000\n%s" % (rng.choice([1, 2]), rng.choice(["", "destroy\n"])))
        elif kind == "history":
            parts.append(base + "gssvx 1 1 2 0 0 0 0 0x1p+0 4 2 0 0\ngssvx 1 1 2 0 0 1 1 0x1p+0 4 2 0 0\ngssvx 1 1 1 2 1 0 0 0x1p+0 4 2 0 0\n")
        else:
            parts.append("destroy\n")
    return "".join(parts) + "destroy\n"


def run_differential(ctx, npairs, flavour="plain"):
    C.build_lib(flavour)
    exes = C.build_harness_all_prec("h_drv.c", flavour, precs="dszc")
    rng = random.Random(ctx.seed * 524287 + 18)
    from concurrent.futures import ThreadPoolExecutor
    pre = []
    for i in range(npairs):
        prec = rng.choice("ddsszc")
        setup, call, query, headroom = probe_script(rng, prec)
        prefix = prefix_script(rng, prec)
        head = "ienv %d %d 200 200 100 -50 -50 -30\n" % (rng.choice([1, 8]), rng.choice([1, 6]))
        pre.append((prec, head, setup, call, query, headroom, prefix))
    # stage 0: workspace estimates for the probes that bring their own buffer
    def est(j):
        prec, head, setup, call, query, headroom, prefix = j
        if query is None: return None
        ops, done, rc, err = D.run_script(exes[prec], head + setup + query + "quit\n", timeout=120)
        g = [o for o in ops if o.get("op") == "gssvx"]
        return g[-1]["mem"][1] if (rc == 0 and g and "mem" in g[-1]) else None
    with ThreadPoolExecutor(C.NPROC) as ex:
        ests = list(ex.map(est, pre))
    jobs = []
    tight = 0
    for (prec, head, setup, call, query, headroom, prefix), e in zip(pre, ests):
        if query is not None:
            if not e or e <= 0:
                call = call + "8000000\n"
            else:
                call = call + "%d\n" % int(e * headroom); tight += 1
        probe = setup + call
        # the caller's buffer is part of the history too: after the prefix the probe gets a buffer with the 0xA5 fill (as in the fresh run),
        # one holding arbitrary small integers (an earlier, unrelated use), or the very buffer the last user-workspace call of the prefix
        # left behind (when it is large enough)
        wf = ""
        if "gssvx" in call and not call.rstrip().endswith(" 0"):
            wf = rng.choice(["", "workfill 1 %d\n" % rng.randint(1, 10 ** 6), "workfill 1 %d\n" % rng.randint(1, 10 ** 6), "workfill 3 0\n"])
        jobs.append((prec, head + probe + "quit\n", head + prefix + wf + probe + "quit\n", prefix))
    from concurrent.futures import ThreadPoolExecutor
    def one(j):
        prec, a, b, prefix = j
        ra = D.run_script(exes[prec], a, timeout=120); rb = D.run_script(exes[prec], b, timeout=120)
        return (j, ra, rb)
    with ThreadPoolExecutor(C.NPROC) as ex:
        outs = list(ex.map(one, jobs))
    stats = {"pairs": npairs, "compared": 0, "prefix_crashed": 0, "probes_with_estimate_sized_workspace": tight, "probe_alone_not_successful": 0}
    viol = []
    def sig(res):
        return (res.get("info"), tuple(res.get("perm_r", [])), tuple(res.get("perm_c", [])), tuple(res.get("X", [])), lu_signature(res),
                res.get("equed"), tuple(res.get("R", [])), tuple(res.get("C", [])), res.get("rcond"), tuple(res.get("berr", [])))
    for (prec, a, b, prefix), (oa, da, rca, ea), (ob, db, rcb, eb) in outs:
        blob = {"prec": prec, "probe_alone": a, "prefix_then_probe": b}
        if rca != 0 or not da or not oa:
            if "gssvx 0 0 1" in a and not a.rstrip().split("\n")[-2].endswith(" 0"):
                # a caller buffer sized from the estimate turned out too small even in a fresh process: not a statement about histories
                # (insufficient buffers are C14's subject)
                stats["probe_alone_not_successful"] += 1; continue
            viol.append(("probe-crash", "probe alone failed rc=%s" % rca, blob)); continue
        if rcb != 0 or not db or not ob:
            stats["prefix_crashed"] += 1
            viol.append(("prefix-crash:" + (S.crash_site(eb or "") or "?"), "prefix+probe failed rc=%s: %s" % (rcb, (eb or "")[-200:]), blob)); continue
        stats["compared"] += 1
        if sig(oa[-1]) != sig(ob[-1]):
            fa, fb = sig(oa[-1]), sig(ob[-1])
            names = ["info", "perm_r", "perm_c", "X", "LU", "equed", "R", "C", "rcond", "berr"]
            diff = [names[i] for i in range(len(names)) if fa[i] != fb[i]]
            viol.append(("history-dependent-result:" + ",".join(diff), "first-time call gives different bits after a prefix history (differs in %s)" % diff, blob))
    return stats, viol
