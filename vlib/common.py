"""Shared plumbing for the checks: paths, building the library + harnesses from /repo's working tree,
the Lean project (build, axiom audit, forbidden-token grep), running sludrv, evidence, verdict lines."""
import os, sys, json, subprocess, time, hashlib, re, shutil, random, struct, tempfile

VERIF = os.path.dirname(os.path.dirname(os.path.abspath(__file__)))
REPO = os.environ.get("REPO", "/repo")
BUILD = os.environ.get("VERIF_BUILD", os.path.join(VERIF, "build"))
LEAN = os.path.join(VERIF, "lean")
HARN = os.path.join(VERIF, "harness")
REPLAY = os.path.join(VERIF, "replay")
EVID = os.path.join(VERIF, "evidence")
NPROC = os.cpu_count() or 4
ENV = dict(os.environ, OPENBLAS_NUM_THREADS="1", OMP_NUM_THREADS="1", MALLOC_ARENA_MAX="1",
           ASAN_OPTIONS="detect_leaks=0:abort_on_error=1:allocator_may_return_null=1",
           UBSAN_OPTIONS="halt_on_error=1:print_stacktrace=1")

ALLOWED_AXIOMS = {"propext", "Classical.choice", "Quot.sound"}
FORBIDDEN = re.compile(r"\bsorry\b|\badmit\b|^\s*axiom\s|native_decide|bv_decide|implemented_by|\bunsafe\s|maxHeartbeats\s+0\b")


def sh(cmd, **kw):
    kw.setdefault("env", ENV)
    return subprocess.run(cmd, shell=isinstance(cmd, str), capture_output=True, text=True, **kw)


# ------------------------------------------------------------------ C side
def build_lib(flavour="plain"):
    r = sh([os.path.join(HARN, "build_lib.sh"), flavour], env=dict(ENV, REPO=REPO, VERIF_BUILD=BUILD))
    if r.returncode != 0:
        raise RuntimeError("library build failed (flavour %s):\n%s\n%s" % (flavour, r.stdout[-3000:], r.stderr[-3000:]))
    return os.path.join(BUILD, flavour, "libslu.a")


_FLAGS = {
    "plain": "-O1 -g -w",
    "asan": "-O1 -g -w -fsanitize=address,undefined -fno-sanitize-recover=undefined -fno-omit-frame-pointer",
    "tsan": "-O1 -g -w -fsanitize=thread",
    "fault": "-O1 -g -w -fsanitize=address,undefined -fno-sanitize-recover=undefined -fno-omit-frame-pointer",
}


def build_harness(src, flavour="plain", defs="", name=None, extra_src=(), extra_link=""):
    """Compile harness/<src> against build/<flavour>/libslu.a. Returns executable path."""
    lib = os.path.join(BUILD, flavour, "libslu.a")
    name = name or os.path.splitext(src)[0]
    exe = os.path.join(BUILD, flavour, name)
    srcs = [os.path.join(HARN, src)] + [os.path.join(HARN, s) for s in extra_src]
    # the `fault` flavour routes the library's allocation points to the harness; the harness's own SUPERLU_MALLOC/SUPERLU_FREE must go the same way
    inc = ("-include %s/vf_alloc.h" % HARN) if flavour == "fault" else ""
    cmd = "gcc %s %s -D__PTHREAD -DAdd_ -DUSE_VENDOR_BLAS -DSLU_MT_VERIF %s -I%s/SRC -I%s %s -o %s %s %s -lopenblas -lpthread -lm" % (
        _FLAGS[flavour], inc, defs, REPO, HARN, " ".join(srcs), exe, lib, extra_link)
    r = sh(cmd)
    if r.returncode != 0:
        raise RuntimeError("harness build failed: %s\n%s" % (cmd, r.stderr[-4000:]))
    return exe


def build_harness_all_prec(src, flavour="plain", precs="sdcz", **kw):
    from concurrent.futures import ThreadPoolExecutor
    base = os.path.splitext(src)[0]
    with ThreadPoolExecutor(4) as ex:
        futs = {p: ex.submit(build_harness, src, flavour, "-DPREC_%s" % p, "%s_%s" % (base, p), **kw) for p in precs}
        return {p: f.result() for p, f in futs.items()}


# ------------------------------------------------------------------ Lean side
def lake_build(targets=("SluVerif", "sludrv")):
    """Incremental build of the Lean library and driver. Returns (ok, log)."""
    r = sh(["lake", "build"] + list(targets), cwd=LEAN)
    return r.returncode == 0, (r.stdout + r.stderr)


def sludrv_path():
    return os.path.join(LEAN, ".lake", "build", "bin", "sludrv")


def run_sludrv(engine, text, timeout=600):
    r = subprocess.run([sludrv_path(), engine], input=text, capture_output=True, text=True, timeout=timeout, env=ENV)
    if r.returncode != 0:
        raise RuntimeError("sludrv %s failed rc=%d: %s" % (engine, r.returncode, r.stderr[-2000:]))
    return r.stdout


def grep_forbidden():
    """Scan Lean sources (comments stripped) for forbidden tokens; returns list of hits."""
    hits = []
    for root, _, files in os.walk(os.path.join(LEAN, "SluVerif")):
        for f in files:
            if not f.endswith(".lean"):
                continue
            p = os.path.join(root, f)
            src = open(p).read()
            src = re.sub(r"/-.*?-/", lambda m: "\n" * m.group(0).count("\n"), src, flags=re.S)
            for i, line in enumerate(src.split("\n"), 1):
                line = re.sub(r"--.*", "", line)
                if FORBIDDEN.search(line):
                    hits.append("%s:%d: %s" % (os.path.relpath(p, VERIF), i, line.strip()))
    for root, _, files in os.walk(os.path.join(LEAN, "Driver")):
        for f in files:
            if f.endswith(".lean"):
                p = os.path.join(root, f)
                for i, line in enumerate(open(p).read().split("\n"), 1):
                    line = re.sub(r"--.*", "", line)
                    if FORBIDDEN.search(line):
                        hits.append("%s:%d: %s" % (os.path.relpath(p, VERIF), i, line.strip()))
    return hits


def audit_axioms(pid):
    """Run `#print axioms` for every theorem listed in lean/SluVerif/Audit/<pid>.lean.
    Returns dict theorem -> sorted axiom list (or None when the audit itself fails)."""
    path = os.path.join(LEAN, "SluVerif", "Audit", pid + ".lean")
    if not os.path.exists(path):
        return {}
    r = sh(["lake", "env", "lean", path], cwd=LEAN)
    out = r.stdout + r.stderr
    res = {}
    # "'name' depends on axioms: [a, b]"  |  "'name' does not depend on any axioms"
    for m in re.finditer(r"'([^']+)' depends on axioms: \[([^\]]*)\]", out, flags=re.S):
        res[m.group(1)] = sorted(x.strip() for x in m.group(2).replace("\n", " ").split(",") if x.strip())
    for m in re.finditer(r"'([^']+)' does not depend on any axioms", out):
        res[m.group(1)] = []
    if r.returncode != 0:
        res["__error__"] = [out[-2000:]]
    return res


def theorem_names(pid):
    path = os.path.join(LEAN, "SluVerif", "Audit", pid + ".lean")
    if not os.path.exists(path):
        return []
    return re.findall(r"^#print axioms\s+(\S+)", open(path).read(), flags=re.M)


# ------------------------------------------------------------------ numbers
def hexf(x):
    return float(x).hex()


def dy(x):
    """float -> (m, e) with x == m * 2**e exactly (m odd or 0)."""
    if x == 0:
        return (0, 0)
    m, e = __import__("math").frexp(x)
    m = int(m * (1 << 53)); e -= 53
    while m % 2 == 0:
        m //= 2; e += 1
    return (m, e)


class Rng(random.Random):
    pass


def seed_from_env(default=1):
    try:
        return int(os.environ.get("VERIF_SEED", default))
    except ValueError:
        return default


# ------------------------------------------------------------------ verdicts / evidence
def known_findings():
    p = os.path.join(VERIF, "known_findings.json")
    if not os.path.exists(p):
        return []
    return json.load(open(p)).get("entries", [])


def write_replay(pid, obj):
    os.makedirs(REPLAY, exist_ok=True)
    blob = json.dumps(obj, sort_keys=True, indent=1)
    h = hashlib.sha1(blob.encode()).hexdigest()[:12]
    path = os.path.join(REPLAY, "%s-%s.json" % (pid, h))
    open(path, "w").write(blob)
    return path


def write_evidence(pid, tier, seed, level, coverage, wall_s, violations, assumptions):
    os.makedirs(EVID, exist_ok=True)
    ev = {"property_id": pid, "tier": tier, "seed": int(seed), "level": level, "coverage": coverage,
          "assumptions": assumptions, "wall_s": round(wall_s, 2), "violations": int(violations)}
    open(os.path.join(EVID, pid + ".json"), "w").write(json.dumps(ev, indent=1, default=str))
    return ev
