"""Correspondence real fixupL / countnz (SRC/util.c) <-> Model/Fixup.lean on hand-built GlobalLU_t states whose
supernodes are numbered and stored in arbitrary (also non-monotone) orders; plus the specification oracle
(concatenation of mapped segments) evaluated independently in Python on the real output."""
import os, random, subprocess, tempfile
from . import common as C


def gen_state(rng, cid):
    n = rng.randint(2, 14)
    # contiguous supernode ranges
    cuts = sorted(set([0, n] + [rng.randint(1, n - 1) for _ in range(rng.randint(0, n - 1))]))
    ranges = [(cuts[i], cuts[i + 1]) for i in range(len(cuts) - 1)]
    numbering = list(range(len(ranges))); 
    if rng.random() < 0.7: rng.shuffle(numbering)          # supernode numbers in completion order
    storage = list(range(len(ranges)))
    if rng.random() < 0.7: rng.shuffle(storage)            # storage order in lsub
    rows = {}
    for k, (f, e) in enumerate(ranges):
        extra = rng.sample(range(e, n), rng.randint(0, n - e)) if e < n else []
        rows[k] = list(range(f, e)) + extra
    lsub = []; xl = [0] * (n + 1); xe = [0] * n
    for k in storage:
        f, e = ranges[k]
        xl[f] = len(lsub); lsub += rows[k]; xe[f] = len(lsub)
        lsub += [rng.randint(0, n - 1) for _ in range(rng.randint(0, 3))]   # pruned copy / gap
    nsuper = len(ranges) - 1
    xsup = [0] * (nsuper + 1); xsup_end = [0] * (nsuper + 1)
    for k, s in enumerate(numbering):
        xsup[s], xsup_end[s] = ranges[k]
    perm = list(range(n)); rng.shuffle(perm)
    segs = {numbering[k]: rows[k] for k in range(len(ranges))}
    return dict(id=cid, n=n, nsuper=nsuper, nextl=len(lsub), nextu=rng.randint(0, 20), xsup=xsup, xsup_end=xsup_end, lsub=lsub, xlsub=xl, xlsub_end=xe, perm_r=perm, segs=segs)


def text(c):
    J = lambda a: " ".join(map(str, a))
    return "case %s %d %d %d %d\n%s\n%s\n%s\n%s\n%s\n%s\n" % (c["id"], c["n"], c["nsuper"], c["nextl"], c["nextu"], J(c["xsup"]), J(c["xsup_end"]), J(c["lsub"]), J(c["xlsub"]), J(c["xlsub_end"]), J(c["perm_r"]))


def parse(t):
    res = {}; cur = None
    for line in t.split("\n"):
        w = line.split()
        if not w: continue
        if w[0] == "case": cur = {"nnzL": int(w[3]), "nnzU": int(w[5])}; res[w[1]] = cur
        elif w[0] == "lsub": cur["lsub"] = [int(x) for x in w[2:]]; cur["len"] = int(w[1])
        elif w[0] == "xl": cur["xl"] = w[1:]
    return res


def run(ctx, ncases, flavour="asan"):
    C.build_lib(flavour)
    exe = C.build_harness("h_fixup.c", flavour)
    rng = random.Random(ctx.seed * 977 + 5)
    cases = [gen_state(rng, "f%d" % i) for i in range(ncases)]
    wd = tempfile.mkdtemp(prefix="fix", dir=C.BUILD)
    fin, fout = os.path.join(wd, "in"), os.path.join(wd, "out")
    open(fin, "w").write("".join(text(c) for c in cases))
    r = subprocess.run([exe, fin, fout], capture_output=True, text=True, env=C.ENV, timeout=300)
    dis = []; stats = {"cases": len(cases), "nonmonotone_storage": 0}
    if r.returncode != 0:
        return stats, [{"kind": "harness-crash", "rc": r.returncode, "stderr": r.stderr[-1500:]}]
    got = parse(open(fout).read()); mod = parse(C.run_sludrv("fixup", "".join(text(c) for c in cases)))
    import shutil; shutil.rmtree(wd, ignore_errors=True)
    for c in cases:
        g, m = got.get(c["id"]), mod.get(c["id"])
        order = [c["xlsub"][c["xsup"][s]] for s in range(c["nsuper"] + 1)]
        if order != sorted(order): stats["nonmonotone_storage"] += 1
        # specification, independently: concatenation in supernode-number order mapped through perm_r
        spec = [c["perm_r"][r] for s in range(c["nsuper"] + 1) for r in c["segs"][s]]
        nnzL = sum(len(c["segs"][s]) - k for s in range(c["nsuper"] + 1) for k in range(c["xsup_end"][s] - c["xsup"][s]))
        nnzU = c["nextu"] + sum(k + 1 for s in range(c["nsuper"] + 1) for k in range(c["xsup_end"][s] - c["xsup"][s]))
        blob = {k: v for k, v in c.items() if k != "segs"}
        if g is None or g["lsub"] != spec or g["nnzL"] != nnzL or g["nnzU"] != nnzU:
            dis.append({"kind": "fixupL-property", "case": blob, "code": g, "spec_lsub": spec, "spec_nnz": [nnzL, nnzU]})
        if g != m:
            dis.append({"kind": "fixupL-correspondence", "case": blob, "code": g, "model": m})
    return stats, dis
