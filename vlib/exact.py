"""Exact rational evaluation of residuals / backward errors of what the library returned (Fractions)."""
from fractions import Fraction


def F(v):
    return Fraction(v)


def cmul(a, b):
    return (a[0] * b[0] - a[1] * b[1], a[0] * b[1] + a[1] * b[0])


def abs1(z):
    return abs(z[0]) + abs(z[1])


def _finite(v):
    import math
    if isinstance(v, tuple):
        return all(math.isfinite(t) for t in v)
    return math.isfinite(v)


def backward_error(M, x, b, trans=0):
    if not all(_finite(v) for v in x):
        return None          # NaN / Inf in the returned solution: infinite backward error
    """componentwise backward error  max_i |b - op(A)x|_i / (|op(A)||x| + |b|)_i  (exact; complex uses |re|+|im| for the
    numerator's upper bound and max(|re|,|im|)... see below).  trans: 0 N, 1 T, 2 C.
    Real: exact omega.  Complex: returns an UPPER bound on omega (numerator abs1, denominator with moduli bounded below by
    max(|re|,|im|) products) so that 'upper bound <= tol' is a sound acceptance test and a breach by > sqrt2-factors is real."""
    n = M.n
    if not M.cplx:
        r = [F(v) for v in b]; den = [abs(F(v)) for v in b]
        for j, col in M.cols():
            for i, v in col:
                ri, ci = (i, j) if trans == 0 else (j, i)
                a = F(v)
                r[ri] -= a * F(x[ci]); den[ri] += abs(a) * abs(F(x[ci]))
        worst = Fraction(0)
        for i in range(n):
            if den[i] == 0:
                if r[i] != 0: return None
                continue
            worst = max(worst, abs(r[i]) / den[i])
        return worst
    r = [(F(v[0]), F(v[1])) for v in b]; den = [max(abs(F(v[0])), abs(F(v[1]))) for v in b]
    for j, col in M.cols():
        for i, v in col:
            ri, ci = (i, j) if trans == 0 else (j, i)
            a = (F(v[0]), F(v[1]) if trans != 2 else -F(v[1]))
            xv = (F(x[ci][0]), F(x[ci][1]))
            p = cmul(a, xv)
            r[ri] = (r[ri][0] - p[0], r[ri][1] - p[1])
            den[ri] += max(abs(a[0]), abs(a[1])) * max(abs(xv[0]), abs(xv[1]))
    worst = Fraction(0)
    for i in range(n):
        num = abs1(r[i])
        if den[i] == 0:
            if num != 0: return None
            continue
        worst = max(worst, num / den[i])
    return worst
