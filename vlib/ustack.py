"""User-workspace allocator: correspondence real p?memory.c <-> Model/UserStack.lean (sludrv ustack) on scripted operation
sequences, and an implementation-side search with REAL threads (harness/aux/ws_race.c) for overlapping work space."""
import os, random, subprocess, tempfile
from . import common as C

DWORD = {"s": 4, "d": 8, "c": 8, "z": 16}


def gen_case(rng, cid):
    ms = rng.choice([1, 4, 8]); rb = rng.choice([1, 4, 16]); b8 = rng.choice([0, 0, 4, 1, 7])
    n = rng.choice([1, 2, 3, 5, 8, 13]); w = rng.choice([1, 2, 3, 8])
    lw = rng.choice([64, 200, 777, 1000, 4096, 4099, 20000, 100001, 0, 0])
    ops = ["case %s %d %d %d %d" % (cid, ms, rb, b8, lw)]
    live = []; nxt = 0
    if lw == 0:
        # a call without caller workspace, after whatever the earlier cases left in the file-static descriptor: only the
        # factorization's own operations (worker set-up / release)
        for _ in range(rng.randint(1, 5)):
            if live and rng.random() < 0.4:
                j = live.pop(rng.randrange(len(live))); ops.append("wf %d" % j)
            elif nxt < 12:
                ops.append("wi %d %d %d" % (nxt, n, w)); live.append(nxt); nxt += 1
        for j in live: ops.append("wf %d" % j)
        return "\n".join(ops) + "\n"
    for _ in range(rng.randint(3, 14)):
        k = rng.random()
        if k < 0.2:
            ops.append("mh %d" % rng.choice([0, 1, 8, 12, 100, rng.randint(0, lw)]))
        elif k < 0.3:
            ops.append("mt %d" % rng.choice([0, 4, 8, 60, rng.randint(0, lw)]))
        elif k < 0.35:
            ops.append("fh %d" % rng.choice([0, 8, 12]))
        elif k < 0.7 and nxt < 12:
            ops.append("wi %d %d %d" % (nxt, n, w)); live.append(nxt); nxt += 1
        elif k < 0.9 and live:
            j = live.pop(rng.randrange(len(live))); ops.append("wf %d" % j)
        else:
            ops.append("probe")
    ops.append("probe")
    return "\n".join(ops) + "\n"


def correspondence(ctx, ncases, flavour="asan"):
    C.build_lib(flavour)
    exes = C.build_harness_all_prec("h_stack.c", flavour, precs="sdcz")
    rng = random.Random(ctx.seed * 1409 + 5)
    stats = {"cases": 0, "ops": 0, "workinit_ok": 0, "workinit_failed": 0, "misaligned_bases": 0}
    dis = []
    wd = tempfile.mkdtemp(prefix="ustack", dir=C.BUILD)
    for prec in "sdcz":
        script = "".join(gen_case(rng, "%s%d" % (prec, t)) for t in range(ncases))
        fin = os.path.join(wd, "in_" + prec); fout = os.path.join(wd, "out_" + prec)
        open(fin, "w").write(script)
        r = subprocess.run([exes[prec], fin, fout], capture_output=True, text=True, env=C.ENV, timeout=600)
        got = open(fout).read().split("\n") if os.path.exists(fout) else []
        m = subprocess.run([C.sludrv_path(), "ustack", "4", str(DWORD[prec])], input=script, capture_output=True, text=True, timeout=600, env=C.ENV)
        exp = m.stdout.split("\n")
        stats["cases"] += ncases; stats["ops"] += len(exp)
        stats["workinit_ok"] += sum(1 for l in exp if l.startswith("wi 0 ")); stats["workinit_failed"] += sum(1 for l in exp if l.startswith("wi ") and not l.startswith("wi 0 "))
        if r.returncode != 0 or m.returncode != 0:
            dis.append({"kind": "ustack-harness-failed", "prec": prec, "rc": r.returncode, "stderr": (r.stderr or "")[-800:], "model_rc": m.returncode, "model_err": m.stderr[-300:]})
            continue
        if got != exp:
            k = next((i for i in range(min(len(got), len(exp))) if got[i] != exp[i]), min(len(got), len(exp)))
            # locate the case
            cs = max(i for i in range(k + 1) if exp[i].startswith("case ")) if any(e.startswith("case ") for e in exp[:k + 1]) else 0
            cid = exp[cs].split()[1]
            scr = script.split("case ")
            text = next(("case " + x for x in scr if x.startswith(cid + " ")), "")
            dis.append({"kind": "ustack-disagreement", "prec": prec, "case": cid, "line": k - cs, "model": exp[k] if k < len(exp) else None, "code": got[k] if k < len(got) else None, "script": text})
    import shutil; shutil.rmtree(wd, ignore_errors=True)
    return stats, dis


def thread_race(ctx, trials):
    """real threads: P workers call p?gstrf_WorkInit at the same time on a fresh user stack; any two returned blocks that overlap,
    or a block outside the buffer, is a violation with the offsets as the replay"""
    lib = C.build_lib("plain")
    exe = os.path.join(C.BUILD, "plain", "ws_race")
    r = C.sh("gcc -O1 -g -w -D__PTHREAD -DAdd_ -DUSE_VENDOR_BLAS -DSLU_MT_VERIF -I%s/SRC %s/aux/ws_race.c -o %s %s -lopenblas -lpthread -lm" % (C.REPO, C.HARN, exe, lib))
    if r.returncode != 0:
        raise RuntimeError("ws_race build failed: " + r.stderr[-2000:])
    out = []
    for (n, w, P, lw) in [(5, 1, 4, 65536), (7, 3, 8, 65539), (5, 1, 3, 4099)]:
        rr = subprocess.run([exe, str(trials), str(n), str(w), str(P), str(lw)], capture_output=True, text=True, env=C.ENV, timeout=1200)
        out.append({"n": n, "w": w, "P": P, "lwork": lw, "rc": rr.returncode, "out": rr.stdout[-600:]})
    return out
