"""Correspondence p?gstrf_pivotL (real code, harness h_pivot) <-> Model/Pivot.lean (sludrv pivot) on a lattice of
exactly representable values: ties, zeros, missing diagonal, stale old pivot, nsupc = 0 and > 0, no candidates."""
import os, random, tempfile, subprocess
from fractions import Fraction
from . import common as C
from .drv import dy

LATT = [0.0, 0.0, 1.0, -1.0, 2.0, -2.0, 3.0, -3.0, 4.0, 0.5, -0.5, 1.5, 0.25, -0.75, 6.0, 8.0, -8.0]
US = [(0, 1), (1, 8), (1, 4), (1, 2), (3, 4), (1, 1), (1, 1), (1, 2)]


def gen_case(rng, cid, cplx):
    nsupc = rng.choice([0, 0, 1, 2, 3])
    ncand = rng.choice([0, 1, 2, 3, 4, 5, 6])
    nsupr = nsupc + ncand
    rows = rng.sample(range(0, 24), nsupr)
    jcol = rng.randint(nsupc, 24)
    usepr = rng.choice([0, 0, 1])
    cand_rows = rows[nsupc:]
    oldpiv = rng.choice(cand_rows) if cand_rows and rng.random() < 0.7 else rng.randint(0, 30)
    diagind = rng.choice(cand_rows) if cand_rows and rng.random() < 0.7 else rng.randint(0, 30)
    un, ud = rng.choice(US)
    def val():
        v = rng.choice(LATT) * 2.0 ** rng.choice([0, 0, 0, 1, -1, 2])
        return v
    mode = rng.choice(["any", "ties", "zeros", "any"])
    cols = []
    for k in range(nsupc + 1):
        col = []
        for i in range(nsupr):
            if cplx:
                col.append((val(), val()))
            else:
                col.append(val())
        cols.append(col)
    if ncand:
        last = cols[nsupc]
        if mode == "ties":
            m = abs(rng.choice([1.0, 2.0, 3.0, 0.5]))
            for i in range(nsupc, nsupr):
                s = rng.choice([-1, 1])
                last[i] = ((s * m, 0.0) if rng.random() < 0.5 else (s * m / 2, s * m / 2)) if cplx else s * m if rng.random() < 0.7 else last[i]
        elif mode == "zeros":
            for i in range(nsupc, nsupr):
                if rng.random() < 0.8:
                    last[i] = (0.0, 0.0) if cplx else 0.0
    return dict(id=cid, jcol=jcol, nsupc=nsupc, nsupr=nsupr, usepr=usepr, oldpiv=oldpiv, diagind=diagind, u=(un, ud), rows=rows, cols=cols, cplx=cplx)


def c_text(c):
    un, ud = c["u"]
    s = "case %s %d %d %d %d %d %d %s\n" % (c["id"], c["jcol"], c["nsupc"], c["nsupr"], c["usepr"], c["oldpiv"], c["diagind"], (un / ud).hex())
    s += " ".join(map(str, c["rows"])) + "\n"
    vals = []
    for col in c["cols"]:
        for v in col:
            if c["cplx"]:
                vals += [float(v[0]).hex(), float(v[1]).hex()]
            else:
                vals.append(float(v).hex())
    return s + " ".join(vals) + "\n"


def lean_text(c):
    un, ud = c["u"]
    last = c["cols"][c["nsupc"]]
    if c["cplx"]:
        mags = [abs(v[0]) + abs(v[1]) for v in last]   # exact on the lattice
    else:
        mags = [abs(v) for v in last]
    s = "case %s %d %d %d %d %d %d %d %d\n" % (c["id"], c["jcol"], c["nsupc"], c["nsupr"], c["usepr"], c["oldpiv"], c["diagind"], un, ud)
    s += " ".join(map(str, c["rows"])) + "\n"
    s += " ".join("%d %d" % dy(m) for m in mags) + "\n"
    if c["cplx"]:
        s += "0\n"
    else:
        s += "%d\n" % len(c["cols"])
        for col in c["cols"]:
            s += " ".join("%d %d" % dy(v) for v in col) + "\n"
    return s


def parse_c(text):
    res = {}; cur = None
    for line in text.split("\n"):
        t = line.split()
        if not t:
            continue
        if t[0] == "case":
            cur = {"id": t[1], "info": int(t[3]), "pivrow": int(t[5]), "usepr": int(t[7]), "permr": int(t[9]), "invpermr": int(t[11]), "oob": int(t[13]), "cols": {}}
            res[t[1]] = cur
        elif t[0] == "rows":
            cur["rows"] = [int(x) for x in t[1:]]
        elif t[0] == "col":
            cur["cols"][int(t[1])] = [float.fromhex(x) for x in t[2:]]
    return res


def parse_lean(text):
    res = {}; cur = None
    for line in text.split("\n"):
        t = line.split()
        if not t:
            continue
        if t[0] == "case":
            cur = {"id": t[1], "info": int(t[3]), "pivrow": int(t[5]), "usepr": int(t[7]), "pivptr": int(t[9]), "oob": int(t[11]), "cols": {}}
            res[t[1]] = cur
        elif t[0] == "rows":
            cur["rows"] = [int(x) for x in t[1:]]
        elif t[0] == "col":
            cur["cols"][int(t[1])] = [Fraction(x) for x in t[2:]]
    return res


def property_oracle(c, a):
    """The clauses of C02/C06/C08 about one pivot step, evaluated exactly on what the REAL routine returned
    (independent of the model).  -> list of failed clause names."""
    nsupc, nsupr = c["nsupc"], c["nsupr"]
    if nsupr <= nsupc:
        return []
    last = c["cols"][nsupc]
    mag = [(abs(Fraction(v[0])) + abs(Fraction(v[1]))) if c["cplx"] else abs(Fraction(v)) for v in last]
    rows = c["rows"]; cand = list(range(nsupc, nsupr))
    u = Fraction(*c["u"]); mx = max(mag[i] for i in cand)
    fails = []
    if (a["info"] != 0) != (mx == 0):
        fails.append("info-iff-all-candidates-zero")
    if a["info"] != 0:
        if a["info"] != c["jcol"] + 1: fails.append("info-value")
        if a["usepr"] != 0: fails.append("usepr-not-cleared-on-singular")
        return fails
    pos = [i for i in cand if rows[i] == a["pivrow"]]
    if c["usepr"] and not [i for i in cand if rows[i] == c["oldpiv"]]:
        return fails      # reuse requested with a row order that does not fit this column: outside the property's premise
    if not pos:
        return fails + ["pivot-row-not-a-candidate"]
    pm = mag[pos[0]]
    if pm == 0: fails.append("zero-pivot-chosen")
    if pm < u * mx: fails.append("pivot-below-threshold")
    dpos = [i for i in cand if rows[i] == c["diagind"]]
    opos = [i for i in cand if rows[i] == c["oldpiv"]]
    old_ok = bool(c["usepr"] and opos and mag[opos[0]] != 0 and mag[opos[0]] >= u * mx)
    if old_ok:
        if a["pivrow"] != c["oldpiv"] or a["usepr"] != 1: fails.append("old-pivot-not-reused")
    elif a["usepr"] == 0:
        if dpos and mag[dpos[0]] != 0 and mag[dpos[0]] >= u * mx:
            if a["pivrow"] != c["diagind"]: fails.append("diagonal-not-preferred")
    return fails


def run(ctx, ncases, precs="sdcz", flavour="plain"):
    """-> (stats dict, list of disagreement dicts); property-level failures have kind 'pivotL-property'"""
    C.build_lib(flavour)
    exes = C.build_harness_all_prec("h_pivot.c", flavour, precs=precs)
    rng = random.Random(ctx.seed * 7919 + 17)
    stats = {"cases": 0, "singular": 0, "oob": 0, "usepr_kept": 0, "usepr_dropped": 0, "diag_chosen": 0, "max_chosen": 0, "value_cols_exact": 0, "value_cols_inexact_skipped": 0}
    dis = []
    wd = tempfile.mkdtemp(prefix="pivot", dir=C.BUILD)
    for prec in precs:
        cplx = prec in "cz"
        cases = [gen_case(rng, "%s%d" % (prec, i), cplx) for i in range(ncases)]
        fin = os.path.join(wd, prec + ".in"); fout = os.path.join(wd, prec + ".out")
        open(fin, "w").write("".join(c_text(c) for c in cases))
        r = subprocess.run([exes[prec], fin, fout], capture_output=True, text=True, env=C.ENV, timeout=300)
        if r.returncode != 0:
            dis.append({"kind": "harness-crash", "prec": prec, "rc": r.returncode, "stderr": r.stderr[-800:]}); continue
        cres = parse_c(open(fout).read())
        lres = parse_lean(C.run_sludrv("pivot", "".join(lean_text(c) for c in cases)))
        for c in cases:
            a, b = cres.get(c["id"]), lres.get(c["id"])
            stats["cases"] += 1
            if a is None or b is None:
                dis.append({"kind": "missing", "case": c}); continue
            pf = property_oracle(c, a)
            if pf:
                dis.append({"kind": "pivotL-property", "fields": pf, "prec": prec, "case": {k: (v if k != "cols" else [[(list(x) if isinstance(x, tuple) else x) for x in col] for col in v]) for k, v in c.items()},
                            "c": {k: v for k, v in a.items() if k != "cols"}})
            if b["oob"]:
                stats["oob"] += 1
                if not a["oob"]:
                    dis.append({"kind": "oob-mismatch", "case": c, "c": a, "lean": b})
                continue
            diffs = []
            for f in ("info", "pivrow", "usepr", "rows"):
                if a[f] != b[f]:
                    diffs.append(f)
            if a["info"] == 0 or True:
                if a["permr"] != c["jcol"]: diffs.append("perm_r[pivrow]!=jcol")
                if a["invpermr"] != a["pivrow"]: diffs.append("inv_perm_r[jcol]!=pivrow")
            if not cplx and not diffs:
                for k, colv in b["cols"].items():
                    cv = a["cols"].get(k)
                    ex = all(Fraction(x) == y for x, y in zip(cv, colv))
                    if ex:
                        stats["value_cols_exact"] += 1
                    else:
                        # division by a non power of two is inexact in binary: only then may values differ,
                        # and only in the scaled part of the last column
                        piv = b["cols"][c["nsupc"]][c["nsupc"]] if k == c["nsupc"] else None
                        inexact_ok = (k == c["nsupc"] and all(Fraction(x) == y for x, y in zip(cv[:c["nsupc"] + 1], colv[:c["nsupc"] + 1])))
                        if inexact_ok and piv is not None and (abs(piv.numerator) & (abs(piv.numerator) - 1)) != 0:
                            # check against IEEE emulation l = fl(c * fl(1/p)) (double only)
                            if prec == "d":
                                pf = float(piv); t = 1.0 / pf
                                pre = [float(y * piv) for y in colv]
                                if any(cv[i] != pre[i] * t for i in range(c["nsupc"] + 1, c["nsupr"])):
                                    diffs.append("col%d-values" % k)
                            stats["value_cols_inexact_skipped"] += 1
                        else:
                            diffs.append("col%d-values" % k)
            if b["info"]:
                stats["singular"] += 1
            elif c["usepr"] and b["usepr"]:
                stats["usepr_kept"] += 1
            else:
                if c["usepr"]:
                    stats["usepr_dropped"] += 1
                if b["pivrow"] == c["diagind"]:
                    stats["diag_chosen"] += 1
                else:
                    stats["max_chosen"] += 1
            if diffs:
                dis.append({"kind": "pivotL-disagreement", "fields": diffs, "prec": prec, "case": {k: (v if k != "cols" else [[(list(x) if isinstance(x, tuple) else x) for x in col] for col in v]) for k, v in c.items()},
                            "c": {k: v for k, v in a.items() if k != "cols"}, "lean": {k: v for k, v in b.items() if k != "cols"}})
    import shutil; shutil.rmtree(wd, ignore_errors=True)
    return stats, dis
