"""Run h_drv scripts, parse their output, and translate factorization dumps into the integer-only
`lucheck` format consumed by sludrv (hex floats -> dyadic (m, e) pairs)."""
import os, subprocess, math, tempfile, signal
from . import common as C


def fh(tok):
    return float.fromhex(tok)


def parse_out(text):
    """-> list of op dicts; each has 'op', scalar fields, arrays, and 'L'/'U' sub-dicts.
    A dump that cannot be parsed (the harness printed through corrupted factor structures) raises GarbledOutput."""
    try:
        return _parse_out(text)
    except (ValueError, IndexError, KeyError, TypeError) as e:
        raise GarbledOutput(repr(e))


class GarbledOutput(Exception):
    pass


def _parse_out(text):
    ops = []; cur = None; pre = {}
    for line in text.split("\n"):
        if not line:
            continue
        t = line.split()
        k = t[0]
        if k == "op":
            cur = {"op": t[1], "Lsup": [], "Lcol": {}, "Ucol": [], "events": []}; cur.update(pre); pre = {}
        elif k == "end":
            ops.append(cur); cur = None
        elif k == "done":
            pre["done"] = True
        elif k == "heap":
            heaps = (cur if cur is not None else pre).setdefault("heaps", [])
            heaps.append((t[1], int(t[2]), int(t[3]), int(t[4])))
        elif cur is None:
            if k == "permc_get":
                pre["permc_get"] = [int(x) for x in t[2:]]
        elif k in ("info", "redzone", "inside", "usepr_after", "stale_touched", "stale_inside"):
            cur[k] = int(t[1])
        elif k == "xerbla":
            cur["xerbla"] = (int(t[1]), t[2], int(t[3]))
        elif k == "threads":
            cur["threads"] = (int(t[1]), int(t[2]))
        elif k == "equed":
            cur["equed_in"], cur["equed"] = int(t[1]), int(t[2])
        elif k.endswith(".same") or k == "B.same":
            cur[k] = int(t[1])
        elif k in ("perm_r", "perm_c") or k.startswith("L.") or k.startswith("U."):
            cur[k] = [int(x) for x in t[2:]]
        elif k in ("X", "B", "A.val", "R", "C", "ferr", "berr"):
            cur[k] = [fh(x) for x in t[2:]]
        elif k in ("rpg", "rcond"):
            cur[k] = fh(t[1])
        elif k == "mem":
            cur["mem"] = (fh(t[1]), fh(t[2]), int(t[3]))
        elif k == "Lhdr":
            cur["Lhdr"] = [int(x) for x in t[1:]]
        elif k == "Uhdr":
            cur["Uhdr"] = [int(x) for x in t[1:]]
        elif k == "Lsup":
            if t[2] == "bad":
                cur["Lsup"].append(None)
            else:
                cur["Lsup"].append({"s": int(t[1]), "f": int(t[2]), "e": int(t[3]), "rows": [int(x) for x in t[5:5 + int(t[4])]]})
        elif k == "Lcol":
            cur["Lcol"][int(t[1])] = (int(t[2]), [fh(x) for x in t[4:]])
        elif k == "Ucol":
            cnt = int(t[2])
            cur["Ucol"].append(([int(x) for x in t[3:3 + cnt]], [fh(x) for x in t[3 + cnt:]]))
        elif k == "e":
            cur["events"].append((int(t[1]), int(t[2]), int(t[3]), int(t[4]), int(t[5])))
        elif k == "events":
            cur["events_total"] = int(t[2])
        elif k == "allocs":
            cur["allocs"] = (int(t[1]), int(t[2]), t[3])
        elif k == "noLU":
            cur["noLU"] = True
    if cur is not None:
        cur["truncated"] = True; ops.append(cur)
    if pre.get("heaps"):
        ops.append({"op": "tail", "heaps": pre["heaps"]})
    return ops, pre.get("done", False)


def run_script(exe, script, timeout=120, workdir=None, want_text=False):
    """-> (ops, done, rc, stderr).  rc<0 = killed by signal (crash), rc None = timeout."""
    d = workdir or tempfile.mkdtemp(prefix="hdrv", dir=os.path.join(C.BUILD))
    sp = os.path.join(d, "s.scr"); op = os.path.join(d, "s.out")
    open(sp, "w").write(script)
    try:
        r = subprocess.run([exe, sp, op], capture_output=True, text=True, timeout=timeout, env=C.ENV, errors="replace")
        rc = r.returncode; err = r.stderr[-12000:]
    except subprocess.TimeoutExpired as e:
        rc = None; err = "timeout"
    text = open(op).read() if os.path.exists(op) else ""
    try:
        ops, done = parse_out(text)
    except GarbledOutput as e:
        # the result dump itself is inconsistent (e.g. column counts taken from corrupted factor arrays): report as a crash of the run
        ops, done = [], False
        err = (err or "") + "\nGARBLED-OUTPUT %s" % e
        if rc == 0: rc = -999
    if workdir is None:
        import shutil; shutil.rmtree(d, ignore_errors=True)
    if want_text:
        return ops, done, rc, err, text
    return ops, done, rc, err


def dy(x):
    if x == 0 or x != x or x in (float("inf"), float("-inf")):
        return (0, 0) if x == 0 else None
    m, e = math.frexp(x)
    m = int(m * (1 << 53)); e -= 53
    tz = (m & -m).bit_length() - 1
    return (m >> tz, e + tz)


class NonFinite(Exception):
    pass


def _lucase_block(cid, M, res, rhs_cols, x_cols, p, klu, kres, thresh, trans, part=None, E_force=None):
    """one integer-only case block.  part=None: real data; part=0/1: real / imaginary parts of complex data
    (matrix values are (re, im) tuples, dumped arrays are interleaved re im re im ...)."""
    n = M.n
    allv = []
    def D(x):
        d = dy(x)
        if d is None:
            raise NonFinite()
        allv.append(d); return d
    def mv(v):
        return v if part is None else v[part]
    def arr(vals):
        return list(vals) if part is None else list(vals[part::2])
    A = []
    for j, col in M.cols():
        for i, v in col:
            A.append((i, j, D(mv(v))))
    sn = []
    for s in res["Lsup"]:
        if s is None:
            raise NonFinite()
        cols = []
        for j in range(s["f"], s["e"]):
            b, vals = res["Lcol"][j]
            cols.append((b, [D(v) for v in arr(vals)]))
        sn.append((s, cols))
    ucols = []
    for j, (rows, vals) in enumerate(res["Ucol"]):
        ucols.append((res["U.colbeg"][j], rows, [D(v) for v in arr(vals)]))
    B = []; X = []
    for r in range(len(rhs_cols or [])):
        B.append([D(mv(v)) for v in rhs_cols[r]]); X.append([D(mv(v)) for v in x_cols[r]])
    E = min([0] + [e for (m, e) in allv if m != 0])
    if E_force is not None:
        E = E_force
    # b is scaled by 2^(2E): fine since every exponent >= E >= 2E
    klu = klu if klu is not None else n
    kres = kres if kres is not None else 3 * n
    out = ["case %s" % cid, "n %d p %d E %d" % (n, p, E), "klu %d kres %d" % (klu, kres), "thresh %d %d" % thresh, "A %d" % len(A)]
    for (i, j, (m, e)) in A:
        out.append("%d %d %d %d" % (i, j, m, e))
    out.append("permr %d %s" % (n, " ".join(map(str, res["perm_r"]))))
    out.append("permc %d %s" % (n, " ".join(map(str, res["perm_c"]))))
    hdr = res["Lhdr"]
    out.append("L %d %d %d" % (hdr[2], hdr[3], len(sn)))
    for nm, key in (("colToSup", "L.col_to_sup"), ("supBeg", "L.sup_to_colbeg"), ("supEnd", "L.sup_to_colend"), ("rowBegA", "L.rowind_colbeg"),
                    ("rowEndA", "L.rowind_colend"), ("nzBegA", "L.nzval_colbeg"), ("nzEndA", "L.nzval_colend")):
        a = res[key]; out.append("%s %d %s" % (nm, len(a), " ".join(map(str, a))))
    for s, cols in sn:
        out.append("sup %d %d %d %d %s" % (s["f"], s["e"], res["L.rowind_colbeg"][s["f"]], len(s["rows"]), " ".join(map(str, s["rows"]))))
        for (b, vals) in cols:
            out.append("col %d %d %s" % (b, len(vals), " ".join("%d %d" % d for d in vals)))
    out.append("U %d" % res["Uhdr"][2])
    for (b, rows, vals) in ucols:
        out.append("ucol %d %d %s %s" % (b, len(rows), " ".join(map(str, rows)), " ".join("%d %d" % d for d in vals)))
    out.append("B %d %d" % (len(B), 1 if trans else 0))
    for r in range(len(B)):
        out.append("b " + " ".join("%d %d" % d for d in B[r]))
        out.append("x " + " ".join("%d %d" % d for d in X[r]))
    out.append("end")
    return "\n".join(out) + "\n", E


def lucase_text(cid, M, res, rhs_cols=None, x_cols=None, p=53, klu=None, kres=None, thresh=(1, 1), cplx=False, trans=False):
    """Build the integer-only case block for `sludrv lucheck` (real) or the pair of blocks (real parts, imaginary parts, one
    common scale) for `sludrv clucheck` (complex).
    M: gen.Mat as factored (for NR storage pass the transposed matrix, i.e. what the library factors
    is irrelevant here: pass the *user's* A in NC form together with perms as returned)."""
    if not cplx:
        return _lucase_block(cid, M, res, rhs_cols, x_cols, p, klu, kres, thresh, trans)[0]
    n = M.n
    klu = klu if klu is not None else 2 * n + 6        # complex multiply-add: a few more rounding errors per term; embedded dimension 2n
    kres = kres if kres is not None else 3 * (2 * n + 6)
    _, e0 = _lucase_block(cid, M, res, rhs_cols, x_cols, p, klu, kres, thresh, trans, part=0)
    _, e1 = _lucase_block(cid, M, res, rhs_cols, x_cols, p, klu, kres, thresh, trans, part=1)
    E = min(e0, e1)
    t0, _ = _lucase_block(cid, M, res, rhs_cols, x_cols, p, klu, kres, thresh, trans, part=0, E_force=E)
    t1, _ = _lucase_block(cid, M, res, rhs_cols, x_cols, p, klu, kres, thresh, trans, part=1, E_force=E)
    return t0 + t1


def parse_verdicts(text):
    res = {}
    for line in text.split("\n"):
        t = line.split()
        if len(t) >= 2 and t[0] == "case":
            res[t[1]] = dict(kv.split("=", 1) for kv in t[2:])
    return res
