"""Event-log monitor for real multi-threaded factorizations (hooks of /repo, guard SLU_MT_VERIF).
Events (kind, pnum, a, b, c) in global sequence order:
  1 take(jcol, bcol, tasks_remain)  2 sched-none  3 release(col, panel, regular?)  4 panel-done(jcol, w)
  5/6 wait begin/end(kcol, jcol)    7 busy-supernode read(fsupc, krep, jcol)     8 new supernode number(i)
  9 lusup alloc(jcol, num, prev)    10 pivot(col, pivrow, panel)  11 worker exit(singular)  12/13 prune begin/end(col, panel)
  14 dfs read(krep, kperm, jcol)    15 etree(i, parent, size)  16 panel(i, type, ukids)  17 init(tasks_remain, qcount, n)
  18 slot table(leader column | n, start | total, dynamic?)
Returns a list of rule-violation strings (empty = all clauses of C03/C04 that the log can express hold)."""


def check(events, nprocs):
    bad = []
    etree = {}; size = {}; ptype = {}; n = None; tasks0 = None
    for (k, p, a, b, c) in events:
        if k == 15: etree[a] = b; size[a] = c
        elif k == 16: ptype[a] = b
        elif k == 17: tasks0 = a; n = c
    if n is None:
        return ["no-init-events"]
    panels = sorted(j for j in range(n) if size.get(j, 0) > 0)
    panel_of = {}
    for j in panels:
        for k in range(j, j + size[j]): panel_of[k] = j
    if sorted(panel_of) != list(range(n)):
        bad.append("panels-do-not-partition-columns")
    if tasks0 != len(panels):
        bad.append("tasks_remain-init %s != #panels %d" % (tasks0, len(panels)))
    take = {}; rel = {}; piv = {}; done = {}; takes = []
    exits = 0
    for seq, (k, p, a, b, c) in enumerate(events):
        if k == 1:
            if a in take: bad.append("panel %d taken twice" % a)
            take[a] = (seq, p, b); takes.append((seq, a, c))
        elif k == 3:
            if a in rel: bad.append("column %d released twice" % a)
            rel[a] = seq
        elif k == 10:
            if a in piv: bad.append("column %d pivoted twice" % a)
            piv[a] = (seq, p)
        elif k == 4:
            if a in done: bad.append("panel %d done twice" % a)
            done[a] = seq
        elif k == 11:
            exits += 1
    # tasks_remain counts untaken panels
    for i, (seq, j, tr) in enumerate(takes):
        if tr != len(panels) - (i + 1):
            bad.append("tasks_remain=%d at take #%d of %d panels" % (tr, i + 1, len(panels))); break
    if set(take) != set(panels): bad.append("taken panels != panels (missing %s)" % sorted(set(panels) - set(take))[:5])
    if set(rel) != set(range(n)): bad.append("released columns != 0..n-1 (missing %s)" % sorted(set(range(n)) - set(rel))[:5])
    if exits != nprocs: bad.append("worker exits %d != nprocs %d" % (exits, nprocs))
    for j in panels:
        if j not in take or j not in done: continue
        for col in range(j, j + size[j]):
            if col in rel:
                if not (take[j][0] < rel[col] < done[j]): bad.append("column %d: release not between take and done of panel %d" % (col, j))
            if ptype.get(j) == 2:   # regular panel
                if col not in piv: bad.append("regular column %d never pivoted" % col)
                elif not (piv[col][0] < rel.get(col, 1 << 60)): bad.append("column %d released before it was pivoted" % col)
                elif piv[col][1] != take[j][1]: bad.append("column %d pivoted by a worker that does not own panel %d" % (col, j))
    # reads
    dfs_sets = {}; chain_sets = {}
    for seq, (k, p, a, b, c) in enumerate(events):
        if k == 7:      # busy supernode [a..b] read for panel c
            for col in range(a, b + 1):
                if rel.get(col, 1 << 60) > seq: bad.append("supernode [%d,%d] read for panel %d before column %d was released" % (a, b, c, col)); break
            if b >= c: bad.append("busy supernode rep %d not below panel %d" % (b, c))
            s = chain_sets.setdefault(c, [])
            if b in s: bad.append("supernode rep %d waited twice for panel %d" % (b, c))
            s.append(b)
        elif k == 14:   # dfs read of supernode rep a for panel c
            if rel.get(a, 1 << 60) > seq: bad.append("DFS of panel %d read supernode rep %d before it was released" % (c, a))
            dfs_sets.setdefault(c, set()).add(a)
    for j, s in chain_sets.items():
        both = set(s) & dfs_sets.get(j, set())
        if both: bad.append("panel %d: supernode(s) %s updated both by DFS and by the pipeline wait" % (j, sorted(both)[:4]))
    # C05: every L-supernode allocation stays inside the slot PresetMap reserved (static mode)
    slots = sorted((a, b) for (k, p, a, b, c) in events if k == 18 and c == 0)
    if slots and not any(c != 0 for (k, p, a, b, c) in events if k == 18):
        import bisect
        leaders = [a for a, b in slots]; starts = [b for a, b in slots]
        for (k, p, a, b, c) in events:
            if k == 9:
                i = bisect.bisect_right(leaders, a) - 1
                if i < 0 or i + 1 >= len(leaders):
                    bad.append("LUSUP allocation for column %d outside the slot table" % a); continue
                if c < starts[i] or c + b > starts[i + 1]:
                    bad.append("LUSUP slot overrun: column %d requests [%d,%d) but the slot of H-supernode %d is [%d,%d)" % (a, c, c + b, leaders[i], starts[i], starts[i + 1]))
    # pipeline rule at each take
    anc_path = {}
    for j in panels:
        if ptype.get(j) != 2 or j not in take: continue
        seq, p, bcol = take[j]
        # subtree of column j in a postordered etree: contiguous range [lo, j)
        lo = j
        # descendants: columns k<j whose ancestor chain reaches j
        path = set(); k = bcol
        while k < j and k in etree:
            path.add(k); k = etree[k]
        if bcol < j and ptype.get(bcol) == 0:
            path.update(range(bcol, bcol + size.get(bcol, 1)))
        for k in range(j - 1, -1, -1):
            # is k a descendant of j ?
            a = k
            while a < j: a = etree.get(a, n)
            if a != j: break      # postorder: first non-descendant ends the subtree
            if rel.get(k, 1 << 60) > seq and k not in path:
                bad.append("panel %d handed out (bcol=%d) while descendant column %d is neither released nor on the wait chain" % (j, bcol, k)); break
    return bad[:12]


def dyn_text(events, cid):
    """input block for `sludrv dynslots`: the reservations (hook 19: DynamicSetMap leader, count, nextlu before) and the L-supernode
    allocations (hook 20: Glu_alloc(LUSUP) leader, request, offset returned) of one run in the dynamic storage scheme, in log order"""
    ev = [(k, a, b, c) for (k, p, a, b, c) in events if k in (19, 20, 21)]
    res = [e for e in ev if e[0] in (19, 21)]      # 21: a relaxed supernode laid out by ?PresetMap (leader, room reserved, offset) -- the same bump rule
    if not res:
        return None
    lines = ["%s %d %d %d" % ("a" if k == 20 else "r", a, b, c) for (k, a, b, c) in ev]
    return "case %s %d %d\n%s\n" % (cid, res[0][3], len(lines), "\n".join(lines))
