"""Factorization sweep: generate matrices/configurations, run the real drivers through h_drv, and
judge every returned factorization with the Lean-verified checkers (sludrv lucheck).
Used by C01, C02, C09 (and re-used by C06/C16)."""
import os, random, time, json
from concurrent.futures import ThreadPoolExecutor
from . import common as C, gen as G, drv as D

PBITS = {"s": 24, "d": 53, "c": 24, "z": 53}


def make_case(seed, t, nmax, precs="sd", drivers=("gssv",), force=None):
    rng = random.Random(seed * 1000003 + t)
    f = force or {}
    prec = f.get("prec") or rng.choice(precs)
    n = f.get("n") or rng.choice([1, 2, 3, 4, 5, 6, 7, 8] + [rng.randint(9, nmax) for _ in range(12)])
    vmode = f.get("vmode") or rng.choice(["float", "float", "int", "pow2"])
    kind = f.get("kind")
    if isinstance(kind, (list, tuple)):
        kind = rng.choice(list(kind))
    M = G.random_matrix(rng, n, kind, vmode, cplx=prec in "cz", dominant=f.get("dominant") or False)
    if prec in "sc":
        G.round_single(M)
    nrhs = f.get("nrhs", rng.choice([0, 1, 1, 1, 2, 3]))
    ld = n + rng.choice([0, 0, 1, 3])
    cplx = prec in "cz"
    def bval():
        v = rng.choice([rng.uniform(-1, 1), float(rng.randint(-3, 3)), 0.0]) if vmode == "float" else float(rng.randint(-4, 4))
        return v
    rhs = [[((bval(), bval()) if cplx else bval()) for _ in range(n)] for _ in range(nrhs)]
    if prec in "sc":
        import struct
        r1 = lambda x: struct.unpack("f", struct.pack("f", x))[0]
        rhs = [[((r1(v[0]), r1(v[1])) if cplx else r1(v)) for v in col] for col in rhs]
    cfg = {
        "t": t, "prec": prec, "n": n, "kind": M.kind, "vmode": vmode, "nrhs": nrhs, "ld": ld,
        "stype": f.get("stype") or rng.choice(["NC", "NC", "NR"]),
        "colperm": f.get("colperm", rng.randint(0, 3)),
        "nprocs": f.get("nprocs") or rng.choice([1, 2, 2, 3, 4, 8, n + 3]),
        "panel": f.get("panel") or rng.choice([1, 1, 2, 3, 8, 20]), "relax": (rng.choice(list(f["relax"])) if isinstance(f.get("relax"), (list, tuple)) else f.get("relax")) or rng.choice([1, 2, 6]),
        "maxsuper": f.get("maxsuper") or rng.choice([2, 4, 200]), "rowblk": rng.choice([1, 2, 4, 200]), "colblk": rng.choice([1, 2, 100]),
        "driver": f.get("driver") or rng.choice(list(drivers)),
        "u": f.get("u", rng.choice([1.0, 1.0, 0.5, 0.125, 0.0, round(rng.random(), 3)])),
        "perturb": f.get("perturb", rng.choice([0, 0, 1, 3])),
        "evlog": f.get("evlog", 0),
        "fill": f.get("fill"),
        "dyn": f.get("dyn", 0), "fact": f.get("fact", 0), "trans": f.get("trans", 0), "symm": f.get("symm", 0), "lwork": rng.choice(list(f["lwork"])) if isinstance(f.get("lwork"), (list, tuple)) else f.get("lwork", 0),
    }
    # tunables precondition (DESIGN §7-F8): a relaxed supernode may have up to `relax` columns, and every
    # size computed from maxsuper (work arrays, slot table) assumes relax <= maxsuper.
    if cfg["maxsuper"] < cfg["relax"]:
        cfg["maxsuper"] = cfg["relax"]
    return cfg, M, rhs


def script_for(cfg, M, rhs):
    single = cfg["prec"] in "sc"
    # storage estimates (sp_ienv 6-8, negative = multiple of nnz(A)): star/arrow patterns fill to O(n^2), so scale with n
    fill = cfg.get("fill") or ((-50, -50, -30) if cfg["n"] <= 48 else (-(cfg["n"] + 20), -(cfg["n"] + 20), -(cfg["n"] + 20)))
    s = "ienv %d %d %d %d %d %d %d %d\n" % ((cfg["panel"], cfg["relax"], cfg["maxsuper"], cfg["rowblk"], cfg["colblk"]) + tuple(fill))
    s += "perturb %d %d\n" % (cfg["perturb"], cfg["t"] + 1)
    if cfg.get("evlog"):
        s += "evlog 1 1\n"
    if cfg.get("dyn"):
        s += "dynsnode 1\n"
    s += G.script_mat(0, M, nr=(cfg["stype"] == "NR"), single=single)
    s += G.script_rhs(0, cfg["n"], cfg["nrhs"], cfg["ld"], rhs, M.cplx, single)
    s += "permc_get 0 %d\n" % cfg["colperm"]
    if cfg["driver"] == "gssv":
        s += "gssv 0 0 %d\n" % cfg["nprocs"]
    else:
        # gssvx A B nprocs fact trans refact usepr u panel relax symm lwork   (DOFACT, NOTRANS)
        s += "gssvx 0 0 %d %d %d 0 0 %s %d %d %d %d\n" % (cfg["nprocs"], cfg.get("fact", 0), cfg.get("trans", 0), float(cfg["u"]).hex(),
                                                       cfg["panel"], cfg["relax"], cfg.get("symm", 0), cfg.get("lwork", 0))
    s += "quit\n"
    return s


def transpose(M):
    ptr, ind, vals = M.to_rows()
    return G.Mat(M.n, ptr, ind, vals, M.cplx)


def unpack_cols(flat, n, ld, nrhs, cplx):
    cols = []
    for r in range(nrhs):
        if cplx:
            cols.append([(flat[2 * (r * ld + i)], flat[2 * (r * ld + i) + 1]) for i in range(n)])
        else:
            cols.append([flat[r * ld + i] for i in range(n)])
    return cols


def run_case(exes, cfg, M, rhs):
    """-> record dict: status in ok|crash|timeout|error, op result, lucase text (if any)."""
    ops, done, rc, err = D.run_script(exes[cfg["prec"]], script_for(cfg, M, rhs), timeout=120)
    rec = {"cfg": cfg, "status": "ok", "rc": rc, "err": err[-1500:] if err else "", "crash_site": crash_site(err or "")}
    if rc is None:
        rec["status"] = "timeout"; return rec
    if rc != 0 or not done or not ops:
        rec["status"] = "crash"; return rec
    r = ops[0]; rec["res"] = r
    rec["info"] = r["info"]
    return rec


def crash_site(err):
    """normalised 'kind@function' of a sanitizer / abort report (precision letter wildcarded), or ''"""
    import re
    m = re.search(r"SUMMARY: \w+Sanitizer: (\S+) \S*?([\w.]+):(\d+)(?::\d+)? in (\w+)", err)
    if m:
        fn = re.sub(r"^(p?)[sdcz](g|l|P|s)", r"\1?\2", m.group(4))
        return "%s@%s" % (m.group(1), fn)
    m = re.search(r"runtime error: .*?#0 0x[0-9a-f]+ in (\w+)", err, flags=re.S)
    if m:
        fn = re.sub(r"^(p?)[sdcz](g|l|P|s|C)", r"\1?\2", m.group(1))
        fn = re.sub(r"^superlu_[sdcz]", "superlu_?", fn)
        return "UB@%s" % fn
    m = re.search(r"SUMMARY: \w+Sanitizer: (\S+)", err)
    if m:
        return m.group(1) + "@?"
    if "GARBLED-OUTPUT" in err:
        return "garbled-output"
    if "Not enough memory" in err or "ABORT" in err.upper():
        return "abort"
    return ""


def lucase_for(rec, M, rhs):
    """text block for sludrv lucheck.  The factors satisfy Pr*F*Pc = L*U where F is what the library
    factored: A for NC storage, A^T for NR storage.  The residual is always judged against the user's
    system; for NR the check uses the identity (A^T)^T: we hand `lucheck` F for the LU test and
    do the residual test separately in the transposed sense (see checks)."""
    cfg, r = rec["cfg"], rec["res"]
    n = cfg["n"]
    F = transpose(M) if cfg["stype"] == "NR" else M
    p = PBITS[cfg["prec"]]
    un = cfg["u"] if cfg["driver"] != "gssv" else 1.0
    from fractions import Fraction
    uf = Fraction(un).limit_denominator(1 << 60) if un > 0 else Fraction(0)
    xs = unpack_cols(r["X"], n, cfg["ld"], cfg["nrhs"], M.cplx) if r["info"] == 0 and cfg["nrhs"] > 0 else []
    bs = rhs if xs else []
    return D.lucase_text("c%d" % cfg["t"], F, r, bs, xs, p=p, thresh=(uf.numerator, uf.denominator), cplx=M.cplx,
                         trans=(cfg["stype"] == "NR"))


def sweep(ctx, ncases, nmax, precs="d", drivers=("gssv",), flavour="plain", force=None, seed_offset=0, batch=150):
    """Run ncases generated cases; return list of records with 'verdict' filled where a dump existed."""
    C.build_lib(flavour)
    exes = C.build_harness_all_prec("h_drv.c", flavour, precs="".join(sorted(set(precs))))
    cases = [make_case(ctx.seed + seed_offset, t, nmax, precs, drivers, force) for t in range(ncases)]
    def one(c):
        cfg, M, rhs = c
        rec = run_case(exes, cfg, M, rhs)
        rec["M"] = M; rec["rhs"] = rhs
        if rec["status"] == "ok" and cfg.get("evlog"):
            from . import evmon
            rec["evmon"] = evmon.check(rec["res"].get("events", []), min(cfg["nprocs"], 10 ** 9))
            rec["n_events"] = len(rec["res"].get("events", []))
            if cfg.get("dyn"):
                rec["dyntext"] = evmon.dyn_text(rec["res"].get("events", []), "c%d" % cfg["t"])
            rec["res"]["events"] = rec["res"]["events"][:0]   # free memory
        if rec["status"] == "ok" and 0 <= rec["info"] and not rec["res"].get("noLU"):
            try:
                rec["lutext"] = lucase_for(rec, M, rhs)
            except D.NonFinite:
                rec["nonfinite"] = True
            except Exception as e:
                rec["dump_error"] = repr(e)
        return rec
    with ThreadPoolExecutor(C.NPROC) as ex:
        recs = list(ex.map(one, cases))
    # verified checkers, in parallel batches
    with_text = [r for r in recs if "lutext" in r]
    chunks = [with_text[i:i + batch] for i in range(0, len(with_text), batch)]
    def judge(chunk):
        # real factorizations: verified checkers directly; complex ones: the verified embedded judge (Model/CheckC.lean)
        v = {}
        re_ = [r for r in chunk if not r["M"].cplx]; cx = [r for r in chunk if r["M"].cplx]
        if re_:
            v.update(D.parse_verdicts(C.run_sludrv("lucheck", "".join(r["lutext"] for r in re_))))
        if cx:
            v.update(D.parse_verdicts(C.run_sludrv("clucheck", "".join(r["lutext"] for r in cx))))
        return v
    with ThreadPoolExecutor(C.NPROC) as ex:
        for chunk, v in zip(chunks, ex.map(judge, chunks)):
            for r in chunk:
                r["verdict"] = v.get("c%d" % r["cfg"]["t"])
    return recs


def replay_blob(rec):
    """self-contained replay description of one case"""
    M = rec["M"]
    return {"cfg": rec["cfg"], "matrix": {"n": M.n, "colptr": M.colptr, "rowind": M.rowind,
            "vals_hex": [([float(v[0]).hex(), float(v[1]).hex()] if M.cplx else float(v).hex()) for v in M.vals]},
            "rhs_hex": [[([float(v[0]).hex(), float(v[1]).hex()] if M.cplx else float(v).hex()) for v in col] for col in rec["rhs"]],
            "script": script_for(rec["cfg"], M, rec["rhs"]), "status": rec["status"], "rc": rec["rc"], "stderr": rec.get("err", "")[-800:],
            "verdict": rec.get("verdict"), "info": rec.get("info"), "crash_site": rec.get("crash_site")}


def summarize(recs):
    from collections import Counter
    c = Counter()
    for r in recs:
        cfg = r["cfg"]
        c["prec=" + cfg["prec"]] += 1; c["P=%s" % (cfg["nprocs"] if cfg["nprocs"] <= 8 else "n+3")] += 1
        c["kind=" + cfg["kind"]] += 1; c["stype=" + cfg["stype"]] += 1; c["driver=" + cfg["driver"]] += 1
        c["status=" + r["status"]] += 1; c["panel=%d" % cfg["panel"]] += 1
        c["nbucket=%s" % ("1-4" if cfg["n"] <= 4 else "5-16" if cfg["n"] <= 16 else "17-64" if cfg["n"] <= 64 else "65+")] += 1
        if r["status"] == "ok":
            c["info=%s" % ("0" if r["info"] == 0 else "singular" if r["info"] <= cfg["n"] else "other")] += 1
    return dict(sorted(c.items()))


def judge(ctx, recs, fields, what, need_info0=True):
    """turn failing verdict fields into violations; crashes/timeouts are violations too."""
    bad = 0
    for r in recs:
        cfg = r["cfg"]
        if r["status"] == "crash" and r.get("rc") not in (None,) and r["rc"] > 0 and "Sanitizer" not in (r.get("err") or "") and \
                ("exceeded; Current column" in (r.get("err") or "")) and "sp_ienv" in (r.get("err") or ""):
            # the library stopped with its storage-estimate diagnostic: the tunables (sp_ienv 6-8) were too small for this input.
            # That is the documented outcome of an insufficient estimate (property C05), not a failure of the property judged here.
            ctx.coverage["estimate_exceeded_runs"] = ctx.coverage.get("estimate_exceeded_runs", 0) + 1
            continue
        if r["status"] != "ok":
            bad += 1
            ctx.violation("%s:%s" % (what, r["status"]), "%s: harness %s (rc=%s) prec=%s n=%d P=%d kind=%s driver=%s: %s" % (
                what, r["status"], r["rc"], cfg["prec"], cfg["n"], cfg["nprocs"], cfg["kind"], cfg["driver"], (r.get("err") or "")[-200:].replace("\n", " ")), replay_blob(r))
            continue
        v = r.get("verdict")
        if v is None or (need_info0 and r.get("info") != 0):
            continue
        # complex factorizations: the multiplier / diagonal-preference judges are real-precision only ("-" = not evaluated)
        fails = [f for f in fields if v.get(f) not in (("1", "-") if (r["M"].cplx and f in ("mult", "diag")) else ("1",))]
        if fails:
            bad += 1
            ctx.violation("%s:%s" % (what, ",".join(fails)),
                          "%s failed (%s) prec=%s n=%d P=%d kind=%s driver=%s stype=%s u=%s bad=%s" % (
                              what, ",".join(fails), cfg["prec"], cfg["n"], cfg["nprocs"], cfg["kind"], cfg["driver"], cfg["stype"], cfg["u"], v.get("bad")),
                          replay_blob(r))
    return bad


def coverage(ctx, recs, extra_rule=""):
    judged = [r for r in recs if r.get("verdict")]
    keys = set((r["M"].key(), r["cfg"]["nprocs"], r["cfg"]["panel"], r["cfg"]["relax"], r["cfg"]["prec"]) for r in judged if r["cfg"]["n"] >= 3)
    ctx.coverage.update({
        "evaluations": len(recs), "distinct_nontrivial": len(keys),
        "rule": "seeded random/structured patterns (vlib/gen.py: random, zero-diagonal, chain, star, arrow, band, grid, forest, dense, "
                "block-diagonal, tridiagonal) x precision x storage NC/NR x driver x ordering 0..3 x nprocs x sp_ienv tunables "
                "(panel, relax, maxsuper, rowblk, colblk) x schedule perturbation; non-trivial = n>=3 with a dumped factorization "
                "judged by the Lean checkers; distinct = distinct (pattern, nprocs, panel, relax, precision). " + extra_rule,
        "judged_factorizations": len(judged),
        "distribution": summarize(recs),
        "samples": [dict(replay_blob(r)["cfg"], verdict=r.get("verdict")) for r in judged[:3]],
    })
