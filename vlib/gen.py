"""Seeded generators of sparse test matrices and harness scripts (h_drv)."""
import random, math
from fractions import Fraction


class Mat:
    """Square sparse matrix in compressed-column form; vals are python floats (or (re,im) pairs)."""
    def __init__(self, n, colptr, rowind, vals, cplx=False):
        self.n, self.colptr, self.rowind, self.vals, self.cplx = n, colptr, rowind, vals, cplx

    @property
    def nnz(self):
        return len(self.rowind)

    def cols(self):
        for j in range(self.n):
            yield j, [(self.rowind[k], self.vals[k]) for k in range(self.colptr[j], self.colptr[j + 1])]

    def to_rows(self):
        """Same matrix in compressed-row form (rowptr, colind, vals)."""
        rows = [[] for _ in range(self.n)]
        for j, col in self.cols():
            for i, v in col:
                rows[i].append((j, v))
        ptr = [0]; ind = []; vals = []
        for r in rows:
            r.sort(key=lambda t: t[0])
            for j, v in r:
                ind.append(j); vals.append(v)
            ptr.append(len(ind))
        return ptr, ind, vals

    def dense(self):
        D = [[0.0] * self.n for _ in range(self.n)]
        for j, col in self.cols():
            for i, v in col:
                D[i][j] = v
        return D

    def key(self):
        return (self.n, tuple(self.colptr), tuple(self.rowind))


def from_pattern(n, pat, valfn, cplx=False):
    """pat: set of (i,j). valfn(i,j)->value"""
    colptr = [0]; rowind = []; vals = []
    bycol = [[] for _ in range(n)]
    for (i, j) in pat:
        bycol[j].append(i)
    for j in range(n):
        for i in sorted(bycol[j]):
            rowind.append(i); vals.append(valfn(i, j))
        colptr.append(len(rowind))
    return Mat(n, colptr, rowind, vals, cplx)


def pattern(rng, n, kind=None, density=None):
    """Structurally nonsingular patterns of assorted shapes (a planted transversal guarantees
    structural rank n; the transversal is the diagonal unless kind says otherwise)."""
    kind = kind or rng.choice(["random", "random", "randzd", "chain", "star", "arrow", "band", "grid", "forest", "dense", "blockdiag", "tridiag"])
    pat = set()
    perm = list(range(n))
    if kind == "randzd":
        rng.shuffle(perm)  # transversal off the diagonal: zero diagonals allowed
    for j in range(n):
        pat.add((perm[j], j))
    d = density if density is not None else rng.choice([0.02, 0.05, 0.08, 0.15, 0.3])
    if kind in ("random", "randzd"):
        for j in range(n):
            for i in range(n):
                if rng.random() < d:
                    pat.add((i, j))
    elif kind == "chain":
        for j in range(n - 1):
            pat.add((j + 1, j));
            if rng.random() < 0.5: pat.add((j, j + 1))
    elif kind == "tridiag":
        for j in range(n - 1):
            pat.add((j + 1, j)); pat.add((j, j + 1))
    elif kind == "star":
        for j in range(n - 1):
            pat.add((n - 1, j)); pat.add((j, n - 1))
    elif kind == "arrow":
        for j in range(n):
            pat.add((n - 1, j)); pat.add((j, n - 1)); pat.add((0, j))
    elif kind == "band":
        b = rng.randint(1, max(1, min(6, n - 1)))
        for j in range(n):
            for i in range(max(0, j - b), min(n, j + b + 1)):
                if rng.random() < 0.8: pat.add((i, j))
    elif kind == "grid":
        k = max(1, int(math.sqrt(n)))
        for a in range(n):
            x, y = a % k, a // k
            for (bx, by) in ((x + 1, y), (x, y + 1)):
                b = by * k + bx
                if bx < k and b < n:
                    pat.add((a, b)); pat.add((b, a))
    elif kind == "forest":
        # several disconnected trees: wide elimination forests
        for j in range(n):
            if j and rng.random() < 0.7:
                p = rng.randrange(max(0, j - 6), j)
                pat.add((j, p)); pat.add((p, j))
    elif kind == "dense":
        for j in range(n):
            for i in range(n):
                if rng.random() < 0.85: pat.add((i, j))
    elif kind == "denserow":
        # a few dense rows and columns on a sparse background, zero diagonals allowed (transversal shuffled)
        pat = set(); perm2 = list(range(n)); rng.shuffle(perm2)
        for j in range(n): pat.add((perm2[j], j))
        for r in rng.sample(range(n), max(1, n // 8)):
            for j in range(n): pat.add((r, j))
        for c in rng.sample(range(n), max(1, n // 8)):
            for i in range(n): pat.add((i, c))
        for j in range(n):
            if rng.random() < 0.3: pat.add((rng.randrange(n), j))
    elif kind == "nothall":
        # block upper triangular with an off-diagonal transversal: not strong Hall, zero diagonal
        pat = set(); k = max(1, n // 2)
        sh = list(range(n)); 
        for j in range(n): pat.add(((j + 1) % n if j < n - 1 else 0, j)) if False else None
        perm2 = list(range(n)); rng.shuffle(perm2)
        for j in range(n): pat.add((perm2[j], j))
        for j in range(k, n):
            for i in range(k):
                if rng.random() < 0.4: pat.add((i, j))
        for j in range(n):
            if rng.random() < 0.2: pat.add((rng.randrange(n), j))
    elif kind == "arrowblocks":
        # structurally symmetric block-diagonal: blocks of q mutually uncoupled "leaf" unknowns each coupled to every unknown of a
        # dense clique (a relaxed supernode made of several fundamental supernodes whose top one continues past it), then a plain dense block
        o = 0
        while o < n:
            q_ = rng.randint(1, 3); m_ = rng.randint(2, 9)
            if rng.random() < 0.25: q_ = 0; m_ = rng.randint(3, 14)
            e = min(n, o + q_ + m_)
            for i in range(o, e):
                for j in range(o, e):
                    if i != j and ((i >= o + q_ and j >= o + q_) or ((i < o + q_) != (j < o + q_))):
                        pat.add((i, j))
            o = e
    elif kind == "diag":
        pass        # the transversal only: no off-diagonal entry at all (A + A' minus the diagonal is empty)
    elif kind == "blockdiag":
        b = rng.randint(2, 5)
        for j in range(n):
            for i in range((j // b) * b, min(n, (j // b) * b + b)):
                if rng.random() < 0.7: pat.add((i, j))
    return pat, kind


def values(rng, mode):
    """value generator; 'int' = small integers (exact arithmetic friendly), 'float' = general"""
    if mode == "int":
        return lambda: float(rng.choice([-4, -3, -2, -1, 1, 2, 3, 4, 5]))
    if mode == "pow2":
        return lambda: rng.choice([-1, 1]) * 2.0 ** rng.randint(-3, 3)
    return lambda: rng.choice([-1, 1]) * (0.1 + rng.random()) * 10 ** rng.uniform(-1, 1)


def random_matrix(rng, n, kind=None, vmode="float", cplx=False, dominant=False, density=None):
    pat, kind = pattern(rng, n, kind, density)
    if dominant:
        pat = set(pat) | set((i, i) for i in range(n))      # dominance needs every diagonal entry in the pattern (kinds such as randzd leave it out)
    gv = values(rng, vmode)
    if cplx:
        # complex entries with an exactly zero real or imaginary part are ordinary input (a real operator with a complex shift, purely
        # imaginary couplings): per matrix, all entries general / real off-diagonal with a general diagonal / a random mixture
        cshape = rng.choice(["full", "full", "realoff", "mixed", "imagoff"])
        def vf(i, j):
            if cshape == "full" or (cshape in ("realoff", "imagoff") and i == j): return (gv(), gv())
            if cshape == "realoff": return (gv(), 0.0)
            if cshape == "imagoff": return (0.0, gv())
            return rng.choice([(gv(), gv()), (gv(), 0.0), (0.0, gv())])
    else:
        vf = lambda i, j: gv()
    M = from_pattern(n, pat, vf, cplx)
    if dominant:
        # dominant = True/1: strictly column- and row- diagonally dominant with a positive diagonal;
        # "row" / "col": dominant in that sense only, rows (columns) rescaled by powers of two so that the diagonal is usually NOT the
        # largest entry of its column (row), diagonal entries of either sign (complex: any of the four unit phases).  Both kinds of
        # dominance are inherited by every Schur complement under diagonal pivots, so the diagonal never vanishes.
        mode = dominant if dominant in ("row", "col") else "both"
        rs = [0.0] * n; cs = [0.0] * n
        for j, col in M.cols():
            for i, v in col:
                if i != j:
                    a = (abs(v[0]) + abs(v[1])) if cplx else abs(v)      # >= modulus
                    rs[i] += a; cs[j] += a
        for j in range(n):
            for k in range(M.colptr[j], M.colptr[j + 1]):
                if M.rowind[k] == j:
                    base = max(rs[j], cs[j]) if mode == "both" else (rs[j] if mode == "row" else cs[j])
                    d = float(math.ceil(base * 1.25 + 1 + rng.random() * 3))     # margin survives rounding to single precision
                    if mode == "both":
                        M.vals[k] = (d, 0.0) if cplx else d
                    else:
                        ph = rng.choice([(1, 0), (-1, 0), (0, 1), (0, -1)]) if cplx else (rng.choice([1, -1]), 0)
                        M.vals[k] = (d * ph[0], d * ph[1]) if cplx else d * ph[0]
        if mode != "both":
            sc = [2.0 ** rng.randint(-5, 5) for _ in range(n)]
            for j in range(n):
                for k in range(M.colptr[j], M.colptr[j + 1]):
                    f = sc[M.rowind[k]] if mode == "row" else sc[j]
                    M.vals[k] = (M.vals[k][0] * f, M.vals[k][1] * f) if cplx else M.vals[k] * f
    M.kind = kind
    return M


def fmt_vals(vals, cplx, single=False):
    import struct
    out = []
    def r(x):
        if single:
            x = struct.unpack("f", struct.pack("f", x))[0]
        return float(x).hex()
    for v in vals:
        if cplx:
            out.append(r(v[0])); out.append(r(v[1]))
        else:
            out.append(r(v))
    return " ".join(out)


def round_single(M):
    import struct
    f = lambda x: struct.unpack("f", struct.pack("f", x))[0]
    if M.cplx:
        M.vals = [(f(a), f(b)) for a, b in M.vals]
    else:
        M.vals = [f(v) for v in M.vals]
    return M


def script_mat(slot, M, nr=False, single=False):
    if nr:
        ptr, ind, vals = M.to_rows()
        return "mat %d NR %d %d\n%s\n%s\n%s\n" % (slot, M.n, len(ind), " ".join(map(str, ptr)), " ".join(map(str, ind)), fmt_vals(vals, M.cplx, single))
    return "mat %d NC %d %d\n%s\n%s\n%s\n" % (slot, M.n, M.nnz, " ".join(map(str, M.colptr)), " ".join(map(str, M.rowind)), fmt_vals(M.vals, M.cplx, single))


def script_rhs(slot, n, nrhs, ld, cols, cplx, single=False):
    s = "rhs %d %d %d %d\n" % (slot, n, nrhs, ld)
    for c in cols:
        s += fmt_vals(c, cplx, single) + "\n"
    return s


def sprank(M):
    """structural rank (maximum bipartite matching columns->rows), iterative augmenting paths"""
    n = M.n
    adj = [[M.rowind[k] for k in range(M.colptr[j], M.colptr[j + 1])] for j in range(n)]
    match_row = [-1] * n
    def try_col(j):
        seen = set(); stack = [(j, iter(adj[j]))]; path = []
        # DFS with explicit stack, recording the alternating path
        parent = {}
        while stack:
            c, it = stack[-1]
            adv = False
            for r in it:
                if r in seen:
                    continue
                seen.add(r)
                if match_row[r] == -1:
                    # augment along the stack
                    match_row[r] = c
                    for k in range(len(stack) - 1, 0, -1):
                        pc = stack[k - 1][0]; pr = parent[stack[k][0]]
                        match_row[pr] = pc
                    return True
                nxt = match_row[r]
                parent[nxt] = r
                stack.append((nxt, iter(adj[nxt]))); adv = True
                break
            if not adv:
                stack.pop()
        return False
    rank = 0
    for j in range(n):
        if try_col(j):
            rank += 1
    return rank
