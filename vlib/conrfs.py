"""Shared helpers of checks/c12.py and checks/c13.py: running h_con / h_rfs (base h_drv phase + extension
ops), exact number handling (Fraction <-> hex float <-> dyadic pairs), text blocks for the `lacon` / `rfs`
engines of sludrv, exact dense linear algebra with fractions."""
import os, math, subprocess, tempfile, shutil, struct
from fractions import Fraction as F
from . import common as C, drv as D, gen as G

PBITS = {"s": 24, "d": 53, "c": 24, "z": 53}
WRAPS = " ".join("-Wl,--wrap=%slacon_ -Wl,--wrap=%sgstrs" % (p, p) for p in "sdcz")


def build(src, precs="sdcz", flavour="plain"):
    C.build_lib(flavour)
    return C.build_harness_all_prec(src, flavour, precs=precs, extra_link=WRAPS)


def u_of(prec):
    return F(1, 2 ** PBITS[prec])          # unit roundoff 2^-p


def eps_of(prec):
    """?lamch('E') of this library: relative machine epsilon as dlamch computes it (2^-p with rounding, i.e. eps = 2^(1-p)/2)"""
    return F(1, 2 ** PBITS[prec])


def fr(x):
    return F(x)                            # exact for floats


def dy(x):
    """float -> 'm e' (exact)"""
    d = D.dy(x)
    if d is None:
        raise D.NonFinite()
    return "%d %d" % d


def dyF(q):
    """dyadic Fraction -> 'm e'"""
    if q == 0:
        return "0 0"
    den = q.denominator
    assert den & (den - 1) == 0, "not dyadic"
    return "%d %d" % (q.numerator, -(den.bit_length() - 1))


def rn(q, p, emin=-100000):
    """round-to-nearest-even of Fraction q to p significant bits (no exponent range) -> Fraction"""
    if q == 0:
        return F(0)
    s = -1 if q < 0 else 1
    a = abs(q)
    e = a.numerator.bit_length() - a.denominator.bit_length()
    if F(2) ** e > a:
        e -= 1
    # 2^e <= a < 2^(e+1)
    sc = F(2) ** (p - 1 - e)
    t = a * sc
    fl = t.numerator // t.denominator
    rem = t - fl
    if rem > F(1, 2) or (rem == F(1, 2) and fl % 2 == 1):
        fl += 1
    return s * F(fl) / sc


def is_float(q, p):
    return rn(q, p) == q


def run_ext(exe, base_script, ext_script, log=False, timeout=120):
    """-> dict(base_ops, base_done, base_text, ext_text, rc, err)"""
    d = tempfile.mkdtemp(prefix="hext", dir=C.BUILD)
    try:
        bs, bo, es, eo = (os.path.join(d, x) for x in ("b.scr", "b.out", "e.scr", "e.out"))
        open(bs, "w").write(base_script if base_script.rstrip().endswith("quit") else base_script + "quit\n")
        open(es, "w").write(ext_script + ("" if ext_script.rstrip().endswith("quit") else "quit\n"))
        try:
            r = subprocess.run([exe, bs, bo, es, eo] + (["log"] if log else []), capture_output=True, text=True,
                               timeout=timeout, env=C.ENV, errors="replace")
            rc, err = r.returncode, r.stderr[-3000:]
        except subprocess.TimeoutExpired:
            rc, err = None, "timeout"
        bt = open(bo).read() if os.path.exists(bo) else ""
        et = open(eo).read() if os.path.exists(eo) else ""
        ops, done = D.parse_out(bt)
        return {"base_ops": ops, "base_done": done, "base_text": bt, "ext_text": et, "rc": rc, "err": err}
    finally:
        shutil.rmtree(d, ignore_errors=True)


def parse_logs(text):
    """log lines of the wrappers, in order: ('lc', kin, kout, est, [x]) / ('gs', trans, 'in'|'out', info|None, [v])"""
    out = []
    for line in text.split("\n"):
        t = line.split()
        if not t:
            continue
        if t[0] == "lc":
            out.append(("lc", int(t[1]), int(t[2]), float.fromhex(t[3]), [float.fromhex(z) for z in t[4:]]))
        elif t[0] == "gs":
            if t[2] == "in":
                out.append(("gs", int(t[1]), "in", None, [float.fromhex(z) for z in t[3:]]))
            else:
                out.append(("gs", int(t[1]), "out", int(t[3]), [float.fromhex(z) for z in t[4:]]))
        elif t[0] == "gsm":
            out.append(("gsm", int(t[1]), int(t[2])))
    return out


def parse_ext(text):
    """extension output -> list of op dicts {op, args, logs:[...], key: [tokens]}"""
    ops = []; cur = None; done = False
    for line in text.split("\n"):
        t = line.split()
        if not t:
            continue
        if t[0] == "op":
            cur = {"op": t[1], "args": t[2:], "logs": [], "raw": []}
        elif t[0] == "end":
            if cur is not None:
                ops.append(cur); cur = None
        elif t[0] == "done":
            done = True
        elif cur is not None:
            if t[0] in ("lc", "gs", "gsm"):
                cur["logs"] += parse_logs(line)
            else:
                cur[t[0]] = t[1:]
                cur["raw"].append(line)
    if cur is not None:
        cur["truncated"] = True; ops.append(cur)
    return ops, done


# ------------------------------------------------------------------ text blocks for the engines
def lu_text(res):
    """L/U block of a parsed h_drv dump (real precisions), integer-only, on a common scale 2^E"""
    allv = []
    def Dv(x):
        d = D.dy(x)
        if d is None:
            raise D.NonFinite()
        allv.append(d); return d
    sn = []
    for s in res["Lsup"]:
        if s is None:
            raise D.NonFinite()
        cols = []
        for j in range(s["f"], s["e"]):
            b, vals = res["Lcol"][j]
            cols.append((b, [Dv(v) for v in vals]))
        sn.append((s, cols))
    ucols = []
    for j, (rows, vals) in enumerate(res["Ucol"]):
        ucols.append((res["U.colbeg"][j], rows, [Dv(v) for v in vals]))
    E = min([0] + [e for (m, e) in allv if m != 0])
    hdr = res["Lhdr"]
    out = ["E %d" % E, "L %d %d %d" % (hdr[2], hdr[3], len(sn))]
    for nm, key in (("colToSup", "L.col_to_sup"), ("supBeg", "L.sup_to_colbeg"), ("supEnd", "L.sup_to_colend"), ("rowBegA", "L.rowind_colbeg"),
                    ("rowEndA", "L.rowind_colend"), ("nzBegA", "L.nzval_colbeg"), ("nzEndA", "L.nzval_colend")):
        a = res[key]; out.append("%s %d %s" % (nm, len(a), " ".join(map(str, a))))
    for s, cols in sn:
        out.append("sup %d %d %d %d %s" % (s["f"], s["e"], res["L.rowind_colbeg"][s["f"]], len(s["rows"]), " ".join(map(str, s["rows"]))))
        for (b, vals) in cols:
            out.append("col %d %d %s" % (b, len(vals), " ".join("%d %d" % d for d in vals)))
    out.append("U %d" % res["Uhdr"][2])
    for (b, rows, vals) in ucols:
        out.append("ucol %d %d %s %s" % (b, len(rows), " ".join(map(str, rows)), " ".join("%d %d" % d for d in vals)))
    return "\n".join(out) + "\n"


def nc_text(n, colptr, rowind, vals):
    """'A nrow ncol' + per column: count, then (row m e)*"""
    out = ["A %d %d" % (n, n)]
    for j in range(n):
        ent = ["%d %s" % (rowind[k], dy(vals[k])) for k in range(colptr[j], colptr[j + 1])]
        out.append("%d %s" % (len(ent), " ".join(ent)))
    return "\n".join(out) + "\n"


def parse_frac(tok):
    a, b = tok.split("/")
    return F(int(a), int(b))


# ------------------------------------------------------------------ exact dense linear algebra
def dense_frac(M, transpose=False):
    """gen.Mat (real) -> list of rows of Fractions"""
    n = M.n
    Dm = [[F(0)] * n for _ in range(n)]
    for j, col in M.cols():
        for i, v in col:
            if transpose:
                Dm[j][i] += F(v)
            else:
                Dm[i][j] += F(v)
    return Dm


def inverse(Dm):
    """exact inverse by Gauss-Jordan over Fractions (entries may be Fraction or complex pairs via CF); None if singular"""
    n = len(Dm)
    A = [list(r) + [type(r[0])(1) if i == j else type(r[0])(0) for j in range(n)] for i, r in enumerate(Dm)]
    for c in range(n):
        p = next((r for r in range(c, n) if A[r][c] != 0), None)
        if p is None:
            return None
        A[c], A[p] = A[p], A[c]
        inv = 1 / A[c][c]
        A[c] = [v * inv for v in A[c]]
        for r in range(n):
            if r != c and A[r][c] != 0:
                f = A[r][c]
                A[r] = [a - f * b for a, b in zip(A[r], A[c])]
    return [row[n:] for row in A]


def solve_exact(Dm, b):
    """exact solve of Dm x = b; None if singular"""
    n = len(Dm)
    A = [list(r) + [b[i]] for i, r in enumerate(Dm)]
    for c in range(n):
        p = next((r for r in range(c, n) if A[r][c] != 0), None)
        if p is None:
            return None
        A[c], A[p] = A[p], A[c]
        inv = 1 / A[c][c]
        A[c] = [v * inv for v in A[c]]
        for r in range(n):
            if r != c and A[r][c] != 0:
                f = A[r][c]
                A[r] = [a - f * bb for a, bb in zip(A[r], A[c])]
    return [A[i][n] for i in range(n)]


class CF:
    """exact complex rational"""
    __slots__ = ("re", "im")
    def __init__(self, re=0, im=0):
        self.re = F(re); self.im = F(im)
    def __add__(s, o): o = _cf(o); return CF(s.re + o.re, s.im + o.im)
    __radd__ = __add__
    def __sub__(s, o): o = _cf(o); return CF(s.re - o.re, s.im - o.im)
    def __rsub__(s, o): return _cf(o) - s
    def __neg__(s): return CF(-s.re, -s.im)
    def __mul__(s, o): o = _cf(o); return CF(s.re * o.re - s.im * o.im, s.re * o.im + s.im * o.re)
    __rmul__ = __mul__
    def __truediv__(s, o):
        o = _cf(o); d = o.re * o.re + o.im * o.im
        return CF((s.re * o.re + s.im * o.im) / d, (s.im * o.re - s.re * o.im) / d)
    def __rtruediv__(s, o): return _cf(o) / s
    def __eq__(s, o): o = _cf(o); return s.re == o.re and s.im == o.im
    def __ne__(s, o): return not s.__eq__(o)
    def __hash__(s): return hash((s.re, s.im))
    def conj(s): return CF(s.re, -s.im)
    def abs2(s): return s.re * s.re + s.im * s.im
    def __repr__(s): return "CF(%s,%s)" % (s.re, s.im)


def _cf(o):
    return o if isinstance(o, CF) else CF(o, 0)


def sqrt_bounds(q, bits=160):
    """(lo, hi) Fractions with lo <= sqrt(q) <= hi, relative width <= 2^-bits-ish"""
    if q == 0:
        return F(0), F(0)
    k = bits + max(0, q.denominator.bit_length() - q.numerator.bit_length())
    sc = 1 << (2 * k)
    t = q * sc
    fl = math.isqrt(t.numerator // t.denominator)
    lo = F(fl, 1 << k)
    hi = F(fl + 1, 1 << k)
    return lo, hi


def absv(x):
    """(lo, hi) bounds of |x| for Fraction or CF"""
    if isinstance(x, CF):
        if x.im == 0:
            return abs(x.re), abs(x.re)
        if x.re == 0:
            return abs(x.im), abs(x.im)
        return sqrt_bounds(x.abs2())
    a = abs(x)
    return a, a


def norm1_bounds(Dm):
    """(lo, hi) of the 1-norm (max column sum of moduli)"""
    n = len(Dm)
    lo = hi = F(0)
    for j in range(n):
        sl = sh = F(0)
        for i in range(n):
            a, b = absv(Dm[i][j]); sl += a; sh += b
        lo = max(lo, sl); hi = max(hi, sh)
    return lo, hi


def transpose(Dm):
    n = len(Dm)
    return [[Dm[j][i] for j in range(n)] for i in range(n)]


def vec1_bounds(v):
    sl = sh = F(0)
    for x in v:
        a, b = absv(x); sl += a; sh += b
    return sl, sh


def probe_real_conj_rejected(exe_d):
    """does the real ?gstrs reject trans = CONJ (xerbla, B untouched)?  The unfixed library did (defect F3 of C07); the
    answer is an input of the C13 model (`realConj`) and decides whether real-CONJ cases enter the X-dependent clauses."""
    base = ("mat 0 NC 1 1\n0 1\n0\n0x1p+1\nrhs 0 1 1 1\n0x1p+2\nrhs 1 1 1 1\n0x1p+2\npermc_get 0 0\n"
            "gssvx 0 0 1 0 0 0 0 0x1p+0 1 1 0 0\ngstrs 2 1\nquit\n")
    rec = run_ext(exe_d, base, "quit\n")
    for o in rec["base_ops"]:
        if o["op"] == "gstrs":
            return o["xerbla"][0] > 0
    raise RuntimeError("probe failed: %s" % rec["err"])
