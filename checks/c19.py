"""C19 — sparse kernels and format utilities agree with their dense definitions.

Three layers per run:
  * correspondence: the operation lines fed to harness/h_blas.c (real sp_?gemv, sp_?gemm, ?langs,
    ?CompRow_to_CompCol, ?Copy_CompCol_Matrix, ?Create_CompCol_Permuted, sp_?trsv) are fed verbatim to
    `sludrv blas` (Model/Blas.lean over exact rationals / complex pairs / NaN-poison); on inputs where IEEE
    arithmetic is exact (small integers, halves) the two outputs must be identical value by value;
    the discrete outcome (ok / xerbla code / abort) must be identical on every input.
  * oracle: the dense definition is evaluated in exact rationals (Python fractions, independent of the
    model) on the implementation's own inputs and outputs, and the property's rounding bound is
    evaluated exactly.
  * the theorems of lean/SluVerif/Props/C19.lean (checked by check.py before this module runs).
"""
import os, random, struct, math, tempfile, subprocess, shutil, time, json
from fractions import Fraction as Fr
from collections import Counter
from concurrent.futures import ThreadPoolExecutor
from vlib import common as C, gen as G

LEVEL = "proof"
EXPLANATION = (
    "Theorems (lean/SluVerif/Props/C19.lean) are about Model/Blas.lean: spGemv_spec/spGemv_domain/spGemm_spec, "
    "langs_*_spec, compRowToCompCol_spec, copy/permuted-view specs, spTrsv_* (supernodal sweeps = inverse of the dense "
    "entryL/entryU).  The model is tied to the real routines by a value-by-value differential check on exact-arithmetic "
    "inputs in all four precisions, and the rounding clause is judged per run by an exact rational evaluation of the dense "
    "definition with gamma(k)=k*u/(1-k*u).")
ASSUMPTIONS = [
    "rounding bound is judged per run (not proved for the floating-point kernels / vendor BLAS): gemv/gemm: |y^-y| <= gamma(k)(|alpha||op(A)||x|+|beta||y|) "
    "componentwise with k = (stored entries in the row of op(A)) + 2 for real, + 8 for complex (a complex product is 3 real roundings: sqrt2*gamma_2 < gamma_3); "
    "trsv: residual |T r - x| <= gamma(k)|T||r| with k = (stored entries in the row of T) + 2 (real) / 4*(…)+8 (complex; includes z_div); "
    "langs: |v^-v| <= gamma(K)*v with K = largest number of stored entries in a column/row (+6 for complex z_abs); max-norm exact for real",
    "complex moduli in the bounds are bracketed by rationals to 2^-80 relative (integer square roots): LHS rounded down, RHS rounded up",
    "aborting calls (SUPERLU_ABORT -> exit(-1)) are observed from a forked child of the harness (exit status + first stderr line)",
    "matrices are well-formed NC/NR (indices in range; no duplicate (i,j) for langs); UB on malformed index arrays is outside the model",
    "bit-for-bit correspondence of sp_?trsv is demanded only when an a-priori bound shows every intermediate is exactly representable "
    "(integer off-diagonals, power-of-two U diagonal, magnitude*2^g < 2^p)",
]
TRUSTED = ["vendor BLAS (?trsv_/?gemv_ inside sp_?trsv) is modelled by the reference algorithm; exact results do not depend on the summation order"]

PBITS = {"s": 24, "d": 53, "c": 24, "z": 53}
ALPHAS = [0.0, 1.0, -1.0, 2.0, 0.5]
STRIDES = [1, 2, -1, -3]
NAN = float("nan")


# ---------------------------------------------------------------------------------- numbers
def rs(x):
    return struct.unpack("f", struct.pack("f", x))[0]


def rnd(prec, x):
    return rs(x) if prec in "sc" else float(x)


def isnan(x):
    return x != x


def wire_real(x):
    if isnan(x):
        return "nan"
    m, e = C.dy(x)
    return "%d %d" % (m, e)


def wire(v, cplx):
    return (wire_real(v[0]) + " " + wire_real(v[1])) if cplx else wire_real(v)


def wire_arr(vals, cplx):
    return "%d %s" % (len(vals), " ".join(wire(v, cplx) for v in vals)) if vals else "0"


def wire_ints(a):
    return "%d %s" % (len(a), " ".join(map(str, a))) if a else "0"


def ex(v, cplx):
    """exact value: Fraction or (Fraction, Fraction); NaN -> None"""
    if cplx:
        if isnan(v[0]) or isnan(v[1]):
            return None
        return (Fr(v[0]), Fr(v[1]))
    return None if isnan(v) else Fr(v)


def cmul(a, b):
    return (a[0] * b[0] - a[1] * b[1], a[1] * b[0] + a[0] * b[1])


def cadd(a, b):
    return (a[0] + b[0], a[1] + b[1])


def csub(a, b):
    return (a[0] - b[0], a[1] - b[1])


def cconj(a):
    return (a[0], -a[1])


def isqrt_lo(q, bits=80):
    """rational <= sqrt(q), relative accuracy 2^-bits"""
    if q == 0:
        return Fr(0)
    sh = 0
    n, d = q.numerator, q.denominator
    # scale so that n/d * 4^sh has about 2*bits+ bits
    want = 2 * bits + 8
    cur = n.bit_length() - d.bit_length()
    sh = max(0, (want - cur + 1) // 2)
    v = (n << (2 * sh)) // d
    return Fr(math.isqrt(v), 1 << sh)


def mod_lo(z):
    return isqrt_lo(z[0] * z[0] + z[1] * z[1])


def mod_hi(z):
    q = z[0] * z[0] + z[1] * z[1]
    if q == 0:
        return Fr(0)
    lo = isqrt_lo(q)
    return lo * (1 + Fr(1, 1 << 70)) + Fr(1, 1 << 400)


def alo(v, cplx):
    return mod_lo(v) if cplx else abs(v)


def ahi(v, cplx):
    return mod_hi(v) if cplx else abs(v)


def gamma(k, p):
    u = Fr(1, 1 << p)
    return k * u / (1 - k * u)


# ---------------------------------------------------------------------------------- matrices
class NC:
    def __init__(self, m, n, colptr, rowind, vals, cplx):
        self.m, self.n, self.colptr, self.rowind, self.vals, self.cplx = m, n, colptr, rowind, vals, cplx

    @property
    def nnz(self):
        return len(self.rowind)

    def wire(self):
        return "A %d %d %d %s %s %s" % (self.m, self.n, self.nnz, wire_ints(self.colptr), wire_ints(self.rowind), wire_arr(self.vals, self.cplx))

    def entries(self):
        for j in range(max(self.n, 0)):
            for k in range(self.colptr[j], self.colptr[j + 1]):
                yield self.rowind[k], j, self.vals[k]

    def blob(self):
        return {"m": self.m, "n": self.n, "colptr": self.colptr, "rowind": self.rowind, "vals": [hexv(v, self.cplx) for v in self.vals]}


def hexv(v, cplx):
    return [float(v[0]).hex(), float(v[1]).hex()] if cplx else float(v).hex()


PYTH = [(3, 4), (4, 3), (-3, 4), (3, -4), (-4, -3), (6, 8), (8, -6), (0, 5), (5, 0), (0, -2), (-7, 0), (12, 16)]


def scalar(rng, vmode, prec, cplx):
    def one():
        if vmode == "int":
            return float(rng.choice([-6, -5, -4, -3, -2, -1, 1, 2, 3, 4, 5, 6, 0]))
        if vmode == "half":
            return rng.randint(-12, 12) / 2.0
        return rnd(prec, rng.choice([-1, 1]) * (0.1 + rng.random()) * 10 ** rng.uniform(-2, 2))
    if cplx:
        if vmode == "pyth":
            a, b = rng.choice(PYTH); s = rng.choice([1, 2, 4])
            return (float(a * s), float(b * s))
        return (one(), one())
    if vmode == "pyth":
        return float(rng.randint(-9, 9))
    return one()


def gen_nc(rng, m, n, vmode, prec, cplx, density=None, sort_rows=None):
    d = density if density is not None else rng.choice([0.1, 0.25, 0.5, 0.8, 1.0])
    sort_rows = rng.random() < 0.7 if sort_rows is None else sort_rows
    colptr = [0]; rowind = []; vals = []
    for j in range(max(n, 0)):
        rows = [i for i in range(max(m, 0)) if rng.random() < d]
        if not sort_rows:
            rng.shuffle(rows)
        for i in rows:
            rowind.append(i); vals.append(scalar(rng, vmode, prec, cplx))
        colptr.append(len(rowind))
    return NC(m, n, colptr, rowind, vals, cplx)


def dims(rng, big):
    hi = 14 if big else 7
    m = rng.choice([0, 1, 1, 2, 3] + [rng.randint(2, hi) for _ in range(8)])
    n = rng.choice([0, 1, 1, 2, 3] + [rng.randint(2, hi) for _ in range(8)])
    return m, n


def strided(rng, logical, inc, cplx, sentinel=77.0, pad=None):
    """lay the logical vector out the way BLAS reads it: element i at kstart + i*inc"""
    ln = len(logical)
    pad = rng.choice([0, 0, 1, 2]) if pad is None else pad
    if inc == 0:
        size = ln + pad
        arr = [((sentinel, -sentinel) if cplx else sentinel)] * size
        for i in range(ln):
            arr[i] = logical[i]
        return arr
    size = (1 + (ln - 1) * abs(inc) if ln > 0 else 0) + pad
    arr = [((sentinel, -sentinel) if cplx else sentinel)] * size
    k0 = 0 if inc > 0 else -(ln - 1) * inc
    for i in range(ln):
        arr[k0 + i * inc] = logical[i]
    return arr


def positions(ln, inc):
    k0 = 0 if inc > 0 else -(ln - 1) * inc
    return [k0 + i * inc for i in range(ln)]


def coef(rng, cplx, vmode, prec):
    if cplx:
        c = rng.choice([(a, 0.0) for a in ALPHAS] * 2 + [(0.0, 1.0), (1.0, -1.0), (0.5, 0.5), (0.0, -2.0)])
        if vmode == "float" and rng.random() < 0.3:
            c = (rnd(prec, rng.uniform(-2, 2)), rnd(prec, rng.uniform(-2, 2)))
        return c
    if vmode == "float" and rng.random() < 0.3:
        return rnd(prec, rng.uniform(-2, 2))
    return rng.choice(ALPHAS)


# ---------------------------------------------------------------------------------- case generators
def mk_gemv(rng, prec, vmode, trans=None, alpha=None, beta=None, incx=None, incy=None, m=None, n=None, big=False):
    cplx = prec in "cz"
    if m is None:
        m, n = dims(rng, big)
    A = gen_nc(rng, m, n, vmode, prec, cplx)
    trans = trans or rng.choice("NTCntc")
    alpha = coef(rng, cplx, vmode, prec) if alpha is None else alpha
    beta = coef(rng, cplx, vmode, prec) if beta is None else beta
    incx = rng.choice(STRIDES) if incx is None else incx
    incy = rng.choice(STRIDES) if incy is None else incy
    notran = trans in "Nn"
    lenx, leny = (n, m) if notran else (m, n)
    lenx, leny = max(lenx, 0), max(leny, 0)
    zero = (0.0, 0.0) if cplx else 0.0
    nanv = (NAN, NAN) if cplx else NAN
    xl = [scalar(rng, vmode, prec, cplx) for _ in range(lenx)]
    if rng.random() < 0.3 and lenx:
        xl[rng.randrange(lenx)] = zero           # exercises the `x[jx] != 0` skip
    yl = [scalar(rng, vmode, prec, cplx) for _ in range(leny)]
    ynan = xnan = False
    if beta == zero and rng.random() < 0.6:
        yl = [nanv] * leny; ynan = True            # "when BETA is zero Y need not be set on input"
    if alpha == zero and rng.random() < 0.4:
        xl = [nanv] * lenx; xnan = True
    x = strided(rng, xl, incx, cplx, 55.0); y = strided(rng, yl, incy, cplx, 77.0)
    return {"kind": "gemv", "prec": prec, "vmode": vmode, "trans": trans, "A": A, "alpha": alpha, "beta": beta, "incx": incx, "incy": incy,
            "x": x, "y": y, "lenx": lenx, "leny": leny, "ynan": ynan, "xnan": xnan}


def line_gemv(c, oid):
    cplx = c["prec"] in "cz"
    return "op %s gemv %d %d %s %s %s %d %d %s %s" % (oid, int(cplx), ord(c["trans"]), c["A"].wire(), wire(c["alpha"], cplx), wire(c["beta"], cplx),
                                                c["incx"], c["incy"], wire_arr(c["x"], cplx), wire_arr(c["y"], cplx))


def mk_gemm(rng, prec, vmode, big=False):
    cplx = prec in "cz"
    m, k = dims(rng, big)
    A = gen_nc(rng, m, k, vmode, prec, cplx)
    trans = rng.choice("NTCntcNT")
    if rng.random() < 0.03:
        trans = "X"
    notran = trans in "Nn"
    lenx, leny = (k, m) if notran else (m, k)
    ncols = rng.choice([0, 1, 2, 3, 4])
    ldb = max(1, lenx) + rng.choice([0, 0, 1, 3]); ldc = max(1, leny) + rng.choice([0, 0, 2])
    zero = (0.0, 0.0) if cplx else 0.0
    sent = (33.0, -33.0) if cplx else 33.0
    b = [sent] * (ldb * ncols); cc = [sent] * (ldc * ncols + rng.choice([0, 1]))
    alpha = coef(rng, cplx, vmode, prec); beta = coef(rng, cplx, vmode, prec)
    nanv = (NAN, NAN) if cplx else NAN
    ynan = beta == zero and rng.random() < 0.5
    for j in range(ncols):
        for i in range(lenx):
            b[ldb * j + i] = scalar(rng, vmode, prec, cplx)
        for i in range(leny):
            cc[ldc * j + i] = nanv if ynan else scalar(rng, vmode, prec, cplx)
    # the m, n, k arguments are passed the documented way: op(A) is mm x kk, C is mm x ncols
    return {"kind": "gemm", "prec": prec, "vmode": vmode, "trans": trans, "A": A, "alpha": alpha, "beta": beta, "mm": leny, "nn": ncols, "kk": lenx,
            "ldb": ldb, "ldc": ldc, "b": b, "c": cc, "lenx": lenx, "leny": leny, "ynan": ynan}


def line_gemm(c, oid):
    cplx = c["prec"] in "cz"
    return "op %s gemm %d %d %d %d %d %s %s %s %d %s %d %s" % (oid, int(cplx), ord(c["trans"]), c["mm"], c["nn"], c["kk"], c["A"].wire(),
                                                          wire(c["alpha"], cplx), wire(c["beta"], cplx), c["ldb"], wire_arr(c["b"], cplx), c["ldc"], wire_arr(c["c"], cplx))


def mk_langs(rng, prec, vmode, big=False):
    cplx = prec in "cz"
    m, n = dims(rng, big)
    A = gen_nc(rng, m, n, vmode, prec, cplx)
    norm = rng.choice("M1OIFEmoife" + "M1OI" * 3 + "X")
    return {"kind": "langs", "prec": prec, "vmode": vmode, "norm": norm, "A": A}


def line_langs(c, oid):
    return "op %s langs %d %d %s" % (oid, int(c["prec"] in "cz"), ord(c["norm"]), c["A"].wire())


def mk_r2c(rng, prec, vmode, big=False):
    cplx = prec in "cz"
    m, n = dims(rng, big)
    d = rng.choice([0.1, 0.3, 0.6, 1.0])
    rowptr = [0]; colind = []; a = []
    for i in range(m):
        cols = [j for j in range(n) if rng.random() < d]
        if rng.random() < 0.3:
            rng.shuffle(cols)
        for j in cols:
            colind.append(j); a.append(scalar(rng, vmode, prec, cplx))
        rowptr.append(len(colind))
    return {"kind": "r2c", "prec": prec, "vmode": vmode, "m": m, "n": n, "a": a, "colind": colind, "rowptr": rowptr}


def line_r2c(c, oid):
    cplx = c["prec"] in "cz"
    return "op %s r2c %d %d %d %d %s %s %s" % (oid, int(cplx), c["m"], c["n"], len(c["a"]), wire_arr(c["a"], cplx), wire_ints(c["colind"]), wire_ints(c["rowptr"]))


def mk_copy(rng, prec, vmode, big=False):
    cplx = prec in "cz"
    m, n = dims(rng, big)
    A = gen_nc(rng, m, n, vmode, prec, cplx)
    ex_ = rng.choice([0, 0, 1, 3])
    sent = (99.0, -99.0) if cplx else 99.0
    return {"kind": "copy", "prec": prec, "vmode": vmode, "A": A, "bv": [sent] * (A.nnz + ex_), "bri": [4242] * (A.nnz + ex_), "bcp": [4343] * (n + 1 + ex_)}


def line_copy(c, oid):
    cplx = c["prec"] in "cz"
    return "op %s copy %d %s B %s %s %s" % (oid, int(cplx), c["A"].wire(), wire_arr(c["bv"], cplx), wire_ints(c["bri"]), wire_ints(c["bcp"]))


def mk_pview(rng, prec, vmode, big=False):
    cplx = prec in "cz"
    m, n = dims(rng, big)
    A = gen_nc(rng, m, n, vmode, prec, cplx)
    pc = list(range(n)); rng.shuffle(pc)
    if rng.random() < 0.15:
        pc = list(range(n))
    return {"kind": "pview", "prec": prec, "vmode": vmode, "A": A, "permc": pc}


def line_pview(c, oid):
    return "op %s pview %d %s %s" % (oid, int(c["prec"] in "cz"), c["A"].wire(), wire_ints(c["permc"]))


MK = {"gemv": (mk_gemv, line_gemv), "gemm": (mk_gemm, line_gemm), "langs": (mk_langs, line_langs), "r2c": (mk_r2c, line_r2c),
      "copy": (mk_copy, line_copy), "pview": (mk_pview, line_pview)}


# ---------------------------------------------------------------------------------- parsing results
def parse_c_vals(toks):
    """`N v1 .. vN` hex floats -> list of floats, rest"""
    n = int(toks[0])
    return [float.fromhex(t) if "nan" not in t.lower() else NAN for t in toks[1:1 + n]], toks[1 + n:]


def parse_c_ints(toks):
    n = int(toks[0])
    return [int(t) for t in toks[1:1 + n]], toks[1 + n:]


def parse_l_vals(toks, ncomp):
    """Lean: `N` elements, each ncomp reals, a real = `nan` | `num den` -> list of Fraction/None (flattened), rest"""
    n = int(toks[0]); i = 1; out = []
    for _ in range(n * ncomp):
        if toks[i] == "nan":
            out.append(None); i += 1
        else:
            out.append(Fr(int(toks[i]), int(toks[i + 1]))); i += 2
    return out, toks[i:]


def canon_c(line, ncomp):
    """C result line -> canonical tuple"""
    t = line.split()
    kind = t[2]
    if t[3] == "abort":
        msg = " ".join(t[5:])
        return ("abort", "notimpl" if "Not implemented" in msg else "illegal" if "Illegal norm" in msg else "other:" + t[4] + ":" + msg[:80])
    if kind == "gemv":
        if t[3] == "xerbla":
            return ("xerbla", int(t[4]))
        v, _ = parse_c_vals(t[4:])
        return ("ok", [None if isnan(x) else Fr(x) for x in v])
    if kind == "gemm":
        v, _ = parse_c_vals(t[7:])
        return ("ok", int(t[4]), int(t[6]), [None if isnan(x) else Fr(x) for x in v])
    if kind == "langs":
        x = float.fromhex(t[4]) if "nan" not in t[4].lower() else NAN
        return ("val", None if isnan(x) else Fr(x))
    if kind == "r2c":
        v, r = parse_c_vals(t[4:]); ri, r = parse_c_ints(r[1:]); cp, r = parse_c_ints(r[1:])
        return ("ok", [Fr(x) for x in v], ri, cp)
    if kind == "copy":
        v, r = parse_c_vals(t[7:]); ri, r = parse_c_ints(r[1:]); cp, r = parse_c_ints(r[1:])
        return ("ok", int(t[3]), int(t[4]), int(t[5]), [Fr(x) for x in v], ri, cp)
    if kind == "pview":
        cb, r = parse_c_ints(t[7:]); ce, r = parse_c_ints(r[1:]); ri, r = parse_c_ints(r[1:]); v, r = parse_c_vals(r[1:])
        return ("ok", int(t[3]), int(t[4]), int(t[5]), cb, ce, ri, [Fr(x) for x in v])
    if kind == "trsv":
        if t[3] == "xerbla":
            return ("xerbla", int(t[4]))
        if t[3] == "nofactors":
            return ("nofactors",)
        v, _ = parse_c_vals(t[4:])
        return ("ok", [None if isnan(x) else Fr(x) for x in v])
    raise ValueError("unparsed C line: " + line[:100])


def c_extra(line):
    """header/ownership fields of copy/pview that the model does not carry"""
    t = line.split()
    if "hdr" in t:
        i = t.index("hdr")
        return t[i:]
    return []


def canon_l(line, ncomp):
    t = line.split()
    kind = t[2]
    if t[3] == "abort":
        return ("abort", t[4] if len(t) > 4 else "notimpl")
    if kind == "gemv":
        if t[3] == "xerbla":
            return ("xerbla", int(t[4]))
        v, _ = parse_l_vals(t[4:], ncomp)
        return ("ok", v)
    if kind == "gemm":
        v, _ = parse_l_vals(t[7:], ncomp)
        return ("ok", int(t[4]), int(t[6]), v)
    if kind == "langs":
        return ("val", Fr(int(t[4]), int(t[5])))
    if kind == "r2c":
        v, r = parse_l_vals(t[4:], ncomp); ri, r = parse_c_ints(r[1:]); cp, r = parse_c_ints(r[1:])
        return ("ok", v, ri, cp)
    if kind == "copy":
        v, r = parse_l_vals(t[7:], ncomp); ri, r = parse_c_ints(r[1:]); cp, r = parse_c_ints(r[1:])
        return ("ok", int(t[3]), int(t[4]), int(t[5]), v, ri, cp)
    if kind == "pview":
        cb, r = parse_c_ints(t[7:]); ce, r = parse_c_ints(r[1:]); ri, r = parse_c_ints(r[1:]); v, r = parse_l_vals(r[1:], ncomp)
        return ("ok", int(t[3]), int(t[4]), int(t[5]), cb, ce, ri, v)
    if kind == "trsv":
        if t[3] == "xerbla":
            return ("xerbla", int(t[4]))
        v, _ = parse_l_vals(t[4:], 1)
        return ("ok", v)
    raise ValueError("unparsed Lean line: " + line[:100])


def status_only(c):
    """discrete part of a canonical result"""
    if c[0] in ("abort",):
        return (c[0], c[1].split(":")[0])
    if c[0] == "xerbla":
        return c
    return (c[0],)


# ---------------------------------------------------------------------------------- running
def run_harness(exe, script, timeout=300):
    d = tempfile.mkdtemp(prefix="hblas", dir=C.BUILD)
    sp = os.path.join(d, "s.scr"); op = os.path.join(d, "s.out")
    open(sp, "w").write(script + "quit\n")
    try:
        r = subprocess.run([exe, sp, op], capture_output=True, text=True, timeout=timeout, env=C.ENV, errors="replace")
        rc, err = r.returncode, r.stderr[-2000:]
    except subprocess.TimeoutExpired:
        rc, err = None, "timeout"
    text = open(op).read() if os.path.exists(op) else ""
    shutil.rmtree(d, ignore_errors=True)
    return text, rc, err


def by_id(text):
    res = {}
    for line in text.split("\n"):
        if line.startswith("res "):
            res[line.split(" ", 2)[1]] = line
    return res


# ---------------------------------------------------------------------------------- oracles
def dense(A):
    D = {}
    for (i, j, v) in A.entries():
        e = ex(v, A.cplx)
        if (i, j) in D:
            D[(i, j)] = cadd(D[(i, j)], e) if A.cplx else D[(i, j)] + e
        else:
            D[(i, j)] = e
    return D


def regroup(flat, cplx):
    if not cplx:
        return flat
    return [None if (flat[2 * i] is None or flat[2 * i + 1] is None) else (flat[2 * i], flat[2 * i + 1]) for i in range(len(flat) // 2)]


def gemv_expected_status(trans, m, n, incx, incy):
    if trans not in "NnTtCc":
        return ("xerbla", 1)
    if m < 0 or n < 0:
        return ("xerbla", 3)
    if incx == 0:
        return ("xerbla", 5)
    if incy == 0:
        return ("xerbla", 8)
    return None


def oracle_axpby(V, cid, prec, trans, A, alpha, beta, xl, yl_in, yl_out, what, blob):
    """componentwise check of y_out against alpha*op(A)*x + beta*y_in (logical vectors, exact values, None = NaN)."""
    cplx = A.cplx; p = PBITS[prec]
    zero = (Fr(0), Fr(0)) if cplx else Fr(0)
    al, be = ex(alpha, cplx), ex(beta, cplx)
    notran = trans in "Nn"; conj = cplx and trans in "Cc"
    leny = len(yl_in)
    acc = [zero] * leny; absacc = [Fr(0)] * leny; cnt = [0] * leny
    if al != zero:
        for (i, j, v) in A.entries():
            a = ex(v, cplx)
            r, c = (i, j) if notran else (j, i)
            if conj:
                a = cconj(a)
            xv = xl[c]
            if xv is None:
                V.append(("oracle-nan-input", "%s %s: x[%d] is NaN with alpha != 0" % (what, cid, c), blob)); return
            acc[r] = cadd(acc[r], cmul(a, xv)) if cplx else acc[r] + a * xv
            absacc[r] += ahi(a, cplx) * ahi(xv, cplx)
            cnt[r] += 1
    for i in range(leny):
        got = yl_out[i]
        if got is None:
            V.append((what + "-nan-output", "%s %s: y[%d] is NaN on exit (beta=%s, y need not be set when beta=0)" % (what, cid, i, beta), blob)); return
        if be == zero:
            want = cmul(al, acc[i]) if cplx else al * acc[i]; by = Fr(0)
        else:
            if yl_in[i] is None:
                V.append(("oracle-nan-input", "%s %s: y NaN with beta != 0" % (what, cid), blob)); return
            want = cadd(cmul(al, acc[i]), cmul(be, yl_in[i])) if cplx else al * acc[i] + be * yl_in[i]
            by = ahi(be, cplx) * ahi(yl_in[i], cplx)
        k = cnt[i] + (8 if cplx else 2)
        bound = gamma(k, p) * (ahi(al, cplx) * absacc[i] + by)
        err = alo(csub(got, want), True) if cplx else abs(got - want)
        if err > bound:
            key = what + "-wrong-result"
            if conj and any(ex(v, True)[1] != 0 for v in A.vals):
                key = "gemv-complex-C-not-conjugated"
            V.append((key, "%s %s prec=%s trans=%s: y[%d] = %s, dense definition gives %s, |diff| %.3e > bound %.3e (k=%d)" % (
                what, cid, prec, trans, i, fstr(got), fstr(want), float(err), float(bound), k), blob)); return


def fstr(v):
    if isinstance(v, tuple):
        return "(%s,%s)" % (float(v[0]), float(v[1]))
    return str(float(v))


def oracle_gemv(V, c, cid, cres, blob):
    cplx = c["prec"] in "cz"; A = c["A"]
    st = gemv_expected_status(c["trans"], A.m, A.n, c["incx"], c["incy"])
    if st is not None:
        if status_only(cres) != st:
            V.append(("gemv-argcheck", "gemv %s: expected %s got %s" % (cid, st, status_only(cres)), blob))
        return "argcheck"
    if cres[0] == "abort":
        notran = c["trans"] in "Nn"
        if cres[1] == "notimpl" and ((notran and c["incy"] != 1) or (not notran and c["incx"] != 1)):
            V.append(("gemv-nonunit-stride-abort", "sp_%sgemv trans=%s incx=%d incy=%d: SUPERLU_ABORT(\"Not implemented.\") instead of y := alpha*op(A)*x + beta*y" % (
                c["prec"], c["trans"], c["incx"], c["incy"]), blob))
        else:
            V.append(("gemv-abort-other", "gemv %s aborted: %s" % (cid, cres[1]), blob))
        return "abort"
    if cres[0] != "ok":
        V.append(("gemv-status", "gemv %s: unexpected outcome %s" % (cid, cres[0]), blob)); return "bad"
    yout = regroup(cres[1], cplx)
    yin = [ex(v, cplx) for v in c["y"]]
    if len(yout) != len(yin):
        V.append(("gemv-status", "gemv %s: output length" % cid, blob)); return "bad"
    pos = positions(c["leny"], c["incy"])
    touched = set(pos)
    for k_ in range(len(yin)):
        if k_ not in touched and yout[k_] != yin[k_]:
            V.append(("gemv-stray-write", "gemv %s: y array cell %d outside the strided vector changed" % (cid, k_), blob)); return "bad"
    xin = [ex(v, cplx) for v in c["x"]]
    xl = [xin[k_] for k_ in positions(c["lenx"], c["incx"])]
    yl_in = [yin[k_] for k_ in pos]; yl_out = [yout[k_] for k_ in pos]
    n0 = len(V)
    if c["lenx"] == 0 or c["leny"] == 0:
        # dense definition with an empty sum: y := beta*y
        zero = (Fr(0), Fr(0)) if cplx else Fr(0)
        be = ex(c["beta"], cplx)
        for i in range(c["leny"]):
            want = zero if be == zero else (None if yl_in[i] is None else (cmul(be, yl_in[i]) if cplx else be * yl_in[i]))
            if yl_out[i] != want:
                V.append(("gemv-empty-operand-skips-beta", "sp_%sgemv with an empty operand (m=%d n=%d trans=%s) returns without forming y := beta*y (beta=%s)" % (
                    c["prec"], A.m, A.n, c["trans"], c["beta"]), blob)); break
        return "empty"
    oracle_axpby(V, cid, c["prec"], c["trans"], A, c["alpha"], c["beta"], xl, yl_in, yl_out, "gemv", blob)
    return "ok" if len(V) == n0 else "bad"


def oracle_gemm(V, c, cid, cres, blob):
    cplx = c["prec"] in "cz"; A = c["A"]
    if cres[0] == "abort":
        V.append(("gemm-abort", "gemm %s aborted: %s" % (cid, cres[1]), blob)); return "abort"
    if c["trans"] not in "NnTtCc":
        if cres[1] != c["nn"] or (c["nn"] and cres[2] != 1) or regroup(cres[3], cplx) != [ex(v, cplx) for v in c["c"]]:
            V.append(("gemm-argcheck", "gemm %s: bad trans must leave C alone and report argument 1 per column" % cid, blob))
        return "argcheck"
    if cres[1] != 0:
        V.append(("gemm-argcheck", "gemm %s: unexpected xerbla" % cid, blob)); return "bad"
    cout = regroup(cres[3], cplx); cin = [ex(v, cplx) for v in c["c"]]; bin_ = [ex(v, cplx) for v in c["b"]]
    touched = set()
    n0 = len(V)
    for j in range(c["nn"]):
        xl = bin_[c["ldb"] * j: c["ldb"] * j + c["lenx"]]
        yl_in = cin[c["ldc"] * j: c["ldc"] * j + c["leny"]]; yl_out = cout[c["ldc"] * j: c["ldc"] * j + c["leny"]]
        touched.update(range(c["ldc"] * j, c["ldc"] * j + c["leny"]))
        if c["lenx"] == 0 or c["leny"] == 0:
            zero = (Fr(0), Fr(0)) if cplx else Fr(0)
            be = ex(c["beta"], cplx)
            for i in range(c["leny"]):
                want = zero if be == zero else (None if yl_in[i] is None else (cmul(be, yl_in[i]) if cplx else be * yl_in[i]))
                if yl_out[i] != want:
                    V.append(("gemv-empty-operand-skips-beta", "sp_%sgemm with an empty operand returns without forming C := beta*C (beta=%s)" % (c["prec"], c["beta"]), blob)); break
            continue
        oracle_axpby(V, cid, c["prec"], c["trans"], A, c["alpha"], c["beta"], xl, yl_in, yl_out, "gemm", blob)
    for k_ in range(len(cin)):
        if k_ not in touched and cout[k_] != cin[k_]:
            V.append(("gemm-stray-write", "gemm %s: cell %d outside C(1:m,1:n) changed" % (cid, k_), blob)); break
    return "ok" if len(V) == n0 else "bad"


def oracle_langs(V, c, cid, cres, blob):
    cplx = c["prec"] in "cz"; A = c["A"]; p = PBITS[c["prec"]]; norm = c["norm"].upper()
    if norm in "FE":
        if min(A.m, A.n) == 0:
            if cres != ("val", Fr(0)):
                V.append(("langs-wrong", "langs %s: empty matrix must give 0" % cid, blob))
            return "empty"
        if cres[0] == "abort":
            V.append(("langs-frobenius-abort", "%slangs('%s'): SUPERLU_ABORT(\"Not implemented.\") instead of the Frobenius norm" % (c["prec"], c["norm"]), blob))
            return "abort"
        V.append(("langs-wrong", "langs %s: Frobenius returned a value?" % cid, blob)); return "bad"
    if norm not in "M1OI":
        if min(A.m, A.n) != 0 and cres[0] != "abort":
            V.append(("langs-wrong", "langs %s: illegal norm accepted" % cid, blob))
        return "illegal"
    if cres[0] != "val" or cres[1] is None:
        V.append(("langs-wrong", "langs %s: outcome %s" % (cid, cres[0]), blob)); return "bad"
    D = dense(A)
    m, n = max(A.m, 0), max(A.n, 0)
    if min(A.m, A.n) == 0:
        lo = hi = Fr(0); K = 0
    elif norm == "M":
        lo = max([alo(v, cplx) for v in D.values()] + [Fr(0)]); hi = max([ahi(v, cplx) for v in D.values()] + [Fr(0)]); K = 0
    else:
        sums_lo = Counter(); sums_hi = Counter(); cnt = Counter()
        for (i, j), v in D.items():
            key = j if norm in "1O" else i
            sums_lo[key] += alo(v, cplx); sums_hi[key] += ahi(v, cplx); cnt[key] += 1
        lo = max(list(sums_lo.values()) + [Fr(0)]); hi = max(list(sums_hi.values()) + [Fr(0)]); K = max(list(cnt.values()) + [0])
    got = cres[1]
    if cplx:
        g = gamma(K + 6, p)
    else:
        g = gamma(K, p) if K else Fr(0)
    if not (lo * (1 - g) <= got <= hi * (1 + g)):
        V.append(("langs-wrong", "%slangs('%s') = %s, definition gives %s (allowed relative error %.2e)" % (c["prec"], c["norm"], float(got), float(hi), float(g)), blob))
        return "bad"
    return "ok"


def triples_nc(colptr, rowind, vals, n):
    out = []
    for j in range(n):
        for k in range(colptr[j], colptr[j + 1]):
            out.append((rowind[k], j, vals[k]))
    return sorted(out, key=lambda t: (t[1], t[0], str(t[2])))


def oracle_r2c(V, c, cid, cres, blob):
    cplx = c["prec"] in "cz"
    if cres[0] != "ok":
        V.append(("r2c-wrong", "r2c %s: outcome %s" % (cid, cres[0]), blob)); return "bad"
    m, n, nnz = c["m"], c["n"], len(c["a"])
    at = regroup(cres[1], cplx); ri, cp = cres[2], cres[3]
    okwf = len(cp) == n + 1 and cp[0] == 0 and cp[n] == nnz and all(cp[j] <= cp[j + 1] for j in range(n)) and all(0 <= r < m for r in ri)
    if not okwf:
        V.append(("r2c-wrong", "r2c %s: output is not a well-formed column-compressed matrix" % cid, blob)); return "bad"
    src = []
    for i in range(m):
        for k in range(c["rowptr"][i], c["rowptr"][i + 1]):
            src.append((i, c["colind"][k], ex(c["a"][k], cplx)))
    src.sort(key=lambda t: (t[1], t[0], str(t[2])))
    if triples_nc(cp, ri, at, n) != src:
        V.append(("r2c-wrong", "r2c %s: converted matrix differs from the input" % cid, blob)); return "bad"
    # rows inside a column come out in increasing order (stable counting sort)
    for j in range(n):
        seg = ri[cp[j]:cp[j + 1]]
        if seg != sorted(seg):
            V.append(("r2c-wrong", "r2c %s: column %d not in row order" % (cid, j), blob)); return "bad"
    return "ok"


def oracle_copy(V, c, cid, cres, extra, blob):
    cplx = c["prec"] in "cz"; A = c["A"]
    if cres[0] != "ok":
        V.append(("copy-wrong", "copy %s: outcome %s" % (cid, cres[0]), blob)); return "bad"
    _, nr, ncn, nnz, v, ri, cp = cres
    v = regroup(v, cplx)
    ok = (nr, ncn, nnz) == (A.m, A.n, A.nnz) and v[:A.nnz] == [ex(x, cplx) for x in A.vals] and ri[:A.nnz] == A.rowind and cp[:A.n + 1] == A.colptr
    ok = ok and v[A.nnz:] == [ex(x, cplx) for x in c["bv"][A.nnz:]] and ri[A.nnz:] == c["bri"][A.nnz:] and cp[A.n + 1:] == c["bcp"][A.n + 1:]
    if extra:
        ok = ok and extra[1:4] == extra[4:7] and extra[-1] == "1"
    if not ok:
        V.append(("copy-wrong", "copy %s: B differs from A (or wrote outside [0,nnz) / lost its own arrays)" % cid, blob)); return "bad"
    return "ok"


def oracle_pview(V, c, cid, cres, extra, blob):
    cplx = c["prec"] in "cz"; A = c["A"]
    if cres[0] != "ok":
        V.append(("pview-wrong", "pview %s: outcome %s" % (cid, cres[0]), blob)); return "bad"
    _, nr, ncn, nnz, cb, ce, ri, v = cres
    v = regroup(v, cplx); n = max(A.n, 0)
    ok = (nr, ncn, nnz) == (A.m, A.n, A.nnz) and len(cb) == n and len(ce) == n
    if ok:
        for i in range(n):
            j = c["permc"][i]
            seg_v = [(ri[k], v[k]) for k in range(cb[j], ce[j])]
            seg_a = [(A.rowind[k], ex(A.vals[k], cplx)) for k in range(A.colptr[i], A.colptr[i + 1])]
            if seg_v != seg_a:
                ok = False
    if extra:
        ok = ok and extra[-1] == "1"
    if not ok:
        V.append(("pview-wrong", "pview %s: column perm_c[i] of the view is not column i of A" % cid, blob)); return "bad"
    return "ok"


# ---------------------------------------------------------------------------------- trsv
def parse_dump(lines):
    """factor dump (same line format as h_drv) -> dict"""
    r = {"Lsup": [], "Lcol": {}, "Ucol": []}
    for line in lines:
        t = line.split()
        if not t:
            continue
        k = t[0]
        if k in ("perm_r", "perm_c") or k.startswith("L.") or k.startswith("U."):
            r[k] = [int(x) for x in t[2:]]
        elif k == "Lhdr":
            r["Lhdr"] = [int(x) for x in t[1:]]
        elif k == "Uhdr":
            r["Uhdr"] = [int(x) for x in t[1:]]
        elif k == "Lsup":
            r["Lsup"].append(None if t[2] == "bad" else {"s": int(t[1]), "f": int(t[2]), "e": int(t[3]), "rows": [int(x) for x in t[5:5 + int(t[4])]]})
        elif k == "Lcol":
            r["Lcol"][int(t[1])] = (int(t[2]), [float.fromhex(x) for x in t[4:]])
        elif k == "Ucol":
            cnt = int(t[2])
            r["Ucol"].append(([int(x) for x in t[3:3 + cnt]], [float.fromhex(x) for x in t[3 + cnt:]]))
    return r


def factors_text(fid, n, dump):
    """integer-only block for `sludrv blas` (real precisions); raises ValueError on non-finite values"""
    allv = []
    def D(x):
        if isnan(x) or x in (float("inf"), float("-inf")):
            raise ValueError("nonfinite")
        d = C.dy(x); allv.append(d); return d
    sn = []
    for s in dump["Lsup"]:
        if s is None:
            raise ValueError("bad supernode")
        cols = []
        for j in range(s["f"], s["e"]):
            b, vals = dump["Lcol"][j]
            cols.append((b, [D(v) for v in vals]))
        sn.append((s, cols))
    ucols = [(dump["U.colbeg"][j], rows, [D(v) for v in vals]) for j, (rows, vals) in enumerate(dump["Ucol"])]
    E = min([0] + [e for (m_, e) in allv if m_ != 0])
    out = ["factors %s" % fid, "n %d E %d" % (n, E)]
    hdr = dump["Lhdr"]
    out.append("L %d %d %d" % (hdr[2], hdr[3], len(sn)))
    for nm, key in (("colToSup", "L.col_to_sup"), ("supBeg", "L.sup_to_colbeg"), ("supEnd", "L.sup_to_colend"), ("rowBegA", "L.rowind_colbeg"),
                    ("rowEndA", "L.rowind_colend"), ("nzBegA", "L.nzval_colbeg"), ("nzEndA", "L.nzval_colend")):
        a = dump[key]; out.append("%s %d %s" % (nm, len(a), " ".join(map(str, a))))
    for s, cols in sn:
        out.append("sup %d %d %d %d %s" % (s["f"], s["e"], dump["L.rowind_colbeg"][s["f"]], len(s["rows"]), " ".join(map(str, s["rows"]))))
        for (b, vals) in cols:
            out.append("col %d %d %s" % (b, len(vals), " ".join("%d %d" % d for d in vals)))
    out.append("U %d" % dump["Uhdr"][2])
    for (b, rows, vals) in ucols:
        out.append("ucol %d %d %s %s" % (b, len(rows), " ".join(map(str, rows)), " ".join("%d %d" % d for d in vals)))
    return "\n".join(out) + "\n"


def dense_LU(n, dump, cplx):
    """exact dense L (unit lower) and U from the dump, as dicts (i,j)->value; the same reading as entryL/entryU"""
    Ld, Ud = {}, {}
    one = (Fr(1), Fr(0)) if cplx else Fr(1)
    for s in dump["Lsup"]:
        f, e, rows = s["f"], s["e"], s["rows"]
        for j in range(f, e):
            _, vals = dump["Lcol"][j]
            if cplx:
                vals = [(vals[2 * t], vals[2 * t + 1]) for t in range(len(vals) // 2)]
            for t, r in enumerate(rows):
                v = ex(vals[t], cplx)
                if t <= j - f:
                    Ud[(r, j)] = v
                else:
                    Ld[(r, j)] = v
    for j in range(n):
        Ld[(j, j)] = one
        rows, vals = dump["Ucol"][j]
        if cplx:
            vals = [(vals[2 * t], vals[2 * t + 1]) for t in range(len(vals) // 2)]
        for t, r in enumerate(rows):
            Ud[(r, j)] = ex(vals[t], cplx)
    return Ld, Ud


def is_pow2(q):
    q = abs(q)
    return q != 0 and (q.numerator & (q.numerator - 1)) == 0 and (q.denominator & (q.denominator - 1)) == 0


def exact_friendly(n, T, diag_unit, x, p):
    """a-priori proof that solving with the (real) triangular T on x is free of rounding in p-bit arithmetic, whatever
    the order of the partial sums: off-diagonal entries and x are integers, diagonal entries are +-2^d;
    all intermediates are multiples of 2^-g bounded in magnitude by the |.|-recurrence z."""
    g = 0
    for (i, j), v in T.items():
        if v is None:
            return False
        if i == j:
            if diag_unit:
                continue
            if not is_pow2(v):
                return False
            if abs(v) > 1:
                g += abs(v).numerator.bit_length() - 1
        elif v.denominator != 1:
            return False
    if any(v is None or v.denominator != 1 for v in x):
        return False
    rows = {}
    for (i, j), v in T.items():
        if i != j:
            rows.setdefault(i, []).append((j, abs(v)))
    # z solves (|D| - |offdiag|) z = |x| in dependency order; T is triangular up to the order given by its pattern
    z = {}
    def solve(i, depth=0):
        if i in z:
            return z[i]
        if depth > n + 1:
            raise ValueError("cyclic")
        s = abs(x[i])
        for (j, a) in rows.get(i, []):
            s += a * solve(j, depth + 1)
        d = Fr(1) if diag_unit else abs(T[(i, i)])
        z[i] = s / d
        z[("pre", i)] = s
        return z[i]
    try:
        for i in range(n):
            solve(i)
    except (ValueError, KeyError, RecursionError, ZeroDivisionError):
        return False
    big = max([Fr(0)] + [v for v in z.values()])
    return big * (1 << g) < (1 << (p - 1))


def mk_factor(rng, prec, cls, big=False):
    cplx = prec in "cz"
    nmax = 24 if big else 10
    n = rng.choice([1, 2, 3] + [rng.randint(2, nmax) for _ in range(6)])
    if cls == "intLU":
        dl = rng.choice([0.15, 0.3, 0.6, 0.9]); du = rng.choice([0.15, 0.3, 0.6, 0.9])
        pw = rng.random() < 0.4
        def sc(v):
            return (float(v), 0.0) if cplx else float(v)
        L0 = [[0] * n for _ in range(n)]; U0 = [[0] * n for _ in range(n)]
        for i in range(n):
            L0[i][i] = 1
            U0[i][i] = rng.choice([1, -1]) * (rng.choice([1, 2, 4]) if pw else 1)
            for j in range(i):
                if rng.random() < dl:
                    L0[i][j] = rng.choice([-1, 1])
            for j in range(i + 1, n):
                if rng.random() < du:
                    U0[i][j] = rng.choice([-3, -2, -1, 1, 2, 3])
        colptr = [0]; rowind = []; vals = []
        for j in range(n):
            for i in range(n):
                a = sum(L0[i][k] * U0[k][j] for k in range(n))
                if a != 0 or i == j:
                    rowind.append(i); vals.append(sc(a))
            colptr.append(len(rowind))
        M = G.Mat(n, colptr, rowind, vals, cplx); kind = "intLU"
    else:
        M = G.random_matrix(rng, n, None, "float" if cls == "float" else "int", cplx=cplx, dominant=(rng.random() < 0.3))
        if prec in "sc":
            G.round_single(M)
        kind = M.kind
    relax = rng.choice([1, 1, 2, 4, 6]); maxsuper = max(relax, rng.choice([2, 2, 3, 4, 200]))
    cfg = {"n": n, "cls": cls, "kind": kind, "nprocs": rng.choice([1, 1, 2, 4]), "panel": rng.choice([1, 2, 3, 8]), "relax": relax, "maxsuper": maxsuper,
           "colperm": rng.choice([0, 0, 1, 2, 3]) if cls != "intLU" else rng.choice([0, 0, 0, 3])}
    return cfg, M


def line_factor(fid, cfg, M):
    cplx = M.cplx
    return "op %s factor %d %d %s %s %s %d %d %d %d %d" % (fid, M.n, M.nnz, wire_ints(M.colptr), wire_ints(M.rowind), wire_arr(M.vals, cplx),
                                                      cfg["nprocs"], cfg["panel"], cfg["relax"], cfg["maxsuper"], cfg["colperm"])


def mk_trsv_ops(rng, prec, n, cls):
    """the four real cases (+ C, lower case, bad arguments) on one factorization"""
    cplx = prec in "cz"
    ops = []
    combos = [(u, t) for u in "LU" for t in "NT"]
    extra = rng.choice([("L", "C"), ("U", "C"), ("l", "n"), ("u", "t"), ("X", "N"), ("L", "N", "Q"), ("U", "T", "dims")])
    for cb in combos + [extra]:
        uplo, trans = cb[0], cb[1]
        diag = rng.choice("UN")
        dims_ = [n, n, n, n]
        if len(cb) > 2:
            if cb[2] == "Q":
                diag = "Q"
            else:
                dims_[rng.randrange(4)] = rng.choice([n + 1, -1])
        vm = "int" if cls == "intLU" or rng.random() < 0.5 else "float"
        x = [scalar(rng, vm, prec, cplx) for _ in range(n)]
        ops.append({"kind": "trsv", "prec": prec, "uplo": uplo, "trans": trans, "diag": diag, "dims": dims_, "x": x, "vmode": vm})
    return ops


def line_trsv(c, oid):
    cplx = c["prec"] in "cz"
    return "op %s trsv %d %d %d %d %d %d %d %s" % (oid, ord(c["uplo"]), ord(c["trans"]), ord(c["diag"]), c["dims"][0], c["dims"][1], c["dims"][2], c["dims"][3],
                                               wire_arr(c["x"], cplx))


def trsv_expected_status(c, n):
    if c["uplo"] not in "LlUu":
        return ("xerbla", 1)
    if c["trans"] not in "NnTtCc":
        return ("xerbla", 2)
    if c["diag"] not in "UuNn":
        return ("xerbla", 3)
    d = c["dims"]
    if d[0] != d[1] or d[0] < 0:
        return ("xerbla", 4)
    if d[2] != d[3] or d[2] < 0:
        return ("xerbla", 5)
    return None



def clobber_possible(dump):
    """structural precondition of the complex (L,N) defect: a single-column supernode with sub-diagonal rows
    (its products are formed in `comp_zero`) is followed by a multi-column supernode with sub-diagonal rows
    (which 'clears' work[] with the clobbered comp_zero) and later by another one (which accumulates onto it)."""
    state = 0
    for s in dump["Lsup"]:
        nc = s["e"] - s["f"]; nr = len(s["rows"]) - nc
        if nc == 1:
            if nr > 0 and state == 0:
                state = 1
        elif nr > 0:
            if state == 2:
                return True
            if state == 1:
                state = 2
    return False


def sim_ctrsv_LN(n, dump, x):
    """exact transcription of the (L,N) branch of sp_c/ztrsv *as it is written*, including the reuse of `comp_zero`
    as a scratch variable (SRC/zsp_blas2.c:151,184).  x: list of exact complex pairs.
    Returns (result, bound) where bound >= the 1-norm magnitude of every intermediate value."""
    zero = (Fr(0), Fr(0)); cz = zero; work = [zero] * n
    n1 = lambda z: abs(z[0]) + abs(z[1])
    x = list(x); bx = [n1(v) for v in x]; bw = [Fr(0)] * n; bc = Fr(0)
    for s in dump["Lsup"]:
        f, e, rows = s["f"], s["e"], s["rows"]; nc = e - f; nr = len(rows) - nc
        cols = []
        for j in range(f, e):
            _, vals = dump["Lcol"][j]
            cols.append([(Fr(vals[2 * t]), Fr(vals[2 * t + 1])) for t in range(len(vals) // 2)])
        if nc == 1:
            for t in range(1, len(rows)):
                cz = cmul(x[f], cols[0][t]); bc = bx[f] * n1(cols[0][t])
                x[rows[t]] = csub(x[rows[t]], cz); bx[rows[t]] += bc
        else:
            for j in range(nc):
                for i in range(j + 1, nc):
                    x[f + i] = csub(x[f + i], cmul(x[f + j], cols[j][i])); bx[f + i] += bx[f + j] * n1(cols[j][i])
            for i in range(nr):
                for j in range(nc):
                    work[i] = cadd(work[i], cmul(cols[j][nc + i], x[f + j])); bw[i] += n1(cols[j][nc + i]) * bx[f + j]
            for i in range(nr):
                x[rows[nc + i]] = csub(x[rows[nc + i]], work[i]); bx[rows[nc + i]] += bw[i]
                work[i] = cz; bw[i] = bc
    return x, max([Fr(0)] + bx + bw)


def oracle_trsv(V, c, cid, cres, n, Ld, Ud, blob, dump=None, stats=None):
    cplx = c["prec"] in "cz"; p = PBITS[c["prec"]]
    st = trsv_expected_status(c, n)
    if st is not None:
        if status_only(cres) != st:
            V.append(("trsv-argcheck", "trsv %s: expected %s got %s" % (cid, st, status_only(cres)), blob))
        return "argcheck"
    if cres[0] == "xerbla" and c["trans"] in "Cc":
        key = "trsv-rejects-trans-C" if cplx else "trsv-real-rejects-trans-C"   # the real twins accept 'C' since commit 2acf694
        V.append((key, "sp_%strsv(trans='%s'): documented value rejected with info=-%d (xerbla), x untouched" % (c["prec"], c["trans"], cres[1]), blob))
        return "rejectC"
    if cres[0] != "ok":
        V.append(("trsv-status", "trsv %s: outcome %s" % (cid, cres), blob)); return "bad"
    r = regroup(cres[1], cplx)
    if any(v is None for v in r):
        V.append(("trsv-wrong-result", "trsv %s: NaN in the solution" % cid, blob)); return "bad"
    T = Ld if c["uplo"] in "Ll" else Ud
    tr = c["trans"] not in "Nn"
    conj = cplx and c["trans"] in "Cc"
    xin = [ex(v, cplx) for v in c["x"]]
    simdiff = False
    if cplx and c["uplo"] in "Ll" and c["trans"] in "Nn" and dump is not None and stats is not None:
        # complex (L,N): the code as written (comp_zero reused as scratch) transcribed in exact arithmetic
        sim, bnd = sim_ctrsv_LN(n, dump, xin)
        gauss = all(v[0].denominator == 1 and v[1].denominator == 1 for v in xin) and all(
            v[0].denominator == 1 and v[1].denominator == 1 for v in Ld.values())
        if gauss and bnd < (1 << (p - 1)):
            stats["corr-exact:ctrsv-LN-transcription"] += 1
            simdiff = sim != r      # judged below: harmless only if the result satisfies the definition (defect repaired)
    zero = (Fr(0), Fr(0)) if cplx else Fr(0)
    acc = [zero] * n; ab = [Fr(0)] * n; cnt = [0] * n
    for (i, j), v in T.items():
        rr, cc = (j, i) if tr else (i, j)
        if conj:
            v = cconj(v)
        acc[rr] = cadd(acc[rr], cmul(v, r[cc])) if cplx else acc[rr] + v * r[cc]
        ab[rr] += ahi(v, cplx) * ahi(r[cc], cplx); cnt[rr] += 1
    for i in range(n):
        k = (4 * cnt[i] + 8) if cplx else (cnt[i] + 2)
        err = alo(csub(acc[i], xin[i]), True) if cplx else abs(acc[i] - xin[i])
        bound = gamma(k, p) * ab[i]
        if err > bound:
            key = "trsv-wrong-result"
            if simdiff:
                key = "correspondence:ctrsv-LN-value"   # neither the definition nor the transcription of the code as written
            elif cplx and c["uplo"] in "Ll" and c["trans"] in "Nn" and dump is not None and clobber_possible(dump):
                key = "trsv-complex-LN-work-not-reset"
            V.append((key, "sp_%strsv(%s,%s) n=%d: residual row %d |T r - x| = %.3e > gamma(%d)|T||r| = %.3e" % (
                c["prec"], c["uplo"], c["trans"], n, i, float(err), k, float(bound)), blob)); return "bad"
    if simdiff:
        stats["ctrsv-LN-satisfies-definition-but-not-the-transcribed-defect"] += 1
    return "ok"


# ---------------------------------------------------------------------------------- chunks
def blob_of(c, line, cline=None, lline=None):
    b = {"kind": c["kind"], "prec": c["prec"], "line": line if len(line) < 20000 else line[:20000], "c_result": (cline or "")[:4000], "model_result": (lline or "")[:4000]}
    for k in ("trans", "incx", "incy", "norm", "uplo", "diag", "dims", "vmode", "m", "n"):
        if k in c:
            b[k] = c[k]
    if "alpha" in c:
        b["alpha"] = list(c["alpha"]) if isinstance(c["alpha"], tuple) else c["alpha"]
        b["beta"] = list(c["beta"]) if isinstance(c["beta"], tuple) else c["beta"]
    if "A" in c:
        b["A"] = c["A"].blob()
    return b


def exact_class(c):
    return c["vmode"] in ("int", "half", "pyth")


def process_simple_chunk(exes, chunk):
    """chunk: list of (oid, case, line) all of one precision, non-trsv.  -> (violations, stats Counter, samples)"""
    prec = chunk[0][1]["prec"]; ncomp = 2 if prec in "cz" else 1
    V = []; st = Counter(); samples = []
    script = "\n".join(l for (_, _, l) in chunk) + "\n"
    ctext, rc, err = run_harness(exes[prec], script)
    cres = by_id(ctext)
    if rc != 0 or "done" not in ctext:
        V.append(("harness-crash", "h_blas_%s rc=%s: %s" % (prec, rc, err[-300:]), {"script": script[:20000], "prec": prec}))
        return V, st, samples
    # the model runs on every line whose arithmetic it can do exactly; langs on irrational moduli is skipped
    ml = [(oid, c, l) for (oid, c, l) in chunk if not (c["kind"] == "langs" and not exact_class(c) and prec in "cz")]
    try:
        ltext = C.run_sludrv("blas", "\n".join(l for (_, _, l) in ml) + "\n")
    except Exception as e:
        V.append(("engine-crash", "sludrv blas failed: %s" % str(e)[-300:], {"script": script[:20000], "prec": prec}))
        return V, st, samples
    lres = by_id(ltext)
    for (oid, c, line) in chunk:
        kind = c["kind"]
        cl = cres.get(oid)
        if cl is None:
            V.append(("harness-crash", "no result for %s" % oid, blob_of(c, line))); continue
        cc = canon_c(cl, ncomp)
        ll = lres.get(oid)
        blob = blob_of(c, line, cl, ll)
        st["ops:" + kind] += 1; st["prec:" + prec] += 1
        # ---- correspondence
        if ll is not None:
            lc = canon_l(ll, ncomp)
            if status_only(cc) != status_only(lc):
                V.append(("correspondence:%s-status" % kind, "%s %s prec=%s: code %s, model %s" % (kind, oid, prec, status_only(cc), status_only(lc)), blob))
            elif exact_class(c):
                st["corr-exact:" + kind] += 1
                if cc != lc:
                    V.append(("correspondence:%s-value" % kind, "%s %s prec=%s vmode=%s: code and model outputs differ on exact-arithmetic input" % (kind, oid, prec, c["vmode"]), blob))
            else:
                st["corr-status-only:" + kind] += 1
                # untouched cells / index arrays are discrete: compare them even on float inputs
                if kind in ("r2c", "copy", "pview") and cc != lc:
                    V.append(("correspondence:%s-value" % kind, "%s %s prec=%s: code and model outputs differ (pure data movement)" % (kind, oid, prec), blob))
        # ---- oracle on the implementation's own output
        if kind == "gemv":
            o = oracle_gemv(V, c, oid, cc, blob)
            st["gemv:%s" % o] += 1
            st["gemv-trans:%s" % c["trans"].upper()] += 1; st["gemv-incx:%d" % c["incx"]] += 1; st["gemv-incy:%d" % c["incy"]] += 1
            if c["ynan"] and o == "ok":
                st["gemv-beta0-y-unset-ok"] += 1
        elif kind == "gemm":
            st["gemm:%s" % oracle_gemm(V, c, oid, cc, blob)] += 1
        elif kind == "langs":
            st["langs:%s:%s" % (c["norm"].upper(), oracle_langs(V, c, oid, cc, blob))] += 1
        elif kind == "r2c":
            st["r2c:%s" % oracle_r2c(V, c, oid, cc, blob)] += 1
        elif kind == "copy":
            st["copy:%s" % oracle_copy(V, c, oid, cc, c_extra(cl), blob)] += 1
        elif kind == "pview":
            st["pview:%s" % oracle_pview(V, c, oid, cc, c_extra(cl), blob)] += 1
        if len(samples) < 2 and kind in ("gemv", "langs"):
            samples.append({k: blob[k] for k in blob if k not in ("line",)})
    return V, st, samples


def process_trsv_chunk(exes, chunk):
    """chunk: list of (fid, cfg, M, [(oid, trsvcase)]) of one precision"""
    prec = chunk[0][3][0][1]["prec"]; cplx = prec in "cz"; ncomp = 2 if cplx else 1; p = PBITS[prec]
    V = []; st = Counter(); samples = []
    lines = []
    for (fid, cfg, M, ops) in chunk:
        lines.append(line_factor(fid, cfg, M))
        for (oid, c) in ops:
            lines.append(line_trsv(c, oid))
    script = "\n".join(lines) + "\n"
    ctext, rc, err = run_harness(exes[prec], script)
    if rc != 0 or "done" not in ctext:
        V.append(("harness-crash", "h_blas_%s (factor/trsv) rc=%s: %s" % (prec, rc, err[-300:]), {"script": script[:30000], "prec": prec}))
        return V, st, samples
    cres = by_id(ctext)
    # split dumps
    dumps = {}; cur = None
    for line in ctext.split("\n"):
        if line.startswith("res ") and " factor " in line:
            cur = line.split()[1]; dumps[cur] = {"hdr": line, "lines": []}
        elif line.startswith("endfactor"):
            cur = None
        elif cur is not None:
            dumps[cur]["lines"].append(line)
    ltext_in = []
    meta = {}
    for (fid, cfg, M, ops) in chunk:
        st["factorizations"] += 1; st["fact-cls:" + cfg["cls"]] += 1
        d = dumps.get(fid)
        n = cfg["n"]
        if d is None:
            V.append(("harness-crash", "no factor result %s" % fid, {"script": script[:30000]})); continue
        hdr = d["hdr"].split()
        if int(hdr[4]) != 0:
            st["fact-singular-or-error"] += 1
            continue
        dump = parse_dump(d["lines"])
        if any(s is None for s in dump["Lsup"]):
            st["fact-bad-supernode"] += 1; continue
        nsn = len(dump["Lsup"]); st["supernodes-multi" if nsn < n else "supernodes-all-singletons"] += 1
        Ld, Ud = dense_LU(n, dump, cplx)
        meta[fid] = (dump, Ld, Ud)
        model_ok = False
        if not cplx:
            try:
                ltext_in.append(factors_text(fid, n, dump)); model_ok = True
            except ValueError:
                st["fact-nonfinite"] += 1
        for (oid, c) in ops:
            if model_ok:
                ltext_in.append(line_trsv(c, oid) + "\n")
    lres = {}
    if ltext_in:
        try:
            lres = by_id(C.run_sludrv("blas", "".join(ltext_in)))
        except Exception as e:
            V.append(("engine-crash", "sludrv blas (trsv) failed: %s" % str(e)[-300:], {"input": "".join(ltext_in)[:30000]}))
    for (fid, cfg, M, ops) in chunk:
        if fid not in meta:
            continue
        dump, Ld, Ud = meta[fid]; n = cfg["n"]
        fl = lres.get(fid)
        wf = fl is not None and " wfL 1 wfU 1" in fl
        if fl is not None and not wf:
            st["fact-not-wf"] += 1
            V.append(("trsv-factors-not-wf", "factors %s returned by p%sgssv are not well-formed (%s)" % (fid, prec, fl), {"cfg": cfg, "script": script[:30000]}))
            continue
        for (oid, c) in ops:
            cl = cres.get(oid)
            if cl is None:
                V.append(("harness-crash", "no result for %s" % oid, {"script": script[:30000]})); continue
            cc = canon_c(cl, ncomp); ll = lres.get(oid)
            blob = blob_of(c, line_trsv(c, oid), cl, ll)
            blob["factor_line"] = line_factor(fid, cfg, M)[:20000]; blob["cfg"] = cfg
            st["ops:trsv"] += 1; st["prec:" + prec] += 1
            st["trsv-case:%s%s" % (c["uplo"].upper(), c["trans"].upper())] += 1
            if ll is not None:
                lc = canon_l(ll, 1)
                if status_only(cc) != status_only(lc):
                    V.append(("correspondence:trsv-status", "trsv %s prec=%s: code %s, model %s" % (oid, prec, status_only(cc), status_only(lc)), blob))
                elif cc[0] == "ok":
                    T = Ld if c["uplo"] in "Ll" else Ud
                    Tt = {(j, i): v for (i, j), v in T.items()} if c["trans"] not in "Nn" else T
                    if exact_friendly(n, Tt, c["uplo"] in "Ll", [ex(v, False) for v in c["x"]], p):
                        st["corr-exact:trsv"] += 1
                        if cc != lc:
                            V.append(("correspondence:trsv-value", "trsv %s prec=%s (%s,%s) n=%d: code and model differ although no rounding can occur" % (
                                oid, prec, c["uplo"], c["trans"], n), blob))
                    else:
                        st["corr-status-only:trsv"] += 1
            o = oracle_trsv(V, c, oid, cc, n, Ld, Ud, blob, dump, st)
            st["trsv:%s" % o] += 1
            if len(samples) < 1 and o == "ok":
                samples.append({"cfg": cfg, "uplo": c["uplo"], "trans": c["trans"], "nsupernodes": len(dump["Lsup"]), "c_result": cl[:300]})
    return V, st, samples


# ---------------------------------------------------------------------------------- plan
def plan(seed, quick):
    rng = random.Random(seed * 7919 + 19)
    simple = {p: [] for p in "sdcz"}
    counter = [0]
    def add(kind, prec, vmode, **kw):
        mk, ln = MK[kind]
        c = mk(rng, prec, vmode, **kw)
        oid = "%s%d" % (kind[0] + kind[-1], counter[0]); counter[0] += 1
        simple[prec].append((oid, c, ln(c, oid)))
    # 1. the full grid alpha x beta x incx x incy x op, every precision, exact-arithmetic inputs
    for prec in "sdcz" * (1 if quick else 3):
        cplx = prec in "cz"
        for tr in "NTC":
            for a in ALPHAS:
                for b in ALPHAS:
                    for ix in STRIDES:
                        for iy in STRIDES:
                            al = (a, 0.0) if cplx else a; be = (b, 0.0) if cplx else b
                            add("gemv", prec, rng.choice(["int", "int", "half"]), trans=tr, alpha=al, beta=be, incx=ix, incy=iy,
                                m=rng.randint(1, 6 if quick else 12), n=rng.randint(1, 6 if quick else 12))
    # 2. random: all kinds, both value classes, argument-check inputs
    nrand = 700 if quick else 15000
    for prec in "sdcz":
        for t in range(nrand):
            vm = rng.choice(["int", "half", "float", "float"])
            kw = {}
            r = rng.random()
            if r < 0.04:
                kw["incx"] = 0
            elif r < 0.08:
                kw["incy"] = 0
            elif r < 0.11:
                kw["trans"] = rng.choice("XZ ")
            elif r < 0.14:
                kw["m"], kw["n"] = rng.choice([(-1, 3), (3, -2), (-1, -1)])
            add("gemv", prec, vm, big=not quick, **kw)
        for t in range(nrand // 3):
            add("gemm", prec, rng.choice(["int", "half", "float"]), big=not quick)
        for t in range(nrand // 2):
            add("langs", prec, rng.choice(["pyth", "pyth", "float"]), big=not quick)
        for t in range(nrand // 3):
            add("r2c", prec, rng.choice(["int", "float"]), big=not quick)
        for t in range(nrand // 5):
            add("copy", prec, rng.choice(["int", "float"]), big=not quick)
            add("pview", prec, rng.choice(["int", "float"]), big=not quick)
    # 3. factorizations + triangular solves
    nfact = 140 if quick else 4000
    trsv = {p: [] for p in "sdcz"}
    fcount = 0
    for prec in "sdcz":
        for t in range(nfact):
            cls = rng.choice(["intLU", "intLU", "float", "int"])
            cfg, M = mk_factor(rng, prec, cls, big=not quick)
            fid = "F%d" % fcount; fcount += 1
            ops = []
            for c in mk_trsv_ops(rng, prec, cfg["n"], cls):
                oid = "tv%d" % counter[0]; counter[0] += 1
                ops.append((oid, c))
            trsv[prec].append((fid, cfg, M, ops))
    return simple, trsv


def chunks(lst, size):
    return [lst[i:i + size] for i in range(0, len(lst), size)]


def _work(arg):
    exes, job = arg
    return process_simple_chunk(exes, job[1]) if job[0] == "s" else process_trsv_chunk(exes, job[1])


def run(ctx):
    t0 = time.time()
    C.build_lib("plain")
    exes = C.build_harness_all_prec("h_blas.c")
    simple, trsv = plan(ctx.seed, ctx.quick())
    jobs = []
    for p in "sdcz":
        for ch in chunks(simple[p], 120):
            jobs.append(("s", ch))
        for ch in chunks(trsv[p], 6):
            jobs.append(("t", ch))
    total = Counter(); samples = []; allv = []
    from concurrent.futures import ProcessPoolExecutor
    with ProcessPoolExecutor(C.NPROC) as ex_:
        for (V, st, sm) in ex_.map(_work, [(exes, j) for j in jobs], chunksize=1):
            total.update(st); allv.extend(V)
            if len(samples) < 6:
                samples.extend(sm[:1])
    for (key, what, blob) in allv:
        ctx.violation(key, what, blob)
    nops = sum(v for k, v in total.items() if k.startswith("ops:"))
    ctx.coverage.update({
        "evaluations": nops,
        "distinct_nontrivial": sum(v for k, v in total.items() if k.startswith("corr-exact:")) ,
        "rule": "seeded (VERIF_SEED) generation: (1) the full grid alpha,beta in {0,1,-1,2,1/2} x incx,incy in {1,2,-1,-3} x op in {N,T,C} x 4 precisions on "
                "rectangular integer/half-integer matrices (1200 sp_?gemv calls per precision); (2) random sp_?gemv/sp_?gemm/?langs/?CompRow_to_CompCol/"
                "?Copy_CompCol_Matrix/?Create_CompCol_Permuted calls, m x n rectangular incl. empty, integer + general float values, argument-check inputs, "
                "NaN in y when beta=0 and in x when alpha=0; (3) p?gssv factorizations (integer L0*U0 products, random float/int patterns from vlib/gen.py, "
                "nprocs/panel/relax/maxsuper varied so that multi-column supernodes occur) followed by sp_?trsv L/U x N/T (+C, lower case, bad arguments). "
                "non-trivial = exact-arithmetic inputs on which code and model were compared value by value (corr-exact:*).",
        "distribution": dict(sorted(total.items())),
        "samples": samples[:5],
        "rounding_bound": "gamma(k)=k*u/(1-k*u), u=2^-24 (s,c) / 2^-53 (d,z); k as in assumptions[0]",
        "wall_run_s": round(time.time() - t0, 1),
    })


def replay(ctx, obj):
    """re-run one recorded operation line through the real routine and the model"""
    C.build_lib("plain")
    exes = C.build_harness_all_prec("h_blas.c")
    r = obj.get("replay", obj)
    prec = r.get("prec", "d")
    script = ""
    if "factor_line" in r:
        script += r["factor_line"] + "\n"
    script += r.get("line", r.get("script", "")) + "\n"
    text, rc, err = run_harness(exes[prec], script)
    print(text)
    print("harness rc", rc, err[-500:])
    if "factor_line" not in r and r.get("line"):
        try:
            print(C.run_sludrv("blas", r["line"] + "\n"))
        except Exception as e:
            print("model:", e)
    return 0
