"""C18 — calls are independent of what was factored before (no hidden state carry-over)."""
from vlib import common as C, hist as H
LEVEL = "other"
EXPLANATION = ("Differential: a first-time probe call (simple or expert driver, one thread) is run in a fresh process and again after a prefix "
               "history (other sizes, singular input, illegal-argument call, workspace query, user-workspace run, refactorization sequence, destroy); "
               "every output bit (info, permutations, X, L, U, equed, R, C, rcond, berr) must be identical. The state kept between calls "
               "(static GlobalLU_t per precision, expander table, user stack, ?lacon statics) is listed in DESIGN.md; its reset-before-use is the theorem "
               "target (open) — this check is the correspondence/oracle part.")
ASSUMPTIONS = ["one thread and single-threaded OpenBLAS so that results are deterministic", "prefix and probe use the same precision (statics are per precision)"]


def run(ctx):
    st, viol = H.run_differential(ctx, 220 if ctx.quick() else 6000)
    for key, what, blob in viol[:20]:
        ctx.violation(key, what, blob)
    ctx.coverage.update({"evaluations": st["pairs"] * 2, "distinct_nontrivial": st["compared"],
                         "rule": "pairs (probe alone, prefix+probe) in fresh processes; non-trivial = both ran and were compared bit for bit",
                         "differential_stats": st, "samples": [{"prefix kinds": "other_size, singular, illegal, query, userwork, history, destroy"}]})
