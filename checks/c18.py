"""C18 — calls are independent of what was factored before (no hidden state carry-over)."""
from vlib import common as C, hist as H, ustack as US
LEVEL = "proof"
EXPLANATION = ("Differential: a first-time probe call (simple or expert driver, one thread) is run in a fresh process and again after a prefix "
               "history (other sizes, singular input, illegal-argument call, workspace query, user-workspace run, refactorization sequence, destroy); "
               "every output bit (info, permutations, X, L, U, equed, R, C, rcond, berr) must be identical. Theorem fresh_call_independent (Props/C18.lean) covers the "
               "allocator's file-static state (whichspace, stack descriptor), tied to p?memory.c by the h_stack correspondence whose cases run in one process. The state kept between calls "
               "(static GlobalLU_t per precision, expander table, user stack, ?lacon statics) is listed in DESIGN.md; its reset-before-use is the theorem "
               "target (open) — this check is the correspondence/oracle part.")
ASSUMPTIONS = ["one thread and single-threaded OpenBLAS so that results are deterministic", "prefix and probe use the same precision (statics are per precision)"]


def run(ctx):
    # allocator statics: model (setupSpace/ustep, theorem fresh_call_independent) <-> real p?memory.c, cases chained in one process
    ust, udis = US.correspondence(ctx, 200 if ctx.quick() else 3000)
    ctx.coverage["allocator_statics_correspondence"] = ust
    for d in udis[:5]:
        ctx.violation("ustack-correspondence:" + d["kind"], "allocator statics: real code and Model/UserStack.lean differ after a history of cases (%s prec=%s case=%s line=%s model=%s code=%s)" % (
            d["kind"], d.get("prec"), d.get("case"), d.get("line"), d.get("model"), d.get("code")), d, no_input=(d["kind"] != "ustack-disagreement"))
    st, viol = H.run_differential(ctx, 220 if ctx.quick() else 6000)
    for key, what, blob in viol[:20]:
        ctx.violation(key, what, blob)
    ctx.coverage.update({"evaluations": st["pairs"] * 2, "distinct_nontrivial": st["compared"],
                         "rule": "pairs (probe alone, prefix+probe) in fresh processes; non-trivial = both ran and were compared bit for bit",
                         "differential_stats": st, "samples": [{"prefix kinds": "other_size, singular, illegal, query, userwork, history, destroy"}]})
