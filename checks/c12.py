"""C12 — condition estimate and pivot growth are sound."""
import random, json, math
from fractions import Fraction as F
from concurrent.futures import ThreadPoolExecutor
from collections import Counter
from vlib import common as C, gen as G, drv as D, sweep as S, conrfs as R

LEVEL = "proof"
EXPLANATION = (
    "Theorems (Props/C12.lean) over the executable models Model/Lacon.lean + Model/Growth.lean: the reverse-communication "
    "estimator terminates within 11 operator applications, est <= ||M||_1 (every probe has 1-norm <= 1, incl. the alternating "
    "vector with sum 3n/2 and the 2/(3n) factor), est >= ||M e/n||_1 (Hager monotonicity), hence the two-sided rcond bound for "
    "both norm letters (gscon_bounds); ?langs equals the max / 1 / inf norm definitions; the driver's norm letter and anorm refer "
    "to ||A||_1 of the user's A when A X = B is solved and ||A||_inf for the transposed system, for NC and NR alike; info = n+1 "
    "iff rcond < eps with X/ferr/berr still produced; ?PivotGrowth = min over columns (growth_spec_partial, forced hypothesis: "
    "supernode numbers increase with the columns). Correspondence: the real ?lacon_ driven by explicit integer operators is diffed "
    "call by call (kase, x, est) with the model; real ?gscon / ?langs / ?PivotGrowth on factors of exact-float matrices. Oracle: "
    "exact rational inverse of the equilibrated matrix -> the property's two-sided inequality with the stated slack, info=n+1 <=> "
    "rcond<eps, growth recomputed exactly from the returned factors.")
ASSUMPTIONS = [
    "floating-point rounding of the estimator is judged per run with slack (1 +- 100*n*u); the theorems are exact-arithmetic",
    "the complex estimator (clacon/zlacon) is modelled executable-only and tied on axis-aligned operators; its bounds are sampled by the oracle",
    "vendor BLAS i?amax tie-breaking is outside the model: exact ties are counted as ambiguous, never as disagreement",
]
TRUSTED = ["Python fractions arithmetic for the exact inverse / norms (oracle)"]

MARGIN_K = 64          # decision margin = MARGIN_K * n * u (relative)


# ====================================================================== part A: estimator dialogue
# operators on which the estimator needs all ITMAX = 5 iterations (12 calls): found by random search over "chain" matrices
# (bidiagonal, increasing magnitudes, sub-diagonal ~ -diagonal); row permutations, column permutations and
# power-of-two scalings give equivalent dialogues
LONG_BASE = [
    [[18, 0, 0, 0, 0, 0, 0, 0], [-18, 29, 0, 0, 0, 0, 0, 0], [0, -27, 37, 0, 0, 0, -1, 0], [0, 0, -40, 39, 0, 0, 0, 0], [0, 0, 0, -42, 44, 0, 0, 0],
     [0, 0, 0, 0, -43, 58, 0, 0], [0, 0, 0, 0, 0, -56, 59, 0], [0, 0, 0, 0, 0, 0, -58, 59]],
    [[3, 0, 0, 0, 0, 0, 0, 0], [0, -9, 0, 0, 0, 0, 0, 0], [0, 8, 23, 0, 0, 0, 0, 0], [0, 0, -21, 29, 0, 0, 0, 0], [0, 0, 0, -32, 31, 0, 0, -1],
     [0, 0, 0, 0, -34, 32, 0, 0], [0, 0, 0, 0, 0, -34, -48, 0], [0, 0, 0, 0, 0, 0, 49, -59]],
    [[1, 0, 0, 0, 0, 0, 0, 0], [-2, -1, 0, 0, -1, 0, 0, 0], [0, 4, 19, 0, 0, 0, 0, 0], [0, 0, -19, 30, 0, 0, 0, 0], [0, 0, 0, -31, 39, 0, 0, -2],
     [0, 0, 0, 0, -38, 59, -1, 0], [0, -2, 0, 0, 0, -56, 59, 0], [0, 0, 0, 0, 0, 0, -57, 59]],
]


def gen_operator(rng, n, cplx):
    kind = rng.choice(["rand", "rand", "sparse", "rank1", "diagdom", "perm", "ties", "neg", "hilbertish", "wide"])
    if n == 8 and not cplx and rng.random() < 0.35:
        base = rng.choice(LONG_BASE)
        pr = list(range(8)); pc = list(range(8)); rng.shuffle(pr); rng.shuffle(pc)
        sc = 2 ** rng.randint(0, 3)      # (no row sign flips: zero components of M x take the sign +1)
        return "long5", [[sc * base[pr[i]][pc[j]] for j in range(8)] for i in range(8)]
    def val():
        return rng.randint(-6, 6)
    M = [[0] * n for _ in range(n)]
    if kind == "rand":
        M = [[val() for _ in range(n)] for _ in range(n)]
    elif kind == "sparse":
        for i in range(n):
            for j in range(n):
                if rng.random() < 0.3:
                    M[i][j] = val()
    elif kind == "rank1":
        a = [val() for _ in range(n)]; b = [rng.randint(-3, 3) for _ in range(n)]
        M = [[a[i] * b[j] for j in range(n)] for i in range(n)]
    elif kind == "diagdom":
        M = [[(rng.randint(8, 40) if i == j else rng.randint(-1, 1)) for j in range(n)] for i in range(n)]
    elif kind == "perm":
        p = list(range(n)); rng.shuffle(p)
        for i in range(n):
            M[i][p[i]] = rng.choice([-1, 1]) * 2 ** rng.randint(0, 5)
    elif kind == "ties":
        M = [[rng.choice([-1, 1]) for _ in range(n)] for _ in range(n)]
    elif kind == "neg":
        M = [[-abs(val()) for _ in range(n)] for _ in range(n)]
    elif kind == "wide":
        M = [[rng.randint(-1000, 1000) for _ in range(n)] for _ in range(n)]
    else:
        M = [[rng.randint(1, 9) * (1 if (i + j) % 2 == 0 else -1) * (n - abs(i - j)) for j in range(n)] for i in range(n)]
    if cplx:
        # axis-aligned complex operator: every ROW is real or purely imaginary, so M x is axis-aligned for real x
        rows_im = [rng.random() < 0.5 for _ in range(n)]
        Mc = [[((0, M[i][j]) if rows_im[i] else (M[i][j], 0)) for j in range(n)] for i in range(n)]
        return kind, Mc
    return kind, M


def lacon_script(n, M, cplx):
    toks = []
    for i in range(n):
        for j in range(n):
            if cplx:
                toks.append(float(M[i][j][0]).hex()); toks.append(float(M[i][j][1]).hex())
            else:
                toks.append(float(M[i][j]).hex())
    return "lacon %d %s\n" % (n, " ".join(toks))


def lacon_engine_text(cid, n, M, cplx):
    toks = []
    for i in range(n):
        for j in range(n):
            if cplx:
                toks.append("%d 0 %d 0" % (M[i][j][0], M[i][j][1]))
            else:
                toks.append("%d 0" % M[i][j])
    return "%s %s %d %s\n" % ("clacon" if cplx else "lacon", cid, n, " ".join(toks))


def parse_engine(text):
    """-> {id: {"ev": [dict], "final": {...}}}"""
    res = {}
    for line in text.split("\n"):
        t = line.split()
        if not t:
            continue
        if t[0] == "ev":
            d = res.setdefault(t[1], {"ev": []})
            xi = t.index("x")
            d["ev"].append({"kase": int(t[4]), "jump": int(t[6]), "j": int(t[8]), "tie": int(t[10]), "est": R.parse_frac(t[12]),
                            "x": [R.parse_frac(z) for z in t[xi + 1:]]})
        elif t[0] in ("lacon", "clacon", "gscon", "growth", "langs", "tail"):
            d = res.setdefault(t[1], {"ev": []})
            d["final"] = t[2:]
    return res


def apply_exact(M, x, kase, cplx):
    n = len(M)
    if not cplx:
        if kase == 1:
            return [sum(F(M[i][j]) * x[j] for j in range(n)) for i in range(n)]
        return [sum(F(M[i][j]) * x[i] for i in range(n)) for j in range(n)]
    def c(v): return R.CF(v[0], v[1])
    if kase == 1:
        return [sum((c(M[i][j]) * x[j] for j in range(n)), R.CF()) for i in range(n)]
    return [sum((c(M[i][j]).conj() * x[i] for i in range(n)), R.CF()) for j in range(n)]


def dialogue_margins(n, M, evs, cplx):
    """(gap_main, gap_final): smallest relative gap of the data-dependent decisions the model took before / in the
    final stage (exact arithmetic; 0 = exact tie)"""
    gaps = []; gfinal = F(1)
    est_prev = F(0)
    for k in range(1, len(evs)):
        prev = evs[k - 1]
        xs = prev["x"]
        if cplx:
            xs = [R.CF(xs[2 * i], xs[2 * i + 1]) for i in range(n)]
        y = apply_exact(M, xs, prev["kase"], cplx)
        mods = [(abs(v.re) + abs(v.im)) if cplx else abs(v) for v in y]
        keys = [abs(v.re) if cplx else abs(v) for v in y]        # what i?amax / i?max1 looks at
        mx = max(mods) if mods else F(0)
        jmp = prev["jump"]
        if jmp in (1, 3) and n > 1:
            gaps.append(min(m / mx for m in mods) if mx > 0 else F(0))   # a tiny / zero component decides a sign (or a direction)
            if jmp == 3:
                est_new = sum(mods)
                if max(est_new, est_prev) > 0:
                    gaps.append(abs(est_new - est_prev) / max(est_new, est_prev))
        if jmp in (2, 4):
            km = max(keys) if keys else F(0)
            srt = sorted(keys, reverse=True)
            if km > 0 and len(srt) > 1:
                gaps.append((srt[0] - srt[1]) / km)
            elif km == 0 and n > 1:
                gaps.append(F(0))
        if jmp == 5:
            temp = sum(mods) / (3 * n) * 2
            if max(temp, est_prev) > 0:
                gfinal = abs(temp - est_prev) / max(temp, est_prev)
        if jmp != 5:
            est_prev = evs[k]["est"]
    return (min(gaps) if gaps else F(1)), gfinal


def check_dialogue(ctx, cov, prec, n, kind, M, clog, mev, cplx):
    """compare the C dialogue (list of lc tuples) with the model events"""
    p = R.PBITS[prec]; u = F(1, 2 ** p)
    pow2 = n & (n - 1) == 0
    rep = {"prec": prec, "n": n, "kind": kind, "M": M, "c_dialogue": [(l[1], l[2], l[3].hex(), [z.hex() for z in l[4]]) for l in clog],
           "model": [(e["kase"], e["jump"], e["j"], str(e["est"])) for e in mev]}
    def fail(key, what):
        ctx.violation("lacon-dialogue:" + key, "%s prec=%s n=%d kind=%s" % (what, prec, n, kind), rep)
        cov["fail"] += 1
    thr = MARGIN_K * n * u
    gmain, gfinal = dialogue_margins(n, M, mev, cplx)
    nfinal = next((k for k, e in enumerate(mev) if e["jump"] == 5 and e["kase"] == 1), None)
    if pow2 and not cplx:
        # exact regime: every operation before the final stage is exact on both sides
        tie_seen = False
        stop = nfinal if nfinal is not None else len(mev)
        for k in range(stop):
            tie_seen = tie_seen or bool(mev[k]["tie"])
            if k >= len(clog):
                return fail("kase", "C dialogue shorter than the model's")
            l, e = clog[k], mev[k]
            if l[2] != e["kase"] or [F(z) for z in l[4]] != e["x"] or F(l[3]) != e["est"]:
                if tie_seen:
                    cov["ambiguous_amax_tie"] += 1
                    return
                return fail("value", "call %d differs bit-for-bit (est C=%s model=%s)" % (k, F(l[3]), e["est"]))
            cov["exact_calls"] += 1
        if len(clog) != len(mev):
            return fail("kase", "number of calls differs C=%d model=%d" % (len(clog), len(mev)))
        if nfinal is not None:
            l, e = clog[nfinal], mev[nfinal]
            if l[2] != 1 or any(abs(F(a) - b) > 3 * u * abs(b) for a, b in zip(l[4], e["x"])) or F(l[3]) != e["est"]:
                return fail("request", "alternating-sign request differs beyond 3u")
            l, e = clog[-1], mev[-1]
            if l[2] != 0:
                return fail("kase", "last call does not end the dialogue")
            if gfinal < thr:
                cov["ambiguous_final"] += 1
            else:
                took = e["est"] != mev[nfinal]["est"]
                if (took and abs(F(l[3]) - e["est"]) > 8 * n * u * e["est"]) or (not took and F(l[3]) != e["est"]):
                    return fail("est", "final estimate differs (C=%s model=%s, temp taken=%s)" % (F(l[3]), e["est"], took))
                cov["final_taken" if took else "final_kept"] += 1
        cov["dialogues_agree"] += 1
        cov["calls_hist"][str(len(mev))] += 1
        return
    # rounded regime
    if min(gmain, gfinal) < thr:
        cov["ambiguous_margin"] += 1
        return
    if [l[2] for l in clog] != [e["kase"] for e in mev]:
        return fail("kase", "kase sequence differs outside the margin C=%s model=%s" % ([l[2] for l in clog], [e["kase"] for e in mev]))
    for k, (l, e) in enumerate(zip(clog, mev)):
        cx = [F(z) for z in l[4]]
        if e["kase"] == 1 or (e["kase"] == 2 and not cplx):
            if any(abs(a - b) > 3 * u * abs(b) for a, b in zip(cx, e["x"])):
                return fail("request", "request vector of call %d differs" % k)
        if abs(F(l[3]) - e["est"]) > 8 * n * u * abs(e["est"]):
            return fail("est", "est of call %d differs beyond 8nu (C=%s model=%s)" % (k, F(l[3]), e["est"]))
        cov["rounded_calls"] += 1
    cov["dialogues_agree"] += 1
    cov["calls_hist"][str(len(mev))] += 1


def part_lacon(ctx, exes, ncases):
    rng = random.Random(ctx.seed * 7919 + 12)
    cases = []
    for t in range(ncases):
        prec = rng.choice("sdcz")
        cplx = prec in "cz"
        n = rng.choice([1, 2, 2, 4, 4, 8, 8, 16, 32, 3, 5, 6, 7, 10, 12])
        kind, M = gen_operator(rng, n, cplx)
        cases.append((t, prec, n, kind, M, cplx))
    cov = Counter(); cov["calls_hist"] = Counter()
    # model side, batched
    text = "".join(lacon_engine_text("a%d" % t, n, M, cplx) for (t, prec, n, kind, M, cplx) in cases)
    model = parse_engine(C.run_sludrv("lacon", text))
    def one(c):
        t, prec, n, kind, M, cplx = c
        r = R.run_ext(exes[prec], "quit\n", lacon_script(n, M, cplx))
        return r
    with ThreadPoolExecutor(C.NPROC) as ex:
        outs = list(ex.map(one, cases))
    samples = []
    for c, r in zip(cases, outs):
        t, prec, n, kind, M, cplx = c
        cov["dialogues"] += 1; cov["prec=" + prec] += 1; cov["kind=" + kind] += 1; cov["n=%d" % n] += 1
        ops, done = R.parse_ext(r["ext_text"])
        if r["rc"] != 0 or not done or not ops:
            ctx.violation("lacon-dialogue:crash", "h_con crashed rc=%s %s" % (r["rc"], r["err"][-200:]), {"prec": prec, "n": n, "M": M})
            cov["fail"] += 1
            continue
        clog = [l for l in ops[0]["logs"] if l[0] == "lc"]
        mev = model["a%d" % t]["ev"]
        check_dialogue(ctx, cov, prec, n, kind, M, clog, mev, cplx)
        # theorem instances on the model side: lower <= est <= norm1 (real)
        fin = model["a%d" % t].get("final")
        if fin and not cplx:
            est = R.parse_frac(fin[1]); n1 = R.parse_frac(fin[5]); lo = R.parse_frac(fin[7])
            if not (lo <= est <= n1):
                ctx.violation("lacon-model-bounds", "model run violates its own theorem: %s <= %s <= %s" % (lo, est, n1), {"n": n, "M": M})
            if est == n1:
                cov["est_exact_norm"] += 1
        if len(samples) < 3:
            samples.append({"prec": prec, "n": n, "kind": kind, "calls": len(mev), "est": str(mev[-1]["est"])})
    return cov, samples


# ====================================================================== exact inverse (integers, fraction-free)
def bareiss_inverse(Ai):
    """integer matrix -> (d, Adj) with Ai^-1 = Adj / d (fraction-free Gauss-Jordan); None if singular"""
    n = len(Ai)
    M = [list(r) + [1 if i == j else 0 for j in range(n)] for i, r in enumerate(Ai)]
    prev = 1
    for k in range(n):
        p = next((r for r in range(k, n) if M[r][k] != 0), None)
        if p is None:
            return None
        if p != k:
            M[k], M[p] = M[p], M[k]
        pk = M[k][k]; rk = M[k]
        for i in range(n):
            if i != k:
                ri = M[i]; f = ri[k]
                if f == 0:
                    M[i] = [(pk * a) // prev for a in ri] if prev != 1 or pk != 1 else ri
                else:
                    M[i] = [(pk * a - f * b) // prev for a, b in zip(ri, rk)]
        prev = pk
    return prev, [r[n:] for r in M]


def int_scale(vals):
    """floats -> (ints, E) with v = int * 2^E"""
    ds = [D.dy(v) for v in vals]
    if any(d is None for d in ds):
        raise D.NonFinite()
    E = min([0] + [e for (m, e) in ds if m != 0])
    return [m * (1 << (e - E)) if m else 0 for (m, e) in ds], E


def isqrt_bounds(q2):
    """integer q2 >= 0 -> (lo, hi) integers with lo <= sqrt(q2) <= hi  (after scaling by 2^64 for relative accuracy)"""
    r = math.isqrt(q2 << 128)
    return F(r, 1 << 64), F(r + 1, 1 << 64)


def exact_norms(n, entries, cplx):
    """entries: dict (i,j) -> float or (re,im) of the user's equilibrated matrix.  Returns dict with exact
    (lo,hi) bounds of ||A||_1, ||A||_inf, ||A^-1||_1, ||A^-1||_inf, ||A^-1 e/n||_1, ||A^-T e/n||_1; None if singular."""
    keys = sorted(entries)
    flat = []
    for k in keys:
        v = entries[k]
        flat += [v[0], v[1]] if cplx else [v]
    ints, E = int_scale(flat)
    m = 2 * n if cplx else n
    Ai = [[0] * m for _ in range(m)]
    for t, (i, j) in enumerate(keys):
        if cplx:
            re, im = ints[2 * t], ints[2 * t + 1]
            Ai[i][j] += re; Ai[n + i][n + j] += re; Ai[n + i][j] += im; Ai[i][n + j] -= im
        else:
            Ai[i][j] += ints[t]
    r = bareiss_inverse(Ai)
    if r is None:
        return None
    d, Adj = r
    sc = F(2) ** E                       # A = Ai * 2^E ;  A^-1 = Adj / (d * 2^E)
    def mod_bounds_int(re, im):
        if im == 0:
            return F(abs(re)), F(abs(re))
        if re == 0:
            return F(abs(im)), F(abs(im))
        return isqrt_bounds(re * re + im * im)
    # moduli of A and of Adj
    def amod(i, j):
        if cplx:
            return mod_bounds_int(Ai[i][j], Ai[n + i][j])
        return F(abs(Ai[i][j])), F(abs(Ai[i][j]))
    def imod(i, j):
        if cplx:
            return mod_bounds_int(Adj[i][j], Adj[n + i][j])
        return F(abs(Adj[i][j])), F(abs(Adj[i][j]))
    def norm1(mod):
        lo = hi = F(0)
        for j in range(n):
            sl = sh = F(0)
            for i in range(n):
                a, b = mod(i, j); sl += a; sh += b
            lo = max(lo, sl); hi = max(hi, sh)
        return lo, hi
    a1 = norm1(amod); ai = norm1(lambda i, j: amod(j, i))
    i1 = norm1(imod); ii = norm1(lambda i, j: imod(j, i))
    # A^-1 e / n : row sums of Adj (complex: sum complex entries first)
    def esum(rows):
        sl = sh = F(0)
        for i in range(n):
            if cplx:
                re = sum(Adj[i][j] if rows else Adj[j][i] for j in range(n))
                im = sum(Adj[n + i][j] if rows else Adj[n + j][i] for j in range(n))
                a, b = mod_bounds_int(re, im)
            else:
                v = sum(Adj[i][j] if rows else Adj[j][i] for j in range(n))
                a = b = F(abs(v))
            sl += a; sh += b
        return sl / n, sh / n
    e1 = esum(True); eT = esum(False)
    ad = abs(d)
    inv = lambda t: (t[0] / (ad * sc), t[1] / (ad * sc))
    return {"A1": (a1[0] * sc, a1[1] * sc), "Ainf": (ai[0] * sc, ai[1] * sc), "inv1": inv(i1), "invinf": inv(ii),
            "inve": inv(e1), "invTe": inv(eT)}


# ====================================================================== part C: oracle on the expert driver
def conditioned_matrix(rng, n, prec, mode):
    cplx = prec in "cz"
    p = R.PBITS[prec]
    kind = rng.choice(["random", "random", "dense", "band", "arrow", "tridiag", "blockdiag", "forest", "randzd"])
    dens = rng.choice([0.1, 0.2, 0.4])
    M = G.random_matrix(rng, n, kind, rng.choice(["float", "float", "int"]), cplx=cplx, density=dens)
    info = {"kind": M.kind, "mode": mode}
    if mode == "scale":
        span = rng.randint(4, p - 14)
        rs = [2.0 ** int(round(span * rng.random() * rng.choice([0, 1, 1]))) for _ in range(n)]
        cs = [2.0 ** (-int(round(span * rng.random() * rng.choice([0, 1])))) for _ in range(n)]
        for j in range(n):
            for k in range(M.colptr[j], M.colptr[j + 1]):
                f = rs[M.rowind[k]] * cs[j]
                M.vals[k] = (M.vals[k][0] * f, M.vals[k][1] * f) if cplx else M.vals[k] * f
        info["span"] = span
    elif mode in ("nearsing", "singular_wp") and n >= 3:
        t = rng.randint(2, p - 12) if mode == "nearsing" else rng.randint(p - 1, p + 12)
        delta = 2.0 ** (-t)
        Dn = {}
        for j, col in M.cols():
            for i, v in col:
                Dn[(i, j)] = complex(*v) if cplx else v
        k, a, b = rng.sample(range(n), 3)
        for i in range(n):
            v = Dn.get((i, a), 0) + Dn.get((i, b), 0) + delta * Dn.get((i, k), 0)
            if v != 0:
                Dn[(i, k)] = v
            elif (i, k) in Dn:
                del Dn[(i, k)]
        pat = set(Dn)
        kindname = M.kind
        M = G.from_pattern(n, pat, (lambda i, j: (Dn[(i, j)].real, Dn[(i, j)].imag)) if cplx else (lambda i, j: Dn[(i, j)]), cplx)
        M.kind = kindname
        info["t"] = t
    if prec in "sc":
        G.round_single(M)
    return M, info


def stair_matrix(rng, cplx):
    """a single-column supernode followed by 3-column supernodes that all reach into the next block (with maxsuper = 3):
    the structure on which the supernodal lower solve of sp_?trsv walks single -> multi -> multi"""
    bs = [1] + [3] * rng.randint(3, 4)
    st = [0]
    for b in bs:
        st.append(st[-1] + b)
    n = st[-1]; pat = set()
    for k in range(len(bs)):
        rows = list(range(st[k], st[k + 1])); nxt = list(range(st[k + 1], st[k + 2])) if k + 1 < len(bs) else []
        for j in rows:
            for i in rows + nxt:
                pat.add((i, j))
            for i in rows:
                pat.add((j, i))
    gv = lambda: rng.choice([-1, 1]) * (0.2 + rng.random())
    dg = lambda: 1.5 + rng.random()
    if cplx:
        M = G.from_pattern(n, pat, lambda i, j: ((dg(), rng.random()) if i == j else (gv(), gv())), True)
    else:
        M = G.from_pattern(n, pat, lambda i, j: (dg() if i == j else gv()), False)
    M.kind = "stair"
    return M


def oracle_case(ctx_seed, t, prec, quick):
    rng = random.Random(ctx_seed * 1000003 + 7 * t + 1)
    cplx = prec in "cz"
    n = rng.choice([1, 2, 3, 4, 5, 6, 8, 10, 12, 16, 20] + ([24, 32, 40] if not quick or rng.random() < 0.3 else [7, 9]))
    if cplx and n > (16 if quick else 24):
        n = rng.choice([11, 13, 14, 16])     # exact complex inverse = 2n x 2n integer elimination
    mode = rng.choice(["plain", "plain", "scale", "scale", "nearsing", "nearsing", "singular_wp"])
    order_focus = (not cplx) and rng.random() < 0.25
    if order_focus:
        # wide elimination forests factored by several threads with tiny panels: supernode numbers are handed out in
        # completion order (the rpg clause is exact and cheap, the inverse is skipped above n = 40)
        n = rng.randint(20, 56); mode = "order"
        M = G.random_matrix(rng, n, rng.choice(["forest", "forest", "blockdiag"]), "float", cplx=False)
        if prec == "s":
            G.round_single(M)
        minfo = {}
    elif rng.random() < 0.12:
        mode = "stair"
        M = stair_matrix(rng, cplx); n = M.n; minfo = {}
        if prec in "sc":
            G.round_single(M)
    else:
        M, minfo = conditioned_matrix(rng, n, prec, mode)
    trans = rng.choice([0, 0, 1, 1, 2])
    cfg = {"t": t, "prec": prec, "n": n, "stype": rng.choice(["NC", "NC", "NR"]), "trans": trans, "fact": rng.choice([0, 1, 1]),
           "u": rng.choice([1.0, 1.0, 0.5, 0.1, round(0.1 + 0.9 * rng.random(), 3)]), "nprocs": rng.choice([1, 1, 2, 4]),
           "colperm": rng.randint(0, 3), "panel": rng.choice([1, 2, 8]), "relax": rng.choice([1, 2, 4]), "nrhs": rng.choice([1, 1, 2]),
           "mode": mode, "kind": M.kind, "perturb": 0, "gen": ["oracle", ctx_seed, t, prec, bool(quick)]}
    if mode == "stair":
        cfg.update({"colperm": 0, "relax": 1, "maxsuper": 3, "fact": 0, "u": 1.0, "trans": rng.choice([0, 1])})
    if order_focus:
        cfg.update({"nprocs": rng.choice([2, 4, 8]), "panel": rng.choice([1, 2]), "relax": rng.choice([1, 2]), "colperm": 0, "perturb": 3, "fact": 0})
    cfg.update({k: v for k, v in minfo.items() if k in ("span", "t")})
    rhs = [[((rng.uniform(-1, 1), rng.uniform(-1, 1)) if cplx else rng.uniform(-1, 1)) for _ in range(n)] for _ in range(cfg["nrhs"])]
    if prec in "sc":
        r1 = lambda x: __import__("struct").unpack("f", __import__("struct").pack("f", x))[0]
        rhs = [[((r1(v[0]), r1(v[1])) if cplx else r1(v)) for v in col] for col in rhs]
    return cfg, M, rhs


def oracle_script(cfg, M, rhs):
    single = cfg["prec"] in "sc"
    s = "ienv %d %d %d %d %d -50 -50 -30\n" % (cfg["panel"], cfg["relax"], cfg.get("maxsuper") or max(cfg["relax"], 8), 4, 2)
    s += "perturb %d %d\n" % (cfg.get("perturb", 0), cfg["t"] + 1)
    s += G.script_mat(0, M, nr=(cfg["stype"] == "NR"), single=single)
    s += G.script_rhs(0, cfg["n"], cfg["nrhs"], cfg["n"], rhs, M.cplx, single)
    s += "permc_get 0 %d\n" % cfg["colperm"]
    s += "gssvx 0 0 %d %d %d 0 0 %s %d %d 0 0\n" % (cfg["nprocs"], cfg["fact"], cfg["trans"], float(cfg["u"]).hex(), cfg["panel"], cfg["relax"])
    s += "quit\n"
    return s


def user_entries(cfg, M, aval):
    """the user's (equilibrated) matrix from the values the driver left in A, in storage order"""
    cplx = M.cplx
    vals = [(aval[2 * k], aval[2 * k + 1]) for k in range(len(aval) // 2)] if cplx else aval
    ent = {}
    if cfg["stype"] == "NR":
        ptr, ind, _ = M.to_rows()
        for i in range(M.n):
            for k in range(ptr[i], ptr[i + 1]):
                ent[(i, ind[k])] = vals[k]
    else:
        for j in range(M.n):
            for k in range(M.colptr[j], M.colptr[j + 1]):
                ent[(M.rowind[k], j)] = vals[k]
    return ent


def growth_exact(cfg, n, ent, res, cplx, use_abs1, code_order, ncols):
    """(lo, hi) bounds of min_j max|AA_.j| / max|U_.j| over the first ncols columns, from the returned factors.
    AA = user's A for NC, its transpose for NR.  code_order=True mirrors the supernode-number loop with its break."""
    def mod(v):
        if not cplx:
            return F(abs(F(v))), F(abs(F(v)))
        re, im = F(v[0]), F(v[1])
        if use_abs1:
            return abs(re) + abs(im), abs(re) + abs(im)
        return R.absv(R.CF(re, im))
    nr = cfg["stype"] == "NR"
    amax = [(F(0), F(0))] * n
    for (i, j), v in ent.items():
        c = i if nr else j
        a, b = mod(v)
        amax[c] = (max(amax[c][0], a), max(amax[c][1], b))
    pc = res["perm_c"]; inv = [0] * n
    for j in range(n):
        inv[pc[j]] = j
    def pairs(vals):
        return [(vals[2 * k], vals[2 * k + 1]) for k in range(len(vals) // 2)] if cplx else vals
    umax = [(F(0), F(0))] * n
    for j, (rows, vals) in enumerate(res["Ucol"]):
        for v in pairs(vals):
            a, b = mod(v); umax[j] = (max(umax[j][0], a), max(umax[j][1], b))
    sups = [s for s in res["Lsup"] if s is not None]
    for s in sups:
        for j in range(s["f"], s["e"]):
            b_, vals = res["Lcol"][j]
            for v in pairs(vals)[: j - s["f"] + 1]:
                a, b = mod(v); umax[j] = (max(umax[j][0], a), max(umax[j][1], b))
    cols = []
    if code_order:
        for s in sorted(sups, key=lambda s: s["s"]):
            for j in range(s["f"], s["e"]):
                if j < ncols:
                    cols.append(j)
            if s["e"] >= ncols:
                break
    else:
        cols = list(range(ncols))
    lo = hi = None
    for j in cols:
        if umax[j][1] == 0:
            ql = qh = F(1)
        else:
            a = amax[inv[j]]
            ql = a[0] / umax[j][1]; qh = a[1] / umax[j][0] if umax[j][0] > 0 else None
        lo = ql if lo is None else min(lo, ql)
        hi = qh if hi is None else (None if qh is None or hi is None else min(hi, qh))
    return lo, hi, len(cols)


def judge_oracle(ctx, cov, cfg, M, rhs, rec):
    prec, n = cfg["prec"], cfg["n"]; cplx = M.cplx
    p = R.PBITS[prec]; u = F(1, 2 ** p); eps = u
    rep = {"cfg": cfg, "script": oracle_script(cfg, M, rhs)}
    ops = rec["base_ops"]
    if rec["rc"] != 0 or not rec["base_done"] or not ops:
        ctx.violation("gssvx-oracle:crash", "harness crashed rc=%s prec=%s n=%d %s" % (rec["rc"], prec, n, rec["err"][-200:]), rep)
        cov["crash"] += 1
        return
    r = ops[0]
    info = r["info"]
    real_conj = (not cplx) and cfg["trans"] == 2
    cov["info=%s" % ("0" if info == 0 else "n+1" if info == n + 1 else "singular" if 0 < info <= n else "other")] += 1
    if info < 0 or info > n + 1:
        ctx.violation("gssvx-oracle:info", "unexpected info=%d prec=%s n=%d" % (info, prec, n), rep)
        return
    if 0 < info <= n:
        # the driver claims U(info,info) is exactly zero: confirm it on the returned factors (a warning code that is not
        # n+1 must not masquerade as exact singularity)
        cov["exactly_singular"] += 1
        j = info - 1
        for s_ in (r.get("Lsup") or []):
            if s_ is not None and s_["f"] <= j < s_["e"] and j in r["Lcol"]:
                vals = r["Lcol"][j][1]; k = j - s_["f"]
                dv = (vals[2 * k], vals[2 * k + 1]) if cplx else (vals[k],)
                cov["singular_diag_checked"] += 1
                if any(v != 0 for v in dv):
                    ctx.violation("info-n+1:bogus-singular", "info=%d <= n=%d but U(%d,%d)=%s is not zero (rcond=%s) prec=%s" % (
                        info, n, info, info, dv, r.get("rcond"), prec), rep)
        return
    rcond = r["rcond"]; rpg = r["rpg"]
    if rcond != rcond or rpg != rpg:
        cov["nan"] += 1
        return
    # ---- info = n+1  <=>  rcond < eps ; X / ferr / berr still produced
    if (info == n + 1) != (F(rcond) < eps):
        ctx.violation("info-n+1", "info=%d but rcond=%s eps=2^-%d prec=%s n=%d" % (info, float(rcond).hex(), p, prec, n), rep)
        cov["fail"] += 1
    if info == n + 1:
        cov["singular_to_wp"] += 1
    if cfg["nrhs"] > 0 and not real_conj:
        produced = r.get("X.same") == 0 and all(v >= 0 for v in r["ferr"]) and all(v >= 0 for v in r["berr"])
        if not produced:
            ctx.violation("info-n+1:outputs", "X/ferr/berr not produced (info=%d) prec=%s n=%d X.same=%s ferr=%s berr=%s" % (
                info, prec, n, r.get("X.same"), r["ferr"], r["berr"]), rep)
            cov["fail"] += 1
        elif info == n + 1:
            cov["n+1_with_outputs"] += 1
    # ---- rcond two-sided bound
    ent = user_entries(cfg, M, r["A.val"])
    try:
        nm = exact_norms(n, ent, cplx) if n <= 40 else "skip"
    except D.NonFinite:
        cov["nonfinite"] += 1
        return
    if nm == "skip":
        cov["inverse_skipped_n>40"] += 1
    elif nm is None:
        cov["exactly_singular_eq"] += 1
    else:
        if cfg["trans"] == 0:
            A_, I_, e_ = nm["A1"], nm["inv1"], nm["inve"]
        else:
            A_, I_, e_ = nm["Ainf"], nm["invinf"], nm["invTe"]
        kappa_hi = A_[1] * I_[1]
        cov["cond_decade=%02d" % min(40, int(math.log10(max(1.0, float(kappa_hi)))))] += 1
        if kappa_hi * 1000 * eps <= 1:
            # slack: the estimator sees A^-1 through computed triangular solves, whose relative error is of order
            # cond*n*u; (1 +- SL) with SL = 100*n*u*(1 + cond)   (stated in evidence)
            SL = 100 * n * u * (1 + kappa_hi)
            rc = F(rcond)
            lower = (1 / (A_[1] * I_[1])) * (1 - SL)
            upper = (1 / (A_[0] * e_[0])) * (1 + SL) if e_[0] > 0 else None
            cov["rcond_checked"] += 1
            cov["norm=%s" % ("1" if cfg["trans"] == 0 else "I")] += 1
            if rc < lower:
                ctx.violation("rcond-bound:lower:%s" % ("cplx" if cplx else "real"), "rcond=%g < 1/(|A||A^-1|)=%g *(1-%g) prec=%s n=%d trans=%d stype=%s fact=%d equed=%s" % (
                    rcond, float(1 / kappa_hi), float(SL), prec, n, cfg["trans"], cfg["stype"], cfg["fact"], r.get("equed")), rep)
                cov["fail"] += 1
            elif upper is not None and rc > upper:
                ctx.violation("rcond-bound:upper:%s" % ("cplx" if cplx else "real"), "rcond=%g > 1/(|A||A^-1 e/n|)=%g *(1+%g) prec=%s n=%d trans=%d stype=%s fact=%d equed=%s" % (
                    rcond, float(1 / (A_[0] * e_[0])), float(SL), prec, n, cfg["trans"], cfg["stype"], cfg["fact"], r.get("equed")), rep)
                cov["fail"] += 1
            else:
                # how sharp: rcond * cond in (0,1]
                q = float(rc * kappa_hi)
                cov["sharp>=0.99" if q >= 0.99 else "sharp>=0.5" if q >= 0.5 else "sharp<0.5"] += 1
                # would the OTHER norm have passed?  (discriminating power of the norm-selection clause)
                B_, J_, f_ = (nm["Ainf"], nm["invinf"], nm["invTe"]) if cfg["trans"] == 0 else (nm["A1"], nm["inv1"], nm["inve"])
                lo2 = (1 / (B_[1] * J_[1])) * (1 - SL); up2 = (1 / (B_[0] * f_[0])) * (1 + SL) if f_[0] > 0 else None
                if rc < lo2 or (up2 is not None and rc > up2):
                    cov["norm_discriminated"] += 1
        else:
            cov["cond_beyond_range"] += 1
    # ---- pivot growth from the returned factors
    if r.get("noLU") or "Lsup" not in r or not r["Lsup"] or real_conj:
        cov["no_lu_dump"] += 1
        return
    model_spec_differs = False
    if not cplx:
        # the model of ?PivotGrowth (code order) and of the info decision on this very output
        if cfg["stype"] == "NR":
            ptr, ind, _ = M.to_rows()
        else:
            ptr, ind = M.colptr, M.rowind
        try:
            txt = "growth G %d 1 %d\n%spermc %d %s\n%s" % (n, 1022 if prec == "d" else 126, R.nc_text(n, ptr, ind, r["A.val"]), n,
                                                           " ".join(map(str, r["perm_c"])), R.lu_text(r))
            txt += "tail T %d 0 %s 1 %d\n" % (n, R.dy(rcond), -p)
            mo = parse_engine(C.run_sludrv("lacon", txt))
            f = mo["G"]["final"]
            mv = R.parse_frac(f[1]); model_spec_differs = R.parse_frac(f[3]) != mv
            cov["model_growth_compared"] += 1
            if f[7] != "1":
                ctx.violation("corr:udecode", "column maxima of U used by the growth loop differ from the decoded dense U (entryU)", rep)
            if R.rn(mv, p) != F(rpg):
                ctx.violation("corr:growth", "?PivotGrowth via the driver: C=%s model=%s prec=%s n=%d" % (F(rpg), mv, prec, n), rep)
            tl = mo["T"]["final"]
            cov["model_tail_compared"] += 1
            if int(tl[1]) != info or tl[3] != "1":
                ctx.violation("corr:tail", "info decision: C info=%d model=%s" % (info, tl), rep)
        except D.NonFinite:
            cov["nonfinite_lu"] += 1
    if n <= 16 and nm not in (None, "skip"):
        # the estimator's first candidate is ||(LU)^-1 e/n||_1 (norm '1') or ||(LU)^-T e/n||_1 (norm 'I'; ?gscon uses the plain
        # transpose): recompute it exactly from the returned factors — a direct test of the triangular solves behind ?gscon
        lcs = [l for l in R.parse_logs(rec["base_text"]) if l[0] == "lc"]
        if len(lcs) >= 2 and lcs[0][1] == 0:
            zero = R.CF() if cplx else F(0); one = R.CF(1) if cplx else F(1)
            Lm = [[(one if i == j else zero) for j in range(n)] for i in range(n)]
            Um = [[zero for _ in range(n)] for _ in range(n)]
            def val(vals, k):
                return R.CF(F(vals[2 * k]), F(vals[2 * k + 1])) if cplx else F(vals[k])
            for s_ in r["Lsup"]:
                for j in range(s_["f"], s_["e"]):
                    vals = r["Lcol"][j][1]
                    for k, row in enumerate(s_["rows"]):
                        if k <= j - s_["f"]:
                            Um[row][j] = val(vals, k)
                        else:
                            Lm[row][j] = val(vals, k)
            for j, (rows, vals) in enumerate(r["Ucol"]):
                for k, row in enumerate(rows):
                    Um[row][j] = val(vals, k)
            b0 = [(R.CF(F(1, n)) if cplx else F(1, n)) for _ in range(n)]
            notran_flip = (cfg["trans"] == 0) != (cfg["stype"] == "NR")
            if notran_flip:
                y = R.solve_exact(Lm, b0); z = R.solve_exact(Um, y) if y is not None else None
            else:
                y = R.solve_exact(R.transpose(Um), b0); z = R.solve_exact(R.transpose(Lm), y) if y is not None else None
            if z is not None:
                zl, zh = R.vec1_bounds(z)
                e1 = F(lcs[1][3])
                kap = (nm["A1"][1] * nm["inv1"][1]) if cfg["trans"] == 0 else (nm["Ainf"][1] * nm["invinf"][1])
                SLc = 100 * n * u * (1 + kap)
                cov["first_candidate_checked"] += 1
                if kap * 1000 * eps <= 1 and (e1 < zl * (1 - SLc) or e1 > zh * (1 + SLc)):
                    key = "gscon-candidate:%s" % ("cplx" if cplx else "real")
                    cov[key] += 1
                    ctx.violation(key, "first estimate of ?gscon %g but ||(LU)^-%s e/n||_1 = %g from the returned factors prec=%s n=%d kind=%s supernodes=%s" % (
                        float(e1), "1" if notran_flip else "T", float(zl), prec, n, cfg["kind"], [(s_["f"], s_["e"]) for s_ in r["Lsup"]]), rep)
    lo, hi, ncol = growth_exact(cfg, n, ent, r, cplx, False, False, n)
    slack = (2 if not cplx else 8) * u
    g = F(rpg)
    ok = lo is not None and g >= lo * (1 - slack) and (hi is None or g <= hi * (1 + slack))
    cov["rpg_checked"] += 1
    if not ok:
        # which reading of the code explains the value?
        sups = sorted([s for s in r["Lsup"] if s is not None], key=lambda s: s["s"])
        inorder = all(sups[k]["e"] <= sups[k + 1]["f"] for k in range(len(sups) - 1))
        lo2, hi2, nc2 = growth_exact(cfg, n, ent, r, cplx, cplx, True, n)
        explained = lo2 is not None and g >= lo2 * (1 - slack) and (hi2 is None or g <= hi2 * (1 + slack))
        lo3, hi3, _ = growth_exact(cfg, n, ent, r, cplx, cplx, False, n)
        abs1_only = lo3 is not None and g >= lo3 * (1 - slack) and (hi3 is None or g <= hi3 * (1 + slack))
        if cplx and abs1_only:
            key = "rpg-growth:cabs1"
        elif explained and not inorder:
            key = "rpg-growth:snode-order"
        else:
            key = "rpg-growth"
        cov[key] += 1
        ctx.violation(key, "rpg=%g but min_j max|A_j|/max|U_j| from the returned factors in [%g, %s] prec=%s n=%d nprocs=%d columns visited by the code=%d/%d" % (
            rpg, float(lo), "%g" % float(hi) if hi is not None else "inf", prec, n, cfg["nprocs"], nc2, n), rep)


class _Sub:
    def __init__(self):
        self.viol = []
    def violation(self, key, what, replay, no_input=False):
        self.viol.append((key, what, replay))


def _oracle_one(args):
    seed, t, prec, quick, exe = args
    cfg, M, rhs = oracle_case(seed, t, prec, quick)
    rec = R.run_ext(exe, oracle_script(cfg, M, rhs), "quit\n", log=True)
    cl = Counter(); sub = _Sub()
    try:
        judge_oracle(sub, cl, cfg, M, rhs, rec)
    except D.NonFinite:
        cl["nonfinite"] += 1
    return cfg, cl, sub.viol


def part_oracle(ctx, exes, ncases):
    from concurrent.futures import ProcessPoolExecutor
    cov = Counter()
    args = [(ctx.seed, t, "sdcz"[t % 4], ctx.quick(), exes["sdcz"[t % 4]]) for t in range(ncases)]
    with ProcessPoolExecutor(C.NPROC) as ex:
        outs = list(ex.map(_oracle_one, args, chunksize=4))
    for (cfg, cl, viol) in outs:
        cov.update(cl)
        cov["cases"] += 1
        for k in ("prec", "stype", "trans", "fact", "mode", "nprocs"):
            cov["%s=%s" % (k, cfg[k])] += 1
        for (key, what, replay) in viol:
            ctx.violation(key, what, replay)
    return cov, [o[0] for o in outs[:3]]


# ====================================================================== part B: real ?gscon / ?langs / ?PivotGrowth vs model
def exact_family_case(seed, t):
    """A = L0*U0 with small dyadic factors; with diag_pivot_thresh = 0 and natural ordering the library reproduces
    L0, U0 without any rounding, and the triangular solves of the estimator stay exact as well."""
    rng = random.Random(seed * 999983 + 31 * t + 5)
    prec = rng.choice("ddds")
    n = rng.choice([1, 2, 2, 3, 3, 4, 4, 5, 6, 8])
    dens = rng.choice([0.2, 0.4, 0.7])
    L0 = [[(1 if i == j else (rng.choice([-1, 1]) if (i > j and rng.random() < dens) else 0)) for j in range(n)] for i in range(n)]
    U0 = [[(rng.choice([1, -1, 2, -2, 0.5, -0.5]) if i == j else (rng.choice([-1, 1, 2]) if (i < j and rng.random() < dens) else 0)) for j in range(n)] for i in range(n)]
    A = [[sum(L0[i][k] * U0[k][j] for k in range(n)) for j in range(n)] for i in range(n)]
    pat = set((i, j) for i in range(n) for j in range(n) if A[i][j] != 0 or i == j)
    M = G.from_pattern(n, pat, lambda i, j: float(A[i][j]), False)
    M.kind = "exactLU"
    cfg = {"t": t, "prec": prec, "n": n, "nprocs": rng.choice([1, 1, 2, 3]), "panel": rng.choice([1, 2, 4]), "relax": rng.choice([1, 2, 4]),
           "ncols": rng.randint(0, n), "gen": ["corr", seed, t]}
    return cfg, M


def _corr_one(args):
    seed, t, exes = args
    cfg, M = exact_family_case(seed, t)
    prec, n = cfg["prec"], cfg["n"]; p = R.PBITS[prec]; u = F(1, 2 ** p)
    cl = Counter(); sub = _Sub()
    base = "ienv %d %d %d 4 2 -50 -50 -30\n" % (cfg["panel"], cfg["relax"], max(cfg["relax"], 8))
    base += G.script_mat(0, M, nr=False, single=prec == "s") + "rhs 0 %d 0 %d\n" % (n, n) + "permc_get 0 0\n"
    base += "gssvx 0 0 %d 0 0 0 0 %s %d %d 0 0\nquit\n" % (cfg["nprocs"], (0.0).hex(), cfg["panel"], cfg["relax"])
    Dm = R.dense_frac(M)
    a1 = max(sum(abs(Dm[i][j]) for i in range(n)) for j in range(n)); ai = max(sum(abs(v) for v in row) for row in Dm)
    ext = "langs 0 1\nlangs 0 I\nlangs 0 M\nlangs 0 o\ngrowth 0 %d\ngrowth 0 %d\ngscon 1 %s\ngscon I %s\ngscon O %s\nquit\n" % (
        n, cfg["ncols"], float(a1).hex(), float(ai).hex(), float(a1).hex())
    rec = R.run_ext(exes[prec], base, ext)
    rep = {"cfg": cfg, "base": base, "ext": ext}
    ops, done = R.parse_ext(rec["ext_text"])
    if rec["rc"] != 0 or not done or not rec["base_ops"]:
        sub.violation("corr:crash", "h_con crashed rc=%s %s" % (rec["rc"], rec["err"][-200:]), rep)
        return cfg, cl, sub.viol
    r = rec["base_ops"][0]
    if r["info"] != 0 and r["info"] != n + 1:
        cl["skipped_info"] += 1
        return cfg, cl, sub.viol
    # ---- model side
    lut = R.lu_text(r)
    permc = "permc %d %s\n" % (n, " ".join(map(str, r["perm_c"])))
    nct = R.nc_text(n, M.colptr, M.rowind, M.vals)
    rpg0 = "1 %d" % (1022 if prec == "d" else 126)
    txt = "langs L " + nct
    txt += "growth G0 %d %s\n%s%s%s" % (n, rpg0, nct, permc, lut)
    txt += "growth G1 %d %s\n%s%s%s" % (cfg["ncols"], rpg0, nct, permc, lut)
    for cid, letter, an in (("C1", "1", a1), ("CI", "I", ai), ("CO", "O", a1)):
        txt += "gscon %s %d %d %s\n%s" % (cid, ord(letter), n, R.dyF(an), lut)
    model = parse_engine(C.run_sludrv("lacon", txt))
    # ---- ?langs
    lm = model["L"]["final"]         # M v 1 v O v I v F v X v
    lv = {lm[i]: lm[i + 1] for i in range(0, len(lm), 2)}
    for k, letter in enumerate(["1", "I", "M", "O"]):
        cv = F(float.fromhex(ops[k]["value"][0])); mv = R.parse_frac(lv[letter])
        cl["langs_compared"] += 1
        if cv != mv:
            sub.violation("corr:langs", "?langs('%s') C=%s model=%s prec=%s n=%d" % (letter, cv, mv, prec, n), rep)
    if lv["F"] != "abort" or lv["X"] != "abort":
        sub.violation("corr:langs", "model does not abort on F / illegal norm", rep)
    # ---- ?PivotGrowth: one correctly rounded division, min/max exact
    for k, gid in ((4, "G0"), (5, "G1")):
        cv = F(float.fromhex(ops[k]["value"][0])); f = model[gid]["final"]
        mv = R.parse_frac(f[1]); spec = R.parse_frac(f[3])
        cl["growth_compared"] += 1
        if R.rn(mv, p) != cv:
            sub.violation("corr:growth", "?PivotGrowth C=%s model=%s (rounded %s) prec=%s n=%d ncols=%s" % (cv, mv, R.rn(mv, p), prec, n, n if gid == "G0" else cfg["ncols"]), rep)
        if spec != mv:
            cl["growth_spec_differs"] += 1
            if f[5] == "1":
                sub.violation("corr:growth-spec", "model loop differs from its specification although supernodes are in order", rep)
    # ---- ?gscon dialogue
    def grid_ok(vals, g, m):
        return all((F(v) * (1 << g)).denominator == 1 and abs(F(v)) <= (1 << m) for v in vals)
    g, m = (6, 6) if prec == "d" else (2, 2)
    luvals = [v for (_, vals) in r["Lcol"].values() for v in vals] + [v for (_, vals) in r["Ucol"] for v in vals]
    diag_ok = True
    for s_ in r["Lsup"]:
        for j in range(s_["f"], s_["e"]):
            dv = abs(r["Lcol"][j][1][j - s_["f"]])
            if dv == 0 or math.frexp(dv)[0] != 0.5:
                diag_ok = False
    for k, cid in ((6, "C1"), (7, "CI"), (8, "CO")):
        clog = [l for l in ops[k]["logs"] if l[0] == "lc"]
        mev = model[cid]["ev"]
        f = model[cid]["final"]           # info i rcond q
        c_rcond = F(float.fromhex(ops[k]["rcond"][0])); c_info = int(ops[k]["info"][0])
        cl["gscon_runs"] += 1
        if c_info != int(f[1]):
            sub.violation("corr:gscon-info", "info C=%d model=%s" % (c_info, f[1]), rep)
            continue
        exact = diag_ok and grid_ok(luvals, g, m) and all(grid_ok([float(x) for x in e["x"]], g, m) and all(R.is_float(x, p) for x in e["x"]) for e in mev)
        ties = any(e["tie"] for e in mev)
        if not exact:
            cl["gscon_inexact_skipped"] += 1
            continue
        same = len(clog) == len(mev) and all(l[2] == e["kase"] and [F(z) for z in l[4]] == e["x"] and F(l[3]) == e["est"]
                                             for l, e in zip(clog[:-1], mev[:-1]))
        nfinal = next((i for i, e in enumerate(mev) if e["jump"] == 5 and e["kase"] == 1), None)
        if nfinal is not None and n > 2:
            # alternating vector is rounded when n-1 is not a power of two: compare up to the final stage only
            same = len(clog) == len(mev) and all(l[2] == e["kase"] and [F(z) for z in l[4]] == e["x"] and F(l[3]) == e["est"]
                                                 for l, e in zip(clog[:nfinal], mev[:nfinal]))
        if not same:
            if ties:
                cl["gscon_ambiguous_tie"] += 1
            else:
                sub.violation("corr:gscon-dialogue", "?gscon dialogue differs from the model on an exact-float factorization prec=%s n=%d norm=%s C=%s model=%s" % (
                    prec, n, cid, [(l[2], l[3]) for l in clog], [(e["kase"], str(e["est"])) for e in mev]), rep)
            continue
        cl["gscon_dialogues_agree"] += 1
        mr = R.parse_frac(f[3])
        if nfinal is None or n <= 2:
            # rcond = (1/ainvnm)/anorm : two correctly rounded divisions
            if abs(c_rcond - mr) > 3 * u * mr:
                sub.violation("corr:gscon-rcond", "rcond C=%s model=%s" % (c_rcond, mr), rep)
            else:
                cl["gscon_rcond_agree"] += 1
    return cfg, cl, sub.viol


def part_corr(ctx, exes, ncases):
    from concurrent.futures import ProcessPoolExecutor
    cov = Counter()
    with ProcessPoolExecutor(C.NPROC) as ex:
        outs = list(ex.map(_corr_one, [(ctx.seed, t, exes) for t in range(ncases)], chunksize=4))
    for (cfg, cl, viol) in outs:
        cov.update(cl); cov["cases"] += 1; cov["prec=" + cfg["prec"]] += 1; cov["n=%d" % cfg["n"]] += 1
        for (key, what, replay) in viol:
            ctx.violation(key, what, replay)
    return cov


# ====================================================================== run
def run(ctx):
    exes = R.build("h_con.c")
    q = ctx.quick()
    covA, samplesA = part_lacon(ctx, exes, 900 if q else 9000)
    ctx.coverage["lacon_dialogue"] = {k: (dict(v) if isinstance(v, Counter) else v) for k, v in sorted(covA.items())}
    covB = part_corr(ctx, exes, 400 if q else 4000)
    ctx.coverage["routine_correspondence"] = dict(sorted(covB.items()))
    covC, samplesC = part_oracle(ctx, exes, 720 if q else 8000)
    ctx.coverage["gssvx_oracle"] = dict(sorted(covC.items()))
    ctx.coverage["evaluations"] = covA["dialogues"] + covB["cases"] + covC["cases"]
    ctx.coverage["distinct_nontrivial"] = covA["dialogues_agree"] + covB["gscon_dialogues_agree"] + covC["rcond_checked"]
    ctx.coverage["samples"] = samplesA + samplesC
    ctx.coverage["slacks"] = {
        "rcond": "(1 -+ SL), SL = 100*n*u*(1+cond): the estimator sees inv(A) through computed triangular solves whose relative error is O(cond*n*u); "
                 "applied for cond <= 1e-3/eps", "rpg": "2u real (one division), 8u complex (|re|+|im| or modulus, then one division)",
        "dialogue": "bit-for-bit where IEEE arithmetic is exact (n a power of two, integer operator) up to the final stage; else discrete sequence "
                    "outside a decision margin of %d*n*u, est within 8*n*u" % MARGIN_K}
    ctx.coverage["rule"] = (
        "lacon_dialogue: seeded integer operators (random, sparse, rank-1, diagonally dominant, generalized permutation, +-1 ties, negative, graded) of order "
        "n in {1,2,4,8,16,32 | 3,5,6,7,10,12} x precision s,d,c,z (complex: axis-aligned rows), the real ?lacon_ driven call by call; non-trivial = dialogues "
        "that agree with the model outside the decision margin. routine_correspondence: A = L0*U0 with dyadic factors (no rounding anywhere), real ?langs / "
        "?PivotGrowth (full and leading ncols) / ?gscon('1','I','O') after p?gssvx with diag_pivot_thresh=0 vs the model on the dumped factors. gssvx_oracle: "
        "p?gssvx on random / scaled (graded by powers of two) / nearly singular (column k := col a + col b + 2^-t col k) / singular-to-working-precision "
        "matrices, n<=40 (complex n<=16), NC/NR x trans N/T/C x DOFACT/EQUILIBRATE x u in {1,.5,.1,rand} x nprocs 1,2,4(,8), plus wide-forest cases with tiny "
        "panels for the supernode-order clause; exact integer (fraction-free) inverse of the equilibrated matrix.")


def replay(ctx, obj):
    """re-run one recorded case: python3 check.py C12 --replay replay/C12-xxxx.json"""
    rp = obj.get("replay", {})
    exes = R.build("h_con.c")
    gen = (rp.get("cfg") or {}).get("gen")
    viol = []
    if gen and gen[0] == "oracle":
        _, seed, t, prec, quick = gen
        cfg, cl, viol = _oracle_one((seed, t, prec, quick, exes[prec]))
    elif gen and gen[0] == "corr":
        cfg, cl, viol = _corr_one((gen[1], gen[2], exes))
    elif "M" in rp:
        cplx = rp["prec"] in "cz"
        M = [[tuple(v) if cplx else v for v in row] for row in rp["M"]]
        model = parse_engine(C.run_sludrv("lacon", lacon_engine_text("a0", rp["n"], M, cplx)))
        r = R.run_ext(exes[rp["prec"]], "quit\n", lacon_script(rp["n"], M, cplx))
        ops, done = R.parse_ext(r["ext_text"])
        cov = Counter(); cov["calls_hist"] = Counter(); sub = _Sub()
        check_dialogue(sub, cov, rp["prec"], rp["n"], rp.get("kind", "?"), M, [l for l in ops[0]["logs"] if l[0] == "lc"], model["a0"]["ev"], cplx)
        viol = sub.viol
    else:
        print("nothing to replay in this file"); return 2
    for (key, what, _) in viol:
        print("REPRODUCED %s: %s" % (key, what[:400]))
    if not viol:
        print("not reproduced (thread schedules are not replayable; all other cases are deterministic)")
    return 1 if viol else 0
