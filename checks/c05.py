"""C05 — memory safety: predicted bound on L never exceeded; arrays suffice; too-small U/L-subscript estimates stop with the diagnostic."""
from vlib import sweep as S, common as C
LEVEL = "other"
EXPLANATION = ("Allocator arithmetic (slot table, per-slot bump allocation, checked global bump allocation) is proved on Model/Alloc.lean "
               "(Props/C05.lean). On the implementation: every driver run is executed under ASan+UBSan, every L-supernode allocation "
               "reported by the hooks is checked against the slot table ?PresetMap published (an overrun inside the one big lusup array is "
               "invisible to ASan), and runs with deliberately tiny U / L-subscript estimates must end in the library's diagnostic exit. "
               "The link 'qrnzcnt column counts dominate L for any pivots' is checked per input by the slot monitor, not proved.")
ASSUMPTIONS = ["dominance of the Householder counts over L under arbitrary pivoting (George-Ng) is not proved in Lean; it is monitored per run",
               "general C memory safety outside the modelled index arithmetic is the sanitizers' verdict",
               "dynamic supernode storage mode (SuperLU_DYNAMIC_SNODE_STORE) is exercised under ASan only (no slot table)"]


def run(ctx):
    q = ctx.quick()
    kinds = ["random", "randzd", "denserow", "nothall", "arrow", "dense", "star", "band", "forest", "grid"]
    recs = []
    for i, force in enumerate([{"evlog": 1, "kind": kinds, "nprocs": 1}, {"evlog": 1, "kind": kinds, "nprocs": 2, "perturb": 2},
                               {"evlog": 1, "kind": kinds, "nprocs": 4, "perturb": 1}]):
        recs += S.sweep(ctx, 130 if q else 1500, 36 if q else 120, precs="dszc", drivers=("gssv", "gssvx"), flavour="asan", force=force, seed_offset=500 + i)
    allocs = 0
    for r in recs:
        if r["status"] == "ok":
            for b in [x for x in r.get("evmon", []) if "LUSUP" in x][:2]:
                ctx.violation("lusup-slot-overrun", "L supernode outgrew its reserved slot: " + b, S.replay_blob(r))
    S.judge(ctx, recs, ["wfL", "wfU", "permr", "permc", "lu"], "asan-run")
    # dynamic L-supernode storage scheme (environment variable SuperLU_DYNAMIC_SNODE_STORE): storage for an H-supernode is claimed when its
    # leading column is reached, from a symbolic count made at that moment.  One thread: same requirements as the static scheme.
    dyn1 = S.sweep(ctx, 200 if q else 2500, 40 if q else 120, precs="dszc", drivers=("gssv", "gssvx"), flavour="asan",
                   force={"dyn": 1, "nprocs": 1, "evlog": 1, "kind": kinds + ["blockdiag", "tridiag"]}, seed_offset=560)
    S.judge(ctx, dyn1, ["wfL", "wfU", "permr", "permc", "lu"], "dynamic-snode-run")
    # several threads: a genuine defect of the unchanged library (DESIGN 12.3 F11): every failure of this population is reported under ONE key,
    # identified by the mode (dynamic scheme, nprocs >= 2); the same failure in any other population keeps its own key.
    dynp = []
    for i, P in enumerate((2, 4)):
        dynp += S.sweep(ctx, 100 if q else 1200, 40 if q else 100, precs="dszc", drivers=("gssv", "gssvx"), flavour="asan",
                        force={"dyn": 1, "nprocs": P, "perturb": 2, "evlog": 1, "kind": kinds}, seed_offset=570 + i)
    class _Sub:
        def __init__(self): self.v = []; self.coverage = {}
        def violation(self, key, what, blob, no_input=False): self.v.append((key, what, blob))
    sub = _Sub(); S.judge(sub, dynp, ["wfL", "wfU", "permr", "permc", "lu"], "dynamic-snode-threads")
    for key, what, blob in sub.v[:3]:
        ctx.violation("dynamic-snode-store:nprocs>=2", what, blob)
    # the dynamic-scheme model (Model/Alloc.lean dstep; Props/C05Dyn.lean) replayed on the logged DynamicSetMap / Glu_alloc(LUSUP) events:
    # offsets must agree event for event (correspondence); an allocation beyond its reservation is the property failing at that point
    def dyn_replay(recs_):
        txt = "".join(r["dyntext"] for r in recs_ if r.get("dyntext"))
        out = C.run_sludrv("dynslots", txt, timeout=900) if txt else ""
        res = {}
        for ln in out.split("\n"):
            t = ln.split()
            if len(t) >= 12 and t[0] == "case":
                res[t[1]] = {"events": int(t[3]), "reserve_mismatch": int(t[5]), "alloc_mismatch": int(t[7]), "unmodelled": int(t[9]), "overruns": int(t[11]), "first": t[13:]}
        return res
    st_dyn = {"runs_replayed": 0, "events": 0, "overrun_runs_one_thread": 0, "overrun_runs_threads": 0, "unmodelled_allocs": 0}
    for pop, multi in ((dyn1, False), (dynp, True)):
        rr = dyn_replay(pop)
        for r in pop:
            d = rr.get("c%d" % r["cfg"]["t"]) if r.get("dyntext") else None
            if d is None: continue
            st_dyn["runs_replayed"] += 1; st_dyn["events"] += d["events"]; st_dyn["unmodelled_allocs"] += d["unmodelled"]
            if d["reserve_mismatch"] or d["alloc_mismatch"]:
                ctx.violation("dynslots-correspondence", "correspondence DynamicSetMap/Glu_alloc(LUSUP) <-> Model/Alloc.lean dstep no longer checks: %d reservation and %d allocation offsets differ (prec=%s n=%d P=%d)" % (
                    d["reserve_mismatch"], d["alloc_mismatch"], r["cfg"]["prec"], r["cfg"]["n"], r["cfg"]["nprocs"]), S.replay_blob(r), no_input=True)
            if d["overruns"]:
                if multi:
                    st_dyn["overrun_runs_threads"] += 1
                    if st_dyn["overrun_runs_threads"] <= 2:
                        ctx.violation("dynamic-snode-store:nprocs>=2", "dynamic scheme, P=%d: H-supernode %s needs %s words, %s were reserved (prec=%s n=%d)" % (
                            r["cfg"]["nprocs"], d["first"][0], d["first"][1], d["first"][2], r["cfg"]["prec"], r["cfg"]["n"]), S.replay_blob(r))
                else:
                    st_dyn["overrun_runs_one_thread"] += 1
                    ctx.violation("dynamic-slot-overrun", "dynamic scheme, one thread: H-supernode %s needs %s words, %s were reserved: the L supernode outgrows its reservation (prec=%s n=%d kind=%s)" % (
                        d["first"][0], d["first"][1], d["first"][2], r["cfg"]["prec"], r["cfg"]["n"], r["cfg"]["kind"]), S.replay_blob(r))
    ctx.coverage["dynamic_snode_runs"] = {"one_thread": len(dyn1), "threads": len(dynp), "threads_failing": len(sub.v), "model_replay": st_dyn}
    # tiny estimates: must stop with the diagnostic (exit through the abort path), never by a signal / sanitizer report
    tiny = []
    for i, fill in enumerate([(-50, 1, -30), (-50, -50, 1), (-50, 2, 2)]):
        tiny += S.sweep(ctx, 40 if q else 600, 30, precs="ds", drivers=("gssv",), flavour="asan",
                        force={"fill": fill, "nprocs": None, "kind": ["random", "dense", "band"]}, seed_offset=520 + i)
    # estimates that differ between the arrays: the L-subscript estimate just about fits (supernodal L needs few subscripts) while U fills
    # heavily (natural order, arrow/dense/star patterns): every array must be sized and bounded by ITS OWN estimate
    for i, fill in enumerate([(-50, -50, -1), (-50, -50, -2), (-50, -3, -1)]):
        tiny += S.sweep(ctx, 40 if q else 600, 30, precs="dszc", drivers=("gssv",), flavour="asan",
                        force={"fill": fill, "nprocs": None, "colperm": 0, "kind": ["arrow", "dense", "star", "band"]}, seed_offset=530 + i)
    diag = 0; okc = 0; teardown = 0
    for r in tiny:
        if r["status"] == "ok":
            okc += 1; continue
        err = r.get("err") or ""
        has_diag = ("exceeded" in err or "Memory allocation failed" in err or "Not enough memory" in err)
        if r["status"] == "crash" and r["rc"] is not None and r["rc"] > 0 and has_diag and "Sanitizer" not in err:
            diag += 1; continue
        import re as _re
        kinds = _re.findall(r"ERROR: AddressSanitizer: (\S+)", err)
        if (r["status"] == "crash" and has_diag and r["rc"] == 255 and all(k == "SEGV" for k in kinds) and "runtime error" not in err
                and err.find("AddressSanitizer") > max(err.find("exceeded"), err.find("Memory allocation failed"))):
            # the diagnostic was printed and the aborting thread's exit(-1) ended the process (rc 255, not ASan's abort): while exit() ran the
            # shared libraries' destructors (OpenBLAS frees its buffers) another worker, still inside a BLAS kernel, took a SIGSEGV whose
            # report ASan could not finish.  The run did stop through the library's diagnostic path; any memory error ASan can name
            # (overflow, use-after-free) or a signal that ends the process is still a violation.
            diag += 1; teardown += 1; continue
        ctx.violation("tiny-estimate:" + (r.get("crash_site") or r["status"]), "too-small storage estimate %s did not end in the library diagnostic: status=%s rc=%s %s" % (
            r["cfg"]["fill"], r["status"], r["rc"], err[-200:].replace("\n", " | ")), S.replay_blob(r))
    S.coverage(ctx, recs, "ASan+UBSan build; patterns include zero diagonals, dense rows/columns, not-strong-Hall; LUSUP slot monitor on every run.")
    ctx.coverage["tiny_estimate_runs"] = {"runs": len(tiny), "ended_in_diagnostic": diag, "fit_anyway": okc, "worker_faulted_during_exit_after_the_diagnostic": teardown}
    ctx.coverage["lusup_allocations_checked"] = "every kind-9 hook event of %d runs" % len(recs)
