"""C02 — Pr*A*Pc = L*U within gamma(n)|L||U|, multipliers bounded by 1/u, diagonal preferred."""
from vlib import sweep as S, common as C, pivot as PV, factor_corr as FC
LEVEL = "proof"
EXPLANATION = ("Pivot policy / threshold / exact LU identity are theorems about Model/Pivot.lean and Model/LU.lean; the "
               "floating-point clause |PrAPc-LU| <= gamma(n)|L||U| is decided per run by the Lean-verified exact checker "
               "(Props/Checkers.lean: checkLU_sound/complete) on the factors the real library returned.")
ASSUMPTIONS = ["rounding (gamma(n)) is judged per run, not proved for the supernodal kernels / vendor BLAS",
               "multiplier slack (1+4*2^-p) covers l = fl(c*fl(1/p))",
               "diagonal preference is judged from the factors only outside a 2^-30 relative margin; exact ties are decided by the pivotL correspondence"]


def run(ctx):
    # (a) correspondence of the pivot routine itself: real p?gstrf_pivotL vs Model/Pivot.lean on the exact lattice
    st, dis = PV.run(ctx, 1500 if ctx.quick() else 20000)
    ctx.coverage["pivotL_correspondence"] = st
    ctx.coverage["traces_validated_against_impl"] = st["cases"]
    for d in [x for x in dis if x["kind"] == "pivotL-property"][:10]:
        ctx.violation("pivotL-property:" + ",".join(d["fields"]), "real p?gstrf_pivotL breaks the pivot clause(s) %s" % d["fields"], d)
    for d in [x for x in dis if x["kind"] != "pivotL-property"][:10]:
        ctx.violation("pivotL-correspondence:" + ",".join(d.get("fields", [d["kind"]])),
                      "correspondence p?gstrf_pivotL <-> Model/Pivot.lean (theorems Slu.pivot_*) no longer checks: %s" % (d.get("fields") or d["kind"]), d, no_input=True)
    # (b) oracle on whole factorizations
    n_cases, nmax = (700, 48) if ctx.quick() else (5000, 110)
    recs = S.sweep(ctx, n_cases, nmax, precs="dszc", drivers=("gssv", "gssvx", "gssvx"))
    bad = S.judge(ctx, recs, ["wfL", "wfU", "permr", "permc", "lower", "upper", "lu", "mult", "diag"], "LU-identity")
    # (c) whole-factorization correspondence with the exact rational model (discrete outputs, margin rule)
    st2, dis2 = FC.compare(ctx, recs, nmax=24 if ctx.quick() else 40)
    ctx.coverage["factor_correspondence"] = st2
    for d in dis2[:10]:
        ctx.violation("factor-correspondence:" + ",".join(d.get("fields", [d["kind"]])),
                      "correspondence p?gstrf <-> Model/LU.lean (theorems Slu.factor_*) no longer checks: %s" % (d.get("fields") or d["kind"]), d, no_input=True)
    S.coverage(ctx, recs, "Thresholds u in {1, 1/2, 1/8, 0, random}.")
    ctx.coverage["lu_failures"] = bad
