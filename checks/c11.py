"""C11 — equilibration: scale factors, application rule and reported flag agree.

Three layers (CONVENTIONS.md):
  * theorems about lean/SluVerif/Model/Equil.lean  (Props/C11.lean; audited by check.py)
  * correspondence: real ?gsequ / ?laqgs (harness/h_equil.c) and the real expert driver (harness/h_drv.c, op gssvx)
    against `sludrv equil` (the same model, compiled) — bit for bit wherever IEEE arithmetic is exact
    (power-of-two entries), discrete outputs (info, equed) always
  * exact-arithmetic oracles on the library's own output for general (inexact) inputs.
"""
import os, random, struct, math, tempfile, shutil, subprocess, json, time
from fractions import Fraction as Fr
from concurrent.futures import ThreadPoolExecutor
from collections import Counter
from vlib import common as C

LEVEL = "proof"
EXPLANATION = (
    "gsequ/laqgs/driver-frame theorems are proved over the rational model Model/Equil.lean (Props/C11.lean). "
    "The model is tied to SRC/?gsequ.c, ?laqgs.c, p?gssvx.c by a differential run: on power-of-two matrices "
    "(exact IEEE arithmetic) R, C, rowcnd, colcnd, amax, info, equed, A_out, B_out agree bit for bit in all four "
    "precisions, NC and NR; on general inputs the discrete outputs agree and the real outputs satisfy the property's "
    "inequalities evaluated in exact rational arithmetic.")
ASSUMPTIONS = [
    "machine constants smlnum/bignum/small/large are read from the library (?lamch) at run time and handed to the model; THRESH=0.1 (a C double literal) is handed to the model as the exact double 0.1",
    "slack: |r_i*rowmax_i-1| <= 2u (real: one rounding of 1/x, the s/c twins divide in double and round again) resp. 3u (complex: abs1 adds one rounding); "
    "|c_j*colmax_j-1| <= 3u resp. 4u (one more rounding for |a|*r_i); reported ratio vs min/max of the returned factors <= 4u relative; "
    "A_out/B_out/X: |fl-exact| <= u|exact| per multiply applied (2 for BOTH), entries whose exact result is below the smallest normal number are counted as 'underflow' and skipped",
    "finiteness / overflow / underflow next to the clip limits is sampled (battery of limit matrices), not proved",
    "X scaling is judged differentially: the solution of a second FACTORED call on the already scaled A_out, B_out with equed=NOEQUIL must reproduce X up to the one multiply by C resp. R",
]
TRUSTED = ["harness/h_equil.c, harness/h_drv.c (op gssvx) and checks/c11.py script writers"]

PBITS = {"s": 24, "d": 53, "c": 24, "z": 53}
EMIN = {"s": -126, "d": -1022, "c": -126, "z": -1022}
EMAX = {"s": 127, "d": 1023, "c": 127, "z": 1023}
THRESH = Fr(0.1)          # the C literal 0.1 (double)


# ------------------------------------------------------------------ exact float helpers
def two(e):
    return Fr(2) ** e


def ilog2(a):
    """floor(log2(a)) for a Fraction a > 0"""
    e = a.numerator.bit_length() - a.denominator.bit_length()
    if two(e) > a:
        e -= 1
    elif two(e + 1) <= a:
        e += 1
    return e


def rnd(q, p):
    """round-to-nearest-even of the rational q in precision class p; None on overflow"""
    if q == 0:
        return Fr(0)
    sgn = 1 if q > 0 else -1
    a = abs(q)
    e = max(ilog2(a), EMIN[p])
    ulp = two(e - PBITS[p] + 1)
    k = a / ulp
    n = k.numerator // k.denominator
    rem = k - n
    if rem > Fr(1, 2) or (rem == Fr(1, 2) and n % 2 == 1):
        n += 1
    r = n * ulp
    if r >= two(EMAX[p] + 1):
        return None
    return sgn * r


def representable(q, p):
    return rnd(q, p) == q


def f32(x):
    return struct.unpack("f", struct.pack("f", x))[0]


def fr(x):
    """python float -> Fraction, None for inf/nan"""
    if x != x or x in (float("inf"), float("-inf")):
        return None
    return Fr(x)


def dyad(q):
    """Fraction with power-of-two denominator -> 'm e'"""
    if q == 0:
        return "0 0"
    d = q.denominator
    assert d & (d - 1) == 0, q
    e = -(d.bit_length() - 1)
    m = q.numerator
    while m % 2 == 0:
        m //= 2; e += 1
    return "%d %d" % (m, e)


def hexq(q):
    return float(q).hex()      # q is representable by construction


def nextafter(x, up, p):
    """neighbour of the positive float x in precision class p"""
    if p in "dz":
        return math.nextafter(x, math.inf if up else 0.0)
    b = struct.unpack("I", struct.pack("f", x))[0]
    return struct.unpack("f", struct.pack("I", b + 1 if up else b - 1))[0]


def mag(v, cplx):
    return abs(v[0]) + abs(v[1]) if cplx else abs(v)


# ------------------------------------------------------------------ case records
class Case:
    """one operation: kind in gsequ|laqgs; values are Fractions (representable in the precision)"""
    def __init__(self, kind, prec, m, n, colptr, rowind, vals, **kw):
        self.kind, self.prec, self.m, self.n = kind, prec, m, n
        self.colptr, self.rowind, self.vals = colptr, rowind, vals
        self.cplx = prec in "cz"
        self.__dict__.update(kw)

    def entries(self):
        for j in range(self.n):
            for k in range(self.colptr[j], self.colptr[j + 1]):
                yield self.rowind[k], j, self.vals[k], k

    def _mat(self, f):
        flat = []
        for v in self.vals:
            if self.cplx:
                flat += [f(v[0]), f(v[1])]
            else:
                flat.append(f(v))
        return "%d %d %d %s %s %s" % (self.m, self.n, len(self.rowind), " ".join(map(str, self.colptr)),
                                      " ".join(map(str, self.rowind)), " ".join(flat))

    def line(self, f):
        if self.kind == "gsequ":
            return "gsequ %d %s %s\n" % (self.typeok, self._mat(f), " ".join(f(x) for x in self.sent))
        return "laqgs %s %s %s %s %d\n" % (self._mat(f), " ".join(f(x) for x in self.R), " ".join(f(x) for x in self.Cs),
                                           " ".join(f(x) for x in (self.rowcnd, self.colcnd, self.amax)), self.equed0)

    def blob(self):
        d = {k: v for k, v in self.__dict__.items()}
        def enc(x):
            if isinstance(x, Fr):
                return hexq(x)
            if isinstance(x, (list, tuple)):
                return [enc(y) for y in x]
            return x
        return {k: enc(v) for k, v in d.items()}


SENT = [Fr(-3), Fr(-4), Fr(-5), Fr(-6), Fr(-7)]   # r0 c0 rowcnd0 colcnd0 amax0


def rand_pattern(rng, m, n):
    """compressed-column pattern with possible empty rows/columns and (rarely) duplicate entries"""
    colptr = [0]; rowind = []
    dens = rng.choice([0.15, 0.3, 0.5, 0.8, 1.0])
    zr = set(i for i in range(m) if rng.random() < 0.08) if rng.random() < 0.35 else set()
    zc = set(j for j in range(n) if rng.random() < 0.08) if rng.random() < 0.35 else set()
    full = rng.random() < 0.6           # every non-excluded row/column gets an entry
    rows_seen = set()
    for j in range(n):
        col = []
        if j not in zc:
            col = [i for i in range(m) if i not in zr and rng.random() < dens]
            if full and not col:
                cand = [i for i in range(m) if i not in zr]
                if cand:
                    col = [rng.choice(cand)]
            if col and rng.random() < 0.05:
                col.append(rng.choice(col))          # duplicate entry
            if rng.random() < 0.3:
                rng.shuffle(col)                     # unsorted row indices are legal for these routines
        rowind += col; rows_seen.update(col)
        colptr.append(len(rowind))
    if full:
        cand_c = [j for j in range(n) if j not in zc]
        for i in range(m):
            if i not in zr and i not in rows_seen and cand_c:
                j = rng.choice(cand_c)
                rowind.insert(colptr[j + 1], i)
                for jj in range(j + 1, n + 1):
                    colptr[jj] += 1
    return colptr, rowind


def pow2_entry(rng, e, cplx, p):
    s = lambda: rng.choice([-1, 1])
    if not cplx:
        return s() * two(e)
    t = rng.randrange(3)
    if t == 0:
        return (s() * two(e), Fr(0))
    if t == 1:
        return (Fr(0), s() * two(e))
    if e - 1 < EMIN[p] - PBITS[p] + 1:
        return (s() * two(e), Fr(0))
    return (s() * two(e - 1), s() * two(e - 1))      # |re|+|im| = 2^e


def rand_float(rng, p, scale_exp):
    x = rng.choice([-1, 1]) * (0.5 + rng.random()) * 2.0 ** scale_exp
    if p in "sc":
        x = f32(x)
    return Fr(x)


def gen_gsequ(rng, prec, mode, nmax):
    """mode: exact-pow2 flavours (narrow rowbad colbad both huge tiny extreme) or 'general'"""
    cplx = prec in "cz"
    shape = rng.choice(["sq", "sq", "sq", "rect", "1x1", "empty"])
    if shape == "1x1":
        m = n = 1
    elif shape == "empty":
        m, n = rng.choice([(0, 0), (0, rng.randint(1, 4)), (rng.randint(1, 4), 0)])
    elif shape == "sq":
        m = n = rng.randint(1, nmax)
    else:
        m, n = rng.randint(1, nmax), rng.randint(1, nmax)
    colptr, rowind = rand_pattern(rng, m, n)
    lo, hi = EMIN[prec] - PBITS[prec] + 1, EMAX[prec]     # full exponent range incl. subnormals
    half = (EMAX[prec] // 2) - 4
    roff = [0] * m; coff = [0] * n; base = 0; spread = 3
    if mode in ("rowbad", "both"):
        roff = [rng.randint(-half // 2, half // 2) for _ in range(m)]
    if mode in ("colbad", "both"):
        coff = [rng.randint(-half // 2, half // 2) for _ in range(n)]
    if mode == "huge":
        base = rng.randint(EMAX[prec] - 22, EMAX[prec] - 6)
    if mode == "tiny":
        base = rng.randint(lo + 4, EMIN[prec] + 20)
    if mode == "narrow":
        spread = rng.choice([0, 1, 3, 3, 8])
    vals = []
    for j in range(n):
        for k in range(colptr[j], colptr[j + 1]):
            i = rowind[k]
            if mode == "extreme":
                e = rng.choice([rng.randint(lo, hi), rng.randint(lo, lo + 60), rng.randint(hi - 40, hi), rng.randint(-5, 5)])
            else:
                e = base + roff[i] + coff[j] + rng.randint(-spread, spread)
            e = max(lo, min(hi if not cplx else hi - 1, e))
            if mode == "general":
                sc = rng.choice([0, 0, rng.randint(-30, 30)]) + rng.choice([0, roff[i]])
                v = (rand_float(rng, prec, sc), rand_float(rng, prec, sc + rng.randint(-3, 3))) if cplx else rand_float(rng, prec, sc)
            else:
                v = pow2_entry(rng, e, cplx, prec)
            if rng.random() < 0.03:
                v = (Fr(0), Fr(0)) if cplx else Fr(0)     # explicit stored zero
            vals.append(v)
    typeok = 0 if rng.random() < 0.02 else 1
    return Case("gsequ", prec, m, n, colptr, rowind, vals, mode=mode, typeok=typeok, sent=SENT)


def gen_laqgs(rng, prec, consts, mode, nmax):
    cplx = prec in "cz"
    m, n = rng.choice([(1, 1), (0, 0), (0, 2), (2, 0)] + [(rng.randint(1, nmax), rng.randint(1, nmax)) for _ in range(8)])
    colptr, rowind = rand_pattern(rng, m, n)
    u1 = lambda x: Fr(f32(x)) if prec in "sc" else Fr(x)
    small, large = consts["small"], consts["large"]
    t = float(THRESH) if prec in "dz" else f32(0.1)
    tl = [Fr(t), Fr(nextafter(t, False, prec)), Fr(nextafter(t, True, prec)), u1(0.05), u1(0.5), Fr(1), Fr(0), Fr(2), Fr(1, 8), Fr(1, 16),
          u1(0.0999), u1(0.1001), u1(1e-9)]
    al = [small, Fr(nextafter(float(small), False, prec)), Fr(nextafter(float(small), True, prec)), large,
          Fr(nextafter(float(large), False, prec)), Fr(nextafter(float(large), True, prec)), Fr(1), Fr(0), Fr(3), two(rng.randint(-60, 60)),
          small / 4, large * 4, two(EMAX[prec]), Fr(1), Fr(1)]
    rowcnd, colcnd, amax = rng.choice(tl), rng.choice(tl), rng.choice(al)
    if mode == "pow2":
        ea = [rng.randint(-20, 20) for _ in rowind]
        vals = [pow2_entry(rng, e, cplx, prec) for e in ea]
        R = [two(rng.randint(-30, 30)) for _ in range(m)]
        Cs = [two(rng.randint(-30, 30)) for _ in range(n)]
    else:
        vals = [((rand_float(rng, prec, rng.randint(-10, 10)), rand_float(rng, prec, rng.randint(-10, 10))) if cplx
                 else rand_float(rng, prec, rng.randint(-10, 10))) for _ in rowind]
        R = [abs(rand_float(rng, prec, rng.randint(-12, 12))) for _ in range(m)]
        Cs = [abs(rand_float(rng, prec, rng.randint(-12, 12))) for _ in range(n)]
    return Case("laqgs", prec, m, n, colptr, rowind, vals, mode=mode, R=R, Cs=Cs, rowcnd=rowcnd, colcnd=colcnd, amax=amax,
                equed0=rng.randrange(4))


def limit_battery(prec):
    """deterministic matrices at the clip limits (sampled, see ASSUMPTIONS): every one is run in every run"""
    cplx = prec in "cz"
    lo, hi, en = EMIN[prec] - PBITS[prec] + 1, EMAX[prec], EMIN[prec]
    E = (lambda e: (two(e), Fr(0))) if cplx else (lambda e: two(e))
    def dense(rows):
        m = len(rows); n = len(rows[0]); colptr = [0]; rowind = []; vals = []
        for j in range(n):
            for i in range(m):
                if rows[i][j] is not None:
                    rowind.append(i); vals.append(E(rows[i][j]))
            colptr.append(len(rowind))
        return m, n, colptr, rowind, vals
    mats = {
        "all-subnormal-1x1": [[lo + 5]],
        "all-subnormal-2x2": [[lo, lo + 3], [lo + 7, lo + 1]],
        "at-smlnum": [[en, en + 1], [en - 1, en]],
        "at-bignum": [[-en, -en - 1], [hi, -en]],
        "above-bignum-rows": [[hi, hi - 1], [hi - 1, hi]],
        "span-full": [[hi, None], [None, lo]],
        "underflow-col": [[hi, lo]],                                           # 1x2: [2^hi, 2^lo]
        "underflow-col-2x2": [[hi, lo], [0, None]],
        "ratio-underflow": [[en, None], [None, -en]],
        "one": [[0]],
    }
    out = []
    for name, rows in mats.items():
        m, n, colptr, rowind, vals = dense(rows)
        out.append(Case("gsequ", prec, m, n, colptr, rowind, vals, mode="limit:" + name, typeok=1, sent=SENT))
    return out


# ------------------------------------------------------------------ running
def run_hequil(exe, cases):
    d = tempfile.mkdtemp(prefix="heq", dir=C.BUILD)
    try:
        sp, op = os.path.join(d, "s.scr"), os.path.join(d, "s.out")
        open(sp, "w").write("consts\n" + "".join(c.line(hexq) for c in cases) + "quit\n")
        r = subprocess.run([exe, sp, op], capture_output=True, text=True, timeout=600, env=C.ENV, errors="replace")
        text = open(op).read() if os.path.exists(op) else ""
        return r.returncode, r.stderr[-2000:], text
    finally:
        shutil.rmtree(d, ignore_errors=True)


def parse_hequil(text):
    consts = None; ops = []; cur = None; done = False
    for line in text.split("\n"):
        t = line.split()
        if not t:
            continue
        k = t[0]
        if k == "consts":
            v = [Fr(float.fromhex(x)) for x in t[1:]]
            consts = dict(zip(["sml", "big", "small", "large", "eps", "prec"], v))
        elif k == "op":
            cur = {"op": t[1]}
        elif k == "end":
            ops.append(cur); cur = None
        elif k == "done":
            done = True
        elif k in ("info", "equed", "guard", "same"):
            cur[k] = int(t[1])
        elif k == "xerbla":
            cur["xerbla"] = (int(t[1]), int(t[2]))
        elif k == "scal":
            cur["rowcnd"], cur["colcnd"], cur["amax"] = [float.fromhex(x) for x in t[1:4]]
        elif k in ("R", "C", "A"):
            cur[k] = [float.fromhex(x) for x in t[2:]]
    return consts, ops, done


def lean_header(consts, cplx):
    return "consts %s %s %s %s %s\ncplx %d\n" % (dyad(consts["sml"]), dyad(consts["big"]), dyad(consts["small"]), dyad(consts["large"]),
                                                 dyad(THRESH), 1 if cplx else 0)


def run_model(consts, cplx, lines):
    out = C.run_sludrv("equil", lean_header(consts, cplx) + "".join(lines))
    res = []
    for line in out.split("\n"):
        if not line.strip():
            continue
        res.append(parse_model_line(line, 2 if cplx else 1))
    return res


def parse_model_line(line, mult):
    t = line.split()
    d = {"op": t[0]}; i = 1
    q = lambda a, b: Fr(int(a), int(b))
    while i < len(t):
        k = t[i]
        if k in ("info", "equed", "info1", "notran", "bw", "xw"):
            d[k] = int(t[i + 1]); i += 2
        elif k in ("rowcnd", "colcnd", "amax"):
            d[k] = q(t[i + 1], t[i + 2]); i += 3
        elif k in ("R", "C", "A", "B"):
            tot = int(t[i + 1]) * (mult if k in ("A", "B") else 1)
            d[k] = [q(t[i + 2 + 2 * s], t[i + 3 + 2 * s]) for s in range(tot)]; i += 2 + 2 * tot
        else:
            raise ValueError("model output: " + line[:200])
    return d


# ------------------------------------------------------------------ judging gsequ / laqgs
def judge_gsequ(ctx, cs, co, mo, consts, cnt):
    """cs: Case, co: C output, mo: model output"""
    p = cs.prec; u = two(-PBITS[p]); cplx = cs.cplx
    m, n = cs.m, cs.n
    tag = "%s %s %dx%d" % (p, cs.mode, m, n)
    def bad(key, what):
        ctx.violation(key, "%s: %s" % (tag, what), {"case": cs.blob(), "code": {k: (v if not isinstance(v, float) else v.hex()) for k, v in co.items() if k not in ("R", "C")},
                                                   "code_R": [x.hex() for x in co["R"]], "code_C": [x.hex() for x in co["C"]],
                                                   "model": {k: str(v) for k, v in mo.items()}})
    if co.get("guard") != 1:
        bad("gsequ:overrun", "r/c written past their length"); return
    # exact row / column data of the input
    rowmax = [Fr(0)] * m
    for i, j, v, k in cs.entries():
        rowmax[i] = max(rowmax[i], mag(v, cplx))
    zero_rows = [i for i in range(m) if rowmax[i] == 0]
    colnz = [False] * n
    for i, j, v, k in cs.entries():
        if mag(v, cplx) != 0:
            colnz[j] = True
    zero_cols = [j for j in range(n) if not colnz[j]]
    sml, big = consts["sml"], consts["big"]
    Rc = [fr(x) for x in co["R"]]; Cc = [fr(x) for x in co["C"]]
    sc = {k: fr(co[k]) for k in ("rowcnd", "colcnd", "amax")}
    exactmode = cs.mode != "general"
    # ---- discrete outputs: info (and the xerbla protocol) — always compared with the model
    if not cs.typeok:
        cnt["info=-1"] += 1
        if co["info"] != -1 or co["xerbla"] != (1, 1) or mo["info"] != -1:
            bad("gsequ:info", "bad-type call: info=%s xerbla=%s model=%s" % (co["info"], co["xerbla"], mo["info"]))
        if Rc != [SENT[0]] * m or Cc != [SENT[1]] * n or [sc["rowcnd"], sc["colcnd"], sc["amax"]] != SENT[2:]:
            bad("gsequ:frame", "outputs written although info=-1")
        return
    # limit classification: does |a|*r_i leave the exact regime (underflow) somewhere?
    limit = False
    Rm = mo["R"]
    if exactmode and (mo["info"] == 0 or mo["info"] > m):
        for i, j, v, k in cs.entries():
            if mag(v, cplx) != 0 and not representable(mag(v, cplx) * Rm[i], p):
                limit = True
    if cplx and exactmode:
        for i, j, v, k in cs.entries():
            if not representable(mag(v, cplx), p):
                limit = True
    if limit:
        cnt["limit-cases"] += 1
    # finding F-C11-a: non-zero column reported as exactly zero after underflow of |a|*r_i
    if co["info"] > m and (co["info"] - m - 1) not in zero_cols and not zero_rows:
        j = co["info"] - m - 1
        cmax = max([mag(v, cplx) * Rc[i] for i, jj, v, k in cs.entries() if jj == j and Rc[i] is not None] or [Fr(0)])
        if cmax != 0 and cmax < two(EMIN[p] - PBITS[p] + 1):
            cnt["finding:underflow-zero-col"] += 1
            ctx.violation("gsequ:underflow-zero-col", "%s: info=%d names column %d as exactly zero, but it holds a non-zero entry whose scaled "
                          "magnitude |a|*r_i=%s underflowed to 0" % (tag, co["info"], j, float(cmax) if cmax > Fr(1, 10 ** 300) else "2^%d" % ilog2(cmax)),
                          {"case": cs.blob(), "info": co["info"]})
        else:
            bad("gsequ:zero-col", "info=%d but column %d is not zero" % (co["info"], j))
        return
    # property: info names the FIRST zero row / column (exact; from the input alone)
    want = (zero_rows[0] + 1) if (zero_rows and m and n) else ((m + 1 + zero_cols[0]) if (zero_cols and m and n) else 0)
    if co["info"] != want and not limit:
        bad("gsequ:info", "info=%d, expected %d (first zero row/col)" % (co["info"], want)); return
    if co["info"] != mo["info"] and not limit:
        bad("corr:gsequ-info", "info code=%d model=%d" % (co["info"], mo["info"])); return
    cnt["info=" + ("0" if co["info"] == 0 else "row" if co["info"] <= m else "col")] += 1
    if co["xerbla"][0] != 0:
        bad("gsequ:info", "xerbla called on a legal call")
    # ---- frame: what must not be written
    if m == 0 or n == 0:
        cnt["empty"] += 1
        if [sc["rowcnd"], sc["colcnd"], sc["amax"]] != [Fr(1), Fr(1), Fr(0)] or Rc != [SENT[0]] * m or Cc != [SENT[1]] * n:
            bad("gsequ:quick-return", "empty matrix: rowcnd/colcnd/amax=%s" % ([co["rowcnd"], co["colcnd"], co["amax"]],))
        if [mo["rowcnd"], mo["colcnd"], mo["amax"]] != [Fr(1), Fr(1), Fr(0)]:
            bad("corr:gsequ", "model quick return differs")
        return
    # ---- correspondence on the real outputs
    def same(name, cv, mv, rounded=False):
        if cv is None:
            bad("gsequ:nonfinite", "%s not finite" % name); return False
        if exactmode:
            ev = rnd(mv, p) if rounded else mv
            if ev != mv:
                cnt["ratio-rounded"] += 1
            if cv != ev:
                bad("corr:gsequ-" + name.split("[")[0], "%s code=%s model=%s" % (name, float(cv).hex(), ev)); return False
        return True
    ok = True
    ok &= same("amax", sc["amax"], mo["amax"])
    for i in range(m):
        ok &= same("R[%d]" % i, Rc[i], mo["R"][i])
    if co["info"] == 0 or co["info"] > m:
        ok &= same("rowcnd", sc["rowcnd"], mo["rowcnd"], rounded=True)
    else:
        if sc["rowcnd"] != SENT[2] or sc["colcnd"] != SENT[3] or Cc != [SENT[1]] * n:
            bad("gsequ:frame", "zero-row return wrote rowcnd/colcnd/c"); ok = False
    if co["info"] == 0 and not limit:
        for j in range(n):
            ok &= same("C[%d]" % j, Cc[j], mo["C"][j])
        ok &= same("colcnd", sc["colcnd"], mo["colcnd"], rounded=True)
    elif co["info"] > m and not limit:
        if sc["colcnd"] != SENT[3]:
            bad("gsequ:frame", "zero-column return wrote colcnd"); ok = False
        for j in range(n):
            ok &= same("C[%d]" % j, Cc[j], mo["C"][j])
    if exactmode and ok:
        cnt["bit-exact"] += 1
    if not ok:
        return
    # ---- property oracles on the code's own output (exact arithmetic)
    if not (co["info"] == 0 or co["info"] > m):
        # zero row: amax still the largest magnitude
        tru = max(rowmax)
        if abs(sc["amax"] - tru) > (u * tru if cplx else 0):
            bad("gsequ:amax", "amax=%s true=%s" % (co["amax"], float(tru)))
        return
    su = (3 if cplx else 2) * u
    for i in range(m):
        r = Rc[i]
        if r is None or r <= 0:
            bad("gsequ:positive", "R[%d]=%s" % (i, co["R"][i])); return
        x = rowmax[i]
        lo_amb = abs(x - sml) <= 2 * u * sml; hi_amb = abs(x - big) <= 2 * u * big
        if x < sml and not lo_amb:
            cnt["clip-lo"] += 1
            if r != 1 / sml:
                bad("gsequ:clip", "R[%d]=%s but rowmax<smlnum" % (i, co["R"][i]))
        elif x > big and not hi_amb:
            cnt["clip-hi"] += 1
            if r != 1 / big:
                bad("gsequ:clip", "R[%d]=%s but rowmax>bignum" % (i, co["R"][i]))
        elif lo_amb or hi_amb:
            cnt["clip-ambiguous" if cplx and not exactmode else "clip-boundary"] += 1
            if abs(r * x - 1) > su and r not in (1 / sml, 1 / big):
                bad("gsequ:rowscale", "R[%d]*rowmax-1 = %s" % (i, float(r * x - 1)))
        else:
            cnt["row-scaled"] += 1
            if abs(r * x - 1) > su:
                bad("gsequ:rowscale", "|R[%d]*rowmax-1| = %s > %s" % (i, float(abs(r * x - 1)), float(su)))
    tru = max(rowmax)
    if abs(sc["amax"] - tru) > (u * tru if cplx else 0):
        bad("gsequ:amax", "amax=%s true=%s" % (co["amax"], float(tru)))
    # reported ratio = min R / max R
    rat = min(Rc) / max(Rc)
    rc = sc["rowcnd"]
    if tru < sml * (1 - 2 * u):
        # finding F-C11-b (all magnitudes below smlnum): rowcnd = smlnum/amax > 1 is not a ratio min/max
        if rc > 1:
            cnt["finding:rowcnd-above-one"] += 1
            ctx.violation("gsequ:rowcnd-above-one", "%s: every |a_ij| < smlnum, all R(i)=bignum so min R/max R = 1, but rowcnd=%s (= smlnum/amax > 1)" % (tag, co["rowcnd"]),
                          {"case": cs.blob(), "rowcnd": co["rowcnd"].hex()})
    elif rat >= two(EMIN[p]) and abs(rc - rat) > 4 * u * rat:
        bad("gsequ:rowcnd", "rowcnd=%s, min R/max R=%s" % (co["rowcnd"], float(rat)))
    elif rat < two(EMIN[p]) and abs(rc - rat) > two(EMIN[p] - PBITS[p] + 1):
        bad("gsequ:rowcnd", "rowcnd=%s, min R/max R underflows" % co["rowcnd"])
    if co["info"] != 0:
        return
    # columns of diag(R)*A, with the returned R
    colmax = [Fr(0)] * n
    for i, j, v, k in cs.entries():
        colmax[j] = max(colmax[j], mag(v, cplx) * Rc[i])
    sv = (4 if cplx else 3) * u
    for j in range(n):
        c = Cc[j]
        if c is None or c <= 0:
            bad("gsequ:positive", "C[%d]=%s" % (j, co["C"][j])); return
        x = colmax[j]
        if x < two(EMIN[p]):
            cnt["col-underflow"] += 1; continue
        if x < sml * (1 + 4 * u) or x > big * (1 - 4 * u):
            cnt["col-clip"] += 1
            if c not in (1 / sml, 1 / big) and abs(c * x - 1) > sv:
                bad("gsequ:colscale", "C[%d]" % j)
            continue
        cnt["col-scaled"] += 1
        if abs(c * x - 1) > sv:
            bad("gsequ:colscale", "|C[%d]*colmax-1| = %s > %s" % (j, float(abs(c * x - 1)), float(sv)))
    rat = min(Cc) / max(Cc); cc = sc["colcnd"]
    if rat >= two(EMIN[p]) and abs(cc - rat) > 4 * u * rat and max(colmax) >= sml:
        bad("gsequ:colcnd", "colcnd=%s, min C/max C=%s" % (co["colcnd"], float(rat)))


def table_flag(consts, rowcnd, colcnd, amax):
    """the documented decision (dlaqgs.c header): row scaling iff rowcnd < THRESH or amax outside [small, large];
    column scaling iff colcnd < THRESH"""
    rs = rowcnd < THRESH or amax < consts["small"] or amax > consts["large"]
    csb = colcnd < THRESH
    return (1 if rs else 0) + (2 if csb else 0)


def judge_laqgs(ctx, cs, co, mo, consts, cnt):
    p = cs.prec; u = two(-PBITS[p]); cplx = cs.cplx; K = 2 if cplx else 1
    tag = "%s laqgs/%s %dx%d" % (p, cs.mode, cs.m, cs.n)
    def bad(key, what):
        ctx.violation(key, "%s: %s" % (tag, what), {"case": cs.blob(), "code_equed": co.get("equed"), "code_A": [x.hex() for x in co.get("A", [])],
                                                   "model": {k: str(v) for k, v in mo.items()}})
    if co.get("same") != 1:
        bad("laqgs:frame", "pattern / R / C modified"); return
    want = 0 if (cs.m == 0 or cs.n == 0) else table_flag(consts, cs.rowcnd, cs.colcnd, cs.amax)
    if co["equed"] != want:
        bad("laqgs:table", "equed=%d, documented table gives %d (rowcnd=%s colcnd=%s amax=%s)" % (co["equed"], want, float(cs.rowcnd), float(cs.colcnd), float(cs.amax))); return
    if co["equed"] != mo["equed"]:
        bad("corr:laqgs-equed", "equed code=%d model=%d" % (co["equed"], mo["equed"])); return
    cnt["equed=%d" % co["equed"]] += 1
    cnt["decision=(%s,%s,%s)" % ("r>=t" if cs.rowcnd >= THRESH else "r<t", "c>=t" if cs.colcnd >= THRESH else "c<t",
                                 "a<small" if cs.amax < consts["small"] else "a>large" if cs.amax > consts["large"] else "a-in")] += 1
    a, b = co["equed"] & 1, (co["equed"] >> 1) & 1
    Ac = [fr(x) for x in co["A"]]
    for i, j, v, k in cs.entries():
        comps = v if cplx else (v,)
        for t in range(K):
            got = Ac[K * k + t]
            orig = comps[t]
            if a == 0 and b == 0:
                if got != orig or math.copysign(1.0, co["A"][K * k + t]) != (1.0 if orig >= 0 else -1.0) and orig != 0:
                    bad("laqgs:noequil-modified", "equed=NOEQUIL but A changed at k=%d" % k); return
                continue
            f = (cs.R[i] if a else 1) * (cs.Cs[j] if b else 1)
            ex = orig * f
            if got is None:
                bad("laqgs:effect", "non-finite A_out at k=%d" % k); return
            if got != mo["A"][K * k + t]:
                if cs.mode == "pow2":
                    bad("corr:laqgs-A", "A_out[%d] code=%s model=%s" % (k, float(got).hex(), mo["A"][K * k + t])); return
            if mo["A"][K * k + t] != ex:
                bad("corr:laqgs-A", "model A_out is not diag(R)^a A diag(C)^b at k=%d" % k); return
            if ex != 0 and abs(ex) < two(EMIN[p]):
                cnt["underflow"] += 1; continue
            nm = a + b
            tol = ((1 + u) ** nm - 1) * abs(ex)
            if abs(got - ex) > tol:
                bad("laqgs:effect", "A_out[%d]=%s, exact scaled value %s, equed=%d" % (k, float(got).hex(), float(ex), co["equed"])); return
    cnt["laqgs-ok"] += 1
    if cs.mode == "pow2":
        cnt["bit-exact"] += 1


def direct_part(ctx, exes, cov):
    """?gsequ / ?laqgs called directly"""
    rng = random.Random(ctx.seed * 7919 + 11)
    quick = ctx.quick()
    per = 1500 if quick else 8000
    nmax = 9 if quick else 24
    cnt = Counter(); samples = []
    jobs = []
    consts_by_p = {}
    for p in "sdcz":
        rc, err, text = run_hequil(exes[p], [])
        consts, _, done = parse_hequil(text)
        if not done or consts is None:
            ctx.violation("harness:crash", "h_equil_%s consts failed rc=%s %s" % (p, rc, err[-200:]), {"prec": p}); return
        consts_by_p[p] = consts
        # sanity of what the model is told (assumption made explicit)
        # ?lamch anchors (SRC/?lamch.c): safe minimum = smallest normal number (its reciprocal does not overflow),
        # eps = 2^-p (rounding), precision = eps*base; ?gsequ / ?laqgs derive bignum, small, large from them
        want = {"sml": two(EMIN[p]), "big": two(-EMIN[p]), "eps": two(-PBITS[p]), "prec": two(1 - PBITS[p]),
                "small": two(EMIN[p]) / two(1 - PBITS[p]), "large": two(1 - PBITS[p]) / two(EMIN[p])}
        if consts != want:
            ctx.violation("consts:unexpected", "machine constants of precision %s differ from the IEEE values: got %s" % (p, {k: float(v).hex() for k, v in consts.items()}),
                          {"prec": p, "got": {k: float(v).hex() for k, v in consts.items()}, "want": {k: float(v).hex() for k, v in want.items()}})
            if not (0 < consts["sml"] <= consts["big"] and 0 < consts["small"] <= consts["large"]):
                return
    cov["machine_constants"] = {p: {k: float(v).hex() for k, v in c.items()} for p, c in consts_by_p.items()}
    modes = ["narrow", "rowbad", "colbad", "both", "huge", "tiny", "extreme", "general", "general", "general"]
    for p in "sdcz":
        cases = limit_battery(p)
        for t in range(per):
            if rng.random() < 0.55:
                cases.append(gen_gsequ(rng, p, modes[t % len(modes)], nmax))
            else:
                cases.append(gen_laqgs(rng, p, consts_by_p[p], "pow2" if t % 2 else "general", nmax))
        B = 120
        for b in range(0, len(cases), B):
            jobs.append((p, cases[b:b + B]))
    def work(job):
        p, cases = job
        rc, err, text = run_hequil(exes[p], cases)
        consts, ops, done = parse_hequil(text)
        mo = run_model(consts_by_p[p], p in "cz", [c.line(dyad) for c in cases])
        return p, cases, rc, err, ops, done, mo
    with ThreadPoolExecutor(C.NPROC) as ex:
        results = list(ex.map(work, jobs))
    total = 0
    for p, cases, rc, err, ops, done, mo in results:
        if rc != 0 or not done or len(ops) != len(cases) or len(mo) != len(cases):
            ctx.violation("harness:crash", "h_equil_%s rc=%s ops=%d/%d model=%d: %s" % (p, rc, len(ops), len(cases), len(mo), err[-300:]),
                          {"prec": p, "cases": [c.blob() for c in cases[:3]]})
            continue
        for cs, co, m_ in zip(cases, ops, mo):
            total += 1
            cnt["prec=" + p] += 1; cnt["op=" + cs.kind] += 1; cnt["mode=" + cs.mode.split(":")[0]] += 1
            if cs.kind == "gsequ":
                judge_gsequ(ctx, cs, co, m_, consts_by_p[p], cnt)
            else:
                judge_laqgs(ctx, cs, co, m_, consts_by_p[p], cnt)
            if len(samples) < 4 and cs.m >= 2 and cs.n >= 2 and total % 97 == 3:
                samples.append({"prec": p, "kind": cs.kind, "mode": cs.mode, "m": cs.m, "n": cs.n, "nnz": len(cs.rowind),
                                "code_info_or_equed": co.get("info", co.get("equed"))})
    cov["direct_evaluations"] = total
    cov["direct_distribution"] = dict(sorted(cnt.items()))
    cov["direct_samples"] = samples
    return total, cnt


# ------------------------------------------------------------------ the expert driver
def drv_case(rng, t, nmax):
    prec = rng.choice("sdcz")
    cplx = prec in "cz"
    n = rng.choice([1, 1, 2, 3] + [rng.randint(2, nmax) for _ in range(6)])
    vmode = rng.choice(["pow2", "pow2", "general"])
    kind = rng.choice(["none", "rows", "cols", "both", "huge", "tiny", "none", "rows", "cols", "both", "zerorow"])
    # dense-ish nonsingular-ish pattern: diagonal + random
    dens = rng.choice([0.2, 0.5, 1.0])
    pat = set((i, i) for i in range(n))
    for i in range(n):
        for j in range(n):
            if rng.random() < dens:
                pat.add((i, j))
    span = 30 if prec in "sc" else 200
    roff = [rng.randint(-span // 2, span // 2) if kind in ("rows", "both") else 0 for _ in range(n)]
    coff = [rng.randint(-span // 2, span // 2) if kind in ("cols", "both") else 0 for _ in range(n)]
    base = 0
    if kind == "huge":
        base = (EMAX[prec] - PBITS[prec] - 16) if prec in "sc" else 985
    if kind == "tiny":
        base = -(EMAX[prec] - PBITS[prec] - 14) if prec in "sc" else -990
    zr = rng.randrange(n) if kind == "zerorow" and n > 1 else None
    if zr is not None:
        # keep every column non-empty (an empty column crashes the factorization: defect F2 of another property)
        for j in range(n):
            pat.add(((zr + 1 + rng.randrange(n - 1)) % n, j))
    ents = {}
    dominant = rng.random() < 0.75      # D1*(diagonally dominant)*D2 is nonsingular: the solve / X comparison is reached
    for (i, j) in sorted(pat):
        if i == zr:
            continue
        e = base + roff[i] + coff[j] + ((6 if i == j else rng.randint(-1, 0)) if dominant else rng.randint(-1, 1))
        if vmode == "pow2":
            v = pow2_entry(rng, e, cplx, prec)
        else:
            v = (rand_float(rng, prec, e), rand_float(rng, prec, e - rng.randint(0, 3))) if cplx else rand_float(rng, prec, e)
        ents[(i, j)] = v
    nrhs = rng.choice([1, 1, 2, 3])
    ld = n + rng.choice([0, 0, 2])
    def bval():
        if vmode == "pow2":
            return Fr(rng.randint(-4, 4))
        return rand_float(rng, prec, rng.randint(-2, 2))
    rhs = [[((bval(), bval()) if cplx else bval()) for _ in range(n)] for _ in range(nrhs)]
    cfg = {"t": t, "prec": prec, "n": n, "vmode": vmode, "kind": kind, "nrhs": nrhs, "ld": ld,
           "stype": rng.choice(["NC", "NR"]), "trans": rng.choice([0, 1, 2]), "nprocs": rng.choice([1, 1, 2]),
           "fact": rng.choice([1, 1, 1, 2]) if zr is None else 1,     # EQUILIBRATE, or DOFACT followed by FACTORED with user-supplied equed/R/C
           "equed_user": rng.randrange(4), "zr": zr}
    if cfg["fact"] == 2:
        sp = 6
        cfg["Ru"] = [two(rng.randint(-sp, sp)) if vmode == "pow2" else abs(rand_float(rng, prec, rng.randint(-sp, sp))) for _ in range(n)]
        cfg["Cu"] = [two(rng.randint(-sp, sp)) if vmode == "pow2" else abs(rand_float(rng, prec, rng.randint(-sp, sp))) for _ in range(n)]
    return cfg, ents, rhs


def storage(cfg, ents):
    """arrays handed to the library: compressed columns (NC) or compressed rows (NR); either way the
    driver's internal NC view AA reads them as compressed columns"""
    n = cfg["n"]
    ptr = [0]; ind = []; vals = []
    for a in range(n):
        for b in range(n):
            key = (b, a) if cfg["stype"] == "NC" else (a, b)
            if key in ents:
                ind.append(b); vals.append(ents[key])
        ptr.append(len(ind))
    return ptr, ind, vals


def flat(vals, cplx, f):
    out = []
    for v in vals:
        if cplx:
            out += [f(v[0]), f(v[1])]
        else:
            out.append(f(v))
    return " ".join(out)


def drv_script(cfg, ents, rhs):
    cplx = cfg["prec"] in "cz"; n = cfg["n"]
    ptr, ind, vals = storage(cfg, ents)
    s = "ienv 4 2 8 200 100 -50 -50 -30\nperturb 0 1\n"
    s += "mat 0 %s %d %d\n%s\n%s\n%s\n" % (cfg["stype"], n, len(ind), " ".join(map(str, ptr)), " ".join(map(str, ind)), flat(vals, cplx, hexq))
    rhs_txt = "rhs 0 %d %d %d\n" % (n, cfg["nrhs"], cfg["ld"]) + "".join(flat(col, cplx, hexq) + "\n" for col in rhs)
    s += rhs_txt
    s += "permc_get 0 0\n"
    g = lambda fact, trans: "gssvx 0 0 %d %d %d 0 0 0x1p+0 4 2 0 0\n" % (cfg["nprocs"], fact, trans)
    if cfg["fact"] == 1:
        s += g(1, cfg["trans"])            # EQUILIBRATE
        if cfg["zr"] is None:
            s += "setequed 0\n" + g(2, cfg["trans"])   # same factors, scaled A/B as left by the first call, no equilibration
    else:
        s += g(0, cfg["trans"])            # DOFACT (equed := NOEQUIL, B untouched)
        s += "setequed %d\nsetRC %d %s %s\n" % (cfg["equed_user"], n, " ".join(hexq(x) for x in cfg["Ru"]), " ".join(hexq(x) for x in cfg["Cu"]))
        s += g(2, cfg["trans"])            # FACTORED with the user's equed / R / C
        s += "setequed 0\n" + g(2, cfg["trans"])
    s += "quit\n"
    return s, (ptr, ind, vals)


def drv_model_line(cfg, sto, rhs, fact, eq_in, R0, C0):
    cplx = cfg["prec"] in "cz"; n = cfg["n"]
    ptr, ind, vals = sto
    return "gssvx %d %d %d %d %d %d %d %s %s %s %d %s %s %s\n" % (
        1 if cfg["stype"] == "NR" else 0, cfg["trans"], fact, eq_in, n, n, len(ind), " ".join(map(str, ptr)), " ".join(map(str, ind)),
        flat(vals, cplx, dyad), cfg["nrhs"], " ".join(flat(col, cplx, dyad) for col in rhs), " ".join(dyad(x) for x in R0), " ".join(dyad(x) for x in C0))


def doc_b_which(stype, trans, equed):
    """B argument documentation of p?gssvx (header comment): which vector multiplies B"""
    rowequ, colequ = equed in (1, 3), equed in (2, 3)
    if stype == "NC":
        if trans == 0:
            return 1 if rowequ else 0
        return 2 if colequ else 0
    if trans == 0:
        return 2 if colequ else 0
    return 1 if rowequ else 0


def doc_x_which(stype, trans, equed):
    """solution of the original system from the scaled one (mathematics of op(A) X = B)"""
    rowequ, colequ = equed in (1, 3), equed in (2, 3)
    nt = (trans == 0) != (stype == "NR")
    if nt:
        return 2 if colequ else 0
    return 1 if rowequ else 0


def driver_part(ctx, cov):
    from vlib import drv as D
    rng = random.Random(ctx.seed * 104729 + 5)
    quick = ctx.quick()
    ncases = 3000 if quick else 20000
    nmax = 8 if quick else 20
    exes = C.build_harness_all_prec("h_drv.c", "plain")
    hq = C.build_harness_all_prec("h_equil.c", "plain")
    consts_by_p = {}
    for p in "sdcz":
        consts_by_p[p], _, _ = parse_hequil(run_hequil(hq[p], [])[2])
    cases = [drv_case(rng, t, nmax) for t in range(ncases)]
    def one(c):
        cfg, ents, rhs = c
        script, sto = drv_script(cfg, ents, rhs)
        ops, done, rc, err = D.run_script(exes[cfg["prec"]], script, timeout=120)
        return cfg, ents, rhs, sto, ops, done, rc, err, script
    with ThreadPoolExecutor(C.NPROC) as ex:
        recs = list(ex.map(one, cases))
    cnt = Counter(); samples = []
    model_jobs = {p: [] for p in "sdcz"}     # (rec index, line)
    judged = []
    for idx, (cfg, ents, rhs, sto, ops, done, rc, err, script) in enumerate(recs):
        p = cfg["prec"]; n = cfg["n"]
        nops = (2 if cfg["zr"] is None else 1) if cfg["fact"] == 1 else 3
        rep = {"cfg": {k: (v if not isinstance(v, list) else [hexq(x) for x in v]) for k, v in cfg.items()}, "script": script}
        if len(ops) >= 1 and len(ops) < nops and 0 < ops[-1].get("info", -1) <= n and not ops[-1].get("truncated"):
            # exactly singular factor: a later FACTORED call on it is not meaningful (complex twins abort in z_div); judge what ran
            cnt["singular-first-call"] += 1
            if cfg["fact"] == 2 and len(ops) < 2:
                continue
        elif rc != 0 or not done or len(ops) != nops:
            ctx.violation("driver:crash", "h_drv_%s rc=%s done=%s ops=%d n=%d stype=%s trans=%d kind=%s: %s" % (
                p, rc, done, len(ops), n, cfg["stype"], cfg["trans"], cfg["kind"], (err or "")[-200:]), rep)
            continue
        main = ops[0] if cfg["fact"] == 1 else ops[1]
        after = ops[-1]
        if cfg["fact"] == 1:
            eq_in, R0, C0, fact = 0, [Fr(1)] * n, [Fr(1)] * n, 1
        else:
            eq_in, R0, C0, fact = cfg["equed_user"], cfg["Ru"], cfg["Cu"], 2
            # DOFACT call: equed := NOEQUIL, A and B bit-identical
            o0 = ops[0]
            if o0["equed"] != 0 or o0["A.val.same"] != 1 or o0["B.same"] != 1:
                ctx.violation("driver:dofact-frame", "fact=DOFACT: equed=%d A.same=%d B.same=%d" % (o0["equed"], o0["A.val.same"], o0["B.same"]), rep); continue
        if (main["xerbla"][0] != 0 and "gssvx" in main["xerbla"][1]) or main["info"] < -1:
            ctx.violation("driver:rejected", "p%sgssvx rejected a legal call: info=%d xerbla=%s" % (p, main["info"], main["xerbla"]), rep); continue
        model_jobs[p].append((idx, drv_model_line(cfg, sto, rhs, fact, eq_in, R0, C0)))
        judged.append((idx, main, after, eq_in, R0, C0, fact, rep))
    # model runs, one per precision
    mres = {}
    def runm(p):
        if not model_jobs[p]:
            return p, []
        return p, run_model(consts_by_p[p], p in "cz", [l for _, l in model_jobs[p]])
    with ThreadPoolExecutor(4) as ex:
        for p, res in ex.map(runm, "sdcz"):
            for (idx, _), r in zip(model_jobs[p], res):
                mres[idx] = r
    for idx, main, after, eq_in, R0, C0, fact, rep in judged:
        cfg, ents, rhs, sto = recs[idx][:4]
        judge_driver(ctx, cfg, sto, rhs, main, after, mres.get(idx), eq_in, R0, C0, fact, rep, consts_by_p[cfg["prec"]], cnt)
        if len(samples) < 4 and cfg["n"] >= 3 and idx % 53 == 7:
            samples.append(dict(rep["cfg"], equed=main["equed"], info=main["info"]))
    cov["driver_evaluations"] = len(recs)
    cov["driver_distribution"] = dict(sorted(cnt.items()))
    cov["driver_samples"] = samples
    return len(recs), cnt


def judge_driver(ctx, cfg, sto, rhs, main, after, mo, eq_in, R0, C0, fact, rep, consts, cnt):
    p = cfg["prec"]; n = cfg["n"]; cplx = p in "cz"; K = 2 if cplx else 1; u = two(-PBITS[p])
    ptr, ind, vals = sto
    tag = "%s n=%d %s trans=%d fact=%d kind=%s/%s" % (p, n, cfg["stype"], cfg["trans"], fact, cfg["kind"], cfg["vmode"])
    def bad(key, what):
        r = dict(rep); r["code"] = {"equed": main["equed"], "info": main["info"], "R": [x.hex() for x in main["R"]], "C": [x.hex() for x in main["C"]],
                                    "A.val": [x.hex() for x in main["A.val"]], "B": [x.hex() for x in main["B"]], "X": [x.hex() for x in main["X"]]}
        r["model"] = {k: str(v) for k, v in (mo or {}).items()}
        ctx.violation(key, "%s: %s" % (tag, what), r)
    eq = main["equed"]
    cnt["prec=" + p] += 1; cnt["stype=" + cfg["stype"]] += 1; cnt["trans=%d" % cfg["trans"]] += 1; cnt["fact=%d" % fact] += 1
    cnt["equed=%d" % eq] += 1; cnt["kind=" + cfg["kind"]] += 1; cnt["vmode=" + cfg["vmode"]] += 1
    cnt["cell %s trans=%d equed=%d" % (cfg["stype"], cfg["trans"], eq)] += 1
    Rc = [fr(x) for x in main["R"]]; Cc = [fr(x) for x in main["C"]]
    Ac = [fr(x) for x in main["A.val"]]; Bc = [fr(x) for x in main["B"]]
    exact = cfg["vmode"] == "pow2"
    if mo is None:
        bad("driver:model-missing", "no model result"); return
    # ---- discrete: flag
    if fact == 2 and eq != eq_in:
        bad("driver:equed", "fact=FACTORED changed equed %d -> %d" % (eq_in, eq)); return
    if exact and eq != mo["equed"]:
        bad("corr:driver-equed", "equed code=%d model=%d" % (eq, mo["equed"])); return
    if not exact and eq != mo["equed"]:
        # general values: the model decides on exact ratios, the code on rounded ones: near-tie?
        mr = mo["R"]; mc = mo["C"]
        amb = False
        if mo["info1"] == 0:
            r_ = min(mr) / max(mr); c_ = min(mc) / max(mc)
            amb = abs(r_ - THRESH) <= 16 * u * THRESH or abs(c_ - THRESH) <= 16 * u * THRESH
        if amb:
            cnt["ambiguous"] += 1; return
        bad("corr:driver-equed", "equed code=%d model=%d (no near tie)" % (eq, mo["equed"])); return
    a, b = eq & 1, (eq >> 1) & 1
    # ---- R, C
    if fact == 2:
        if Rc != list(R0) or Cc != list(C0):
            bad("driver:rc-modified", "fact=FACTORED modified R / C"); return
    elif exact:
        if Rc != mo["R"] or Cc != mo["C"]:
            bad("corr:driver-RC", "R/C differ from the model"); return
    else:
        for name, cv, mv in (("R", Rc, mo["R"]), ("C", Cc, mo["C"])):
            for i in range(n):
                if cv[i] is None or cv[i] <= 0:
                    if mo["info1"] == 0:
                        bad("driver:positive", "%s[%d]=%s" % (name, i, cv[i])); return
                elif abs(cv[i] - mv[i]) > 6 * u * abs(mv[i]):
                    bad("corr:driver-RC", "%s[%d] code=%s model=%s" % (name, i, float(cv[i]), float(mv[i]))); return
    # ---- A_out = diag(R)^a AA diag(C)^b (AA = NC view of the stored arrays), B_out, with (a,b) from the flag
    if fact == 2:
        if main["A.val.same"] != 1:
            bad("driver:A-modified", "fact=FACTORED modified A"); return
    if eq == 0 and fact != 2:
        if main["A.val.same"] != 1 or main["B.same"] != 1:
            bad("driver:noequil-modified", "equed=NOEQUIL but A.same=%d B.same=%d" % (main["A.val.same"], main["B.same"])); return
        cnt["noequil-bit-identical"] += 1
    if main["A.ptr.same"] != 1 or main["A.ind.same"] != 1:
        bad("driver:pattern", "pattern arrays modified"); return
    if fact != 2:
        for j in range(n):
            for k in range(ptr[j], ptr[j + 1]):
                i = ind[k]
                comps = vals[k] if cplx else (vals[k],)
                f = (Rc[i] if a else 1) * (Cc[j] if b else 1)
                for t in range(K):
                    got = Ac[K * k + t]; ex = comps[t] * f
                    if exact and got != mo["A"][K * k + t]:
                        bad("corr:driver-A", "A_out[%d] code=%s model=%s" % (k, got, mo["A"][K * k + t])); return
                    if got is None:
                        bad("driver:effect", "non-finite A_out"); return
                    if ex != 0 and abs(ex) < two(EMIN[p]):
                        cnt["underflow"] += 1; continue
                    if abs(got - ex) > ((1 + u) ** (a + b) - 1) * abs(ex):
                        bad("driver:effect", "A_out[%d]=%s but diag(R)^%d A diag(C)^%d gives %s" % (k, float(got).hex(), a, b, float(ex))); return
    # B
    bw = doc_b_which(cfg["stype"], cfg["trans"], eq)
    if bw != mo["bw"] and eq == mo["equed"]:
        bad("corr:driver-frame", "documented B rule %d, model %d" % (bw, mo["bw"])); return
    S = [Fr(1)] * n if bw == 0 else (Rc if bw == 1 else Cc)
    ld = cfg["ld"]
    cnt["B scaled by %s" % ["none", "R", "C"][bw]] += 1
    for r_ in range(cfg["nrhs"]):
        for i in range(n):
            comps = rhs[r_][i] if cplx else (rhs[r_][i],)
            for t in range(K):
                got = Bc[K * (r_ * ld + i) + t]; ex = comps[t] * S[i]
                if bw == 0:
                    if got != comps[t]:
                        bad("driver:B-modified", "B[%d,%d] changed although no scaling applies" % (i, r_)); return
                    continue
                if exact and got != mo["B"][K * (r_ * n + i) + t]:
                    bad("corr:driver-B", "B_out[%d,%d] code=%s model=%s" % (i, r_, got, mo["B"][K * (r_ * n + i) + t])); return
                if got is None:
                    bad("driver:B-effect", "non-finite B_out"); return
                if ex != 0 and abs(ex) < two(EMIN[p]):
                    cnt["underflow"] += 1; continue
                if abs(got - ex) > u * abs(ex):
                    bad("driver:B-effect", "B_out[%d,%d]=%s, B*%s gives %s" % (i, r_, float(got).hex(), "RC"[bw - 1], float(ex))); return
        # padding rows of B untouched
        for i in range(n, ld):
            for t in range(K):
                if main["B"][K * (r_ * ld + i) + t] != -7777.0:
                    bad("driver:B-padding", "padding of B written"); return
    if bw == 0 and main["B.same"] != 1:
        bad("driver:B-modified", "B not bit-identical although no scaling applies"); return
    # ---- X: solution of the scaled system (second call, equed=NOEQUIL) times the matching factor
    xw = doc_x_which(cfg["stype"], cfg["trans"], eq)
    if xw != mo["xw"]:
        bad("corr:driver-frame", "X rule: mathematics %d, model %d" % (xw, mo["xw"])); return
    okinfo = lambda o: o["info"] == 0 or o["info"] == n + 1
    if after is not main and okinfo(main) and okinfo(after) and after["xerbla"][0] == 0 and main["xerbla"][0] == 0:
        Xm = [fr(x) for x in main["X"]]; Y = [fr(x) for x in after["X"]]
        S = [Fr(1)] * n if xw == 0 else (Rc if xw == 1 else Cc)
        fin = all(x is not None for x in Xm) and all(y is not None for y in Y)
        if not fin:
            cnt["X-nonfinite"] += 1
        else:
            cnt["X scaled by %s" % ["none", "R", "C"][xw]] += 1
            for r_ in range(cfg["nrhs"]):
                for i in range(n):
                    for t in range(K):
                        q = K * (r_ * ld + i) + t
                        ex = Y[q] * S[i]
                        if xw == 0:
                            if Xm[q] != Y[q]:
                                bad("driver:X-scale", "X differs from the unscaled solve although no scaling applies at (%d,%d)" % (i, r_)); return
                        elif ex != 0 and abs(ex) < two(EMIN[p]):
                            cnt["underflow"] += 1
                        elif abs(Xm[q] - ex) > u * abs(ex):
                            bad("driver:X-scale", "X[%d,%d]=%s, scaled-system solution %s times %s[%d]=%s gives %s" % (
                                i, r_, float(Xm[q]).hex(), float(Y[q]).hex(), "RC"[xw - 1], i, float(S[i]), float(ex))); return
            cnt["X-checked"] += 1
    else:
        cnt["X-skipped(info=%s)" % ("neg" if main["info"] < 0 else "singular" if main["info"] <= n else "other")] += 1
    cnt["driver-ok"] += 1


def run(ctx):
    t0 = time.time()
    C.build_lib("plain")
    exes = C.build_harness_all_prec("h_equil.c", "plain")
    cov = ctx.coverage
    n1, c1 = direct_part(ctx, exes, cov) or (0, Counter())
    t1 = time.time()
    n2, c2 = driver_part(ctx, cov)
    cov["evaluations"] = n1 + n2
    cov["distinct_nontrivial"] = c1.get("bit-exact", 0) + c1.get("laqgs-ok", 0) + c2.get("driver-ok", 0)
    cov["rule"] = ("direct: seeded random compressed-column matrices (square, rectangular, 1x1, empty; zero rows/columns, duplicates, stored zeros, unsorted rows) with "
                   "power-of-two entries (modes narrow/rowbad/colbad/both/huge/tiny/extreme = whole exponent range incl. subnormals) or general floats, "
                   "all four precisions, plus a fixed battery of clip-limit matrices; laqgs with rowcnd/colcnd/amax on and next to every threshold. "
                   "driver: p?gssvx through h_drv for precision x {NC,NR} x trans {N,T,C} x fact {EQUILIBRATE, FACTORED with user equed/R/C} x "
                   "scaling kind {none, rows, cols, both, huge, tiny, zero row}; non-trivial = case judged to the end (bit-exact / oracle passed).")
    cov["samples"] = cov.get("direct_samples", []) + cov.get("driver_samples", [])
    cov["wall_direct_s"] = round(t1 - t0, 1); cov["wall_driver_s"] = round(time.time() - t1, 1)
    ctx.log("direct %d cases %.1fs, driver %d cases %.1fs" % (n1, t1 - t0, n2, time.time() - t1))


def replay(ctx, obj):
    print(json.dumps(obj, indent=1)[:6000])
    print("replay: re-run `VERIF_SEED=%s python3 check.py C11 --tier %s` (cases are regenerated from the seed); the blob above holds the exact inputs as hex floats" % (obj.get("seed"), obj.get("tier")))
    return 0
