"""C10 — orderings are bijections; preprocessing yields A*Pc and its postordered etree."""
import os, random, subprocess, time, json
from collections import Counter
from concurrent.futures import ThreadPoolExecutor
from vlib import common as C

LEVEL = "proof"
EXPLANATION = (
    "Theorems (Props/C10.lean, 20 audited) about the executable model Model/Etree.lean of TreePostorder/nr_etdfs, "
    "find/link (path halving), sp_coletree, sp_symetree, sp_colorder, at_plus_a and the supernode-partition passes of "
    "qrnzcnt/cholnzcnt: for EVERY forest the non-recursive postorder is a permutation with exact fuel (postorder_perm, "
    "postorder_fuel), the relabelled forest is postordered with contiguous subtrees (postorder_contiguous), postordered "
    "forests are left unchanged (postorder_stable), AC is a view of A and perm_c' = post o perm_c for every pattern and "
    "bijection (colorder_view, colorder_permc_comp, colorder_refact_view), path-halving find returns the root and "
    "preserves the partition (uf_find_halving, uf_link), Liu's algorithm = reference etree by naive symbolic "
    "elimination for every input (symetree_eq_ref, coletree_eq_ref via the first-column-star lemma, "
    "colorder_etree_ref), a postorder is an equivalent reordering so the reported etree is the column etree of the FINAL "
    "A*Pc (etree_reorder, colorder_final_etree), part_super_h of the model is always a block partition (part_super_model) and the block / "
    "postordered checkers are sound and complete (part_super_blocks, checkPostordered_iff).  The model is tied to the "
    "real routines by a differential run (h_pre vs `sludrv pre`) on exhaustive small and sampled patterns; the real "
    "outputs are judged by the verified checkers (checkPerm, checkPostordered, checkPartSuper) and against the "
    "quadratic reference etree.")
ASSUMPTIONS = [
    "MMD (mmd.c) and COLAMD (colamd.c) are not modelled: 'returns a bijection' is decided for them only by the verified "
    "checkPerm on every sampled / exhaustive-small output",
    "that the reported etree is the etree of the FINAL permuted matrix is proved for the non-symmetric mode "
    "(colorder_final_etree, via etree_reorder: a postorder is an equivalent reordering); in SymmetricMode the graph "
    "Pc(A+A')Pc' built by at_plus_a is modelled but not characterised by a theorem, so there it is judged per run "
    "(key final-etree-vs-reference; the comparison is made in both modes)",
    "correspondence model<->C is sampled/exhaustive-small, not proved; at_plus_a is modelled but its output is not "
    "characterised by a theorem (only used through the etree comparison above)",
    "colcnt_h values are not part of this property (C05); 'colcnt_h >= 1' is judged only when it is implied by the "
    "counting scheme (SymmetricMode, or zero-free diagonal of the final A*Pc); other cases are counted in coverage",
    "sp_colorder is exercised on square matrices only (qrnzcnt indexes n-sized arrays by row numbers; the drivers reject "
    "non-square A); sp_coletree and get_perm_c(0,1,3) also on rectangular patterns",
]
TRUSTED = ["harness/h_pre.c glue; checks/c10.py line parsing and comparison"]

WORK = os.path.join(C.BUILD, "c10")


# ------------------------------------------------------------------ generation
def csc_from_cols(m, cols):
    colptr = [0]; rowind = []
    for c in cols:
        rowind += c; colptr.append(len(rowind))
    return {"m": m, "n": len(cols), "colptr": colptr, "rowind": rowind}


def gen_pattern(rng, nmax, force_kind=None):
    kind = force_kind or rng.choice(["random", "random", "sparse", "emptycols", "emptyrows", "denserow", "blocks", "arrow", "band",
                                     "chain", "identity", "dense", "zero", "n1", "rect", "rect", "perm", "tridiag", "lowertri", "uppertri"])
    n = 1 if kind == "n1" else rng.choice([1, 2, 3, 4, 5, 6, 7, 8] + [rng.randint(9, nmax) for _ in range(10)])
    if kind in ("arrowrow_big", "borderrows_big", "denserows_big"):
        # large enough for COLAMD's dense-row / dense-column classification (> max(16, 10*sqrt(n)) entries) to trigger
        n = rng.randint(130, 260)
    m = n
    if kind == "rect":
        m = max(1, rng.choice([n + rng.randint(1, 6), max(1, n - rng.randint(1, min(6, n))), rng.randint(1, nmax)]))
    S = set()
    d = rng.choice([0.02, 0.05, 0.1, 0.2, 0.4])
    if kind in ("random", "rect", "emptycols", "emptyrows", "denserow", "sparse"):
        if kind == "sparse":
            d = min(1.0, 2.5 / max(1, n))
        for j in range(n):
            for i in range(m):
                if rng.random() < d:
                    S.add((i, j))
        if kind in ("random",) and rng.random() < 0.6:
            for j in range(min(m, n)):
                S.add((j, j))
    if kind == "emptycols":
        dead = set(rng.sample(range(n), max(1, n // 3)))
        S = {(i, j) for (i, j) in S if j not in dead}
    if kind == "emptyrows":
        dead = set(rng.sample(range(m), max(1, m // 3)))
        S = {(i, j) for (i, j) in S if i not in dead}
    if kind == "denserow":
        for r in rng.sample(range(m), min(m, rng.randint(1, 2))):
            for j in range(n):
                S.add((r, j))
    if kind == "arrowrow_big":
        for j in range(n):
            S.add((j, j)); S.add((0, j))
        if rng.random() < 0.5:
            for j in range(n): S.add((n - 1, j))
    if kind == "borderrows_big":
        r1, r2 = rng.sample(range(n), 2)
        for j in range(n):
            S.add((r1, j)); S.add((r2, j))
            if j not in (r1, r2):
                S.add((j, j))
                if j + 1 < n and j + 1 not in (r1, r2): S.add((j + 1, j)); S.add((j, j + 1))
        # a few columns that live only in the dense rows
        for c in rng.sample(range(n), 3):
            S = {(i, j) for (i, j) in S if j != c or i in (r1, r2)}
    if kind == "denserows_big":
        for r in rng.sample(range(n), rng.randint(1, 3)):
            for j in range(n): S.add((r, j))
        for c in rng.sample(range(n), rng.randint(1, 3)):
            for i in range(n): S.add((i, c))
        for j in range(n):
            if rng.random() < 0.7: S.add((j, j))
            if rng.random() < 0.3: S.add((rng.randrange(n), j))
    if kind == "blocks":
        b = rng.randint(1, 5)
        for j in range(n):
            for i in range((j // b) * b, min(n, (j // b) * b + b)):
                if rng.random() < 0.7:
                    S.add((i, j))
    if kind == "arrow":
        for j in range(n):
            S.add((j, j)); S.add((n - 1, j)); S.add((j, n - 1))
            if rng.random() < 0.3: S.add((0, j))
    if kind == "band":
        b = rng.randint(1, max(1, min(5, n - 1)))
        for j in range(n):
            for i in range(max(0, j - b), min(n, j + b + 1)):
                if rng.random() < 0.8: S.add((i, j))
    if kind == "chain":
        for j in range(n):
            S.add((j, j))
            if j + 1 < n: S.add((j + 1, j))
    if kind == "tridiag":
        for j in range(n):
            S.add((j, j))
            if j + 1 < n: S.add((j + 1, j)); S.add((j, j + 1))
    if kind == "identity" or kind == "n1":
        for j in range(n):
            if kind == "identity" or rng.random() < 0.7: S.add((j, j))
    if kind == "perm":
        p = list(range(n)); rng.shuffle(p)
        for j in range(n): S.add((p[j], j))
        for _ in range(rng.randint(0, n)):
            S.add((rng.randrange(n), rng.randrange(n)))
    if kind == "dense":
        for j in range(n):
            for i in range(n):
                if rng.random() < 0.9: S.add((i, j))
    if kind in ("lowertri", "uppertri"):
        for j in range(n):
            for i in range(n):
                if ((i >= j) if kind == "lowertri" else (i <= j)) and rng.random() < 0.5: S.add((i, j))
    cols = [[] for _ in range(n)]
    for (i, j) in S:
        cols[j].append(i)
    shuffle_rows = rng.random() < 0.25
    for c in cols:
        c.sort()
        if shuffle_rows: rng.shuffle(c)
    M = csc_from_cols(m, cols)
    M["kind"] = kind + ("+unsorted" if shuffle_rows else "")
    return M


def gen_forest(rng, k):
    """parent array on k vertices (root's parent = k); several shapes, arbitrary labelling allowed."""
    shape = rng.choice(["etree", "etree", "arbitrary", "chain", "star", "roots", "postordered", "revchain"])
    if shape == "etree":
        par = [rng.choice([k] + list(range(v + 1, k)) * 3) if v + 1 < k else k for v in range(k)]
    elif shape == "arbitrary":
        lab = list(range(k)); rng.shuffle(lab)
        par = [k] * k
        for idx in range(1, k):
            if rng.random() < 0.85:
                par[lab[idx]] = lab[rng.randrange(0, idx)]
    elif shape == "chain":
        par = [v + 1 for v in range(k)]
    elif shape == "revchain":
        par = [k] + [v - 1 for v in range(1, k)]
    elif shape == "star":
        par = [k - 1] * (k - 1) + [k]
    elif shape == "roots":
        par = [k] * k
    else:  # already postordered: build from random etree by relabelling with a DFS
        p0 = [rng.choice([k] + list(range(v + 1, k)) * 3) if v + 1 < k else k for v in range(k)]
        kids = [[] for _ in range(k + 1)]
        for v in range(k): kids[p0[v]].append(v)
        order = []
        st = [(k, 0)]
        while st:
            v, i = st.pop()
            if i < len(kids[v]):
                st.append((v, i + 1)); st.append((kids[v][i], 0))
            else:
                order.append(v)
        num = {v: i for i, v in enumerate(order)}
        par = [0] * k
        for v in range(k): par[num[v]] = num[p0[v]]
    return par, shape


def case_text(M):
    return "case %d %d %d %s %s\n" % (M["m"], M["n"], len(M["rowind"]), " ".join(map(str, M["colptr"])), " ".join(map(str, M["rowind"])))


# ------------------------------------------------------------------ running
def parse_lines(text):
    d = {}
    for line in text.split("\n"):
        t = line.split()
        if len(t) >= 3 and t[0] not in ("case",):
            try:
                d[(t[0], t[1])] = [int(x) for x in t[3:]] if t[0] not in ("chkperm", "chkpost", "chkpart", "exhaust") else [int(x) for x in t[2:]]
            except ValueError:
                pass
    return d


def run_h(exe, script, tag, timeout=180):
    """run the harness in a child process; -> (dict, ok, rc, stderr)"""
    os.makedirs(WORK, exist_ok=True)
    fi = os.path.join(WORK, "%s.in" % tag); fo = os.path.join(WORK, "%s.out" % tag)
    open(fi, "w").write(script)
    if os.path.exists(fo): os.remove(fo)
    try:
        r = subprocess.run([exe, fi, fo], capture_output=True, text=True, timeout=timeout, env=C.ENV)
        rc, err = r.returncode, r.stderr
    except subprocess.TimeoutExpired:
        rc, err = None, "timeout"
    txt = open(fo).read() if os.path.exists(fo) else ""
    ok = rc == 0 and txt.rstrip().endswith("done")
    return parse_lines(txt), ok, rc, err[-600:]


def run_batch(exe, cases, stage, tag):
    """cases: list of (cid, M, ops_text).  Runs the whole batch in one child; when the child dies the cases are
    re-run one by one so that the crashing input is identified.  -> (results dict, crashes list)"""
    script = "".join(case_text(M) + ops + "end\n" for (_, M, ops) in cases) + "quit\n"
    d, ok, rc, err = run_h(exe, script, "%s_%s" % (stage, tag))
    crashes = []
    if not ok:
        # the child died (abort / signal / hang): re-run case by case to name the input.  A crashing library can
        # corrupt memory in many cases of the batch; three identified inputs are enough for a report.
        d = {}
        for (cid, M, ops) in cases:
            if len(crashes) >= 3:
                break
            s1 = case_text(M) + ops + "end\nquit\n"
            d1, ok1, rc1, err1 = run_h(exe, s1, "%s_%s_single" % (stage, tag), timeout=30)
            if ok1:
                d.update(d1)
            else:
                # isolate the op
                bad_op = None
                for opl in [l for l in ops.split("\n") if l]:
                    s2 = case_text(M) + opl + "\nend\nquit\n"
                    d2, ok2, rc2, err2 = run_h(exe, s2, "%s_%s_op" % (stage, tag), timeout=30)
                    if ok2: d.update(d2)
                    elif bad_op is None: bad_op = (opl, "timeout" if rc2 is None else rc2, err2)
                crashes.append((cid, M, bad_op or (ops, "timeout" if rc1 is None else rc1, err1)))
    return d, script, crashes


def model_run(script):
    return parse_lines(C.run_sludrv("pre", script, timeout=1800))


def chunks(xs, k):
    return [xs[i:i + k] for i in range(0, len(xs), k)]


def permuted_case(M, permc):
    """CSC of A*Pc: column permc[j] of the result is column j of A."""
    n = M["n"]; inv = [0] * n
    for j in range(n): inv[permc[j]] = j
    cols = [M["rowind"][M["colptr"][inv[k]]:M["colptr"][inv[k] + 1]] for k in range(n)]
    return csc_from_cols(M["m"], cols)


def sym_permuted_case(M, permc):
    """pattern of Pc*(A+A')*Pc' (off-diagonal), as CSC"""
    n = M["n"]; cols = [set() for _ in range(n)]
    for j in range(n):
        for p in range(M["colptr"][j], M["colptr"][j + 1]):
            i = M["rowind"][p]
            if i != j:
                cols[permc[j]].add(permc[i]); cols[permc[i]].add(permc[j])
    return csc_from_cols(n, [sorted(c) for c in cols])


def is_perm(p, n):
    return len(p) == n and sorted(p) == list(range(n))


# ------------------------------------------------------------------ the check
def all_patterns(m, n):
    for code in range(1 << (m * n)):
        cols = [[i for i in range(m) if (code >> (j * m + i)) & 1] for j in range(n)]
        M = csc_from_cols(m, cols); M["kind"] = "exh%dx%d" % (m, n)
        yield M


def run(ctx):
    quick = ctx.quick()
    rng = random.Random(ctx.seed * 7919 + 10)
    C.build_lib("plain")
    exe = C.build_harness("h_pre.c")
    nmax = 60 if quick else 300
    nsamp = 3000 if quick else 12000
    refmax = 60 if quick else 120
    exh = 3 if quick else 4
    t0 = time.time()
    cases = []   # (cid, M, kindtag)
    for n in range(1, exh + 1):
        for m in range(1, exh + 1):
            if m != n and (m * n > 9): continue
            for M in all_patterns(m, n):
                cases.append(M)
    n_exh = len(cases)
    for t in range(nsamp):
        cases.append(gen_pattern(rng, nmax))
    # a few big ones
    for t in range(6 if quick else 40):
        cases.append(gen_pattern(rng, nmax, force_kind=rng.choice(["sparse", "band", "blocks", "arrow", "random"])))
    # patterns that reach COLAMD's dense-row / newly-null-column code (needs n well above 100)
    for t in range(9 if quick else 60):
        cases.append(gen_pattern(rng, nmax, force_kind=["arrowrow_big", "borderrows_big", "denserows_big"][t % 3]))
    for i, M in enumerate(cases):
        M["cid"] = "c%d" % i
    dist = Counter()
    # ---------------- stage 1: orderings, etrees, postorder of free-standing forests
    st1 = []
    forests = {}
    for i, M in enumerate(cases):
        cid = M["cid"]; n = M["n"]; sq = M["m"] == n
        ops = ""
        for ispec in (0, 1, 2, 3):
            if ispec == 2 and not sq: continue
            ops += "getperm %s.p%d %d\n" % (cid, ispec, ispec)
        ref = 1 if (n <= refmax and M["m"] <= 2 * refmax) else 0
        ops += "coletree %s.ce %d\n" % (cid, ref)
        if sq: ops += "symetree %s.se %d\n" % (cid, ref)
        if i >= n_exh or i % 7 == 0:
            k = rng.choice([1, 2, 3, 4, 5, 6, 8, 13, rng.randint(1, nmax)])
            par, shape = gen_forest(rng, k)
            forests[cid] = (par, shape)
            ops += "postorder %s.po %d %s\n" % (cid, k, " ".join(map(str, par)))
            dist["forest=" + shape] += 1
        st1.append((cid, M, ops))
        dist["kind=" + M["kind"].split("+")[0]] += 1
        dist["shape=" + ("square" if sq else "rect")] += 1
        dist["nbucket=%s" % ("1-4" if n <= 4 else "5-16" if n <= 16 else "17-64" if n <= 64 else "65+")] += 1
        if len(M["rowind"]) == 0: dist["nnz=0"] += 1
        if any(M["colptr"][j] == M["colptr"][j + 1] for j in range(n)): dist["has_empty_col"] += 1
    bsz = 400
    def do_stage(stage, items):
        bl = chunks(items, bsz)
        def one(ib):
            ib_i, b = ib
            d, script, crashes = run_batch(exe, b, stage, str(ib_i))
            md = model_run(script)
            return d, md, crashes
        with ThreadPoolExecutor(C.NPROC) as ex:
            res = list(ex.map(one, enumerate(bl)))
        D = {}; MD = {}; CR = []
        for d, md, cr in res:
            D.update(d); MD.update(md); CR += cr
        return D, MD, CR
    D1, M1, CR1 = do_stage("s1", st1)
    byid = {M["cid"]: M for M in cases}
    n_cmp = Counter()
    def replay_of(M, ops, extra=None):
        r = {"m": M["m"], "n": M["n"], "colptr": M["colptr"], "rowind": M["rowind"], "kind": M.get("kind"),
             "script": case_text(M) + ops + "end\nquit\n"}
        if extra: r.update(extra)
        return r
    for (cid, M, bad) in CR1:
        opl, rc, err = bad
        ctx.violation("crash:" + opl.split()[0], "library aborted/crashed (rc=%s) on a valid %dx%d pattern in `%s`: %s" % (
            rc, M["m"], M["n"], opl[:60], err.replace("\n", " ")[-200:]), replay_of(M, opl + "\n"))
    def diff(stage_D, stage_M, ops_of):
        """every line the model printed must be matched exactly by the harness"""
        for key, mv in stage_M.items():
            if key[0].endswith("_ref"): continue
            cv = stage_D.get(key)
            n_cmp[key[0]] += 1
            if cv is None:
                continue  # crashed op: already reported
            if cv != mv:
                cid = key[1].split(".")[0]
                ctx.violation("correspondence:" + key[0], "model and library disagree on %s %s: model=%s code=%s" % (
                    key[0], key[1], mv[:40], cv[:40]), replay_of(byid[cid], ops_of(cid), {"key": list(key), "model": mv, "code": cv}))
    ops1 = {cid: ops for (cid, _, ops) in st1}
    diff(D1, M1, lambda cid: ops1[cid])
    # reference etree vs the library's etree
    for key, rv in M1.items():
        if key[0] in ("coletree_ref", "symetree_ref"):
            cv = D1.get((key[0][:-4], key[1]))
            n_cmp[key[0]] += 1
            if cv is not None and cv != rv:
                cid = key[1].split(".")[0]
                ctx.violation("etree-vs-reference:" + key[0][:-4], "%s differs from the quadratic reference on %s: ref=%s code=%s" % (
                    key[0][:-4], key[1], rv[:40], cv[:40]), replay_of(byid[cid], ops1[cid], {"ref": rv, "code": cv}))
    # ---------------- stage 2: sp_colorder with assorted perm_c (square only)
    st2 = []; co_meta = {}
    for i, M in enumerate(cases):
        cid = M["cid"]; n = M["n"]
        if M["m"] != n: continue
        perms = [("id", list(range(n)))]
        if i >= n_exh or n <= 3 or i % 5 == 0:
            p = list(range(n)); rng.shuffle(p); perms.append(("rand", p))
        for ispec in (1, 2, 3):
            p = D1.get(("getperm%d" % ispec, "%s.p%d" % (cid, ispec)))
            if p is not None and is_perm(p, n) and (i >= n_exh or ispec == 1 or i % 3 == 0):
                perms.append(("ispec%d" % ispec, p))
        ops = ""
        for (pname, p) in perms:
            for symm in (0, 1):
                if i >= n_exh and rng.random() < 0.35: continue
                oid = "%s.%s.s%d" % (cid, pname, symm)
                ops += "colorder %s %d 0 %d %s\n" % (oid, symm, n, " ".join(map(str, p)))
                co_meta[oid] = (cid, p, symm, 0)
                dist["colorder:perm=%s" % pname] += 1; dist["colorder:symm=%d" % symm] += 1
        if i >= n_exh or i % 4 == 0:
            p = list(range(n)); rng.shuffle(p)
            symm = rng.randint(0, 1)
            oid = "%s.refact.s%d" % (cid, symm)
            ops += "colorder %s %d 1 %d %s\n" % (oid, symm, n, " ".join(map(str, p)))
            co_meta[oid] = (cid, p, symm, 1)
            dist["colorder:refact=1"] += 1
        if ops: st2.append((cid, M, ops))
    D2, M2, CR2 = do_stage("s2", st2)
    ops2 = {cid: ops for (cid, _, ops) in st2}
    for (cid, M, bad) in CR2:
        opl, rc, err = bad
        ctx.violation("crash:colorder", "sp_colorder aborted/crashed (rc=%s) on a valid %dx%d pattern: %s" % (
            rc, M["m"], M["n"], err.replace("\n", " ")[-200:]), replay_of(M, opl + "\n"))
    diff(D2, M2, lambda cid: ops2[cid])
    # ---------------- oracle on the library's own output
    orc = []   # oracle script lines (model-only ops)
    want = {}
    def chk(kind, oid, n, arr, cid, what, skey):
        orc.append("%s %s %d %d %s\n" % (kind, oid, n, len(arr), " ".join(map(str, arr))))
        want[(kind, oid)] = (cid, what, arr, skey)
    for key, v in D1.items():
        if key[0].startswith("getperm") and key[0][7:].isdigit():
            cid = key[1].split(".")[0]
            chk("chkperm", key[1], byid[cid]["n"], v, cid, "get_perm_c(%s)" % key[0][7:], "get_perm_c:ispec%s" % key[0][7:])
            dist["ordering:ispec=%s" % key[0][7:]] += 1
        if key[0] == "getperm.guard" and v != [-99]:
            cid = key[1].split(".")[0]
            ctx.violation("getperm-overrun", "get_perm_c wrote perm_c[n] (%s)" % v, replay_of(byid[cid], ops1[cid]))
        if key[0] == "postorder":
            cid = key[1].split(".")[0]; par, shape = forests[cid]; k = len(par)
            chk("chkperm", key[1], k, v[:k], cid, "TreePostorder(%s)" % shape, "TreePostorder")
            if v[k] != k:
                ctx.violation("postorder-root", "TreePostorder: post[n] = %d != n" % v[k], {"parent": par})
            # relabelled forest must be postordered
            if is_perm(v[:k], k):
                rel = [0] * k
                for x in range(k): rel[v[x]] = v[par[x]] if par[x] < k else k
                chk("chkpost", key[1] + ".rel", k, rel, cid, "forest relabelled by TreePostorder (%s)" % shape, "TreePostorder-relabel")
                if shape == "postordered" and v[:k] != list(range(k)):
                    ctx.violation("postorder-stable", "an already postordered forest was renumbered", {"parent": par, "post": v})
    refcases = []
    nview = 0
    for oid, (cid, p, symm, refact) in co_meta.items():
        M = byid[cid]; n = M["n"]
        hdr = D2.get(("co.hdr", oid))
        if hdr is None: continue
        et = D2[("co.etree", oid)]; pc2 = D2[("co.permc", oid)]; cb = D2[("co.colbeg", oid)]; ce = D2[("co.colend", oid)]
        part = D2[("co.part", oid)]; cc = D2[("co.colcnt", oid)]
        rp = lambda extra=None: replay_of(M, "colorder %s %d %d %d %s\n" % (oid, symm, refact, n, " ".join(map(str, p))), extra)
        stype, dtype, mtype, nrow, ncol, nnz, shared, asame, guard, _ = hdr
        if (stype, dtype, mtype, nrow, ncol, nnz) != (1, 1, 0, M["m"], n, len(M["rowind"])):   # SLU_NCP, SLU_D, SLU_GE
            ctx.violation("colorder-header", "AC header wrong: %s" % hdr, rp())
        if not shared: ctx.violation("colorder-not-shared", "AC does not share A's rowind/nzval", rp())
        if not asame: ctx.violation("colorder-A-modified", "sp_colorder altered A", rp())
        if not guard: ctx.violation("colorder-overrun", "sp_colorder wrote past etree/colcnt_h/part_super_h[n-1]", rp())
        chk("chkperm", oid + ".pc", n, pc2, cid, "perm_c after sp_colorder", "sp_colorder-perm_c")
        nview += 1
        if is_perm(pc2, n):
            # view: column pc'[j] of AC is column j of A
            for j in range(n):
                if cb[pc2[j]] != M["colptr"][j] or ce[pc2[j]] != M["colptr"][j + 1]:
                    ctx.violation("colorder-view", "AC column perm_c[%d]=%d is [%d,%d) but A column %d is [%d,%d)" % (
                        j, pc2[j], cb[pc2[j]], ce[pc2[j]], j, M["colptr"][j], M["colptr"][j + 1]), rp()); break
        if refact:
            sent = [-7 - i for i in range(n)]
            if et != sent or part != sent or cc != sent or pc2 != p:
                ctx.violation("colorder-refact-touched", "refact=YES: sp_colorder changed perm_c/etree/colcnt_h/part_super_h", rp())
            continue
        # perm_c changed only by composition with a permutation: post = pc' o pc^-1 is a bijection (implied by both perms)
        chk("chkpost", oid + ".et", n, et, cid, "etree after sp_colorder", "sp_colorder-etree")
        chk("chkpart", oid + ".part", n, part, cid, "part_super_h", "sp_colorder-part_super_h")
        # colcnt_h >= 1 is implied by the counting scheme when SymmetricMode (Cholesky counts include the diagonal) or when
        # the final A*Pc has a zero-free diagonal (row k present in column position k: qrnzcnt identifies row k with etree
        # vertex k).  Without that precondition the values are C05's business; we only count what is seen.
        zfd = all(k in M["rowind"][cb[k]:ce[k]] for k in range(n)) if is_perm(pc2, n) else False
        if symm or zfd:
            dist["colcnt>=1 judged"] += 1
            if any(x < 1 for x in cc):
                ctx.violation("colcnt-nonpositive:symm%d" % symm, "colcnt_h has an entry < 1: %s" % cc[:40], rp({"colcnt": cc}))
        else:
            dist["colcnt: zero diagonal in final order, min=%s" % ("neg" if min(cc) < 0 else "0" if min(cc) == 0 else "pos")] += 1
        if n <= refmax and is_perm(pc2, n):
            R = sym_permuted_case(M, pc2) if symm else permuted_case(M, pc2)
            R["cid"] = oid
            refcases.append((oid, R, ("symetree %s 1\n" if symm else "coletree %s 1\n") % (oid + ".ref")))
            want[("etref", oid)] = (cid, et, rp)
    # run oracle script through the verified checkers
    och = chunks(orc, 3000)
    with ThreadPoolExecutor(C.NPROC) as ex:
        outs = list(ex.map(lambda ls: model_run("".join(ls) + "quit\n"), och))
    nver = Counter()
    for o in outs:
        for key, val in o.items():
            nver[key[0]] += 1
            if val != [1]:
                cid, what, arr, skey = want[key]
                M = byid[cid]
                tag = {"chkperm": "not-a-permutation", "chkpost": "not-postordered", "chkpart": "part-super-not-blocks"}[key[0]]
                kk = "%s:%s" % (tag, skey)
                ctx.violation(kk, "%s is rejected by the verified checker %s: %s" % (what, key[0], arr[:40]),
                              replay_of(M, ops1.get(cid, "") + ops2.get(cid, ""), {"array": arr, "op": key[1]}))
    # etree of the final A*Pc / Pc(A+A')Pc' by the quadratic reference (model side, separate cases)
    rch = chunks(refcases, bsz)
    def refrun(b):
        return model_run("".join(case_text(R) + ops + "end\n" for (_, R, ops) in b) + "quit\n")
    with ThreadPoolExecutor(C.NPROC) as ex:
        routs = list(ex.map(refrun, rch))
    for o in routs:
        for key, val in o.items():
            if not key[0].endswith("_ref"): continue
            oid = key[1][:-4]
            cid, et, rp = want[("etref", oid)]
            n_cmp["final-etree-vs-reference"] += 1
            if val != et:
                ctx.violation("final-etree-vs-reference:%s" % key[0][:-4], "etree reported by sp_colorder is not the %s of the final permuted matrix: ref=%s code=%s" % (
                    "etree of Pc(A+A')Pc'" if key[0].startswith("sym") else "column etree of A*Pc", val[:40], et[:40]), rp({"ref": val, "code": et}))
    # exhaustive agreement Liu = reference, inside Lean
    ex_out = model_run("exhaust x %d\nquit\n" % exh)
    cnt, bad = ex_out.get(("exhaust", "x"), [0, 1])
    if bad != 0 or cnt == 0:
        ctx.violation("model-liu-vs-reference", "model colEtree/symEtree differ from etreeRef on %d of %d exhaustive patterns (n<=%d)" % (bad, cnt, exh), {"n": exh}, no_input=True)
    ctx.coverage.update({
        "evaluations": len(cases),
        "distinct_nontrivial": len(set((M["m"], M["n"], tuple(M["colptr"]), tuple(M["rowind"])) for M in cases if M["n"] >= 3)),
        "rule": "ALL 0/1 patterns m x n with m = n <= %d (and rectangular m,n <= 3) + %d seeded patterns (kinds: random, sparse, empty "
                "columns, empty rows, dense rows, disconnected blocks, arrow, band, chain, tridiagonal, identity, dense, all-zero, "
                "n=1, rectangular, permutation, triangular; 25%% with unsorted row indices) up to n=%d; every case: get_perm_c 0..3, "
                "sp_coletree, sp_symetree (square), TreePostorder on free-standing forests (incl. non-topological labellings), "
                "sp_colorder x {identity, random, MMD(A'A), MMD(A'+A), COLAMD} x SymmetricMode x refact; non-trivial = n>=3" % (exh, nsamp, nmax),
        "exhaustive_patterns": n_exh, "exhaustive_n": exh,
        "model_vs_code_lines_compared": dict(n_cmp),
        "verified_checker_verdicts": dict(nver),
        "colorder_calls": len(co_meta), "colorder_views_checked": nview,
        "lean_exhaustive_liu_vs_reference": {"patterns": cnt, "mismatches": bad, "n_max": exh},
        "crashes": len(CR1) + len(CR2),
        "distribution": dict(sorted(dist.items())),
        "samples": [{"cid": M["cid"], "m": M["m"], "n": M["n"], "nnz": len(M["rowind"]), "kind": M["kind"]} for M in cases[n_exh:n_exh + 3]],
        "wall_search_s": round(time.time() - t0, 1),
    })


def replay(ctx, obj):
    r = obj.get("replay", obj)
    script = r.get("script")
    if not script:
        print("replay: no script in", list(r.keys())); return 1
    C.build_lib("plain"); exe = C.build_harness("h_pre.c")
    d, ok, rc, err = run_h(exe, script, "replay")
    print("harness ok=%s rc=%s %s" % (ok, rc, err))
    md = model_run(script)
    bad = 0
    for k, v in sorted(md.items()):
        cv = d.get(k) if not k[0].endswith("_ref") else d.get((k[0][:-4], k[1]))
        flag = "" if cv == v else "   <-- DIFFERS"
        if cv != v: bad += 1
        print(k, "model", v, "code", cv, flag)
    for k, v in sorted(d.items()):
        if k not in md: print(k, "code", v)
    return 1 if (bad or not ok) else 0
