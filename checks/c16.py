"""C16 — symmetric mode with diagonal pivoting is correct and keeps diagonal pivots."""
from vlib import sweep as S, common as C
LEVEL = "proof"
EXPLANATION = ("Model theorems (Props/C16.lean): at threshold 0 a nonzero unpivoted diagonal is the pivot in every column step, and if that "
               "holds along the factorization perm_r = perm_c; correctness is Props/LU.lean. On the implementation: p?gssvx with "
               "SymmetricMode=YES, ordering on A'+A, u=0 on diagonally dominant matrices (structurally symmetric or not), all thread counts: "
               "perm_r == perm_c, verified LU/WF checkers, LUSUP slot monitor (fill within the symmetric prediction), ASan.")
ASSUMPTIONS = ["diagonal dominance keeps every diagonal candidate nonzero: checked per run, not proved", "cholnzcnt counts = symbolic Cholesky counts: monitored through the slot monitor only"]


def run(ctx):
    q = ctx.quick()
    recs = []
    # three populations: dominant in both senses with a positive diagonal (diagonal = column maximum), and dominant by rows only /
    # by columns only with diagonal entries of either sign and rows (columns) rescaled, where the diagonal is usually NOT the
    # largest candidate, so that the preference for the diagonal at threshold 0 is what keeps the pivots on it.
    for i, (P, dom) in enumerate([(1, 1), (2, 1), (4, 1), (1, "row"), (2, "row"), (4, "row"), (3, "col")]):
        recs += S.sweep(ctx, 70 if q else 700, 40 if q else 120, precs="dszc", drivers=("gssvx",), flavour="asan",
                        force={"symm": 1, "colperm": 2, "u": 0.0, "dominant": dom, "nprocs": P, "evlog": 1, "stype": "NC",
                               "kind": ["random", "band", "grid", "arrow", "forest", "tridiag", "blockdiag", "dense"]}, seed_offset=600 + i)
        # storage-reservation shapes: relaxed supernodes made of several fundamental supernodes (leaves hanging off a clique), every relaxation size
        recs += S.sweep(ctx, 40 if q else 300, 40 if q else 90, precs="dszc", drivers=("gssvx",), flavour="asan",
                        force={"symm": 1, "colperm": 2, "u": 0.0, "dominant": dom, "nprocs": P, "evlog": 1, "stype": "NC", "relax": [2, 3, 4, 5, 6, 8],
                               "maxsuper": 200, "kind": "arrowblocks"}, seed_offset=640 + i)
    S.judge(ctx, recs, ["wfL", "wfU", "permr", "permc", "lower", "upper", "lu", "diag", "resid"], "symmetric-mode")
    neq = 0
    for r in recs:
        if r["status"] != "ok": continue
        res = r["res"]
        if r["info"] != 0:
            ctx.violation("info-nonzero", "diagonally dominant matrix reported info=%d" % r["info"], S.replay_blob(r)); continue
        if res["perm_r"] != res["perm_c"]:
            neq += 1
            ctx.violation("perm_r!=perm_c", "symmetric mode, u=0, diagonally dominant: perm_r differs from perm_c (n=%d P=%d)" % (r["cfg"]["n"], r["cfg"]["nprocs"]), S.replay_blob(r))
        for b in [x for x in r.get("evmon", []) if "LUSUP" in x][:1]:
            ctx.violation("lusup-slot-overrun", "fill exceeded the symmetric prediction: " + b, S.replay_blob(r))
    S.coverage(ctx, recs, "SymmetricMode=YES, ColPerm=MMD_AT_PLUS_A, diag_pivot_thresh=0; values strictly row+column diagonally dominant (positive diagonal), or dominant by rows only / columns only with mixed-sign (complex: mixed-phase) diagonals and power-of-two row/column scalings.")
    ctx.coverage["perm_mismatches"] = neq
