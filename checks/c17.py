"""C17 — no resource leaks: a call gives back everything except what it returns."""
import random
from concurrent.futures import ThreadPoolExecutor
from vlib import common as C, gen as G, drv as D, hist as H, sweep as S
LEVEL = "proof"
EXPLANATION = ("Ledger judge: every request the real library issues through its allocation points (SUPERLU_MALLOC/SUPERLU_FREE, routed to the harness by the "
               "library's own USER_MALLOC/USER_FREE override) is logged with a fresh block id; the Lean-verified judge (Model/Ledger.lean; Props/C17.lean: "
               "checkCall_iff, checkBalanced_iff, replayL_live_iff — a block is live iff allocated once more than freed, for traces of any length) decides per "
               "scenario that after the call exactly the blocks reachable from what the caller holds (L, U, option arrays) are live, and that after the "
               "documented destroy routines nothing is. Complement (allocations that bypass the allocation points): heap balance of the real process around driver calls: glibc in-use bytes (mallinfo2.uordblks), thread count and open file "
               "descriptors are sampled before and after R repetitions of a scenario (call + documented destroy routines), after one warm-up "
               "repetition (OpenBLAS and stdio allocate lazily). Any growth is a leak; growth per repetition is reported. Scenarios: simple and expert "
               "driver (all fact/trans/refact modes), singular input, illegal arguments, workspace query, user workspace, 1..4 threads, s and d. "
               "This is the thinnest use of the proof family (DESIGN §6 C17): the resource ledger model is not yet written; the property is decided "
               "here by exact heap accounting only.")
ASSUMPTIONS = ["glibc malloc accounting (mallinfo2) is exact for in-use bytes", "the harness frees its own per-call buffers (checked by the clean scenarios balancing to zero)"]

SCEN = ["gssv", "gssvx_dofact", "gssvx_equil_trans", "gssvx_refactor", "gssvx_factored", "singular", "illegal_nprocs", "illegal_lwork", "query", "userwork", "gssv_threads", "gssvx_symm", "gssvx_symm_refactor"]


def scenario_ops(name, rng, n):
    P = rng.choice([1, 2, 4])
    if name == "gssv": return ["gssv 0 0 %d" % 1, "destroy"]
    if name == "gssv_threads": return ["gssv 0 0 %d" % P, "destroy"]
    if name == "gssvx_dofact": return ["gssvx 0 0 %d 0 0 0 0 0x1p+0 8 4 0 0" % P, "destroy"]
    if name == "gssvx_equil_trans": return ["gssvx 0 0 %d 1 %d 0 0 0x1p+0 8 4 0 0" % (P, rng.choice([1, 2])), "destroy"]
    if name == "gssvx_refactor": return ["gssvx 0 0 %d 0 0 0 0 0x1p+0 8 4 0 0" % P, "gssvx 0 0 %d 0 0 1 1 0x1p+0 8 4 0 0" % P, "destroy"]
    if name == "gssvx_factored": return ["gssvx 0 0 %d 0 0 0 0 0x1p+0 8 4 0 0" % P, "gssvx 0 0 1 2 1 0 0 0x1p+0 8 4 0 0", "destroy"]
    if name == "singular": return ["gssvx 1 0 %d 0 0 0 0 0x1p+0 8 4 0 0" % P, "destroy"]
    if name == "illegal_nprocs": return ["gssv 0 0 0", "gssvx 0 0 0 0 0 0 0 0x1p+0 8 4 0 0", "destroy"]
    if name == "illegal_lwork": return ["gssvx 0 0 1 0 0 0 0 0x1p+0 8 4 0 -5", "destroy"]
    if name == "query": return ["gssvx 0 0 1 0 0 0 0 0x1p+0 8 4 0 -1", "destroy"]
    if name == "gssvx_symm": return ["gssvx 0 0 %d 0 0 0 0 0x0p+0 8 4 1 0" % P, "destroy"]
    if name == "gssvx_symm_refactor": return ["gssvx 0 0 %d 1 0 0 0 0x1p-1 8 4 1 0" % P, "gssvx 0 0 %d 0 0 1 0 0x1p-1 8 4 1 0" % P, "destroy"]
    if name == "userwork": return ["gssvx 0 0 %d 0 0 0 0 0x1p+0 8 4 0 800000" % P, "destroy"]
    raise KeyError(name)


import re, subprocess, os, tempfile


def valgrind_leaks(exe, script, timeout=300):
    """-> (rc, definitely+indirectly lost bytes, list of (bytes, blocks, site)) using valgrind memcheck"""
    d = tempfile.mkdtemp(prefix="vg", dir=C.BUILD)
    sp = os.path.join(d, "s.scr"); op = os.path.join(d, "s.out")
    open(sp, "w").write(script)
    try:
        r = subprocess.run(["valgrind", "-q", "--leak-check=full", "--show-leak-kinds=definite,indirect", "--num-callers=14", "--error-exitcode=0", exe, sp, op],
                           capture_output=True, text=True, env=C.ENV, timeout=timeout)
    except subprocess.TimeoutExpired:
        return None, 0, []
    finally:
        pass
    err = r.stderr
    recs = []
    for m in re.finditer(r"==\d+== ([\d,]+) (?:\([\d,]+ direct, [\d,]+ indirect\) )?bytes in ([\d,]+) blocks are (definitely|indirectly) lost in loss record[^\n]*\n((?:==\d+==    [^\n]*\n)+)", err):
        nbytes = int(m.group(1).replace(",", "")); blocks = int(m.group(2).replace(",", ""))
        frames = re.findall(r"(?:at|by) 0x[0-9A-F]+: (\w+) \(([^)]*)\)", m.group(4))
        site = "?"
        for fn, loc in frames:
            if fn in ("malloc", "calloc", "realloc", "superlu_malloc", "intMalloc", "intCalloc", "doubleMalloc", "doubleCalloc", "floatMalloc", "floatCalloc",
                      "complexMalloc", "complexCalloc", "doublecomplexMalloc", "doublecomplexCalloc", "vf_malloc"):
                continue
            site = fn; break
        site = re.sub(r"^(p?)[sdcz](gs|la|Pi|sp_|Cr|De|Pr|me|re)", lambda mm: mm.group(1) + "?" + mm.group(2), site)
        recs.append((nbytes, blocks, site, m.group(3)))
    import shutil; shutil.rmtree(d, ignore_errors=True)
    total = sum(x[0] for x in recs if x[3] == "definitely") + sum(x[0] for x in recs if x[3] == "indirectly")
    return r.returncode, total, recs


def ledger_stage(ctx, jobs):
    """run each scenario on the `fault` build with the allocation ledger on; judge the logs with `sludrv ledger`"""
    C.build_lib("fault")
    exes = C.build_harness_all_prec("h_drv.c", "fault", precs="dszc")
    def one(j):
        name, prec, n, head, body = j
        script = head + "ledger 1\n" + body.replace("destroy\n", "") * 2 + "ledger dump\ndestroy\nledger dump\nquit\n"
        ops, done, rc, err, text = D.run_script(exes[prec], script, timeout=120, want_text=True)
        return j, rc, done, err, text
    with ThreadPoolExecutor(C.NPROC) as ex:
        outs = list(ex.map(one, jobs))
    inp = []; meta = {}
    stats = {"scenarios": 0, "events": 0, "returned_blocks": 0}
    for k, ((name, prec, n, head, body), rc, done, err, text) in enumerate(outs):
        blob = {"scenario": name, "prec": prec, "n": n, "script": head + body}
        if rc != 0 or not done:
            ctx.violation("ledger-crash:%s" % name, "scenario %s failed on the ledger build rc=%s %s" % (name, rc, (err or "")[-200:]), blob); continue
        led = [l for l in text.split("\n") if l.startswith("ledger ") and not l.startswith("ledger_")]
        rets = [l for l in text.split("\n") if l.startswith("ledger_ret")]
        lives = [l for l in text.split("\n") if l.startswith("ledger_live")]
        if len(led) != 2 or len(rets) != 2:
            ctx.violation("ledger-missing:%s" % name, "no ledger dump for scenario %s" % name, blob); continue
        for which, mode in ((0, "call"), (1, "balanced")):
            t = led[which].split()
            nev = int(t[1]); evs = t[2:]
            ret = rets[which].split()[1:] if mode == "call" else []
            cid = "s%d_%s" % (k, mode)
            inp.append("case %s %s %d %s ret %d %s\n" % (cid, mode, nev, " ".join(evs), len(ret), " ".join(ret)))
            meta[cid] = (name, prec, n, blob, lives[which] if which < len(lives) else "")
            stats["events"] += nev; stats["returned_blocks"] += len(ret)
        stats["scenarios"] += 1
    if inp:
        out = C.run_sludrv("ledger", "".join(inp), timeout=600)
        for line in out.split("\n"):
            t = line.split()
            if len(t) < 4 or t[0] != "case": continue
            name, prec, n, blob, live = meta[t[1]]
            kv = dict(x.split("=") for x in t[2:4])
            leaked = t[t.index("leaked") + 1:] if "leaked" in t else []
            if kv["legal"] != "1":
                ctx.violation("ledger-illegal:%s" % name, "scenario %s (%s): the library freed a block that is not live in its ledger (double free / foreign pointer)" % (name, t[1]), blob)
            elif kv["ok"] != "1":
                sites = sorted(set(x.split("@")[1] for x in live.split()[1:] if x.split("@")[0] in leaked))
                ctx.violation("ledger-leak:%s:%s" % (name.split(":")[0], ",".join(s_.split(":")[0] for s_ in sites) or "?"),
                              "scenario %s (%s): blocks %s stay live and are not reachable from what the caller holds; allocated at %s" % (name, t[1].split("_")[-1], leaked[:6], sites[:6]), dict(blob, leaked=leaked, sites=sites))
    return stats


def run(ctx):
    q = ctx.quick()
    C.build_lib("plain")
    exes = C.build_harness_all_prec("h_drv.c", "plain", precs="dszc")
    rng = random.Random(ctx.seed * 17 + 1717)
    jobs = []
    for i in range(3 * len(SCEN) if q else 24 * len(SCEN)):
        # every scenario in both storage orientations (the drivers wrap a row-stored A in a temporary column-stored header)
        name = SCEN[i % len(SCEN)]; prec = "dszc"[(i // (2 * len(SCEN)) + rng.randrange(2) * 2) % 4] if q else "dszc"[(i // (2 * len(SCEN))) % 4]; nr = (i // len(SCEN)) % 2 == 1
        n = rng.choice([1, 3, 6, 10, 17])
        # (patterns without any off-diagonal entry and n = 1 take the "empty adjacency" paths of the ordering / symbolic routines)
        M = G.random_matrix(rng, n, "diag" if (i // len(SCEN)) % 3 == 2 else rng.choice(["random", "band", "grid"]), "float"); M.vals = H.new_values(rng, M)
        Ms = G.Mat(n, M.colptr, M.rowind, list(M.vals))
        k = rng.randrange(n)
        for t in range(Ms.colptr[k], Ms.colptr[k + 1]): Ms.vals[t] = 0.0
        cplx = prec in "cz"; single = prec in "sc"
        if cplx:
            # the per-precision drivers are separate source copies: complex ones get (re, im) values with the same zero column in Ms
            M = G.Mat(n, M.colptr, M.rowind, [(v, rng.uniform(-1, 1)) for v in M.vals], True)
            Ms = G.Mat(n, Ms.colptr, Ms.rowind, [((v, rng.uniform(-1, 1)) if v != 0.0 else (0.0, 0.0)) for v in Ms.vals], True)
        if single: G.round_single(M); G.round_single(Ms)
        b = H.rand_rhs(rng, n, single)
        if cplx: b = [(v, w) for v, w in zip(b, H.rand_rhs(rng, n, single))]
        body = "\n".join(scenario_ops(name, rng, n)) + "\n"
        head = "ienv 8 4 200 200 100 -50 -50 -30\n" + G.script_mat(0, M, nr=nr, single=single) + G.script_mat(1, Ms, nr=nr, single=single)
        head += G.script_rhs(0, n, 1, n, [b], cplx, single) + "permc_get 0 1\n"
        jobs.append((name + (":NR" if nr else ":NC"), prec, n, head, body))
    ctx.coverage["ledger"] = ledger_stage(ctx, jobs)
    def one(j):
        name, prec, n, head, body = j
        r2 = valgrind_leaks(exes[prec], head + body * 2 + "heap z\nquit\n")
        r6 = valgrind_leaks(exes[prec], head + body * 6 + "heap z\nquit\n")
        return (j, r2, r6)
    with ThreadPoolExecutor(C.NPROC) as ex:
        outs = list(ex.map(one, jobs))
    from collections import Counter
    hist = Counter(); leaks = Counter()
    for (name, prec, n, head, body), (rc2, t2, recs2), (rc6, t6, recs6) in outs:
        blob = {"scenario": name, "prec": prec, "n": n, "script": head + body * 6 + "quit\n", "loss_records": [list(x) for x in recs6[:12]]}
        hist[name] += 1
        if rc6 is None or rc6 != 0:
            ctx.violation("crash:%s" % name, "scenario %s failed under valgrind (rc=%s)" % (name, rc6), blob); continue
        if t6 > 0:
            sites = sorted(set(x[2] for x in recs6))
            per_rep = (t6 - t2) / 4.0
            for site in sites:
                leaks[name + ":" + site] += 1
                ctx.violation("leak:%s:%s" % (name, site), "scenario %s leaks: %d bytes lost after 6 repetitions (%d after 2: %.0f bytes per repetition); allocation site %s; prec=%s n=%d" % (
                    name, t6, t2, per_rep, site, prec, n), blob)
    ctx.coverage.update({"evaluations": len(jobs) * 2, "distinct_nontrivial": len(jobs),
                         "rule": "scenario x storage orientation (NC/NR) x precision x size, each run under valgrind memcheck with 2 and with 6 repetitions of (call(s) + destroy); "
                                 "definitely/indirectly lost blocks are leaks, attributed to the first non-allocator frame",
                         "scenarios": dict(hist), "leaking_scenario_sites": dict(leaks),
                         "samples": [{"scenario": j[0], "prec": j[1], "n": j[2]} for j in jobs[:3]]})
