"""C04 — factorization terminates, each panel exactly once, no threads left."""
from vlib import sweep as S, common as C, sched as SC
LEVEL = "proof"
EXPLANATION = ("Theorems (Props/C04Global.lean): SysInv is an inductive invariant of the scheduler/worker model Model/Sched*.lean for every forest, "
               "panel size, relaxation, thread count and interleaving (global_invariant), giving tasks_remain = #untaken panels, queue bounded by n "
               "with distinct entries, no panel handed out twice, unique ownership; hypothesis initOk is evaluated by the driver on every configuration "
               "whose ParallelInit output is compared with the real one. Progress: global_progress / global_not_stuck (Proofs/SchedProgInit.lean) prove that while a panel is unfinished some worker can finish, report or be handed a panel (hypothesis initOk2, evaluated the same way). The model is tied to the code by replaying model-generated interleavings "
               "through the REAL ParallelInit/pxgstrf_scheduler state-for-state (h_sched), and explored exhaustively on small "
               "forests with the same monitors the theorems are about. Real multi-threaded runs are watched for hangs and left-over threads.")
ASSUMPTIONS = ["model is sequentially consistent; fairness of the OS scheduler is assumed for termination",
               "release is modelled per panel (the code releases per column, which only lets waiters proceed earlier)"]


def run(ctx):
    q = ctx.quick()
    st, dis, mf = SC.run_traces(ctx, 1200 if q else 20000, 40 if q else 120)
    ctx.coverage["driven_scheduler"] = st
    ctx.coverage["traces_validated_against_impl"] = st["cases"]
    for d in dis[:10]:
        ctx.violation("scheduler-correspondence", "correspondence pxgstrf_scheduler/ParallelInit <-> Model/Sched.lean no longer checks (%s)" % d["kind"], d, no_input=True)
    for m in mf[:10]:
        ctx.violation("model-monitor:" + str(m["monitors"]), "scheduler model reaches a state violating %s" % m["monitors"], m)
    # implementation-side search: random interleavings through the real scheduler with the property's monitors on the real state
    ist, ifails = SC.impl_search(ctx, 400 if q else 4000, 40 if q else 150, 30 if q else 200)
    ctx.coverage["implementation_walks"] = ist
    for f in ifails[:5]:
        ctx.violation("scheduler-impl:" + f["kind"].split()[0], "real pxgstrf_scheduler under a driven interleaving: %s (n=%d panel=%d relax=%d workers=%d, %d events)" % (
            f["kind"], f["case"]["n"], f["case"]["panel_size"], f["case"]["relax"], f["case"]["nworkers"], len(f.get("history", [])) // 2), f)
    tot, bad = SC.explore(ctx, 5 if q else 7, [1, 2, 3], [1, 2, 3], [2, 3] if q else [2, 3])
    ctx.coverage["exhaustive_model_exploration"] = tot
    ctx.coverage["states"] = tot["states"]; ctx.coverage["transitions"] = tot["transitions"]
    for b in bad[:10]:
        ctx.violation("model-exploration", "exhaustive exploration found a bad state: " + b[:200], {"line": b})
    # real multi-threaded runs: termination (watchdog), thread census, every factorization judged
    recs = S.sweep(ctx, 300 if q else 6000, 40 if q else 150, precs="d", drivers=("gssv",),
                   force={"nprocs": None}, seed_offset=404)
    big = S.sweep(ctx, 40 if q else 400, 30, precs="d", drivers=("gssv",), force={"nprocs": 64, "perturb": 3}, seed_offset=405)
    bad_n = S.judge(ctx, recs + big, ["wfL", "wfU", "permr", "permc", "lu"], "parallel-run")
    for r in recs + big:
        if r["status"] == "ok" and r["res"]["threads"][0] != r["res"]["threads"][1]:
            ctx.violation("threads-left", "thread count %s -> %s after p?gssv (P=%d)" % (r["res"]["threads"] + (r["cfg"]["nprocs"],)), S.replay_blob(r))
    # error returns: a caller workspace too small for the factors, or large enough for them but not for every worker's private arrays --
    # the routine must still return (info > n), with every thread it created gone; all four precision copies of the allocator
    errs = []
    for i, P in enumerate((1, 2, 4, 8)):
        errs += S.sweep(ctx, 60 if q else 800, 30 if q else 60, precs="dszc", drivers=("gssvx",), seed_offset=420 + i,
                        force={"nprocs": P, "dominant": True, "lwork": [512, 4096, 20000, 60000, 120000, 250000, 500000, 1000000]})
    nerr = 0
    for r in errs:
        if r["status"] == "ok":
            n_ = r["cfg"]["n"]
            nerr += 1 if r["info"] > n_ + 1 else 0
            if r["res"]["threads"][0] != r["res"]["threads"][1]:
                ctx.violation("threads-left:error-return", "thread count %s -> %s after p?gssvx with a short caller workspace (P=%d, lwork=%d, info=%d)" % (
                    r["res"]["threads"] + (r["cfg"]["nprocs"], r["cfg"]["lwork"], r["info"])), S.replay_blob(r))
    S.judge(ctx, errs, ["wfL", "wfU", "permr", "permc", "lu"], "short-workspace-run", need_info0=False)
    ctx.coverage["short_workspace_runs"] = {"runs": len(errs), "returned_out_of_memory": nerr}
    S.coverage(ctx, recs + big + errs, "Includes nprocs=64 oversubscribed runs with schedule perturbation; harness timeout 120 s is the watchdog.")
    ctx.coverage["samples"] = [{"driven_case": "n,panel,relax,workers,etree as generated by vlib/sched.py random_forest", "events_total": st["events"]}] + ctx.coverage.get("samples", [])
