"""C15 — illegal arguments yield info = -i for the first offender and no side effects.

Lean stage (check.py): gen/argcheck.py re-derives lean/SluVerif/Gen/ArgCheck.lean from $REPO/SRC (the argument-test
chain of 8 routine families x 4 precisions), `lake build` re-checks Props/C15.lean (chain = documented table for
EVERY argument record; `_partial` + counter-example lemmas where the unchanged code deviates).

run(ctx): for every family x precision, every single mutation and every pair of mutations of valid argument
records is (1) evaluated by `sludrv argcheck` (generated chain, documented table, theorem exclusion) and (2) handed
to the REAL routine by harness/h_args.c, which reports what reached xerbla_, the returned info, checksums of every
byte reachable from the arguments before/after and the heap traffic during the call.
  correspondence: real (xerbla name, position, info) == generated chain        -> key corr:<family>
  property:       real position == documented table                           -> classified deviation keys (known
                  findings: gstrs-LU-position, trsv-trans-C-rejected (c/z only since /repo 2acf694), *-type-unchecked, ...)
  no side effects on a rejected call (checksums, zero allocations)            -> side-effect:*, alloc-before-check:*
  valid calls: info >= 0 and no xerbla_
"""
import os, re, random, subprocess, tempfile, itertools, json
from concurrent.futures import ThreadPoolExecutor
from collections import Counter
from vlib import common as C

LEVEL = "proof"
GENERATORS = ["argcheck"]
EXPLANATION = ("The leading argument-test chain of p?gssv, p?gssvx, ?gstrs, ?gsrfs, ?gscon, ?gsequ, sp_?trsv, sp_?gemv (s,d,c,z) is "
               "re-translated from /repo/SRC into Lean on every run (gen/argcheck.py, closed C subset; any other statement in front "
               "of the error return makes the translation fail).  Props/C15.lean proves, for ALL argument records, that the chain "
               "reports -(least violated documented position) of the header-comment contract (Model/ArgDoc.lean), or, where the "
               "unchanged code deviates, the same under a stated exclusion plus counter-example lemmas and the exact table the code "
               "implements.  The real routines are compared call by call with the generated chain (xerbla_ name/position, info) on "
               "every single and pairwise mutation of valid records, with byte checksums of all argument-reachable memory and heap "
               "counters (ld --wrap) showing a rejected call allocates nothing and writes nothing.")
ASSUMPTIONS = ["the C-subset translator (gen/argcheck.py) is trusted glue; its output is tied to the compiled code by the per-call comparison of this run",
               "parameters do not alias; R, C hold finite numbers (no NaN); lsame_ is modelled for ASCII",
               "documented floating-point option ranges (diag_pivot_thresh, drop_tol) are outside C15's list and are not modelled",
               "side effects are judged on the arguments' reachable memory and the process heap; *equed and the two permutation pointers "
               "stored into superlumt_options before the tests (listed by p?gssvxPreWrites) are reported, not counted as violations"]
TRUSTED = ["gen/argcheck.py (C subset -> Lean translator), harness/h_args.c"]

WRAP = "-Wl,--wrap=malloc,--wrap=calloc,--wrap=realloc,--wrap=free"
N, NRHS, LDMAX, NCMAX = 4, 2, 7, 4
DTV = {"s": 0, "d": 1, "c": 2, "z": 3}
NC, NCP, NR, SC, SCP, SR, DN, NRLOC = range(8)
GE, TRLU, TRUU, TRL, TRU, SYL = 0, 1, 2, 3, 4, 5
FAMILIES = ["gssv", "gssvx", "gstrs", "gsrfs", "gscon", "gsequ", "trsv", "gemv"]
ROUTINE = {"gssv": "p%sgssv", "gssvx": "p%sgssvx", "gstrs": "%sgstrs", "gsrfs": "%sgsrfs", "gscon": "%sgscon", "gsequ": "%sgsequ",
           "trsv": "sp_%strsv", "gemv": "sp_%sgemv"}

# wire order of the fields (shared with harness/h_args.c and lean/Driver/ArgCheck.lean)
HDR = ["nrow", "ncol", "Stype", "Dtype", "Mtype"]
def H(p): return ["%s_%s" % (p, f) for f in HDR]
def D(p, ncol=True): return (["%s_ncol" % p] if ncol else []) + ["%s_lda" % p, "%s_Stype" % p, "%s_Dtype" % p, "%s_Mtype" % p]
WIRE = {
    "gssv": ["nprocs"] + H("A") + D("B"),
    "gssvx": ["nprocs", "fact", "trans", "refact", "usepr", "lwork"] + H("A") + ["equed", "R", "C"] + D("B") + D("X"),
    "gstrs": ["trans"] + H("L") + H("U") + D("B", False),
    "gsrfs": ["trans"] + H("A") + H("L") + H("U") + ["equed"] + D("B", False) + D("X", False),
    "gscon": ["norm"] + H("L") + H("U"),
    "gsequ": H("A"),
    "trsv": ["uplo", "trans", "diag"] + H("L") + H("U"),
    "gemv": ["trans"] + H("A") + ["incx", "incy"],
}


def hdr(p, st, dt, mt, n=N):
    return {"%s_nrow" % p: n, "%s_ncol" % p: n, "%s_Stype" % p: st, "%s_Dtype" % p: dt, "%s_Mtype" % p: mt}


def dense(p, dt, ncol=NRHS, lda=LDMAX, with_ncol=True):
    d = {"%s_lda" % p: lda, "%s_Stype" % p: DN, "%s_Dtype" % p: dt, "%s_Mtype" % p: GE}
    if with_ncol:
        d["%s_ncol" % p] = ncol
    return d


def bases(fam, dt, prec):
    """valid argument records (every documented requirement met, storage consistent with the harness objects)"""
    out = []
    def mk(**kw):
        return dict(kw)
    if fam == "gssv":
        for nprocs, st, nc, lda in [(1, NC, 2, 7), (2, NR, 1, 4), (4, NC, 2, 4), (3, NR, 2, 5)]:
            r = {"nprocs": nprocs}; r.update(hdr("A", st, dt, GE)); r.update(dense("B", dt, nc, lda)); out.append(r)
    elif fam == "gssvx":
        for nprocs, fact, trans, usepr, lwork, st, equed, R, Cc, nc, ldb, ldx in [
                (1, 0, 0, 0, 0, NC, 0, [1, 1, 1, 1], [1, 1, 1, 1], 2, 7, 7),
                (2, 1, 1, 0, 0, NR, 2, [1, 2, 1, 3], [2, 1, 1, 1], 1, 4, 5),
                (1, 1, 0, 0, 0, NC, 3, [1, 1, 1, 1], [1, 1, 1, 1], 2, 4, 4),
                (1, 2, 0, 0, 0, NC, 0, [1, 1, 1, 1], [1, 1, 1, 1], 2, 7, 4),
                (1, 2, 1, 0, 0, NC, 1, [2, 1, 1, 4], [1, 1, 1, 1], 2, 5, 7),
                (1, 2, 0, 0, 0, NC, 2, [1, 1, 1, 1], [1, 2, 4, 1], 1, 7, 7),
                (2, 2, 1, 0, 0, NC, 3, [1, 2, 1, 1], [1, 1, 2, 1], 2, 7, 7),
                (1, 0, 2, 0, 0, NC, 1, [1, 1, 1, 1], [1, 1, 1, 1], 2, 7, 7),   # trans = CONJ
                (1, 0, 0, 1, 0, NC, 0, [1, 1, 1, 1], [1, 1, 1, 1], 2, 7, 7),   # usepr = YES
                (1, 0, 0, 0, -1, NC, 0, [1, 1, 1, 1], [1, 1, 1, 1], 2, 7, 7),  # workspace query
                (1, 2, 2, 0, 0, NC, 3, [3, 1, 1, 1, 0, -1], [1, 1, 1, 5, -2], 2, 7, 7)]:  # non-positive entries beyond the dimension
            r = {"nprocs": nprocs, "fact": fact, "trans": trans, "refact": 0, "usepr": usepr, "lwork": lwork, "equed": equed, "R": R, "C": Cc}
            r.update(hdr("A", st, dt, GE)); r.update(dense("B", dt, nc, ldb)); r.update(dense("X", dt, nc, ldx)); out.append(r)
    elif fam == "gstrs":
        # CONJ is a documented value for s/d only (c/z header lists NOTRANS, TRANS): there it is a mutation atom
        for trans, lda in [(0, 7), (1, 4), (0, 5)] + ([(2, 7)] if prec in "sd" else []):
            r = {"trans": trans}; r.update(hdr("L", SCP, dt, TRLU)); r.update(hdr("U", NCP, dt, TRU)); r.update(dense("B", dt, lda=lda, with_ncol=False)); out.append(r)
    elif fam == "gsrfs":
        for trans, equed, ldb, ldx in [(0, 0, 7, 7), (1, 1, 4, 7), (2, 2, 7, 4), (0, 3, 5, 5), (1, 0, 7, 7)]:
            r = {"trans": trans, "equed": equed}; r.update(hdr("A", NC, dt, GE)); r.update(hdr("L", SCP, dt, TRLU)); r.update(hdr("U", NCP, dt, TRU))
            r.update(dense("B", dt, lda=ldb, with_ncol=False)); r.update(dense("X", dt, lda=ldx, with_ncol=False)); out.append(r)
    elif fam == "gscon":
        for norm in "1OoIi":
            r = {"norm": ord(norm)}; r.update(hdr("L", SCP, dt, TRLU)); r.update(hdr("U", NCP, dt, TRU)); out.append(r)
    elif fam == "gsequ":
        out.append(hdr("A", NC, dt, GE))
    elif fam == "trsv":
        for u, t, d in ["LNU", "lnu", "UTN", "utn", "LtN", "UNu"] + (["LCU", "ucN"] if prec in "sd" else []):
            r = {"uplo": ord(u), "trans": ord(t), "diag": ord(d)}; r.update(hdr("L", SCP, dt, TRLU)); r.update(hdr("U", NCP, dt, TRU)); out.append(r)
    elif fam == "gemv":
        for t, st, ix, iy in [("N", NC, 1, 1), ("t", NCP, 1, 1), ("C", NC, 2, 1), ("c", NC, 1, -2), ("n", NCP, -1, 3), ("T", NC, 1, 1)]:
            r = {"trans": ord(t), "incx": ix, "incy": iy}; r.update(hdr("A", st, dt, GE)); out.append(r)
    return out


def hdr_atoms(p, dt, ok_st, ok_mt):
    """mutations of a SuperMatrix header: (atom name, list of alternative override dicts)"""
    bad_st = [s for s in range(8) if s not in ok_st] + [8, -1]
    bad_dt = [d for d in range(4) if d != dt] + [4, -1]
    bad_mt = [m for m in range(9) if m not in ok_mt][:4] + [9, -2]
    return [
        ("%s.nonsquare" % p, [{"%s_ncol" % p: N + 1}, {"%s_nrow" % p: N - 1}, {"%s_nrow" % p: 0}]),
        ("%s.negative" % p, [{"%s_nrow" % p: -1, "%s_ncol" % p: -1}, {"%s_nrow" % p: -7, "%s_ncol" % p: -7}]),
        ("%s.Stype" % p, [{"%s_Stype" % p: s} for s in bad_st]),
        ("%s.Dtype" % p, [{"%s_Dtype" % p: d} for d in bad_dt]),
        ("%s.Mtype" % p, [{"%s_Mtype" % p: m} for m in bad_mt]),
    ]


def dense_atoms(p, dt, with_ncol=True):
    a = [
        ("%s.lda" % p, [{"%s_lda" % p: N - 1}, {"%s_lda" % p: 0}, {"%s_lda" % p: -3}]),
        ("%s.Stype" % p, [{"%s_Stype" % p: s} for s in (NC, SCP, NRLOC, 9)]),
        ("%s.Dtype" % p, [{"%s_Dtype" % p: d} for d in range(5) if d != dt]),
        ("%s.Mtype" % p, [{"%s_Mtype" % p: m} for m in (TRLU, TRU, 9)]),
    ]
    if with_ncol:
        a.append(("%s.ncol" % p, [{"%s_ncol" % p: -1}, {"%s_ncol" % p: -4}]))
    return a


def atoms(fam, dt, prec):
    A = []
    ch = lambda f, cs: (fam + "." + f, [{f: ord(c)} for c in cs])
    if fam == "gssv":
        A.append(("nprocs", [{"nprocs": 0}, {"nprocs": -2}]))
        A += hdr_atoms("A", dt, (NC, NR), (GE,)); A += dense_atoms("B", dt)
    elif fam == "gssvx":
        A.append(("nprocs", [{"nprocs": 0}, {"nprocs": -2}]))
        A.append(("fact", [{"fact": 3}, {"fact": -1}, {"fact": 7}]))
        A.append(("fact=FACTORED", [{"fact": 2}]))            # not a violation: changes which later tests apply
        A.append(("trans", [{"trans": 3}, {"trans": -1}]))
        A.append(("refact", [{"refact": 2}, {"refact": -1}]))
        A.append(("refact=YES", [{"refact": 1}]))
        A.append(("usepr", [{"usepr": 2}, {"usepr": -5}]))
        A.append(("lwork", [{"lwork": -2}, {"lwork": -100}]))
        A += hdr_atoms("A", dt, (NC, NR), (GE,))
        A.append(("equed", [{"equed": 4}, {"equed": -1}]))
        A.append(("equed=ROW", [{"equed": 1}])); A.append(("equed=COL", [{"equed": 2}])); A.append(("equed=BOTH", [{"equed": 3}]))
        A.append(("R.nonpos", [{"R": [1, 0, 1, 1]}, {"R": [-2, 1, 1, 1]}, {"R": [1, 1, 1, 0]}]))
        A.append(("C.nonpos", [{"C": [1, 1, 0, 1]}, {"C": [1, 1, 1, -1]}, {"C": [0, 1, 1, 1]}]))
        A.append(("R.nonpos-beyond", [{"R": [1, 1, 1, 1, 0]}]))
        A.append(("C.nonpos-beyond", [{"C": [1, 1, 1, 1, -1]}]))
        A += dense_atoms("B", dt); A += dense_atoms("X", dt)
        A.append(("X.ncol-mismatch", [{"X_ncol": 1, "B_ncol": 2}, {"X_ncol": 2, "B_ncol": 1}]))
    elif fam == "gstrs":
        A.append(("trans", [{"trans": 3}, {"trans": -1}])); A.append(("trans=CONJ", [{"trans": 2}]))
        A += hdr_atoms("L", dt, (SCP,), (TRLU,)); A += hdr_atoms("U", dt, (NCP,), (TRU,)); A += dense_atoms("B", dt, False)
    elif fam == "gsrfs":
        A.append(("trans", [{"trans": 3}, {"trans": -1}]))
        A += hdr_atoms("A", dt, (NC,), (GE,)); A += hdr_atoms("L", dt, (SCP,), (TRLU,)); A += hdr_atoms("U", dt, (NCP,), (TRU,))
        A.append(("equed", [{"equed": 4}, {"equed": -1}]))
        A += dense_atoms("B", dt, False); A += dense_atoms("X", dt, False)
    elif fam == "gscon":
        A.append(ch("norm", "2FMl0"))
        A += hdr_atoms("L", dt, (SCP,), (TRLU,)); A += hdr_atoms("U", dt, (NCP,), (TRU,))
    elif fam == "gsequ":
        A.append(("A.negrow", [{"A_nrow": -1}, {"A_nrow": -5}])); A.append(("A.negcol", [{"A_ncol": -1}]))
        A.append(("A.rect", [{"A_ncol": N + 2}, {"A_nrow": 0}]))    # not a violation (M-by-N), never run on the real storage
        A += [a for a in hdr_atoms("A", dt, (NC,), (GE,)) if a[0].split(".")[1] in ("Stype", "Dtype", "Mtype")]
    elif fam == "trsv":
        A.append(ch("uplo", "XA0n")); A.append(ch("trans", "XL0")); A.append(("trsv.trans=C", [{"trans": ord("C")}, {"trans": ord("c")}]))
        A.append(ch("diag", "XLt"))
        A += hdr_atoms("L", dt, (SCP,), (TRLU,)); A += hdr_atoms("U", dt, (NCP,), (TRU,))
    elif fam == "gemv":
        A.append(ch("trans", "XL0"))
        A.append(("A.negrow", [{"A_nrow": -1}])); A.append(("A.negcol", [{"A_ncol": -2}]))
        A.append(("A.Stype", [{"A_Stype": s} for s in (NR, SCP, DN, 8)]))
        A.append(("A.Dtype", [{"A_Dtype": d} for d in range(5) if d != dt]))
        A.append(("A.Mtype", [{"A_Mtype": m} for m in (TRLU, SYL, 9)]))
        A.append(("incx", [{"incx": 0}])); A.append(("incy", [{"incy": 0}]))
    return A


def shape_safe(fam, r):
    """storage-consistent with the harness's base objects: an ACCEPTED call may only be made with these"""
    for p in ("A", "L", "U"):
        if p + "_nrow" in r and (r[p + "_nrow"] != N or r[p + "_ncol"] != N):
            return False
    for p in ("B", "X"):
        if p + "_lda" in r:
            nc = r.get(p + "_ncol", NRHS)
            if not (N <= r[p + "_lda"] <= LDMAX and 1 <= nc <= NRHS):
                return False
    if fam == "gssvx" and (r["X_ncol"] != r["B_ncol"] or r["refact"] == 1 or r["lwork"] > 0):
        return False     # refact = YES needs the state of an earlier call; user workspace is property C14's subject
    return True


def line_for(fam, oid, r):
    t = ["op", str(oid), fam]
    for f in WIRE[fam]:
        v = r[f]
        if isinstance(v, list):
            t.append(str(len(v))); t += [str(x) for x in v]
        else:
            t.append(str(v))
    return " ".join(t)


def gen_cases(ctx, fam, prec):
    """-> list of (kind, atom names, record)"""
    dt = DTV[prec]
    rng = random.Random("%d/%s/%s" % (ctx.seed, fam, prec))
    B = bases(fam, dt, prec); A = atoms(fam, dt, prec)
    cases = [("base", (), dict(b)) for b in B]
    for name, alts in A:                                   # every single mutation x every base
        for alt in alts:
            for b in B:
                r = dict(b); r.update(alt); cases.append(("single", (name,), r))
    nb = 1 if ctx.quick() else len(B)
    for (n1, a1), (n2, a2) in itertools.combinations(A, 2):  # every pair of atoms
        if ctx.quick():
            choices = [(a1[0], a2[0]), (rng.choice(a1), rng.choice(a2))]
        else:
            choices = list(itertools.product(a1, a2))
        for x, y in choices:
            bs = rng.sample(B, nb) if nb < len(B) else B
            if nb < len(B) and fam == "gssvx":
                # the bases in which EVERY argument is an input (factors reused, both scalings in force): a pair of mutations is only
                # a pair of violations where both arguments are looked at, so these always run
                bs = bs + [b for b in B if b.get("fact") == 2 and b.get("equed") == 3 and b not in bs]
            for b in bs:
                r = dict(b); r.update(x); r.update(y); cases.append(("pair", (n1, n2), r))
    return cases


def parse_sludrv(text):
    res = {}
    for ln in text.split("\n"):
        if ln.startswith("res "):
            m = re.match(r"res (\d+) (\S+) chain (-?\d+) doc (-?\d+) hyp (\d) valid (\d) name \|(.*)\|$", ln)
            res[int(m.group(1))] = {"routine": m.group(2), "chain": int(m.group(3)), "doc": int(m.group(4)), "hyp": int(m.group(5)),
                                    "valid": int(m.group(6)), "name": m.group(7)}
    return res


def parse_harness(text):
    res, cur = {}, None
    for ln in text.split("\n"):
        t = ln.split()
        if not t:
            continue
        if t[0] == "op":
            cur = {"id": int(t[1])}
        elif t[0] == "xerbla" and cur is not None:
            m = re.match(r"xerbla (\d+) \|(.*)\| (-?\d+)$", ln)
            cur["calls"], cur["xname"], cur["pos"] = int(m.group(1)), m.group(2), int(m.group(3))
        elif t[0] == "info" and cur is not None:
            cur["info"] = None if t[1] == "NA" else int(t[1])
        elif t[0] == "same" and cur is not None:
            cur["same"] = {t[i]: int(t[i + 1]) for i in range(1, len(t), 2)}
        elif t[0] == "pre" and cur is not None:
            cur["pre"] = [int(x) for x in t[1:4]]
        elif t[0] == "heap" and cur is not None:
            cur["heap"] = (int(t[1]), int(t[2]))
        elif t[0] == "end" and cur is not None:
            res[cur["id"]] = cur; cur = None
        elif t[0] == "crash":
            res[int(t[1])] = {"id": int(t[1]), "crash": int(t[2])}
    return res, ("done" in text.split())


def prewrites_from_gen():
    p = os.path.join(C.LEAN, "SluVerif", "Gen", "ArgCheck.lean")
    out = {}
    for m in re.finditer(r"^def (\w+)PreWrites : List String := \[(.*)\]$", open(p).read(), flags=re.M):
        out[m.group(1)] = re.findall(r'"([^"]*)"', m.group(2))
    return out


def classify(fam, prec, r, doc, real):
    """stable key of a documented-vs-real deviation (only reached when doc != real)"""
    dt = DTV[prec]
    def shape_bad(p): return r[p + "_nrow"] != r[p + "_ncol"] or r[p + "_nrow"] < 0
    if fam == "gssv" and doc == -7 and real == 0:
        return "gssv-B-type-unchecked"
    if fam == "gstrs":
        if doc == -1 and r["trans"] == 2 and prec in "cz":
            return "gstrs-conj-undocumented"
        if doc == -2:
            return "gstrs-LU-position" if (shape_bad("L") and real == -3) else ("gstrs-type-unchecked" if not shape_bad("L") else None)
        if doc == -3:
            return "gstrs-LU-position" if (shape_bad("U") and real == -4) else ("gstrs-type-unchecked" if not shape_bad("U") else None)
        if doc == -6 and real == 0:
            return "gstrs-type-unchecked"
    if fam == "gsrfs" and doc == -7 and real in (0, -10, -11):
        return "gsrfs-equed-unchecked"
    if fam == "trsv":
        if prec in "cz" and r["trans"] in (67, 99) and real == -2 and doc in (0, -3, -4, -5):
            return "trsv-trans-C-rejected"      # s/d accept 'C' since /repo 2acf694: there a rejection is a new violation
        if doc in (-4, -5) and not shape_bad("L" if doc == -4 else "U") and real in (0, -5):
            return "trsv-LU-type-unchecked"
    if fam == "gemv" and doc == -3 and r["A_nrow"] >= 0 and r["A_ncol"] >= 0 and real in (0, -5, -8):
        return "gemv-A-type-unchecked"
    return None


def run_family(ctx, exes, fam, prec, cases, workdir):
    script = "prec %s\n" % prec + "\n".join(line_for(fam, i, c[2]) for i, c in enumerate(cases)) + "\nquit\n"
    model = parse_sludrv(C.run_sludrv("argcheck", script))
    if len(model) != len(cases):
        raise RuntimeError("sludrv argcheck returned %d results for %d ops" % (len(model), len(cases)))
    runnable = [i for i, c in enumerate(cases) if model[i]["chain"] != 0 or shape_safe(fam, c[2])]
    hs = "prec %s\n" % prec + "\n".join(line_for(fam, i, cases[i][2]) for i in runnable) + "\nquit\n"
    sp = os.path.join(workdir, "%s_%s.script" % (fam, prec)); op = os.path.join(workdir, "%s_%s.out" % (fam, prec))
    open(sp, "w").write(hs)
    r = subprocess.run([exes[prec], sp, op], capture_output=True, text=True, env=C.ENV, timeout=1800)
    real, done = parse_harness(open(op).read() if os.path.exists(op) else "")
    return {"fam": fam, "prec": prec, "cases": cases, "model": model, "runnable": runnable, "real": real, "done": done, "rc": r.returncode,
            "stderr": r.stderr[-1500:]}


def judge(ctx, res, prew, stats, samples):
    fam, prec, cases, model, real = res["fam"], res["prec"], res["cases"], res["model"], res["real"]
    routine = ROUTINE[fam] % prec
    def blob(i, extra=None):
        b = {"family": fam, "prec": prec, "routine": routine, "kind": cases[i][0], "atoms": list(cases[i][1]), "record": cases[i][2],
             "op_line": line_for(fam, 0, cases[i][2]), "model": model.get(i), "real": real.get(i)}
        if extra: b.update(extra)
        return b
    if not res["done"] or res["rc"] != 0:
        ctx.violation("harness-failed:%s" % fam, "h_args_%s did not finish the %s script (rc=%s): %s" % (prec, fam, res["rc"], res["stderr"][-300:]),
                      {"family": fam, "prec": prec, "stderr": res["stderr"]}, no_input=True)
    stats["generated"] += len(cases); stats["skipped_unsafe_accept"] += len(cases) - len(res["runnable"])
    for i in res["runnable"]:
        kind, names, r = cases[i]
        m, x = model[i], real.get(i)
        stats["evaluations"] += 1; stats["kind=" + kind] += 1; stats["family=" + fam] += 1; stats["prec=" + prec] += 1
        if x is None:
            ctx.violation("harness-missing:%s" % fam, "no result for op %d of %s" % (i, routine), blob(i)); continue
        if "crash" in x:
            stats["crash"] += 1
            ctx.violation("crash:%s" % fam, "%s crashed (wait status %d); chain predicts %d, documented %d; atoms %s" % (routine, x["crash"], m["chain"], m["doc"], list(names)), blob(i)); continue
        own = x["calls"] > 0 and x["xname"] == m["name"]
        real_rep = -x["pos"] if own else 0
        stats["doc=%d" % m["doc"]] += 1; stats["real=%d" % real_rep] += 1
        # theorem instance (sanity of the table/driver plumbing)
        if m["hyp"] == 1 and m["chain"] != m["doc"]:
            ctx.violation("theorem-instance:%s" % fam, "%s: exclusion holds but chain %d != documented %d" % (routine, m["chain"], m["doc"]), blob(i))
        # A. correspondence generated chain <-> compiled code
        ok = True
        if m["chain"] < 0:
            ok = own and x["calls"] == 1 and x["pos"] == -m["chain"] and (x["info"] is None or x["info"] == m["chain"])
        else:
            # (an inner routine that rejects ITS arguments writes the shared info; that is reported separately below)
            ok = (not own) and (x["info"] is None or x["info"] >= 0 or x["calls"] > 0)
        if not ok:
            stats["corr_mismatch"] += 1
            ctx.violation("corr:%s" % fam, "%s: real routine reported xerbla(%r,%d) x%d info=%s but the chain generated from the source gives %d (atoms %s)" % (
                routine, x["xname"], x["pos"], x["calls"], x["info"], m["chain"], list(names)), blob(i))
        if x["calls"] > 0 and not own:
            stats["inner_xerbla"] += 1
            inner = x["xname"].strip()
            if inner == "%sgstrs" % prec and prec in "sd" and r.get("trans") == 2 and fam in ("gssvx", "gsrfs"):
                key = "conj-real-inner-gstrs-rejects"
            elif inner == "sp_%strsv" % prec and prec in "cz" and r.get("trans") == 2 and fam in ("gssvx", "gsrfs", "gstrs"):
                key = "conj-complex-inner-trsv-rejects"
            else:
                key = "inner-xerbla:%s:%s" % (fam, inner)
            ctx.violation(key, "%s accepted its arguments (documented valid=%d) but %s reported parameter %d to xerbla_ %d times; info=%s" % (
                routine, m["valid"], inner, x["pos"], x["calls"], x["info"]), blob(i))
        # B. the property: documented position
        if real_rep != m["doc"]:
            stats["doc_deviation"] += 1
            key = classify(fam, prec, r, m["doc"], real_rep) or "doc-mismatch:%s:doc%d:real%d" % (fam, m["doc"], real_rep)
            stats["dev:" + key] += 1
            ctx.violation(key, "%s: documented table gives info=%d, the routine reported %d (xerbla %r); atoms %s; record %s" % (
                routine, m["doc"], real_rep, x["xname"], list(names), json.dumps(r, sort_keys=True)), blob(i))
        # C. no side effects of a rejected call
        if own:
            stats["rejected"] += 1
            bad = [g for g, v in x["same"].items() if v != 1]
            if bad:
                ctx.violation("side-effect:%s:%s" % (fam, ",".join(bad)), "%s rejected argument %d but modified %s" % (routine, x["pos"], bad), blob(i))
            if x["heap"][0] != x["heap"][1]:
                ctx.violation("heap-imbalance:%s" % fam, "%s rejected argument %d with %d allocations / %d frees" % (routine, x["pos"], x["heap"][0], x["heap"][1]), blob(i))
            elif x["heap"][0] != 0:
                ctx.violation("alloc-before-check:%s" % fam, "%s rejected argument %d after %d allocations" % (routine, x["pos"], x["heap"][0]), blob(i))
            allowed = prew.get(routine, [])
            for flag, nm in zip(x["pre"], ["*equed", "superlumt_options->perm_c", "superlumt_options->perm_r"]):
                if flag:
                    stats["prewrite:" + nm] += 1
                    if nm not in allowed:
                        ctx.violation("prewrite:%s" % fam, "%s wrote %s before rejecting, not in the translated PreWrites list %s" % (routine, nm, allowed), blob(i))
        else:
            stats["accepted"] += 1
            if m["valid"] == 1:
                stats["accepted_documented_valid"] += 1
                if x["info"] is not None and x["info"] > 0:
                    stats["valid_info_positive"] += 1
        if len(samples) < 6 and (kind == "pair" and i % 97 == 0):
            samples.append({"routine": routine, "atoms": list(names), "op": line_for(fam, 0, r), "chain": m["chain"], "doc": m["doc"],
                            "xerbla": [x["calls"], x["xname"], x["pos"]], "info": x["info"], "heap": list(x["heap"])})


def run(ctx):
    if not ctx.lean_ok:
        # check.py only adds this when no concrete input was found; the known deviations of the unchanged code are
        # concrete inputs too, so the broken obligation must be raised here or it would be masked by them
        ctx.violation("lean-obligation", "translator / proof obligation of C15 no longer checks: " + (ctx.lean_log[:300] + " ... " + ctx.lean_log[-300:]).replace("\n", " | "),
                      {"kind": "obligation", "log": ctx.lean_log[-4000:], "theorems": [o for o in ctx.obligations if not o.get("ok")][:20]}, no_input=True)
    C.build_lib("plain")
    exes = C.build_harness_all_prec("h_args.c", "plain", extra_link=WRAP)
    prew = prewrites_from_gen()
    work = os.path.join(C.BUILD, "c15"); os.makedirs(work, exist_ok=True)
    jobs = [(fam, p) for fam in FAMILIES for p in "sdcz"]
    def one(j):
        fam, p = j
        return run_family(ctx, exes, fam, p, gen_cases(ctx, fam, p), work)
    with ThreadPoolExecutor(min(C.NPROC, len(jobs))) as ex:
        results = list(ex.map(one, jobs))
    stats, samples = Counter(), []
    for res in results:
        judge(ctx, res, prew, stats, samples)
    distinct = set()
    for res in results:
        for i in res["runnable"]:
            distinct.add((res["fam"], res["prec"], line_for(res["fam"], 0, res["cases"][i][2])))
    ctx.coverage.update({
        "evaluations": stats["evaluations"], "distinct_nontrivial": len(distinct),
        "rule": "per family x precision (s,d,c,z): valid base records (storage-consistent with the 4x4 system factored inside the harness) "
                "x every single mutation (each alternative value x every base) x every unordered pair of mutation atoms (quick: first + one "
                "seeded-random value pair on one seeded-random base; thorough: all value pairs x all bases).  A record is handed to the real "
                "routine when the generated chain predicts rejection or when its sizes match the real storage (an accepted call with "
                "inconsistent sizes would read out of bounds); distinct = distinct (routine, argument record).",
        "distribution": {k: v for k, v in sorted(stats.items())},
        "samples": samples,
        "prewrites_translated": {k: v for k, v in prew.items() if v},
    })


def replay(ctx, obj):
    """re-run one recorded call: python3 check.py C15 --replay replay/C15-xxxx.json"""
    rp = obj.get("replay", obj)
    if "record" not in rp:
        print(json.dumps(rp, indent=1)[:4000]); return 1
    C.build_lib("plain")
    exes = C.build_harness_all_prec("h_args.c", "plain", precs=rp["prec"], extra_link=WRAP)
    fam, prec = rp["family"], rp["prec"]
    script = "prec %s\n%s\nquit\n" % (prec, line_for(fam, 0, rp["record"]))
    print(script)
    print(C.run_sludrv("argcheck", script))
    work = os.path.join(C.BUILD, "c15"); os.makedirs(work, exist_ok=True)
    sp, op = os.path.join(work, "replay.script"), os.path.join(work, "replay.out")
    open(sp, "w").write(script)
    subprocess.run([exes[prec], sp, op], env=C.ENV)
    print(open(op).read())
    return 1
