"""C09 — returned L, U and permutations are well-formed data structures."""
from vlib import sweep as S, common as C, fixup as FX
LEVEL = "proof"
EXPLANATION = ("Theorems (lean/SluVerif/Props/C09.lean) are about the executable well-formedness predicate of "
               "Model/Sparse.lean and the fixupL/countnz models; the predicate is evaluated by the compiled Lean "
               "checker on every factorization the real library returns in this run.")
ASSUMPTIONS = ["array capacities (nzlmax etc.) are not part of SCP/NCP, so 'inside their arrays' is judged by ASan in C05; here extents must be non-negative and pairwise disjoint"]


def run(ctx):
    st, dis = FX.run(ctx, 1500 if ctx.quick() else 30000)
    ctx.coverage["fixupL_countnz"] = st
    ctx.coverage["traces_validated_against_impl"] = st["cases"]
    for d in [x for x in dis if x["kind"] == "fixupL-property"][:5]:
        ctx.violation("fixupL-spec", "real fixupL/countnz output is not the specified compaction / counts", d)
    for d in [x for x in dis if x["kind"] != "fixupL-property"][:5]:
        ctx.violation("fixupL-correspondence", "correspondence fixupL/countnz <-> Model/Fixup.lean (theorem Slu.fixupL_spec) no longer checks", d, no_input=True)
    n_cases, nmax = (600, 48) if ctx.quick() else (5000, 110)
    recs = S.sweep(ctx, n_cases, nmax, precs="dszc", drivers=("gssv", "gssvx"))
    bad = S.judge(ctx, recs, ["wfL", "wfU", "permr", "permc"], "well-formedness")
    S.coverage(ctx, recs)
    ctx.coverage["wf_failures"] = bad
    # factors returned by RE-factorizations (new values on the old pattern, with and without pivot reuse, changing thread counts): the
    # same well-formedness predicate after every call of generated call histories, all four precision copies
    from vlib import hist as H
    hst, hv = H.run_histories(ctx, 100 if ctx.quick() else 1000, seed_salt=909)
    for key, what, blob in hv[:10]:
        if key.startswith("factorization-of-current-values") and not any(f in key for f in ("wfL", "wfU", "permr", "permc")):
            continue        # numerical identity only: C08's subject
        ctx.violation("refactorization:" + key, "re-factorization history: " + what, blob)
    ctx.coverage["refactorization_histories"] = hst
