"""C09 — returned L, U and permutations are well-formed data structures."""
from vlib import sweep as S, common as C
LEVEL = "proof"
EXPLANATION = ("Theorems (lean/SluVerif/Props/C09.lean) are about the executable well-formedness predicate of "
               "Model/Sparse.lean and the fixupL/countnz models; the predicate is evaluated by the compiled Lean "
               "checker on every factorization the real library returns in this run.")
ASSUMPTIONS = ["array capacities (nzlmax etc.) are not part of SCP/NCP, so 'inside their arrays' is judged by ASan in C05; here extents must be non-negative and pairwise disjoint"]


def run(ctx):
    n_cases, nmax = (600, 48) if ctx.quick() else (12000, 160)
    recs = S.sweep(ctx, n_cases, nmax, precs="ds", drivers=("gssv", "gssvx"))
    bad = S.judge(ctx, recs, ["wfL", "wfU", "permr", "permc"], "well-formedness")
    S.coverage(ctx, recs)
    ctx.coverage["wf_failures"] = bad
