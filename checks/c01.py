"""C01 — simple driver solves A*X=B (backward-stable residual), A untouched, for every nprocs/schedule."""
from vlib import sweep as S, common as C, factor_corr as FC
LEVEL = "proof"
EXPLANATION = ("Exact-arithmetic correctness of the solve sequence (shuffle conventions, NR = transpose) is proved on the "
               "model (Props/C01.lean); the floating-point residual bound |B-AX| <= gamma(3n)(Pr^T|L||U|Pc^T)|X| is decided "
               "per run by the Lean-verified exact checker (checkResidual_sound) on what p?gssv returned; A is compared "
               "byte-for-byte with a pristine copy inside the harness.")
ASSUMPTIONS = ["rounding is judged per run, not proved", "real thread interleavings are sampled (perturbation hooks + small panels), the schedule theorem is about the model"]


def run(ctx):
    n_cases, nmax = (800, 48) if ctx.quick() else (5000, 120)
    recs = S.sweep(ctx, n_cases, nmax, precs="dszc", drivers=("gssv",))
    bad = S.judge(ctx, recs, ["wfL", "wfU", "permr", "permc", "resid"], "gssv-residual")
    nons = 0
    for r in recs:
        if r["status"] != "ok":
            continue
        res, cfg = r["res"], r["cfg"]
        for k in ("A.val.same", "A.ptr.same", "A.ind.same"):
            if res.get(k) != 1:
                ctx.violation("A-modified", "p%sgssv modified A (%s) n=%d" % (cfg["prec"], k, cfg["n"]), S.replay_blob(r)); bad += 1
        if res["threads"][0] != res["threads"][1]:
            ctx.violation("threads-left", "thread count %s -> %s" % res["threads"], S.replay_blob(r)); bad += 1
    S.coverage(ctx, recs)
    # the returned X against the exact solve of the model (Model/LU.lean solveN, theorem solve_correct) on well-conditioned inputs
    dom = S.sweep(ctx, 300 if ctx.quick() else 3000, 24, precs="ds", drivers=("gssv",), force={"dominant": True, "stype": "NC", "nrhs": 2}, seed_offset=111)
    st, dis = FC.compare(ctx, dom, nmax=24, with_x=True)
    ctx.coverage["exact_solve_comparison"] = st
    for d in dis[:10]:
        ctx.violation("solve-correspondence", "p?gssv vs exact model (factor + solveN): %s" % d.get("fields"), d)
    ctx.coverage["failures"] = bad
