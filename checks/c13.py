"""C13 — refinement returns truthful backward errors and dominating forward bounds."""
import random, json, math, struct
from fractions import Fraction as F
from collections import Counter
from vlib import common as C, gen as G, drv as D, conrfs as R
from checks import c12 as K

LEVEL = "proof"
EXPLANATION = (
    "Theorems (Props/C13.lean) over Model/Rfs.lean, the model of ?gsrfs with the triangular solve as a parameter: the loop stops "
    "after at most ITMAX=5 corrections; on every exit path the returned berr is the guarded componentwise backward error omega of "
    "the x that is returned (residual recomputed after each correction, x untouched after the last berr) and the residual kept for "
    "the forward bound is that of the returned x; residual, |op(A)||x| and the correction solve use the same transpose sense (one "
    "exact correction annihilates the residual); the estimator dialogue applies T with T^T = D op(A)^-1 diag(W), hence ferr <= "
    "||D |op(A)^-1| W||_inf / ||D x||_inf by lacon_upper; quick returns give ferr = berr = 0. Correspondence: real ?gsrfs called "
    "directly (h_rfs) on exact-float systems — zero-correction and one-correction paths — diffing the number of corrections (wrapped "
    "?gstrs calls), X, berr, W-driven estimator dialogue and ferr with `sludrv rfs`. Oracle on the implementation: exact omega of the "
    "RETURNED X from pristine data (fractions) vs returned berr, berr size when cond < 1/sqrt(eps), forward error against the exact "
    "rational solution with the test slack 40 (THRESH of TESTING/p?drive.c applied to p?gst07's ratio).")
ASSUMPTIONS = [
    "berr 'up to rounding' is judged additively: |berr - omega(x_returned)| <= 2(n+2)u + 10 n u omega (error of the computed residual, "
    "of the denominator sums, of the division and of the final X := X*C scaling); the theorem is the exact-arithmetic identity",
    "the (n+1)eps size of berr and the domination of the forward error are numerical claims: sampled, not proved",
    "trans=CONJ: where ?gstrs performs no solve (complex: sp_?trsv rejects 'C'; real: only in trees without the fix of defect F3 of C07 — "
    "probed at run time, coverage.real_gstrs_rejects_CONJ) the X-dependent clauses exclude CONJ; berr truthfulness is still checked there",
]
TRUSTED = ["Python fractions arithmetic for exact residuals / solves (oracle)"]
FERR_SLACK = 40
REAL_CONJ_REJECTED = True


def absx(v, cplx):
    """the absolute value ?gsrfs uses in the backward error: |x| real, |re|+|im| complex (CABS1 as in LAPACK's ?gerfs)"""
    if cplx:
        return abs(v.re) + abs(v.im)
    return abs(v)


def to_num(v, cplx):
    return R.CF(F(v[0]), F(v[1])) if cplx else F(v)


def op_entries(ent, sense):
    """entries dict of A -> list of (i, j, value) of op(A): sense 'N' | 'T' | 'C'"""
    out = []
    for (i, j), v in ent.items():
        if sense == "N":
            out.append((i, j, v))
        elif sense == "T":
            out.append((j, i, v))
        else:
            out.append((j, i, v.conj() if isinstance(v, R.CF) else v))
    return out


def omega_exact(n, ops, b, x, cplx, safe1, safe2):
    """guarded componentwise backward error exactly as dgsrfs.c:307-315 evaluates it, in exact arithmetic"""
    zero = R.CF() if cplx else F(0)
    ax = [zero] * n; den = [absx(b[i], cplx) for i in range(n)]
    for (i, j, v) in ops:
        ax[i] = ax[i] + v * x[j]
        den[i] += absx(v, cplx) * absx(x[j], cplx)
    s = F(0); resid = []
    for i in range(n):
        r = b[i] - ax[i]; resid.append(r)
        if den[i] > safe2:
            s = max(s, absx(r, cplx) / den[i])
        elif den[i] != 0:
            s = max(s, (absx(r, cplx) + safe1) / den[i])
    return s, resid, den


def unpack(flat, n, ld, j, cplx):
    if cplx:
        return [R.CF(F(flat[2 * (j * ld + i)]), F(flat[2 * (j * ld + i) + 1])) for i in range(n)]
    return [F(flat[j * ld + i]) for i in range(n)]


def consts(prec):
    p = R.PBITS[prec]
    eps = F(1, 2 ** p); safmin = F(1, 2 ** (1022 if prec in "dz" else 126))
    return p, eps, safmin


# ====================================================================== oracle through the expert driver
def judge_driver(ctx, cov, cfg, M, rhs, rec):
    prec, n = cfg["prec"], cfg["n"]; cplx = M.cplx
    p, eps, safmin = consts(prec); u = eps
    rep = {"cfg": cfg, "script": K.oracle_script(cfg, M, rhs)}
    ops = rec["base_ops"]
    if rec["rc"] != 0 or not rec["base_done"] or not ops:
        ctx.violation("gssvx-rfs:crash", "harness crashed rc=%s prec=%s n=%d %s" % (rec["rc"], prec, n, rec["err"][-200:]), rep)
        return
    r = ops[0]; info = r["info"]
    if not (info == 0 or info == n + 1) or cfg["nrhs"] == 0:
        cov["skipped_info"] += 1
        return
    trans = cfg["trans"]
    conj = trans == 2
    nr = cfg["stype"] == "NR"
    equed = r["equed"]; rowequ = equed in (1, 3); colequ = equed in (2, 3)
    notran_flip = (trans == 0) != nr
    d = [F(1)] * n
    if notran_flip and colequ:
        d = [F(v) for v in r["C"]]
    elif (not notran_flip) and rowequ:
        d = [F(v) for v in r["R"]]
    ent = {k: to_num(v, cplx) for k, v in K.user_entries(cfg, M, r["A.val"]).items()}
    if any(v != v for v in r["X"]) or any(v != v for v in r["berr"]) or any(abs(v) == float("inf") for v in r["X"]):
        cov["nonfinite"] += 1
        return
    safe1 = (n + 1) * safmin; safe2 = safe1 / eps
    # what the code does for CONJ: plain transpose of AA (the property asks for the conjugate transpose in complex)
    sense_code = "N" if trans == 0 else "T"
    sense_prop = "N" if trans == 0 else ("C" if (conj and cplx) else "T")
    ld = n
    nm = None
    if n <= (16 if cplx else 32):
        try:
            nm = K.exact_norms(n, K.user_entries(cfg, M, r["A.val"]), cplx)
        except D.NonFinite:
            nm = None
    kappa = None
    if nm:
        kappa = (nm["A1"][1] * nm["inv1"][1]) if trans == 0 else (nm["Ainf"][1] * nm["invinf"][1])
        cov["cond_decade=%02d" % min(40, int(math.log10(max(1.0, float(kappa)))))] += 1
    pristine = {}
    for j_, col in M.cols():
        for i_, v in col:
            pristine[(i_, j_)] = to_num(v, cplx)
    for j in range(cfg["nrhs"]):
        xr = unpack(r["X"], n, ld, j, cplx)
        beq = unpack(r["B"], n, ld, j, cplx)
        xeq = [xr[i] / d[i] for i in range(n)]
        berr = F(r["berr"][j]); ferr = F(r["ferr"][j])
        # ---- truthfulness of berr for the returned X
        om, _, dens = omega_exact(n, op_entries(ent, sense_prop), beq, xeq, cplx, safe1, safe2)
        tol = 2 * (n + 2) * u + 10 * n * u * om
        cov["berr_checked"] += 1
        cov["trans=%d" % trans] += 1; cov["equed=%d" % equed] += 1
        # Skeel's sigma(A,x) = max/min of (|A||x| + |b|): one refinement step reaches berr ~ (n+1)u only when cond * sigma * u << 1
        sigma = (max(dens) / min(dens)) if dens and min(dens) > 0 else None
        if abs(berr - om) > tol:
            om2, _, _ = omega_exact(n, op_entries(ent, sense_code), beq, xeq, cplx, safe1, safe2)
            if conj and cplx and abs(berr - om2) <= 2 * (n + 2) * u + 10 * n * u * om2:
                key = "berr-truthful:cplx-conj-uses-transpose"
            else:
                key = "berr-truthful"
            ctx.violation(key, "berr=%g but omega(returned X)=%g (tol %g) prec=%s n=%d trans=%d stype=%s equed=%d" % (
                float(berr), float(om), float(tol), prec, n, trans, cfg["stype"], equed), rep)
            cov[key] += 1
            continue
        cov["berr_truthful"] += 1
        cov["berr_decade=%s" % ("0" if berr == 0 else "%03d" % int(math.floor(math.log10(float(berr)))))] += 1
        if conj and (not cplx) and REAL_CONJ_REJECTED:     # complex CONJ solves since the conjugate-transpose repair in /repo
            cov["conj_x_clauses_excluded"] += 1
            continue
        # ---- size of berr for matrices that are not ill conditioned to working precision
        if kappa is not None and kappa * kappa * eps < 1 and sigma is not None and kappa * sigma * eps * 1000 < 1:
            cov["berr_size_checked"] += 1
            if berr > 10 * (n + 1) * u:
                ctx.violation("berr-size", "berr=%g > 10(n+1)u=%g with cond=%g prec=%s n=%d trans=%d u_piv=%s" % (
                    float(berr), float(10 * (n + 1) * u), float(kappa), prec, n, trans, cfg["u"]), rep)
        # ---- forward error against the exact solution of the user's system
        if kappa is not None and kappa * 10 * eps < 1:
            bp = [to_num(v, cplx) for v in rhs[j]]
            dense = [[(R.CF() if cplx else F(0)) for _ in range(n)] for _ in range(n)]
            for (i_, j_, v) in op_entries(pristine, sense_prop):
                dense[i_][j_] = dense[i_][j_] + v
            xs = R.solve_exact(dense, bp)
            if xs is None:
                cov["pristine_singular"] += 1
                continue
            num = max(absx(xr[i] - xs[i], cplx) for i in range(n)); xn = max(absx(xr[i], cplx) for i in range(n))
            cov["ferr_checked"] += 1
            if xn == 0:
                cov["x_zero"] += 1
            elif num > FERR_SLACK * ferr * xn:
                ctx.violation("ferr-dominates", "|x-x*|/|x|=%g > %d*ferr=%g cond=%g prec=%s n=%d trans=%d equed=%d" % (
                    float(num / xn), FERR_SLACK, float(FERR_SLACK * ferr), float(kappa), prec, n, trans, equed), rep)
            else:
                q = float(num / xn / ferr) if ferr > 0 else 0.0
                cov["ferr_ratio<1" if q < 1 else "ferr_ratio<%d" % FERR_SLACK] += 1


def _driver_one(args):
    seed, t, prec, quick, exe, realconj = args
    global REAL_CONJ_REJECTED
    REAL_CONJ_REJECTED = realconj
    cfg, M, rhs = K.oracle_case(seed + 500, t, prec, quick)
    cfg["gen"] = ["driver", seed, t, prec, bool(quick)]
    if cfg["mode"] == "order":
        cfg["nrhs"] = max(cfg["nrhs"], 1)
    rec = R.run_ext(exe, K.oracle_script(cfg, M, rhs), "quit\n", log=True)
    cl = Counter(); sub = K._Sub()
    try:
        judge_driver(sub, cl, cfg, M, rhs, rec)
    except D.NonFinite:
        cl["nonfinite"] += 1
    # number of corrections seen through the wrapped ?gstrs during the driver call (nrhs = 1 columns only are logged)
    logs = R.parse_logs(rec["base_text"])
    ngs = 0; phase = 0       # 0: before/inside the ?gscon dialogue, 1: after it (solve + corrections of column 0)
    for l in logs:
        if phase == 0:
            if l[0] == "lc" and l[2] == 0:
                phase = 1
        else:
            if l[0] == "lc":
                break
            if l[0] == "gs" and l[2] == "in":
                ngs += 1
    if cfg["nrhs"] == 1:
        ngs = max(0, ngs - 1)    # the first single-column ?gstrs call is the solve itself
    cl["corrections_first_col=%d" % min(ngs, 6)] += 1
    return cfg, cl, sub.viol


# ====================================================================== direct ?gsrfs: truthfulness on arbitrary start vectors
def direct_case(seed, t, prec):
    rng = random.Random(seed * 31337 + 13 * t + 3)
    cplx = prec in "cz"
    n = rng.choice([1, 2, 3, 4, 5, 6, 8, 10, 12, 16, 20])
    mode = rng.choice(["plain", "plain", "scale", "nearsing"])
    M, minfo = K.conditioned_matrix(rng, n, prec, mode)
    cfg = {"t": t, "prec": prec, "n": n, "stype": "NC", "trans": 0, "fact": 0, "u": rng.choice([1.0, 0.5, 0.1]), "nprocs": rng.choice([1, 2]),
           "colperm": rng.randint(0, 3), "panel": rng.choice([1, 2, 8]), "relax": rng.choice([1, 2, 4]), "nrhs": 0, "mode": mode, "kind": M.kind,
           "rtrans": rng.choice([0, 0, 1, 1, 2]), "requed": rng.choice([0, 0, 1, 2, 3]), "start": rng.choice(["solve", "garbage", "zero", "perturbed"]),
           "rnrhs": rng.choice([1, 1, 2]), "gen": ["direct", seed, t, prec]}
    def rv():
        v = rng.uniform(-1, 1) * 10 ** rng.uniform(-2, 2)
        return struct.unpack("f", struct.pack("f", v))[0] if prec in "sc" else v
    B = [[((rv(), rv()) if cplx else rv()) for _ in range(n)] for _ in range(cfg["rnrhs"])]
    X0 = [[((rv(), rv()) if cplx else rv()) for _ in range(n)] for _ in range(cfg["rnrhs"])]
    if cfg["start"] == "zero":
        X0 = [[((0.0, 0.0) if cplx else 0.0) for _ in range(n)] for _ in range(cfg["rnrhs"])]
    Rs = [2.0 ** rng.randint(-6, 6) for _ in range(n)]; Cs = [2.0 ** rng.randint(-6, 6) for _ in range(n)]
    return cfg, M, B, X0, Rs, Cs


def direct_scripts(cfg, M, B, X0, Rs, Cs):
    n = cfg["n"]; single = cfg["prec"] in "sc"
    s = "ienv %d %d %d 4 2 -50 -50 -30\n" % (cfg["panel"], cfg["relax"], max(cfg["relax"], 8))
    if cfg.get("factor_vals"):
        M0 = G.Mat(M.n, M.colptr, M.rowind, cfg["factor_vals"], M.cplx)
        s += G.script_mat(0, M0, nr=False, single=single)
    else:
        s += G.script_mat(0, M, nr=False, single=single)
    s += G.script_rhs(0, n, 0, n, [], M.cplx, single)
    s += G.script_rhs(1, n, cfg["rnrhs"], n, B, M.cplx, single)
    s += G.script_rhs(2, n, cfg["rnrhs"], n, X0, M.cplx, single)
    s += "permc_get 0 %d\n" % cfg["colperm"]
    s += "gssvx 0 0 %d 0 0 0 0 %s %d %d 0 0\n" % (cfg["nprocs"], float(cfg["u"]).hex(), cfg["panel"], cfg["relax"])
    if cfg["start"] in ("solve", "perturbed"):
        # X0 := computed solution of op(A) x = b (then optionally perturbed by the caller through a second rhs load)
        s += G.script_rhs(2, n, cfg["rnrhs"], n, B, M.cplx, single)
        s += "gstrs %d 2\n" % (cfg["rtrans"] if cfg["rtrans"] < 2 else 1)
    if cfg.get("factor_vals"):
        s += "setvals 0 %s\n" % G.fmt_vals(M.vals, M.cplx, single)
    s += "setequed %d\n" % cfg["requed"]
    s += "setRC %d %s %s\n" % (n, " ".join(float(v).hex() for v in Rs), " ".join(float(v).hex() for v in Cs))
    s += "quit\n"
    ext = "consts\ngsrfs %d 0 1 2\nquit\n" % cfg["rtrans"]
    return s, ext


def judge_direct(ctx, cov, cfg, M, B, X0, Rs, Cs, rec):
    prec, n = cfg["prec"], cfg["n"]; cplx = M.cplx
    p, eps, safmin = consts(prec); u = eps
    base, ext = direct_scripts(cfg, M, B, X0, Rs, Cs)
    rep = {"cfg": cfg, "base": base, "ext": ext}
    ops, done = R.parse_ext(rec["ext_text"])
    if rec["rc"] != 0 or not done or len(ops) < 2:
        ctx.violation("gsrfs-direct:crash", "h_rfs crashed rc=%s prec=%s n=%d %s" % (rec["rc"], prec, n, rec["err"][-200:]), rep)
        return
    bo = [o for o in rec["base_ops"] if o["op"] == "gssvx"]
    if not bo or bo[0]["info"] != 0:
        cov["skipped_info"] += 1
        return
    co, go = ops[0], ops[1]
    if F(float.fromhex(co["eps"][0])) != eps or F(float.fromhex(co["safmin"][0])) != safmin:
        ctx.violation("gsrfs-direct:consts", "machine constants differ from the model's: %s %s" % (co["eps"], co["safmin"]), rep)
    if int(go["info"][0]) != 0:
        ctx.violation("gsrfs-direct:info", "?gsrfs info=%s" % go["info"][0], rep)
        return
    trans = cfg["rtrans"]
    ent = {}
    for j_, col in M.cols():
        for i_, v in col:
            ent[(i_, j_)] = to_num(v, cplx)
    safe1 = (n + 1) * safmin; safe2 = safe1 / eps
    X = [float.fromhex(z) for z in go["X"][1:]]
    berrs = [float.fromhex(z) for z in go["berr"][1:]]; ferrs = [float.fromhex(z) for z in go["ferr"][1:]]
    if any(v != v or abs(v) == float("inf") for v in X + berrs):
        cov["nonfinite"] += 1
        return
    if go["B.same"][0] != "1" or go["A.val.same"][0] != "1":
        ctx.violation("gsrfs-direct:inputs-modified", "?gsrfs modified A or B", rep)
    sense_prop = "N" if trans == 0 else ("C" if (trans == 2 and cplx) else "T")
    for j in range(cfg["rnrhs"]):
        xr = unpack(X, n, n, j, cplx)
        b = [to_num(v, cplx) for v in B[j]]
        berr = F(berrs[j])
        om, _, _ = omega_exact(n, op_entries(ent, sense_prop), b, xr, cplx, safe1, safe2)
        tol = 2 * (n + 2) * u + 10 * n * u * om
        cov["berr_checked"] += 1; cov["trans=%d" % trans] += 1; cov["start=" + cfg["start"]] += 1
        if abs(berr - om) > tol:
            om2, _, _ = omega_exact(n, op_entries(ent, "N" if trans == 0 else "T"), b, xr, cplx, safe1, safe2)
            key = "berr-truthful:cplx-conj-uses-transpose" if (trans == 2 and cplx and abs(berr - om2) <= 2 * (n + 2) * u + 10 * n * u * om2) else "berr-truthful"
            ctx.violation(key, "direct ?gsrfs: berr=%g but omega(returned X)=%g (tol %g) prec=%s n=%d trans=%d start=%s" % (
                float(berr), float(om), float(tol), prec, n, trans, cfg["start"]), rep)
            cov[key] += 1
        else:
            cov["berr_truthful"] += 1
            cov["berr_decade=%s" % ("0" if berr == 0 else "%03d" % int(math.floor(math.log10(float(berr)))))] += 1
    # forward-error normalisation: ferr = (final estimate of the dialogue) / max_i s_i |x_i|, where s undoes the scaling of the solution
    # (C for op = A with column scaling, R for op = A^T / A^H with row scaling, 1 otherwise) -- the bound is relative to the solution of the
    # caller's system, not of the equilibrated one.  Checked against the estimator's own last reply, in every precision.
    finals = [l[3] for l in go["logs"] if l[0] == "lc" and l[2] == 0]
    if len(finals) == cfg["rnrhs"]:
        rq = cfg["requed"]
        sc = Cs if (trans == 0 and rq in (2, 3)) else (Rs if (trans != 0 and rq in (1, 3)) else [1.0] * n)
        for j in range(cfg["rnrhs"]):
            xr = unpack(X, n, n, j, cplx)
            lst = max(F(sc[i]) * absx(xr[i], cplx) for i in range(n))
            est = F(finals[j]); fe = F(ferrs[j])
            if ferrs[j] != ferrs[j] or est != est or lst == 0 or est == 0 or abs(ferrs[j]) == float("inf"):
                cov["ferr_norm_skipped"] += 1; continue
            cov["ferr_norm_checked"] += 1; cov["ferr_norm:trans=%d,equed=%d" % (trans, rq)] += 1
            if abs(fe * lst - est) > 16 * u * est:
                ctx.violation("ferr-normalisation", "direct ?gsrfs: ferr=%g but estimate/max(s|x|)=%g (estimate %g, trans=%d equed=%d prec=%s n=%d)" % (
                    ferrs[j], float(est / lst), float(est), trans, rq, prec, n), rep)
    # corrections per column, from the wrapped ?gstrs calls that precede each estimator dialogue
    cnt = 0; counts = []
    for l in go["logs"]:
        if l[0] == "gs" and l[2] == "in":
            cnt += 1
        elif l[0] == "lc":
            if l[1] == 0:
                counts.append(cnt)
            if l[2] == 0:
                cnt = 0
            else:
                cnt = -10 ** 6       # inside a dialogue
    for c_ in counts:
        cov["corrections=%d" % c_] += 1
        if c_ > 5:
            ctx.violation("gsrfs-direct:itmax", "more than ITMAX corrections: %d" % c_, rep)


def _direct_one(args):
    seed, t, prec, exe = args
    cfg, M, B, X0, Rs, Cs = direct_case(seed, t, prec)
    base, ext = direct_scripts(cfg, M, B, X0, Rs, Cs)
    rec = R.run_ext(exe, base, ext)
    cl = Counter(); sub = K._Sub()
    try:
        judge_direct(sub, cl, cfg, M, B, X0, Rs, Cs, rec)
    except D.NonFinite:
        cl["nonfinite"] += 1
    return cfg, cl, sub.viol


# ====================================================================== correspondence: real ?gsrfs vs `sludrv rfs` on exact-float systems
def corr_case(seed, t):
    rng = random.Random(seed * 424243 + 17 * t + 9)
    cfgK, M = K.exact_family_case(seed + 77, t)
    n = cfgK["n"]; prec = cfgK["prec"]
    cfg = dict(cfgK, rtrans=rng.choice([0, 0, 1, 1, 2]), requed=rng.choice([0, 0, 1, 2, 3]), rnrhs=rng.choice([1, 1, 2]),
               path=rng.choice(["zero_corr", "one_corr", "one_corr", "far"]), gen=["corr", seed, t])
    if rng.random() < 0.15:
        # ITMAX path: the factors handed to ?gsrfs belong to A0 = I while A = I + (1/4)*subdiagonal (values replaced after the
        # factorization): every correction is a Richardson step x += b - op(A) x, the error shifts and shrinks by 4 per step,
        # berr is divided by ~4 every time and the loop can only stop on count = ITMAX.  All arithmetic is dyadic (exact).
        n = 8
        sub = [rng.choice([-1, 1]) * 0.25 for _ in range(n - 1)]
        pat = set((i, i) for i in range(n)) | set((i + 1, i) for i in range(n - 1))
        M0 = G.from_pattern(n, pat, lambda i, j: 1.0 if i == j else 0.0, False); M0.kind = "richardson"
        M = G.from_pattern(n, pat, lambda i, j: 1.0 if i == j else sub[j], False); M.kind = "richardson"
        tr = rng.choice([0, 1, 2])
        # several right-hand sides: the ITMAX budget is per column ("for every right-hand side"), so every column must take its own 5 corrections
        nr_ = rng.choice([1, 2, 3])
        cfg.update(n=n, rtrans=tr, path="itmax", rnrhs=nr_, requed=0, factor_vals=[float(v) for v in M0.vals])
        Dm = R.dense_frac(M)
        Bs = []
        for _ in range(nr_):
            xs = [F(rng.choice([-3, -2, -1, 1, 2, 3])) for _ in range(n)]
            Bs.append([sum((Dm[i][j] if tr == 0 else Dm[j][i]) * xs[j] for j in range(n)) for i in range(n)])
        Rs = [1.0] * n; Cs = [1.0] * n
        return cfg, M, Bs, [[F(0)] * n for _ in range(nr_)], Rs, Cs
    Dm = R.dense_frac(M)
    Xs = []; Bs = []; X0 = []
    for _ in range(cfg["rnrhs"]):
        xs = [F(rng.randint(-8, 8), rng.choice([1, 2, 4])) for _ in range(n)]
        if cfg["rtrans"] == 0:
            b = [sum(Dm[i][j] * xs[j] for j in range(n)) for i in range(n)]
        else:
            b = [sum(Dm[j][i] * xs[j] for j in range(n)) for i in range(n)]
        x0 = list(xs)
        if cfg["path"] == "one_corr":
            k = rng.randrange(n); x0[k] += F(rng.choice([-1, 1]), rng.choice([1, 2, 4, 8]))
        elif cfg["path"] == "far":
            x0 = [F(rng.randint(-4, 4)) for _ in range(n)]
        Xs.append(xs); Bs.append(b); X0.append(x0)
    Rs = [2.0 ** rng.randint(-3, 3) for _ in range(n)]; Cs = [2.0 ** rng.randint(-3, 3) for _ in range(n)]
    return cfg, M, Bs, X0, Rs, Cs


def _corr_one(args):
    seed, t, exes, realconj = args
    cfg, M, Bs, X0, Rs, Cs = corr_case(seed, t)
    prec, n = cfg["prec"], cfg["n"]
    p, eps, safmin = consts(prec); u = eps
    cl = Counter(); sub = K._Sub()
    fl = lambda col: [float(v) for v in col]
    dcfg = dict(cfg, colperm=0, u=0.0, start="given")
    base, ext = direct_scripts(dcfg, M, [fl(b) for b in Bs], [fl(x) for x in X0], Rs, Cs)
    rec = R.run_ext(exes[prec], base, ext)
    rep = {"cfg": cfg, "base": base, "ext": ext}
    ops, done = R.parse_ext(rec["ext_text"])
    bo = [o for o in rec["base_ops"] if o["op"] == "gssvx"]
    if rec["rc"] != 0 or not done or len(ops) < 2 or not bo:
        sub.violation("rfs-corr:crash", "h_rfs crashed rc=%s %s" % (rec["rc"], rec["err"][-200:]), rep)
        return cfg, cl, sub.viol
    r = bo[0]; go = ops[1]
    if r["info"] != 0 or int(go["info"][0]) != 0:
        cl["skipped_info"] += 1
        return cfg, cl, sub.viol
    trans = cfg["rtrans"]
    txt = "rfs Z %d %d %d 1 %d 1 %d %d\n" % (trans, cfg["requed"], n, -p, -(1022 if prec == "d" else 126), 1 if realconj else 0)
    txt += R.nc_text(n, M.colptr, M.rowind, M.vals)
    txt += "R " + " ".join(R.dy(v) for v in Rs) + "\nC " + " ".join(R.dy(v) for v in Cs) + "\n"
    txt += "permr %d %s\npermc %d %s\n" % (n, " ".join(map(str, r["perm_r"])), n, " ".join(map(str, r["perm_c"])))
    txt += R.lu_text(r)
    txt += "B %d\n" % cfg["rnrhs"]
    for b, x in zip(Bs, X0):
        txt += "b " + " ".join(R.dyF(v) for v in b) + "\nx " + " ".join(R.dyF(v) for v in x) + "\n"
    mtext = C.run_sludrv("rfs", txt)
    cols = {}; evs = {}; berrseq = {}
    for line in mtext.split("\n"):
        tk = line.split()
        if not tk:
            continue
        if tk[0] == "berrs":
            berrseq[int(tk[2])] = [R.parse_frac(z) for z in tk[3:]]
        if tk[0] == "col":
            j = int(tk[2]); xi = tk.index("x"); wi = tk.index("w")
            cols[j] = {"count": int(tk[4]), "berr": R.parse_frac(tk[6]), "omega": R.parse_frac(tk[8]), "ferr": R.parse_frac(tk[10]),
                       "lstres": R.parse_frac(tk[12]), "x": [R.parse_frac(z) for z in tk[xi + 1:wi]], "w": [R.parse_frac(z) for z in tk[wi + 1:]]}
    mod = K.parse_engine(mtext)
    # C side, per column: corrections, dialogue
    ccols = []; cur = {"gs": 0, "lc": []}; indialog = False
    for l in go["logs"]:
        if l[0] == "gs" and l[2] == "in" and not indialog:
            cur["gs"] += 1
        elif l[0] == "lc":
            indialog = True
            cur["lc"].append(l)
            if l[2] == 0:
                ccols.append(cur); cur = {"gs": 0, "lc": []}; indialog = False
    X = [float.fromhex(z) for z in go["X"][1:]]
    berrs = [float.fromhex(z) for z in go["berr"][1:]]; ferrs = [float.fromhex(z) for z in go["ferr"][1:]]
    if len(ccols) != cfg["rnrhs"]:
        sub.violation("rfs-corr:columns", "number of estimator dialogues %d != nrhs %d" % (len(ccols), cfg["rnrhs"]), rep)
        return cfg, cl, sub.viol
    for j in range(cfg["rnrhs"]):
        m = cols[j]; cc = ccols[j]
        cl["columns"] += 1; cl["path=" + cfg["path"]] += 1; cl["trans=%d" % trans] += 1
        if m["berr"] != m["omega"]:
            sub.violation("rfs-model:truthful", "model run violates berr_of_returned_x", rep)
        # decisions of the loop sit on thresholds eps and lstres/2: ambiguity only when the (rounded) berr is within 4u of them
        cx = unpack(X, n, n, j, False)
        exact = all(R.is_float(v, p) for v in m["x"])
        # loop decisions compare the (rounded) berr with eps and with lstres/2: ambiguous only inside 8u of a threshold
        seq = berrseq.get(j, []); lst = F(3); near = False
        for bk in seq:
            if abs(bk - eps) <= 8 * u * eps or abs(2 * bk - lst) <= 16 * u * lst:
                near = True
            lst = bk
        if near:
            cl["ambiguous_threshold"] += 1
            continue
        if cc["gs"] != m["count"]:
            if exact:
                sub.violation("rfs-corr:count", "corrections C=%d model=%d prec=%s n=%d trans=%d path=%s" % (cc["gs"], m["count"], prec, n, trans, cfg["path"]), rep)
            else:
                cl["inexact_skipped"] += 1
            continue
        cl["count_agree=%d" % m["count"]] += 1
        if cx != m["x"]:
            if exact:
                sub.violation("rfs-corr:x", "returned X differs from the model prec=%s n=%d trans=%d path=%s" % (prec, n, trans, cfg["path"]), rep)
            else:
                cl["inexact_skipped"] += 1
            continue
        cl["x_agree"] += 1
        if F(berrs[j]) != R.rn(m["berr"], p):
            sub.violation("rfs-corr:berr", "berr C=%s model=%s prec=%s n=%d trans=%d" % (F(berrs[j]), m["berr"], prec, n, trans), rep)
            continue
        cl["berr_agree"] += 1
        # forward-error dialogue
        mev = mod["Z.%d" % j]["ev"]
        wexact = all(R.is_float(v, p) for v in m["w"])
        dexact = wexact and all(all(R.is_float(z, p - 6) for z in e["x"]) and R.is_float(e["est"], p - 6) for e in mev)
        nfinal = next((i for i, e in enumerate(mev) if e["jump"] == 5 and e["kase"] == 1), None)
        stop = nfinal if (nfinal is not None and n > 2) else len(mev)
        ties = any(e["tie"] for e in mev)
        if not dexact:
            cl["dialogue_inexact_skipped"] += 1
            continue
        # (the first call leaves *est untouched: ?gsrfs hands over ferr[j] as the caller initialised it)
        same = len(cc["lc"]) == len(mev) and all(l[2] == e["kase"] and [F(z) for z in l[4]] == e["x"] and (k == 0 or F(l[3]) == e["est"])
                                                 for k, (l, e) in enumerate(zip(cc["lc"][:stop], mev[:stop])))
        if not same:
            if ties:
                cl["dialogue_ambiguous_tie"] += 1
            else:
                sub.violation("rfs-corr:dialogue", "forward-error dialogue differs prec=%s n=%d trans=%d equed=%d C=%s model=%s" % (
                    prec, n, trans, cfg["requed"], [(l[2], l[3]) for l in cc["lc"]], [(e["kase"], str(e["est"])) for e in mev]), rep)
            continue
        cl["dialogue_agree"] += 1
        if stop == len(mev):
            if abs(F(ferrs[j]) - m["ferr"]) > 3 * u * m["ferr"]:
                sub.violation("rfs-corr:ferr", "ferr C=%s model=%s" % (F(ferrs[j]), m["ferr"]), rep)
            else:
                cl["ferr_agree"] += 1
    return cfg, cl, sub.viol


def pool_map(fn, args):
    from concurrent.futures import ProcessPoolExecutor
    with ProcessPoolExecutor(C.NPROC) as ex:
        return list(ex.map(fn, args, chunksize=4))


def merge(ctx, outs, keys):
    cov = Counter()
    for (cfg, cl, viol) in outs:
        cov.update(cl); cov["cases"] += 1
        for k in keys:
            cov["%s=%s" % (k, cfg[k])] += 1
        for (key, what, replay) in viol:
            ctx.violation(key, what, replay)
    return cov


def run(ctx):
    q = ctx.quick()
    exes_con = R.build("h_con.c")
    exes = R.build("h_rfs.c")
    nd = 700 if q else 7000
    realconj0 = R.probe_real_conj_rejected(exes["d"])
    outs = pool_map(_driver_one, [(ctx.seed, t, "sdcz"[t % 4], q, exes_con["sdcz"[t % 4]], realconj0) for t in range(nd)])
    covD = merge(ctx, outs, ("prec", "stype", "fact", "mode", "nprocs"))
    ctx.coverage["driver_oracle"] = dict(sorted(covD.items()))
    realconj = R.probe_real_conj_rejected(exes["d"])
    ctx.coverage["real_gstrs_rejects_CONJ"] = realconj
    outs = pool_map(_corr_one, [(ctx.seed, t, exes, realconj) for t in range(500 if q else 5000)])
    covC = merge(ctx, outs, ("prec", "requed"))
    ctx.coverage["gsrfs_correspondence"] = dict(sorted(covC.items()))
    ni = 700 if q else 7000
    outs = pool_map(_direct_one, [(ctx.seed, t, "sdcz"[t % 4], exes["sdcz"[t % 4]]) for t in range(ni)])
    covI = merge(ctx, outs, ("prec", "requed", "mode"))
    ctx.coverage["direct_gsrfs_oracle"] = dict(sorted(covI.items()))
    ctx.coverage["evaluations"] = covD["cases"] + covI["cases"]
    ctx.coverage["distinct_nontrivial"] = covD["berr_checked"] + covI["berr_checked"]
    ctx.coverage["samples"] = [o[0] for o in outs[:3]]
    ctx.coverage["slacks"] = {"berr": "|berr - omega(x_returned)| <= 2(n+2)u + 10 n u omega", "berr_size": "berr <= 10(n+1)u when cond^2*eps < 1",
                              "ferr": "|x - x*|_inf / |x|_inf <= %d * ferr when cond < 0.1/eps; %d = THRESH of TESTING/p?drive.c applied to p?gst07's ratio" % (FERR_SLACK, FERR_SLACK)}
    ctx.coverage["rule"] = (
        "driver_oracle: the C12 oracle population (random / power-of-two graded / nearly singular matrices, NC/NR x trans x DOFACT/EQUILIBRATE x u x nprocs, all "
        "precisions) through p?gssvx; X_eq = X_returned / (C or R) exactly, B and A as the driver left them (equilibrated), omega evaluated with fractions; exact "
        "solution of the pristine system by rational elimination. gsrfs_correspondence: exact-float systems A = L0*U0, b = op(A) x*, start x* (zero corrections), "
        "x* + dyadic e_k (one correction), far start; real ?gsrfs vs sludrv rfs: corrections (wrapped ?gstrs calls), X, berr (correctly rounded quotient), "
        "estimator dialogue, ferr. direct_gsrfs_oracle: ?gsrfs called directly with start = computed solution / zero / garbage / perturbed, arbitrary equed with "
        "power-of-two R, C, all trans (also CONJ, where corrections are no-ops): truthfulness of berr for the returned X.")


def replay(ctx, obj):
    """re-run one recorded case: python3 check.py C13 --replay replay/C13-xxxx.json"""
    gen = ((obj.get("replay") or {}).get("cfg") or {}).get("gen")
    if not gen:
        print("nothing to replay in this file"); return 2
    if gen[0] == "driver":
        exes = R.build("h_con.c")
        cfg, cl, viol = _driver_one((gen[1], gen[2], gen[3], gen[4], exes[gen[3]], R.probe_real_conj_rejected(exes["d"])))
    elif gen[0] == "direct":
        exes = R.build("h_rfs.c")
        cfg, cl, viol = _direct_one((gen[1], gen[2], gen[3], exes[gen[3]]))
    else:
        exes = R.build("h_rfs.c")
        cfg, cl, viol = _corr_one((gen[1], gen[2], exes, R.probe_real_conj_rejected(exes["d"])))
    for (key, what, _) in viol:
        print("REPRODUCED %s: %s" % (key, what[:400]))
    if not viol:
        print("not reproduced")
    return 1 if viol else 0
