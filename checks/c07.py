"""C07 — expert driver solves the ORIGINAL system for every trans / storage / fact option."""
import random
from fractions import Fraction
from concurrent.futures import ThreadPoolExecutor
from vlib import sweep as S, common as C, gen as G, drv as D, exact as X
LEVEL = "other"
EXPLANATION = ("Wiring theorems (Props/C11.lean: gssvx_equil_frame, gssvx_equil_outputs, gssvx_factored_outputs, equil_solve_sound; "
               "Props/LU.lean exact LU identity) say that, with exact inner solves, the X returned solves op(A_in) X = B_in for every "
               "(Stype, trans, fact, equed). On the implementation the whole option cube is swept for all four precisions on badly "
               "scaled but well-conditioned systems and the componentwise backward error of the returned X against the PRISTINE "
               "system is evaluated exactly (rationals) and required to be <= 1000*(n+1)*u; info must be 0 or n+1.")
ASSUMPTIONS = ["rounding: the 1000*(n+1)*u acceptance level is a test slack (refined solutions have backward error of order u); a wiring error gives O(1)",
               "complex precisions: the exact quantity is an upper bound of the backward error using |re|+|im| / max(|re|,|im|)"]
U = {"s": 2.0 ** -24, "d": 2.0 ** -53, "c": 2.0 ** -24, "z": 2.0 ** -53}


def scaled_matrix(rng, n, cplx, kind):
    """well-conditioned core (strictly diagonally dominant) times power-of-two row/column scalings that force an equed outcome.
    'row' / 'col' are built so that ONLY that scaling is applied (one dense, dominant row resp. column), 'both' scales rows and columns,
    'mixed' uses random scalings (any outcome)."""
    pat, _ = G.pattern(rng, n, rng.choice(["random", "band", "arrow", "grid", "dense", "forest"]))
    star = rng.randrange(n)
    if kind == "col":
        for i in range(n): pat.add((i, star))
    if kind == "row":
        for j in range(n): pat.add((star, j))
    gv = G.values(rng, "float")
    M = G.from_pattern(n, pat, (lambda i, j: (gv(), gv())) if cplx else (lambda i, j: gv()), cplx)
    # strict diagonal dominance by rows and columns
    rs_ = [0.0] * n; cs_ = [0.0] * n
    for j, col in M.cols():
        for i, v in col:
            if i != j:
                a = abs(complex(*v)) if cplx else abs(v)
                rs_[i] += a; cs_[j] += a
    for j in range(n):
        for k in range(M.colptr[j], M.colptr[j + 1]):
            if M.rowind[k] == j:
                d = float(int(max(rs_[j], cs_[j]) + 2 + rng.random() * 3))
                M.vals[k] = (d, 0.0) if cplx else d
    rs = [0] * n; cs = [0] * n
    if kind == "row": rs[star] = rng.choice([14, 20, 24])
    elif kind == "col": cs[star] = rng.choice([14, 20, 24])
    elif kind == "both":
        rs = [rng.choice([0, 0, 12, -14, 20]) for _ in range(n)]; cs = [rng.choice([0, 0, 13, -11, 18]) for _ in range(n)]
    elif kind == "mixed":
        rs = [rng.choice([0, 0, 0, 9, -7]) for _ in range(n)]; cs = [rng.choice([0, 0, 0, 8, -9]) for _ in range(n)]
    for j in range(n):
        for k in range(M.colptr[j], M.colptr[j + 1]):
            f = 2.0 ** (rs[M.rowind[k]] + cs[j])
            M.vals[k] = (M.vals[k][0] * f, M.vals[k][1] * f) if cplx else M.vals[k] * f
    return M


def run(ctx):
    q = ctx.quick()
    ncases = 1440 if q else 28800     # multiples of the full cube (18 option cells x 5 scalings x 4 precisions = 360)
    nmax = 14 if q else 40
    C.build_lib("plain")
    exes = C.build_harness_all_prec("h_drv.c", "plain", precs="sdcz")
    rng = random.Random(ctx.seed * 7 + 707)
    cases = []
    t = 0
    cube = [(st, tr, fa, kind) for st in ("NC", "NR") for tr in (0, 1, 2) for fa in (0, 1, 2) for kind in ("none", "row", "col", "both", "mixed")]
    while len(cases) < ncases:
        st, tr, fa, kind = cube[t % len(cube)]
        prec = "dszc"[(t // len(cube)) % 4]
        cplx = prec in "cz"
        n = rng.choice([2, 3, 5, 8, rng.randint(2, nmax)])
        M = scaled_matrix(rng, n, cplx, kind)
        if prec in "sc": G.round_single(M)
        nrhs = rng.choice([1, 1, 2, 0])
        def col():
            c = [((rng.uniform(-1, 1), rng.uniform(-1, 1)) if cplx else rng.uniform(-1, 1)) for _ in range(n)]
            if prec in "sc":
                import struct
                r1 = lambda x: struct.unpack("f", struct.pack("f", x))[0]
                c = [((r1(v[0]), r1(v[1])) if cplx else r1(v)) for v in c]
            return c
        B1 = [col() for _ in range(nrhs)]; B2 = [col() for _ in range(nrhs)]
        P = rng.choice([1, 3])
        cfg = {"t": t, "prec": prec, "n": n, "stype": st, "trans": tr, "fact": fa, "scaling": kind, "nrhs": nrhs, "nprocs": P, "colperm": rng.randint(0, 3),
               "u": rng.choice([1.0, 0.5, 0.1])}
        single = prec in "sc"
        s = "ienv %d %d %d 200 100 -50 -50 -30\n" % (rng.choice([1, 2, 8]), rng.choice([1, 2, 6]), 200)
        s += G.script_mat(0, M, nr=(st == "NR"), single=single)
        s += G.script_rhs(0, n, nrhs, n, B1, cplx, single) + G.script_rhs(1, n, nrhs, n, B2, cplx, single)
        s += "permc_get 0 %d\n" % cfg["colperm"]
        first_fact = 1 if fa == 2 else fa          # FACTORED needs factors: get them with EQUILIBRATE first
        s += "gssvx 0 0 %d %d %d 0 0 %s 8 4 0 0\n" % (P, first_fact, tr, float(cfg["u"]).hex())
        if fa == 2:
            s += "gssvx 0 1 %d 2 %d 0 0 %s 8 4 0 0\n" % (P, tr, float(cfg["u"]).hex())
        s += "quit\n"
        cases.append((cfg, M, B1, B2, s)); t += 1
    def one(c):
        cfg, M, B1, B2, s = c
        ops, done, rc, err = D.run_script(exes[cfg["prec"]], s, timeout=120)
        return (c, ops, done, rc, err)
    with ThreadPoolExecutor(C.NPROC) as ex:
        outs = list(ex.map(one, cases))
    from collections import Counter
    hist = Counter(); cells = set(); worst = 0.0
    for (cfg, M, B1, B2, s), ops, done, rc, err in outs:
        n = cfg["n"]; cplx = M.cplx
        blob = {"cfg": cfg, "script": s, "rc": rc, "stderr": (err or "")[-600:]}
        conj_key = None
        if cfg["trans"] == 2:
            conj_key = "trans-conj:" + ("complex" if cplx else "real")
        if rc != 0 or not done or len(ops) < (2 if cfg["fact"] == 2 else 1):
            ctx.violation(conj_key or "crash:" + (S.crash_site(err or "") or "?"), "p%sgssvx crashed/aborted (%s)" % (cfg["prec"], cfg), blob); continue
        res = ops[-1]; B = B2 if cfg["fact"] == 2 else B1
        hist["equed=%d" % res["equed"]] += 1; hist["info=%s" % ("0" if res["info"] == 0 else "n+1" if res["info"] == n + 1 else "other")] += 1
        cells.add((cfg["stype"], cfg["trans"], cfg["fact"], res["equed"], cfg["prec"]))
        hist["scaling=%s->equed=%d" % (cfg["scaling"], res["equed"])] += 1
        if res["info"] not in (0, n + 1):
            ctx.violation(conj_key or "info-range", "info=%d not in {0,n+1} for a nonsingular system %s" % (res["info"], cfg), blob); continue
        if res["xerbla"][0]:
            ctx.violation(conj_key or "inner-xerbla", "an inner routine rejected its arguments (%s position %d) yet the driver returned info=%d: %s" % (
                res["xerbla"][1], res["xerbla"][2], res["info"], cfg), blob); continue
        if cfg["nrhs"] == 0: continue
        xs = S.unpack_cols(res["X"], n, n, cfg["nrhs"], cplx)
        tol = Fraction(1000 * (n + 1)) * Fraction(U[cfg["prec"]])
        for r in range(cfg["nrhs"]):
            try:
                om = X.backward_error(M, xs[r], B[r], cfg["trans"])
            except (OverflowError, ValueError):
                om = None
            if om is None or om > tol:
                ctx.violation(conj_key or "X-does-not-solve-original-system",
                              "backward error %s of returned X against pristine op(A)X=B exceeds 1000(n+1)u: %s equed=%d" % (
                                  "inf" if om is None else "%.3e" % float(om), cfg, res["equed"]), blob)
                break
            worst = max(worst, float(om) / U[cfg["prec"]])
    ctx.coverage.update({
        "evaluations": len(cases), "distinct_nontrivial": len(cells),
        "rule": "option cube Stype{NC,NR} x trans{N,T,C} x fact{DOFACT,EQUILIBRATE,FACTORED} x forced scaling{none,row,col,both} x 4 precisions x "
                "nrhs{0,1,2} x P{1,3}; diagonally dominant cores times power-of-two row/column scalings; distinct = distinct (Stype,trans,fact,equed outcome,precision) cells hit",
        "distribution": dict(hist), "worst_backward_error_in_units_of_u": worst,
        "samples": [c[0] for c in cases[:3]],
    })
