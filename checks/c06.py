"""C06 — singular matrices are reported through info, never by crash or corruption."""
import random
from vlib import sweep as S, common as C, gen as G, factor_corr as FC
LEVEL = "proof"
EXPLANATION = ("Model theorems (Props/C06.lean, Props/LU.lean): info = 0 iff all pivots nonzero, info = 1+first zero-pivot column, "
               "a column is reported singular iff all its candidates are exactly zero, factorization completes with a valid "
               "permutation, per-thread minima combine schedule-free; pivot_outOfRange_iff characterises the one out-of-range read. "
               "Oracle: real drivers on generated singular inputs under ASan: normal return, 0<info<=n, info equals the exact-rational "
               "model's first zero-pivot column when the model's decisions are unambiguous, B/X frame, objects destroyable.")
ASSUMPTIONS = ["'generic values' clause: position is compared with the exact rational elimination of the same values (Model/LU.lean); cases where exact arithmetic is ambiguous (ties / rounding could differ) are counted, not judged on position",
               "structural-rank characterisation (Hall) is not proved in Lean in this revision (open obligation symbolic_first_deficient)"]


def singular_matrix(rng, n, cplx=False, force_kind=None):
    """-> (Mat, kind)"""
    kind = force_kind or rng.choice(["zero_col_stored", "zero_row_stored", "empty_col", "empty_row", "dup_cols", "dep_col_int", "rank_def_block", "two_cols_one_row",
                       "multi_zero_cols", "multi_zero_cols", "multi_zero_cols"])
    base_kind = rng.choice(["random", "band", "arrow", "chain", "dense", "forest", "tridiag"])
    pat, _ = G.pattern(rng, n, base_kind)
    generic = kind in ("zero_col_stored", "zero_row_stored", "empty_col", "empty_row", "rank_def_block", "two_cols_one_row", "multi_zero_cols")
    gv = G.values(rng, "float" if generic else "int")
    vals = {}
    for (i, j) in pat:
        vals[(i, j)] = gv()
    c = rng.randrange(n)
    if kind == "zero_col_stored":
        for (i, j) in list(vals):
            if j == c: vals[(i, j)] = 0.0
    elif kind == "multi_zero_cols":
        # several stored-zero columns in different parts of the elimination forest: every worker sees its own singular columns,
        # the reported position must still be the global first one
        for cc in rng.sample(range(n), min(n, rng.randint(2, 5))):
            for (i, j) in list(vals):
                if j == cc: vals[(i, j)] = 0.0
    elif kind == "zero_row_stored":
        for (i, j) in list(vals):
            if i == c: vals[(i, j)] = 0.0
    elif kind == "empty_col":
        for (i, j) in list(vals):
            if j == c: del vals[(i, j)]
    elif kind == "empty_row":
        for (i, j) in list(vals):
            if i == c: del vals[(i, j)]
    elif kind == "dup_cols" and n >= 2:
        d = (c + 1 + rng.randrange(n - 1)) % n
        for (i, j) in list(vals):
            if j == d: del vals[(i, j)]
        for (i, j) in list(vals):
            if j == c: vals[(i, d)] = vals[(i, j)]
    elif kind == "dep_col_int" and n >= 3:
        a, b = [x for x in range(n) if x != c][:2]
        for (i, j) in list(vals):
            if j == c: del vals[(i, j)]
        col = {}
        for (i, j), v in vals.items():
            if j == a: col[i] = col.get(i, 0) + 2 * v
            if j == b: col[i] = col.get(i, 0) - v
        for i, v in col.items():
            vals[(i, c)] = v      # may contain stored zeros after cancellation
    elif kind == "rank_def_block" and n >= 3:
        # three columns confined to two rows: structural rank deficiency
        cols = rng.sample(range(n), 3); rows = rng.sample(range(n), 2)
        for (i, j) in list(vals):
            if j in cols: del vals[(i, j)]
        for j in cols:
            for i in rows:
                vals[(i, j)] = gv()
    elif kind == "two_cols_one_row" and n >= 2:
        cols = rng.sample(range(n), 2); r = rng.randrange(n)
        for (i, j) in list(vals):
            if j in cols: del vals[(i, j)]
        for j in cols:
            vals[(r, j)] = gv()
    M = G.from_pattern(n, set(vals), lambda i, j: ((vals[(i, j)], 0.0) if cplx else vals[(i, j)]), cplx)
    M.kind = kind; M.generic = generic
    return M, kind


def first_deficient(F, perm_c):
    """smallest k (1-based) such that the first k columns of F*Pc, explicit zeros dropped, have structural rank < k; None if none"""
    n = F.n
    inv = [0] * n
    for i, j in enumerate(perm_c):
        inv[j] = i
    cols = []
    for j in range(n):
        c = inv[j]
        cols.append([F.rowind[k] for k in range(F.colptr[c], F.colptr[c + 1])
                     if (F.vals[k] != 0 if not F.cplx else F.vals[k] != (0.0, 0.0))])
    match_row = {}
    def aug(j, seen):
        for r in cols[j]:
            if r in seen: continue
            seen.add(r)
            if r not in match_row or aug(match_row[r], seen):
                match_row[r] = j; return True
        return False
    for j in range(n):
        if not aug(j, set()):
            return j + 1
    return None


P61 = (1 << 61) - 1


def first_zero_column(F, perm_c):
    """1-based position in F*Pc of the first column all of whose stored values are exactly zero (None if none)"""
    best = None
    for j in range(F.n):
        vals = [F.vals[k] for k in range(F.colptr[j], F.colptr[j + 1])]
        if all((v == 0 if not F.cplx else v == (0.0, 0.0)) for v in vals):
            pos = perm_c[j] + 1
            best = pos if best is None else min(best, pos)
    return best


def first_dependent_column(F, perm_c):
    """1-based index of the first column of F*Pc that is linearly dependent on the previous ones — computed exactly up to a
    ~n^2/2^61 chance of a false dependency (Gaussian elimination modulo the Mersenne prime 2^61-1 of the dyadic values
    scaled to integers; real precisions only)."""
    from fractions import Fraction
    n = F.n
    inv = [0] * n
    for i, j in enumerate(perm_c): inv[j] = i
    cols = []
    for j in range(n):
        c = inv[j]; col = {}
        for k in range(F.colptr[c], F.colptr[c + 1]):
            fr = Fraction(F.vals[k])
            if fr != 0:
                col[F.rowind[k]] = fr.numerator % P61 * pow(fr.denominator, P61 - 2, P61) % P61
        cols.append(col)
    basis = {}    # pivot row -> reduced column (dict)
    for j in range(n):
        v = dict(cols[j])
        for piv in sorted(basis):     # rows in increasing order: each basis vector has zeros in earlier pivot rows
            x = v.get(piv, 0)
            if x:
                b = basis[piv]
                f = x * pow(b[piv], P61 - 2, P61) % P61
                for r, bv in b.items():
                    nv = (v.get(r, 0) - f * bv) % P61
                    if nv: v[r] = nv
                    else: v.pop(r, None)
        if not v:
            return j + 1
        piv = min(v)
        # keep the triangular shape: eliminate the new pivot row from nothing (later columns are reduced in pivot order)
        basis[piv] = v
    return None


def refactor_stage(ctx, exes, hist):
    """a singular matrix met on a RE-factorization with pivot reuse (refact = YES, usepr = YES): nonsingular values first, then the same
    pattern with one or two columns of stored zeros.  Same requirements: 0 < info <= position of the first zero column, X untouched, and
    every returned object still well-formed (perm_r a permutation, row subscripts in range) -- in all four precision copies."""
    from vlib import drv as D, hist as H
    rng = random.Random(ctx.seed * 131 + 66)
    jobs = []
    for t in range(240 if ctx.quick() else 4000):
        prec = "czsd"[t % 4]; cplx = prec in "cz"; single = prec in "sc"
        n = rng.choice([3, 3, 4, 6, 9, rng.randint(5, 40)])
        M = G.random_matrix(rng, n, rng.choice(["band", "band", "random", "tridiag", "dense", "grid"]), "float", cplx=cplx)
        if single: G.round_single(M)
        zc = rng.sample(range(n), 1 if n < 6 else rng.choice([1, 2]))
        V2 = list(M.vals)
        for j in zc:
            for k in range(M.colptr[j], M.colptr[j + 1]): V2[k] = (0.0, 0.0) if cplx else 0.0
        b = H.rhs_prec(rng, n, prec)
        P1, P2 = rng.choice([1, 2]), rng.choice([1, 2, 4]); u = rng.choice([1.0, 1.0, 0.1]); panel, relax = rng.choice([1, 2, 8]), rng.choice([1, 2, 4])
        s = "ienv %d %d 200 200 100 -50 -50 -30\n" % (panel, relax) + G.script_mat(0, M, single=single) + G.script_rhs(1, n, 1, n, [b], cplx, single)
        s += "permc_get 0 %d\n" % rng.choice([0, 0, 1, 2, 3])
        s += "gssvx 0 1 %d 0 0 0 0 %s %d %d 0 0\n" % (P1, float(u).hex(), panel, relax)
        s += "setvals 0 " + G.fmt_vals(V2, cplx, single) + "\n" + G.script_rhs(1, n, 1, n, [b], cplx, single)
        s += "gssvx 0 1 %d 0 0 1 1 %s %d %d 0 0\nquit\n" % (P2, float(u).hex(), panel, relax)
        jobs.append(({"prec": prec, "n": n, "zero_cols": sorted(zc), "P": (P1, P2), "u": u, "kind": M.kind, "script": s}, M, V2))
    from concurrent.futures import ThreadPoolExecutor
    with ThreadPoolExecutor(C.NPROC) as ex:
        outs = list(ex.map(lambda j: D.run_script(exes[j[0]["prec"]], j[0]["script"], timeout=120), jobs))
    for (blob, M, V2), (ops, done, rc, err) in zip(jobs, outs):
        n = blob["n"]; hist["refactor:runs"] += 1
        gs = [o for o in ops if o.get("op") == "gssvx"]
        if gs and gs[0].get("info") != 0:
            hist["refactor:first_not_regular"] += 1; continue
        if rc != 0 or not done or len(gs) != 2:
            site = S.crash_site(err or "") or ("rc=%s" % rc)
            ctx.violation("refactor-singular:crash:" + site.split("@")[-1], "singular re-factorization with pivot reuse crashed (prec=%s n=%d zero columns %s): %s" % (
                blob["prec"], n, blob["zero_cols"], (err or "")[-300:].replace("\n", " | ")), dict(blob, rc=rc)); continue
        r = gs[1]; info = r["info"]
        pz = min(r["perm_c"][j] for j in blob["zero_cols"]) + 1
        hist["refactor:info=%s" % ("1..n" if 0 < info <= n else "other")] += 1
        if not (0 < info <= pz):
            ctx.violation("refactor-singular:info", "re-factorization with pivot reuse: info=%d, first exactly zero column of A*Pc is %d (prec=%s n=%d)" % (info, pz, blob["prec"], n), blob)
        if sorted(r.get("perm_r", [])) != list(range(n)):
            ctx.violation("refactor-singular:perm_r", "after info=%d the returned perm_r is not a permutation: %s (prec=%s n=%d)" % (info, r.get("perm_r"), blob["prec"], n), blob)
        rows = [i for sn in r.get("Lsup", []) if sn for i in sn["rows"]]
        if any(not (0 <= i < n) for i in rows):
            ctx.violation("refactor-singular:L-subscripts", "after info=%d L holds row subscripts outside 0..n-1 (prec=%s n=%d)" % (info, blob["prec"], n), blob)
        if r.get("X.same") != 1:
            ctx.violation("X-modified", "p?gssvx (re-factorization) returned info=%d>0 but wrote X" % info, blob)


def run(ctx):
    ncases = 500 if ctx.quick() else 8000
    nmax = 20 if ctx.quick() else 40
    flavour = "asan"
    C.build_lib(flavour)
    exes = C.build_harness_all_prec("h_drv.c", flavour, precs="sdcz")
    rng = random.Random(ctx.seed * 31 + 6)
    cases = []
    for t in range(ncases):
        prec = rng.choice("dsdz" if t % 5 else "c")
        n = rng.choice([1, 2, 3, 3, 4, 5, 6] + [rng.randint(7, nmax)] * 4)
        multi = (t % 3 == 0)
        if multi:
            n = rng.randint(14, nmax + 30)
        M, kind = singular_matrix(rng, n, cplx=prec in "cz", force_kind="multi_zero_cols" if multi else None)
        nrhs = rng.choice([1, 2])
        cplx = prec in "cz"
        rhs = [[((float(rng.randint(-3, 3)), 0.0) if cplx else float(rng.randint(-3, 3))) for _ in range(n)] for _ in range(nrhs)]
        cfg = {"t": t, "prec": prec, "n": n, "kind": kind, "vmode": "int", "nrhs": nrhs, "ld": n, "stype": rng.choice(["NC", "NC", "NR"]),
               "colperm": rng.randint(0, 3), "nprocs": rng.choice([1, 2, 4]), "panel": rng.choice([1, 2, 4, 8, 20]), "relax": rng.choice([1, 2, 4, 8]),
               "maxsuper": rng.choice([8, 200]), "rowblk": 200, "colblk": 100, "driver": rng.choice(["gssv", "gssvx"]), "u": rng.choice([1.0, 0.5, 0.0]), "perturb": 0}
        if multi:
            cfg.update({"panel": rng.choice([1, 2, 3]), "relax": rng.choice([1, 2, 4, 8, 16]), "stype": rng.choice(["NC", "NC", "NC", "NR"])})
            if cfg["maxsuper"] < cfg["relax"]: cfg["maxsuper"] = cfg["relax"]
            # "independent of thread count and schedule": the same matrix under several thread counts and delay-injection seeds
            for (P, pert) in [(1, 0), (2, 0), (2, 1), (3, 2), (4, 0), (4, 3), (8, 1), (2, 4), (3, 5)]:
                c2 = dict(cfg); c2.update({"nprocs": P, "perturb": pert, "group": t})
                cases.append((c2, M, rhs))
            continue
        if cfg["maxsuper"] < cfg["relax"]: cfg["maxsuper"] = cfg["relax"]
        cases.append((cfg, M, rhs))
    from concurrent.futures import ThreadPoolExecutor
    def one(c):
        cfg, M, rhs = c
        rec = S.run_case(exes, cfg, M, rhs); rec["M"] = M; rec["rhs"] = rhs
        return rec
    with ThreadPoolExecutor(C.NPROC) as ex:
        recs = list(ex.map(one, cases))
    from collections import Counter
    hist = Counter(); crash_kinds = Counter(); groups = {}
    for r in recs:
        cfg = r["cfg"]; hist["kind=" + cfg["kind"]] += 1; hist["status=" + r["status"]] += 1
        if r["status"] != "ok":
            crash_kinds[cfg["kind"] + " " + (r.get("crash_site") or "?")] += 1
            # F2 (DESIGN §7): a column without any candidate pivot row makes pivotL read past the row list; every
            # structurally rank-deficient input reaches that state.  The finding is keyed on that input class.
            srank = G.sprank(r["M"])
            key = "crash:structurally-singular-input" if srank < cfg["n"] else "crash:" + (r.get("crash_site") or r["status"])
            hist["crash_sprank_deficient" if srank < cfg["n"] else "crash_sprank_full"] += 1
            ctx.violation(key, "driver %s on singular input (%s, prec=%s n=%d P=%d driver=%s): %s" % (
                r["status"], cfg["kind"], cfg["prec"], cfg["n"], cfg["nprocs"], cfg["driver"], (r.get("err") or "")[-300:].replace("\n", " | ")), S.replay_blob(r))
            continue
        res = r["res"]; n = cfg["n"]; info = r["info"]
        hist["info=%s" % ("0" if info == 0 else "1..n" if info <= n else "n+1" if info == n + 1 else "other")] += 1
        if not (0 <= info <= n + 1):
            ctx.violation("info-range", "info=%d outside 0..n+1 on singular input %s" % (info, cfg["kind"]), S.replay_blob(r))
        if 0 < info <= n:
            # frame: simple driver leaves B; expert driver leaves X and changes B at most by the reported equilibration (equed none with fact=DOFACT)
            if cfg["driver"] == "gssv" and res.get("B.same") != 1:
                ctx.violation("B-modified", "p?gssv returned info=%d>0 but modified B" % info, S.replay_blob(r))
            if cfg["driver"] == "gssvx":
                if res.get("X.same") != 1:
                    ctx.violation("X-modified", "p?gssvx returned info=%d>0 but wrote X" % info, S.replay_blob(r))
                if res.get("equed") == 0 and res.get("B.same") != 1:
                    ctx.violation("B-modified", "p?gssvx returned info=%d>0, equed=none, but modified B" % info, S.replay_blob(r))
        if "group" in cfg:
            groups.setdefault(cfg["group"], []).append(r)
        if getattr(r["M"], "generic", False) and G.sprank(r["M"]) == n:
            # stored pattern structurally nonsingular (else: finding F2's input class).  An exactly zero column stays exactly zero under
            # any elimination order, so the report must come no later than the first one; and no column can be reported before the
            # first column that is linearly dependent on its predecessors.  When both coincide the position is forced.
            F = S.transpose(r["M"]) if cfg["stype"] == "NR" else r["M"]
            pz = first_zero_column(F, res["perm_c"])
            hist["position_checked"] += 1
            if pz is not None and not (0 < info <= pz):
                ctx.violation("info-position:late", "info=%d but column %d of A*Pc is exactly zero: the first singular column was not reported (%s, P=%d)" % (info, pz, cfg["kind"], cfg["nprocs"]), S.replay_blob(r))
            elif 0 < info <= n and not r["M"].cplx and hist["dependency_checked"] < (80 if ctx.quick() else 2000):
                hist["dependency_checked"] += 1
                kd = first_dependent_column(F, res["perm_c"])
                if kd is None or info < kd:
                    ctx.violation("info-position:early", "info=%d reported before the first linearly dependent column %s of A*Pc (%s)" % (info, kd, cfg["kind"]), S.replay_blob(r))
                elif pz is not None and kd == pz:
                    hist["position_forced_and_equal"] += 1
        for k in ("A.ptr.same", "A.ind.same"):
            if res.get(k) != 1:
                ctx.violation("A-structure-modified", "A's structure arrays changed", S.replay_blob(r))
        if res["threads"][0] != res["threads"][1]:
            ctx.violation("threads-left", "thread count %s -> %s" % res["threads"], S.replay_blob(r))
    # the same matrix under different thread counts / delay schedules must report the same position
    for g, rs in groups.items():
        oks = [r for r in rs if r["status"] == "ok"]
        infos = sorted(set(r["info"] for r in oks))
        hist["schedule_groups"] += 1
        if len(infos) > 1:
            base = [r for r in oks if r["cfg"]["nprocs"] == 1]
            ref = base[0]["info"] if base else infos[0]
            bad = [r for r in oks if r["info"] != ref][0]
            ctx.violation("info-schedule-dependent", "same matrix, info=%s for different thread counts/schedules (P=1 gives %s; P=%d perturb=%d gives %d; %s)" % (
                infos, ref, bad["cfg"]["nprocs"], bad["cfg"]["perturb"], bad["info"], bad["cfg"]["kind"]), S.replay_blob(bad))
    refactor_stage(ctx, exes, hist)
    # position of the first singular column vs the exact rational model
    st, dis = FC.compare(ctx, [r for r in recs if r["status"] == "ok"], nmax=nmax)
    singular_pos = 0
    for d in dis:
        ctx.violation("info-position", "info differs from the exact elimination's first zero-pivot column: %s" % d["fields"], d)
    ctx.coverage.update({
        "evaluations": len(recs), "distinct_nontrivial": len(set((r["M"].key(), r["cfg"]["prec"], r["cfg"]["nprocs"]) for r in recs if r["cfg"]["n"] >= 2)),
        "rule": "seeded singular inputs: stored zero column/row, structurally empty column/row, duplicated columns, integer dependent column "
                "(exact cancellation), 3 columns in 2 rows, 2 columns in 1 row; x 4 precisions x drivers x NC/NR x P in {1,2,4} x relax up to 8 "
                "(relaxed supernodes with fewer rows than columns); ASan+UBSan build; non-trivial = n>=2; distinct = (pattern, precision, P)",
        "distribution": dict(hist), "crashes_by_kind": dict(crash_kinds), "model_position_comparison": st,
        "samples": [S.replay_blob(r)["cfg"] for r in recs[:3]],
    })
