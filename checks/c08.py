"""C08 — re-factorization and factor reuse stay correct over any call history."""
from vlib import common as C, hist as H
LEVEL = "other"
EXPLANATION = ("Model level: the exact LU identity (Props/LU.lean) holds for every matrix, every threshold and with or without pivot reuse, "
               "so any sequence of factor ops leaves factors of the values current at that op (hist_correct, Props/C08.lean); pivot reuse keeps "
               "an admissible pivot (pivot_usepr_kept). On the implementation: generated call histories on one pattern (first factor, refactor "
               "with/without pivot reuse and changing thresholds/threads, solves with FACTORED for N/T/C, destroy+first) are replayed on the real "
               "library; after EVERY call the factors are judged by the verified checker against the values current at that call, X by exact backward "
               "error, FACTORED calls must leave A/L/U/permutations bit-identical, admissible pivot reuse must return the same perm_r.")
ASSUMPTIONS = ["storage re-binding (Glu statics, expander table) is exercised by the replay, not modelled", "rounding judged per run"]


def run(ctx):
    st, viol = H.run_histories(ctx, 260 if ctx.quick() else 3000)
    for key, what, blob in viol[:20]:
        ctx.violation(key, what, blob)
    ctx.coverage.update({"evaluations": st["calls"], "distinct_nontrivial": st["histories"],
                         "rule": "random histories of length 2..8 on one random pattern (n<=24), values change between calls; non-trivial = every history has >=2 calls",
                         "history_stats": st, "samples": [{"ops": "first/refactor(usepr,u,P)/solve(trans)/destroy_first, see vlib/hist.py gen_history"}]})
