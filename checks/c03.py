"""C03 — no column is consumed before it is final, under every interleaving."""
from vlib import sweep as S, common as C, sched as SC
LEVEL = "proof"
EXPLANATION = ("Pipeline structure proved on Model/Sched*.lean for every forest, thread count and interleaving (Props/C03Global.lean): at a hand-out the "
               "unfinished proper descendants are BUSY and lie on the panel path from the bcol handed to the thread (global_handout_chain), a panel is completed "
               "only over finished descendants (global_finish_descendants_done), children are handed out before parents, waiting never deadlocks "
               "(global_progress); hypotheses initOk/initOk2/initOk3 are evaluated by the driver on every configuration. The kernel-level clause (a column is read only "
               "after the wait for it) is not a theorem: it is watched on real runs. The model is tied to the real "
               "scheduler state-for-state (driven scheduler) and explored exhaustively on small forests; real multi-threaded runs with "
               "schedule perturbation are monitored through the guarded hooks (event log: take / release / pivot / busy-supernode read / "
               "DFS read / done) for read-before-release, double or missing updates, and the hand-out rule, and every result is judged "
               "by the verified LU checker.")
ASSUMPTIONS = ["sequentially consistent model; weak-memory effects of the unsynchronised flags are outside the model (TSan flavour in the thorough tier)",
               "the event log orders events by an atomic counter placed before a release store and after a wait load"]


def run(ctx):
    q = ctx.quick()
    st, dis, mf = SC.run_traces(ctx, 800 if q else 15000, 40 if q else 120)
    ctx.coverage["driven_scheduler"] = st
    ctx.coverage["traces_validated_against_impl"] = st["cases"]
    for d in dis[:10]:
        ctx.violation("scheduler-correspondence", "correspondence pxgstrf_scheduler/ParallelInit <-> Model/Sched.lean no longer checks (%s)" % d["kind"], d, no_input=True)
    for m in mf[:10]:
        ctx.violation("model-monitor:" + str(m["monitors"]), "scheduler model reaches a state violating %s" % m["monitors"], m)
    tot, bad = SC.explore(ctx, 5 if q else 8, [1, 2, 3], [1, 2, 3], [2, 3] if q else [2, 3], max_states=3000000)
    ctx.coverage["exhaustive_model_exploration"] = tot
    ctx.coverage["states"] = tot["states"]; ctx.coverage["transitions"] = tot["transitions"]
    for b in bad[:10]:
        ctx.violation("model-exploration", "exhaustive exploration found a bad state: " + b[:200], {"line": b})
    # perturbed real runs with the event-log monitor
    recs = []
    for i, force in enumerate([{"evlog": 1, "nprocs": 2, "perturb": 3}, {"evlog": 1, "nprocs": 3, "perturb": 2}, {"evlog": 1, "nprocs": 4, "perturb": 1},
                               {"evlog": 1, "nprocs": 8, "perturb": 3}]):
        recs += S.sweep(ctx, 110 if q else 1200, 40 if q else 140, precs="d", drivers=("gssv", "gssvx"), force=force, seed_offset=300 + i)
        # the other three precision copies of the pipeline code (chain-like kinds keep the pipeline busy; complex entries include exactly real / imaginary ones)
        recs += S.sweep(ctx, 60 if q else 500, 40 if q else 120, precs="zzcs", drivers=("gssv",), seed_offset=320 + i,
                        force=dict(force, kind=["band", "tridiag", "chain", "grid", "forest", "random"]))
    evs = 0
    for r in recs:
        if r["status"] == "ok":
            evs += r.get("n_events", 0)
            for b in r.get("evmon", [])[:3]:
                ctx.violation("event-monitor:" + b.split(":")[0].split(" ")[0], "real run breaks the pipeline rule: " + b, S.replay_blob(r))
    S.judge(ctx, recs, ["wfL", "wfU", "permr", "permc", "lu"], "parallel-run")
    S.coverage(ctx, recs, "All runs here use >=2 threads, hook-based schedule perturbation and the event-log monitor.")
    ctx.coverage["events_monitored"] = evs
