"""C20 — file readers return exactly the matrix a well-formed file encodes (?readhb, ?readrb, ?readmt)."""
import os, random, subprocess, time, shutil
from fractions import Fraction
from collections import Counter
from concurrent.futures import ThreadPoolExecutor
from vlib import common as C, rdgen as G

LEVEL = "proof"
EXPLANATION = (
    "Model/Read.lean mirrors ?readhb/?readrb/?readmt byte by byte on the stdin stream (fscanf %kc, DumpLine, fgets(100), "
    "atoi/atof on fixed-width slices, D->E, 1-based -> 0-based).  Props/C20.lean proves the descriptor parsers, the slicing, "
    "the integer/decimal field round trips and reader∘writer = id for an independent Lean writer.  This module ties the model "
    "to the real readers (4 precisions) on files produced by an independent Python writer and judges the real readers' "
    "output against the writer's exact ground truth (integers and Fractions; doubles must be the correctly rounded value).")
ASSUMPTIONS = [
    "libc strtod/atof/scanf are correctly rounded (glibc); the model returns the exact decimal and the check verifies the "
    "returned double/float is its nearest (ties-to-even) binary value, computed with Fractions",
    "well-formed = header cards at least as long as the fields the format prescribes, data cards <= 80 columns "
    "(thorough: legal trailing padding up to 98), numbers written with a decimal point and an exponent letter",
    "single precision HB/RB readers convert through atof (double) and then narrow: the value judged is float(double(q)); "
    "where that differs from the nearest float it is reported under key single-double-rounding",
]
TRUSTED = ["vlib/rdgen.py (independent HB/RB/MT writer and exact ground truth)"]
FMTNO = {"hb": 0, "rb": 1, "mt": 2}


# ------------------------------------------------------------------ case construction
def gen_cases(seed, n_wf, n_mal, thorough):
    rng = random.Random(seed * 7919 + 20)
    cases = []
    def add(klass, fmt, cplx, text, truth, meta, **kw):
        c = {"id": "k%d" % len(cases), "klass": klass, "fmt": fmt, "cplx": cplx, "text": text, "truth": truth, "meta": meta}
        c.update(kw); cases.append(c); return c
    for t in range(n_wf):
        fmt = rng.choice(["hb", "hb", "hb", "rb", "rb", "mt"])
        cplx = rng.random() < 0.35
        m, n, cols = G.random_pattern(rng, small=not thorough)
        M = G.GenMat(m, n, cols, cplx)
        if fmt == "mt":
            text, truth, meta = G.write_mt(rng, M)
        else:
            opt = {}
            if rng.random() < 0.07:
                opt["pattern"] = True
            if thorough and rng.random() < 0.25:
                opt["pad_to"] = rng.choice([81, 90, 97, 98])       # over-long but legal trailing padding
            text, truth, meta = G.write_hb_rb(rng, fmt, M, opt)
        add("wf", fmt, cplx, text, truth, meta)
    # malformed / perturbed stream: correspondence only, and only where the model is defined
    base = [c for c in cases if c["klass"] == "wf"]
    for t in range(n_mal):
        b = rng.choice(base)
        s = b["text"]
        if not s:
            continue
        op = rng.choice(["del", "ins", "sub", "trunc", "dupline", "delnl", "rstrip", "longline"])
        pos = rng.randrange(len(s))
        if op == "del":
            s2 = s[:pos] + s[pos + 1:]
        elif op == "ins":
            s2 = s[:pos] + rng.choice(" 0123456789-+.EDIP()\n") + s[pos:]
        elif op == "sub":
            s2 = s[:pos] + rng.choice(" 0123456789-+.EeDdxX,\t") + s[pos + 1:]
        elif op == "trunc":
            s2 = s[:pos]
        elif op == "dupline":
            ls = s.split("\n"); i = rng.randrange(len(ls)); ls.insert(i, ls[i]); s2 = "\n".join(ls)
        elif op == "delnl":
            i = s.find("\n", pos); s2 = s if i < 0 else s[:i] + s[i + 1:]
        elif op == "rstrip":
            s2 = "\n".join(l.rstrip() for l in s.split("\n"))
        else:
            ls = s.split("\n"); i = rng.randrange(len(ls)); ls[i] = ls[i].ljust(rng.choice([98, 99, 100, 101, 130])); s2 = "\n".join(ls)
        add("mal", b["fmt"], b["cplx"], s2, None, dict(b["meta"], op=op))
    return cases


def probe_cases(seed):
    """deterministic probes for behaviours of the unchanged readers the property talks about."""
    rng = random.Random(seed * 31 + 7)
    out = []
    for fmt in ("hb", "rb"):
        text, truth, meta, ent = G.symmetric_case(rng, fmt)
        out.append({"id": "sym_" + fmt, "klass": "sym", "fmt": fmt, "cplx": False, "text": text, "truth": truth, "meta": meta, "full": ent})
    # the fixed 2x2 witness of Props/C20.lean (symmetric_expansion_fails)
    M = G.GenMat(2, 2, [[0, 1], [1]], False)
    text, truth, meta = G.write_hb_rb(random.Random(1), "hb", M, {"mxtype": "RSA", "rhs": False, "title": "2x2 symmetric witness",
                                      "cf": {"w": 4, "perline": 3, "lower": False}, "rf": {"w": 4, "perline": 3, "lower": False},
                                      "vf": {"kind": "E", "k": 0, "d": 4, "w": 12, "perline": 3, "lower": False, "expw": 2, "show_expw": False}})
    ent = {(0, 0): truth["vals"][0], (1, 0): truth["vals"][1], (0, 1): truth["vals"][1], (1, 1): truth["vals"][2]}
    out.append({"id": "sym_2x2", "klass": "sym", "fmt": "hb", "cplx": False, "text": text, "truth": truth, "meta": meta, "full": ent})
    # single precision double rounding: 1 + 2^-24 + 1e-20 lies above the midpoint of two floats, but rounds to the
    # midpoint in double
    M = G.GenMat(1, 1, [[0]], False)
    dr = "1.0000000596046447754"
    hdr = ["double rounding probe".ljust(72) + "DR".ljust(8), G.i14(3) + G.i14(1) + G.i14(1) + G.i14(1) + G.i14(0),
           "RUA".ljust(14) + G.i14(1) + G.i14(1) + G.i14(1) + G.i14(0), "(2I4)".ljust(16) + "(1I4)".ljust(16) + "(1F30.19)".ljust(20) + " " * 20,
           "   1   2", "   1", dr.rjust(30)]
    out.append({"id": "dr_hb", "klass": "dr", "fmt": "hb", "cplx": False, "text": "\n".join(hdr) + "\n", "meta": {"novals": False},
                "truth": {"m": 1, "n": 1, "nnz": 1, "colptr": [0, 1], "rowind": [0], "vals": [Fraction(10000000596046447754, 10 ** 19)]}})
    out.append({"id": "dr_mt", "klass": "dr", "fmt": "mt", "cplx": False, "text": "dr probe\n1 1 1\n1\n1 " + dr + "\n", "meta": {"novals": False},
                "truth": {"m": 1, "n": 1, "nnz": 1, "colptr": [0, 1], "rowind": [0], "vals": [Fraction(10000000596046447754, 10 ** 19)]}})
    # legal Fortran descriptors without an explicit repeat count / with a comma after the scale factor
    def mk(ptrfmt, indfmt, valfmt, ptr, ind, val):
        hdr = ["descriptor probe".ljust(72) + "NOREP".ljust(8), G.i14(len(ptr) + len(ind) + len(val)) + G.i14(len(ptr)) + G.i14(len(ind)) + G.i14(len(val)) + G.i14(0),
               "RUA".ljust(14) + G.i14(2) + G.i14(2) + G.i14(2) + G.i14(0), ptrfmt.ljust(16) + indfmt.ljust(16) + valfmt.ljust(20) + " " * 20]
        return "\n".join(hdr + ptr + ind + val) + "\n"
    tr = {"m": 2, "n": 2, "nnz": 2, "colptr": [0, 1, 2], "rowind": [0, 1], "vals": [Fraction(1), Fraction(2)]}
    for name, txt in (("I8", mk("(I8)", "(2I4)", "(2E12.4)", ["       1", "       2", "       3"], ["   1   2"], ["  0.1000E+01  0.2000E+01"])),
                      ("1Pcomma", mk("(3I4)", "(2I4)", "(1P,2E12.4)", ["   1   2   3"], ["   1   2"], ["  1.0000E+00  2.0000E+00"])),
                      ("E12", mk("(3I4)", "(2I4)", "(E12.4)", ["   1   2   3"], ["   1   2"], ["  0.1000E+01", "  0.2000E+01"]))):
        out.append({"id": "norep_" + name, "klass": "norep", "fmt": "hb", "cplx": False, "text": txt, "truth": tr, "meta": {"novals": False, "probe": name}})
    # well-formed-looking files on which the readers run off their stack buffer (the model is undefined there)
    short = "\n".join(l.rstrip() for l in mk("(3I4)", "(2I4)", "(2E12.4)", ["   1   2   3"], ["   1   2"], ["  0.1000E+01  0.2000E+01"]).split("\n"))
    out.append({"id": "ub_shortcards", "klass": "ub", "fmt": "hb", "cplx": False, "text": short, "truth": tr,
                "meta": {"novals": False, "probe": "shortcards", "key": "short-header-cards",
                         "what": "header cards with trailing blanks stripped (card 1 shorter than 80 columns): %72c/%8c/%14c run into the following "
                                 "cards, ?ParseIntFormat then scans for '(' past the end of buf[100]"}})
    pat = mk("(3I4)", "(2I4)", "", ["   1   2   3"], ["   1   2"], []).replace("RUA", "PUA")
    out.append({"id": "ub_blankvalfmt", "klass": "ub", "fmt": "hb", "cplx": False, "text": pat, "truth": dict(tr, vals=None),
                "meta": {"novals": True, "probe": "blankvalfmt", "key": "pattern-blank-valfmt",
                         "what": "pattern file (PUA, VALCRD = 0) with blank VALFMT: ?ParseFloatFormat scans for '(' past the end of buf[100]"}})
    return out


def bundled_cases():
    out = []
    ex = os.path.join(C.REPO, "EXAMPLE")
    for name, cplx in (("g10", False), ("g5.rua", False), ("cg20.cua", True), ("big.rua", False)):
        p = os.path.join(ex, name)
        if os.path.exists(p):
            text = open(p, "rb").read().decode("latin-1")
            out.append({"id": "ex_" + name.replace(".", "_"), "klass": "wf", "fmt": "hb", "cplx": cplx, "text": text,
                        "truth": G.parse_hb(text, cplx), "meta": {"novals": False, "file": name, "bundled": True, "rhs": "?", "valfmt": text.split("\n")[3][32:52].strip(),
                                                                  "ptrfmt": text.split("\n")[3][0:16].strip(), "indfmt": text.split("\n")[3][16:32].strip(),
                                                                  "maxlinelen": max(len(l) for l in text.split("\n"))}})
    return out


# ------------------------------------------------------------------ running both sides
def lean_input(c):
    b = c["text"].encode("latin-1")
    return "case %s fmt %d cplx %d bytes %d %s\n" % (c["id"], FMTNO[c["fmt"]], 1 if c["cplx"] else 0, len(b), " ".join(map(str, b)))


def parse_lean(out):
    res = {}; cur = None
    for line in out.split("\n"):
        t = line.split()
        if not t:
            continue
        if t[0] == "case":
            if t[2] == "undef":
                res[t[1]] = None; cur = None
            else:
                cur = {"m": int(t[3]), "n": int(t[4]), "nnz": int(t[5])}; res[t[1]] = cur
        elif t[0] in ("colptr", "rowind"):
            cur[t[0]] = [int(x) for x in t[2:]]
        elif t[0] == "vals":
            if t[1] == "none":
                cur["vals"] = None
            else:
                xs = [int(x) for x in t[2:]]
                cur["vals"] = [(xs[2 * i], xs[2 * i + 1]) for i in range(len(xs) // 2)]
    return res


def dec_to_frac(p):
    m, e = p
    if abs(e) > 6000:
        raise OverflowError("exponent out of supported range")
    return Fraction(m) * Fraction(10) ** e


def run_lean(cases, nchunks=None):
    nchunks = nchunks or C.NPROC
    chunks = [cases[i::nchunks] for i in range(nchunks)]
    chunks = [ch for ch in chunks if ch]
    def one(ch):
        return parse_lean(C.run_sludrv("read", "".join(lean_input(c) for c in ch), timeout=1800))
    res = {}
    with ThreadPoolExecutor(C.NPROC) as ex:
        for r in ex.map(one, chunks):
            res.update(r)
    return res


def parse_out(outp, res):
    try:
        lines = open(outp).read().split("\n")
        t = lines[1].split(); assert t[0] == "ok"
        res.update(m=int(t[1]), n=int(t[2]), nnz=int(t[3]))
        res["colptr"] = [int(x) for x in lines[2].split()[2:]]
        res["rowind"] = [int(x) for x in lines[3].split()[2:]]
        v = lines[4].split()
        res["vals"] = None if v[1] == "none" else v[2:]
    except Exception as e:
        res["status"] = "noresult"; res["err"] = res.get("err", "") + repr(e)
    finally:
        try:
            os.unlink(outp)
        except OSError:
            pass
    return res


def run_c(exe, c, workdir, prec, timeout=20):
    """single case (used by replay): -> dict(status=ok|crash|timeout|noresult, m,n,nnz,colptr,rowind,vals (hex tokens or None))"""
    outp = os.path.join(workdir, "%s_%s.out" % (c["id"], prec))
    inp = os.path.join(workdir, "%s.in" % c["id"])
    args = [exe, c["fmt"], outp] + (["novals"] if c["meta"].get("novals") else [])
    try:
        with open(inp, "rb") as fin:
            r = subprocess.run(args, stdin=fin, stdout=subprocess.DEVNULL, stderr=subprocess.PIPE, timeout=timeout, env=C.ENV)
    except subprocess.TimeoutExpired:
        return {"status": "timeout"}
    res = {"status": "ok", "rc": r.returncode, "err": r.stderr.decode("latin-1")[-1500:]}
    if r.returncode != 0:
        res["status"] = "crash"; return res
    return parse_out(outp, res)


def run_c_batch(exe, jobs, workdir, prec, tag):
    """jobs: list of (case, timeout_s).  One harness process forks one child per case (h_read.c batch()).
    -> {case id: result dict}"""
    lst = os.path.join(workdir, "batch_%s.lst" % tag); stp = os.path.join(workdir, "batch_%s.st" % tag)
    with open(lst, "w") as f:
        for c, tmo in jobs:
            f.write("%s %s %s %s %d %d\n" % (c["id"], c["fmt"], os.path.join(workdir, "%s.in" % c["id"]),
                                             os.path.join(workdir, "%s_%s.out" % (c["id"], prec)), 1 if c["meta"].get("novals") else 0, tmo))
    err = ""
    try:
        r = subprocess.run([exe, "batch", lst, stp], stdin=subprocess.DEVNULL, stdout=subprocess.DEVNULL, stderr=subprocess.PIPE,
                           timeout=sum(t for _, t in jobs) + 120, env=C.ENV)
        err = r.stderr.decode("latin-1")[-3000:]
    except subprocess.TimeoutExpired:
        err = "batch timeout"
    st = {}
    if os.path.exists(stp):
        for line in open(stp):
            t = line.split()
            if len(t) == 3:
                st[t[0]] = (t[1], int(t[2]))
    out = {}
    for c, _ in jobs:
        kind, code = st.get(c["id"], ("missing", -1))
        outp = os.path.join(workdir, "%s_%s.out" % (c["id"], prec))
        if kind == "exit" and code == 0:
            out[c["id"]] = parse_out(outp, {"status": "ok", "rc": 0, "err": ""})
        elif kind == "signal" and code == 14:
            out[c["id"]] = {"status": "timeout", "rc": -14, "err": ""}
        else:
            out[c["id"]] = {"status": "crash", "rc": (-code if kind == "signal" else code), "err": "%s %d; batch stderr tail: %s" % (kind, code, err[-1200:])}
    return out


def expected_impl(q, prec, fmt):
    """what a correct libc makes the reader store: strtod (atof / %lf) is correctly rounded to double; the single
    precision HB/RB readers then narrow the double, the MT reader scans with %f (correctly rounded float)."""
    if prec in "dz":
        return G.rn53(q)
    if fmt == "mt":
        return G.rn24(q)
    return G.rn24(G.rn53(q))


def expected_spec(q, prec):
    return G.rn53(q) if prec in "dz" else G.rn24(q)


def same(a, b):
    return a == b


def replay_blob(c, prec=None, cres=None, model=None):
    return {"fmt": c["fmt"], "cplx": c["cplx"], "klass": c["klass"], "meta": c["meta"], "prec": prec, "file_text": c["text"] if len(c["text"]) < 20000 else c["text"][:20000],
            "how": "printf '%%s' \"$file_text\" | build/plain/h_read_<prec> <fmt> out.txt ; sludrv read < (case … bytes …)",
            "c_result": {k: v for k, v in (cres or {}).items() if k != "vals"} if cres else None,
            "c_vals": (cres or {}).get("vals"), "model": str(model)[:4000] if model is not None else None}


# ------------------------------------------------------------------ the check
def compare_all(ctx, cases, lean, cres, stats):
    for c in cases:
        mdl = lean.get(c["id"], "missing")
        truth = c.get("truth")
        klass = c["klass"]
        if mdl == "missing":
            ctx.violation("model-missing", "sludrv read produced no result for %s" % c["id"], replay_blob(c)); continue
        mvals = None
        if mdl is not None and mdl["vals"] is not None:
            try:
                mvals = [dec_to_frac(p) for p in mdl["vals"]]
            except OverflowError:
                stats["skipped_huge_exponent"] += 1; continue
        # (1) model against the writer's ground truth (well-formed classes)
        if klass in ("norep", "ub") and mdl is not None:
            ctx.violation("model-vs-truth:" + klass, "model returns a matrix where the C code loops forever / reads outside its buffer", replay_blob(c, model=mdl))
        if klass in ("wf", "sym", "dr"):
            stats["model_vs_truth"] += 1
            if mdl is None:
                ctx.violation("model-undefined-on-wellformed", "model returns none on a well-formed %s file (%s)" % (c["fmt"], c["meta"]), replay_blob(c)); continue
            bad = [k for k in ("m", "n", "nnz", "colptr", "rowind") if mdl[k] != truth[k]]
            if truth["vals"] is not None and mvals != truth["vals"]:
                bad.append("vals")
            if bad:
                ctx.violation("model-vs-truth:" + ",".join(bad), "model differs from the written matrix in %s (%s %s)" % (bad, c["fmt"], c["meta"]), replay_blob(c, model=mdl))
        for prec, r in cres.get(c["id"], {}).items():
            stats["c_runs"] += 1
            stats["c_status=" + r["status"]] += 1
            # (2) correspondence model <-> code wherever the model is defined
            if mdl is not None:
                stats["correspondence"] += 1
                if r["status"] != "ok":
                    ctx.violation("correspondence:" + r["status"], "real %s%s %s on %s file where the model returns a matrix (rc=%s %s)" % (
                        prec, "read" + c["fmt"], r["status"], klass, r.get("rc"), (r.get("err") or "")[-300:].replace("\n", " ")), replay_blob(c, prec, r, mdl)); continue
                bad = [k for k in ("m", "n", "nnz", "colptr", "rowind") if mdl[k] != r[k]]
                if mvals is not None and r["vals"] is not None:
                    if len(mvals) != len(r["vals"]):
                        bad.append("nvals")
                    else:
                        for q, tok in zip(mvals, r["vals"]):
                            stats["values_compared"] += 1
                            if not same(expected_impl(q, prec, c["fmt"]), G.hex_to_exact(tok)):
                                bad.append("vals"); break
                if bad:
                    ctx.violation("correspondence:" + ",".join(bad), "model and real %sread%s differ in %s on a %s file (%s)" % (prec, c["fmt"], bad, klass, c["meta"]), replay_blob(c, prec, r, mdl))
            else:
                stats["model_undefined"] += 1
            # (3) the property itself on the real reader's output
            if klass == "wf":
                stats["oracle"] += 1
                if r["status"] != "ok":
                    ctx.violation("reader-oracle:" + r["status"], "real %sread%s %s on a well-formed file (%s) rc=%s %s" % (
                        prec, c["fmt"], r["status"], c["meta"], r.get("rc"), (r.get("err") or "")[-300:].replace("\n", " ")), replay_blob(c, prec, r)); continue
                bad = [k for k in ("m", "n", "nnz", "colptr", "rowind") if truth[k] != r[k]]
                if truth["vals"] is not None:
                    if r["vals"] is None or len(r["vals"]) != len(truth["vals"]):
                        bad.append("nvals")
                    else:
                        for q, tok in zip(truth["vals"], r["vals"]):
                            got = G.hex_to_exact(tok)
                            if not same(expected_spec(q, prec), got):
                                if prec in "sc" and same(expected_impl(q, prec, c["fmt"]), got):
                                    stats["double_rounding_seen"] += 1
                                    ctx.violation("single-double-rounding", "%sread%s stored float(double(q)) != nearest float for field value %s" % (prec, c["fmt"], q), replay_blob(c, prec, r))
                                else:
                                    bad.append("vals")
                                break
                if bad:
                    ctx.violation("reader-oracle:" + ",".join(bad), "real %sread%s returned a matrix differing from the file in %s (%s)" % (prec, c["fmt"], bad, c["meta"]), replay_blob(c, prec, r))
            elif klass == "dr" and r["status"] == "ok" and r["vals"]:
                q = truth["vals"][0]; got = G.hex_to_exact(r["vals"][0])
                stats["dr_probe_%s_%s" % (c["fmt"], prec)] = "nearest" if same(got, expected_spec(q, prec)) else "double-rounded" if same(got, expected_impl(q, prec, c["fmt"])) else "other"
                if not same(got, expected_spec(q, prec)):
                    key = "single-double-rounding" if (prec in "sc" and same(got, expected_impl(q, prec, c["fmt"]))) else "reader-oracle:vals"
                    ctx.violation(key, "%sread%s: field '1.0000000596046447754' (= 1 + 2^-24 + 9.4e-21) is stored as %s; the nearest float is 1+2^-23 "
                                  "(atof rounds to the double 1+2^-24, the float store then rounds the tie to even)" % (prec, c["fmt"], r["vals"][0]), replay_blob(c, prec, r))
            elif klass == "ub":
                stats["ub_probe_%s_%s" % (c["meta"]["probe"], prec)] = r["status"]
                good = r["status"] == "ok" and all(truth[k] == r[k] for k in ("m", "n", "nnz", "colptr", "rowind")) and \
                    (truth["vals"] is None or [G.hex_to_exact(t) for t in (r["vals"] or [])] == truth["vals"])
                if not good:
                    ctx.violation(c["meta"]["key"], "%sreadhb %s on %s (rc=%s %s)" % (prec, r["status"] if r["status"] != "ok" else "misreads", c["meta"]["what"],
                                  r.get("rc"), (r.get("err") or "")[-400:].replace("\n", " ")[:300]), replay_blob(c, prec, r))
            elif klass == "norep":
                stats["norep_probe_%s_%s" % (c["meta"]["probe"], prec)] = r["status"]
                good = r["status"] == "ok" and all(truth[k] == r[k] for k in ("m", "n", "nnz", "colptr", "rowind")) and \
                    [G.hex_to_exact(t) for t in r["vals"]] == truth["vals"]
                if not good:
                    key = "descriptor-without-repeat-count" if r["status"] == "timeout" else "reader-oracle:norep-" + r["status"]
                    ctx.violation(key, "%sreadhb %s on a 2x2 file whose descriptors are %s (legal Fortran: repeat count 1 implied / comma after kP): "
                                  "?ParseIntFormat/?ParseFloatFormat return count 0 and ?ReadVector/?ReadValues loop forever" % (
                                      prec, r["status"], c["text"].split("\n")[3].split()), replay_blob(c, prec, r))
            elif klass == "sym" and r["status"] == "ok":
                stats["symmetric_probes"] += 1
                ent = {}
                ok_shape = r["m"] == truth["m"] and r["n"] == truth["n"] and r["vals"] is not None
                if ok_shape:
                    try:
                        for j in range(r["n"]):
                            for k in range(r["colptr"][j], r["colptr"][j + 1]):
                                ent[(r["rowind"][k], j)] = G.hex_to_exact(r["vals"][k])
                    except (IndexError, KeyError):
                        ent = {"malformed": True}
                full = {k: expected_spec(v, prec) for k, v in c["full"].items()}
                if ent != full:
                    tri = {(i, j): v for (i, j), v in full.items() if i >= j}
                    if ent == tri:
                        ctx.violation("symmetric-not-expanded", "%sread%s on an RSA (symmetric, lower triangle stored) %dx%d file returns only the %d stored entries, "
                                      "not the %d entries of the matrix" % (prec, c["fmt"], r["n"], r["n"], len(tri), len(full)), replay_blob(c, prec, r))
                    else:
                        ctx.violation("symmetric-misread", "%sread%s on an RSA file returns neither the triangle nor the expansion" % (prec, c["fmt"]), replay_blob(c, prec, r))


def run(ctx):
    t0 = time.time()
    quick = ctx.quick()
    n_wf, n_mal = (900, 500) if quick else (9000, 5000)
    flavours = ["plain"] if quick else ["plain", "asan"]
    work = os.path.join(C.BUILD, "c20_work_%d" % ctx.seed)
    shutil.rmtree(work, ignore_errors=True); os.makedirs(work)
    exes = {}
    for fl in flavours:
        C.build_lib(fl)
        exes[fl] = C.build_harness_all_prec("h_read.c", fl)
    cases = gen_cases(ctx.seed, n_wf, n_mal, not quick) + probe_cases(ctx.seed) + bundled_cases()
    stats = Counter()
    for c in cases:
        open(os.path.join(work, "%s.in" % c["id"]), "wb").write(c["text"].encode("latin-1"))
    lean = run_lean(cases)
    ctx.log("model ran on %d file images in %.1fs" % (len(cases), time.time() - t0))
    for fl in flavours:
        jobs = []
        for c in cases:
            if c["klass"] == "mal" and lean.get(c["id"]) is None:
                continue                      # undefined in the model (hang / UB in C): nothing to compare
            for prec in ("cz" if c["cplx"] else "sd"):
                jobs.append((c, prec))
        # one harness process per (precision, chunk); it forks one child per file image
        byprec = {}
        for c, prec in jobs:
            byprec.setdefault(prec, []).append((c, 4 if c["klass"] in ("norep", "ub") else 60))
        tasks = []
        for prec, lst in byprec.items():
            slow = [j for j in lst if j[0]["klass"] in ("norep", "ub")]  # expected to hang: one process each
            lst = [j for j in lst if j[0]["klass"] not in ("norep", "ub")]
            for i, j in enumerate(slow):
                tasks.append((prec, [j], "%s_%s_slow%d" % (fl, prec, i)))
            nch = max(1, min(C.NPROC, len(lst) // 20))
            for i in range(nch):
                tasks.append((prec, lst[i::nch], "%s_%s_%d" % (fl, prec, i)))
        def one(t):
            prec, lst, tag = t
            return prec, run_c_batch(exes[fl][prec], lst, work, prec, tag)
        cres = {}
        with ThreadPoolExecutor(C.NPROC) as ex:
            for prec, resd in ex.map(one, tasks):
                for cid, r in resd.items():
                    cres.setdefault(cid, {})[prec] = r
        before = len(ctx.violations)
        ctx.log("flavour %s: readers returned after %.1fs" % (fl, time.time() - t0))
        compare_all(ctx, cases, lean, cres, stats)
        stats["flavour_" + fl + "_runs"] = len(jobs)
        ctx.log("flavour %s: %d reader runs, %d new reports, %.1fs" % (fl, len(jobs), len(ctx.violations) - before, time.time() - t0))
    shutil.rmtree(work, ignore_errors=True)
    # coverage
    wf = [c for c in cases if c["klass"] == "wf" and not c["meta"].get("bundled")]
    stats["bundled_files"] = sum(1 for c in cases if c["meta"].get("bundled"))
    dist = Counter()
    for c in wf:
        dist["fmt=" + c["fmt"]] += 1; dist["cplx=%d" % c["cplx"]] += 1
        t = c["truth"]
        dist["nnz=%s" % ("0" if t["nnz"] == 0 else "1-9" if t["nnz"] < 10 else "10-99" if t["nnz"] < 100 else "100+")] += 1
        dist["n=%s" % ("0" if t["n"] == 0 else "1-4" if t["n"] <= 4 else "5-30" if t["n"] <= 30 else "31+")] += 1
        dist["emptycol=%d" % any(t["colptr"][j] == t["colptr"][j + 1] for j in range(t["n"]))] += 1
        dist["square=%d" % (t["m"] == t["n"])] += 1
        if c["fmt"] != "mt":
            vf = c["meta"]["valfmt"]
            dist["valkind=" + ("D" if "d" in vf.lower().split("p")[-1] else "F" if "f" in vf.lower() else "E")] += 1
            dist["pscale=%d" % ("p" in vf.lower())] += 1
            dist["rhsline=%d" % c["meta"]["rhs"]] += 1
            dist["pattern=%d" % (t["vals"] is None and t["nnz"] > 0)] += 1
            dist["maxline=%s" % ("<=80" if c["meta"]["maxlinelen"] <= 80 else "81-98")] += 1
    for c in cases:
        if c["klass"] == "mal":
            dist["mal_op=" + c["meta"]["op"]] += 1
            dist["mal_model=%s" % ("defined" if lean.get(c["id"]) is not None else "undefined")] += 1
    descr = set((c["meta"].get("ptrfmt"), c["meta"].get("indfmt"), c["meta"].get("valfmt")) for c in wf if c["fmt"] != "mt")
    ctx.coverage.update({
        "evaluations": stats["c_runs"],
        "distinct_nontrivial": len(set(c["text"] for c in wf if c["truth"]["nnz"] > 0)),
        "rule": "independent Python writer (vlib/rdgen.py): HB / RB / MT files, m x n patterns with empty columns, nnz = 0, n = 0, "
                "rectangular, unsorted columns; integer descriptors (nIw) any case/width/count; real descriptors [kP]n(E|D|F)w.d[Ee], "
                "E/D/e/d exponent letters, 2-3 digit exponents, signs, omitted leading zero, long mantissas (to 20 digits), exponents to "
                "+-330; optional RHS header card + RHS block (HB); header/data cards exact width or padded; each file is read by the real "
                "reader in two precisions (s,d | c,z) and by the Lean model.  non-trivial = well-formed file with nnz > 0; distinct = "
                "distinct file images.  `mal` = single-edit perturbations of well-formed files (correspondence only, where the model is defined).",
        "wellformed_files": len(wf), "distinct_descriptor_triples": len(descr),
        "counts": dict(sorted((k, v) for k, v in stats.items())),
        "distribution": dict(sorted(dist.items())),
        "samples": [dict(c["meta"], id=c["id"], m=c["truth"]["m"], n=c["truth"]["n"], nnz=c["truth"]["nnz"], head=c["text"][:420]) for c in wf[:3]],
        "flavours": flavours,
    })
    ctx.log("counts: %s" % dict(stats))


def replay(ctx, obj):
    """re-run one recorded file image through the real reader(s) and the model; exit status 1 if they still disagree
    (or the reader does not return)."""
    r = obj["replay"]
    c = {"id": "replay", "klass": "replay", "fmt": r["fmt"], "cplx": r["cplx"], "text": r["file_text"], "meta": r.get("meta") or {}, "truth": None}
    C.build_lib("plain")
    exes = C.build_harness_all_prec("h_read.c", "plain")
    work = os.path.join(C.BUILD, "c20_replay"); shutil.rmtree(work, ignore_errors=True); os.makedirs(work)
    open(os.path.join(work, "replay.in"), "wb").write(c["text"].encode("latin-1"))
    mdl = run_lean([c], 1).get("replay")
    print("model:", mdl)
    rc = 0
    for prec in ([r["prec"]] if r.get("prec") else ("cz" if c["cplx"] else "sd")):
        res = run_c(exes[prec], c, work, prec, timeout=10)
        print("real %sread%s:" % (prec, c["fmt"]), res)
        if res["status"] != "ok":
            rc = 1
        elif mdl is not None:
            if any(mdl[k] != res[k] for k in ("m", "n", "nnz", "colptr", "rowind")):
                rc = 1
            elif mdl["vals"] is not None and res["vals"] is not None and \
                    [expected_impl(dec_to_frac(p), prec, c["fmt"]) for p in mdl["vals"]] != [G.hex_to_exact(t) for t in res["vals"]]:
                rc = 1
    return rc
