"""C14 — workspace modes and allocation failure are handled without corruption."""
import random
from concurrent.futures import ThreadPoolExecutor
from vlib import common as C, gen as G, drv as D, hist as H, sweep as S, ustack as US
LEVEL = "fault_enumeration"
EXPLANATION = ("Allocator protocol: theorems (Props/C14.lean) over Model/UserStack.lean — for every number of workers, interleaving of their critical sections "
               "and request sizes the blocks workers hold are pairwise disjoint, inside the caller's buffer and above the L/U arrays (workers_blocks_safe); the aligned real "
               "work array lies inside its block (alignUp_spec); the two original behaviours provably overlap (orig_free_overlap, orig_align_overlap: defects repaired by "
               "371e0b6 / 915999e). Tie: the real ?user_malloc/?user_free/p?gstrf_WorkInit/WorkFree are driven through random operation scripts (h_stack, 4 precisions, "
               "misaligned buffers, failing requests) and every returned offset is diffed with the model (sludrv ustack); real threads hammer WorkInit/WorkFree (ws_race) "
               "looking for overlapping blocks. Then, on the real expert driver: (a) workspace query, (b) caller workspace large enough (storage inside the buffer, red zones "
               "intact, results bit-identical to the internal-memory run at one thread), (c) caller workspace of every size class below sufficient, "
               "(d) failure of system allocation request k and all later ones for every k up to the number of requests of the call. Acceptable outcomes of "
               "(c),(d): info > n, or exit through the library's abort path with its diagnostic. Anything else (signal, sanitizer report, hang, damaged red "
               "zone, info <= n with an unusable result) is a violation, keyed by the crash site.")
ASSUMPTIONS = ["allocation failures are injected at the library's own override points (USER_MALLOC/USER_FREE/USER_ABORT); the few direct malloc calls (sp_colorder, qrnzcnt, ?PresetMap) are not failed",
               "ASan red zones + a 4 KiB guard band around the caller buffer detect out-of-buffer writes"]


def base_script(rng, prec, n):
    M = G.random_matrix(rng, n, rng.choice(["random", "band", "grid", "dense"]), "float"); M.vals = H.new_values(rng, M)
    M = H.to_prec(rng, M, prec)
    b = H.rhs_prec(rng, n, prec)
    head = "ienv %d %d 200 200 100 -50 -50 -30\n" % (rng.choice([1, 4, 8]), rng.choice([1, 4]))
    head += G.script_mat(0, M, single=(prec in "sc")) + G.script_rhs(0, n, 1, n, [b], prec in "cz", prec in "sc") + "permc_get 0 %d\n" % rng.randint(0, 3)
    return M, b, head


def sig_match(a, b, prec):
    """do two result signatures match?  Real precisions: bit for bit.  Complex precisions: same info, permutations and structure, values
    equal to rounding level (the vendor BLAS complex kernels take alignment-dependent paths, and a caller buffer is 8-byte aligned where
    the system allocator returns 16-byte aligned blocks, so the last bits may differ between the two memory modes)."""
    if prec in "sd":
        return a == b
    tol = 1e-9 if prec == "z" else 2e-4
    def num(x):
        return float.fromhex(x) if isinstance(x, str) else float(x)
    def flat(x, out):
        if isinstance(x, (tuple, list)):
            for y in x: flat(y, out)
        else:
            out.append(x)
        return out
    def walk(x, y):
        if isinstance(x, (tuple, list)):
            if not isinstance(y, (tuple, list)) or len(x) != len(y): return False
            leaves = [v for v in x if not isinstance(v, (tuple, list))]
            if leaves and len(leaves) == len(x) and any(isinstance(v, (str, float)) for v in leaves):
                try:
                    xs = [num(v) for v in x]; ys = [num(v) for v in y]
                except ValueError:
                    return x == y
                m = max([abs(v) for v in xs + ys] + [0.0])
                return all(abs(u - v) <= tol * m for u, v in zip(xs, ys))
            return all(walk(u, v) for u, v in zip(x, y))
        return x == y
    return walk(a, b)


def classify(ops, done, rc, err, n, nthreads=1):
    """-> (ok, outcome-string)"""
    if rc is None: return False, "hang"
    if rc == 77 and "VF_ABORT" in (err or ""): return True, "abort-diagnostic"
    if nthreads > 1 and rc is not None and rc > 0 and "Sanitizer" in (err or ""):
        # one worker printed the library's diagnostic and called exit(); while exit() ran the shared libraries' destructors another worker,
        # still computing, took a SIGSEGV (same situation as C05's too-small estimates).  Accepted as "stopped with the diagnostic" only when
        # the diagnostic comes first, ASan names no memory error other than that signal, the fault is not a NULL dereference, and no
        # frame of the report is in the library's own factorization code; anything else stays a crash.
        import re as _re
        dpos = [err.find(w) for w in ("exceeded", "fails", "Not enough memory", "SUPERLU_MALLOC", "Memory allocation failed") if w in err]
        kinds = _re.findall(r"ERROR: AddressSanitizer: (\S+)", err)
        if (dpos and err.find("Sanitizer") > min(dpos) and all(k == "SEGV" for k in kinds) and "runtime error" not in err and "zero page" not in err
                and not _re.search(r"#\d+ 0x[0-9a-f]+ in (p?[sdcz]g[st]|p?[sdcz]gstrf|pxgstrf|sp_|[sdcz]lsolve|[sdcz]usolve|[sdcz]matvec)", err)):
            return True, "exit-diagnostic(worker signal during exit)"
    if rc != 0 and rc > 0 and ("Sanitizer" not in (err or "")) and ("exceeded" in err or "fails" in err or "Not enough memory" in err or "SUPERLU_MALLOC" in err or "Memory allocation failed" in err):
        return True, "exit-diagnostic"
    if rc != 0 or not done:
        site = S.crash_site(err or "") or ("rc=%s" % rc)
        return False, "crash@" + site.split("@")[-1]      # key on the function, not on the sanitizer's wording
    res = [o for o in ops if o.get("op") == "gssvx"][-1]
    if res.get("redzone") == 0: return False, "redzone-damaged"
    if res["info"] > n + 1: return True, "info>n"
    if res["info"] in (0, n + 1): return True, "success"
    return False, "info=%d" % res["info"]


def run(ctx):
    q = ctx.quick()
    # allocator model <-> real p?memory.c, and the real-thread overlap search
    ust, udis = US.correspondence(ctx, 300 if q else 5000)
    ctx.coverage["allocator_correspondence"] = ust
    for d in udis[:5]:
        ctx.violation("ustack-correspondence:" + d["kind"], "user-workspace allocator: real code and Model/UserStack.lean differ (%s prec=%s case=%s line=%s model=%s code=%s)" % (
            d["kind"], d.get("prec"), d.get("case"), d.get("line"), d.get("model"), d.get("code")), d, no_input=(d["kind"] != "ustack-disagreement"))
    races = US.thread_race(ctx, 20000 if q else 300000)
    ctx.coverage["real_thread_workinit_trials"] = races
    for rc_ in races:
        if rc_["rc"] != 0:
            ctx.violation("workspace-overlap:threads", "real threads: work space blocks overlap or leave the buffer: " + rc_["out"][:300], rc_)
    rng = random.Random(ctx.seed * 14 + 1414)
    C.build_lib("asan"); C.build_lib("fault")
    asan = C.build_harness_all_prec("h_drv.c", "asan", precs="dszc")
    fault = C.build_harness_all_prec("h_drv.c", "fault", precs="dszc")
    plain_jobs = []; fault_jobs = []
    ncfg = 12 if q else 120
    for i in range(ncfg):
        prec = "dszc"[i % 4]; n = rng.choice([2, 4, 7, 12, 20]); P = rng.choice([1, 2, 4])
        M, b, head = base_script(rng, prec, n)
        call = lambda lw: "gssvx 0 0 %d 0 0 0 0 0x1p+0 8 4 0 %d\n" % (P, lw)
        # (a) query, (b) sufficient, reference
        plain_jobs.append(("query", prec, n, P, -1, head + call(-1) + "quit\n"))
        plain_jobs.append(("ref", prec, n, 1, 0, head + "gssvx 0 0 1 0 0 0 0 0x1p+0 8 4 0 0\nquit\n"))
        plain_jobs.append(("sufficient", prec, n, 1, 4000000, head + "gssvx 0 0 1 0 0 0 0 0x1p+0 8 4 0 4000000\nquit\n"))
        # (b'') mode sequences in one process: the mode of a call is decided by ITS lwork only.  user->internal: the second call must not
        # touch the first call's (stale, refilled) buffer nor place factors in it; internal->user and user->user(other size) likewise.
        c1 = lambda lw: "gssvx 0 0 1 0 0 0 0 0x1p+0 8 4 0 %d\n" % lw
        plain_jobs.append(("seq:user-internal", prec, n, 1, 0, head + c1(4000000) + c1(0) + "quit\n"))
        plain_jobs.append(("seq:internal-user", prec, n, 1, 4000000, head + c1(0) + c1(4000000) + "quit\n"))
        plain_jobs.append(("seq:user-user-internal", prec, n, 1, 0, head + c1(3000000) + c1(4000000) + c1(0) + "quit\n"))
        # (c) insufficient sizes
        for lw in sorted(set([1, 8, 64, 200, 512, 1000, 2000, 4000, 6000, 12000, 30000] + [rng.randint(1, 40000) for _ in range(3 if q else 12)])):
            plain_jobs.append(("userwork", prec, n, P, lw, head + call(lw) + "quit\n"))
        # (d) allocator failure at request k
        fault_jobs.append((prec, n, P, head, call(0)))
    def runp(j):
        kind, prec, n, P, lw, s = j
        return (j, D.run_script(asan[prec], s, timeout=60))
    with ThreadPoolExecutor(C.NPROC) as ex:
        outs = list(ex.map(runp, plain_jobs))
    from collections import Counter
    hist = Counter(); refs = {}; seqs = []
    for (kind, prec, n, P, lw, s), (ops, done, rc, err) in outs:
        blob = {"kind": kind, "prec": prec, "n": n, "P": P, "lwork": lw, "script": s, "rc": rc, "stderr": (err or "")[-600:]}
        ok, outcome = classify(ops, done, rc, err, n, nthreads=P)
        hist["%s:%s" % (kind, outcome.split("@")[0])] += 1
        if kind == "query":
            if not ok or outcome != "info>n":
                ctx.violation("query:" + outcome, "workspace query did not return a size estimate: " + outcome, blob); continue
            res = ops[-1]
            if not (res["mem"][1] > 0): ctx.violation("query:estimate", "total_needed=%r not positive" % (res["mem"][1],), blob)
            if not res.get("noLU"): ctx.violation("query:factored", "a query produced factors", blob)
        elif kind.startswith("seq:"):
            if outcome != "success":
                ctx.violation("%s:%s" % (kind, outcome), "mode sequence %s failed: %s" % (kind, outcome), blob); continue
            gs = [o for o in ops if o.get("op") == "gssvx"]
            last = gs[-1]
            if last.get("stale_touched", 0) != 0:
                ctx.violation("seq:stale-buffer-written", "a call with lwork=0 wrote %d bytes into the buffer of an EARLIER call (%s)" % (last["stale_touched"], kind), blob)
            if last.get("stale_inside", 0) != 0:
                ctx.violation("seq:factors-in-stale-buffer", "a call with lwork=0 returned factors inside the buffer of an earlier call (%s)" % kind, blob)
            if kind == "seq:internal-user" and last.get("inside") != 1:
                ctx.violation("seq:outside-buffer", "user-workspace call after an internal one: L/U not inside the caller's buffer", blob)
            seqs.append((s.split("gssvx")[0], kind, (last["info"], tuple(last["perm_r"]), tuple(last["X"]), H.lu_signature(last)), blob))
        elif kind in ("ref", "sufficient"):
            if outcome != "success":
                ctx.violation("%s:%s" % (kind, outcome), "run with %s workspace failed: %s" % (kind, outcome), blob); continue
            res = ops[-1]
            sig = (res["info"], tuple(res["perm_r"]), tuple(res["X"]), H.lu_signature(res))
            if kind == "ref": refs[s.split("gssvx")[0]] = sig
            else:
                if res.get("inside") != 1: ctx.violation("sufficient:outside-buffer", "L/U storage not inside the caller's buffer", blob)
                r = refs.get(s.split("gssvx")[0])
                if r is not None and not sig_match(r, sig, prec): ctx.violation("sufficient:differs-from-internal", "results with caller workspace differ from internal-memory results", blob)
        else:
            if not ok:
                ctx.violation("userwork-too-small:" + outcome, "caller workspace of %d bytes (n=%d, P=%d): %s" % (lw, n, P, outcome), blob)
    for key, kind, sig, blob in seqs:
        if key in refs and not sig_match(refs[key], sig, blob["prec"]):
            ctx.violation("seq:differs-from-fresh", "last call of %s gives results differing from the same call in a fresh process" % kind, blob)
    # (d)
    def count_allocs(j):
        prec, n, P, head, call = j
        ops, done, rc, err = D.run_script(fault[prec], head + "failat 0\n" + call + "quit\n", timeout=60)
        return ops[-1]["allocs"][0] if (rc == 0 and ops and "allocs" in ops[-1]) else 0
    with ThreadPoolExecutor(C.NPROC) as ex:
        counts = list(ex.map(count_allocs, fault_jobs))
    fj = []
    for (prec, n, P, head, call), K in zip(fault_jobs, counts):
        ks = range(1, K + 1) if (K <= 60 or not q) else sorted(set(list(range(1, 25)) + random.Random(n).sample(range(25, K + 1), 25)))
        for k in ks:
            fj.append((prec, n, P, k, K, head + "failat %d\n" % k + call + "quit\n"))
    def runf(j):
        return (j, D.run_script(fault[j[0]], j[5], timeout=60))
    with ThreadPoolExecutor(C.NPROC) as ex:
        fouts = list(ex.map(runf, fj))
    fired = 0
    for (prec, n, P, k, K, s), (ops, done, rc, err) in fouts:
        blob = {"kind": "alloc-fault", "prec": prec, "n": n, "P": P, "fail_from_request": k, "requests_in_call": K, "script": s, "rc": rc, "stderr": (err or "")[-1500:]}
        ok, outcome = classify(ops, done, rc, err, n, nthreads=P)
        site = "-"
        if ops and "allocs" in ops[-1]:
            fired += 1 if ops[-1]["allocs"][1] > 0 else 0; site = ops[-1]["allocs"][2]
        hist["fault:%s" % outcome.split("@")[0]] += 1
        if outcome == "success":
            # a failed allocation must not be reported as success... unless the failing request was never reached
            if ops and ops[-1].get("allocs", (0, 0, "-"))[1] > 0:
                ctx.violation("alloc-fault-ignored:" + site, "allocation request %d of %d failed (%s) yet the driver reported success" % (k, K, site), blob)
            continue
        if not ok:
            ctx.violation("alloc-fault:" + outcome, "allocation request %d of %d fails (%s): %s" % (k, K, site, outcome), blob)
    # (b3) re-factorization in the SAME caller buffer with MORE threads than the first call: the head of the buffer holds the factors,
    # the workers' arrays must fit in what is left or the call must say so (info > n); schedule perturbation keeps the workers alive together.
    from vlib import exact as X
    from fractions import Fraction
    rj = []
    for i in range(24 if q else 400):
        prec = "czsd"[i % 4]; n = rng.choice([64, 100, 144]); P = rng.choice([2, 3, 4]); cplx = prec in "cz"; single = prec in "sc"
        M = G.random_matrix(rng, n, "grid", "float"); M.vals = H.new_values(rng, M); M = H.to_prec(rng, M, prec)
        b = H.rhs_prec(rng, n, prec)
        head = "perturb 3 %d\nienv 8 4 200 200 100 %d %d %d\n" % ((i + 1,) + rng.choice([(-8, -8, -6), (-20, -20, -10)]))
        head += G.script_mat(0, M, single=single) + G.script_rhs(0, n, 1, n, [b], cplx, single) + "permc_get 0 %d\n" % rng.choice([0, 2, 3])
        V2 = [((v[0] * 1.5, v[1]) if cplx else v * 1.5) for v in M.vals]
        rj.append((prec, n, P, head, M, V2, b, rng.choice([1.0, 1.0, 1.05, 1.3])))
    def run_rj(j):
        prec, n, P, head, M, V2, b, f = j
        ops, done, rc, err = D.run_script(asan[prec], head + "gssvx 0 0 1 0 0 0 0 0x1p+0 8 4 0 -1\nquit\n", timeout=60)
        g = [o for o in ops if o.get("op") == "gssvx"]
        if rc != 0 or not g or "mem" not in g[-1] or g[-1]["mem"][1] <= 0: return j, None, None
        lw = int(g[-1]["mem"][1] * f)
        cplx = prec in "cz"; single = prec in "sc"
        s = head + "gssvx 0 0 1 0 0 0 0 0x1p+0 8 4 0 %d\n" % lw + "setvals 0 " + G.fmt_vals(V2, cplx, single) + "\n" + G.script_rhs(0, n, 1, n, [b], cplx, single)
        s += "gssvx 0 0 %d 0 0 1 0 0x1p+0 8 4 0 %d\nquit\n" % (P, lw)
        return j, lw, (s,) + tuple(D.run_script(asan[prec], s, timeout=120))
    with ThreadPoolExecutor(C.NPROC) as ex:
        routs = list(ex.map(run_rj, rj))
    for (prec, n, P, head, M, V2, b, f), lw, out in routs:
        if out is None: hist["refactor-more-threads:no-estimate"] += 1; continue
        s, ops, done, rc, err = out
        blob = {"kind": "refactor-more-threads", "prec": prec, "n": n, "P": P, "lwork": lw, "script": s, "rc": rc, "stderr": (err or "")[-600:]}
        gs = [o for o in ops if o.get("op") == "gssvx"]
        if rc == 0 and done and gs and gs[0]["info"] != 0:
            hist["refactor-more-threads:first-call-short"] += 1; continue
        ok, outcome = classify(ops, done, rc, err, n)
        hist["refactor-more-threads:%s" % outcome.split("@")[0]] += 1
        if not ok:
            ctx.violation("refactor-more-threads:" + outcome, "re-factorization with %d threads in the caller buffer of a 1-thread factorization (lwork=%d, n=%d, prec=%s): %s" % (P, lw, n, prec, outcome), blob); continue
        if outcome == "success":
            r = gs[-1]
            M2 = G.Mat(n, M.colptr, M.rowind, list(V2), M.cplx)
            if prec in "sc": G.round_single(M2)
            x = S.unpack_cols(r["X"], n, n, 1, M.cplx)[0]
            om = X.backward_error(M2, x, b, 0)
            if om is None or om > Fraction(1000 * (n + 1)) * Fraction(2.0 ** (-24 if prec in "sc" else -53)):
                ctx.violation("refactor-more-threads:wrong-solution", "re-factorization with %d threads in the caller buffer of a 1-thread factorization returned info=%d with a wrong X (backward error %s; lwork=%d, n=%d, prec=%s)" % (
                    P, r["info"], "inf" if om is None else "%.2e" % float(om), lw, n, prec), blob)
    # (b') caller workspace large enough with several worker threads: "results match the internally-allocated mode".
    # Diagonally dominant inputs (nonsingular for every pivot order) with more threads than work, so that workers start and
    # leave at different times; each factorization is judged by the verified checkers and must report info = 0.
    thr = []
    for i, P in enumerate((2, 3, 4, 8)):
        thr += S.sweep(ctx, 150 if q else 2500, 24, precs="sdcz", drivers=("gssvx",), flavour="asan",
                       force={"nprocs": P, "lwork": 4000000, "dominant": True}, seed_offset=1400 + i)
    S.judge(ctx, thr, ["wfL", "wfU", "permr", "permc", "lu"], "threads+userwork", need_info0=False)   # (the residual-vs-factors judge is for the simple driver: p?gssvx refines X)
    for r in thr:
        if r["status"] == "ok":
            hist["threads+userwork:info=%s" % ("0" if r["info"] == 0 else "k")] += 1
            if r["info"] not in (0, r["cfg"]["n"] + 1):      # n+1 = "rcond below machine precision", a documented successful return (C12's subject)
                ctx.violation("threads+userwork:info", "nonsingular (diagonally dominant) matrix, ample caller workspace, P=%d: info=%d (internal-memory mode reports 0)" % (r["cfg"]["nprocs"], r["info"]), S.replay_blob(r))
            if r["res"].get("redzone") == 0:
                ctx.violation("threads+userwork:redzone", "guard band around the caller buffer damaged (P=%d)" % r["cfg"]["nprocs"], S.replay_blob(r))
    ctx.coverage.update({"evaluations": len(plain_jobs) + len(fj) + len(thr), "threaded_userwork_runs": len(thr), "distinct_nontrivial": len(plain_jobs) + len(fj) + len(thr),
                         "rule": "configurations x {query, sufficient, reference, caller workspace sizes} under ASan; allocator failure from request k for k=1..K on the fault build (K = requests of the call, all k when K<=60 else 24+25 sampled in the quick tier)",
                         "outcomes": dict(hist), "fault_runs": len(fj), "fault_runs_where_a_failure_fired": fired,
                         "samples": [{"kind": j[0], "prec": j[1], "n": j[2], "P": j[3], "lwork": j[4]} for j in plain_jobs[:4]]})
