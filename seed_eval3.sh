#!/bin/bash
# seed_eval.sh <ID> "<checks to run>"  — verify a seeded change (worktree /tmp/seed_<ID>) and run our checks against it.
ID=$1; CHECKS=${2:-$1}; WT=/tmp/seed3_$ID; OUT=/verif/seeded/${ID}_r3
mkdir -p $OUT
cp $WT/seed_out/patch.diff $OUT/patch.diff
mkdir -p $OUT/demo; cp -r $WT/seed_out/* $OUT/demo/ 2>/dev/null
cd $WT && git checkout -q -- SRC 2>/dev/null
echo "== demo on unchanged:"; (cd $WT && timeout 900 bash seed_out/run.sh > /tmp/seed_${ID}_clean.log 2>&1; echo "rc=$?")
(cd $WT && git apply seed_out/patch.diff) || { echo "patch does not apply in worktree"; }
echo "== demo with change:"; (cd $WT && timeout 900 bash seed_out/run.sh > /tmp/seed_${ID}_mut.log 2>&1; echo "rc=$?")
cd $WT && git checkout -q -- SRC
echo "== our checks with the change applied to /repo:"
cd /repo && git apply $OUT/patch.diff || { echo "PATCH DOES NOT APPLY TO /repo"; exit 2; }
cd /verif
for c in $CHECKS; do python3 check.py $c --skip-lean 2>&1 | grep "^VIOLATION\|^\[$c\] tier\|^  " | cut -c1-220 | head -8; done
git -C /repo checkout -- . 
git -C /repo status --short | grep -v "^??" | head -3
