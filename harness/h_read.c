/* h_read.c — runs the REAL file readers ?readhb / ?readrb / ?readmt on the file image on stdin.
 * Compiled once per precision with -DPREC_s | -DPREC_d | -DPREC_c | -DPREC_z.
 *
 *   h_read_<p> <hb|rb|mt> <out> [novals]  < file
 *   h_read_<p> batch <listfile> <statusfile>         (one forked child per listed case, see batch())
 *
 * Result lines go to <out> (the readers chat on stdout and close stdin):
 *   ok <nrow> <ncol> <nnz>
 *   colptr <ncol+1> ...            (integers as the reader stored them, 0-based)
 *   rowind <k> ...                 (k = nnz for hb/rb, colptr[ncol] for mt)
 *   vals <k*NCOMP> %a ...          (or "vals none" when called with `novals`: VALCRD = 0, nothing stored)
 * A crash / hang / exit() of the reader is observed by the caller (no `ok` line, exit status, timeout).
 */
#include <stdio.h>
#include <stdlib.h>
#include <string.h>
#include <unistd.h>
#include <fcntl.h>
#include <signal.h>
#include <sys/types.h>
#include <sys/wait.h>

#if defined(PREC_s)
#include "slu_mt_sdefs.h"
typedef float elem_t; typedef float real_t;
#define NCOMP 1
#define P(x) s##x
#elif defined(PREC_d)
#include "slu_mt_ddefs.h"
typedef double elem_t; typedef double real_t;
#define NCOMP 1
#define P(x) d##x
#elif defined(PREC_c)
#include "slu_mt_cdefs.h"
typedef complex elem_t; typedef float real_t;
#define NCOMP 2
#define P(x) c##x
#elif defined(PREC_z)
#include "slu_mt_zdefs.h"
typedef doublecomplex elem_t; typedef double real_t;
#define NCOMP 2
#define P(x) z##x
#else
#error "define PREC_s|d|c|z"
#endif

/* ?readrb is compiled into the library but not declared in the headers */
extern void P(readrb)(int_t *, int_t *, int_t *, elem_t **, int_t **, int_t **);

static int run_one(const char *fmt, const char *outpath, int novals)
{
    FILE *out = fopen(outpath, "w");
    if (!out) { perror("out"); return 2; }
    int_t m = -7, n = -7, nnz = -7, *asub = 0, *xa = 0; elem_t *a = 0;
    fprintf(out, "start\n"); fflush(out);
    if (!strcmp(fmt, "hb")) P(readhb)(&m, &n, &nnz, &a, &asub, &xa);
    else if (!strcmp(fmt, "rb")) P(readrb)(&m, &n, &nnz, &a, &asub, &xa);
    else if (!strcmp(fmt, "mt")) P(readmt)(&m, &n, &nnz, &a, &asub, &xa);
    else return 2;
    long k = !strcmp(fmt, "mt") ? (long)xa[n] : (long)nnz;
    fprintf(out, "ok %ld %ld %ld\n", (long)m, (long)n, (long)nnz);
    fprintf(out, "colptr %ld", (long)n + 1);
    for (long i = 0; i <= n; i++) fprintf(out, " %ld", (long)xa[i]);
    fprintf(out, "\nrowind %ld", k);
    for (long i = 0; i < k; i++) fprintf(out, " %ld", (long)asub[i]);
    if (novals) fprintf(out, "\nvals none\n");
    else {
        const real_t *r = (const real_t *)a;
        fprintf(out, "\nvals %ld", k * NCOMP);
        for (long i = 0; i < k * NCOMP; i++) fprintf(out, " %a", (double)r[i]);
        fputc('\n', out);
    }
    fclose(out);
    free(a); free(asub); free(xa);
    return 0;
}

/* batch mode: one forked child per case (the readers close stdin and may hang or crash).
 * list file lines:  <id> <hb|rb|mt> <infile> <outfile> <novals 0|1> <timeout seconds>
 * status file lines: <id> <exit|signal> <code>         (signal 14 = SIGALRM = timeout) */
static int batch(const char *listpath, const char *statuspath)
{
    FILE *lst = fopen(listpath, "r"), *st = fopen(statuspath, "w");
    if (!lst || !st) { perror("batch"); return 2; }
    char id[128], fmt[8], inp[1024], outp[1024]; int novals, tmo;
    while (fscanf(lst, "%127s %7s %1023s %1023s %d %d", id, fmt, inp, outp, &novals, &tmo) == 6) {
        fflush(st);
        pid_t pid = fork();
        if (pid < 0) { perror("fork"); return 2; }
        if (pid == 0) {
            int fd = open(inp, O_RDONLY), nul = open("/dev/null", O_WRONLY);
            if (fd < 0 || nul < 0) _exit(97);
            dup2(fd, 0); dup2(nul, 1); close(fd); close(nul);
            alarm(tmo);
            int rc = run_one(fmt, outp, novals);
            fflush(NULL);
            _exit(rc);
        }
        int status = 0;
        waitpid(pid, &status, 0);
        if (WIFEXITED(status)) fprintf(st, "%s exit %d\n", id, WEXITSTATUS(status));
        else if (WIFSIGNALED(status)) fprintf(st, "%s signal %d\n", id, WTERMSIG(status));
        else fprintf(st, "%s other %d\n", id, status);
    }
    fclose(st); fclose(lst);
    return 0;
}

int main(int argc, char **argv)
{
    if (argc >= 4 && !strcmp(argv[1], "batch")) return batch(argv[2], argv[3]);
    if (argc < 3) { fprintf(stderr, "usage: h_read <hb|rb|mt> <out> [novals]  |  h_read batch <list> <status>\n"); return 2; }
    return run_one(argv[1], argv[2], argc > 3 && !strcmp(argv[3], "novals"));
}
