/* h_pivot.c — calls the real p?gstrf_pivotL on hand-built GlobalLU_t columns.
 *   h_pivot_<p> <in> <out>
 * input cases (tokens):
 *   case <id> <jcol> <nsupc> <nsupr> <usepr> <oldpivrow> <diagind> <u hex>
 *   <nsupr row indices>
 *   <(nsupc+1)*nsupr values (hex; complex: re im pairs), column major>
 * output per case:
 *   case <id> info <i> pivrow <r> usepr <0|1> permr <perm_r[pivrow]> invpermr <inv_perm_r[jcol]> oob <0|1>
 *   rows ... / col <k> values...
 */
#define _GNU_SOURCE
#include <stdio.h>
#include <stdlib.h>
#include <string.h>
#if defined(PREC_s)
#include "slu_mt_sdefs.h"
typedef float elem_t; typedef float real_t;
#define NCOMP 1
#define PP(x) ps##x
#elif defined(PREC_d)
#include "slu_mt_ddefs.h"
typedef double elem_t; typedef double real_t;
#define NCOMP 1
#define PP(x) pd##x
#elif defined(PREC_c)
#include "slu_mt_cdefs.h"
typedef complex elem_t; typedef float real_t;
#define NCOMP 2
#define PP(x) pc##x
#elif defined(PREC_z)
#include "slu_mt_zdefs.h"
typedef doublecomplex elem_t; typedef double real_t;
#define NCOMP 2
#define PP(x) pz##x
#endif
#define SENT (-12345)
int main(int argc, char **argv) {
    FILE *in = fopen(argv[1], "r"), *out = fopen(argv[2], "w"); char tok[256];
    while (fscanf(in, "%255s", tok) == 1) {
        if (strcmp(tok, "case")) { fprintf(stderr, "bad token %s\n", tok); return 3; }
        char id[64]; long jcol, nsupc, nsupr, usepr_i, oldpiv, diagind; char ub[64];
        if (fscanf(in, "%63s %ld %ld %ld %ld %ld %ld %63s", id, &jcol, &nsupc, &nsupr, &usepr_i, &oldpiv, &diagind, ub) != 8) return 3;
        real_t u = (real_t)strtod(ub, 0);
        long fsupc = jcol - nsupc; long N = jcol + 1;
        int_t *rows = malloc(sizeof(int_t) * (nsupr + 4));
        for (long i = 0; i < nsupr; i++) { long v; fscanf(in, "%ld", &v); rows[i] = v; if (v + 1 > N) N = v + 1; }
        for (long i = nsupr; i < nsupr + 4; i++) rows[i] = SENT;
        if (oldpiv + 1 > N) N = oldpiv + 1; if (diagind + 1 > N) N = diagind + 1;
        long nv = (nsupc + 1) * nsupr;
        elem_t *lusup = calloc(nv + 8, sizeof(elem_t)); real_t *rv = (real_t *)lusup;
        for (long i = 0; i < nv * NCOMP; i++) { char b[64]; fscanf(in, "%63s", b); rv[i] = (real_t)strtod(b, 0); }
        GlobalLU_t Glu; memset(&Glu, 0, sizeof Glu);
        int_t *xsup = calloc(N + 2, sizeof(int_t)), *supno = calloc(N + 2, sizeof(int_t)), *xlsub = calloc(N + 2, sizeof(int_t)),
              *xlsub_end = calloc(N + 2, sizeof(int_t)), *xlusup = calloc(N + 2, sizeof(int_t));
        int_t *base_perm = malloc(sizeof(int_t) * (N + 16)), *base_inv = malloc(sizeof(int_t) * (N + 16));
        int_t *perm_r = base_perm + 8, *inv_perm_r = base_inv + 8;   /* slack below index 0 for a SENT row */
        int_t *inv_perm_c = malloc(sizeof(int_t) * (N + 2));
        for (long i = -8; i < N + 8; i++) { perm_r[i] = -1; inv_perm_r[i] = -1; }
        for (long i = 0; i < N + 2; i++) inv_perm_c[i] = -1;
        Glu.xsup = xsup; Glu.supno = supno; Glu.lsub = rows; Glu.xlsub = xlsub; Glu.xlsub_end = xlsub_end; Glu.lusup = lusup; Glu.xlusup = xlusup;
        supno[jcol] = 0; xsup[0] = fsupc; xlsub[fsupc] = 0; xlsub_end[fsupc] = nsupr;
        for (long k = 0; k <= nsupc; k++) xlusup[fsupc + k] = k * nsupr;
        inv_perm_r[jcol] = oldpiv; inv_perm_c[jcol] = diagind;
        Gstat_t G; memset(&G, 0, sizeof G); procstat_t ps; memset(&ps, 0, sizeof ps); G.procstat = &ps;
        yes_no_t usepr = usepr_i ? YES : NO; int_t pivrow = -777;
        /* a SENT row index would be written through perm_r[SENT]: redirect by making SENT harmless */
        int_t info;
        {
            /* perm_r[*pivrow] with *pivrow == SENT would be far out of bounds: catch nsupr==nsupc separately */
            if (nsupr <= nsupc) { rows[nsupc] = -3; /* lands in the slack region below perm_r[0] */ }
            info = PP(gstrf_pivotL)(0, jcol, u, &usepr, perm_r, inv_perm_r, inv_perm_c, &pivrow, &Glu, &G);
        }
        int oob = (nsupr <= nsupc);
        fprintf(out, "case %s info %ld pivrow %ld usepr %d permr %ld invpermr %ld oob %d\n", id, (long)info, (long)pivrow, usepr == YES ? 1 : 0,
                (pivrow >= -8 && pivrow < N) ? (long)perm_r[pivrow] : -99L, (long)inv_perm_r[jcol], oob);
        fprintf(out, "rows"); for (long i = 0; i < nsupr; i++) fprintf(out, " %ld", (long)rows[i]); fputc('\n', out);
        for (long k = 0; k <= nsupc; k++) { fprintf(out, "col %ld", k); for (long i = 0; i < nsupr * NCOMP; i++) fprintf(out, " %a", (double)rv[k * nsupr * NCOMP + i]); fputc('\n', out); }
        free(rows); free(lusup); free(xsup); free(supno); free(xlsub); free(xlsub_end); free(xlusup); free(base_perm); free(base_inv); free(inv_perm_c);
    }
    fprintf(out, "done\n"); fclose(out); return 0;
}
