/* h_drv.c — script-driven harness around the real drivers / factor / solve routines.
 * Compiled once per precision with -DPREC_s | -DPREC_d | -DPREC_c | -DPREC_z and linked against a
 * libslu.a built from /repo's current working tree.
 *
 *   h_drv_<p> <script> <out>
 *
 * The script is a token stream (see gen/ for the writer).  Floating values travel as C99 hex floats
 * (exact).  Results are appended to <out>, one "key values..." line each; library chatter on stdout
 * is not part of the protocol.  Everything is single-process: a crash is observed by the caller.
 */
#define _GNU_SOURCE
#include <stdio.h>
#include <stdlib.h>
#include <string.h>
#include <math.h>
#include <unistd.h>
#include <dirent.h>
#include <stdint.h>

#if defined(PREC_s)
#include "slu_mt_sdefs.h"
typedef float elem_t; typedef float real_t;
#define NCOMP 1
#define DT SLU_S
#define P(x) s##x
#define PP(x) ps##x
#elif defined(PREC_d)
#include "slu_mt_ddefs.h"
typedef double elem_t; typedef double real_t;
#define NCOMP 1
#define DT SLU_D
#define P(x) d##x
#define PP(x) pd##x
#elif defined(PREC_c)
#include "slu_mt_cdefs.h"
typedef complex elem_t; typedef float real_t;
#define NCOMP 2
#define DT SLU_C
#define P(x) c##x
#define PP(x) pc##x
#elif defined(PREC_z)
#include "slu_mt_zdefs.h"
typedef doublecomplex elem_t; typedef double real_t;
#define NCOMP 2
#define DT SLU_Z
#define P(x) z##x
#define PP(x) pz##x
#else
#error "define PREC_s|d|c|z"
#endif

/* ---- sp_ienv override (an ordinary archive member, so this definition wins at link time) ---- */
static int_t ienv_tab[9] = {0, 20, 6, 200, 200, 100, -50, -50, -30};
int_t sp_ienv(int_t ispec) { if (ispec >= 1 && ispec <= 8) return ienv_tab[ispec]; return 0; }

/* ---- xerbla capture ---- */
static char xerbla_name[64]; static int xerbla_arg = 0; static int xerbla_calls = 0;
int xerbla_(char *srname, int *info) {
    strncpy(xerbla_name, srname, 63); xerbla_arg = *info; xerbla_calls++; return 0;
}

/* ---- verification hook: schedule perturbation + global sequence-numbered event log ---- */
static unsigned long long perturb_seed = 0; static int perturb_level = 0;
typedef struct { int kind, pnum; long a, b, c; } ev_t;
static ev_t *evlog = 0; static long evcap = 0; static volatile long evcount = 0; static int evlog_on = 0; static int evlog_dfs = 1;
void slu_mt_verif_event(int kind, int pnum, long a, long b, long c) {
    if (evlog_on && (kind != 14 || evlog_dfs)) {
        long i = __atomic_fetch_add(&evcount, 1, __ATOMIC_SEQ_CST);
        if (i < evcap) { evlog[i].kind = kind; evlog[i].pnum = pnum; evlog[i].a = a; evlog[i].b = b; evlog[i].c = c; }
    }
    if (!perturb_level || pnum < 0) return;
    static __thread unsigned long long st = 0;
    if (!st) st = perturb_seed * 6364136223846793005ULL + (unsigned long long)(pnum + 1) * 1442695040888963407ULL + 1;
    st ^= st << 13; st ^= st >> 7; st ^= st << 17;
    unsigned r = (unsigned)(st >> 33) % 100;
    if (r < (unsigned)(perturb_level * 10)) sched_yield();
    else if (r < (unsigned)(perturb_level * 12)) usleep(1 + (st >> 40) % 50);
}

/* ---- allocation fault injection (library built with -include vf_alloc.h; unused otherwise) ---- */
#include <malloc.h>
static long vf_count = 0, vf_failat = 0, vf_failed = 0; static int vf_active = 0; static char vf_first_fail_site[128] = "-";
/* ---- allocation ledger (C17): every request through the library's allocation points, with a fresh id per block ---- */
#include <pthread.h>
typedef struct { void *p; long id; int live; char site[40]; } lblock;
static lblock *lg_blocks = 0; static long lg_nblocks = 0, lg_cap = 0, lg_next = 1; static int lg_on = 0;
static char *lg_events = 0; static size_t lg_len = 0, lg_ecap = 0; static long lg_nev = 0;
static pthread_mutex_t lg_mu = PTHREAD_MUTEX_INITIALIZER;
static void lg_app(const char *s) { size_t l = strlen(s); if (lg_len + l + 1 > lg_ecap) { lg_ecap = (lg_ecap + l) * 2 + 1024; lg_events = realloc(lg_events, lg_ecap); } memcpy(lg_events + lg_len, s, l + 1); lg_len += l; }
static void lg_alloc(void *p, const char *file, int line) {
    pthread_mutex_lock(&lg_mu);
    if (lg_nblocks == lg_cap) { lg_cap = lg_cap * 2 + 256; lg_blocks = realloc(lg_blocks, lg_cap * sizeof(lblock)); }
    lblock *b = &lg_blocks[lg_nblocks++]; b->p = p; b->id = lg_next++; b->live = 1;
    const char *bn = strrchr(file, '/'); snprintf(b->site, sizeof b->site, "%s:%d", bn ? bn + 1 : file, line);
    char t[32]; snprintf(t, sizeof t, " a %ld", b->id); lg_app(t); lg_nev++;
    pthread_mutex_unlock(&lg_mu);
}
static void lg_free(void *p) {
    pthread_mutex_lock(&lg_mu);
    long id = -1;
    for (long k = lg_nblocks - 1; k >= 0; k--) if (lg_blocks[k].live && lg_blocks[k].p == p) { lg_blocks[k].live = 0; id = lg_blocks[k].id; break; }
    char t[32]; snprintf(t, sizeof t, " f %ld", id); lg_app(t); lg_nev++;
    pthread_mutex_unlock(&lg_mu);
}
static long lg_id_of(const void *p) { for (long k = lg_nblocks - 1; k >= 0; k--) if (lg_blocks[k].live && lg_blocks[k].p == p) return lg_blocks[k].id; return -1; }
void *vf_malloc(size_t size, const char *file, int line) {
    void *r;
    if (!vf_active) { r = malloc(size); if (lg_on && r) lg_alloc(r, file, line); return r; }   /* only requests issued during a driver call are counted / failed */
    long k = __atomic_add_fetch(&vf_count, 1, __ATOMIC_SEQ_CST);
    if (vf_failat > 0 && k >= vf_failat) {
        if (__atomic_add_fetch(&vf_failed, 1, __ATOMIC_SEQ_CST) == 1) { const char *b = strrchr(file, '/'); snprintf(vf_first_fail_site, sizeof vf_first_fail_site, "%s:%d", b ? b + 1 : file, line); }
        return NULL;
    }
    r = malloc(size); if (lg_on && r) lg_alloc(r, file, line);
    return r;
}
void vf_free(void *p) { if (lg_on && p) lg_free(p); free(p); }
void vf_abort(const char *msg) { fprintf(stderr, "VF_ABORT %s\n", msg); fflush(stderr); _exit(77); }
static int count_fds(void) { int c = 0; DIR *d = opendir("/proc/self/fd"); if (!d) return -1; struct dirent *e; while ((e = readdir(d))) if (e->d_name[0] != '.') c++; closedir(d); return c - 1; }

static FILE *in, *out;
static char tok[4096];
static int next_tok(void) { return fscanf(in, "%4095s", tok) == 1; }
static long rd_int(void) { if (!next_tok()) { fprintf(stderr, "script: eof\n"); exit(3);} return strtol(tok, 0, 10); }
static double rd_f(void) { if (!next_tok()) { fprintf(stderr, "script: eof\n"); exit(3);} return strtod(tok, 0); }

#define MAXSLOT 8
typedef struct { int used; int nr; SuperMatrix M; int_t n, nnz; int_t *ptr, *ind; elem_t *val; elem_t *val0; int_t *ptr0, *ind0; } matslot;
typedef struct { int used; SuperMatrix M; int_t n, nrhs, ld; elem_t *val; elem_t *val0; } dnslot;
static matslot A_[MAXSLOT]; static dnslot B_[MAXSLOT];

/* persistent factorization state */
static SuperMatrix L, U; static int haveLU = 0;
static int_t *perm_c = 0, *perm_r = 0; static int_t pn = 0;
static superlumt_options_t opts; static int opts_live = 0; /* etree/colcnt/part allocated */
static real_t *Rv = 0, *Cv = 0; static equed_t equed = NOEQUIL;
static int workfill_mode = 0; static unsigned long long workfill_seed = 0; /* how a fresh caller buffer is filled: 0 0xA5, 1 small random ints, 2 zeros, 3 reuse the previous buffer as left */
static void *userwork = 0; static long userwork_len = 0; static long userwork_alloc = 0; /* bytes allocated for the last caller buffer (kept after the call: 'stale' buffer) */
#define REDZ 4096

static void pr_ints(const char *k, const int_t *a, long n) { fprintf(out, "%s %ld", k, n); for (long i = 0; i < n; i++) fprintf(out, " %ld", (long)a[i]); fputc('\n', out); }
static void pr_real(real_t x) { fprintf(out, " %a", (double)x); }
static void pr_elems(const char *k, const elem_t *a, long n) {
    const real_t *r = (const real_t *)a;
    fprintf(out, "%s %ld", k, n * NCOMP); for (long i = 0; i < n * NCOMP; i++) pr_real(r[i]); fputc('\n', out);
}
static void pr_reals(const char *k, const real_t *a, long n) { fprintf(out, "%s %ld", k, n); for (long i = 0; i < n; i++) pr_real(a[i]); fputc('\n', out); }

static void rd_elems(elem_t *a, long n) { real_t *r = (real_t *)a; for (long i = 0; i < n * NCOMP; i++) r[i] = (real_t)rd_f(); }

static int count_threads_once(void);
/* pthread_join returns when the kernel clears the tid word, slightly before the task disappears
   from /proc: re-read a few times before believing a surplus */
static int count_threads_settled(int expect) { int c = 0; for (int k = 0; k < 200; k++) { c = count_threads_once(); if (c <= expect) break; usleep(500); } return c; }
static int count_threads_once(void) { int c = 0; DIR *d = opendir("/proc/self/task"); if (!d) return -1; struct dirent *e; while ((e = readdir(d))) if (e->d_name[0] != '.') c++; closedir(d); return c; }

static void ensure_perm(int_t n) {
    if (pn != n) { free(perm_c); free(perm_r); perm_c = malloc(sizeof(int_t) * (n + 1)); perm_r = malloc(sizeof(int_t) * (n + 1));
        for (int_t i = 0; i < n; i++) { perm_c[i] = i; perm_r[i] = i; } pn = n;
        free(Rv); free(Cv); Rv = malloc(sizeof(real_t) * (n + 1)); Cv = malloc(sizeof(real_t) * (n + 1));
        for (int_t i = 0; i < n; i++) Rv[i] = Cv[i] = 1; }
}

static void dump_events(void) {
    if (!evlog_on) return;
    long nev = evcount < evcap ? evcount : evcap;
    fprintf(out, "events %ld %ld\n", nev, (long)evcount);
    for (long i = 0; i < nev; i++) fprintf(out, "e %d %d %ld %ld %ld\n", evlog[i].kind, evlog[i].pnum, evlog[i].a, evlog[i].b, evlog[i].c);
    evcount = 0;
}

static void dump_LU(void) {
    if (!haveLU) { fprintf(out, "noLU\n"); return; }
    SCPformat *Ls = L.Store; NCPformat *Us = U.Store; int_t n = L.ncol;
    fprintf(out, "Lhdr %ld %ld %ld %ld %d %d %d\n", (long)L.nrow, (long)L.ncol, (long)Ls->nnz, (long)Ls->nsuper, (int)L.Stype, (int)L.Dtype, (int)L.Mtype);
    pr_ints("L.col_to_sup", Ls->col_to_sup, n);
    long ns = Ls->nsuper + 1; if (ns < 0 || ns > n) ns = 0;
    pr_ints("L.sup_to_colbeg", Ls->sup_to_colbeg, ns);
    pr_ints("L.sup_to_colend", Ls->sup_to_colend, ns);
    pr_ints("L.rowind_colbeg", Ls->rowind_colbeg, n);
    pr_ints("L.rowind_colend", Ls->rowind_colend, n);
    pr_ints("L.nzval_colbeg", Ls->nzval_colbeg, n);
    pr_ints("L.nzval_colend", Ls->nzval_colend, n);
    /* row lists and values supernode by supernode (only the extents the structure names) */
    for (long s = 0; s < ns; s++) {
        int_t f = Ls->sup_to_colbeg[s], e = Ls->sup_to_colend[s];
        if (f < 0 || f >= n || e <= f || e > n) { fprintf(out, "Lsup %ld bad\n", s); continue; }
        int_t rb = Ls->rowind_colbeg[f], re = Ls->rowind_colend[f];
        fprintf(out, "Lsup %ld %ld %ld %ld", s, (long)f, (long)e, (long)(re - rb));
        for (int_t k = rb; k < re; k++) fprintf(out, " %ld", (long)Ls->rowind[k]);
        fputc('\n', out);
        for (int_t j = f; j < e; j++) {
            int_t vb = Ls->nzval_colbeg[j], ve = Ls->nzval_colend[j];
            fprintf(out, "Lcol %ld %ld %ld", (long)j, (long)vb, (long)(ve - vb));
            const real_t *r = (const real_t *)Ls->nzval;
            for (long k = (long)vb * NCOMP; k < (long)ve * NCOMP; k++) pr_real(r[k]);
            fputc('\n', out);
        }
    }
    fprintf(out, "Uhdr %ld %ld %ld %d %d %d\n", (long)U.nrow, (long)U.ncol, (long)Us->nnz, (int)U.Stype, (int)U.Dtype, (int)U.Mtype);
    pr_ints("U.colbeg", Us->colbeg, n);
    pr_ints("U.colend", Us->colend, n);
    for (int_t j = 0; j < n; j++) {
        int_t b = Us->colbeg[j], e = Us->colend[j];
        fprintf(out, "Ucol %ld %ld", (long)j, (long)(e - b));
        for (int_t k = b; k < e; k++) fprintf(out, " %ld", (long)Us->rowind[k]);
        const real_t *r = (const real_t *)Us->nzval;
        for (long k = (long)b * NCOMP; k < (long)e * NCOMP; k++) pr_real(r[k]);
        fputc('\n', out);
    }
}

static void free_LU(void) {
    if (!haveLU) return;
    if (userwork_len == 0) { Destroy_SuperNode_SCP(&L); Destroy_CompCol_NCP(&U); }
    else { /* storage lives in the user buffer; only the Store headers were malloc'ed */
        SUPERLU_FREE(L.Store); SUPERLU_FREE(U.Store); }
    haveLU = 0;
}

static void same_report(const char *k, const void *a, const void *b, size_t len) { fprintf(out, "%s %d\n", k, memcmp(a, b, len) == 0 ? 1 : 0); }

static void report_A_B(int ai, int bi) {
    matslot *a = &A_[ai];
    same_report("A.val.same", a->val, a->val0, sizeof(elem_t) * a->nnz);
    same_report("A.ptr.same", a->ptr, a->ptr0, sizeof(int_t) * (a->n + 1));
    same_report("A.ind.same", a->ind, a->ind0, sizeof(int_t) * a->nnz);
    if (bi >= 0) { dnslot *b = &B_[bi]; same_report("B.same", b->val, b->val0, sizeof(elem_t) * b->ld * (b->nrhs > 0 ? b->nrhs : 0)); }
}

int main(int argc, char **argv) {
    if (argc < 3) { fprintf(stderr, "usage: %s script out\n", argv[0]); return 2; }
    in = fopen(argv[1], "r"); out = fopen(argv[2], "w");
    if (!in || !out) { perror("open"); return 2; }
    setvbuf(out, 0, _IOLBF, 0);
    memset(&opts, 0, sizeof opts);
    while (next_tok()) {
        if (!strcmp(tok, "ienv")) { for (int i = 1; i <= 8; i++) ienv_tab[i] = rd_int(); }
        else if (!strcmp(tok, "perturb")) { perturb_level = rd_int(); perturb_seed = (unsigned long long)rd_int(); }
        else if (!strcmp(tok, "dynsnode")) { /* dynamic L-supernode storage scheme: selected by the library through this environment variable */
            if (rd_int()) setenv("SuperLU_DYNAMIC_SNODE_STORE", "1", 1); else unsetenv("SuperLU_DYNAMIC_SNODE_STORE"); }
        else if (!strcmp(tok, "failat")) { vf_failat = rd_int(); vf_count = 0; vf_failed = 0; strcpy(vf_first_fail_site, "-"); }
        else if (!strcmp(tok, "ledger")) { /* ledger 1 : start logging;  ledger dump : the trace so far, the blocks still live with their sites,
                                              and which of them are reachable from what the caller holds (L, U, option arrays) */
            next_tok();
            if (!strcmp(tok, "1")) { lg_on = 1; lg_len = 0; lg_nev = 0; lg_nblocks = 0; lg_next = 1; if (lg_events) lg_events[0] = 0; }
            else {
                fprintf(out, "ledger %ld%s\n", lg_nev, lg_events ? lg_events : "");
                fprintf(out, "ledger_ret");
                const void *held[32]; int nh = 0;
                if (haveLU) { SCPformat *Ls = L.Store; NCPformat *Us = U.Store;
                    held[nh++] = Ls; held[nh++] = Us;
                    if (userwork_len == 0) { held[nh++] = Ls->nzval; held[nh++] = Ls->nzval_colbeg; held[nh++] = Ls->nzval_colend; held[nh++] = Ls->rowind; held[nh++] = Ls->rowind_colbeg;
                        held[nh++] = Ls->rowind_colend; held[nh++] = Ls->col_to_sup; held[nh++] = Ls->sup_to_colbeg; held[nh++] = Ls->sup_to_colend;
                        held[nh++] = Us->nzval; held[nh++] = Us->rowind; held[nh++] = Us->colbeg; held[nh++] = Us->colend; } }
                if (opts_live) { held[nh++] = opts.etree; held[nh++] = opts.colcnt_h; held[nh++] = opts.part_super_h; }
                for (int k = 0; k < nh; k++) { long id = lg_id_of(held[k]); if (id > 0) fprintf(out, " %ld", id); }
                fprintf(out, "\nledger_live");
                for (long k = 0; k < lg_nblocks; k++) if (lg_blocks[k].live) fprintf(out, " %ld@%s", lg_blocks[k].id, lg_blocks[k].site);
                fputc('\n', out);
            } }
        else if (!strcmp(tok, "heap")) { next_tok(); struct mallinfo2 mi = mallinfo2(); fprintf(out, "heap %s %zu %d %d\n", tok, (size_t)mi.uordblks, count_threads_once(), count_fds()); }
        else if (!strcmp(tok, "evlog")) { evlog_on = rd_int(); evlog_dfs = rd_int(); if (evlog_on && !evlog) { evcap = 4000000; evlog = malloc(sizeof(ev_t) * evcap); } }
        else if (!strcmp(tok, "mat")) {
            int s = rd_int(); next_tok(); int nr = !strcmp(tok, "NR"); int_t n = rd_int(), nnz = rd_int();
            matslot *a = &A_[s];
            if (a->used) { free(a->ptr); free(a->ind); free(a->val); free(a->ptr0); free(a->ind0); free(a->val0); SUPERLU_FREE(a->M.Store); }
            a->used = 1; a->nr = nr; a->n = n; a->nnz = nnz;
            a->ptr = malloc(sizeof(int_t) * (n + 2)); a->ind = malloc(sizeof(int_t) * (nnz + 1)); a->val = malloc(sizeof(elem_t) * (nnz + 1));
            a->ptr0 = malloc(sizeof(int_t) * (n + 2)); a->ind0 = malloc(sizeof(int_t) * (nnz + 1)); a->val0 = malloc(sizeof(elem_t) * (nnz + 1));
            for (int_t i = 0; i <= n; i++) a->ptr[i] = rd_int();
            for (int_t i = 0; i < nnz; i++) a->ind[i] = rd_int();
            rd_elems(a->val, nnz);
            memcpy(a->ptr0, a->ptr, sizeof(int_t) * (n + 1)); memcpy(a->ind0, a->ind, sizeof(int_t) * nnz); memcpy(a->val0, a->val, sizeof(elem_t) * nnz);
            if (nr) P(Create_CompRow_Matrix)(&a->M, n, n, nnz, a->val, a->ind, a->ptr, SLU_NR, DT, SLU_GE);
            else P(Create_CompCol_Matrix)(&a->M, n, n, nnz, a->val, a->ind, a->ptr, SLU_NC, DT, SLU_GE);
        }
        else if (!strcmp(tok, "setvals")) { /* new values, same pattern */
            int s = rd_int(); matslot *a = &A_[s]; rd_elems(a->val, a->nnz); memcpy(a->val0, a->val, sizeof(elem_t) * a->nnz);
        }
        else if (!strcmp(tok, "rhs")) {
            int s = rd_int(); int_t n = rd_int(), nrhs = rd_int(), ld = rd_int(); dnslot *b = &B_[s];
            if (b->used) { free(b->val); free(b->val0); SUPERLU_FREE(b->M.Store); }
            b->used = 1; b->n = n; b->nrhs = nrhs; b->ld = ld;
            long tot = (long)ld * (nrhs > 0 ? nrhs : 0) + 1;
            b->val = malloc(sizeof(elem_t) * tot); b->val0 = malloc(sizeof(elem_t) * tot);
            real_t *r = (real_t *)b->val; for (long i = 0; i < tot * NCOMP; i++) r[i] = (real_t)-7777.0; /* padding sentinel */
            for (int_t j = 0; j < nrhs; j++) rd_elems(b->val + (long)j * ld, n);
            memcpy(b->val0, b->val, sizeof(elem_t) * tot);
            P(Create_Dense_Matrix)(&b->M, n, nrhs, b->val, ld, SLU_DN, DT, SLU_GE);
        }
        else if (!strcmp(tok, "permc_get")) {
            int s = rd_int(); int spec = rd_int(); matslot *a = &A_[s]; ensure_perm(a->n);
            /* get_perm_c works on the NC interpretation; for NR the drivers are documented to take the
               ordering of the transposed view, which is what an NC wrapper of the same arrays gives */
            SuperMatrix T; P(Create_CompCol_Matrix)(&T, a->n, a->n, a->nnz, a->val, a->ind, a->ptr, SLU_NC, DT, SLU_GE);
            get_perm_c(spec, &T, perm_c); SUPERLU_FREE(T.Store);
            pr_ints("permc_get", perm_c, a->n);
        }
        else if (!strcmp(tok, "permc_set")) { int_t n = rd_int(); ensure_perm(n); for (int_t i = 0; i < n; i++) perm_c[i] = rd_int(); }
        else if (!strcmp(tok, "permr_set")) { int_t n = rd_int(); ensure_perm(n); for (int_t i = 0; i < n; i++) perm_r[i] = rd_int(); }
        else if (!strcmp(tok, "gssv")) {
            int ai = rd_int(), bi = rd_int(); int_t nprocs = rd_int(); matslot *a = &A_[ai]; dnslot *b = &B_[bi];
            ensure_perm(a->n); free_LU(); int_t info = -999; int t0 = count_threads_once();
            xerbla_calls = 0; evcount = 0; vf_count = 0; vf_failed = 0; vf_active = 1;
            PP(gssv)(nprocs, &a->M, perm_c, perm_r, &L, &U, &b->M, &info);
            vf_active = 0;
            int t1 = count_threads_settled(t0);
            fprintf(out, "op gssv\ninfo %ld\nxerbla %d %s %d\nthreads %d %d\n", (long)info, xerbla_calls, xerbla_calls ? xerbla_name : "-", xerbla_arg, t0, t1);
            dump_events();
            fprintf(out, "allocs %ld %ld %s\n", vf_count, vf_failed, vf_first_fail_site);
            report_A_B(ai, bi);
            if (info >= 0 && xerbla_calls == 0 && info <= a->n) { haveLU = 1; userwork_len = 0; }
            pr_ints("perm_r", perm_r, a->n); pr_ints("perm_c", perm_c, a->n);
            if (b->nrhs > 0) pr_elems("X", b->val, (long)b->ld * b->nrhs); else fprintf(out, "X 0\n");
            dump_LU(); fprintf(out, "end\n");
        }
        else if (!strcmp(tok, "workfill")) { workfill_mode = rd_int(); workfill_seed = (unsigned long long)rd_int(); }
        else if (!strcmp(tok, "gssvx")) {
            /* gssvx A B nprocs fact trans refact usepr u panel relax symm lwork */
            int ai = rd_int(), bi = rd_int(); int_t nprocs = rd_int(); int fact = rd_int(), trans = rd_int(), refact = rd_int(), usepr = rd_int();
            double u = rd_f(); int_t panel = rd_int(), relax = rd_int(); int symm = rd_int(); long lwork = rd_int();
            matslot *a = &A_[ai]; dnslot *b = &B_[bi]; int_t n = a->n; ensure_perm(n);
            if (fact != FACTORED && refact == NO) { free_LU();
                if (opts_live) { SUPERLU_FREE(opts.etree); SUPERLU_FREE(opts.colcnt_h); SUPERLU_FREE(opts.part_super_h); opts_live = 0; } }
            opts.nprocs = nprocs; opts.fact = fact; opts.trans = trans; opts.refact = refact; opts.panel_size = panel; opts.relax = relax;
            opts.diag_pivot_thresh = u; opts.usepr = usepr; opts.drop_tol = 0.0; opts.SymmetricMode = symm; opts.PrintStat = NO;
            opts.perm_c = perm_c; opts.perm_r = perm_r;
            if (lwork > 0) { if (refact == NO && fact != FACTORED) {
                    if (workfill_mode == 3 && userwork && userwork_alloc >= lwork + 2 * REDZ) {
                        /* the caller hands the SAME buffer to the next first-time call, contents as the previous call left them */
                        memset(userwork, 0xA5, REDZ); memset((char *)userwork + REDZ + lwork, 0xA5, REDZ); userwork_len = lwork;
                    } else {
                        free(userwork); userwork = malloc(lwork + 2 * REDZ); memset(userwork, 0xA5, lwork + 2 * REDZ); userwork_len = lwork; userwork_alloc = lwork + 2 * REDZ;
                        if (workfill_mode == 2) memset((char *)userwork + REDZ, 0, lwork);
                        if (workfill_mode == 1) { /* arbitrary contents: small integers, as index arrays of an earlier, unrelated use would leave */
                            int *w = (int *)((char *)userwork + REDZ); unsigned long long x = workfill_seed * 6364136223846793005ULL + 1442695040888963407ULL;
                            for (long i = 0; i < lwork / (long)sizeof(int); i++) { x = x * 6364136223846793005ULL + 1442695040888963407ULL; w[i] = (int)((x >> 33) % (unsigned long long)(2 * n + 3)) - 1; } }
                    } }
                opts.work = (char *)userwork + REDZ; opts.lwork = lwork; }
            else { opts.work = 0; opts.lwork = lwork; if (refact == NO && fact != FACTORED) userwork_len = 0; }
            /* a call without caller workspace after one with: the caller has taken its old buffer back and filled it with its own data */
            int stale_watch = (lwork == 0 && refact == NO && fact != FACTORED && userwork && userwork_alloc > 0);
            if (stale_watch) memset(userwork, 0x5A, userwork_alloc);
            if (!opts_live && fact != FACTORED) { opts.etree = intMalloc(n + 1); opts.colcnt_h = intMalloc(n + 1); opts.part_super_h = intMalloc(n + 1); opts_live = 1; }
            /* X */
            long tot = (long)b->ld * (b->nrhs > 0 ? b->nrhs : 0) + 1; elem_t *xv = malloc(sizeof(elem_t) * tot);
            { real_t *r = (real_t *)xv; for (long i = 0; i < tot * NCOMP; i++) r[i] = (real_t)-5555.0; }
            elem_t *xv0 = malloc(sizeof(elem_t) * tot); memcpy(xv0, xv, sizeof(elem_t) * tot);
            SuperMatrix X; P(Create_Dense_Matrix)(&X, n, b->nrhs, xv, b->ld, SLU_DN, DT, SLU_GE);
            real_t rpg = -1, rcond = -1; real_t *ferr = malloc(sizeof(real_t) * (b->nrhs + 1)), *berr = malloc(sizeof(real_t) * (b->nrhs + 1));
            for (int i = 0; i <= b->nrhs; i++) ferr[i] = berr[i] = -1;
            superlu_memusage_t mu; memset(&mu, 0, sizeof mu); int_t info = -999; xerbla_calls = 0; int t0 = count_threads_once();
            equed_t equed_in = equed; evcount = 0; vf_count = 0; vf_failed = 0; vf_active = 1;
            PP(gssvx)(nprocs, &opts, &a->M, perm_c, perm_r, &equed, Rv, Cv, &L, &U, &b->M, &X, &rpg, &rcond, ferr, berr, &mu, &info);
            vf_active = 0;
            int t1 = count_threads_settled(t0);
            fprintf(out, "op gssvx\ninfo %ld\nxerbla %d %s %d\nthreads %d %d\n", (long)info, xerbla_calls, xerbla_calls ? xerbla_name : "-", xerbla_arg, t0, t1);
            fprintf(out, "equed %d %d\nusepr_after %d\n", (int)equed_in, (int)equed, (int)opts.usepr);
            fprintf(out, "allocs %ld %ld %s\n", vf_count, vf_failed, vf_first_fail_site);
            dump_events();
            if (xerbla_calls == 0 && fact != FACTORED && lwork != -1 && (info == 0 || (info > 0 && info <= n + 1))) haveLU = 1;
            report_A_B(ai, bi);
            pr_elems("A.val", a->val, a->nnz);
            if (b->nrhs > 0) pr_elems("B", b->val, (long)b->ld * b->nrhs); else fprintf(out, "B 0\n");
            same_report("X.same", xv, xv0, sizeof(elem_t) * (tot - 1));
            if (b->nrhs > 0) pr_elems("X", xv, (long)b->ld * b->nrhs); else fprintf(out, "X 0\n");
            pr_reals("R", Rv, n); pr_reals("C", Cv, n);
            fprintf(out, "rpg %a\nrcond %a\n", (double)rpg, (double)rcond);
            pr_reals("ferr", ferr, b->nrhs > 0 ? b->nrhs : 0); pr_reals("berr", berr, b->nrhs > 0 ? b->nrhs : 0);
            fprintf(out, "mem %a %a %ld\n", (double)mu.for_lu, (double)mu.total_needed, (long)mu.expansions);
            pr_ints("perm_r", perm_r, n); pr_ints("perm_c", perm_c, n);
            if (stale_watch) {
                unsigned char *w = userwork; long touched = 0; for (long i = 0; i < userwork_alloc; i++) if (w[i] != 0x5A) touched++;
                fprintf(out, "stale_touched %ld\n", touched);
                if (haveLU && info >= 0 && info <= n + 1) { SCPformat *Ls = L.Store; NCPformat *Us = U.Store; char *lo = (char *)userwork, *hi = lo + userwork_alloc;
                    int in = (((char *)Ls->nzval >= lo && (char *)Ls->nzval < hi) || ((char *)Ls->rowind >= lo && (char *)Ls->rowind < hi) ||
                              ((char *)Us->nzval >= lo && (char *)Us->nzval < hi) || ((char *)Us->rowind >= lo && (char *)Us->rowind < hi));
                    fprintf(out, "stale_inside %d\n", in); } }
            if (lwork > 0 && userwork) { /* red zones */
                unsigned char *w = userwork; int ok = 1; for (int i = 0; i < REDZ; i++) if (w[i] != 0xA5 || w[REDZ + lwork + i] != 0xA5) ok = 0;
                fprintf(out, "redzone %d\n", ok);
                if (haveLU) { SCPformat *Ls = L.Store; NCPformat *Us = U.Store; char *lo = (char *)userwork + REDZ, *hi = lo + lwork;
                    int inside = ((char *)Ls->nzval >= lo && (char *)Ls->nzval < hi && (char *)Ls->rowind >= lo && (char *)Ls->rowind < hi &&
                                  (char *)Us->nzval >= lo && (char *)Us->nzval < hi && (char *)Us->rowind >= lo && (char *)Us->rowind < hi);
                    fprintf(out, "inside %d\n", inside); } }
            if (haveLU && info >= 0 && info <= n + 1 && lwork != -1) dump_LU(); else fprintf(out, "noLU\n");
            fprintf(out, "end\n");
            SUPERLU_FREE(X.Store); free(xv); free(xv0); free(ferr); free(berr);
        }
        else if (!strcmp(tok, "setequed")) { equed = (equed_t)rd_int(); }
        else if (!strcmp(tok, "setRC")) { int_t n = rd_int(); ensure_perm(n); for (int_t i = 0; i < n; i++) Rv[i] = (real_t)rd_f(); for (int_t i = 0; i < n; i++) Cv[i] = (real_t)rd_f(); }
        else if (!strcmp(tok, "gstrs")) { /* gstrs trans B : solve with the current factors */
            int trans = rd_int(); int bi = rd_int(); dnslot *b = &B_[bi]; Gstat_t G; int_t info = -999; xerbla_calls = 0;
            StatAlloc(b->n, 1, 1, 1, &G); StatInit(b->n, 1, &G);
            P(gstrs)((trans_t)trans, &L, &U, perm_r, perm_c, &b->M, &G, &info);
            StatFree(&G);
            fprintf(out, "op gstrs\ninfo %ld\nxerbla %d %s %d\n", (long)info, xerbla_calls, xerbla_calls ? xerbla_name : "-", xerbla_arg);
            if (b->nrhs > 0) pr_elems("X", b->val, (long)b->ld * b->nrhs); else fprintf(out, "X 0\n");
            fprintf(out, "end\n");
        }
        else if (!strcmp(tok, "destroy")) { free_LU(); if (opts_live) { SUPERLU_FREE(opts.etree); SUPERLU_FREE(opts.colcnt_h); SUPERLU_FREE(opts.part_super_h); opts_live = 0; } fprintf(out, "op destroy\nend\n"); }
        else if (!strcmp(tok, "quit")) break;
        else { fprintf(stderr, "script: unknown op %s\n", tok); return 3; }
    }
    fprintf(out, "done\n"); fclose(out);
    return 0;
}
