/* h_stack.c — drives the REAL user-workspace allocator of p?memory.c (p?gstrf_SetupSpace, ?user_malloc, ?user_free,
 * p?gstrf_WorkInit, p?gstrf_WorkFree) with a scripted sequence of operations; prints every returned block as an offset from
 * the start of the caller's buffer.  The same script is run through the Lean model (sludrv ustack) and the outputs diffed.
 *   h_stack <in> <out>           (compiled once per precision, -DPREC_x)
 * script:  case <id> <maxsuper> <rowblk> <base8> <lwork>    start a case: buffer whose address is = base8 (mod 8)
 *          mh b | mt b | fh b | ft b                        ?user_malloc / ?user_free at HEAD / TAIL
 *          wi k n w                                         worker k: p?gstrf_WorkInit(n, w, ..)
 *          wf k                                             worker k: p?gstrf_WorkFree
 *          probe                                            ?user_malloc(0,HEAD) and (0,TAIL): the two stack pointers
 */
#include <stdio.h>
#include <stdlib.h>
#include <string.h>
#if defined(PREC_s)
#include "slu_mt_sdefs.h"
typedef float elem_t;
#define PP(x) ps##x
#define U(x) s##x
#elif defined(PREC_d)
#include "slu_mt_ddefs.h"
typedef double elem_t;
#define PP(x) pd##x
#define U(x) d##x
#elif defined(PREC_c)
#include "slu_mt_cdefs.h"
typedef complex elem_t;
#define PP(x) pc##x
#define U(x) c##x
#elif defined(PREC_z)
#include "slu_mt_zdefs.h"
typedef doublecomplex elem_t;
#define PP(x) pz##x
#define U(x) z##x
#endif
extern void PP(gstrf_SetupSpace)(void *work, int_t lwork);
extern void *U(user_malloc)(int_t bytes, int_t which_end);
extern void U(user_free)(int_t bytes, int_t which_end);
extern int_t PP(gstrf_WorkInit)(int_t n, int_t panel_size, int_t **iworkptr, elem_t **dworkptr);
extern void PP(gstrf_WorkFree)(int_t *iwork, elem_t *dwork, GlobalLU_t *Glu);
static int_t g_maxsuper = 4, g_rowblk = 4;
int_t sp_ienv(int_t i) { switch (i) { case 1: return 1; case 2: return 1; case 3: return g_maxsuper; case 4: return g_rowblk; case 5: return 2; default: return -20; } }
#define HEAD 0
#define TAIL 1
int main(int argc, char **argv) {
    FILE *in = fopen(argv[1], "r"), *out = fopen(argv[2], "w"); char tok[64];
    /* one arena for every case: a stale stack descriptor of an earlier case still points into it, which is what lets the
       harness recognise blocks that a call WITHOUT caller workspace carved out of an earlier call's buffer */
    const long CAP = 1 << 20; char *raw = malloc(CAP + 96), *arena = (char *)(((unsigned long)raw + 15) & ~15UL), *work = arena;
    int_t *iw[64] = {0}; elem_t *dw[64] = {0}; int sysmode = 0;
    while (fscanf(in, "%63s", tok) == 1) {
        if (!strcmp(tok, "case")) { char id[64]; long ms, rb, b8, lw; fscanf(in, "%63s %ld %ld %ld %ld", id, &ms, &rb, &b8, &lw);
            g_maxsuper = ms; g_rowblk = rb;
            for (int k = 0; k < 64; k++) { if (sysmode && iw[k] && dw[k]) PP(gstrf_WorkFree)(iw[k], dw[k], 0); iw[k] = 0; dw[k] = 0; }
            sysmode = (lw == 0); work = arena + b8;
            if (lw > CAP - 16) return 4;
            PP(gstrf_SetupSpace)(lw > 0 ? work : 0, lw); fprintf(out, "case %s\n", id); }
        else if (!strcmp(tok, "mh") || !strcmp(tok, "mt")) { long b; fscanf(in, "%ld", &b);
            char *p = U(user_malloc)(b, tok[1] == 'h' ? HEAD : TAIL);
            if (p) fprintf(out, "%s %ld\n", tok, (long)(p - work)); else fprintf(out, "%s NULL\n", tok); }
        else if (!strcmp(tok, "fh") || !strcmp(tok, "ft")) { long b; fscanf(in, "%ld", &b); U(user_free)(b, tok[1] == 'h' ? HEAD : TAIL); fprintf(out, "%s\n", tok); }
        else if (!strcmp(tok, "wi")) { long k, n, w; fscanf(in, "%ld %ld %ld", &k, &n, &w);
            iw[k] = 0; dw[k] = 0;
            int_t rc = PP(gstrf_WorkInit)(n, w, &iw[k], &dw[k]);
            int inarena = iw[k] && (char *)iw[k] >= raw && (char *)iw[k] < raw + CAP + 96;
            if (iw[k] && dw[k] && !inarena && rc == 0) { fprintf(out, "wi 0 sys sys\n"); continue; }
            fprintf(out, "wi %ld", (long)rc);
            if (iw[k]) fprintf(out, " %ld", (long)((char *)iw[k] - work)); else fprintf(out, " NULL");
            if (iw[k] && dw[k]) fprintf(out, " %ld", (long)((char *)dw[k] - work)); else fprintf(out, " NULL");
            fputc('\n', out); }
        else if (!strcmp(tok, "wf")) { long k; fscanf(in, "%ld", &k); PP(gstrf_WorkFree)(iw[k], dw[k], 0); iw[k] = 0; dw[k] = 0; fprintf(out, "wf\n"); }
        else if (!strcmp(tok, "probe")) { char *p1 = U(user_malloc)(0, HEAD), *p2 = U(user_malloc)(0, TAIL);
            if (p1 && p2) fprintf(out, "probe %ld %ld\n", (long)(p1 - work), (long)(p2 - work)); else fprintf(out, "probe full\n"); }
        else { fprintf(stderr, "unknown op %s\n", tok); return 3; }
    }
    fprintf(out, "done\n"); fclose(out); return 0;
}
