/* h_sched.c — drives the REAL pxgstrf_relax_snode / ParallelInit / pxgstrf_scheduler single-threaded
 * under a scripted interleaving of simulated workers ("driven scheduler", DESIGN §2.5a).
 *   h_sched <in> <out>
 * input:  case <id> <n> <panel_size> <relax> <nworkers> / <etree n ints> / <nevents> / events:
 *           s <w>   worker w calls the scheduler (with its current finished panel or EMPTY)
 *           f <w>   worker w finishes the panel it holds (release columns, STATE = DONE)
 * output: after init and after every event one line "st <state...> | uk <ukids...> | fb ... | q head tail count | tr | spin | cur/bcol per worker"
 */
#define _GNU_SOURCE
#include <stdio.h>
#include <stdlib.h>
#include <string.h>
#include "slu_mt_ddefs.h"

static void dump(FILE *out, const char *tag, int_t n, pxgstrf_shared_t *S, int nw, int_t *cur, int_t *hold, int_t *bcol) {
    fprintf(out, "%s st", tag); for (int_t i = 0; i <= n; i++) { if (i == n || S->pan_status[i].size > 0) fprintf(out, " %d", (int)S->pan_status[i].state); else fprintf(out, " -"); }
    fprintf(out, " | uk"); for (int_t i = 0; i <= n; i++) fprintf(out, " %ld", (long)S->pan_status[i].ukids);
    fprintf(out, " | q %ld %ld %ld", (long)S->taskq.head, (long)S->taskq.tail, (long)S->taskq.count);
    fprintf(out, " | tr %ld | spin", (long)S->tasks_remain); for (int_t i = 0; i < n; i++) fprintf(out, " %ld", (long)S->spin_locks[i]);
    fprintf(out, " | w"); for (int w = 0; w < nw; w++) fprintf(out, " %ld:%ld:%ld", (long)cur[w], (long)hold[w], (long)bcol[w]);
    fputc('\n', out);
}

int main(int argc, char **argv) {
    FILE *in = fopen(argv[1], "r"), *out = fopen(argv[2], "w"); char tok[64];
    while (fscanf(in, "%63s", tok) == 1) {
        char id[64]; long n, ps, relax, nw;
        if (strcmp(tok, "case") || fscanf(in, "%63s %ld %ld %ld %ld", id, &n, &ps, &relax, &nw) != 5) return 3;
        superlumt_options_t opt; memset(&opt, 0, sizeof opt);
        opt.nprocs = nw; opt.panel_size = ps; opt.relax = relax; opt.etree = intMalloc(n + 1);
        for (long i = 0; i < n; i++) { long v; fscanf(in, "%ld", &v); opt.etree[i] = v; }
        opt.etree[n] = n;
        Gstat_t G; StatAlloc(n, nw, ps, relax, &G); StatInit(n, nw, &G);
        pxgstrf_shared_t S; memset(&S, 0, sizeof S); S.Gstat = &G;
        GlobalLU_t Glu; memset(&Glu, 0, sizeof Glu); S.Glu = &Glu; Glu.map_in_sup = intMalloc(n + 1);
        pxgstrf_relax_t *rl = (pxgstrf_relax_t *)SUPERLU_MALLOC((n + 2) * sizeof(pxgstrf_relax_t));
        pxgstrf_relax_snode(n, &opt, rl);
        fprintf(out, "case %s\nrelax %ld", id, (long)rl[0].size);
        for (long r = 1; r <= rl[0].size; r++) fprintf(out, " %ld:%ld", (long)rl[r].fcol, (long)rl[r].size);
        fputc('\n', out);
        ParallelInit(n, rl, &opt, &S);
        fprintf(out, "init ty"); for (long i = 0; i < n; i++) fprintf(out, " %d", (int)S.pan_status[i].type);
        fprintf(out, " | sz"); for (long i = 0; i <= n; i++) fprintf(out, " %ld", (long)S.pan_status[i].size);
        fprintf(out, " | fb"); for (long i = 0; i < n; i++) { if (S.pan_status[i].size > 0) fprintf(out, " %ld", (long)S.fb_cols[i]); else fprintf(out, " -"); }
        fprintf(out, " | queue"); for (long i = 0; i < S.taskq.tail; i++) fprintf(out, " %ld", (long)S.taskq.queue[i]);
        fprintf(out, " | splits %ld\n", (long)S.num_splits);
        int_t *cur = malloc(sizeof(int_t) * nw), *hold = malloc(sizeof(int_t) * nw), *bcol = malloc(sizeof(int_t) * nw);
        for (long w = 0; w < nw; w++) { cur[w] = EMPTY; hold[w] = EMPTY; bcol[w] = EMPTY; }
        dump(out, "ev0", n, &S, nw, cur, hold, bcol);
        long nev; fscanf(in, "%ld", &nev);
        for (long e = 0; e < nev; e++) {
            char k[8]; long w; fscanf(in, "%7s %ld", k, &w);
            if (k[0] == 's') {
                /* the worker loop: pxgstrf_scheduler(pnum, n, etree, &jcol, &bcol, shared) with jcol = last finished or EMPTY */
                if (hold[w] != EMPTY) { fprintf(out, "bad-event\n"); continue; }
                pxgstrf_scheduler(w, n, opt.etree, &cur[w], &bcol[w], &S);
                hold[w] = cur[w];
            } else if (k[0] == 'f') {
                if (hold[w] == EMPTY) { fprintf(out, "bad-event\n"); continue; }
                int_t j = hold[w], sz = S.pan_status[j].size;
                for (int_t jj = j; jj < j + sz; jj++) S.spin_locks[jj] = 0;
                S.pan_status[j].state = DONE; hold[w] = EMPTY;   /* cur[w] stays: reported at the next scheduler call */
            }
            dump(out, "ev", n, &S, nw, cur, hold, bcol);
        }
        fprintf(out, "queue_final"); for (long i = 0; i < S.taskq.tail; i++) fprintf(out, " %ld", (long)S.taskq.queue[i]);
        fprintf(out, "\nfb_final"); for (long i = 0; i < n; i++) { if (S.pan_status[i].size > 0) fprintf(out, " %ld", (long)S.fb_cols[i]); else fprintf(out, " -"); }
        fputc('\n', out);
        ParallelFinalize(&S); StatFree(&G); SUPERLU_FREE(rl); SUPERLU_FREE(opt.etree); free(cur); free(hold); free(bcol);
    }
    fprintf(out, "done\n"); fclose(out); return 0;
}
