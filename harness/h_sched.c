/* h_sched.c — drives the REAL pxgstrf_relax_snode / ParallelInit / pxgstrf_scheduler single-threaded
 * under a scripted interleaving of simulated workers ("driven scheduler", DESIGN §2.5a).
 *   h_sched <in> <out>
 * input:  case <id> <n> <panel_size> <relax> <nworkers> / <etree n ints> / <nevents> / events:
 *           s <w>   worker w calls the scheduler (with its current finished panel or EMPTY)
 *           f <w>   worker w finishes the panel it holds (release columns, STATE = DONE)
 *         or, instead of <nevents>, a line "auto <seed> <trials>": implementation-side search — random interleavings of the worker
 *         loop of p?gstrf_thread (loop test / scheduler call / finish-when-descendants-released) chosen here, with the
 *         property's monitors applied to the REAL scheduler's state: a panel handed out twice or a non-panel handed out,
 *         tasks_remain != panels not yet handed out, queue indices out of range, a stuck state (fixpoint with unfinished panels),
 *         panels left when all workers have exited.  Prints the failing event list for replay.
 * output: after init and after every event one line "st <state...> | uk <ukids...> | fb ... | q head tail count | tr | spin | cur/bcol per worker"
 */
#define _GNU_SOURCE
#include <stdio.h>
#include <stdlib.h>
#include <string.h>
#include "slu_mt_ddefs.h"

static void dump(FILE *out, const char *tag, int_t n, pxgstrf_shared_t *S, int nw, int_t *cur, int_t *hold, int_t *bcol) {
    fprintf(out, "%s st", tag); for (int_t i = 0; i <= n; i++) { if (i == n || S->pan_status[i].size > 0) fprintf(out, " %d", (int)S->pan_status[i].state); else fprintf(out, " -"); }
    fprintf(out, " | uk"); for (int_t i = 0; i <= n; i++) fprintf(out, " %ld", (long)S->pan_status[i].ukids);
    fprintf(out, " | q %ld %ld %ld", (long)S->taskq.head, (long)S->taskq.tail, (long)S->taskq.count);
    fprintf(out, " | tr %ld | spin", (long)S->tasks_remain); for (int_t i = 0; i < n; i++) fprintf(out, " %ld", (long)S->spin_locks[i]);
    fprintf(out, " | w"); for (int w = 0; w < nw; w++) fprintf(out, " %ld:%ld:%ld", (long)cur[w], (long)hold[w], (long)bcol[w]);
    fputc('\n', out);
}

static unsigned long long rs;
static unsigned rnd(void) { rs = rs * 6364136223846793005ULL + 1442695040888963407ULL; return (unsigned)(rs >> 33); }

/* the wait of a worker on its pipelined descendants (p?gstrf_thread: spins on spin_locks of the busy columns below the panel) */
static int released(int_t n, int_t *etree, pxgstrf_shared_t *S, int_t p, int_t b) {
    if (S->pan_status[p].type == RELAXED_SNODE) return 1;
    int_t k = b, fuel = n + 1;
    while (k < p && fuel-- > 0) { if (S->spin_locks[k]) return 0; k = etree[k]; }
    return 1;
}

static unsigned long shared_sig(int_t n, pxgstrf_shared_t *S) {
    unsigned long h = S->tasks_remain * 31 + S->taskq.head * 7 + S->taskq.tail * 3 + S->taskq.count;
    for (int_t i = 0; i <= n; i++) h = h * 1000003 + S->pan_status[i].state * 5 + S->pan_status[i].ukids;
    return h;
}

/* one random walk; returns 0 ok, else writes the failure kind; evlog receives the events */
static const char *walk(long n, superlumt_options_t *opt, pxgstrf_relax_t *rl, long nw, char *evlog, size_t evcap, long *nevents, long *handed_total) {
    Gstat_t G; StatAlloc(n, nw, opt->panel_size, opt->relax, &G); StatInit(n, nw, &G);
    pxgstrf_shared_t S; memset(&S, 0, sizeof S); S.Gstat = &G;
    GlobalLU_t Glu; memset(&Glu, 0, sizeof Glu); S.Glu = &Glu; Glu.map_in_sup = intMalloc(n + 1);
    ParallelInit(n, rl, opt, &S);
    int_t *cur = malloc(sizeof(int_t) * nw), *hold = malloc(sizeof(int_t) * nw), *bcol = malloc(sizeof(int_t) * nw);
    int *phase = calloc(nw, sizeof(int));   /* 0 head, 1 calling, 2 working, 3 exited */
    int *handed = calloc(n + 1, sizeof(int));
    long npanels = 0; for (long i = 0; i < n; i++) if (S.pan_status[i].size > 0) npanels++;
    for (long w = 0; w < nw; w++) { cur[w] = EMPTY; hold[w] = EMPTY; bcol[w] = EMPTY; }
    const char *fail = NULL; size_t el = 0; evlog[0] = 0; long ev = 0, nh = 0;
    long cap = 400 * n * (nw > 4 ? 4 : nw) + 4000, quiet = 0;
    while (!fail) {
        /* enabled events */
        int en[3 * 64], ne = 0, allexit = 1;
        for (long w = 0; w < nw && w < 64; w++) {
            if (phase[w] != 3) allexit = 0;
            if (phase[w] == 0 || phase[w] == 1) en[ne++] = w;
            else if (phase[w] == 2 && released(n, opt->etree, &S, hold[w], bcol[w])) { en[ne++] = w; en[ne++] = w; }  /* finishing is twice as likely as a poll */
        }
        if (allexit) {
            for (long i = 0; i < n; i++) if (S.pan_status[i].size > 0 && (handed[i] != 1 || S.pan_status[i].state != DONE)) fail = "all-workers-exited-with-panels-left";
            break;
        }
        if (ne == 0) { fail = "stuck:every-worker-waits"; break; }
        if (ev >= cap) { fail = NULL; break; }   /* inconclusive */
        long w = en[rnd() % ne]; unsigned long before = shared_sig(n, &S); int ph0 = phase[w];
        if (phase[w] == 0) {
            phase[w] = S.tasks_remain > 0 ? 1 : 3;
            if (el + 16 < evcap) el += sprintf(evlog + el, "l %ld ", w);
        } else if (phase[w] == 1) {
            pxgstrf_scheduler(w, n, opt->etree, &cur[w], &bcol[w], &S);
            if (el + 16 < evcap) el += sprintf(evlog + el, "s %ld ", w);
            if (cur[w] != EMPTY) {
                int_t j = cur[w];
                if (j < 0 || j >= n || S.pan_status[j].size <= 0) { fail = "scheduler-returned-a-non-panel"; break; }
                if (++handed[j] > 1) { fail = "panel-handed-out-twice"; break; }
                nh++; hold[w] = j; phase[w] = 2;
            } else phase[w] = 0;
            long left = 0; for (long i = 0; i < n; i++) if (S.pan_status[i].size > 0 && !handed[i]) left++;
            if (S.tasks_remain != left) { fail = "tasks_remain!=panels-not-handed-out"; break; }
            if (S.taskq.head < 0 || S.taskq.head > S.taskq.tail || S.taskq.tail > n || S.taskq.count != S.taskq.tail - S.taskq.head) { fail = "queue-indices"; break; }
        } else {
            int_t j = hold[w], sz = S.pan_status[j].size;
            for (int_t jj = j; jj < j + sz; jj++) S.spin_locks[jj] = 0;
            S.pan_status[j].state = DONE; hold[w] = EMPTY; phase[w] = 0;
            if (el + 16 < evcap) el += sprintf(evlog + el, "f %ld ", w);
        }
        ev++;
        /* fixpoint detection: a full round in which no worker changes the shared state and none can finish */
        if (shared_sig(n, &S) == before && !(ph0 == 2)) quiet++; else quiet = 0;
        if (quiet > 6 * nw + 20) {
            int canfinish = 0, waiting = 0;
            for (long x = 0; x < nw; x++) if (phase[x] == 2) { waiting++; if (released(n, opt->etree, &S, hold[x], bcol[x])) canfinish = 1; }
            if (!canfinish) {
                /* deterministic round: every non-working, non-exited worker polls once */
                unsigned long sig = shared_sig(n, &S); int got = 0, live = 0;
                for (long x = 0; x < nw && !got; x++) {
                    if (phase[x] == 3 || phase[x] == 2) continue;
                    live++;
                    if (S.tasks_remain <= 0) { phase[x] = 3; continue; }
                    pxgstrf_scheduler(x, n, opt->etree, &cur[x], &bcol[x], &S);
                    if (el + 16 < evcap) el += sprintf(evlog + el, "l %ld s %ld ", x, x);
                    if (cur[x] != EMPTY) { got = 1; int_t j = cur[x]; if (j < 0 || j >= n || S.pan_status[j].size <= 0) { fail = "scheduler-returned-a-non-panel"; break; }
                        if (++handed[j] > 1) { fail = "panel-handed-out-twice"; break; } nh++; hold[x] = j; phase[x] = 2; }
                    else phase[x] = 0;
                }
                if (!fail && !got && sig == shared_sig(n, &S) && S.tasks_remain > 0 && (waiting > 0 || live > 0)) {
                    int any_unfinished = 0; for (long i = 0; i < n; i++) if (S.pan_status[i].size > 0 && S.pan_status[i].state != DONE) any_unfinished = 1;
                    if (any_unfinished && !canfinish) { fail = "stuck:fixpoint-with-unfinished-panels"; break; }
                }
            }
            quiet = 0;
        }
    }
    *nevents = ev; *handed_total = nh;
    ParallelFinalize(&S); StatFree(&G); free(cur); free(hold); free(bcol); free(phase); free(handed);
    return fail;
}

int main(int argc, char **argv) {
    FILE *in = fopen(argv[1], "r"), *out = fopen(argv[2], "w"); char tok[64];
    while (fscanf(in, "%63s", tok) == 1) {
        char id[64]; long n, ps, relax, nw;
        if (strcmp(tok, "case") || fscanf(in, "%63s %ld %ld %ld %ld", id, &n, &ps, &relax, &nw) != 5) return 3;
        superlumt_options_t opt; memset(&opt, 0, sizeof opt);
        opt.nprocs = nw; opt.panel_size = ps; opt.relax = relax; opt.etree = intMalloc(n + 1);
        for (long i = 0; i < n; i++) { long v; fscanf(in, "%ld", &v); opt.etree[i] = v; }
        opt.etree[n] = n;
        Gstat_t G; StatAlloc(n, nw, ps, relax, &G); StatInit(n, nw, &G);
        pxgstrf_shared_t S; memset(&S, 0, sizeof S); S.Gstat = &G;
        GlobalLU_t Glu; memset(&Glu, 0, sizeof Glu); S.Glu = &Glu; Glu.map_in_sup = intMalloc(n + 1);
        pxgstrf_relax_t *rl = (pxgstrf_relax_t *)SUPERLU_MALLOC((n + 2) * sizeof(pxgstrf_relax_t));
        pxgstrf_relax_snode(n, &opt, rl);
        fprintf(out, "case %s\nrelax %ld", id, (long)rl[0].size);
        for (long r = 1; r <= rl[0].size; r++) fprintf(out, " %ld:%ld", (long)rl[r].fcol, (long)rl[r].size);
        fputc('\n', out);
        ParallelInit(n, rl, &opt, &S);
        fprintf(out, "init ty"); for (long i = 0; i < n; i++) fprintf(out, " %d", (int)S.pan_status[i].type);
        fprintf(out, " | sz"); for (long i = 0; i <= n; i++) fprintf(out, " %ld", (long)S.pan_status[i].size);
        fprintf(out, " | fb"); for (long i = 0; i < n; i++) { if (S.pan_status[i].size > 0) fprintf(out, " %ld", (long)S.fb_cols[i]); else fprintf(out, " -"); }
        fprintf(out, " | queue"); for (long i = 0; i < S.taskq.tail; i++) fprintf(out, " %ld", (long)S.taskq.queue[i]);
        fprintf(out, " | splits %ld\n", (long)S.num_splits);
        int_t *cur = malloc(sizeof(int_t) * nw), *hold = malloc(sizeof(int_t) * nw), *bcol = malloc(sizeof(int_t) * nw);
        for (long w = 0; w < nw; w++) { cur[w] = EMPTY; hold[w] = EMPTY; bcol[w] = EMPTY; }
        dump(out, "ev0", n, &S, nw, cur, hold, bcol);
        char nt[32]; long nev = 0; fscanf(in, "%31s", nt);
        if (!strcmp(nt, "auto")) {
            long seed, trials; fscanf(in, "%ld %ld", &seed, &trials);
            static char evlog[1 << 16]; long tev = 0, th = 0, inconcl = 0; const char *f = NULL; long ft = -1;
            for (long t = 0; t < trials && !f; t++) {
                rs = (unsigned long long)seed * 1000003ULL + t; long e1, h1;
                f = walk(n, &opt, rl, nw, evlog, sizeof evlog, &e1, &h1); tev += e1; th += h1; if (f) ft = t;
            }
            fprintf(out, "auto trials=%ld events=%ld handed=%ld result=%s", trials, tev, th, f ? f : "ok");
            if (f) fprintf(out, " trial=%ld history= %s", ft, evlog);
            fputc('\n', out);
            ParallelFinalize(&S); StatFree(&G); SUPERLU_FREE(rl); SUPERLU_FREE(opt.etree); free(cur); free(hold); free(bcol);
            continue;
        }
        nev = atol(nt);
        for (long e = 0; e < nev; e++) {
            char k[8]; long w; fscanf(in, "%7s %ld", k, &w);
            if (k[0] == 's') {
                /* the worker loop: pxgstrf_scheduler(pnum, n, etree, &jcol, &bcol, shared) with jcol = last finished or EMPTY */
                if (hold[w] != EMPTY) { fprintf(out, "bad-event\n"); continue; }
                pxgstrf_scheduler(w, n, opt.etree, &cur[w], &bcol[w], &S);
                hold[w] = cur[w];
            } else if (k[0] == 'f') {
                if (hold[w] == EMPTY) { fprintf(out, "bad-event\n"); continue; }
                int_t j = hold[w], sz = S.pan_status[j].size;
                for (int_t jj = j; jj < j + sz; jj++) S.spin_locks[jj] = 0;
                S.pan_status[j].state = DONE; hold[w] = EMPTY;   /* cur[w] stays: reported at the next scheduler call */
            }
            dump(out, "ev", n, &S, nw, cur, hold, bcol);
        }
        fprintf(out, "queue_final"); for (long i = 0; i < S.taskq.tail; i++) fprintf(out, " %ld", (long)S.taskq.queue[i]);
        fprintf(out, "\nfb_final"); for (long i = 0; i < n; i++) { if (S.pan_status[i].size > 0) fprintf(out, " %ld", (long)S.fb_cols[i]); else fprintf(out, " -"); }
        fputc('\n', out);
        ParallelFinalize(&S); StatFree(&G); SUPERLU_FREE(rl); SUPERLU_FREE(opt.etree); free(cur); free(hold); free(bcol);
    }
    fprintf(out, "done\n"); fclose(out); return 0;
}
