/* h_rfs.c — C13 harness: the real ?gsrfs called directly on the state left by a base phase (h_drv script:
 * mat / rhs / permc_get / gssvx / setequed / setRC ...; see h_cr_common.h).  Every ?gstrs and ?lacon_ call that
 * ?gsrfs makes is logged by the wrappers (gs / lc lines), which gives the number of corrections and the whole
 * forward-error dialogue.
 *
 * extension ops:
 *   gsrfs trans Aslot Bslot Xslot      ?gsrfs(trans, A, L, U, perm_r, perm_c, equed, R, C, B, X, ferr, berr, &Gstat, &info)
 *                                      -> gs / lc log lines, info, xerbla, ferr, berr, X, B.same, A.same
 *   consts                             -> eps, safmin as the library's ?lamch returns them
 *   quit
 */
#include "h_cr_common.h"

#if defined(PREC_s) || defined(PREC_c)
extern double slamch_(char *);
#define LAMCH slamch_
#else
extern double dlamch_(char *);
#define LAMCH dlamch_
#endif

int main(int argc, char **argv) {
    if (argc < 5) { fprintf(stderr, "usage: %s base_script base_out ext_script ext_out [log]\n", argv[0]); return 2; }
    int rc = base_phase(argv[1], argv[2], argc > 5);
    if (rc) return rc;
    if (ext_open(argv[3], argv[4])) return 2;
    while (next_tok()) {
        if (!strcmp(tok, "gsrfs")) {
            int trans = rd_int(); int ai = rd_int(), bi = rd_int(), xi = rd_int();
            matslot *a = &A_[ai]; dnslot *b = &B_[bi], *x = &B_[xi];
            int nrhs = b->nrhs > 0 ? b->nrhs : 0;
            real_t *ferr = malloc(sizeof(real_t) * (nrhs + 1)), *berr = malloc(sizeof(real_t) * (nrhs + 1));
            for (int i = 0; i <= nrhs; i++) ferr[i] = berr[i] = -1;
            Gstat_t G; int_t info = -999; xerbla_calls = 0;
            StatAlloc(a->n, 1, 1, 1, &G); StatInit(a->n, 1, &G);
            fprintf(out, "op gsrfs %d\n", trans);
            log_on = 1; n_gstrs_calls = 0; n_lacon_calls = 0;
            P(gsrfs)((trans_t)trans, &a->M, &L, &U, perm_r, perm_c, equed, Rv, Cv, &b->M, &x->M, ferr, berr, &G, &info);
            log_on = 0;
            StatFree(&G);
            fprintf(out, "info %ld\nxerbla %d %s %d\nncalls %ld %ld\n", (long)info, xerbla_calls, xerbla_calls ? xerbla_name : "-", xerbla_arg,
                    n_gstrs_calls, n_lacon_calls);
            pr_reals("ferr", ferr, nrhs); pr_reals("berr", berr, nrhs);
            if (nrhs > 0) pr_elems("X", x->val, (long)x->ld * nrhs); else fprintf(out, "X 0\n");
            same_report("B.same", b->val, b->val0, sizeof(elem_t) * b->ld * nrhs);
            same_report("A.val.same", a->val, a->val0, sizeof(elem_t) * a->nnz);
            fprintf(out, "end\n");
            free(ferr); free(berr);
        }
        else if (!strcmp(tok, "consts")) {
            fprintf(out, "op consts\neps %a\nsafmin %a\nend\n", (double)LAMCH("Epsilon"), (double)LAMCH("Safe minimum"));
        }
        else if (!strcmp(tok, "quit")) break;
        else { fprintf(stderr, "ext script: unknown op %s\n", tok); return 3; }
    }
    fprintf(out, "done\n"); fclose(out);
    return 0;
}
