/* ws_race.c — real threads on the real user-workspace allocator: P threads call psgstrf_WorkInit at the same moment on a fresh
 * user stack (single precision: the real work array of n*w + max(2n,(maxsuper+rowblk)w) floats is misaligned for odd counts),
 * some of them call psgstrf_WorkFree at once and a late thread starts afterwards.  Any two live blocks that overlap, or a block
 * outside the buffer, is reported.   ws_race <trials> <n> <w> <P> <lwork>   exit 0 = none, 1 = overlap found */
#include <stdio.h>
#include <stdlib.h>
#include <pthread.h>
#include <string.h>
#include "slu_mt_sdefs.h"
extern void psgstrf_SetupSpace(void *work, int_t lwork);
extern int_t psgstrf_WorkInit(int_t n, int_t panel_size, int_t **iworkptr, float **dworkptr);
extern void psgstrf_WorkFree(int_t *iwork, float *dwork, GlobalLU_t *Glu);
int_t sp_ienv(int_t i){ switch(i){case 1: return 1; case 2: return 1; case 3: return 4; case 4: return 4; case 5: return 2; default: return -20;} }
#define MAXT 16
static pthread_barrier_t bar;
static int_t *iw[MAXT]; static float *dw[MAXT]; static int n = 5, w = 1, NT = 4;
static int early[MAXT];
static void *thr(void *a){ long i=(long)a; if (i < NT - 1) pthread_barrier_wait(&bar);
  psgstrf_WorkInit(n, w, &iw[i], &dw[i]);
  return 0; }
int main(int argc, char **argv){
  long trials = argc > 1 ? atol(argv[1]) : 20000; if (argc > 2) n = atoi(argv[2]); if (argc > 3) w = atoi(argv[3]); if (argc > 4) NT = atoi(argv[4]);
  long lwork = argc > 5 ? atol(argv[5]) : 65536;
  long isize = (2*w+8)*n*4, dsize = (n*w + (2*n > 8*w ? 2*n : 8*w))*4;
  char *work = malloc(lwork + 64); long bad=0;
  for(long t=0;t<trials && bad < 5;t++){
    psgstrf_SetupSpace(work, lwork);
    pthread_barrier_init(&bar,0,NT-1); pthread_t th[MAXT];
    memset(iw,0,sizeof iw); memset(dw,0,sizeof dw);
    for(long i=0;i<NT-1;i++) pthread_create(&th[i],0,thr,(void*)i);
    for(long i=0;i<NT-1;i++) pthread_join(th[i],0);
    /* worker 0 leaves, then a late worker starts (the history of defect F10) */
    if (iw[0] && dw[0]) { psgstrf_WorkFree(iw[0], dw[0], 0); iw[0] = 0; dw[0] = 0; }
    pthread_create(&th[NT-1],0,thr,(void*)(long)(NT-1)); pthread_join(th[NT-1],0);
    for(int i=0;i<NT;i++) { if(!iw[i]||!dw[i]) continue;
      char *blk[2] = {(char*)iw[i], (char*)dw[i]}; long len[2] = {isize, dsize};
      for (int a=0;a<2;a++) if (blk[a] < work || blk[a] + len[a] > work + lwork) { if(bad<3) printf("trial %ld: block of worker %d outside the buffer [%ld,%ld)\n", t, i, (long)(blk[a]-work), (long)(blk[a]-work+len[a])); bad++; }
      if (blk[0] < blk[1] + len[1] && blk[1] < blk[0] + len[0]) { if(bad<3) printf("trial %ld: worker %d's own arrays overlap\n", t, i); bad++; }
      for(int j=i+1;j<NT;j++){ if(!iw[j]||!dw[j]) continue;
        char *bl2[2] = {(char*)iw[j], (char*)dw[j]};
        for (int a=0;a<2;a++) for (int b=0;b<2;b++) if (blk[a] < bl2[b] + len[b] && bl2[b] < blk[a] + len[a]) {
          if(bad<3) printf("trial %ld: worker %d %s=[%ld,%ld) overlaps worker %d %s=[%ld,%ld)\n", t, i, a?"dwork":"iwork", (long)(blk[a]-work), (long)(blk[a]-work+len[a]), j, b?"dwork":"iwork", (long)(bl2[b]-work), (long)(bl2[b]-work+len[b])); bad++; } } }
    pthread_barrier_destroy(&bar);
  }
  printf("overlaps=%ld trials=%ld isize=%ld dsize=%ld P=%d lwork=%ld\n", bad, trials, isize, dsize, NT, lwork); return bad?1:0; }
