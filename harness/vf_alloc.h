/* force-included into every library source of the `fault` flavour: routes the library's existing
   override points (slu_mt_util.h: USER_MALLOC / USER_FREE / USER_ABORT) to the harness */
#ifndef VF_ALLOC_H
#define VF_ALLOC_H
#include <stddef.h>
extern void *vf_malloc(size_t size, const char *file, int line);
extern void vf_free(void *p);
extern void vf_abort(const char *msg);
#define USER_MALLOC(size) vf_malloc((size), __FILE__, __LINE__)
#define USER_FREE(addr) vf_free(addr)
#define USER_ABORT(msg) vf_abort(msg)
#endif
