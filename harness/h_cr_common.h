/* h_cr_common.h — shared part of h_con.c (C12) and h_rfs.c (C13).
 *
 * The whole of h_drv.c is included with its `main` renamed: its statics (matrix / rhs slots, the persistent
 * L, U, perm_c, perm_r, equed, R, C, the printers and the script reader) are reused, and a "base phase"
 * runs an ordinary h_drv script (mat / rhs / permc_get / gssvx / ...) through h_drv's own op loop.  After
 * that the extension ops of the including harness operate on the state the base phase left behind.
 *
 *   h_con_<p> <base_script> <base_out> <ext_script> <ext_out> [log]
 *
 * Link with  -Wl,--wrap=?lacon_ -Wl,--wrap=?gstrs : every call the library makes to the estimator and to
 * the triangular solve passes through the loggers below (the real routines do the work).
 */
#define main h_drv_main
#include "h_drv.c"
#undef main

#if defined(PREC_s)
#define REAL_LACON __real_slacon_
#define WRAP_LACON __wrap_slacon_
#define REAL_GSTRS __real_sgstrs
#define WRAP_GSTRS __wrap_sgstrs
#define IS_CPLX 0
#elif defined(PREC_d)
#define REAL_LACON __real_dlacon_
#define WRAP_LACON __wrap_dlacon_
#define REAL_GSTRS __real_dgstrs
#define WRAP_GSTRS __wrap_dgstrs
#define IS_CPLX 0
#elif defined(PREC_c)
#define REAL_LACON __real_clacon_
#define WRAP_LACON __wrap_clacon_
#define REAL_GSTRS __real_cgstrs
#define WRAP_GSTRS __wrap_cgstrs
#define IS_CPLX 1
#else
#define REAL_LACON __real_zlacon_
#define WRAP_LACON __wrap_zlacon_
#define REAL_GSTRS __real_zgstrs
#define WRAP_GSTRS __wrap_zgstrs
#define IS_CPLX 1
#endif

extern real_t P(langs)(char *, SuperMatrix *);

static int log_on = 0;
static long n_lacon_calls = 0, n_gstrs_calls = 0;

#if IS_CPLX
extern int_t REAL_LACON(int_t *n, elem_t *v, elem_t *x, real_t *est, int_t *kase);
int_t WRAP_LACON(int_t *n, elem_t *v, elem_t *x, real_t *est, int_t *kase) {
    int_t kin = *kase;
    int_t r = REAL_LACON(n, v, x, est, kase);
#else
extern int_t REAL_LACON(int_t *n, elem_t *v, elem_t *x, int_t *isgn, real_t *est, int_t *kase);
int_t WRAP_LACON(int_t *n, elem_t *v, elem_t *x, int_t *isgn, real_t *est, int_t *kase) {
    int_t kin = *kase;
    int_t r = REAL_LACON(n, v, x, isgn, est, kase);
#endif
    n_lacon_calls++;
    if (log_on && out) {
        fprintf(out, "lc %ld %ld %a", (long)kin, (long)*kase, (double)*est);
        const real_t *p = (const real_t *)x;
        for (long i = 0; i < (long)*n * NCOMP; i++) fprintf(out, " %a", (double)p[i]);
        fputc('\n', out);
    }
    return r;
}

extern void REAL_GSTRS(trans_t trans, SuperMatrix *L, SuperMatrix *U, int_t *perm_r, int_t *perm_c, SuperMatrix *B, Gstat_t *Gstat, int_t *info);
void WRAP_GSTRS(trans_t trans, SuperMatrix *L, SuperMatrix *U, int_t *perm_r, int_t *perm_c, SuperMatrix *B, Gstat_t *Gstat, int_t *info) {
    DNformat *Bs = B->Store; long cnt = (long)B->nrow * NCOMP;
    int one = (B->ncol == 1);
    n_gstrs_calls++;
    if (log_on && out && one) {
        fprintf(out, "gs %d in", (int)trans);
        const real_t *p = (const real_t *)Bs->nzval;
        for (long i = 0; i < cnt; i++) fprintf(out, " %a", (double)p[i]);
        fputc('\n', out);
    } else if (log_on && out) fprintf(out, "gsm %d %ld\n", (int)trans, (long)B->ncol);
    REAL_GSTRS(trans, L, U, perm_r, perm_c, B, Gstat, info);
    if (log_on && out && one) {
        fprintf(out, "gs %d out %ld", (int)trans, (long)*info);
        const real_t *p = (const real_t *)Bs->nzval;
        for (long i = 0; i < cnt; i++) fprintf(out, " %a", (double)p[i]);
        fputc('\n', out);
    }
}

/* run the base phase: an ordinary h_drv script */
static int base_phase(char *script, char *outp, int logit) {
    char *av[3] = { "h_drv", script, outp };
    log_on = logit;
    int rc = h_drv_main(3, av);
    log_on = 0;
    return rc;
}

static int ext_open(char *script, char *outp) {
    in = fopen(script, "r"); out = fopen(outp, "w");
    if (!in || !out) { perror("open ext"); return 2; }
    setvbuf(out, 0, _IOLBF, 0);
    return 0;
}
