/* h_pre.c — script-driven harness around the REAL preprocessing routines (property C10):
 *   get_perm_c, sp_colorder (which calls sp_coletree / sp_symetree / TreePostorder / qrnzcnt /
 *   cholnzcnt / at_plus_a), and sp_coletree, sp_symetree, TreePostorder called directly.
 * Precision independent apart from the SuperMatrix Dtype: double is used.
 *
 *   h_pre <script> <out>
 *
 * script (integers only; the SAME text is read by `sludrv pre`):
 *   case M N NNZ  colptr[N+1]  rowind[NNZ]
 *     getperm   OPID ISPEC
 *     coletree  OPID REF            (REF is only meaningful to the model: also print the reference)
 *     symetree  OPID REF            (square only)
 *     postorder OPID K parent[K]    (any forest on K vertices, root's parent = K)
 *     colorder  OPID SYMM REFACT N perm_c[N]
 *   end
 *   quit
 * output lines: "<key> OPID <count> v..." ; library chatter goes to stdout and is not part of the protocol.
 */
#define _GNU_SOURCE
#include <stdio.h>
#include <stdlib.h>
#include <string.h>
#include "slu_mt_ddefs.h"

int xerbla_(char *srname, int *info) { fprintf(stderr, "xerbla %s %d\n", srname, *info); return 0; }

static FILE *in, *out;
static char tok[4096];
static int next_tok(void) { return fscanf(in, "%4095s", tok) == 1; }
static long rd_int(void) { if (!next_tok()) { fprintf(stderr, "script: eof\n"); exit(3);} return strtol(tok, 0, 10); }
static void rd_id(char *id) { if (!next_tok()) { fprintf(stderr, "script: eof\n"); exit(3);} strncpy(id, tok, 63); id[63] = 0; }

static void pr_ints(const char *k, const char *id, const int_t *a, long n) {
    fprintf(out, "%s %s %ld", k, id, n); for (long i = 0; i < n; i++) fprintf(out, " %ld", (long)a[i]); fputc('\n', out);
}

int main(int argc, char **argv) {
    if (argc < 3) { fprintf(stderr, "usage: h_pre script out\n"); return 2; }
    in = fopen(argv[1], "r"); out = fopen(argv[2], "w");
    if (!in || !out) { perror("open"); return 2; }
    int_t m = 0, n = 0, nnz = 0, *colptr = 0, *rowind = 0; double *nzval = 0;
    int_t *colptr0 = 0, *rowind0 = 0; double *nzval0 = 0;
    SuperMatrix A; int haveA = 0;
    char id[64];
    while (next_tok()) {
        if (!strcmp(tok, "quit")) break;
        if (!strcmp(tok, "case")) {
            m = rd_int(); n = rd_int(); nnz = rd_int();
            colptr = malloc(sizeof(int_t) * (n + 1)); rowind = malloc(sizeof(int_t) * (nnz + 1)); nzval = malloc(sizeof(double) * (nnz + 1));
            colptr0 = malloc(sizeof(int_t) * (n + 1)); rowind0 = malloc(sizeof(int_t) * (nnz + 1)); nzval0 = malloc(sizeof(double) * (nnz + 1));
            for (int_t i = 0; i <= n; i++) colptr0[i] = colptr[i] = rd_int();
            for (int_t i = 0; i < nnz; i++) { rowind0[i] = rowind[i] = rd_int(); nzval0[i] = nzval[i] = 1.0 + (double)(i % 7); }
            dCreate_CompCol_Matrix(&A, m, n, nnz, nzval, rowind, colptr, SLU_NC, SLU_D, SLU_GE);
            haveA = 1;
            fprintf(out, "case %ld %ld %ld\n", (long)m, (long)n, (long)nnz);
        } else if (!strcmp(tok, "end")) {
            if (haveA) { SUPERLU_FREE(A.Store); free(colptr); free(rowind); free(nzval); free(colptr0); free(rowind0); free(nzval0); haveA = 0; }
            fprintf(out, "end\n");
        } else if (!strcmp(tok, "getperm")) {
            rd_id(id); int ispec = (int)rd_int();
            int_t *pc = malloc(sizeof(int_t) * (n + 1));
            for (int_t i = 0; i <= n; i++) pc[i] = -99;
            get_perm_c(ispec, &A, pc);
            char key[32]; snprintf(key, 32, "getperm%d", ispec);
            pr_ints(key, id, pc, n);
            fprintf(out, "getperm.guard %s 1 %ld\n", id, (long)pc[n]);
            free(pc);
        } else if (!strcmp(tok, "coletree")) {
            rd_id(id); (void)rd_int();
            int_t *par = malloc(sizeof(int_t) * (n + 1));
            for (int_t i = 0; i <= n; i++) par[i] = -99;
            sp_coletree(colptr, colptr + 1, rowind, m, n, par);
            pr_ints("coletree", id, par, n);
            free(par);
        } else if (!strcmp(tok, "symetree")) {
            rd_id(id); (void)rd_int();
            int_t *par = malloc(sizeof(int_t) * (n + 1));
            for (int_t i = 0; i <= n; i++) par[i] = -99;
            sp_symetree(colptr, colptr + 1, rowind, n, par);
            pr_ints("symetree", id, par, n);
            free(par);
        } else if (!strcmp(tok, "postorder")) {
            rd_id(id); int_t k = rd_int();
            int_t *par = malloc(sizeof(int_t) * (k + 1));
            for (int_t i = 0; i < k; i++) par[i] = rd_int();
            int_t *post = TreePostorder(k, par);
            pr_ints("postorder", id, post, k + 1);
            SUPERLU_FREE(post); free(par);
        } else if (!strcmp(tok, "colorder")) {
            rd_id(id); int symm = (int)rd_int(); int refact = (int)rd_int(); int_t k = rd_int();
            int_t *pc = malloc(sizeof(int_t) * (k + 1));
            for (int_t i = 0; i < k; i++) pc[i] = rd_int();
            superlumt_options_t o; memset(&o, 0, sizeof o);
            o.nprocs = 1; o.refact = refact ? YES : NO; o.SymmetricMode = symm ? YES : NO; o.PrintStat = NO;
            o.fact = DOFACT; o.trans = NOTRANS; o.panel_size = 1; o.relax = 1; o.diag_pivot_thresh = 1.0; o.usepr = NO;
            o.perm_c = pc;
            /* the three structural arrays are the caller's (pdgstrf_init allocates them with intMalloc(ncol)) */
            o.etree = intMalloc(n + 1); o.colcnt_h = intMalloc(n + 1); o.part_super_h = intMalloc(n + 1);
            for (int_t i = 0; i <= n; i++) { o.etree[i] = -7 - i; o.colcnt_h[i] = -7 - i; o.part_super_h[i] = -7 - i; }
            SuperMatrix AC; memset(&AC, 0, sizeof AC);
            sp_colorder(&A, pc, &o, &AC);
            NCPformat *S = AC.Store; NCformat *As = A.Store;
            int shared = (S->rowind == As->rowind) && (S->nzval == As->nzval) && (As->rowind == rowind) && (As->nzval == (void *)nzval) && (As->colptr == colptr);
            int asame = !memcmp(colptr, colptr0, sizeof(int_t) * (n + 1)) && !memcmp(rowind, rowind0, sizeof(int_t) * nnz) && !memcmp(nzval, nzval0, sizeof(double) * nnz)
                        && A.nrow == m && A.ncol == n && As->nnz == nnz && A.Stype == SLU_NC;
            int guard = (o.etree[n] == -7 - n) && (o.colcnt_h[n] == -7 - n) && (o.part_super_h[n] == -7 - n);
            fprintf(out, "co.hdr %s 10 %d %d %d %ld %ld %ld %d %d %d %d\n", id, (int)AC.Stype, (int)AC.Dtype, (int)AC.Mtype,
                    (long)AC.nrow, (long)AC.ncol, (long)S->nnz, shared, asame, guard, refact);
            pr_ints("co.etree", id, o.etree, n);
            pr_ints("co.permc", id, pc, n);
            pr_ints("co.colbeg", id, S->colbeg, n);
            pr_ints("co.colend", id, S->colend, n);
            pr_ints("co.part", id, o.part_super_h, n);
            pr_ints("co.colcnt", id, o.colcnt_h, n);
            SUPERLU_FREE(S->colbeg); SUPERLU_FREE(S->colend); free(S);
            SUPERLU_FREE(o.etree); SUPERLU_FREE(o.colcnt_h); SUPERLU_FREE(o.part_super_h); free(pc);
        } else { fprintf(stderr, "script: unknown op %s\n", tok); return 3; }
        fflush(out);
    }
    fprintf(out, "done\n");
    fclose(out);
    return 0;
}
