/* h_equil.c — script-driven harness around the real ?gsequ / ?laqgs (property C11).
 * Compiled once per precision with -DPREC_s | -DPREC_d | -DPREC_c | -DPREC_z (macro scheme of h_drv.c)
 * and linked against libslu.a built from /repo's current working tree.
 *
 *   h_equil_<p> <script> <out>
 *
 * ops (floating values are C99 hex floats in the script; `%a` in the output):
 *   consts
 *        -> "consts smlnum bignum small large eps prec"  computed with the library's ?lamch exactly the
 *           way ?gsequ / ?laqgs compute them (same expression, same type)
 *   gsequ typeok m n nnz colptr[n+1] rowind[nnz] vals[nnz*NCOMP] r0 c0 rowcnd0 colcnd0 amax0
 *        r, c are pre-filled with r0 / c0 and the three scalars with the given sentinels, so that
 *        "not written" is observable.  typeok=0 flips Stype to SLU_NR to provoke info = -1.
 *   laqgs m n nnz colptr[n+1] rowind[nnz] vals[..] R[m] C[n] rowcnd colcnd amax equed0
 */
#define _GNU_SOURCE
#include <stdio.h>
#include <stdlib.h>
#include <string.h>
#include <math.h>

#if defined(PREC_s)
#include "slu_mt_sdefs.h"
typedef float elem_t; typedef float real_t;
#define NCOMP 1
#define DT SLU_S
#define P(x) s##x
#define LAMCH slamch_
#elif defined(PREC_d)
#include "slu_mt_ddefs.h"
typedef double elem_t; typedef double real_t;
#define NCOMP 1
#define DT SLU_D
#define P(x) d##x
#define LAMCH dlamch_
#elif defined(PREC_c)
#include "slu_mt_cdefs.h"
typedef complex elem_t; typedef float real_t;
#define NCOMP 2
#define DT SLU_C
#define P(x) c##x
#define LAMCH slamch_
#elif defined(PREC_z)
#include "slu_mt_zdefs.h"
typedef doublecomplex elem_t; typedef double real_t;
#define NCOMP 2
#define DT SLU_Z
#define P(x) z##x
#define LAMCH dlamch_
#else
#error "define PREC_s|d|c|z"
#endif

extern double LAMCH(char *);
extern void P(gsequ)(SuperMatrix *, real_t *, real_t *, real_t *, real_t *, real_t *, int_t *);
extern void P(laqgs)(SuperMatrix *, real_t *, real_t *, real_t, real_t, real_t, equed_t *);

static char xerbla_name[64]; static int xerbla_arg = 0; static int xerbla_calls = 0;
int xerbla_(char *srname, int *info) { strncpy(xerbla_name, srname, 63); xerbla_arg = *info; xerbla_calls++; return 0; }

static FILE *in, *out;
static char tok[4096];
static int next_tok(void) { return fscanf(in, "%4095s", tok) == 1; }
static long rd_int(void) { if (!next_tok()) { fprintf(stderr, "script: eof\n"); exit(3);} return strtol(tok, 0, 10); }
static double rd_f(void) { if (!next_tok()) { fprintf(stderr, "script: eof\n"); exit(3);} return strtod(tok, 0); }
static void pr_real(real_t x) { fprintf(out, " %a", (double)x); }
static void pr_reals(const char *k, const real_t *a, long n) { fprintf(out, "%s %ld", k, n); for (long i = 0; i < n; i++) pr_real(a[i]); fputc('\n', out); }

typedef struct { int_t m, n, nnz; int_t *ptr, *ind; elem_t *val; SuperMatrix M; } mat_t;
static void rd_mat(mat_t *a) {
    a->m = rd_int(); a->n = rd_int(); a->nnz = rd_int();
    a->ptr = malloc(sizeof(int_t) * (a->n + 2)); a->ind = malloc(sizeof(int_t) * (a->nnz + 1)); a->val = malloc(sizeof(elem_t) * (a->nnz + 1));
    for (int_t i = 0; i <= a->n; i++) a->ptr[i] = rd_int();
    for (int_t i = 0; i < a->nnz; i++) a->ind[i] = rd_int();
    real_t *r = (real_t *)a->val; for (long i = 0; i < (long)a->nnz * NCOMP; i++) r[i] = (real_t)rd_f();
    P(Create_CompCol_Matrix)(&a->M, a->m, a->n, a->nnz, a->val, a->ind, a->ptr, SLU_NC, DT, SLU_GE);
}
static void free_mat(mat_t *a) { free(a->ptr); free(a->ind); free(a->val); SUPERLU_FREE(a->M.Store); }

#define GUARD ((real_t)-12345.0)

int main(int argc, char **argv) {
    if (argc < 3) { fprintf(stderr, "usage: %s script out\n", argv[0]); return 2; }
    in = fopen(argv[1], "r"); out = fopen(argv[2], "w");
    if (!in || !out) { perror("open"); return 2; }
    while (next_tok()) {
        if (!strcmp(tok, "consts")) {
            /* ?gsequ:  smlnum = ?lamch_("S"); bignum = 1. / smlnum;          (locals of type real_t)
               ?laqgs:  small = ?lamch_("Safe minimum") / ?lamch_("Precision"); large = 1. / small; */
            real_t smlnum = LAMCH("S"); real_t bignum = 1. / smlnum;
            real_t small = LAMCH("Safe minimum") / LAMCH("Precision"); real_t large = 1. / small;
            real_t eps = LAMCH("E"); real_t prec = LAMCH("P");
            fprintf(out, "consts"); pr_real(smlnum); pr_real(bignum); pr_real(small); pr_real(large); pr_real(eps); pr_real(prec); fputc('\n', out);
        }
        else if (!strcmp(tok, "gsequ")) {
            int typeok = rd_int(); mat_t a; rd_mat(&a);
            real_t r0 = (real_t)rd_f(), c0 = (real_t)rd_f(); real_t rowcnd = (real_t)rd_f(), colcnd = (real_t)rd_f(), amax = (real_t)rd_f();
            real_t *r = malloc(sizeof(real_t) * (a.m + 2)), *c = malloc(sizeof(real_t) * (a.n + 2));
            for (int_t i = 0; i < a.m; i++) r[i] = r0; r[a.m] = GUARD;
            for (int_t j = 0; j < a.n; j++) c[j] = c0; c[a.n] = GUARD;
            if (!typeok) a.M.Stype = SLU_NR;
            int_t info = -999; xerbla_calls = 0; xerbla_arg = 0;
            P(gsequ)(&a.M, r, c, &rowcnd, &colcnd, &amax, &info);
            fprintf(out, "op gsequ\ninfo %ld\nxerbla %d %d\n", (long)info, xerbla_calls, xerbla_arg);
            fprintf(out, "scal"); pr_real(rowcnd); pr_real(colcnd); pr_real(amax); fputc('\n', out);
            pr_reals("R", r, a.m); pr_reals("C", c, a.n);
            fprintf(out, "guard %d\nend\n", (r[a.m] == GUARD && c[a.n] == GUARD) ? 1 : 0);
            free(r); free(c); free_mat(&a);
        }
        else if (!strcmp(tok, "laqgs")) {
            mat_t a; rd_mat(&a);
            real_t *r = malloc(sizeof(real_t) * (a.m + 1)), *c = malloc(sizeof(real_t) * (a.n + 1));
            for (int_t i = 0; i < a.m; i++) r[i] = (real_t)rd_f();
            for (int_t j = 0; j < a.n; j++) c[j] = (real_t)rd_f();
            real_t rowcnd = (real_t)rd_f(), colcnd = (real_t)rd_f(), amax = (real_t)rd_f();
            equed_t equed = (equed_t)rd_int();
            int_t *ptr0 = malloc(sizeof(int_t) * (a.n + 2)), *ind0 = malloc(sizeof(int_t) * (a.nnz + 1));
            memcpy(ptr0, a.ptr, sizeof(int_t) * (a.n + 1)); memcpy(ind0, a.ind, sizeof(int_t) * a.nnz);
            real_t *r0 = malloc(sizeof(real_t) * (a.m + 1)), *c0 = malloc(sizeof(real_t) * (a.n + 1));
            memcpy(r0, r, sizeof(real_t) * a.m); memcpy(c0, c, sizeof(real_t) * a.n);
            P(laqgs)(&a.M, r, c, rowcnd, colcnd, amax, &equed);
            fprintf(out, "op laqgs\nequed %d\n", (int)equed);
            fprintf(out, "A %ld", (long)a.nnz * NCOMP); { real_t *v = (real_t *)a.val; for (long i = 0; i < (long)a.nnz * NCOMP; i++) pr_real(v[i]); } fputc('\n', out);
            fprintf(out, "same %d\nend\n", (memcmp(ptr0, a.ptr, sizeof(int_t) * (a.n + 1)) == 0 && memcmp(ind0, a.ind, sizeof(int_t) * a.nnz) == 0 &&
                                         memcmp(r0, r, sizeof(real_t) * a.m) == 0 && memcmp(c0, c, sizeof(real_t) * a.n) == 0) ? 1 : 0);
            free(r); free(c); free(r0); free(c0); free(ptr0); free(ind0); free_mat(&a);
        }
        else if (!strcmp(tok, "quit")) break;
        else { fprintf(stderr, "script: unknown op %s\n", tok); return 3; }
    }
    fprintf(out, "done\n"); fclose(out);
    return 0;
}
