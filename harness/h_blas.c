/* h_blas.c — harness for property C19: direct calls of the REAL sparse kernels and format utilities
 *   sp_?gemv, sp_?gemm, ?langs, ?CompRow_to_CompCol, ?Copy_CompCol_Matrix, ?Create_CompCol_Permuted,
 *   sp_?trsv (on factors produced by p?gssv).
 * Compiled once per precision with -DPREC_s|d|c|z (macro scheme of h_drv.c).
 *
 *   h_blas_<p> <script> <out>
 *
 * The script is the token stream that `sludrv blas` reads as well: integers and dyadic pairs `m e`
 * (value m*2^e), `nan` for a cell the caller "need not set".  Every operation except `factor` runs in
 * a forked child: SUPERLU_ABORT ends in exit(-1), so an aborting call is observed from outside as
 *   res <id> <kind> abort exit=<status> <first line of the child's stderr>
 * Results: one `res <id> <kind> ...` line per operation, floats as C99 hex (%a).
 */
#define _GNU_SOURCE
#include <stdio.h>
#include <stdlib.h>
#include <string.h>
#include <math.h>
#include <unistd.h>
#include <sys/wait.h>
#include <stdint.h>

#if defined(PREC_s)
#include "slu_mt_sdefs.h"
typedef float elem_t; typedef float real_t;
#define NCOMP 1
#define DT SLU_S
#define P(x) s##x
#define PP(x) ps##x
#define SP(x) sp_s##x
#elif defined(PREC_d)
#include "slu_mt_ddefs.h"
typedef double elem_t; typedef double real_t;
#define NCOMP 1
#define DT SLU_D
#define P(x) d##x
#define PP(x) pd##x
#define SP(x) sp_d##x
#elif defined(PREC_c)
#include "slu_mt_cdefs.h"
typedef complex elem_t; typedef float real_t;
#define NCOMP 2
#define DT SLU_C
#define P(x) c##x
#define PP(x) pc##x
#define SP(x) sp_c##x
#elif defined(PREC_z)
#include "slu_mt_zdefs.h"
typedef doublecomplex elem_t; typedef double real_t;
#define NCOMP 2
#define DT SLU_Z
#define P(x) z##x
#define PP(x) pz##x
#define SP(x) sp_z##x
#else
#error "define PREC_s|d|c|z"
#endif

/* ?langs has no prototype in the public headers */
extern real_t P(langs)(char *, SuperMatrix *);

/* ---- sp_ienv override ---- */
static int_t ienv_tab[9] = {0, 20, 6, 200, 200, 100, -50, -50, -30};
int_t sp_ienv(int_t ispec) { if (ispec >= 1 && ispec <= 8) return ienv_tab[ispec]; return 0; }

/* ---- xerbla capture ---- */
static char xerbla_name[64]; static int xerbla_arg = 0; static int xerbla_calls = 0;
int xerbla_(char *srname, int *info) { strncpy(xerbla_name, srname, 63); xerbla_arg = *info; xerbla_calls++; return 0; }
void slu_mt_verif_event(int kind, int pnum, long a, long b, long c) { }

static FILE *in, *out, *o; /* o = where the current op prints (pipe in a child) */
static char tok[4096];
static int next_tok(void) { return fscanf(in, "%4095s", tok) == 1; }
static void need_tok(void) { if (!next_tok()) { fprintf(stderr, "script: eof\n"); exit(3); } }
static long rd_int(void) { need_tok(); return strtol(tok, 0, 10); }
static void expect(const char *s) { need_tok(); if (strcmp(tok, s)) { fprintf(stderr, "script: expected %s got %s\n", s, tok); exit(3); } }
static double rd_real(void) {
    need_tok(); if (!strcmp(tok, "nan")) return NAN;
    long long m = strtoll(tok, 0, 10); long e = rd_int(); return ldexp((double)m, (int)e);
}
static void rd_elem(elem_t *p) { real_t *r = (real_t *)p; for (int c = 0; c < NCOMP; c++) r[c] = (real_t)rd_real(); }
static elem_t *rd_elems(long *cnt) { long k = rd_int(); elem_t *a = malloc(sizeof(elem_t) * (k + 1)); for (long i = 0; i < k; i++) rd_elem(&a[i]); *cnt = k; return a; }
static int_t *rd_ints(long *cnt) { long k = rd_int(); int_t *a = malloc(sizeof(int_t) * (k + 1)); for (long i = 0; i < k; i++) a[i] = (int_t)rd_int(); *cnt = k; return a; }

static void pr_elems(const elem_t *a, long n) { const real_t *r = (const real_t *)a; fprintf(o, " %ld", n * NCOMP); for (long i = 0; i < n * NCOMP; i++) fprintf(o, " %a", (double)r[i]); }
static void pr_ints(const int_t *a, long n) { fprintf(o, " %ld", n); for (long i = 0; i < n; i++) fprintf(o, " %ld", (long)a[i]); }

typedef struct { SuperMatrix M; long ncp, nri, nv; int_t *colptr, *rowind; elem_t *val; int_t m, n, nnz; } ncmat;
static void rd_nc(ncmat *A) {
    expect("A"); A->m = rd_int(); A->n = rd_int(); A->nnz = rd_int();
    A->colptr = rd_ints(&A->ncp); A->rowind = rd_ints(&A->nri); A->val = rd_elems(&A->nv);
    P(Create_CompCol_Matrix)(&A->M, A->m, A->n, A->nnz, A->val, A->rowind, A->colptr, SLU_NC, DT, SLU_GE);
}

/* persistent factors */
static SuperMatrix L, U; static int haveLU = 0; static int_t *perm_c = 0, *perm_r = 0;

static void dump_LU(void) {
    SCPformat *Ls = L.Store; NCPformat *Us = U.Store; int_t n = L.ncol;
    fprintf(o, "Lhdr %ld %ld %ld %ld %d %d %d\n", (long)L.nrow, (long)L.ncol, (long)Ls->nnz, (long)Ls->nsuper, (int)L.Stype, (int)L.Dtype, (int)L.Mtype);
    fprintf(o, "L.col_to_sup"); pr_ints(Ls->col_to_sup, n); fputc('\n', o);
    long ns = Ls->nsuper + 1; if (ns < 0 || ns > n) ns = 0;
    fprintf(o, "L.sup_to_colbeg"); pr_ints(Ls->sup_to_colbeg, ns); fputc('\n', o);
    fprintf(o, "L.sup_to_colend"); pr_ints(Ls->sup_to_colend, ns); fputc('\n', o);
    fprintf(o, "L.rowind_colbeg"); pr_ints(Ls->rowind_colbeg, n); fputc('\n', o);
    fprintf(o, "L.rowind_colend"); pr_ints(Ls->rowind_colend, n); fputc('\n', o);
    fprintf(o, "L.nzval_colbeg"); pr_ints(Ls->nzval_colbeg, n); fputc('\n', o);
    fprintf(o, "L.nzval_colend"); pr_ints(Ls->nzval_colend, n); fputc('\n', o);
    for (long s = 0; s < ns; s++) {
        int_t f = Ls->sup_to_colbeg[s], e = Ls->sup_to_colend[s];
        if (f < 0 || f >= n || e <= f || e > n) { fprintf(o, "Lsup %ld bad\n", s); continue; }
        int_t rb = Ls->rowind_colbeg[f], re = Ls->rowind_colend[f];
        fprintf(o, "Lsup %ld %ld %ld %ld", s, (long)f, (long)e, (long)(re - rb));
        for (int_t k = rb; k < re; k++) fprintf(o, " %ld", (long)Ls->rowind[k]);
        fputc('\n', o);
        for (int_t j = f; j < e; j++) {
            int_t vb = Ls->nzval_colbeg[j], ve = Ls->nzval_colend[j];
            fprintf(o, "Lcol %ld %ld %ld", (long)j, (long)vb, (long)(ve - vb));
            const real_t *r = (const real_t *)Ls->nzval;
            for (long k = (long)vb * NCOMP; k < (long)ve * NCOMP; k++) fprintf(o, " %a", (double)r[k]);
            fputc('\n', o);
        }
    }
    fprintf(o, "Uhdr %ld %ld %ld %d %d %d\n", (long)U.nrow, (long)U.ncol, (long)Us->nnz, (int)U.Stype, (int)U.Dtype, (int)U.Mtype);
    fprintf(o, "U.colbeg"); pr_ints(Us->colbeg, n); fputc('\n', o);
    fprintf(o, "U.colend"); pr_ints(Us->colend, n); fputc('\n', o);
    for (int_t j = 0; j < n; j++) {
        int_t b = Us->colbeg[j], e = Us->colend[j];
        fprintf(o, "Ucol %ld %ld", (long)j, (long)(e - b));
        for (int_t k = b; k < e; k++) fprintf(o, " %ld", (long)Us->rowind[k]);
        const real_t *r = (const real_t *)Us->nzval;
        for (long k = (long)b * NCOMP; k < (long)e * NCOMP; k++) fprintf(o, " %a", (double)r[k]);
        fputc('\n', o);
    }
}

/* ---------------------------------------------------------------- operations (run in a child) */
static void op_gemv(const char *id) {
    char trans[2] = {(char)rd_int(), 0}; ncmat A; rd_nc(&A);
    elem_t alpha, beta; rd_elem(&alpha); rd_elem(&beta);
    int_t incx = rd_int(), incy = rd_int(); long nx, ny; elem_t *x = rd_elems(&nx), *y = rd_elems(&ny);
    xerbla_calls = 0;
    SP(gemv)(trans, alpha, &A.M, x, incx, beta, y, incy);
    if (xerbla_calls) { fprintf(o, "res %s gemv xerbla %d %s\n", id, xerbla_arg, xerbla_name); return; }
    fprintf(o, "res %s gemv ok", id); pr_elems(y, ny); fputc('\n', o);
}

static void op_gemm(const char *id) {
    char trans[2] = {(char)rd_int(), 0}; int_t m = rd_int(), n = rd_int(), k = rd_int(); ncmat A; rd_nc(&A);
    elem_t alpha, beta; rd_elem(&alpha); rd_elem(&beta);
    long nb, nc; int_t ldb = rd_int(); elem_t *b = rd_elems(&nb); int_t ldc = rd_int(); elem_t *c = rd_elems(&nc);
    xerbla_calls = 0;
    SP(gemm)(trans, m, n, k, alpha, &A.M, b, ldb, beta, c, ldc);
    fprintf(o, "res %s gemm calls %d info %d", id, xerbla_calls, xerbla_calls ? xerbla_arg : 0); pr_elems(c, nc); fputc('\n', o);
}

static void op_langs(const char *id) {
    char norm[2] = {(char)rd_int(), 0}; ncmat A; rd_nc(&A);
    real_t v = P(langs)(norm, &A.M);
    fprintf(o, "res %s langs val %a\n", id, (double)v);
}

static void op_r2c(const char *id) {
    int_t m = rd_int(), n = rd_int(), nnz = rd_int(); long na, nci, nrp;
    elem_t *a = rd_elems(&na); int_t *colind = rd_ints(&nci), *rowptr = rd_ints(&nrp);
    elem_t *at = 0; int_t *rowind = 0, *colptr = 0;
    P(CompRow_to_CompCol)(m, n, nnz, a, colind, rowptr, &at, &rowind, &colptr);
    fprintf(o, "res %s r2c at", id); pr_elems(at, nnz); fprintf(o, " rowind"); pr_ints(rowind, nnz); fprintf(o, " colptr"); pr_ints(colptr, n + 1); fputc('\n', o);
}

static void op_copy(const char *id) {
    ncmat A; rd_nc(&A); expect("B"); long nbv, nbri, nbcp;
    elem_t *bv = rd_elems(&nbv); int_t *bri = rd_ints(&nbri), *bcp = rd_ints(&nbcp);
    /* give A recognisable header fields so that the copy of the header is visible */
    A.M.Mtype = SLU_TRU;
    SuperMatrix B; P(Create_CompCol_Matrix)(&B, -1, -1, 0, bv, bri, bcp, SLU_NC, DT, SLU_GE);
    P(Copy_CompCol_Matrix)(&A.M, &B);
    NCformat *Bs = B.Store;
    fprintf(o, "res %s copy %ld %ld %ld nzval", id, (long)B.nrow, (long)B.ncol, (long)Bs->nnz); pr_elems(Bs->nzval, nbv);
    fprintf(o, " rowind"); pr_ints(Bs->rowind, nbri); fprintf(o, " colptr"); pr_ints(Bs->colptr, nbcp);
    fprintf(o, " hdr %d %d %d %d %d %d own %d\n", (int)B.Stype, (int)B.Dtype, (int)B.Mtype, (int)A.M.Stype, (int)A.M.Dtype, (int)A.M.Mtype,
            (Bs->nzval == (void *)bv && Bs->rowind == bri && Bs->colptr == bcp) ? 1 : 0);
}

static void op_pview(const char *id) {
    ncmat A; rd_nc(&A); long np; int_t *pc = rd_ints(&np); int_t n = A.n > 0 ? A.n : 0;
    int_t *colbeg = calloc(n + 1, sizeof(int_t)), *colend = calloc(n + 1, sizeof(int_t));
    for (int_t i = 0; i < n; i++) { colbeg[pc[i]] = A.colptr[i]; colend[pc[i]] = A.colptr[i + 1]; } /* sp_colorder.c:102 */
    SuperMatrix V; P(Create_CompCol_Permuted)(&V, A.m, A.n, A.nnz, A.val, A.rowind, colbeg, colend, SLU_NCP, DT, SLU_GE);
    NCPformat *Vs = V.Store;
    fprintf(o, "res %s pview %ld %ld %ld colbeg", id, (long)V.nrow, (long)V.ncol, (long)Vs->nnz); pr_ints(Vs->colbeg, n);
    fprintf(o, " colend"); pr_ints(Vs->colend, n); fprintf(o, " rowind"); pr_ints(Vs->rowind, A.nri);
    fprintf(o, " nzval"); pr_elems(Vs->nzval, A.nv);
    fprintf(o, " hdr %d %d %d shared %d\n", (int)V.Stype, (int)V.Dtype, (int)V.Mtype, (Vs->nzval == (void *)A.val && Vs->rowind == A.rowind) ? 1 : 0);
}

static void op_trsv(const char *id) {
    char uplo[2] = {(char)rd_int(), 0}, trans[2] = {(char)rd_int(), 0}, diag[2] = {(char)rd_int(), 0};
    int_t lnrow = rd_int(), lncol = rd_int(), unrow = rd_int(), uncol = rd_int(); long nx; elem_t *x = rd_elems(&nx);
    if (!haveLU) { fprintf(o, "res %s trsv nofactors\n", id); return; }
    L.nrow = lnrow; L.ncol = lncol; U.nrow = unrow; U.ncol = uncol; /* child's private copy of the headers */
    int_t info = -999; xerbla_calls = 0;
    SP(trsv)(uplo, trans, diag, &L, &U, x, &info);
    if (xerbla_calls || info != 0) { fprintf(o, "res %s trsv xerbla %d info %ld %s\n", id, xerbla_arg, (long)info, xerbla_calls ? xerbla_name : "-"); return; }
    fprintf(o, "res %s trsv ok", id); pr_elems(x, nx); fputc('\n', o);
}

/* factor: runs in the parent (state persists).  `op id factor n nnz <colptr> <rowind> <vals> nprocs panel relax maxsuper colperm` */
static void op_factor(const char *id) {
    int_t n = rd_int(), nnz = rd_int(); long a, b, c; int_t *colptr = rd_ints(&a), *rowind = rd_ints(&b); elem_t *val = rd_elems(&c);
    int_t nprocs = rd_int(); ienv_tab[1] = rd_int(); ienv_tab[2] = rd_int(); ienv_tab[3] = rd_int(); int colperm = rd_int();
    if (haveLU) { Destroy_SuperNode_SCP(&L); Destroy_CompCol_NCP(&U); haveLU = 0; }
    free(perm_c); free(perm_r); perm_c = malloc(sizeof(int_t) * (n + 1)); perm_r = malloc(sizeof(int_t) * (n + 1));
    SuperMatrix A, B; P(Create_CompCol_Matrix)(&A, n, n, nnz, val, rowind, colptr, SLU_NC, DT, SLU_GE);
    elem_t *bv = calloc(n + 1, sizeof(elem_t)); P(Create_Dense_Matrix)(&B, n, 1, bv, n, SLU_DN, DT, SLU_GE);
    get_perm_c(colperm, &A, perm_c);
    int_t info = -999; xerbla_calls = 0;
    PP(gssv)(nprocs, &A, perm_c, perm_r, &L, &U, &B, &info);
    fprintf(o, "res %s factor info %ld xerbla %d\n", id, (long)info, xerbla_calls);
    if (info == 0 && xerbla_calls == 0) { haveLU = 1; fprintf(o, "perm_r"); pr_ints(perm_r, n); fprintf(o, "\nperm_c"); pr_ints(perm_c, n); fputc('\n', o); dump_LU(); }
    fprintf(o, "endfactor %s\n", id);
    SUPERLU_FREE(A.Store); SUPERLU_FREE(B.Store); free(bv);
    /* colptr/rowind/val stay allocated: nothing refers to them, but keep life simple */
}

static void run_child(const char *id, const char *kind) {
    if (!strcmp(kind, "gemv")) op_gemv(id);
    else if (!strcmp(kind, "gemm")) op_gemm(id);
    else if (!strcmp(kind, "langs")) op_langs(id);
    else if (!strcmp(kind, "r2c")) op_r2c(id);
    else if (!strcmp(kind, "copy")) op_copy(id);
    else if (!strcmp(kind, "pview")) op_pview(id);
    else if (!strcmp(kind, "trsv")) op_trsv(id);
    else { fprintf(stderr, "script: unknown op %s\n", kind); exit(3); }
}

static size_t slurp(int fd, char *buf, size_t cap) { size_t n = 0; ssize_t k; while (n < cap - 1 && (k = read(fd, buf + n, cap - 1 - n)) > 0) n += k; buf[n] = 0; return n; }

int main(int argc, char **argv) {
    if (argc < 3) { fprintf(stderr, "usage: %s script out\n", argv[0]); return 2; }
    FILE *script = fopen(argv[1], "r"); out = fopen(argv[2], "w");
    if (!script || !out) { perror("open"); return 2; }
    static char obuf[1 << 22], ebuf[1 << 14];
    /* read the whole script up front and close the descriptor: an aborting child runs exit(), whose stdio
       cleanup would otherwise move the file offset it shares with this process */
    fseek(script, 0, SEEK_END); long ssz = ftell(script); fseek(script, 0, SEEK_SET);
    char *sbuf = malloc(ssz + 2); if (fread(sbuf, 1, ssz, script) != (size_t)ssz) { perror("read"); return 2; } sbuf[ssz] = 0; fclose(script);
    char *line = sbuf; long len;
    /* one operation per line; the line is parsed from memory (by the child for forked operations) */
    for (; *line; line += len) {
        char *nl = strchr(line, '\n'); len = nl ? (nl - line) + 1 : (long)strlen(line);
        in = fmemopen(line, (size_t)len, "r");
        if (!next_tok()) { fclose(in); continue; }
        if (!strcmp(tok, "quit")) break;
        if (strcmp(tok, "op")) { fprintf(stderr, "script: expected op got %s\n", tok); return 3; }
        char id[64], kind[32]; need_tok(); strncpy(id, tok, 63); id[63] = 0; need_tok(); strncpy(kind, tok, 31); kind[31] = 0;
        if (!strcmp(kind, "factor")) { o = out; op_factor(id); fflush(out); fclose(in); continue; }
        if (strcmp(kind, "trsv")) (void)rd_int(); /* cplx flag (the harness precision decides) */
        fflush(out); fflush(stdout); fflush(stderr);
        int po[2], pe[2]; if (pipe(po) || pipe(pe)) { perror("pipe"); return 2; }
        pid_t pid = fork();
        if (pid == 0) {
            close(po[0]); close(pe[0]); dup2(pe[1], 2); dup2(pe[1], 1);
            o = fdopen(po[1], "w"); run_child(id, kind); fflush(o); _exit(0);
        }
        close(po[1]); close(pe[1]);
        size_t no = slurp(po[0], obuf, sizeof obuf); slurp(pe[0], ebuf, sizeof ebuf); close(po[0]); close(pe[0]);
        int st = 0; waitpid(pid, &st, 0);
        if (WIFEXITED(st) && WEXITSTATUS(st) == 0 && no) fputs(obuf, out);
        else {
            for (char *p = ebuf; *p; p++) if (*p == '\n' || *p == '\r') { *p = 0; break; }
            if (WIFSIGNALED(st)) fprintf(out, "res %s %s abort sig=%d %s\n", id, kind, WTERMSIG(st), ebuf);
            else fprintf(out, "res %s %s abort exit=%d %s\n", id, kind, WEXITSTATUS(st), ebuf);
        }
        fflush(out); fclose(in);
    }
    fprintf(out, "done\n"); fclose(out);
    return 0;
}
