#!/bin/bash
# Build libslu.a from /repo's *current working tree* into /verif/build/<flavour>/.
# usage: build_lib.sh <flavour>     flavour in: plain | asan | tsan | fault
# Environment: REPO (default /repo).  Re-compiles only sources newer than their object.
set -e
FLAV=${1:-plain}
REPO=${REPO:-/repo}
HERE=$(cd "$(dirname "$0")" && pwd)
OUT=${VERIF_BUILD:-$HERE/../build}/$FLAV
mkdir -p "$OUT/obj"
exec 9>"$OUT/.lock"; flock 9
COMMON="-g -w -D__PTHREAD -DAdd_ -DUSE_VENDOR_BLAS -DSLU_MT_VERIF -I$REPO/SRC"
case "$FLAV" in
  plain) CFLAGS="-O1 $COMMON" ;;
  asan)  CFLAGS="-O1 -fsanitize=address,undefined -fno-sanitize-recover=undefined -fno-omit-frame-pointer $COMMON" ;;
  tsan)  CFLAGS="-O1 -fsanitize=thread $COMMON" ;;
  fault) CFLAGS="-O1 -fsanitize=address,undefined -fno-sanitize-recover=undefined -fno-omit-frame-pointer $COMMON -include $HERE/vf_alloc.h" ;;
  *) echo "unknown flavour $FLAV" >&2; exit 2 ;;
esac
echo "$CFLAGS" > "$OUT/flags.new"
if ! cmp -s "$OUT/flags.new" "$OUT/flags" ; then rm -f "$OUT"/obj/*.o; mv "$OUT/flags.new" "$OUT/flags"; fi
# drop objects whose source vanished
for o in "$OUT"/obj/*.o; do [ -e "$o" ] || continue; b=$(basename "$o" .o); [ -e "$REPO/SRC/$b.c" ] || rm -f "$o"; done
export CFLAGS OUT REPO
# header change => rebuild everything
NEWEST_H=$(ls -t "$REPO"/SRC/*.h | head -1)
if [ -e "$OUT/libslu.a" ] && [ "$NEWEST_H" -nt "$OUT/libslu.a" ]; then rm -f "$OUT"/obj/*.o; fi
ls "$REPO"/SRC/*.c | xargs -P16 -I{} sh -c '
  b=$(basename {} .c); o="$OUT/obj/$b.o";
  if [ ! -e "$o" ] || [ {} -nt "$o" ]; then gcc $CFLAGS -c {} -o "$o" || exit 255; fi'
rm -f "$OUT/libslu.a"
ar rcs "$OUT/libslu.a" "$OUT"/obj/*.o
echo "$OUT/libslu.a"
