/* h_con.c — C12 harness: the real ?lacon_ driven by an explicit dense operator, and the real ?langs,
 * ?PivotGrowth, ?gscon on the state left by a base phase (see h_cr_common.h).
 *
 * extension ops (token stream, floats as C99 hex):
 *   lacon n  <n*n elements, row major>      drive ?lacon_ with x := M x (kase 1) / x := M^T x or M^H x (kase 2);
 *                                           every call is logged:  lc kase_in kase_out est x...
 *   langs slot letter                       ?langs(letter, A_slot)            -> langs <value>
 *   growth slot ncols                       ?PivotGrowth(ncols, A, perm_c, L, U) -> growth <value>
 *   gscon letter anorm                      ?gscon(letter, L, U, anorm, ..)   -> lc lines, then gscon <rcond> <info>
 *   dumplu                                  dump current L, U, perm_r, perm_c
 *   quit
 */
#include "h_cr_common.h"

static void op_lacon(void) {
    int_t n = rd_int();
    elem_t *M = malloc(sizeof(elem_t) * (n * n + 1)), *v = malloc(sizeof(elem_t) * (n + 1)), *x = malloc(sizeof(elem_t) * (n + 1)),
           *y = malloc(sizeof(elem_t) * (n + 1));
    int_t *isgn = malloc(sizeof(int_t) * (n + 1));
    rd_elems(M, (long)n * n);
    memset(v, 0, sizeof(elem_t) * (n + 1)); memset(x, 0, sizeof(elem_t) * (n + 1));
    real_t est = 0; int_t kase = 0; int guard = 0;
    fprintf(out, "op lacon %ld\n", (long)n);
    log_on = 1;
    do {
#if IS_CPLX
        WRAP_LACON(&n, v, x, &est, &kase);
#else
        WRAP_LACON(&n, v, x, isgn, &est, &kase);
#endif
        if (kase == 0) break;
        for (int_t i = 0; i < n; i++) {
#if IS_CPLX
            real_t sr = 0, si = 0;
            for (int_t j = 0; j < n; j++) {
                elem_t a = (kase == 1) ? M[i * n + j] : M[j * n + i];
                if (kase != 1) a.i = -a.i;                 /* conjugate transpose */
                real_t pr = a.r * x[j].r - a.i * x[j].i, pi = a.r * x[j].i + a.i * x[j].r;
                sr += pr; si += pi;
            }
            y[i].r = sr; y[i].i = si;
#else
            real_t s = 0;
            for (int_t j = 0; j < n; j++) s += ((kase == 1) ? M[i * n + j] : M[j * n + i]) * x[j];
            y[i] = s;
#endif
        }
        memcpy(x, y, sizeof(elem_t) * n);
    } while (++guard < 100);
    log_on = 0;
    fprintf(out, "est %a\nguard %d\nend\n", (double)est, guard);
    free(M); free(v); free(x); free(y); free(isgn);
}

int main(int argc, char **argv) {
    if (argc < 5) { fprintf(stderr, "usage: %s base_script base_out ext_script ext_out [log]\n", argv[0]); return 2; }
    int rc = base_phase(argv[1], argv[2], argc > 5);
    if (rc) return rc;
    if (ext_open(argv[3], argv[4])) return 2;
    while (next_tok()) {
        if (!strcmp(tok, "lacon")) op_lacon();
        else if (!strcmp(tok, "langs")) {
            int s = rd_int(); next_tok(); char letter[2] = { tok[0], 0 };
            real_t v = P(langs)(letter, &A_[s].M);
            fprintf(out, "op langs\nvalue %a\nend\n", (double)v);
        }
        else if (!strcmp(tok, "growth")) {
            int s = rd_int(); int_t ncols = rd_int();
            real_t v = P(PivotGrowth)(ncols, &A_[s].M, perm_c, &L, &U);
            fprintf(out, "op growth\nvalue %a\nend\n", (double)v);
        }
        else if (!strcmp(tok, "gscon")) {
            next_tok(); char letter[2] = { tok[0], 0 }; real_t anorm = (real_t)rd_f(); real_t rcond = -1; int_t info = -999;
            fprintf(out, "op gscon\n");
            xerbla_calls = 0; log_on = 1;
            P(gscon)(letter, &L, &U, anorm, &rcond, &info);
            log_on = 0;
            fprintf(out, "rcond %a\ninfo %ld\nxerbla %d\nend\n", (double)rcond, (long)info, xerbla_calls);
        }
        else if (!strcmp(tok, "dumplu")) {
            fprintf(out, "op dumplu\n"); pr_ints("perm_r", perm_r, pn); pr_ints("perm_c", perm_c, pn); dump_LU(); fprintf(out, "end\n");
        }
        else if (!strcmp(tok, "quit")) break;
        else { fprintf(stderr, "ext script: unknown op %s\n", tok); return 3; }
    }
    fprintf(out, "done\n"); fclose(out);
    return 0;
}
