/* h_fixup.c — real fixupL / countnz (SRC/util.c) on hand-built GlobalLU_t states.
 * input per case: case <id> <n> <nsuper> <nextl> <nextu> / xsup(nsuper+1) / xsup_end(nsuper+1) / lsub(nextl) /
 *                 xlsub(n+1) / xlsub_end(n) / perm_r(n)
 * output: case <id> nnzL <a> nnzU <b> / lsub <newlen> ... / xlsub ... / xlsub_end (first columns only) */
#include <stdio.h>
#include <stdlib.h>
#include <string.h>
#include "slu_mt_ddefs.h"
extern void fixupL(const int_t, const int_t *, GlobalLU_t *);
extern void countnz(const int_t, int_t *, int_t *, int_t *, GlobalLU_t *);
static int_t *rd(FILE *in, long k) { int_t *a = malloc(sizeof(int_t) * (k + 2)); for (long i = 0; i < k; i++) { long v; fscanf(in, "%ld", &v); a[i] = v; } return a; }
int main(int argc, char **argv) {
    FILE *in = fopen(argv[1], "r"), *out = fopen(argv[2], "w"); char tok[64];
    while (fscanf(in, "%63s", tok) == 1) {
        char id[64]; long n, nsuper, nextl, nextu;
        if (strcmp(tok, "case") || fscanf(in, "%63s %ld %ld %ld %ld", id, &n, &nsuper, &nextl, &nextu) != 5) return 3;
        GlobalLU_t G; memset(&G, 0, sizeof G);
        G.xsup = rd(in, nsuper + 1); G.xsup_end = rd(in, nsuper + 1); G.lsub = rd(in, nextl);
        G.xlsub = rd(in, n + 1); G.xlsub_end = rd(in, n); int_t *perm_r = rd(in, n);
        G.supno = malloc(sizeof(int_t) * (n + 2));
        for (long s = 0; s <= nsuper; s++) for (int_t j = G.xsup[s]; j < G.xsup_end[s]; j++) G.supno[j] = s;
        G.supno[n] = nsuper; G.nextl = nextl; G.nextu = nextu; G.nzlumax = 1 << 20;
        int_t nnzL = -1, nnzU = -1; int_t *xprune = malloc(sizeof(int_t) * (n + 2));
        for (long j = 0; j < n; j++) xprune[j] = G.xlsub_end[j];
        countnz(n, xprune, &nnzL, &nnzU, &G);
        fixupL(n, perm_r, &G);
        fprintf(out, "case %s nnzL %ld nnzU %ld\n", id, (long)nnzL, (long)nnzU);
        long tot = G.xlsub[n];
        fprintf(out, "lsub %ld", tot); for (long i = 0; i < tot && i < nextl; i++) fprintf(out, " %ld", (long)G.lsub[i]); fputc('\n', out);
        fprintf(out, "xl"); for (long s = 0; s <= nsuper; s++) fprintf(out, " %ld:%ld", (long)G.xlsub[G.xsup[s]], (long)G.xlsub_end[G.xsup[s]]); fputc('\n', out);
        free(G.xsup); free(G.xsup_end); free(G.lsub); free(G.xlsub); free(G.xlsub_end); free(perm_r); free(G.supno); free(xprune);
    }
    fprintf(out, "done\n"); fclose(out); return 0;
}
