/* h_args.c — property C15: argument checking of the REAL routines.
 * Compiled once per precision with -DPREC_s | -DPREC_d | -DPREC_c | -DPREC_z, linked against libslu.a built from
 * /repo's working tree and with  -Wl,--wrap=malloc,--wrap=calloc,--wrap=realloc,--wrap=free  (heap counters: every
 * allocation made by library objects goes through these; superlu_malloc in SRC/util.c ends in malloc).
 *
 *   h_args_<p> <script> <out>
 *
 * script:  prec <p>  then  op <id> <family> <fields...>  (exactly the lines `sludrv argcheck` reads)  then  quit.
 * The parent factors one small system once (valid A, B, X, L, U, perm_r, perm_c, R, C).  Every op is executed in a
 * forked child: the child builds the argument objects as copies of the valid ones with the op's fields written
 * over them (sizes, type tags, leading dimensions, option values, scale factors), checksums every byte reachable
 * from the arguments, calls the routine, checksums again, and reports
 *     (groups: A B X L U perm_r perm_c R C out; "out" = the scalar outputs rcond, ferr, berr, rowcnd, amax, memusage ...)
 *     op <id> <family> / xerbla <calls> |<first name>| <first position> / info <v> / same <group> <0|1> ... /
 *     pre <equed_changed> <opts_perm_c_changed> <opts_perm_r_changed> / heap <allocs> <frees> / end
 * A child that dies is reported by the parent as  crash <id> <wait status>.
 */
#define _GNU_SOURCE
#include <stdio.h>
#include <stdlib.h>
#include <string.h>
#include <stdint.h>
#include <unistd.h>
#include <sys/wait.h>

#if defined(PREC_s)
#include "slu_mt_sdefs.h"
typedef float elem_t; typedef float real_t;
#define NCOMP 1
#define DT SLU_S
#define PRECCH 's'
#define P(x) s##x
#define PP(x) ps##x
#define SP(x) sp_s##x
#elif defined(PREC_d)
#include "slu_mt_ddefs.h"
typedef double elem_t; typedef double real_t;
#define NCOMP 1
#define DT SLU_D
#define PRECCH 'd'
#define P(x) d##x
#define PP(x) pd##x
#define SP(x) sp_d##x
#elif defined(PREC_c)
#include "slu_mt_cdefs.h"
typedef complex elem_t; typedef float real_t;
#define NCOMP 2
#define DT SLU_C
#define PRECCH 'c'
#define P(x) c##x
#define PP(x) pc##x
#define SP(x) sp_c##x
#elif defined(PREC_z)
#include "slu_mt_zdefs.h"
typedef doublecomplex elem_t; typedef double real_t;
#define NCOMP 2
#define DT SLU_Z
#define PRECCH 'z'
#define P(x) z##x
#define PP(x) pz##x
#define SP(x) sp_z##x
#else
#error "define PREC_s|d|c|z"
#endif

/* ---- heap counters (linker --wrap) ---- */
extern void *__real_malloc(size_t); extern void *__real_calloc(size_t, size_t);
extern void *__real_realloc(void *, size_t); extern void __real_free(void *);
static volatile int counting = 0; static long n_alloc = 0, n_free = 0;
void *__wrap_malloc(size_t n) { if (counting) n_alloc++; return __real_malloc(n); }
void *__wrap_calloc(size_t a, size_t b) { if (counting) n_alloc++; return __real_calloc(a, b); }
void *__wrap_realloc(void *p, size_t n) { if (counting) { if (p) n_free++; n_alloc++; } return __real_realloc(p, n); }
void __wrap_free(void *p) { if (counting && p) n_free++; __real_free(p); }

/* ---- xerbla capture (replaces SRC/xerbla.c at link time) ---- */
static char xerbla_name[64]; static int xerbla_arg = 0; static int xerbla_calls = 0;
int xerbla_(char *srname, int *info) {
    if (xerbla_calls == 0) { strncpy(xerbla_name, srname, 63); xerbla_name[63] = 0; xerbla_arg = *info; }
    xerbla_calls++; return 0;
}

static FILE *out;
/* the whole script is tokenised into memory before the first fork (parent and children share no input stream) */
static char *script; static char **toks; static long ntok = 0, cur = 0;
static const char *tok = "";
static int next_tok(void) { if (cur >= ntok) return 0; tok = toks[cur++]; return 1; }
static long rd_int(void) { if (!next_tok()) { fprintf(stderr, "script: eof\n"); exit(3);} return strtol(tok, 0, 10); }
static void load_script(const char *path) {
    FILE *f = fopen(path, "r"); if (!f) { perror("open script"); exit(2); }
    fseek(f, 0, SEEK_END); long len = ftell(f); fseek(f, 0, SEEK_SET);
    script = malloc(len + 1); if (fread(script, 1, len, f) != (size_t)len) { perror("read"); exit(2); } script[len] = 0; fclose(f);
    long cap = 1024; toks = malloc(sizeof(char *) * cap);
    for (char *p = strtok(script, " \t\r\n"); p; p = strtok(0, " \t\r\n")) { if (ntok == cap) { cap *= 2; toks = realloc(toks, sizeof(char *) * cap); } toks[ntok++] = p; }
}

/* ---- the valid base objects ---- */
#define N 4
#define NRHS 2
#define LDMAX (N + 3)
#define NCMAX (NRHS + 2)
static int_t a_colptr[N + 1] = {0, 3, 6, 9, 11};
static int_t a_rowind[11] = {0, 1, 3, 0, 1, 2, 1, 2, 3, 0, 3};
static double a_re[11] = {8, 1, 2, -1, 6, 1, 2, 7, -1, 1, 5};
static double a_im[11] = {1, 0, -1, 0, 2, 0, 1, 0, 0, -1, 1};
static elem_t a_val[11];
static SuperMatrix A0, B0, X0, L0, U0;
static elem_t b_val[LDMAX * NCMAX + 1], x_val[LDMAX * NCMAX + 1], rhs_val[LDMAX * NCMAX + 1];
static int_t perm_c0[N + 1], perm_r0[N + 1];

static void set_elem(elem_t *e, double re, double im) { real_t *r = (real_t *)e; r[0] = (real_t)re; if (NCOMP == 2) r[1] = (real_t)im; }

/* ---- checksums (FNV-1a) ---- */
static uint64_t fnv(uint64_t h, const void *p, size_t n) { const unsigned char *c = p; for (size_t i = 0; i < n; i++) { h ^= c[i]; h *= 1099511628211ULL; } return h; }
#define H0 1469598103934665603ULL
static uint64_t sum_nc(const SuperMatrix *hdr, const SuperMatrix *base) { /* header copy + the base's storage */
    uint64_t h = fnv(H0, hdr, sizeof *hdr); NCformat *s = base->Store; h = fnv(h, s, sizeof *s);
    h = fnv(h, s->colptr, sizeof(int_t) * (base->ncol + 1)); h = fnv(h, s->rowind, sizeof(int_t) * s->nnz);
    return fnv(h, s->nzval, sizeof(elem_t) * s->nnz);
}
static uint64_t sum_dn(const SuperMatrix *hdr, const DNformat *st, const elem_t *vals) {
    uint64_t h = fnv(H0, hdr, sizeof *hdr); h = fnv(h, st, sizeof *st); return fnv(h, vals, sizeof(elem_t) * LDMAX * NCMAX);
}
static int_t imax(const int_t *a, int_t n) { int_t m = 0; for (int_t i = 0; i < n; i++) if (a[i] > m) m = a[i]; return m; }
static uint64_t sum_L(const SuperMatrix *hdr) {
    uint64_t h = fnv(H0, hdr, sizeof *hdr); SCPformat *s = L0.Store; int_t n = L0.ncol; h = fnv(h, s, sizeof *s);
    h = fnv(h, s->nzval, sizeof(elem_t) * imax(s->nzval_colend, n)); h = fnv(h, s->rowind, sizeof(int_t) * imax(s->rowind_colend, n));
    h = fnv(h, s->nzval_colbeg, sizeof(int_t) * n); h = fnv(h, s->nzval_colend, sizeof(int_t) * n);
    h = fnv(h, s->rowind_colbeg, sizeof(int_t) * n); h = fnv(h, s->rowind_colend, sizeof(int_t) * n);
    h = fnv(h, s->col_to_sup, sizeof(int_t) * n);
    h = fnv(h, s->sup_to_colbeg, sizeof(int_t) * (s->nsuper + 1)); return fnv(h, s->sup_to_colend, sizeof(int_t) * (s->nsuper + 1));
}
static uint64_t sum_U(const SuperMatrix *hdr) {
    uint64_t h = fnv(H0, hdr, sizeof *hdr); NCPformat *s = U0.Store; int_t n = U0.ncol; h = fnv(h, s, sizeof *s);
    h = fnv(h, s->nzval, sizeof(elem_t) * imax(s->colend, n)); h = fnv(h, s->rowind, sizeof(int_t) * imax(s->colend, n));
    h = fnv(h, s->colbeg, sizeof(int_t) * n); return fnv(h, s->colend, sizeof(int_t) * n);
}

/* ---- per-op state ---- */
typedef struct { long nrow, ncol, st, dt, mt; } hdr_t;
static void rd_hdr(hdr_t *h) { h->nrow = rd_int(); h->ncol = rd_int(); h->st = rd_int(); h->dt = rd_int(); h->mt = rd_int(); }
static void put_hdr(SuperMatrix *M, const hdr_t *h) { M->nrow = (int_t)h->nrow; M->ncol = (int_t)h->ncol; M->Stype = (Stype_t)h->st; M->Dtype = (Dtype_t)h->dt; M->Mtype = (Mtype_t)h->mt; }

static SuperMatrix Ah, Bh, Xh, Lh, Uh; static DNformat Bst, Xst;
static real_t Rv[64], Cv[64]; static int_t pr[N + 1], pc[N + 1];
static uint64_t before[10], after[10];
static const char *grp[10] = {"A", "B", "X", "L", "U", "perm_r", "perm_c", "R", "C", "out"};
/* scalar / small outputs of the call (rcond, ferr, berr, rowcnd, ..., memusage): group "out" */
static real_t outs[4 + 2 * (NCMAX + 1)]; static superlu_memusage_t mu;

static void sums(uint64_t *s) {
    s[0] = sum_nc(&Ah, &A0); s[1] = sum_dn(&Bh, &Bst, b_val); s[2] = sum_dn(&Xh, &Xst, x_val);
    s[3] = sum_L(&Lh); s[4] = sum_U(&Uh);
    s[5] = fnv(H0, pr, sizeof pr); s[6] = fnv(H0, pc, sizeof pc); s[7] = fnv(H0, Rv, sizeof Rv); s[8] = fnv(H0, Cv, sizeof Cv);
    s[9] = fnv(fnv(H0, outs, sizeof outs), &mu, sizeof mu);
}

static void fresh_objects(void) {
    Ah = A0; Bh = B0; Xh = X0; Lh = L0; Uh = U0;
    Bst = *(DNformat *)B0.Store; Xst = *(DNformat *)X0.Store; Bst.nzval = b_val; Xst.nzval = x_val; Bh.Store = &Bst; Xh.Store = &Xst;
    memcpy(pr, perm_r0, sizeof pr); memcpy(pc, perm_c0, sizeof pc);
    for (int i = 0; i < 64; i++) { Rv[i] = 1; Cv[i] = 1; }
    for (unsigned i = 0; i < sizeof outs / sizeof outs[0]; i++) outs[i] = (real_t)-1; memset(&mu, 0, sizeof mu);
}

static int info_valid; static int_t info; static int pre_equed, pre_pc, pre_pr;

static void report(long id, const char *fam) {
    fprintf(out, "op %ld %s\nxerbla %d |%s| %d\n", id, fam, xerbla_calls, xerbla_calls ? xerbla_name : "", xerbla_calls ? xerbla_arg : 0);
    if (info_valid) fprintf(out, "info %ld\n", (long)info); else fprintf(out, "info NA\n");
    fprintf(out, "same");
    for (int g = 0; g < 10; g++) fprintf(out, " %s %d", grp[g], before[g] == after[g]);
    fprintf(out, "\npre %d %d %d\nheap %ld %ld\nend\n", pre_equed, pre_pc, pre_pr, n_alloc, n_free);
    fflush(out);
}

#define CALL(stmt) do { sums(before); xerbla_calls = 0; n_alloc = n_free = 0; counting = 1; stmt; counting = 0; sums(after); } while (0)

static void run_op(long id, const char *fam) {
    fresh_objects(); info = -999; info_valid = 1; pre_equed = pre_pc = pre_pr = 0;
    if (!strcmp(fam, "gssv")) {
        long nprocs = rd_int(); hdr_t a; rd_hdr(&a); long bnc = rd_int(), blda = rd_int(), bs = rd_int(), bd = rd_int(), bm = rd_int();
        put_hdr(&Ah, &a); hdr_t b = {N, bnc, bs, bd, bm}; put_hdr(&Bh, &b); Bst.lda = (int_t)blda;
        SuperMatrix Lo, Uo; memset(&Lo, 0, sizeof Lo); memset(&Uo, 0, sizeof Uo);
        uint64_t lo0 = fnv(H0, &Lo, sizeof Lo) ^ fnv(H0, &Uo, sizeof Uo);
        CALL(PP(gssv)((int_t)nprocs, &Ah, pc, pr, &Lo, &Uo, &Bh, &info));
        /* L and U are outputs here: the (zeroed) output headers stand in for group L / U */
        before[3] = lo0; after[3] = fnv(H0, &Lo, sizeof Lo) ^ fnv(H0, &Uo, sizeof Uo); before[4] = after[4] = 0;
    } else if (!strcmp(fam, "gssvx")) {
        long nprocs = rd_int(), fact = rd_int(), trans = rd_int(), refact = rd_int(), usepr = rd_int(), lwork = rd_int();
        hdr_t a; rd_hdr(&a); long eq = rd_int();
        long nr = rd_int(); for (long i = 0; i < nr; i++) { long v = rd_int(); if (i < 64) Rv[i] = (real_t)v; }
        long nc = rd_int(); for (long i = 0; i < nc; i++) { long v = rd_int(); if (i < 64) Cv[i] = (real_t)v; }
        long bnc = rd_int(), blda = rd_int(), bs = rd_int(), bd = rd_int(), bm = rd_int();
        long xnc = rd_int(), xlda = rd_int(), xs = rd_int(), xd = rd_int(), xm = rd_int();
        put_hdr(&Ah, &a); hdr_t b = {N, bnc, bs, bd, bm}; put_hdr(&Bh, &b); Bst.lda = (int_t)blda;
        hdr_t x = {N, xnc, xs, xd, xm}; put_hdr(&Xh, &x); Xst.lda = (int_t)xlda;
        superlumt_options_t o; memset(&o, 0, sizeof o);
        o.nprocs = (int_t)nprocs; o.fact = (fact_t)fact; o.trans = (trans_t)trans; o.refact = (yes_no_t)refact; o.usepr = (yes_no_t)usepr;
        o.panel_size = sp_ienv(1); o.relax = sp_ienv(2); o.diag_pivot_thresh = 1.0; o.drop_tol = 0.0; o.SymmetricMode = NO; o.PrintStat = NO;
        o.perm_c = 0; o.perm_r = 0; o.lwork = (int_t)lwork; o.work = lwork > 0 ? malloc((size_t)lwork) : 0;
        o.etree = intMalloc(N + 1); o.colcnt_h = intMalloc(N + 1); o.part_super_h = intMalloc(N + 1);
        equed_t equed = (equed_t)eq; real_t *ferr = outs + 4, *berr = outs + 4 + NCMAX + 1;
        CALL(PP(gssvx)((int_t)nprocs, &o, &Ah, pc, pr, &equed, Rv, Cv, &Lh, &Uh, &Bh, &Xh, &outs[0], &outs[1], ferr, berr, &mu, &info));
        pre_equed = ((long)equed != eq); pre_pc = (o.perm_c != 0); pre_pr = (o.perm_r != 0);
    } else if (!strcmp(fam, "gstrs")) {
        long trans = rd_int(); hdr_t l, u; rd_hdr(&l); rd_hdr(&u); long blda = rd_int(), bs = rd_int(), bd = rd_int(), bm = rd_int();
        put_hdr(&Lh, &l); put_hdr(&Uh, &u); hdr_t b = {N, NRHS, bs, bd, bm}; put_hdr(&Bh, &b); Bst.lda = (int_t)blda;
        Gstat_t G; StatAlloc(N, 1, sp_ienv(1), sp_ienv(2), &G); StatInit(N, 1, &G);
        CALL(P(gstrs)((trans_t)trans, &Lh, &Uh, pr, pc, &Bh, &G, &info));
    } else if (!strcmp(fam, "gsrfs")) {
        long trans = rd_int(); hdr_t a, l, u; rd_hdr(&a); rd_hdr(&l); rd_hdr(&u); long eq = rd_int();
        long blda = rd_int(), bs = rd_int(), bd = rd_int(), bm = rd_int(), xlda = rd_int(), xs = rd_int(), xd = rd_int(), xm = rd_int();
        put_hdr(&Ah, &a); put_hdr(&Lh, &l); put_hdr(&Uh, &u);
        hdr_t b = {N, NRHS, bs, bd, bm}; put_hdr(&Bh, &b); Bst.lda = (int_t)blda; hdr_t x = {N, NRHS, xs, xd, xm}; put_hdr(&Xh, &x); Xst.lda = (int_t)xlda;
        memcpy(b_val, rhs_val, sizeof b_val);   /* B = the original right-hand side, X = its solution */
        Gstat_t G; StatAlloc(N, 1, sp_ienv(1), sp_ienv(2), &G); StatInit(N, 1, &G); real_t *ferr = outs + 4, *berr = outs + 4 + NCMAX + 1;
        CALL(P(gsrfs)((trans_t)trans, &Ah, &Lh, &Uh, pr, pc, (equed_t)eq, Rv, Cv, &Bh, &Xh, ferr, berr, &G, &info));
    } else if (!strcmp(fam, "gscon")) {
        long norm = rd_int(); hdr_t l, u; rd_hdr(&l); rd_hdr(&u); put_hdr(&Lh, &l); put_hdr(&Uh, &u);
        char nm[2] = {(char)norm, 0};
        CALL(P(gscon)(nm, &Lh, &Uh, (real_t)1.0, &outs[0], &info));
    } else if (!strcmp(fam, "gsequ")) {
        hdr_t a; rd_hdr(&a); put_hdr(&Ah, &a);
        CALL(P(gsequ)(&Ah, Rv, Cv, &outs[0], &outs[1], &outs[2], &info));
    } else if (!strcmp(fam, "trsv")) {
        long uplo = rd_int(), trans = rd_int(), diag = rd_int(); hdr_t l, u; rd_hdr(&l); rd_hdr(&u); put_hdr(&Lh, &l); put_hdr(&Uh, &u);
        char s1[2] = {(char)uplo, 0}, s2[2] = {(char)trans, 0}, s3[2] = {(char)diag, 0};
        CALL(SP(trsv)(s1, s2, s3, &Lh, &Uh, x_val, &info));
    } else if (!strcmp(fam, "gemv")) {
        long trans = rd_int(); hdr_t a; rd_hdr(&a); long incx = rd_int(), incy = rd_int(); put_hdr(&Ah, &a);
        char s1[2] = {(char)trans, 0}; elem_t alpha, beta; set_elem(&beta, 1, 0);
        /* non-unit strides are "Not implemented" (abort) in the library: those accepted calls take the documented quick return */
        set_elem(&alpha, (incx == 1 && incy == 1) ? 1 : 0, 0);
        info_valid = 0;
        CALL(SP(gemv)(s1, alpha, &Ah, x_val, (int_t)incx, beta, b_val, (int_t)incy));
    } else { fprintf(stderr, "script: unknown family %s\n", fam); exit(3); }
    report(id, fam);
}

static void skip_op(const char *fam) { /* parent: consume the op's tokens */
    int k = 0;
    if (!strcmp(fam, "gssv")) k = 11; else if (!strcmp(fam, "gstrs")) k = 15; else if (!strcmp(fam, "gsrfs")) k = 25;
    else if (!strcmp(fam, "gscon")) k = 11; else if (!strcmp(fam, "gsequ")) k = 5; else if (!strcmp(fam, "trsv")) k = 13;
    else if (!strcmp(fam, "gemv")) k = 8;
    else if (!strcmp(fam, "gssvx")) { for (int i = 0; i < 12; i++) rd_int(); long nr = rd_int(); for (long i = 0; i < nr; i++) rd_int();
        long nc = rd_int(); for (long i = 0; i < nc; i++) rd_int(); k = 10; }
    else { fprintf(stderr, "script: unknown family %s\n", fam); exit(3); }
    for (int i = 0; i < k; i++) rd_int();
}

int main(int argc, char **argv) {
    if (argc < 3) { fprintf(stderr, "usage: %s script out\n", argv[0]); return 2; }
    load_script(argv[1]); out = fopen(argv[2], "w");
    if (!out) { perror("open"); return 2; }
    /* base system */
    for (int i = 0; i < 11; i++) set_elem(&a_val[i], a_re[i], a_im[i]);
    P(Create_CompCol_Matrix)(&A0, N, N, 11, a_val, a_rowind, a_colptr, SLU_NC, DT, SLU_GE);
    for (int j = 0; j < NCMAX; j++) for (int i = 0; i < LDMAX; i++) { set_elem(&b_val[j * LDMAX + i], (i + 2 * j) % 5 - 1, (i * j) % 3 - 1); set_elem(&x_val[j * LDMAX + i], 0, 0); }
    memcpy(rhs_val, b_val, sizeof b_val);
    P(Create_Dense_Matrix)(&B0, N, NRHS, b_val, LDMAX, SLU_DN, DT, SLU_GE);
    P(Create_Dense_Matrix)(&X0, N, NRHS, x_val, LDMAX, SLU_DN, DT, SLU_GE);
    for (int i = 0; i < N; i++) { perm_c0[i] = i; perm_r0[i] = i; }
    { int_t inf = -1; PP(gssv)(1, &A0, perm_c0, perm_r0, &L0, &U0, &B0, &inf);
      if (inf != 0 || xerbla_calls) { fprintf(stderr, "base factorization failed info=%ld\n", (long)inf); return 4; } }
    memcpy(x_val, b_val, sizeof b_val);        /* X0 := solution */
    memcpy(b_val, rhs_val, sizeof b_val);      /* B0 := right-hand side again */
    fprintf(out, "base n %d nrhs %d ld %d prec %c\n", N, NRHS, LDMAX, PRECCH); fflush(out);
    while (next_tok()) {
        if (!strcmp(tok, "prec")) { next_tok(); if (tok[0] != PRECCH) { fprintf(stderr, "script is for precision %s\n", tok); return 3; } }
        else if (!strcmp(tok, "op")) {
            long id = rd_int(); next_tok(); char fam[32]; strncpy(fam, tok, 31); fam[31] = 0;
            long pos = cur; fflush(out);
            pid_t pid = fork();
            if (pid == 0) { run_op(id, fam); fflush(out); _exit(0); }
            int st = 0; waitpid(pid, &st, 0);
            fseek(out, 0, SEEK_END);
            if (!(WIFEXITED(st) && WEXITSTATUS(st) == 0)) { fprintf(out, "crash %ld %d\n", id, st); fflush(out); }
            cur = pos; skip_op(fam);
        }
        else if (!strcmp(tok, "quit")) break;
        else { fprintf(stderr, "script: unknown token %s\n", tok); return 3; }
    }
    fprintf(out, "done\n"); fclose(out);
    return 0;
}
