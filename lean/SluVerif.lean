import SluVerif.Model.Perm
import SluVerif.Model.Check
import SluVerif.Model.Sparse
