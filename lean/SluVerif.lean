import SluVerif.Model.Perm
import SluVerif.Model.Check
import SluVerif.Model.Sparse
import SluVerif.Props.Checkers
import SluVerif.Model.Pivot
import SluVerif.Proofs.PivotLemmas
import SluVerif.Props.C02
