/- engine `dynslots`: the dynamic L-supernode storage model (Model/Alloc.lean: dstep) replayed on the reservation / allocation events the
   real library logged through the hooks.
   input per case:  case <id> <nextlu before the first reservation> <nev> (r <leader> <count> <start logged> | a <leader> <num> <start logged>)*
   output: case <id> events <n> reserve_mismatch <k> alloc_mismatch <k> unmodelled <k> overruns <k> [first <leader> <used+num> <cap>]
   (an allocation for a leader without a dynamic reservation — relaxed supernodes, laid out by ?PresetMap — is `unmodelled`) -/
import SluVerif.Model.Alloc
import Driver.Tok
namespace Drv
open Slu

partial def dynLoop : RdM (Array String) := do
  let mut out : Array String := #[]
  while !(← atEnd) do
    expect "case"; let id ← next; let next0 ← nat; let nev ← nat
    let mut st : DState := { next := next0, slots := [] }
    let mut rm := 0; let mut am := 0; let mut um := 0; let mut ov := 0
    let mut first : String := ""
    for _ in [0:nev] do
      let k ← next; let l ← nat; let v ← nat; let logged ← nat
      if k == "r" then
        if st.next != logged then rm := rm + 1
        st := (dstep st (.reserve l v)).1
      else
        match st.slots.find? (fun t => t.leader = l) with
        | none => um := um + 1
        | some s =>
          let r := dstep st (.alloc l v)
          match r.2 with
          | some e => if e.1 != logged then am := am + 1
          | none => am := am + 1
          if s.used + v > s.cap then
            ov := ov + 1
            if first == "" then first := s!" first {l} {s.used + v} {s.cap}"
          st := r.1
    out := out.push s!"case {id} events {nev} reserve_mismatch {rm} alloc_mismatch {am} unmodelled {um} overruns {ov}{first}"
  return out

def dynSlotsMain (input : String) : IO UInt32 := do
  match (dynLoop.run { toks := tokenize input }) with
  | .ok (lines, _) => for l in lines do IO.println l
                      return 0
  | .error e => IO.eprintln s!"dynslots: {e}"; return 2

end Drv
