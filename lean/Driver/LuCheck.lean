/- engine `lucheck`: reads factorization dumps (integers only), runs the verified checkers of
   Model/Check.lean + Model/Sparse.lean, prints one verdict line per case. -/
import Driver.Tok
import SluVerif.Model.Sparse
open Slu
namespace Drv

structure LuCase where
  id : String
  n : Nat
  p : Nat
  E : Int
  klu : Nat
  kres : Nat
  uNum : Int
  uDen : Int
  A : Array (Nat × Nat × Int)        -- scaled by 2^E
  permr : Array Int
  permc : Array Int
  L : SCP
  U : NCP
  trans : Bool                       -- library factored Aᵀ (row-wise storage): residual is for Fᵀ x = b
  B : Array (Array Int)              -- per rhs, scaled by 2^(2E)
  X : Array (Array Int)              -- scaled by 2^E

def readSnode (E : Int) : RdM Snode := do
  expect "sup"
  let f ← nat; let e ← nat; let rowBeg ← int; let nr ← nat
  let rows ← ints nr
  let mut nzBeg := #[]; let mut vals := #[]
  for _ in [f:e] do
    expect "col"
    let b ← int; let k ← nat
    nzBeg := nzBeg.push b
    vals := vals.push (← dys E k)
  return { f, e, rowBeg, rows, nzBeg, vals }

def readCase : RdM LuCase := do
  expect "case"; let id ← next
  expect "n"; let n ← nat; expect "p"; let p ← nat; expect "E"; let E ← int
  expect "klu"; let klu ← nat; expect "kres"; let kres ← nat
  expect "thresh"; let uNum ← int; let uDen ← int
  expect "A"; let nnz ← nat
  let mut A := Array.mkEmpty nnz
  for _ in [0:nnz] do
    let i ← nat; let j ← nat; let v ← dy E
    A := A.push (i, j, v)
  let permr ← namedInts "permr"; let permc ← namedInts "permc"
  expect "L"; let lnnz ← int; let nsuper ← int; let nsn ← nat
  let colToSup ← namedInts "colToSup"; let supBeg ← namedInts "supBeg"; let supEnd ← namedInts "supEnd"
  let rowBegA ← namedInts "rowBegA"; let rowEndA ← namedInts "rowEndA"
  let nzBegA ← namedInts "nzBegA"; let nzEndA ← namedInts "nzEndA"
  let mut sn := #[]
  for _ in [0:nsn] do sn := sn.push (← readSnode E)
  let L : SCP := { n, nnz := lnnz, nsuper, colToSup, supBeg, supEnd, rowBegA, rowEndA, nzBegA, nzEndA, sn }
  expect "U"; let unnz ← int
  let mut cols := #[]
  for _ in [0:n] do
    expect "ucol"; let b ← int; let k ← nat
    let rows ← ints k; let vals ← dys E k
    cols := cols.push ({ beg := b, rows, vals } : UCol)
  let U : NCP := { n, nnz := unnz, cols }
  expect "B"; let nrhs ← nat; let tr ← nat
  let mut B := #[]; let mut X := #[]
  for _ in [0:nrhs] do
    expect "b"; B := B.push (← dys (2 * E) n)
    expect "x"; X := X.push (← dys E n)
  expect "end"
  return { id, n, p, E, klu, kres, uNum, uDen, A, permr, permc, L, U, trans := tr != 0, B, X }

def b01 (b : Bool) : String := if b then "1" else "0"

def denseOfTriples (n : Nat) (A : Array (Nat × Nat × Int)) (mul : Int) : Array (Array Int) :=
  A.foldl (fun acc (i, j, v) =>
      acc.modify i (fun row => row.setIfInBounds j (row.getD j 0 + v * mul))) (Array.replicate n (Array.replicate n 0))

def checkCase (c : LuCase) : String := Id.run do
  let n := c.n
  let wfL := c.L.wf
  let wfU := c.U.wf c.L
  let okr := checkPerm n c.permr
  let okc := checkPerm n c.permc
  if !(wfL && wfU && okr && okc) then
    return s!"case {c.id} wfL={b01 wfL} wfU={b01 wfU} permr={b01 okr} permc={b01 okc} lower=- upper=- lu=- mult=- resid=- bad={String.join (c.L.wfParts.map b01)}"
  let Uma := tabArr n (entryU c.L c.U)
  let Um : Mat := fun i j => getM Uma i j
  -- A is on scale 2^E, L and U on 2^E each, so L*U is on 2^(2E): bring A to 2^(2E)
  let s := (-c.E).toNat
  let one : Int := (2 : Int) ^ s
  let L2a := tabArr n (c.L.entryL one)
  let L2 : Mat := fun i j => getM L2a i j
  let A1a := denseOfTriples n c.A 1
  let A1 : Mat := fun i j => getM A1a i j
  let A2a := denseOfTriples n c.A one
  let A2 : Mat := fun i j => getM A2a i j
  let pr : Nat → Nat := fun i => (geti c.permr i).toNat
  let pc : Nat → Nat := fun j => (geti c.permc j).toNat
  let lower := isUnitLower n L2 one
  let upper := isUpper n Um
  let num := gammaNum c.klu; let den := gammaDen c.p c.klu
  let lu := checkLU n A2 L2 Um pr pc num den
  let bad := if lu then none else firstBadLU n A2 L2 Um pr pc num den
  -- multipliers: |l| ≤ (1/u)(1 + 4·2^-p)
  let mult := checkMultipliers n L2 one c.uNum c.uDen 4 ((2 : Int) ^ c.p)
  let pcInvA := invPerm n c.permc
  let pcInv : Nat → Nat := fun j => pcInvA.getD j 0
  let diag := checkDiagPref n L2 one pr pcInv c.uNum c.uDen 1 ((2 : Int) ^ 30)
  let numr := gammaNum c.kres; let denr := gammaDen c.p c.kres
  let Wa := tabArr n (boundW n L2 Um pr pc)
  let W : Mat := if c.trans then fun i j => getM Wa j i else fun i j => getM Wa i j
  let Ar : Mat := if c.trans then fun i j => getM A1a j i else A1
  let mut resid := true
  for r in [0:c.B.size] do
    let b : Vec := fun i => geti (c.B.getD r #[]) i
    let x : Vec := fun i => geti (c.X.getD r #[]) i
    -- A (2^E) * x (2^E) on 2^(2E) like b; bound |L||U||x| on 2^(3E): shift residual by s
    if !(checkResidual n Ar W b x s numr denr) then resid := false
  let badS := match bad with | some (i, j) => s!"{i},{j}" | none => "-"
  return s!"case {c.id} wfL=1 wfU=1 permr=1 permc=1 lower={b01 lower} upper={b01 upper} lu={b01 lu} mult={b01 mult} diag={b01 diag} resid={b01 resid} bad={badS}"

partial def lucheckLoop : RdM (Array String) := do
  let mut out := #[]
  while !(← atEnd) do
    let c ← readCase
    out := out.push (checkCase c)
  return out

def lucheckMain (input : String) : IO UInt32 := do
  match (lucheckLoop.run { toks := tokenize input }) with
  | .ok (lines, _) => for l in lines do IO.println l
                      return 0
  | .error e => IO.eprintln s!"lucheck: {e}"; return 2

end Drv
