import Driver.LuCheck
import Driver.PivotEng
import Driver.FactorEng
import Driver.SchedEng
import Driver.FixupEng
import Driver.ArgCheck
import Driver.Equil
import Driver.Read
import Driver.Blas
import Driver.Pre
import Driver.Lacon
import Driver.Rfs
import Driver.UStackEng
import Driver.LedgerEng
import Driver.DynSlots
import Driver.CLuCheck

def readAll (h : IO.FS.Stream) : IO String := do
  let mut acc := ""
  repeat
    let line ← h.getLine
    if line.isEmpty then break
    acc := acc ++ line
  return acc

def main (args : List String) : IO UInt32 := do
  let stdin ← IO.getStdin
  match args with
  | ["lucheck"] => Drv.lucheckMain (← readAll stdin)
  | ["pivot"] => Drv.pivotMain (← readAll stdin)
  | ["factor"] => Drv.factorMain (← readAll stdin)
  | ["read"] => Drv.readMain (← readAll stdin)
  | ["lacon"] => Drv.laconMain (← readAll stdin)
  | ["rfs"] => Drv.rfsMain (← readAll stdin)
  | ["pre"] => Drv.preMain (← readAll stdin)
  | ["blas"] => Drv.blasMain (← readAll stdin)
  | ["equil"] => Drv.equilMain (← readAll stdin)
  | ["argcheck"] => Drv.argcheckMain (← readAll stdin)
  | ["fixup"] => Drv.fixupMain (← readAll stdin)
  | ["ustack", iw, dw] => Drv.ustackMain (← readAll stdin) (iw.toInt?.getD 4) (dw.toInt?.getD 8)
  | ["clucheck"] => Drv.clucheckMain (← readAll stdin)
  | ["ledger"] => Drv.ledgerMain (← readAll stdin)
  | ["dynslots"] => Drv.dynSlotsMain (← readAll stdin)
  | ["schedtrace"] => Drv.schedTraceMain (← readAll stdin)
  | ["schedexplore"] => Drv.schedExploreMain (← readAll stdin)
  | _ => IO.eprintln "usage: sludrv <engine>   (input on stdin)"; return 2
