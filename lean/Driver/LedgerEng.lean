/- engine `ledger`: the verified ledger judge (Model/Ledger.lean) on allocation traces logged by the harness
   input per case:  case <id> <mode: call|balanced> <nev> (a <id> | f <id or -1>)* ret <k> ids...  -/
import SluVerif.Model.Ledger
import Driver.Tok
namespace Drv
open Slu

partial def ledgerLoop : RdM (Array String) := do
  let mut out : Array String := #[]
  while !(← atEnd) do
    expect "case"; let id ← next; let mode ← next; let nev ← nat
    let mut tr : Array LEv := #[]
    for _ in [0:nev] do
      let k ← next; let v ← int
      if k == "a" then tr := tr.push (.alloc v.toNat)
      else tr := tr.push (.free (if v < 0 then none else some v.toNat))
    expect "ret"; let nr ← nat
    let ret ← (List.range nr).mapM fun _ => nat
    let trl := tr.toList
    let legal := (replayL [] trl).isSome
    if mode == "balanced" then
      let ok := checkBalanced trl
      let lk := leaked trl []
      out := out.push s!"case {id} legal={if legal then 1 else 0} ok={if ok then 1 else 0} leaked{String.join (lk.map fun b => s!" {b}")}"
    else
      let ok := checkCall trl ret
      let lk := leaked trl ret
      out := out.push s!"case {id} legal={if legal then 1 else 0} ok={if ok then 1 else 0} leaked{String.join (lk.map fun b => s!" {b}")}"
  return out

def ledgerMain (input : String) : IO UInt32 := do
  match (ledgerLoop.run { toks := tokenize input }) with
  | .ok (lines, _) => for l in lines do IO.println l
                      return 0
  | .error e => IO.eprintln s!"ledger: {e}"; return 2

end Drv
