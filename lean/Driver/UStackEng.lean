/- engine `ustack`: the user-workspace allocator model (Model/UserStack.lean: `setupSpace`, `ustep`) run on h_stack scripts -/
import SluVerif.Model.UserStack
import Driver.Tok
namespace Drv
open Slu

def showO : Option Int → String
  | some v => s!"{v}"
  | none => "NULL"

def showOut (tag : String) : UOut → String
  | .ptr p => s!"{tag} {showO p}"
  | .unit => tag
  | .work rc i d => s!"wi {rc} {showO i} {showO d}"
  | .sysWork => "wi 0 sys sys"
  | .two (some a) (some b) => s!"probe {a} {b}"
  | .two _ _ => "probe full"

partial def ustackLoop (iword dword : Int) : RdM (Array String) := do
  let mut out : Array String := #[]
  let mut K : UParams := { iword, dword, maxsuper := 4, rowblk := 4, base8 := 0 }
  let mut u : UState := { mode := .system, st := UStack.setup 0 }      -- static initialisation of the C file: whichspace = SYSTEM (0), stack zeroed
  while !(← atEnd) do
    let t ← next
    match t with
    | "case" =>
      let id ← next; let ms ← int; let rb ← int; let b8 ← int; let lw ← int
      K := { iword, dword, maxsuper := ms, rowblk := rb, base8 := b8 }
      u := setupSpace u lw                      -- the state of the previous case is what `old` is
      out := out.push s!"case {id}"
    | "mh" => let b ← int; let r := ustep K u (.mh b); u := r.1; out := out.push (showOut "mh" r.2)
    | "mt" => let b ← int; let r := ustep K u (.mt b); u := r.1; out := out.push (showOut "mt" r.2)
    | "fh" => let b ← int; let r := ustep K u (.fh b); u := r.1; out := out.push (showOut "fh" r.2)
    | "ft" => let b ← int; let r := ustep K u (.ft b); u := r.1; out := out.push (showOut "ft" r.2)
    | "wi" => let _k ← nat; let n ← int; let w ← int; let r := ustep K u (.wi n w); u := r.1; out := out.push (showOut "wi" r.2)
    | "wf" => let _k ← nat; let r := ustep K u .wf; u := r.1; out := out.push (showOut "wf" r.2)
    | "probe" => let r := ustep K u .probe; u := r.1; out := out.push (showOut "probe" r.2)
    | other => throw s!"ustack: unknown op {other}"
  return out.push "done"

def ustackMain (input : String) (iword dword : Int) : IO UInt32 := do
  match ((ustackLoop iword dword).run { toks := tokenize input }) with
  | .ok (lines, _) => for l in lines do IO.println l
                      return 0
  | .error e => IO.eprintln s!"ustack: {e}"; return 2

end Drv
