/- engine `ustack`: the user-workspace allocator model (Model/UserStack.lean) run on h_stack scripts -/
import SluVerif.Model.UserStack
import Driver.Tok
namespace Drv
open Slu

structure USt where
  st : UStack := UStack.setup 0
  iword : Int := 4
  dword : Int := 8
  maxsuper : Int := 4
  rowblk : Int := 4
  base8 : Int := 0
  iw : Array (Option Int) := Array.replicate 64 none
  dw : Array (Option Int) := Array.replicate 64 none

def showO : Option Int → String
  | some v => s!"{v}"
  | none => "NULL"

partial def ustackLoop (iword dword : Int) : RdM (Array String) := do
  let mut out : Array String := #[]
  let mut u : USt := { iword, dword }
  while !(← atEnd) do
    let t ← next
    match t with
    | "case" =>
      let id ← next; let ms ← int; let rb ← int; let b8 ← int; let lw ← int
      u := { iword, dword, maxsuper := ms, rowblk := rb, base8 := b8, st := UStack.setup lw }
      out := out.push s!"case {id}"
    | "mh" => let b ← int; let (st', r) := u.st.mallocHead b; u := { u with st := st' }; out := out.push s!"mh {showO r}"
    | "mt" => let b ← int; let (st', r) := u.st.mallocTail b; u := { u with st := st' }; out := out.push s!"mt {showO r}"
    | "fh" => let b ← int; u := { u with st := u.st.freeHead b }; out := out.push "fh"
    | "ft" => let b ← int; u := { u with st := u.st.freeTail b }; out := out.push "ft"
    | "wi" =>
      let k ← nat; let n ← int; let w ← int
      let isz := iworkBytes n w u.iword
      let dsz := dworkBytes n w u.maxsuper u.rowblk u.dword
      -- ++tail_users; iwork; dwork (dsize + 8, aligned inside)
      let st1 := { u.st with tailUsers := u.st.tailUsers + 1 }
      let (st2, ri) := st1.mallocTail isz
      match ri with
      | none =>
        u := { u with st := st2, iw := u.iw.setIfInBounds k none, dw := u.dw.setIfInBounds k none }
        out := out.push s!"wi {isz + n} NULL NULL"
      | some oi =>
        let (st3, rd) := st2.mallocTail (dsz + 8)
        match rd with
        | none =>
          u := { u with st := st3, iw := u.iw.setIfInBounds k (some oi), dw := u.dw.setIfInBounds k none }
          out := out.push s!"wi {isz + dsz + n} {oi} NULL"
        | some od =>
          let a := alignUp u.base8 od
          u := { u with st := st3, iw := u.iw.setIfInBounds k (some oi), dw := u.dw.setIfInBounds k (some a) }
          out := out.push s!"wi 0 {oi} {a}"
    | "wf" =>
      let _k ← nat
      let tu := u.st.tailUsers - 1
      let st' := if tu ≤ 0 then { u.st with tailUsers := tu, used := u.st.used - (u.st.size - u.st.top2), top2 := u.st.size }
                 else { u.st with tailUsers := tu }
      u := { u with st := st' }
      out := out.push "wf"
    | "probe" =>
      let (s1, r1) := u.st.mallocHead 0
      let (s2, r2) := s1.mallocTail 0
      u := { u with st := s2 }
      match r1, r2 with
      | some a, some b => out := out.push s!"probe {a} {b}"
      | _, _ => out := out.push "probe full"
    | other => throw s!"ustack: unknown op {other}"
  return out.push "done"

def ustackMain (input : String) (iword dword : Int) : IO UInt32 := do
  match ((ustackLoop iword dword).run { toks := tokenize input }) with
  | .ok (lines, _) => for l in lines do IO.println l
                      return 0
  | .error e => IO.eprintln s!"ustack: {e}"; return 2

end Drv
