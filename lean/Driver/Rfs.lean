/- engine `rfs`: the model of ?gsrfs (Model/Rfs.lean) on the inputs the harness `h_rfs` handed to the real routine.
   The triangular solves are exact dense solves with the dumped factors and the permutation conventions of ?gstrs. -/
import Driver.Tok
import Driver.Lacon
import SluVerif.Model.Rfs
open Slu
namespace Drv

def readVec (name : String) (n : Nat) : RdM RVec := do
  expect name
  dyRs n

/-- `?gstrs(trans, L, U, perm_r, perm_c, B)` for one column, exact arithmetic.  `realConj`: in the real precisions
the routine rejects `CONJ` (xerbla, B untouched) — mirrored as the identity. -/
def gstrsModel (n : Nat) (Lm Um : Nat → Nat → Rat) (permr permc : Array Int) (realConj : Bool) (t : Trans) (b : RVec) : RVec :=
  let pr : Nat → Nat := fun i => (geti permr i).toNat
  let pc : Nat → Nat := fun i => (geti permc i).toNat
  let scatter (p : Nat → Nat) (v : RVec) : RVec :=
    (List.range n).foldl (fun acc k => acc.setIfInBounds (p k) (rget v k)) (Array.replicate n 0)
  let gather (p : Nat → Nat) (v : RVec) : RVec := rmk n fun k => rget v (p k)
  match t with
  | .NOTRANS => gather pc (solveUpper n Um (solveUnitLower n Lm (scatter pr b)))
  | .TRANS => gather pr (solveUnitLowerT n Lm (solveUpperT n Um (scatter pc b)))
  | .CONJ => if realConj then b else gather pr (solveUnitLowerT n Lm (solveUpperT n Um (scatter pc b)))

def rfsOp : RdM (Array String) := do
  let id ← next
  let transI ← nat; let equed ← nat; let n ← nat
  let eps ← dyR; let safmin ← dyR; let realConj ← nat
  let A ← readNC
  let Rv ← readVec "R" n; let Cv ← readVec "C" n
  let permr ← namedInts "permr"; let permc ← namedInts "permc"
  let (E, L, U) ← readLU n
  let (La, Ua) := denseLU n E L U
  let Lm : Nat → Nat → Rat := fun i j => getR La i j
  let Um : Nat → Nat → Rat := fun i j => getR Ua i j
  let trans : Trans := if transI = 0 then .NOTRANS else if transI = 1 then .TRANS else .CONJ
  let cfg : RfsCfg := { trans, rowequ := equed = 1 || equed = 3, colequ := equed = 2 || equed = 3, R := Rv, C := Cv, eps, safmin }
  let solve := gstrsModel n Lm Um permr permc (realConj != 0)
  expect "B"; let nrhs ← nat
  let mut Bs : List RVec := []; let mut Xs : List RVec := []
  for _ in [0:nrhs] do
    let b ← readVec "b" n; let x ← readVec "x" n
    Bs := Bs ++ [b]; Xs := Xs ++ [x]
  let res := gsrfs A cfg solve Bs Xs
  let mut out := #[s!"rfs {id} info {res.info} ferr {showV res.ferr.toArray} berr {showV res.berr.toArray}"]
  let mut j := 0
  for col in res.cols do
    let b := Bs.getD j #[]
    -- truthfulness on the model side: berr is ω of the returned x (instance of berr_of_returned_x)
    let om := omega A cfg b col.x
    let x0 := Xs.getD j #[]
    out := out.push s!"berrs {id} {j} {showV (refineBerrs A cfg solve b x0 3 0).toArray}"
    out := out.push s!"col {id} {j} count {col.count} berr {showR col.berr} omega {showR om} ferr {showR col.ferr} lstres {showR (xNormD n cfg col.x)} x {showV col.x} w {showV col.w}"
    let evs := laconTrace n (ferrOp1 n cfg solve col.w) (ferrOp2 n cfg solve col.w) laconFuel {} (laconInitIO n) #[]
    out := out ++ traceLines s!"{id}.{j}" evs
    j := j + 1
  return out

partial def rfsLoopM : RdM (Array String) := do
  let mut out := #[]
  while !(← atEnd) do
    let op ← next
    let lines ← match op with
      | "rfs" => rfsOp
      | _ => throw s!"unknown op {op}"
    out := out ++ lines
  return out

def rfsMain (input : String) : IO UInt32 := do
  match (rfsLoopM.run { toks := tokenize input }) with
  | .ok (lines, _) => for l in lines do IO.println l
                      return 0
  | .error e => IO.eprintln s!"rfs: {e}"; return 2

end Drv
