/- token reader shared by all sludrv engines (trusted I/O glue; integers only) -/
namespace Drv

structure Rd where
  toks : Array String
  pos : Nat := 0

abbrev RdM := StateT Rd (Except String)

def next : RdM String := do
  let s ← get
  if h : s.pos < s.toks.size then
    set { s with pos := s.pos + 1 }
    return s.toks[s.pos]
  else throw "unexpected end of input"

def peek? : RdM (Option String) := do
  let s ← get
  return s.toks[s.pos]?

def atEnd : RdM Bool := do
  let s ← get
  return s.pos ≥ s.toks.size

def expect (t : String) : RdM Unit := do
  let x ← next
  if x != t then throw s!"expected '{t}' got '{x}' at token {(← get).pos}"

def int : RdM Int := do
  let x ← next
  match x.toInt? with
  | some v => return v
  | none => throw s!"expected integer got '{x}' at token {(← get).pos}"

def nat : RdM Nat := do
  let v ← int
  if v < 0 then throw s!"expected natural got {v}" else return v.toNat

def ints (k : Nat) : RdM (Array Int) := do
  let mut a := Array.mkEmpty k
  for _ in [0:k] do a := a.push (← int)
  return a

/-- `name count v1 .. vcount` -/
def namedInts (name : String) : RdM (Array Int) := do
  expect name
  let k ← nat
  ints k

/-- dyadic `(m, e)` scaled to the common exponent `E`: `m * 2^(e-E)`; fails if `e < E`. -/
def dy (E : Int) : RdM Int := do
  let m ← int
  let e ← int
  if m == 0 then return 0
  if e < E then throw s!"exponent {e} below common scale {E}"
  return m * (2 : Int) ^ (e - E).toNat

def dys (E : Int) (k : Nat) : RdM (Array Int) := do
  let mut a := Array.mkEmpty k
  for _ in [0:k] do a := a.push (← dy E)
  return a

def tokenize (s : String) : Array String := Id.run do
  let mut out : Array String := #[]
  let mut cur : String := ""
  for c in s.toList do
    if c == ' ' || c == '\n' || c == '\t' || c == '\r' then
      if cur != "" then
        out := out.push cur
        cur := ""
    else cur := cur.push c
  if cur != "" then out := out.push cur
  return out

end Drv
