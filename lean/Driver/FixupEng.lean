/- engine `fixup`: Model/Fixup.lean on the states the C harness h_fixup.c consumed -/
import Driver.Tok
import SluVerif.Model.Fixup
open Slu
namespace Drv

def fixupCase : RdM String := do
  expect "case"; let id ← next
  let n ← nat; let nsuper ← nat; let nextl ← nat; let nextu ← nat
  let xsup ← ints (nsuper + 1); let xsupEnd ← ints (nsuper + 1); let lsub ← ints nextl
  let xlsub ← ints (n + 1); let xlsubEnd ← ints n; let permr ← ints n
  let g : GluL := { n, nsuper, xsup := xsup.map (·.toNat), xsupEnd := xsupEnd.map (·.toNat), lsub,
                    xlsub := xlsub.map (·.toNat), xlsubEnd := (xlsubEnd.map (·.toNat)).push 0 }
  let (nl, nu) := countnz g nextu
  let a := fixupL g permr
  let xl := String.join ((List.range (nsuper + 1)).map fun s => s!" {getN a.xlsub (getN g.xsup s)}:{getN a.xlsubEnd (getN g.xsup s)}")
  return s!"case {id} nnzL {nl} nnzU {nu}\nlsub {a.out.length}" ++ String.join (a.out.map fun v => s!" {v}") ++ "\nxl" ++ xl ++ "\n"

partial def fixupLoop : RdM (Array String) := do
  let mut out := #[]
  while !(← atEnd) do out := out.push (← fixupCase)
  return out

def fixupMain (input : String) : IO UInt32 := do
  match (fixupLoop.run { toks := tokenize input }) with
  | .ok (lines, _) => for l in lines do IO.print l
                      return 0
  | .error e => IO.eprintln s!"fixup: {e}"; return 2
end Drv
