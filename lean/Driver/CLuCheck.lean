/- engine `clucheck`: complex factorization dumps as two integer blocks (real parts, imaginary parts, one scale);
   structure checks on the shared index structure, numerical checks through the verified embedded judge (Model/CheckC.lean) -/
import Driver.LuCheck
import SluVerif.Model.CheckC
open Slu
namespace Drv

def checkCaseC (cr ci : LuCase) : String := Id.run do
  let n := cr.n
  let wfL := cr.L.wf
  let wfU := cr.U.wf cr.L
  let okr := checkPerm n cr.permr
  let okc := checkPerm n cr.permc
  if !(wfL && wfU && okr && okc) then
    return s!"case {cr.id} wfL={b01 wfL} wfU={b01 wfU} permr={b01 okr} permc={b01 okc} lower=- upper=- lu=- mult=- resid=- bad={String.join (cr.L.wfParts.map b01)}"
  let s := (-cr.E).toNat
  let one : Int := (2 : Int) ^ s
  let Ura := tabArr n (entryU cr.L cr.U); let Uia := tabArr n (entryU ci.L ci.U)
  let Ur : Mat := fun i j => getM Ura i j
  let Ui : Mat := fun i j => getM Uia i j
  let Lra := tabArr n (cr.L.entryL one); let Lia := tabArr n (ci.L.entryL 0)
  let Lr : Mat := fun i j => getM Lra i j
  let Li : Mat := fun i j => getM Lia i j
  let Ara := denseOfTriples n cr.A one; let Aia := denseOfTriples n ci.A one
  let Ar : Mat := fun i j => getM Ara i j
  let Ai : Mat := fun i j => getM Aia i j
  let pr : Nat → Nat := fun i => (geti cr.permr i).toNat
  let pc : Nat → Nat := fun j => (geti cr.permc j).toNat
  let lower := isUnitLower n Lr one && isUnitLower n Li 0
  let upper := isUpper n Ur && isUpper n Ui
  let num := gammaNum cr.klu; let den := gammaDen cr.p cr.klu
  -- tabulate the embedded operands once (the judge is cubic in 2n)
  let Lea := tabArr (2 * n) (embedM n Lr Li); let Uea := tabArr (2 * n) (embedM n Ur Ui); let Aea := tabArr (2 * n) (embedM n Ar Ai)
  let Le : Mat := fun i j => getM Lea i j
  let Ue : Mat := fun i j => getM Uea i j
  let Ae : Mat := fun i j => getM Aea i j
  let pre := embedP n pr; let pce := embedP n pc
  let lu := checkLU (2 * n) Ae Le Ue pre pce num den
  let bad := if lu then none else firstBadLU (2 * n) Ae Le Ue pre pce num den
  -- residual of the embedded real system  [[Ar,-Ai],[Ai,Ar]] [xr;xi] = [br;bi]
  let A1ra := denseOfTriples n cr.A 1; let A1ia := denseOfTriples n ci.A 1
  -- for row-wise storage the library factored Fᵀ: the system judged is the plain (not conjugate) transpose
  let A1e : Mat := if cr.trans then embedM n (fun i j => getM A1ra j i) (fun i j => getM A1ia j i)
                   else embedM n (fun i j => getM A1ra i j) (fun i j => getM A1ia i j)
  let numr := gammaNum cr.kres; let denr := gammaDen cr.p cr.kres
  let Wa := tabArr (2 * n) (boundW (2 * n) Le Ue pre pce)
  let W : Mat := if cr.trans then fun i j => getM Wa j i else fun i j => getM Wa i j
  let Aer : Mat := A1e
  let mut resid := true
  for r in [0:cr.B.size] do
    let b : Vec := embedV n (fun i => geti (cr.B.getD r #[]) i) (fun i => geti (ci.B.getD r #[]) i)
    let x : Vec := embedV n (fun i => geti (cr.X.getD r #[]) i) (fun i => geti (ci.X.getD r #[]) i)
    if !(checkResidual (2 * n) Aer W b x s numr denr) then resid := false
  let badS := match bad with | some (i, j) => s!"{i},{j}" | none => "-"
  return s!"case {cr.id} wfL=1 wfU=1 permr=1 permc=1 lower={b01 lower} upper={b01 upper} lu={b01 lu} mult=- diag=- resid={b01 resid} bad={badS}"

partial def clucheckLoop : RdM (Array String) := do
  let mut out := #[]
  while !(← atEnd) do
    let cr ← readCase
    let ci ← readCase
    out := out.push (checkCaseC cr ci)
  return out

def clucheckMain (input : String) : IO UInt32 := do
  match (clucheckLoop.run { toks := tokenize input }) with
  | .ok (lines, _) => for l in lines do IO.println l
                      return 0
  | .error e => IO.eprintln s!"clucheck: {e}"; return 2

end Drv
