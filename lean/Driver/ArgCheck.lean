/- engine `argcheck`: reads the SAME operation lines as harness/h_args.c (integers only), builds the argument record,
   evaluates (a) the chain generated from /repo/SRC (Gen/ArgCheck.lean), (b) the documented table
   (Model/ArgDoc.lean), (c) the exclusion of the routine's `_partial` theorem, and prints one line per operation:

     res <id> <routine> chain <Check a> doc <docInfo a> hyp <0|1> valid <0|1> name |<xerbla name>|

   script:  prec <s|d|c|z>   then   op <id> <family> <fields...>   ...   quit -/
import Driver.Tok
import SluVerif.Proofs.ArgCoded
open Slu Slu.Arg Slu.Gen Slu.Doc
namespace Drv

def dtOf (p : String) : Int :=
  if p == "s" then SLU_S else if p == "d" then SLU_D else if p == "c" then SLU_C else SLU_Z

/-- pick the precision's variant -/
def pick {α : Type} (p : String) (s d c z : α) : α :=
  if p == "s" then s else if p == "d" then d else if p == "c" then c else z

def b01' (b : Bool) : String := if b then "1" else "0"

def resLine (id fn : String) (chain doc : Int) (hyp valid : Bool) (name : String) : String :=
  s!"res {id} {fn} chain {chain} doc {doc} hyp {b01' hyp} valid {b01' valid} name |{name}|"

def intList : RdM (List Int) := do
  let k ← nat
  let a ← ints k
  return a.toList

def oneOp (p : String) : RdM String := do
  let id ← next
  let fam ← next
  let dt := dtOf p
  match fam with
  | "gssv" =>
    let v_nprocs ← int; let an ← int; let ac ← int; let ast ← int; let adt ← int; let amt ← int
    let bc ← int; let bl ← int; let bst ← int; let bdt ← int; let bmt ← int
    let a : GssvArgs := {
      nprocs := v_nprocs, A_nrow := an, A_ncol := ac, A_Stype := ast, A_Dtype := adt, A_Mtype := amt,
      B_ncol := bc, B_lda := bl, B_Stype := bst, B_Dtype := bdt, B_Mtype := bmt }
    let chk := (pick p psgssvCheck pdgssvCheck pcgssvCheck pzgssvCheck) a
    let hyp := decide (a.B_Stype = SLU_DN ∧ a.B_Dtype = dt ∧ a.B_Mtype = SLU_GE)
    return resLine id s!"p{p}gssv" chk (gssv.docInfo dt a) hyp (gssv.valid dt a)
      (pick p psgssvXerblaName pdgssvXerblaName pcgssvXerblaName pzgssvXerblaName)
  | "gssvx" =>
    let v_nprocs ← int; let v_fact ← int; let v_trans ← int; let v_refact ← int; let v_usepr ← int; let v_lwork ← int
    let an ← int; let ac ← int; let ast ← int; let adt ← int; let amt ← int
    let v_equed ← int; let R ← intList; let C ← intList
    let bc ← int; let bl ← int; let bst ← int; let bdt ← int; let bmt ← int
    let xc ← int; let xl ← int; let xst ← int; let xdt ← int; let xmt ← int
    let a : GssvxArgs := {
      nprocs := v_nprocs, superlumt_options_fact := v_fact, superlumt_options_trans := v_trans,
      superlumt_options_refact := v_refact, superlumt_options_usepr := v_usepr, superlumt_options_lwork := v_lwork,
      A_nrow := an, A_ncol := ac, A_Stype := ast, A_Dtype := adt, A_Mtype := amt, equed := v_equed, R := R, C := C,
      B_ncol := bc, B_lda := bl, B_Stype := bst, B_Dtype := bdt, B_Mtype := bmt,
      X_ncol := xc, X_lda := xl, X_Stype := xst, X_Dtype := xdt, X_Mtype := xmt,
      bignum := 1 }   -- any positive value: 1/?lamch("Safe minimum")
    let chk := (pick p psgssvxCheck pdgssvxCheck pcgssvxCheck pzgssvxCheck) a
    return resLine id s!"p{p}gssvx" chk (gssvx.docInfo dt a) true (gssvx.valid dt a)
      (pick p psgssvxXerblaName pdgssvxXerblaName pcgssvxXerblaName pzgssvxXerblaName)
  | "gstrs" =>
    let v_trans ← int
    let ln ← int; let lc ← int; let lst ← int; let ldt ← int; let lmt ← int
    let un ← int; let uc ← int; let ust ← int; let udt ← int; let umt ← int
    let bl ← int; let bst ← int; let bdt ← int; let bmt ← int
    let a : GstrsArgs := {
      trans := v_trans, L_nrow := ln, L_ncol := lc, L_Stype := lst, L_Dtype := ldt, L_Mtype := lmt,
      U_nrow := un, U_ncol := uc, U_Stype := ust, U_Dtype := udt, U_Mtype := umt,
      B_lda := bl, B_Stype := bst, B_Dtype := bdt, B_Mtype := bmt }
    let chk := (pick p sgstrsCheck dgstrsCheck cgstrsCheck zgstrsCheck) a
    let docConj := p == "s" || p == "d"      -- the s/d header lists CONJ, the c/z header does not
    return resLine id s!"{p}gstrs" chk (gstrs.docInfo docConj dt a) (decide (Coded.gstrsExcl docConj dt a)) (gstrs.valid docConj dt a)
      (pick p sgstrsXerblaName dgstrsXerblaName cgstrsXerblaName zgstrsXerblaName)
  | "gsrfs" =>
    let v_trans ← int
    let an ← int; let ac ← int; let ast ← int; let adt ← int; let amt ← int
    let ln ← int; let lc ← int; let lst ← int; let ldt ← int; let lmt ← int
    let un ← int; let uc ← int; let ust ← int; let udt ← int; let umt ← int
    let v_equed ← int
    let bl ← int; let bst ← int; let bdt ← int; let bmt ← int
    let xl ← int; let xst ← int; let xdt ← int; let xmt ← int
    let a : GsrfsArgs := {
      trans := v_trans, A_nrow := an, A_ncol := ac, A_Stype := ast, A_Dtype := adt, A_Mtype := amt,
      L_nrow := ln, L_ncol := lc, L_Stype := lst, L_Dtype := ldt, L_Mtype := lmt,
      U_nrow := un, U_ncol := uc, U_Stype := ust, U_Dtype := udt, U_Mtype := umt, equed := v_equed,
      B_lda := bl, B_Stype := bst, B_Dtype := bdt, B_Mtype := bmt,
      X_lda := xl, X_Stype := xst, X_Dtype := xdt, X_Mtype := xmt }
    let chk := (pick p sgsrfsCheck dgsrfsCheck cgsrfsCheck zgsrfsCheck) a
    return resLine id s!"{p}gsrfs" chk (gsrfs.docInfo dt a) (!gsrfs.violates_7 a) (gsrfs.valid dt a)
      (pick p sgsrfsXerblaName dgsrfsXerblaName cgsrfsXerblaName zgsrfsXerblaName)
  | "gscon" =>
    let v_norm ← int
    let ln ← int; let lc ← int; let lst ← int; let ldt ← int; let lmt ← int
    let un ← int; let uc ← int; let ust ← int; let udt ← int; let umt ← int
    let a : GsconArgs := {
      norm := v_norm, L_nrow := ln, L_ncol := lc, L_Stype := lst, L_Dtype := ldt, L_Mtype := lmt,
      U_nrow := un, U_ncol := uc, U_Stype := ust, U_Dtype := udt, U_Mtype := umt }
    let chk := (pick p sgsconCheck dgsconCheck cgsconCheck zgsconCheck) a
    return resLine id s!"{p}gscon" chk (gscon.docInfo dt a) true (gscon.valid dt a)
      (pick p sgsconXerblaName dgsconXerblaName cgsconXerblaName zgsconXerblaName)
  | "gsequ" =>
    let an ← int; let ac ← int; let ast ← int; let adt ← int; let amt ← int
    let a : GsequArgs := {
      A_nrow := an, A_ncol := ac, A_Stype := ast, A_Dtype := adt, A_Mtype := amt }
    let chk := (pick p sgsequCheck dgsequCheck cgsequCheck zgsequCheck) a
    return resLine id s!"{p}gsequ" chk (gsequ.docInfo dt a) true (gsequ.valid dt a)
      (pick p sgsequXerblaName dgsequXerblaName cgsequXerblaName zgsequXerblaName)
  | "trsv" =>
    let v_uplo ← int; let v_trans ← int; let v_diag ← int
    let ln ← int; let lc ← int; let lst ← int; let ldt ← int; let lmt ← int
    let un ← int; let uc ← int; let ust ← int; let udt ← int; let umt ← int
    let a : TrsvArgs := {
      uplo := v_uplo, trans := v_trans, diag := v_diag, L_nrow := ln, L_ncol := lc, L_Stype := lst, L_Dtype := ldt, L_Mtype := lmt,
      U_nrow := un, U_ncol := uc, U_Stype := ust, U_Dtype := udt, U_Mtype := umt }
    let chk := (pick p sp_strsvCheck sp_dtrsvCheck sp_ctrsvCheck sp_ztrsvCheck) a
    let cOk := p == "s" || p == "d"          -- s/d accept the documented 'C'; c/z reject it
    return resLine id s!"sp_{p}trsv" chk (trsv.docInfo dt a) (decide (Coded.trsvExcl cOk dt a)) (trsv.valid dt a)
      (pick p sp_strsvXerblaName sp_dtrsvXerblaName sp_ctrsvXerblaName sp_ztrsvXerblaName)
  | "gemv" =>
    let v_trans ← int
    let an ← int; let ac ← int; let ast ← int; let adt ← int; let amt ← int
    let v_incx ← int; let v_incy ← int
    let a : GemvArgs := {
      trans := v_trans, A_nrow := an, A_ncol := ac, A_Stype := ast, A_Dtype := adt, A_Mtype := amt, incx := v_incx, incy := v_incy }
    let chk := (pick p sp_sgemvCheck sp_dgemvCheck sp_cgemvCheck sp_zgemvCheck) a
    return resLine id s!"sp_{p}gemv" chk (gemv.docInfo dt a) (!gemv.types_3 dt a) (gemv.valid dt a)
      (pick p sp_sgemvXerblaName sp_dgemvXerblaName sp_cgemvXerblaName sp_zgemvXerblaName)
  | f => throw s!"unknown family {f}"

def argcheckAll : RdM (Array String) := do
  expect "prec"
  let p ← next
  if !(p == "s" || p == "d" || p == "c" || p == "z") then throw s!"bad precision {p}"
  let mut out : Array String := #[]
  repeat
    let t ← next
    if t == "quit" then break
    if t != "op" then throw s!"expected op/quit got {t}"
    out := out.push (← oneOp p)
  return out

def argcheckMain (input : String) : IO UInt32 := do
  match (argcheckAll.run { toks := tokenize input }) with
  | .ok (lines, _) =>
    let out ← IO.getStdout
    for l in lines do out.putStrLn l
    IO.println "done"
    return 0
  | .error e => IO.eprintln s!"argcheck: {e}"; return 3

end Drv
