/- engine `blas` (property C19): reads the operation lines that harness/h_blas.c consumed (integers and
   dyadic pairs `m e`, `nan` for an unset cell), runs Model/Blas.lean, prints canonical result lines.
   Scalars are exact rationals; an unset ("need not be set on input") cell is the poison value `nan`
   which every arithmetic operation propagates, like an IEEE NaN. -/
import Driver.Tok
import SluVerif.Model.Blas
open Slu Slu.Blas
namespace Drv.BlasEng

/-- poisonable rational: `none` = NaN -/
structure PV where
  v : Option Rat
  deriving DecidableEq, Inhabited

namespace PV
def lift2 (f : Rat → Rat → Rat) (a b : PV) : PV :=
  match a.v, b.v with
  | some x, some y => ⟨some (f x y)⟩
  | _, _ => ⟨none⟩
instance : Zero PV := ⟨⟨some 0⟩⟩
instance : One PV := ⟨⟨some 1⟩⟩
instance : Add PV := ⟨lift2 (· + ·)⟩
instance : Sub PV := ⟨lift2 (· - ·)⟩
instance : Mul PV := ⟨lift2 (· * ·)⟩
instance : Neg PV := ⟨fun a => ⟨a.v.map (- ·)⟩⟩
def show_ (a : PV) : String :=
  match a.v with
  | some q => s!"{q.num} {q.den}"
  | none => "nan"
end PV

/-- scalar types the engine can run the generic models on -/
class Sc (α : Type) extends Add α, Mul α, Zero α, One α where
  deq : DecidableEq α
  read : RdM α
  shw : α → String
  /-- exact `|a|` when it is rational (`z_abs` on the Pythagorean inputs the generator uses) -/
  absQ : α → Except String Rat
  /-- complex conjugate (identity on the real scalars): what `sp_?gemv` applies to the entries of A for `trans = 'C'` -/
  cj : α → α

instance {α} [s : Sc α] : DecidableEq α := s.deq

def pow2 (e : Int) : Rat := if e ≥ 0 then ((2 : Int) ^ e.toNat : Int) else 1 / (((2 : Int) ^ (-e).toNat : Int) : Rat)

def readPV : RdM PV := do
  match (← peek?) with
  | some "nan" => let _ ← next; return ⟨none⟩
  | _ =>
    let m ← int; let e ← int
    return ⟨some ((m : Rat) * pow2 e)⟩

def readRat : RdM Rat := do
  let m ← int; let e ← int
  return (m : Rat) * pow2 e

def ratSqrt? (q : Rat) : Option Rat :=
  if q < 0 then none else
  let a := q.num.toNat; let b := q.den
  let ra := Nat.sqrt a; let rb := Nat.sqrt b
  if ra * ra == a && rb * rb == b then some ((ra : Rat) / (rb : Rat)) else none

instance : Sc PV where
  deq := inferInstance
  read := readPV
  shw := PV.show_
  absQ a := match a.v with
    | some q => .ok (if q < 0 then -q else q)
    | none => .error "abs of nan"
  cj a := a

instance : Sc (Cx PV) where
  deq := inferInstance
  read := do let r ← readPV; let i ← readPV; return ⟨r, i⟩
  shw a := PV.show_ a.re ++ " " ++ PV.show_ a.im
  absQ a := match a.re.v, a.im.v with
    | some r, some i => match ratSqrt? (r * r + i * i) with
        | some s => .ok s
        | none => .error "irrational modulus"
    | _, _ => .error "abs of nan"
  cj a := Slu.Blas.Cx.conj a

section Generic
variable {α : Type} [Sc α]

def readArr (k : Nat) : RdM (Array α) := do
  let mut a := Array.mkEmpty k
  for _ in [0:k] do a := a.push (← Sc.read)
  return a

def cntArr : RdM (Array α) := do let k ← nat; readArr k

def nats (k : Nat) : RdM (Array Nat) := do
  let mut a := Array.mkEmpty k
  for _ in [0:k] do a := a.push (← nat)
  return a
def cntNats : RdM (Array Nat) := do let k ← nat; nats k

def showArr (a : Array α) : String :=
  s!"{a.size}" ++ String.join (a.toList.map fun v => " " ++ Sc.shw v)
def showNats (a : Array Nat) : String :=
  s!"{a.size}" ++ String.join (a.toList.map fun v => s!" {v}")

def readChar : RdM Char := do return Char.ofNat (← nat)

/-- `A m n nnz  <cnt colptr..> <cnt rowind..> <cnt vals..>` -/
def readNC : RdM (NCMat α) := do
  expect "A"
  let m ← int; let n ← int; let nnz ← nat
  let colptr ← cntNats; let rowind ← cntNats; let nzval ← cntArr
  return { nrow := m, ncol := n, nnz, colptr, rowind, nzval }

def opGemv (id : String) : RdM String := do
  let trans ← readChar
  let A : NCMat α ← readNC
  let alpha : α ← Sc.read; let beta : α ← Sc.read
  let incx ← int; let incy ← int
  let x : Array α ← cntArr; let y : Array α ← cntArr
  -- `trans = 'C'`: the routine multiplies with the conjugated entries (the generic model's transpose branch on conj(A))
  let A := if lsame trans 'C' then { A with nzval := A.nzval.map Sc.cj } else A
  match spGemv trans alpha A x incx beta y incy with
  | .xerbla k => return s!"res {id} gemv xerbla {k}"
  | .notImplemented => return s!"res {id} gemv abort"
  | .ok y' => return s!"res {id} gemv ok {showArr y'}"

def opGemm (id : String) : RdM String := do
  let trans ← readChar
  let _m ← int; let n ← int; let _k ← int
  let A : NCMat α ← readNC
  let alpha : α ← Sc.read; let beta : α ← Sc.read
  let ldb ← nat; let b : Array α ← cntArr
  let ldc ← nat; let c : Array α ← cntArr
  let A := if lsame trans 'C' then { A with nzval := A.nzval.map Sc.cj } else A
  let r := spGemm trans n alpha A b ldb beta c ldc
  if r.aborted then return s!"res {id} gemm abort"
  return s!"res {id} gemm calls {r.xerblaCalls} info {r.info} {showArr r.c}"

def showRat (q : Rat) : String := s!"{q.num} {q.den}"

def opLangs (id : String) : RdM String := do
  let norm ← readChar
  let A : NCMat α ← readNC
  -- exact absolute values first (fails on inputs outside the exact class)
  let mut absv : Array Rat := #[]
  for v in A.nzval do
    match Sc.absQ v with
    | .ok q => absv := absv.push q
    | .error e => throw s!"langs {id}: {e}"
  -- run the model on the index structure with |.| tabulated (absf = lookup of the value's slot)
  let B : NCMat Rat := { nrow := A.nrow, ncol := A.ncol, nnz := A.nnz, colptr := A.colptr, rowind := A.rowind, nzval := absv }
  match langs (fun (q : Rat) => q) norm B with
  | .val v => return s!"res {id} langs val {showRat v}"
  | .notImplemented => return s!"res {id} langs abort notimpl"
  | .illegal => return s!"res {id} langs abort illegal"

def opR2C (id : String) : RdM String := do
  let m ← nat; let n ← nat; let nnz ← nat
  let a : Array α ← cntArr; let colind ← cntNats; let rowptr ← cntNats
  let r := compRowToCompCol m n nnz a colind rowptr
  return s!"res {id} r2c at {showArr r.at_} rowind {showNats r.rowind} colptr {showNats r.colptr}"

def opCopy (id : String) : RdM String := do
  let A : NCMat α ← readNC
  expect "B"
  let bv : Array α ← cntArr; let bri ← cntNats; let bcp ← cntNats
  let B : NCMat α := { nrow := -1, ncol := -1, nnz := 0, colptr := bcp, rowind := bri, nzval := bv }
  let r := copyCompCol A B
  return s!"res {id} copy {r.nrow} {r.ncol} {r.nnz} nzval {showArr r.nzval} rowind {showNats r.rowind} colptr {showNats r.colptr}"

def opPview (id : String) : RdM String := do
  let A : NCMat α ← readNC
  let permc ← cntNats
  let r := permutedView A permc
  return s!"res {id} pview {r.nrow} {r.ncol} {r.nnz} colbeg {showNats r.colbeg} colend {showNats r.colend} rowind {showNats r.rowind} nzval {showArr r.nzval}"

def dispatch (kind id : String) : RdM String := do
  match kind with
  | "gemv" => opGemv (α := α) id
  | "gemm" => opGemm (α := α) id
  | "langs" => opLangs (α := α) id
  | "r2c" => opR2C (α := α) id
  | "copy" => opCopy (α := α) id
  | "pview" => opPview (α := α) id
  | k => throw s!"unknown op {k}"

end Generic

/-! trsv: factors in the `lucheck` dump format, values scaled by `2^E` -/

def readSnodeBl (E : Int) : RdM Snode := do
  expect "sup"
  let f ← nat; let e ← nat; let rowBeg ← int; let nr ← nat
  let rows ← ints nr
  let mut nzBeg := #[]; let mut vals := #[]
  for _ in [f:e] do
    expect "col"
    let b ← int; let k ← nat
    nzBeg := nzBeg.push b
    vals := vals.push (← dys E k)
  return { f, e, rowBeg, rows, nzBeg, vals }

structure Factors where
  E : Int
  L : SCP
  U : NCP

def readFactors : RdM Factors := do
  expect "n"; let n ← nat; expect "E"; let E ← int
  expect "L"; let lnnz ← int; let nsuper ← int; let nsn ← nat
  let colToSup ← namedInts "colToSup"; let supBeg ← namedInts "supBeg"; let supEnd ← namedInts "supEnd"
  let rowBegA ← namedInts "rowBegA"; let rowEndA ← namedInts "rowEndA"
  let nzBegA ← namedInts "nzBegA"; let nzEndA ← namedInts "nzEndA"
  let mut sn := #[]
  for _ in [0:nsn] do sn := sn.push (← readSnodeBl E)
  let L : SCP := { n, nnz := lnnz, nsuper, colToSup, supBeg, supEnd, rowBegA, rowEndA, nzBegA, nzEndA, sn }
  expect "U"; let unnz ← int
  let mut cols := #[]
  for _ in [0:n] do
    expect "ucol"; let b ← int; let k ← nat
    let rows ← ints k; let vals ← dys E k
    cols := cols.push ({ beg := b, rows, vals } : UCol)
  return { E, L, U := { n, nnz := unnz, cols } }

def bb01 (b : Bool) : String := if b then "1" else "0"

/-- `trsv id uplo trans diag lnrow lncol unrow uncol <cnt x (dyadic)>` on the current factors -/
def opTrsv (F : Factors) (id : String) : RdM String := do
  let uplo ← readChar; let trans ← readChar; let diag ← readChar
  let lnrow ← int; let lncol ← int; let unrow ← int; let uncol ← int
  let k ← nat
  let mut x : Array Rat := Array.mkEmpty k
  for _ in [0:k] do x := x.push (← readRat)
  let one : Int := (2 : Int) ^ (-F.E).toNat
  match spTrsv uplo trans diag lnrow lncol unrow uncol one F.L F.U x with
  | .xerbla i => return s!"res {id} trsv xerbla {i}"
  | .ok x' => return s!"res {id} trsv ok {x'.size}" ++ String.join (x'.toList.map fun v => " " ++ showRat v)

partial def blasLoop : RdM (Array String) := do
  let mut out := #[]
  let mut F : Factors := { E := 0, L := default, U := default }
  while !(← atEnd) do
    let t ← next
    if t == "factors" then
      let id ← next
      F ← readFactors
      out := out.push s!"res {id} factors wfL {bb01 F.L.wf} wfU {bb01 (F.U.wf F.L)}"
    else if t == "op" then
      let id ← next; let kind ← next
      if kind == "trsv" then
        out := out.push (← opTrsv F id)
      else
        let cplx ← nat
        if cplx == 0 then out := out.push (← dispatch (α := PV) kind id)
        else out := out.push (← dispatch (α := Cx PV) kind id)
    else throw s!"unexpected token {t}"
  return out

def blasMain (input : String) : IO UInt32 := do
  match (blasLoop.run { toks := tokenize input }) with
  | .ok (lines, _) => for l in lines do IO.println l
                      return 0
  | .error e => IO.eprintln s!"blas: {e}"; return 2

end Drv.BlasEng

/-- engine entry point registered in Driver/Main.lean -/
def Drv.blasMain (input : String) : IO UInt32 := Drv.BlasEng.blasMain input
