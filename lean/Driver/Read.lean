/- engine `read`: runs the reader model (Model/Read.lean) on file images.
   input, per case:   case <id> fmt <0=HB|1=RB|2=MT> cplx <0|1> bytes <k> b_1 … b_k      (integers only)
   output, per case:  case <id> undef
                    | case <id> ok <nrow> <ncol> <nnz> / colptr k … / rowind k … / vals k m_1 e_1 … | vals none
   a value is the exact decimal m * 10^e denoted by its field. -/
import Driver.Tok
import SluVerif.Model.Read
open Slu.Read
namespace Drv

def readCaseR : RdM (String × Nat × Bool × List Char) := do
  expect "case"; let id ← next
  expect "fmt"; let fmt ← nat
  expect "cplx"; let c ← nat
  expect "bytes"; let k ← nat
  let mut bs : Array Char := Array.mkEmpty k
  for _ in [0:k] do
    let b ← nat
    bs := bs.push (Char.ofNat b)
  return (id, fmt, c != 0, bs.toList)

def joinInts (xs : List Int) : String :=
  xs.foldl (fun acc x => acc ++ " " ++ toString x) ""

def showMat (id : String) (r : Option Mat) : String :=
  match r with
  | none => s!"case {id} undef\n"
  | some m =>
    let v := match m.vals with
      | none => "vals none\n"
      | some vs => s!"vals {vs.length}" ++ vs.foldl (fun acc p => acc ++ " " ++ toString p.1 ++ " " ++ toString p.2) "" ++ "\n"
    s!"case {id} ok {m.nrow} {m.ncol} {m.nnz}\n" ++
    s!"colptr {m.colptr.length}" ++ joinInts m.colptr ++ "\n" ++
    s!"rowind {m.rowind.length}" ++ joinInts m.rowind ++ "\n" ++ v

def readLoop : RdM (Array String) := do
  let mut out := #[]
  while !(← atEnd) do
    let (id, fmt, cplx, bs) ← readCaseR
    out := out.push (showMat id (readFile fmt cplx bs))
  return out

def readMain (input : String) : IO UInt32 := do
  match (readLoop.run { toks := tokenize input }) with
  | .ok (outs, _) =>
    let so ← IO.getStdout
    for o in outs do so.putStr o
    return 0
  | .error e => IO.eprintln s!"read: {e}"; return 3

end Drv
