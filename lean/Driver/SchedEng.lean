/- engines `schedtrace` (random valid interleavings + expected harness output) and `schedexplore`
   (exhaustive exploration of all interleavings with the monitors) for Model/SchedSys.lean -/
import Driver.Tok
import SluVerif.Model.SchedSys
import SluVerif.Model.SchedInit3
import Std.Data.HashSet
open Slu Slu.Gen
namespace Drv

def join (xs : List String) : String := String.intercalate " " xs

def dumpSys (tag : String) (c : PanelCfg) (s : Sys) : String :=
  let sh := s.sh
  -- state / fb are only defined for leading columns (and the dummy root) in the C arrays
  let st := join ((List.range (c.n + 1)).map fun i => if i == c.n || getZ sh.size i > 0 then toString (getN sh.state i) else "-")
  let uk := join ((List.range (c.n + 1)).map fun i => toString (getZ sh.ukids i))
  let sp := join ((List.range c.n).map fun i => toString (getN sh.spin i))
  let ws := join (s.ws.toList.map fun w =>
      let cur : Int := match w.cur with | some p => p | none => -1
      let hold : Int := match w.phase with | .working p _ => p | _ => -1
      s!"{cur}:{hold}:{w.lastB}")
  s!"{tag} st {st} | uk {uk} | q {sh.head} {sh.tail} {sh.count} | tr {sh.tasksRemain} | spin{if c.n == 0 then "" else " "}{sp} | w {ws}"

def dumpInit (c : PanelCfg) (sh : Sh) : String :=
  let rs := relaxSnode c.n c.relax c.etree
  let r := s!"relax {rs.length}" ++ String.join (rs.map fun (f, z) => s!" {f}:{z}")
  let ty := join ((List.range c.n).map fun i => toString (getN sh.typ i))
  let sz := join ((List.range (c.n + 1)).map fun i => toString (getZ sh.size i))
  let fb := join ((List.range c.n).map fun i => if getZ sh.size i > 0 then toString (getN sh.fb i) else "-")
  let q := String.join ((List.range sh.tail).map fun i => s!" {getN sh.queue i}")
  s!"{r}\ninit ty {ty} | sz {sz} | fb {fb} | queue{q} | splits {sh.numSplits}"

/-- full state key for the visited set (the dump plus worker phases and the queue/fb contents) -/
def keySys (c : PanelCfg) (s : Sys) : String :=
  dumpSys "" c s ++ " | ph " ++ join (s.ws.toList.map fun w => match w.phase with
      | .head => "h" | .calling => "c" | .working p b => s!"w{p}.{b}" | .exited => "x")
    ++ " | qq " ++ join ((List.range s.sh.tail).map fun i => toString (getN s.sh.queue i))
    ++ " | fb " ++ join ((List.range (c.n + 1)).map fun i => toString (getN s.sh.fb i))

/-- xorshift PRNG -/
def nextRand (x : UInt64) : UInt64 :=
  let x := x ^^^ (x <<< 13); let x := x ^^^ (x >>> 7); x ^^^ (x <<< 17)

def readCfg : RdM (String × PanelCfg × Nat) := do
  expect "case"; let id ← next
  let n ← nat; let ps ← nat; let relax ← nat; let nw ← nat
  let et ← ints n
  return (id, { n, etree := et.map (·.toNat), panelSize := ps, relax }, nw)

def failing (c : PanelCfg) (s : Sys) : List String := (monAll c s).filterMap fun (nm, ok) => if ok then none else some nm

/-- random valid interleaving; harness events: `s w` for sched, `f w` for finish (loop reads are internal) -/
def traceCase : RdM String := do
  let (id, c, nw) ← readCfg
  let seed ← nat; let maxEv ← nat
  let mut s := sysInit c nw
  let mut out := s!"case {id}\n" ++ dumpInit c s.sh ++ "\n" ++ dumpSys "ev0" c s ++ "\n"
  let mut script : Array String := #[]
  let mut rng : UInt64 := (UInt64.ofNat seed) * 2862933555777941757 + 3037000493
  let mut bad : List String := (if initOk c s.sh then [] else ["initOk"]) ++ (if initOk2 c s.sh then [] else ["initOk2"]) ++ (if initOk3 c s.sh then [] else ["initOk3"]) ++ (if postOrdB c.n c.etree then [] else ["postOrd"]) ++ failing c s
  let mut polls := 0
  for _ in [0:maxEv] do
    let evs := enabledEvents c s
    if evs.isEmpty then break
    rng := nextRand rng
    let e := evs.getD (rng.toNat % evs.length) (Ev.loop 0)
    s := step c s e
    match e with
    | .loop _ => pure ()
    | .sched w => script := script.push s!"s {w}"; out := out ++ dumpSys "ev" c s ++ "\n"
    | .finish w => script := script.push s!"f {w}"; out := out ++ dumpSys "ev" c s ++ "\n"
    let f := failing c s
    if !f.isEmpty && bad.isEmpty then bad := f
    polls := polls + 1
  let sh := s.sh
  out := out ++ "queue_final" ++ String.join ((List.range sh.tail).map fun i => s!" {getN sh.queue i}") ++ "\n"
  out := out ++ "fb_final" ++ String.join ((List.range c.n).map fun i => if getZ sh.size i > 0 then s!" {getN sh.fb i}" else " -") ++ "\n"
  let allExited := s.ws.toList.all fun w => w.phase == .exited
  let allDone := (panelsOf c.n s.sh).all fun p => getN s.sh.state p == DONE
  return s!"script {id} {script.size} " ++ join script.toList ++ "\n" ++ out ++
         s!"verdict {id} monitors={if bad.isEmpty then "ok" else join bad} finished={if allExited && allDone then 1 else 0} panels={(panelsOf c.n s.sh).length}\n"

partial def traceLoop : RdM (Array String) := do
  let mut out := #[]
  while !(← atEnd) do out := out.push (← traceCase)
  return out

def schedTraceMain (input : String) : IO UInt32 := do
  match (traceLoop.run { toks := tokenize input }) with
  | .ok (lines, _) => for l in lines do IO.print l
                      return 0
  | .error e => IO.eprintln s!"schedtrace: {e}"; return 2

/-- exhaustive exploration (BFS with a visited list keyed by the printed state) -/
partial def exploreCase : RdM String := do
  let (id, c, nw) ← readCfg
  let maxStates ← nat
  let s0 := sysInit c nw
  let mut seen : Std.HashSet String := {}
  let mut frontier : Array Sys := #[s0]
  seen := seen.insert (keySys c s0)
  let mut states := 1; let mut trans := 0
  let mut bad : List String := (if initOk c s0.sh then [] else ["initOk"]) ++ (if initOk2 c s0.sh then [] else ["initOk2"]) ++ (if initOk3 c s0.sh then [] else ["initOk3"]) ++ (if postOrdB c.n c.etree then [] else ["postOrd"]) ++ failing c s0
  let mut terminal := 0; let mut terminalBad := 0
  let mut truncated := false
  while !frontier.isEmpty && bad.isEmpty do
    let mut next : Array Sys := #[]
    for s in frontier do
      let evs := enabledEvents c s
      if evs.isEmpty then
        terminal := terminal + 1
        let allDone := (panelsOf c.n s.sh).all fun p => getN s.sh.state p == DONE
        if !allDone then terminalBad := terminalBad + 1
      for e in evs do
        let s' := step c s e
        trans := trans + 1
        let key := keySys c s'
        if !seen.contains key then
          seen := seen.insert key
          states := states + 1
          let f := failing c s'
          if !f.isEmpty && bad.isEmpty then bad := f ++ [key]
          next := next.push s'
    if states > maxStates then
      truncated := true
      break
    frontier := next
  return s!"explore {id} states={states} transitions={trans} terminal={terminal} stuck={terminalBad} truncated={if truncated then 1 else 0} monitors={if bad.isEmpty then "ok" else join bad}\n"

partial def exploreLoop : RdM (Array String) := do
  let mut out := #[]
  while !(← atEnd) do out := out.push (← exploreCase)
  return out

def schedExploreMain (input : String) : IO UInt32 := do
  match (exploreLoop.run { toks := tokenize input }) with
  | .ok (lines, _) => for l in lines do IO.print l
                      return 0
  | .error e => IO.eprintln s!"schedexplore: {e}"; return 2

end Drv
