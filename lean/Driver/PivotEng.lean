/- engine `pivot`: runs Model/Pivot.lean on the cases the C harness h_pivot.c consumed -/
import Driver.Tok
import SluVerif.Model.Pivot
open Slu
namespace Drv

def ratOfDy (m e : Int) : Rat :=
  if e ≥ 0 then (m * (2 : Int) ^ e.toNat : Int) else (m : Rat) / ((2 : Int) ^ (-e).toNat : Int)

def dyRat : RdM Rat := do
  let m ← int; let e ← int
  return ratOfDy m e

def dyRats (k : Nat) : RdM (Array Rat) := do
  let mut a := Array.mkEmpty k
  for _ in [0:k] do a := a.push (← dyRat)
  return a

def showRat (r : Rat) : String := s!"{r.num}/{r.den}"

def pivotCase : RdM String := do
  expect "case"; let id ← next
  let jcol ← nat; let nsupc ← nat; let nsupr ← nat; let usepr ← nat
  let oldPiv ← int; let diagInd ← int; let uNum ← int; let uDen ← int
  let rows ← ints nsupr
  let mags ← dyRats nsupr
  let ncols ← nat
  let mut cols : Array (Array Rat) := #[]
  for _ in [0:ncols] do cols := cols.push (← dyRats nsupr)
  let p : PivIn := { jcol, nsupc, rows, mags, u := (uNum : Rat) / (uDen : Rat), usepr := usepr != 0, oldPivRow := oldPiv, diagInd }
  let sel := pivotSelect p
  let (rows', cols') := pivotApply rows cols nsupc sel
  let mut out := s!"case {id} info {sel.info} pivrow {sel.pivrow} usepr {if sel.usepr then 1 else 0} pivptr {sel.pivptr} oob {if sel.outOfRange then 1 else 0}\n"
  out := out ++ "rows" ++ String.join (rows'.toList.map fun r => s!" {r}") ++ "\n"
  for k in [0:cols'.size] do
    out := out ++ s!"col {k}" ++ String.join ((cols'.getD k #[]).toList.map fun r => " " ++ showRat r) ++ "\n"
  return out

partial def pivotLoop : RdM (Array String) := do
  let mut out := #[]
  while !(← atEnd) do out := out.push (← pivotCase)
  return out

def pivotMain (input : String) : IO UInt32 := do
  match (pivotLoop.run { toks := tokenize input }) with
  | .ok (lines, _) => for l in lines do IO.print l
                      return 0
  | .error e => IO.eprintln s!"pivot: {e}"; return 2

end Drv
