/- engine `equil`: reads the operation lines the C harnesses consumed (h_equil: gsequ / laqgs; h_drv:
   the gssvx equilibration frame), with every floating value as a dyadic pair `m e` (= m·2^e), runs
   Model/Equil.lean over exact rationals and prints canonical result lines (rationals as `num den`). -/
import Driver.Tok
import SluVerif.Model.Equil
open Slu.Equil
namespace Drv.EquilEng

def pow2 (e : Int) : Rat := if e ≥ 0 then ((2 : Int) ^ e.toNat : Int) else 1 / (((2 : Int) ^ (-e).toNat : Int) : Rat)

def rat : RdM Rat := do
  let m ← int
  let e ← int
  return (m : Rat) * pow2 e

def rats (k : Nat) : RdM (List Rat) := do
  let mut a : Array Rat := Array.mkEmpty k
  for _ in [0:k] do a := a.push (← rat)
  return a.toList

def showRat (q : Rat) : String := s!"{q.num} {q.den}"
def showRats (l : List Rat) : String := s!"{l.length}" ++ String.join (l.map fun q => " " ++ showRat q)

/-- entry reader / printer for the two entry types -/
class EntryIO (E : Type) where
  rd : RdM E
  sh : E → String

instance : EntryIO Rat := ⟨rat, showRat⟩
instance : EntryIO Cx := ⟨do let a ← rat; let b ← rat; return ⟨a, b⟩, fun z => showRat z.re ++ " " ++ showRat z.im⟩

/-- `m n nnz colptr[n+1] rowind[nnz] vals[nnz]` → columns in storage order -/
def readMat (E : Type) [EntryIO E] : RdM (SpMat E) := do
  let m ← nat; let n ← nat; let nnz ← nat
  let ptr ← ints (n + 1)
  let ind ← ints nnz
  let mut vals : Array E := Array.mkEmpty nnz
  for _ in [0:nnz] do vals := vals.push (← EntryIO.rd)
  let mut cols : Array (List (Nat × E)) := Array.mkEmpty n
  for j in [0:n] do
    let b := (ptr.getD j 0).toNat; let e := (ptr.getD (j + 1) 0).toNat
    let mut col : Array (Nat × E) := #[]
    for k in [b:e] do
      match vals[k]? with
      | some v => col := col.push ((ind.getD k 0).toNat, v)
      | none => throw s!"colptr out of range at column {j}"
    cols := cols.push col.toList
  return { nrow := m, cols := cols.toList }

def showVals {E : Type} [EntryIO E] (A : SpMat E) : String :=
  let vs := A.cols.flatten.map fun e => EntryIO.sh e.2
  s!"{vs.length}" ++ String.join (vs.map fun s => " " ++ s)

def whichCode : Which → Nat
  | .none => 0 | .byR => 1 | .byC => 2

def b01 (b : Bool) : Nat := if b then 1 else 0

def runOps (E : Type) [Entry E] [EntryIO E] (P : Params) : RdM (Array String) := do
  let mut out := #[]
  while !(← atEnd) do
    let op ← next
    if op == "gsequ" then
      let typeok ← nat
      let A ← readMat E
      let r0 ← rat; let c0 ← rat; let rc ← rat; let cc ← rat; let am ← rat
      let s0 : GsState := { r := List.replicate A.nrow r0, c := List.replicate A.ncol c0, rowcnd := rc, colcnd := cc, amax := am, info := -999 }
      let g := gsequ (typeok != 0) P.sml P.big A s0
      out := out.push s!"gsequ info {g.info} rowcnd {showRat g.rowcnd} colcnd {showRat g.colcnd} amax {showRat g.amax} R {showRats g.r} C {showRats g.c}"
    else if op == "laqgs" then
      let A ← readMat E
      let r ← rats A.nrow; let c ← rats A.ncol
      let rc ← rat; let cc ← rat; let am ← rat
      let _e0 ← nat
      let l := laqgs P.small P.large P.thresh A r c rc cc am
      out := out.push s!"laqgs equed {l.2.code} A {showVals l.1}"
    else if op == "gssvx" then
      -- gssvx nr trans fact equedIn  <mat n n nnz ...>  nrhs B[nrhs][n]  R0[n] C0[n]
      let nr ← nat; let trans ← nat; let fact ← nat; let eqIn ← nat
      let A ← readMat E
      let nrhs ← nat
      let mut B : Array (List E) := #[]
      for _ in [0:nrhs] do
        let mut col : Array E := #[]
        for _ in [0:A.nrow] do col := col.push (← EntryIO.rd)
        B := B.push col.toList
      let R0 ← rats A.nrow; let C0 ← rats A.ncol
      let f := gssvxEquil P (nr != 0) trans fact (Equed.ofCode eqIn) A B.toList R0 C0 0 0 0
      let bs := f.B.flatten.map fun x => EntryIO.sh x
      out := out.push (s!"gssvx equed {f.equed.code} info1 {f.info1} notran {b01 f.notran} bw {whichCode (bScale f.notran f.rowequ f.colequ)} xw {whichCode f.xw}"
        ++ s!" R {showRats f.R} C {showRats f.C} A {showVals f.A} B {bs.length}" ++ String.join (bs.map fun s => " " ++ s))
    else throw s!"unknown op {op}"
  return out

def main' : RdM (Array String) := do
  expect "consts"
  let sml ← rat; let big ← rat; let small ← rat; let large ← rat; let thresh ← rat
  let P : Params := { sml, big, small, large, thresh }
  expect "cplx"
  let cx ← nat
  if cx != 0 then runOps Cx P else runOps Rat P

end Drv.EquilEng

namespace Drv
def equilMain (input : String) : IO UInt32 := do
  match (EquilEng.main'.run { toks := tokenize input }) with
  | .ok (lines, _) => for l in lines do IO.println l
                      return 0
  | .error e => IO.eprintln s!"equil: {e}"; return 2
end Drv
