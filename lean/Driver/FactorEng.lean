/- engine `factor`: Model/LU.lean on a dense rational matrix (the column-permuted A the library factored) -/
import Driver.Tok
import Driver.PivotEng
import SluVerif.Model.LU
open Slu
namespace Drv

/-- case <id> n uNum uDen usepr / diagOf n ints / oldInv n ints / nnz / triples i j m e / nrhs / rhs columns (dyadic) -/
def factorCase : RdM String := do
  expect "case"; let id ← next
  let n ← nat; let uNum ← int; let uDen ← int; let usepr ← nat
  let diagOf ← ints n; let oldInv ← ints n
  let nnz ← nat
  let mut rowsA : Array (Array Rat) := Array.replicate n (Array.replicate n 0)
  for _ in [0:nnz] do
    let i ← nat; let j ← nat; let v ← dyRat
    rowsA := rowsA.modify i (fun r => r.setIfInBounds j (r.getD j 0 + v))
  let P : LUParams := { n, A := rowsA, u := (uNum : Rat) / (uDen : Rat), diagOf := fun j => diagOf.getD j 0, oldInv := fun j => oldInv.getD j 0 }
  let st := factor P (usepr != 0)
  let pr := permROf n st
  let mut out := s!"case {id} info {st.info} ambiguous {if st.ambiguous then 1 else 0} usepr {if st.usepr then 1 else 0} permr"
  out := out ++ String.join (pr.toList.map fun v => s!" {v}") ++ "\n"
  let nrhs ← nat
  for r in [0:nrhs] do
    let b ← dyRats n
    if st.info == 0 then
      let x := solveN n st (fun i => b.getD i 0)
      out := out ++ s!"x {r}" ++ String.join ((List.range n).map fun j => " " ++ showRat (x j)) ++ "\n"
    else out := out ++ s!"x {r} singular\n"
  return out

partial def factorLoop : RdM (Array String) := do
  let mut out := #[]
  while !(← atEnd) do out := out.push (← factorCase)
  return out

def factorMain (input : String) : IO UInt32 := do
  match (factorLoop.run { toks := tokenize input }) with
  | .ok (lines, _) => for l in lines do IO.print l
                      return 0
  | .error e => IO.eprintln s!"factor: {e}"; return 2

end Drv
