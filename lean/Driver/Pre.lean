/- engine `pre`: reads the operation script of harness/h_pre.c (integers only), runs the MODEL of the
   preprocessing routines (Model/Etree.lean) and prints the same canonical lines as the harness.
   Extra (model-only) operations are the verified oracles applied to arrays the real library returned:
     chkperm OPID n v..     -> Slu.checkPerm            (Model/Perm.lean, checkPerm_iff)
     chkpost OPID n par..   -> Slu.Pre.checkPostordered (Props/C10: checkPostordered_sound)
     chkpart OPID n part..  -> Slu.Pre.checkPartSuper   (Props/C10: part_super_blocks)
     exhaust OPID N         -> test: colEtree/symEtree = reference for ALL 0/1 patterns with n <= N -/
import Driver.Tok
import SluVerif.Model.Etree
open Slu Slu.Pre
namespace Drv

def nats (k : Nat) : RdM (Array Nat) := do
  let mut a := Array.mkEmpty k
  for _ in [0:k] do a := a.push (← nat)
  return a

def fmtLine (key id : String) (a : Array Nat) : String :=
  a.foldl (fun s v => s ++ " " ++ toString v) s!"{key} {id} {a.size}"

/-- all patterns of an `m × n` 0/1 matrix as CSC, `code` enumerates the `2^(m n)` bit masks -/
def patternOf (m n code : Nat) : Array Nat × Array Nat := Id.run do
  let mut cp : Array Nat := #[0]
  let mut ri : Array Nat := #[]
  for j in [0:n] do
    for i in [0:m] do
      if (code >>> (j * m + i)) % 2 == 1 then ri := ri.push i
    cp := cp.push ri.size
  return (cp, ri)

def exhaustCheck (N : Nat) : Nat × Nat := Id.run do
  let mut cnt := 0
  let mut bad := 0
  for n in [1:N+1] do
    for m in [1:N+1] do
      for code in [0:2 ^ (m * n)] do
        let (cp, ri) := patternOf m n code
        let ce := cp.extract 1 cp.size
        cnt := cnt + 1
        if colEtree cp ce ri m n != colEtreeRef cp ce ri m n then bad := bad + 1
        if m == n then
          cnt := cnt + 1
          if symEtree cp ce ri n != symEtreeRef cp ce ri n then bad := bad + 1
  return (cnt, bad)

partial def preLoop : RdM (Array String) := do
  let mut out : Array String := #[]
  let mut m := 0
  let mut n := 0
  let mut colptr : Array Nat := #[]
  let mut rowind : Array Nat := #[]
  while !(← atEnd) do
    let op ← next
    if op == "quit" then break
    else if op == "case" then
      m ← nat; n ← nat
      let nnz ← nat
      colptr ← nats (n + 1)
      rowind ← nats nnz
    else if op == "end" then pure ()
    else if op == "getperm" then
      let id ← next; let ispec ← nat
      if ispec == 0 then out := out.push (fmtLine "getperm0" id (naturalPerm n))
    else if op == "coletree" then
      let id ← next; let ref ← nat
      let ce := colptr.extract 1 colptr.size
      out := out.push (fmtLine "coletree" id (colEtree colptr ce rowind m n))
      if ref == 1 then out := out.push (fmtLine "coletree_ref" id (colEtreeRef colptr ce rowind m n))
    else if op == "symetree" then
      let id ← next; let ref ← nat
      let ce := colptr.extract 1 colptr.size
      out := out.push (fmtLine "symetree" id (symEtree colptr ce rowind n))
      if ref == 1 then out := out.push (fmtLine "symetree_ref" id (symEtreeRef colptr ce rowind n))
    else if op == "postorder" then
      let id ← next; let k ← nat
      let par ← nats k
      out := out.push (fmtLine "postorder" id (treePostorder k par))
    else if op == "colorder" then
      let id ← next; let symm ← nat; let refact ← nat; let k ← nat
      let pc ← nats k
      let r := colorder m n colptr rowind pc (symm != 0) (refact != 0) #[] #[]
      if refact == 0 then out := out.push (fmtLine "co.etree" id r.etree)
      out := out.push (fmtLine "co.permc" id r.permc)
      out := out.push (fmtLine "co.colbeg" id r.colbeg)
      out := out.push (fmtLine "co.colend" id r.colend)
      if refact == 0 then out := out.push (fmtLine "co.part" id r.part)
    else if op == "chkperm" then
      let id ← next; let k ← nat; let p ← nat
      let v ← ints p
      out := out.push s!"chkperm {id} {if checkPerm k v then 1 else 0}"
    else if op == "chkpost" then
      let id ← next; let k ← nat; let p ← nat
      let v ← ints p
      let ok := v.all (fun x => 0 ≤ x) && checkPostordered k (v.map Int.toNat)
      out := out.push s!"chkpost {id} {if ok then 1 else 0}"
    else if op == "chkpart" then
      let id ← next; let k ← nat; let p ← nat
      let v ← ints p
      let ok := v.all (fun x => 0 ≤ x) && checkPartSuper k (v.map Int.toNat)
      out := out.push s!"chkpart {id} {if ok then 1 else 0}"
    else if op == "exhaust" then
      let id ← next; let N ← nat
      let (cnt, bad) := exhaustCheck N
      out := out.push s!"exhaust {id} {cnt} {bad}"
    else throw s!"unknown op '{op}'"
  return out

def preMain (input : String) : IO UInt32 := do
  match (preLoop.run { toks := tokenize input }) with
  | .ok (lines, _) => for l in lines do IO.println l
                      return 0
  | .error e => IO.eprintln s!"pre: {e}"; return 2

end Drv
