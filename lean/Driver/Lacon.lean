/- engine `lacon`: the C12 models (estimator dialogue, ?langs, ?PivotGrowth, ?gscon, driver decisions) on the
   same operations the harness `h_con` performed.  Values arrive as dyadic pairs `m e` (= m·2^e) and leave
   as exact fractions `num/den`. -/
import Driver.Tok
import Driver.LuCheck
import SluVerif.Model.Growth
open Slu
namespace Drv

def pow2 (e : Int) : Rat := if 0 ≤ e then ((2 : Int) ^ e.toNat : Int) else 1 / (((2 : Int) ^ (-e).toNat : Int) : Rat)

/-- dyadic pair → exact rational -/
def dyR : RdM Rat := do
  let m ← int
  let e ← int
  return (m : Rat) * pow2 e

def dyRs (k : Nat) : RdM (Array Rat) := do
  let mut a := Array.mkEmpty k
  for _ in [0:k] do a := a.push (← dyR)
  return a

def showR (r : Rat) : String := s!"{r.num}/{r.den}"
def showV (v : Array Rat) : String := " ".intercalate (v.toList.map showR)

def getR (a : Array (Array Rat)) (i j : Nat) : Rat := (a.getD i #[]).getD j 0

/-- L and U blocks in the `lucheck` text format (without the surrounding case) -/
def readLU (n : Nat) : RdM (Int × SCP × NCP) := do
  expect "E"; let E ← int
  expect "L"; let lnnz ← int; let nsuper ← int; let nsn ← nat
  let colToSup ← namedInts "colToSup"; let supBeg ← namedInts "supBeg"; let supEnd ← namedInts "supEnd"
  let rowBegA ← namedInts "rowBegA"; let rowEndA ← namedInts "rowEndA"
  let nzBegA ← namedInts "nzBegA"; let nzEndA ← namedInts "nzEndA"
  let mut sn := #[]
  for _ in [0:nsn] do sn := sn.push (← readSnode E)
  let L : SCP := { n, nnz := lnnz, nsuper, colToSup, supBeg, supEnd, rowBegA, rowEndA, nzBegA, nzEndA, sn }
  expect "U"; let unnz ← int
  let mut cols := #[]
  for _ in [0:n] do
    expect "ucol"; let b ← int; let k ← nat
    let rows ← ints k; let vals ← dys E k
    cols := cols.push ({ beg := b, rows, vals } : UCol)
  return (E, L, { n, nnz := unnz, cols })

def readNC : RdM NCMat := do
  expect "A"; let nrow ← nat; let ncol ← nat
  let mut cols := #[]
  for _ in [0:ncol] do
    let k ← nat
    let mut c := #[]
    for _ in [0:k] do
      let r ← nat; let v ← dyR
      c := c.push (r, v)
    cols := cols.push c
  return { nrow, ncol, cols }

/-- dense exact L and U (as rationals) from the dumped structures -/
def denseLU (n : Nat) (E : Int) (L : SCP) (U : NCP) : Array (Array Rat) × Array (Array Rat) :=
  let one : Int := (2 : Int) ^ (-E).toNat
  let La := Array.ofFn (n := n) fun i => Array.ofFn (n := n) fun j => ((L.entryL one i.val j.val : Int) : Rat) / (one : Rat)
  let Ua := Array.ofFn (n := n) fun i => Array.ofFn (n := n) fun j => ((entryU L U i.val j.val : Int) : Rat) / (one : Rat)
  (La, Ua)

def evLine (id : String) (k : Nat) (e : LaconEvent) : String :=
  s!"ev {id} {k} kase {e.kase} jump {e.jump} j {e.j} tie {if e.tie then 1 else 0} est {showR e.est} x {showV e.x}"

def showC (z : CRat) : String := s!"{showR z.re} {showR z.im}"
def cevLine (id : String) (k : Nat) (e : CLaconEvent) : String :=
  s!"ev {id} {k} kase {e.kase} jump {e.jump} j {e.j} tie {if e.tie then 1 else 0} est {showR e.est} x {" ".intercalate (e.x.toList.map showC)}"

def traceLines (id : String) (evs : Array LaconEvent) : Array String := Id.run do
  let mut out := #[]
  let mut k := 0
  for e in evs do
    out := out.push (evLine id k e); k := k + 1
  return out

def laconOp : RdM (Array String) := do
  let id ← next; let n ← nat
  let mut rows : Array (Array Rat) := #[]
  for _ in [0:n] do rows := rows.push (← dyRs n)
  let M : Nat → Nat → Rat := fun i j => getR rows i j
  let evs := laconTrace n (matVec n M) (matVecT n M) laconFuel {} (laconInitIO n) #[]
  let run := runLacon n (matVec n M) (matVecT n M)
  let out := traceLines id evs
  return out.push s!"lacon {id} est {showR run.io.est} applies {run.applies} norm1 {showR (norm1 n M)} lower {showR (asum n (matVec n M (rmk n fun _ => 1 / (n : Rat))))}"

def claconOp : RdM (Array String) := do
  let id ← next; let n ← nat
  let mut rows : Array (Array CRat) := #[]
  for _ in [0:n] do
    let mut r := #[]
    for _ in [0:n] do
      let re ← dyR; let im ← dyR
      r := r.push (⟨re, im⟩ : CRat)
    rows := rows.push r
  let M : Nat → Nat → CRat := fun i j => (rows.getD i #[]).getD j ⟨0, 0⟩
  let io0 : CLaconIO := { v := cmk n fun _ => ⟨0, 0⟩, x := cmk n fun _ => ⟨0, 0⟩, est := 0, kase := 0 }
  let evs := claconTrace n (cmatVec n M) (cmatVecH n M) laconFuel {} io0 #[]
  let mut out := #[]
  let mut k := 0
  for e in evs do
    out := out.push (cevLine id k e); k := k + 1
  let est := match evs.back? with | some e => e.est | none => 0
  return out.push s!"clacon {id} est {showR est} applies {evs.size - 1}"

def langsOp : RdM (Array String) := do
  let id ← next
  let A ← readNC
  let f (c : Char) : String := match langs c A with | some v => showR v | none => "abort"
  return #[s!"langs {id} M {f 'M'} 1 {f '1'} O {f 'O'} I {f 'I'} F {f 'F'} X {f 'X'}"]

def growthOp : RdM (Array String) := do
  let id ← next; let ncols ← nat; let rpg0 ← dyR
  let A ← readNC
  let permc ← namedInts "permc"
  let (E, L, U) ← readLU A.ncol
  -- L and U are integers on the scale 2^E: bring A to the same scale (the ratios are then scale-free)
  let one : Rat := pow2 (-E)
  let A : NCMat := { A with cols := A.cols.map fun c => c.map fun (r, v) => (r, v * one) }
  let g := pivotGrowth ncols A permc L U rpg0
  let gs := pivotGrowthSpec ncols A permc L U rpg0
  -- cross-check of the decoded dense U against the loop's column maxima (sampled form of growth_spec)
  let inOrder := (List.range L.sn.size).all fun k => k + 1 ≥ L.sn.size || (L.sn.getD k default).e ≤ (L.sn.getD (k + 1) default).f
  -- sampled link of the loop's U column maxima to the decoded dense U (entryU: NCP part + rectangle upper triangle)
  let n := A.ncol
  let udec := (List.range L.sn.size).all fun s =>
    let sn := L.sn.getD s default
    (List.range (sn.e - sn.f)).all fun k =>
      ucolMaxAbs U sn k == (List.range n).foldl (fun m i => rmax m (rabs ((entryU L U i (sn.f + k) : Int) : Rat))) 0
  return #[s!"growth {id} rpg {showR g} spec {showR gs} inorder {if inOrder then 1 else 0} udecode {if udec then 1 else 0}"]

def gsconOp : RdM (Array String) := do
  let id ← next; let letter ← nat; let n ← nat; let anorm ← dyR
  let (E, L, U) ← readLU n
  let (La, Ua) := denseLU n E L U
  let Lm : Nat → Nat → Rat := fun i j => getR La i j
  let Um : Nat → Nat → Rat := fun i j => getR Ua i j
  let invA : RVec → RVec := fun x => solveUpper n Um (solveUnitLower n Lm x)
  let invAT : RVec → RVec := fun x => solveUnitLowerT n Lm (solveUpperT n Um x)
  let c := Char.ofNat letter
  let res := gscon c n invA invAT anorm
  let onenrm := c = '1' ∨ c.toUpper = 'O'
  let evs := if res.run.isSome then
      (if onenrm then laconTrace n invA invAT laconFuel {} (laconInitIO n) #[]
       else laconTrace n invAT invA laconFuel {} (laconInitIO n) #[])
    else #[]
  let out := traceLines id evs
  return out.push s!"gscon {id} info {res.info} rcond {showR res.rcond}"

def tailOp : RdM (Array String) := do
  let id ← next; let n ← nat; let infoTrf ← int; let rcond ← dyR; let eps ← dyR
  let t := gssvxTail n infoTrf rcond eps
  return #[s!"tail {id} info {t.info} solved {if t.solved then 1 else 0} rcond {if t.rcondComputed then 1 else 0}"]

def normTable : Array String := Id.run do
  let mut out := #[]
  for s in [Stype.NC, Stype.NR] do
    for t in [Trans.NOTRANS, Trans.TRANS, Trans.CONJ] do
      let sc := match s with | .NC => "NC" | .NR => "NR"
      let tc := match t with | .NOTRANS => 0 | .TRANS => 1 | .CONJ => 2
      let tt := match trantOf s t with | .NOTRANS => 0 | .TRANS => 1 | .CONJ => 2
      out := out.push s!"normchoice {sc} {tc} letter {normLetter s t} trant {tt}"
  return out

partial def laconLoopM : RdM (Array String) := do
  let mut out := #[]
  while !(← atEnd) do
    let op ← next
    let lines ← match op with
      | "lacon" => laconOp
      | "clacon" => claconOp
      | "langs" => langsOp
      | "growth" => growthOp
      | "gscon" => gsconOp
      | "tail" => tailOp
      | "normchoice" => pure normTable
      | _ => throw s!"unknown op {op}"
    out := out ++ lines
  return out

def laconMain (input : String) : IO UInt32 := do
  match (laconLoopM.run { toks := tokenize input }) with
  | .ok (lines, _) => for l in lines do IO.println l
                      return 0
  | .error e => IO.eprintln s!"lacon: {e}"; return 2

end Drv
