/- basic facts about the array accessors of Model/Etree.lean -/
import SluVerif.Model.Etree
namespace Slu.Pre

theorem getN_set (a : Array Nat) (i v j : Nat) :
    getN (a.setIfInBounds i v) j = if i = j ∧ i < a.size then v else getN a j := by
  unfold getN
  simp only [Array.getD_eq_getD_getElem?, Array.getElem?_setIfInBounds]
  by_cases h : i = j
  · subst h
    by_cases h2 : i < a.size <;> simp [h2]
  · simp [h]

theorem getO_set (a : Array (Option Nat)) (i : Nat) (v : Option Nat) (j : Nat) :
    getO (a.setIfInBounds i v) j = if i = j ∧ i < a.size then v else getO a j := by
  unfold getO
  simp only [Array.getD_eq_getD_getElem?, Array.getElem?_setIfInBounds]
  by_cases h : i = j
  · subst h
    by_cases h2 : i < a.size <;> simp [h2]
  · simp [h]

theorem getN_replicate (n v i : Nat) : getN (Array.replicate n v) i = if i < n then v else 0 := by
  unfold getN
  simp only [Array.getD_eq_getD_getElem?, Array.getElem?_replicate]
  split <;> simp

theorem getO_replicate (n : Nat) (v : Option Nat) (i : Nat) :
    getO (Array.replicate n v) i = if i < n then v else none := by
  unfold getO
  simp only [Array.getD_eq_getD_getElem?, Array.getElem?_replicate]
  split <;> simp

theorem getN_ofFn {n : Nat} (f : Fin n → Nat) (i : Nat) (h : i < n) : getN (Array.ofFn f) i = f ⟨i, h⟩ := by
  unfold getN
  simp [Array.getD_eq_getD_getElem?, h]

theorem getN_eq_getElem (a : Array Nat) (i : Nat) (h : i < a.size) : getN a i = a[i] := by
  unfold getN
  simp [Array.getD_eq_getD_getElem?, h]

end Slu.Pre
