/- sp_?gemv: facts that need no algebraic law at all (they hold for any interpretation of `+ * 0 1`,
   in particular for IEEE arithmetic with NaN): control flow, accepted domain, "y need not be set". -/
import SluVerif.Proofs.BlasMem
set_option linter.unusedSectionVars false
set_option linter.unusedSimpArgs false
namespace Slu.Blas
section Ops
variable {α : Type} [Add α] [Mul α] [Zero α] [One α] [DecidableEq α]

/-- the argument checks and the dimension quick return, factored out -/
theorem spGemvAt_valid (trans : Char) (alpha : α) (A : NCMat α) (x : Array α) (xoff : Nat) (incx : Int)
    (beta : α) (y : Array α) (yoff : Nat) (incy : Int)
    (htr : (!lsame trans 'N' && !lsame trans 'T' && !lsame trans 'C') = false)
    (hdim : ¬ (A.nrow < 0 ∨ A.ncol < 0)) (hix : incx ≠ 0) (hiy : incy ≠ 0)
    (hne : A.nrow ≠ 0 ∧ A.ncol ≠ 0) :
    spGemvAt trans alpha A x xoff incx beta y yoff incy =
      if alpha = 0 ∧ beta = 1 then .ok y
      else if alpha = 0 then .ok (scaleY beta (if lsame trans 'N' then A.nrow else A.ncol) incy yoff y)
      else if lsame trans 'N' then
        (if incy = 1 then .ok (gemvN alpha A x xoff incx yoff
            (scaleY beta (if lsame trans 'N' then A.nrow else A.ncol) incy yoff y)) else .notImplemented)
      else
        (if incx = 1 then .ok (gemvT alpha A x xoff yoff incy
            (scaleY beta (if lsame trans 'N' then A.nrow else A.ncol) incy yoff y)) else .notImplemented) := by
  unfold spGemvAt
  rw [if_neg (by simp [htr]), if_neg hdim, if_neg hix, if_neg hiy]
  by_cases hq : alpha = 0 ∧ beta = 1
  · rw [if_pos (Or.inr (Or.inr hq)), if_pos hq]
  · rw [if_neg (by rintro (h | h | h); exact hne.1 h; exact hne.2 h; exact hq h), if_neg hq]


/-- the documented argument contract of sp_?gemv -/
def gemvArgsOk (trans : Char) (A : NCMat α) (incx incy : Int) : Prop :=
  (lsame trans 'N' = true ∨ lsame trans 'T' = true ∨ lsame trans 'C' = true) ∧ 0 ≤ A.nrow ∧ 0 ≤ A.ncol ∧ incx ≠ 0 ∧ incy ≠ 0

theorem spGemv_domain' (trans : Char) (alpha beta : α) (A : NCMat α) (x y : Array α) (xoff yoff : Nat) (incx incy : Int) :
    spGemvAt trans alpha A x xoff incx beta y yoff incy = .notImplemented ↔
      gemvArgsOk trans A incx incy ∧ A.nrow ≠ 0 ∧ A.ncol ≠ 0 ∧ alpha ≠ 0 ∧
      (if lsame trans 'N' = true then incy ≠ 1 else incx ≠ 1) := by
  unfold spGemvAt gemvArgsOk
  by_cases h1 : (!lsame trans 'N' && !lsame trans 'T' && !lsame trans 'C') = true
  · rw [if_pos h1]
    have : ¬ (lsame trans 'N' = true ∨ lsame trans 'T' = true ∨ lsame trans 'C' = true) := by
      simp only [Bool.and_eq_true, Bool.not_eq_true'] at h1
      simp [h1.1.1, h1.1.2, h1.2]
    simp [this]
  rw [if_neg h1]
  have h1' : lsame trans 'N' = true ∨ lsame trans 'T' = true ∨ lsame trans 'C' = true := by
    cases hN : lsame trans 'N' <;> cases hT : lsame trans 'T' <;> cases hC : lsame trans 'C' <;> simp_all
  by_cases h2 : A.nrow < 0 ∨ A.ncol < 0
  · rw [if_pos h2]
    have : ¬ (0 ≤ A.nrow ∧ 0 ≤ A.ncol) := by omega
    simp only [reduceCtorEq, false_iff]; tauto
  rw [if_neg h2]
  by_cases h3 : incx = 0
  · rw [if_pos h3]; simp only [reduceCtorEq, false_iff]; tauto
  rw [if_neg h3]
  by_cases h4 : incy = 0
  · rw [if_pos h4]; simp only [reduceCtorEq, false_iff]; tauto
  rw [if_neg h4]
  by_cases h5 : A.nrow = 0 ∨ A.ncol = 0 ∨ (alpha = 0 ∧ beta = 1)
  · rw [if_pos h5]; simp only [reduceCtorEq, false_iff]; tauto
  rw [if_neg h5]
  have h5a : A.nrow ≠ 0 := fun e => h5 (Or.inl e)
  have h5b : A.ncol ≠ 0 := fun e => h5 (Or.inr (Or.inl e))
  have h2a : 0 ≤ A.nrow ∧ 0 ≤ A.ncol := by omega
  simp only []
  by_cases h6 : alpha = 0
  · rw [if_pos h6]; simp only [reduceCtorEq, false_iff]; tauto
  rw [if_neg h6]
  by_cases hN : lsame trans 'N' = true
  · simp only [hN, if_true]
    by_cases h7 : incy = 1
    · rw [if_pos h7]; simp only [reduceCtorEq, false_iff]; tauto
    · rw [if_neg h7]; simp only [true_iff]; tauto
  · simp only [hN, Bool.false_eq_true, if_false]
    by_cases h7 : incx = 1
    · rw [if_pos h7]; simp only [reduceCtorEq, false_iff]; tauto
    · rw [if_neg h7]; simp only [true_iff]; tauto

theorem spGemv_argcheck' (trans : Char) (alpha beta : α) (A : NCMat α) (x y : Array α) (xoff yoff : Nat) (incx incy : Int) (k : Nat) :
    spGemvAt trans alpha A x xoff incx beta y yoff incy = .xerbla k ↔
      (k = 1 ∧ ¬ (lsame trans 'N' = true ∨ lsame trans 'T' = true ∨ lsame trans 'C' = true)) ∨
      (k = 3 ∧ (lsame trans 'N' = true ∨ lsame trans 'T' = true ∨ lsame trans 'C' = true) ∧ (A.nrow < 0 ∨ A.ncol < 0)) ∨
      (k = 5 ∧ (lsame trans 'N' = true ∨ lsame trans 'T' = true ∨ lsame trans 'C' = true) ∧ ¬ (A.nrow < 0 ∨ A.ncol < 0) ∧ incx = 0) ∨
      (k = 8 ∧ (lsame trans 'N' = true ∨ lsame trans 'T' = true ∨ lsame trans 'C' = true) ∧ ¬ (A.nrow < 0 ∨ A.ncol < 0) ∧ incx ≠ 0 ∧ incy = 0) := by
  unfold spGemvAt
  by_cases h1 : (!lsame trans 'N' && !lsame trans 'T' && !lsame trans 'C') = true
  · rw [if_pos h1]
    have : ¬ (lsame trans 'N' = true ∨ lsame trans 'T' = true ∨ lsame trans 'C' = true) := by
      simp only [Bool.and_eq_true, Bool.not_eq_true'] at h1
      simp [h1.1.1, h1.1.2, h1.2]
    simp only [GemvRes.xerbla.injEq]
    constructor
    · intro e; exact Or.inl ⟨e.symm, this⟩
    · rintro (h | h | h | h)
      · exact h.1.symm
      · exact absurd h.2.1 this
      · exact absurd h.2.1 this
      · exact absurd h.2.1 this
  rw [if_neg h1]
  have h1' : lsame trans 'N' = true ∨ lsame trans 'T' = true ∨ lsame trans 'C' = true := by
    cases hN : lsame trans 'N' <;> cases hT : lsame trans 'T' <;> cases hC : lsame trans 'C' <;> simp_all
  by_cases h2 : A.nrow < 0 ∨ A.ncol < 0
  · rw [if_pos h2]; simp only [GemvRes.xerbla.injEq]
    constructor
    · intro e; exact Or.inr (Or.inl ⟨e.symm, h1', h2⟩)
    · rintro (h | h | h | h)
      · exact absurd h1' h.2
      · exact h.1.symm
      · exact absurd h2 h.2.2.1
      · exact absurd h2 h.2.2.1
  rw [if_neg h2]
  by_cases h3 : incx = 0
  · rw [if_pos h3]; simp only [GemvRes.xerbla.injEq]
    constructor
    · intro e; exact Or.inr (Or.inr (Or.inl ⟨e.symm, h1', h2, h3⟩))
    · rintro (h | h | h | h)
      · exact absurd h1' h.2
      · exact absurd h.2.2 h2
      · exact h.1.symm
      · exact absurd h3 h.2.2.2.1
  rw [if_neg h3]
  by_cases h4 : incy = 0
  · rw [if_pos h4]; simp only [GemvRes.xerbla.injEq]
    constructor
    · intro e; exact Or.inr (Or.inr (Or.inr ⟨e.symm, h1', h2, h3, h4⟩))
    · rintro (h | h | h | h)
      · exact absurd h1' h.2
      · exact absurd h.2.2 h2
      · exact absurd h.2.2.2 h3
      · exact h.1.symm
  rw [if_neg h4]
  constructor
  · intro e; exfalso; revert e
    simp only []
    split_ifs <;> simp
  · rintro (h | h | h | h)
    · exact absurd h1' h.2
    · exact absurd h.2.2 h2
    · exact absurd h.2.2.2 h3
    · exact absurd h.2.2.2.2 h4

/-- a loop that stores the constant `c` into the cells `p i` -/
theorem rd_foldl_const (p : Nat → Nat) (y : Array α) (n : Nat) (q : Nat) :
    rd ((List.range n).foldl (fun y i => wr y (p i) (0 : α)) y) q
      = if ∃ i < n, p i = q then 0 else rd y q := by
  induction n with
  | zero => simp
  | succ n ih =>
    rw [foldl_range_succ, rd_wr, ih]
    have hsz : ((List.range n).foldl (fun y i => wr y (p i) (0 : α)) y).size = y.size :=
      size_foldl_range Array.size _ _ _ (by intro s k; simp)
    rw [hsz]
    by_cases h : q = p n
    · subst h
      by_cases hb : p n < y.size
      · have : ∃ i < n + 1, p i = p n := ⟨n, Nat.lt_succ_self n, rfl⟩
        rw [if_pos ⟨rfl, hb⟩, if_pos this]
      · have e1 : ∃ i < n + 1, p i = p n := ⟨n, Nat.lt_succ_self n, rfl⟩
        have e2 : rd y (p n) = 0 := rd_of_size_le y (p n) (Nat.le_of_not_lt hb)
        rw [if_neg (fun h => hb h.2), if_pos e1]
        split_ifs
        · rfl
        · exact e2
    · have e : (∃ i < n + 1, p i = q) ↔ (∃ i < n, p i = q) := by
        constructor
        · rintro ⟨i, hi, hp⟩
          have : i ≠ n := fun e => h (by rw [← hp, e])
          exact ⟨i, by omega, hp⟩
        · rintro ⟨i, hi, hp⟩; exact ⟨i, by omega, hp⟩
      simp only [h, false_and, if_false, e]

/-- with `beta = 0` the scaled vector does not depend on what the strided cells of `y` contained -/
theorem scaleY_zero_congr (h01 : (0 : α) ≠ 1) (leny incy : Int) (yoff : Nat) (y y' : Array α)
    (hs : y.size = y'.size)
    (hag : ∀ q, (∀ i < leny.toNat, q ≠ yoff + spos leny incy i) → rd y q = rd y' q) :
    scaleY (0 : α) leny incy yoff y = scaleY (0 : α) leny incy yoff y' := by
  unfold scaleY
  simp only [if_neg h01]
  by_cases h1 : incy = 1
  · subst h1
    simp only [if_true]
    apply array_ext_rd
    · rw [size_foldl_range Array.size _ _ _ (by intro s k; simp), size_foldl_range Array.size _ _ _ (by intro s k; simp), hs]
    · intro k _
      rw [rd_foldl_const (fun i => yoff + i), rd_foldl_const (fun i => yoff + i)]
      by_cases he : ∃ i < leny.toNat, yoff + i = k
      · rw [if_pos he, if_pos he]
      · rw [if_neg he, if_neg he]
        apply hag
        intro i hi e
        unfold spos kstart at e
        simp at e
        exact he ⟨i, hi, e.symm⟩
  · simp only [h1, if_false, if_true]
    apply array_ext_rd
    · rw [size_foldl_range Array.size _ _ _ (by intro s k; simp), size_foldl_range Array.size _ _ _ (by intro s k; simp), hs]
    · intro k _
      rw [rd_foldl_const (fun i => yoff + spos leny incy i),
        rd_foldl_const (fun i => yoff + spos leny incy i)]
      by_cases he : ∃ i < leny.toNat, yoff + spos leny incy i = k
      · rw [if_pos he, if_pos he]
      · rw [if_neg he, if_neg he]
        apply hag
        intro i hi e
        exact he ⟨i, hi, e.symm⟩

end Ops
end Slu.Blas
