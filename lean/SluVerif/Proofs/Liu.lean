/- Liu's algorithm (sp_symetree / sp_coletree main loop) computes the elimination tree of the graph
   whose edges are the (row, col) pairs it is fed, row < col. -/
import SluVerif.Proofs.UnionFind
import SluVerif.Proofs.EtreeRef
import SluVerif.Proofs.Colorder
namespace Slu.Pre

/-- graph whose edges are `{col, row}` for `row ∈ rowsOf col`, `row < col` -/
def liuGraph (rowsOf : Nat → List Nat) (a b : Nat) : Bool :=
  (decide (b < a) && (rowsOf a).contains b) || (decide (a < b) && (rowsOf b).contains a)

theorem liuGraph_symm (rowsOf : Nat → List Nat) (a b : Nat) : liuGraph rowsOf a b = liuGraph rowsOf b a := by
  unfold liuGraph; rw [Bool.or_comm]

theorem liuGraph_lt (rowsOf : Nat → List Nat) {k i : Nat} (h : i < k) :
    liuGraph rowsOf k i = true ↔ i ∈ rowsOf k := by
  unfold liuGraph
  have : ¬ k < i := by omega
  simp [h, this]

/-- the main loop of `sp_symetree` / `sp_coletree` over abstract row lists -/
def liuRun (n : Nat) (rowsOf : Nat → List Nat) : LiuSt :=
  (List.range n).foldl (fun s col => liuCol n col (rowsOf col) s) (liuInit n)

/-! ### descendants under pointer updates -/

theorem desc_top {P : Nat → Nat} {n v : Nat} (h : Desc P n v n) : v = n := by
  cases h with
  | refl => rfl
  | step hx _ => omega

theorem desc_update {P P' : Nat → Nat} {n v x r : Nat} (hv : v < n) (hr : P r = n)
    (hP : ∀ y, y ≠ r → P' y = P y) (h : Desc P n v x) : Desc P' n v x := by
  induction h with
  | refl => exact Desc.refl _
  | @step x hx h' ih =>
      by_cases hxr : x = r
      · subst hxr; rw [hr] at h'; have := desc_top h'; omega
      · refine Desc.step hx ?_
        rw [hP x hxr]; exact ih

/-- `t` is the root of the tree containing `i` in the forest given by the parent function `P` -/
def TopOf (P : Nat → Nat) (n i t : Nat) : Prop := Desc P n t i ∧ t < n ∧ P t = n

theorem liuEdge_eq (col row : Nat) (s : LiuSt) :
    liuEdge col row s =
      if col ≤ row then s else
      if getN s.root (ufFind row s.pp).1 ≠ col then
        { pp := (ufFind row s.pp).2.setIfInBounds s.cset (ufFind row s.pp).1,
          root := s.root.setIfInBounds (ufFind row s.pp).1 col,
          parent := s.parent.setIfInBounds (getN s.root (ufFind row s.pp).1) col,
          cset := (ufFind row s.pp).1 }
      else { s with pp := (ufFind row s.pp).2 } := rfl

section liu
variable {G : Nat → Nat → Bool} {par : Nat → Nat} {n : Nat}

/-- invariant between columns: `k` columns done -/
structure LB (par : Nat → Nat) (n k : Nat) (s : LiuSt) : Prop where
  szp : s.parent.size = n
  szu : s.pp.size = n
  szr : s.root.size = n
  shape : ∀ j, j < k → getN s.parent j = if par j < k then par j else n
  uf : ∃ rank, UFValid s.pp k rank
  link : ∀ i r, Rep s.pp k i r → TopOf (getN s.parent) n i (getN s.root r)
  inj : ∀ r r', Rep s.pp k r r → Rep s.pp k r' r' → getN s.root r = getN s.root r' → r = r'

/-- invariant inside column `k`; `done` = rows of this column handled so far -/
structure LI (par : Nat → Nat) (n k : Nat) (done : List Nat) (s : LiuSt) : Prop where
  szp : s.parent.size = n
  szu : s.pp.size = n
  szr : s.root.size = n
  shape : ∀ j, j ≤ k → (getN s.parent j = par j ∧ par j ≤ k) ∨ (getN s.parent j = n ∧ k ≤ par j)
  uf : ∃ rank, UFValid s.pp (k + 1) rank
  link : ∀ i r, Rep s.pp (k + 1) i r → TopOf (getN s.parent) n i (getN s.root r)
  inj : ∀ r r', Rep s.pp (k + 1) r r → Rep s.pp (k + 1) r' r' → getN s.root r = getN s.root r' → r = r'
  cs : Rep s.pp (k + 1) k s.cset
  dn : ∀ i, i ∈ done → i < k → Desc (getN s.parent) n k i

/-- below `k` the parent pointers stay below `k` (or are `n`): ancestors of a vertex `< k` are `< k` -/
theorem LB.desc_lt {k : Nat} {s : LiuSt} (h : LB par n k s) {t x : Nat}
    (hd : Desc (getN s.parent) n t x) (hx : x < k) (ht : t < n) : t < k := by
  induction hd with
  | refl => exact hx
  | @step x hxn h' ih =>
      have hsh := h.shape x hx
      by_cases hp : par x < k
      · rw [if_pos hp] at hsh; rw [hsh] at ih; exact ih hp
      · rw [if_neg hp] at hsh; rw [hsh] at h'; have := desc_top h'; omega


/-- `Desc` only looks at the pointers of the vertices it passes -/
theorem desc_congr_lt {P P' : Nat → Nat} {k v x : Nat} (hP : ∀ y, y < k → P' y = P y)
    (hcl : ∀ y, y < k → P y < k ∨ P y = n) (hv : v < n) (hx : x < k) (h : Desc P n v x) : Desc P' n v x := by
  induction h with
  | refl => exact Desc.refl _
  | @step x hxn h' ih =>
      refine Desc.step hxn ?_
      rw [hP x hx]
      rcases hcl x hx with hlt | heq
      · exact ih hlt
      · rw [heq] at h'; have := desc_top h'; omega

theorem liu_col_start (he : IsEtree G n par) {k : Nat} {s : LiuSt} (hk : k < n) (h : LB par n k s) :
    LI par n k [] (liuS0 n k s) := by
  obtain ⟨rank, hv⟩ := h.uf
  have hks : k < s.pp.size := by rw [h.szu]; exact hk
  have hPget : ∀ y, y ≠ k → getN (s.parent.setIfInBounds k n) y = getN s.parent y := by
    intro y hy; rw [getN_set]
    have : ¬ (k = y ∧ k < s.parent.size) := fun hh => hy hh.1.symm
    rw [if_neg this]
  have hPk : getN (s.parent.setIfInBounds k n) k = n := by rw [getN_set]; simp [h.szp, hk]
  have hRget : ∀ y, y ≠ k → getN (s.root.setIfInBounds k k) y = getN s.root y := by
    intro y hy; rw [getN_set]
    have : ¬ (k = y ∧ k < s.root.size) := fun hh => hy hh.1.symm
    rw [if_neg this]
  have hRk : getN (s.root.setIfInBounds k k) k = k := by rw [getN_set]; simp [h.szr, hk]
  have hcl : ∀ y, y < k → getN s.parent y < k ∨ getN s.parent y = n := by
    intro y hy
    have := h.shape y hy
    by_cases hp : par y < k
    · rw [if_pos hp] at this; left; omega
    · rw [if_neg hp] at this; right; exact this
  have hrep := makeset_rep hv hks
  refine ⟨by simp [liuS0, h.szp], by simp [liuS0, h.szu], by simp [liuS0, h.szr], ?_, ⟨rank, makeset_valid hv hks⟩, ?_, ?_, ?_, ?_⟩
  · intro j hj
    show (getN (s.parent.setIfInBounds k n) j = par j ∧ par j ≤ k) ∨ (getN (s.parent.setIfInBounds k n) j = n ∧ k ≤ par j)
    by_cases hjk : j = k
    · subst hjk; right; exact ⟨hPk, Nat.le_of_lt (he j hk).1⟩
    · rw [hPget j hjk]
      have := h.shape j (by omega)
      by_cases hp : par j < k
      · rw [if_pos hp] at this; left; exact ⟨this, by omega⟩
      · rw [if_neg hp] at this; right; exact ⟨this, by omega⟩
  · intro i r hr
    show TopOf (getN (s.parent.setIfInBounds k n)) n i (getN (s.root.setIfInBounds k k) r)
    rcases (hrep i r).1 hr with ⟨e1, e2⟩ | ⟨hik, hr'⟩
    · subst e1; subst e2
      rw [hRk]; exact ⟨Desc.refl _, hk, hPk⟩
    · have hrk : r < k := hr'.is_root.1
      rw [hRget r (by omega)]
      obtain ⟨t1, t2, t3⟩ := h.link i r hr'
      have htk := h.desc_lt t1 hik t2
      refine ⟨desc_congr_lt (fun y hy => hPget y (by omega)) hcl t2 hik t1, t2, ?_⟩
      rw [hPget _ (by omega)]; exact t3
  · intro r r' hr hr' heq
    show r = r'
    have heq' : getN (s.root.setIfInBounds k k) r = getN (s.root.setIfInBounds k k) r' := heq
    rcases (hrep r r).1 hr with ⟨e1, _⟩ | ⟨h1, h1'⟩ <;> rcases (hrep r' r').1 hr' with ⟨e2, _⟩ | ⟨h2, h2'⟩
    · omega
    · -- root' k = k but root r' is a top < k
      subst e1
      rw [hRk, hRget r' (by omega)] at heq'
      obtain ⟨t1, t2, _⟩ := h.link r' r' h2'
      have := h.desc_lt t1 h2 t2
      omega
    · subst e2
      rw [hRk, hRget r (by omega)] at heq'
      obtain ⟨t1, t2, _⟩ := h.link r r h1'
      have := h.desc_lt t1 h1 t2
      omega
    · rw [hRget r (by omega), hRget r' (by omega)] at heq'
      exact h.inj r r' h1' h2' heq'
  · show Rep (s.pp.setIfInBounds k k) (k + 1) k k
    exact (hrep k k).2 (Or.inl ⟨rfl, rfl⟩)
  · intro i hi; cases hi


theorem LI.desc_le {k : Nat} {done : List Nat} {s : LiuSt} (h : LI par n k done s) {t x : Nat}
    (hd : Desc (getN s.parent) n t x) (hx : x ≤ k) (ht : t < n) : t ≤ k := by
  induction hd with
  | refl => exact hx
  | @step x hxn h' ih =>
      rcases h.shape x hx with ⟨e1, e2⟩ | ⟨e1, _⟩
      · rw [e1] at ih; exact ih e2
      · rw [e1] at h'; have := desc_top h'; omega

theorem LI.desc_par {k : Nat} {done : List Nat} {s : LiuSt} (h : LI par n k done s) {t x : Nat}
    (hd : Desc (getN s.parent) n t x) (hx : x ≤ k) (ht : t < n) : Desc par n t x := by
  induction hd with
  | refl => exact Desc.refl _
  | @step x hxn h' ih =>
      rcases h.shape x hx with ⟨e1, e2⟩ | ⟨e1, _⟩
      · rw [e1] at ih; exact Desc.step hxn (ih e2)
      · rw [e1] at h'; have := desc_top h'; omega

theorem LI.parent_k (he : IsEtree G n par) {k : Nat} {done : List Nat} {s : LiuSt} (hk : k < n)
    (h : LI par n k done s) : getN s.parent k = n := by
  rcases h.shape k (Nat.le_refl _) with ⟨_, e2⟩ | ⟨e1, _⟩
  · have := (he k hk).1; omega
  · exact e1

theorem LI.root_cset (he : IsEtree G n par) {k : Nat} {done : List Nat} {s : LiuSt} (hk : k < n)
    (h : LI par n k done s) : getN s.root s.cset = k := by
  obtain ⟨t1, t2, _⟩ := h.link k s.cset h.cs
  cases t1 with
  | refl => rfl
  | step _ h' =>
      rw [h.parent_k he hk] at h'
      have := desc_top h'; omega

theorem liu_edge (hs : ∀ a b, G a b = G b a) (he : IsEtree G n par) {k row : Nat} {done : List Nat} {s : LiuSt}
    (hk : k < n) (hrow : row < k → G k row = true) (h : LI par n k done s) :
    LI par n k (row :: done) (liuEdge k row s) := by
  rw [liuEdge_eq]
  by_cases hkr : k ≤ row
  · rw [if_pos hkr]
    refine { h with dn := ?_ }
    intro i hi hik
    rcases List.mem_cons.1 hi with e | hi'
    · omega
    · exact h.dn i hi' hik
  · rw [if_neg hkr]
    have hrk : row < k := by omega
    obtain ⟨rank, hv⟩ := h.uf
    obtain ⟨r0, hr0⟩ := hv.total row (by omega)
    obtain ⟨f1, f2, f3, f4⟩ := ufFind_spec hv hr0
    generalize ufFind row s.pp = U at f1 f2 f3 f4 ⊢
    obtain ⟨rset, pp1⟩ := U
    simp only at f1 f2 f3 f4 ⊢
    subst f1
    obtain ⟨t1, t2, t3⟩ := h.link row rset hr0
    have hPk := h.parent_k he hk
    have hrc := h.root_cset he hk
    have hcs1 : Rep pp1 (k + 1) k s.cset := (f4 _ _).2 h.cs
    by_cases htk : getN s.root rset = k
    · rw [if_neg (fun hne => hne htk)]
      refine ⟨h.szp, by rw [f3, h.szu], h.szr, h.shape, ⟨rank, f2⟩, ?_, ?_, hcs1, ?_⟩
      · intro i r hr; exact h.link i r ((f4 i r).1 hr)
      · intro r r' hr hr' heq; exact h.inj r r' ((f4 r r).1 hr) ((f4 r' r').1 hr') heq
      · intro i hi hik
        rcases List.mem_cons.1 hi with e | hi'
        · subst e; rw [htk] at t1; exact t1
        · exact h.dn i hi' hik
    · rw [if_pos htk]
      -- the top `t` of `row` is a root below `k`; its true parent is `k`
      have htle := h.desc_le t1 (Nat.le_of_lt hrk) t2
      have htlt : getN s.root rset < k := by omega
      have hdpar := h.desc_par t1 (Nat.le_of_lt hrk) t2
      have hE0 : fill G n k row = true := fill_mono (Nat.zero_le n) (hrow hrk)
      have hEt : fill G n k (getN s.root rset) = true := row_subtree_bwd hs he hdpar hE0 hrk htlt hk
      have hpart : par (getN s.root rset) = k := by
        obtain ⟨a1, a2, a3, a4⟩ := he (getN s.root rset) t2
        have hle : par (getN s.root rset) ≤ k := by
          apply Nat.le_of_not_lt
          intro hlt
          have := a4 k htlt hlt
          rw [hEt] at this; cases this
        rcases h.shape _ htle with ⟨e1, e2⟩ | ⟨_, e2⟩
        · rw [t3] at e1; omega
        · omega
      -- union-find facts
      have hc := hcs1.is_root
      have hr0' : Rep pp1 (k + 1) row rset := (f4 _ _).2 hr0
      have hr := hr0'.is_root
      have hne : s.cset ≠ rset := by
        intro e; rw [e] at hrc; exact htk hrc
      have hlrep := link_rep f2 hc.1 hc.2 hr.1 hr.2 hne
      obtain ⟨rank', hv'⟩ := link_valid f2 hc.1 hc.2 hr.1 hr.2 hne
      -- accessors of the updated arrays
      generalize ht : getN s.root rset = t at *
      have hPget : ∀ y, y ≠ t → getN (s.parent.setIfInBounds t k) y = getN s.parent y := by
        intro y hy; rw [getN_set]
        have : ¬ (t = y ∧ t < s.parent.size) := fun hh => hy hh.1.symm
        rw [if_neg this]
      have hPt : getN (s.parent.setIfInBounds t k) t = k := by rw [getN_set]; simp [h.szp, t2]
      have hRget : ∀ y, y ≠ rset → getN (s.root.setIfInBounds rset k) y = getN s.root y := by
        intro y hy; rw [getN_set]
        have : ¬ (rset = y ∧ rset < s.root.size) := fun hh => hy hh.1.symm
        rw [if_neg this]
      have hRr : getN (s.root.setIfInBounds rset k) rset = k := by
        rw [getN_set]; have : rset < s.root.size := by rw [h.szr]; omega
        simp [this]
      have hupd : ∀ {v x : Nat}, v < n → Desc (getN s.parent) n v x → Desc (getN (s.parent.setIfInBounds t k)) n v x :=
        fun hvn hd => desc_update hvn t3 hPget hd
      have hkt : Desc (getN (s.parent.setIfInBounds t k)) n k t := by
        refine Desc.step t2 ?_; rw [hPt]; exact Desc.refl _
      have hPk' : getN (s.parent.setIfInBounds t k) k = n := by rw [hPget k (by omega)]; exact hPk
      -- in the old structure: elements of k's set hang below k, elements of rset's set below t
      have hinC : ∀ i, Rep pp1 (k + 1) i s.cset → Desc (getN (s.parent.setIfInBounds t k)) n k i := by
        intro i hi
        obtain ⟨d1, _, _⟩ := h.link i s.cset ((f4 _ _).1 hi)
        rw [hrc] at d1
        exact hupd hk d1
      have hinR : ∀ i, Rep pp1 (k + 1) i rset → Desc (getN (s.parent.setIfInBounds t k)) n k i := by
        intro i hi
        obtain ⟨d1, _, _⟩ := h.link i rset ((f4 _ _).1 hi)
        rw [ht] at d1
        exact hkt.trans (hupd t2 d1)
      refine ⟨by simp [h.szp], by simp [f3, h.szu], by simp [h.szr], ?_, ⟨rank', hv'⟩, ?_, ?_, ?_, ?_⟩
      · intro j hj
        show (getN (s.parent.setIfInBounds t k) j = par j ∧ par j ≤ k) ∨ (getN (s.parent.setIfInBounds t k) j = n ∧ k ≤ par j)
        by_cases hjt : j = t
        · subst hjt; left; rw [hPt, hpart]; exact ⟨rfl, Nat.le_refl _⟩
        · rw [hPget j hjt]; exact h.shape j hj
      · intro i r hr'
        show TopOf (getN (s.parent.setIfInBounds t k)) n i (getN (s.root.setIfInBounds rset k) r)
        rcases (hlrep i r).1 hr' with ⟨hi, e⟩ | ⟨_, hi⟩
        · subst e; rw [hRr]; exact ⟨hinC i hi, hk, hPk'⟩
        · by_cases hrr : r = rset
          · subst hrr; rw [hRr]; exact ⟨hinR i hi, hk, hPk'⟩
          · rw [hRget r hrr]
            obtain ⟨d1, d2, d3⟩ := h.link i r ((f4 _ _).1 hi)
            have hne2 : getN s.root r ≠ t := by
              intro e
              have hrroot : Rep s.pp (k + 1) r r := by
                have := ((f4 _ _).1 hi).is_root; exact Rep.root this.1 this.2
              have hr0root : Rep s.pp (k + 1) rset rset := by
                have := hr0.is_root; exact Rep.root this.1 this.2
              exact hrr (h.inj r rset hrroot hr0root (by rw [e, ht]))
            exact ⟨hupd d2 d1, d2, by rw [hPget _ hne2]; exact d3⟩
      · intro r r' hr1 hr2 heq
        show r = r'
        have heq' : getN (s.root.setIfInBounds rset k) r = getN (s.root.setIfInBounds rset k) r' := heq
        -- a root of the new structure is `rset` or an old root different from `cset`, whose `root` is not `k`
        have hchar : ∀ x, Rep (pp1.setIfInBounds s.cset rset) (k + 1) x x →
            x = rset ∨ (x ≠ rset ∧ Rep s.pp (k + 1) x x ∧ getN s.root x ≠ k) := by
          intro x hx
          rcases (hlrep x x).1 hx with ⟨_, e⟩ | ⟨hnc, hxx⟩
          · exact Or.inl e
          · by_cases hxr : x = rset
            · exact Or.inl hxr
            · right
              have hxx' := (f4 _ _).1 hxx
              refine ⟨hxr, hxx', fun e => ?_⟩
              have hcroot : Rep s.pp (k + 1) s.cset s.cset := by
                have := h.cs.is_root; exact Rep.root this.1 this.2
              have := h.inj x s.cset hxx' hcroot (by rw [e, hrc])
              subst this
              exact hnc hxx
        rcases hchar r hr1 with e1 | ⟨n1, o1, k1⟩ <;> rcases hchar r' hr2 with e2 | ⟨n2, o2, k2⟩
        · rw [e1, e2]
        · rw [e1, hRr, hRget r' n2] at heq'; exact absurd heq'.symm k2
        · rw [e2, hRr, hRget r n1] at heq'; exact absurd heq' k1
        · rw [hRget r n1, hRget r' n2] at heq'; exact h.inj r r' o1 o2 heq'
      · show Rep (pp1.setIfInBounds s.cset rset) (k + 1) k rset
        exact (hlrep k rset).2 (Or.inl ⟨hcs1, rfl⟩)
      · intro i hi hik
        show Desc (getN (s.parent.setIfInBounds t k)) n k i
        rcases List.mem_cons.1 hi with e | hi'
        · subst e; exact hinR i hr0'
        · exact hupd hk (h.dn i hi' hik)


theorem LI.par_desc (he : IsEtree G n par) {k : Nat} {done : List Nat} {s : LiuSt} (h : LI par n k done s) {j i : Nat}
    (hd : Desc par n j i) (hj : j < k) : Desc (getN s.parent) n j i := by
  induction hd with
  | refl => exact Desc.refl _
  | @step x hxn h' ih =>
      have h1 := Slu.Pre.desc_le he h'
      have h2 := (he x hxn).1
      rcases h.shape x (by omega) with ⟨e1, _⟩ | ⟨_, e2⟩
      · exact Desc.step hxn (by rw [e1]; exact ih)
      · omega

theorem liu_col_end (hs : ∀ a b, G a b = G b a) (he : IsEtree G n par) {k : Nat} {done : List Nat} {s : LiuSt}
    (hk : k < n) (hdone : ∀ i, i < k → G k i = true → i ∈ done) (h : LI par n k done s) :
    LB par n (k + 1) s := by
  have hPk := h.parent_k he hk
  refine ⟨h.szp, h.szu, h.szr, ?_, h.uf, h.link, h.inj⟩
  intro j hj
  rcases h.shape j (by omega) with ⟨e1, e2⟩ | ⟨e1, e2⟩
  · rw [if_pos (by omega)]; exact e1
  · by_cases hpk : par j = k
    · exfalso
      have hjk : j < k := by have := (he j (by omega)).1; omega
      have hE : fill G n k j = true := by
        have := (he j (by omega)).2.2.1 (by omega); rwa [hpk] at this
      obtain ⟨i, hi1, hi2, hi3⟩ := row_subtree_fwd hs he j j k (Nat.le_refl _) hE hjk hk
      have hdk := h.dn i (hdone i (by omega) hi2) (by omega)
      have hdj := h.par_desc he hi3 hjk
      rcases Desc.chain hdj hdk with hd | hd
      · cases hd with
        | refl => omega
        | step _ h' => rw [hPk] at h'; have := desc_top h'; omega
      · cases hd with
        | refl => omega
        | step _ h' => rw [e1] at h'; have := desc_top h'; omega
    · rw [if_neg (by omega)]; exact e1

theorem liu_rows (hs : ∀ a b, G a b = G b a) (he : IsEtree G n par) {k : Nat} (hk : k < n) :
    ∀ (rows done : List Nat) (s : LiuSt), (∀ row, row ∈ rows → row < k → G k row = true) → LI par n k done s →
      LI par n k (rows.reverse ++ done) (rows.foldl (fun s row => liuEdge k row s) s) := by
  intro rows
  induction rows with
  | nil => intro done s _ h; simpa using h
  | cons r rows ih =>
      intro done s hG h
      have h1 := liu_edge hs he hk (hG r (by simp)) h
      have := ih (r :: done) _ (fun row hrow => hG row (List.mem_cons_of_mem _ hrow)) h1
      simpa using this

end liu

/-- one column of Liu's algorithm on the graph defined by the row lists -/
theorem liu_col (rowsOf : Nat → List Nat) {par : Nat → Nat} {n : Nat} (he : IsEtree (liuGraph rowsOf) n par)
    {k : Nat} {s : LiuSt} (hk : k < n) (h : LB par n k s) : LB par n (k + 1) (liuCol n k (rowsOf k) s) := by
  rw [liuCol_eq]
  have hs := liuGraph_symm rowsOf
  have h0 := liu_col_start he hk h
  have h1 := liu_rows hs he hk (rowsOf k) [] _ (fun row hrow hlt => (liuGraph_lt rowsOf hlt).2 hrow) h0
  refine liu_col_end hs he hk ?_ h1
  intro i hi hG
  have := (liuGraph_lt rowsOf hi).1 hG
  simp [this]

theorem liu_init_LB (par : Nat → Nat) (n : Nat) : LB par n 0 (liuInit n) := by
  refine ⟨by simp [liuInit], by simp [liuInit], by simp [liuInit], fun j hj => by omega,
    ⟨fun x => x, by simp [liuInit], fun i hi => by omega⟩, ?_, ?_⟩
  · intro i r hr; have := hr.lt; omega
  · intro r r' hr; have := hr.lt; omega

/-- **Liu's algorithm is correct**: the parent array after the main loop is the elimination tree of the
graph of the processed (row, col) pairs -/
theorem liuRun_eq_ref (n : Nat) (rowsOf : Nat → List Nat) :
    (liuRun n rowsOf).parent = etreeRef n (liuGraph rowsOf) := by
  have he := etreeRef_isEtree n (liuGraph rowsOf)
  have hfin : LB (getN (etreeRef n (liuGraph rowsOf))) n n (liuRun n rowsOf) :=
    foldl_range_inv (fun s col => liuCol n col (rowsOf col) s) (LB (getN (etreeRef n (liuGraph rowsOf))) n)
      (liuInit n) n (liu_init_LB _ n) (fun k a hk h => liu_col rowsOf he hk h)
  apply Array.ext
  · rw [hfin.szp, etreeRef_size]
  · intro j h1 h2
    have hj : j < n := by rw [hfin.szp] at h1; exact h1
    have := hfin.shape j hj
    rw [getN_eq_getElem _ _ h1] at this
    rw [this, getN_eq_getElem _ _ h2]
    split
    · rfl
    · rename_i hlt
      have := (he j hj).2.1
      rw [getN_eq_getElem _ _ h2] at this
      omega

end Slu.Pre
