/-
Second step towards `initOk`/`initOk2`: the width computed by one iteration of `ParallelInit`'s partition loop
(Model/Sched.lean `panelWidth` = `pw0` panel_size / stop before the next relaxed supernode, `pw1` SPLIT_TOP halving, `pw2` stop at a
branch point) is at least one column, at most panel_size, and never reaches past n or into the next relaxed supernode — for every
n, panel size ≥ 1, child-count array and cursor.  Hence the model's fall-back `if w == 0 then 1 else w` (there only to make
`initLoop` total) never fires, and the partition loop advances.
-/
import SluVerif.Model.Sched
namespace Slu
open Slu.Gen

theorem find_range'_bounds (p : Nat → Bool) (s len k : Nat) (h : (List.range' s len).find? p = some k) :
    s ≤ k ∧ k < s + len := by
  have hm := List.mem_of_find?_eq_some h
  rw [List.mem_range'_1] at hm
  exact hm

theorem pw0_bounds (c : PanelCfg) (i f : Nat) (hps : 1 ≤ c.panelSize) (hi : i < c.n) (hf : i < f) :
    1 ≤ pw0 c i f ∧ i + pw0 c i f ≤ c.n ∧ i + pw0 c i f ≤ f ∧ pw0 c i f ≤ c.panelSize := by
  unfold pw0
  simp only []
  have hmin : min (i + c.panelSize) c.n = if i + c.panelSize ≤ c.n then i + c.panelSize else c.n := Nat.min_def ..
  split
  · rename_i k hk
    have hb := find_range'_bounds _ _ _ _ hk
    have hp := List.find?_some hk
    simp only [beq_iff_eq] at hp
    split at hmin <;> omega
  · rename_i hnone
    have hall := List.find?_eq_none.mp hnone
    have hfout : ¬ (i + 1 ≤ f ∧ f < min (i + c.panelSize) c.n) := by
      intro hin
      have := hall f (by rw [List.mem_range'_1]; omega)
      simp at this
    split
    · rename_i hc
      simp only [Bool.and_eq_true, beq_iff_eq, decide_eq_true_eq] at hc
      split at hmin <;> omega
    · rename_i hc
      simp only [Bool.and_eq_true, beq_iff_eq, decide_eq_true_eq, not_and, Nat.not_lt] at hc
      split at hmin <;> omega

theorem pwTop_pos (c : PanelCfg) : 1 ≤ pwTop c := by
  unfold pwTop; split
  · omega
  · rename_i hc; simp only [beq_iff_eq] at hc; omega

theorem pw1_bounds (b : Bool) (wTop w0 : Nat) (ht : 1 ≤ wTop) (h0 : 1 ≤ w0) :
    1 ≤ (pw1 b wTop w0).1 ∧ (pw1 b wTop w0).1 ≤ w0 ∧ (pw1 b wTop w0).2 ≤ 1 := by
  unfold pw1; split
  · rename_i hc
    simp only [Bool.and_eq_true, decide_eq_true_eq] at hc
    simp only []; omega
  · simp only []; omega

theorem pw2_bounds (ukids0 : Array Int) (i w1 : Nat) (h1 : 1 ≤ w1) : 1 ≤ pw2 ukids0 i w1 ∧ pw2 ukids0 i w1 ≤ w1 := by
  unfold pw2; split
  · rename_i j hj
    have hb := find_range'_bounds _ _ _ _ hj
    omega
  · omega

/-- a regular panel stops at the first branch point: no column strictly inside it has more than one child -/
theorem pw2_no_branch (ukids0 : Array Int) (i w1 j : Nat) (h1 : 1 ≤ w1) (hj : i < j) (hjw : j < i + pw2 ukids0 i w1) :
    ¬ getZ ukids0 j > 1 := by
  unfold pw2 at hjw
  split at hjw
  · rename_i k hk
    have hb := find_range'_bounds _ _ _ _ hk
    have hnot := List.find?_eq_some_iff_append.mp hk
    obtain ⟨_, as, bs, hsplit, hall⟩ := hnot
    -- j lies in the prefix before the first hit
    have hjm : j ∈ List.range' (i + 1) (w1 - 1) := by rw [List.mem_range'_1]; omega
    rw [hsplit] at hjm
    have hsorted : (List.range' (i + 1) (w1 - 1)).Pairwise (· < ·) := List.pairwise_lt_range'
    rw [hsplit] at hsorted
    rcases List.mem_append.mp hjm with hja | hjb
    · have := hall j hja; simpa using this
    · rcases List.mem_cons.mp hjb with hjk | hjb
      · omega
      · have := (List.pairwise_append.mp hsorted).2.1
        have := List.rel_of_pairwise_cons this hjb
        omega
  · rename_i hnone
    have hall := List.find?_eq_none.mp hnone
    have := hall j (by rw [List.mem_range'_1]; omega)
    simpa using this

/-- **One iteration of the partition loop**: width between 1 and panel_size, inside [0, n), never into the next relaxed supernode,
at most one split counted. -/
theorem panelWidth_bounds (c : PanelCfg) (ukids0 : Array Int) (i f : Nat) (ds : Bool)
    (hps : 1 ≤ c.panelSize) (hi : i < c.n) (hf : i < f) :
    1 ≤ (panelWidth c ukids0 i f ds).1 ∧ i + (panelWidth c ukids0 i f ds).1 ≤ c.n
      ∧ i + (panelWidth c ukids0 i f ds).1 ≤ f ∧ (panelWidth c ukids0 i f ds).1 ≤ c.panelSize
      ∧ (panelWidth c ukids0 i f ds).2.2 ≤ 1 := by
  have A := pw0_bounds c i f hps hi hf
  have B := pw1_bounds (SPLIT_TOP && (ds || (SPLIT_TOP && decide (c.n - i < c.panelSize * SPLIT_P)))) (pwTop c) (pw0 c i f)
    (pwTop_pos c) A.1
  have C := pw2_bounds ukids0 i _ B.1
  unfold panelWidth
  simp only []
  omega

/-- no column strictly inside a regular panel is a branch point of the etree -/
theorem panelWidth_no_branch (c : PanelCfg) (ukids0 : Array Int) (i f : Nat) (ds : Bool)
    (hps : 1 ≤ c.panelSize) (hi : i < c.n) (hf : i < f) (j : Nat) (hj : i < j)
    (hjw : j < i + (panelWidth c ukids0 i f ds).1) : ¬ getZ ukids0 j > 1 := by
  have A := pw0_bounds c i f hps hi hf
  have B := pw1_bounds (SPLIT_TOP && (ds || (SPLIT_TOP && decide (c.n - i < c.panelSize * SPLIT_P)))) (pwTop c) (pw0 c i f)
    (pwTop_pos c) A.1
  unfold panelWidth at hjw
  simp only [] at hjw
  exact pw2_no_branch ukids0 i _ j B.1 hj hjw

end Slu
