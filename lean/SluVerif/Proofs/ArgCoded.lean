/- For the routine families whose code deviates from the documented table: the table the code actually
   implements (`Coded.*`, proved equal to the generated chain for every record in Props/C15.lean), the exclusion under
   which it coincides with the documented table, and the witness records of the counter-example lemmas. -/
import SluVerif.Proofs.ArgLemmas
namespace Slu
open Slu.Arg Slu.Gen Slu.Doc Slu.ArgLemmas

namespace Coded

/-! #### p?gssv: position 7 tests the shape of B only -/
def gssv (dt : Int) (a : GssvArgs) : List (Nat × Bool) :=
  [(1, gssv.violates_1 a), (2, gssv.violates_2 dt a), (7, decide (a.B_ncol < 0 ∨ a.B_lda < max 1 a.A_nrow))]

theorem gssv_eq_doc (dt : Int) (a : GssvArgs) (hB : a.B_Stype = SLU_DN ∧ a.B_Dtype = dt ∧ a.B_Mtype = SLU_GE) :
    firstOffender (gssv dt a) = gssv.docInfo dt a := by
  obtain ⟨h1, h2, h3⟩ := hB
  simp only [gssv, gssv.docInfo, gssv.table, gssv.violates_1, gssv.violates_2, gssv.violates_7]
  table_norm; enum_unfold; chain_steps

theorem gssv_valid_types (dt : Int) (a : GssvArgs) (h : gssv.valid dt a = true) :
    a.B_Stype = SLU_DN ∧ a.B_Dtype = dt ∧ a.B_Mtype = SLU_GE := by
  simp only [gssv.valid, allValid, gssv.table, List.all_cons, List.all_nil, gssv.violates_7, Bool.and_eq_true,
    Bool.not_eq_true', decide_eq_false_iff_not] at h
  enum_unfold; omega

/-! #### ?gstrs: L is tested under 3, U under 4, shapes only; all four precisions accept CONJ (the c/z header does
     not list it) -/
def gstrs (a : GstrsArgs) : List (Nat × Bool) :=
  [(1, decide (¬(a.trans = NOTRANS ∨ a.trans = TRANS ∨ a.trans = CONJ))),
   (3, gstrs.shape_2 a), (4, gstrs.shape_3 a), (6, gstrs.shape_6 a)]

/-- the exclusion of `?gstrs_first_offender_partial`: L and U well shaped, all documented types right, and — where
    the header does not list CONJ (c/z) — trans is not CONJ; i.e. only `trans` and the leading dimension of B are
    left to go wrong -/
def gstrsExcl (docConj : Bool) (dt : Int) (a : GstrsArgs) : Prop :=
  gstrs.shape_2 a = false ∧ gstrs.shape_3 a = false ∧ gstrs.types_2 dt a = false ∧ gstrs.types_3 dt a = false ∧
  gstrs.types_6 dt a = false ∧ (docConj = false → a.trans ≠ CONJ)
instance (docConj : Bool) (dt : Int) (a : GstrsArgs) : Decidable (gstrsExcl docConj dt a) := by
  unfold gstrsExcl; infer_instance

theorem gstrs_eq_doc (docConj : Bool) (dt : Int) (a : GstrsArgs) (hx : gstrsExcl docConj dt a) :
    firstOffender (gstrs a) = gstrs.docInfo docConj dt a := by
  obtain ⟨h2, h3, t2, t3, t6, hc⟩ := hx
  simp only [gstrs, gstrs.docInfo, gstrs.table, gstrs.violates_1, gstrs.violates_2, gstrs.violates_3, gstrs.violates_6,
    h2, h3, t2, t3, t6, Bool.or_false]
  cases docConj
  · have := hc rfl
    table_norm; enum_unfold; chain_steps
  · table_norm; enum_unfold; chain_steps

theorem gstrs_valid_excl (docConj : Bool) (dt : Int) (a : GstrsArgs) (h : gstrs.valid docConj dt a = true) :
    gstrsExcl docConj dt a := by
  simp only [gstrs.valid, allValid, gstrs.table, List.all_cons, List.all_nil, gstrs.violates_1, gstrs.violates_2,
    gstrs.violates_3, gstrs.violates_6, Bool.and_eq_true, Bool.not_eq_true', Bool.or_eq_false_iff,
    decide_eq_false_iff_not] at h
  refine ⟨h.2.1.1, h.2.2.1.1, h.2.1.2, h.2.2.1.2, h.2.2.2.2.2.1.2, ?_⟩
  intro hd
  have := h.1
  subst hd
  simp only [Bool.false_eq_true, false_and, or_false] at this
  enum_unfold; omega

/-! #### ?gsrfs: position 7 (equed) is not tested -/
def gsrfs (dt : Int) (a : GsrfsArgs) : List (Nat × Bool) :=
  [(1, gsrfs.violates_1 a), (2, gsrfs.violates_2 dt a), (3, gsrfs.violates_3 dt a), (4, gsrfs.violates_4 dt a),
   (10, gsrfs.violates_10 dt a), (11, gsrfs.violates_11 dt a)]

theorem gsrfs_valid_equed (dt : Int) (a : GsrfsArgs) (h : gsrfs.valid dt a = true) : gsrfs.violates_7 a = false := by
  simp only [gsrfs.valid, allValid, gsrfs.table, List.all_cons, List.all_nil, Bool.and_eq_true, Bool.not_eq_true'] at h
  exact h.2.2.2.2.2.2.1

/-! #### sp_?trsv: L and U are tested for shape only; c/z accept trans = N and T only (`cOk = false`), s/d also the
     documented C (`cOk = true`, since /repo 2acf694) -/
def trsv (cOk : Bool) (a : TrsvArgs) : List (Nat × Bool) :=
  [(1, trsv.violates_1 a), (2, !(isLetter a.trans 78 || isLetter a.trans 84 || (cOk && isLetter a.trans 67))),
   (3, trsv.violates_3 a), (4, trsv.shape_4 a), (5, trsv.shape_5 a)]

def trsvExcl (cOk : Bool) (dt : Int) (a : TrsvArgs) : Prop :=
  (cOk = false → isLetter a.trans 67 = false) ∧ trsv.types_4 dt a = false ∧ trsv.types_5 dt a = false
instance (cOk : Bool) (dt : Int) (a : TrsvArgs) : Decidable (trsvExcl cOk dt a) := by unfold trsvExcl; infer_instance

theorem trsv_eq_doc (cOk : Bool) (dt : Int) (a : TrsvArgs) (hx : trsvExcl cOk dt a) :
    firstOffender (trsv cOk a) = trsv.docInfo dt a := by
  obtain ⟨hc, t4, t5⟩ := hx
  cases cOk
  · have hc' := hc rfl
    simp only [trsv, trsv.docInfo, trsv.table, trsv.violates_1, trsv.violates_2, trsv.violates_3, trsv.violates_4,
      trsv.violates_5, hc', t4, t5, Bool.or_false, Bool.false_and]
    table_norm; chain_steps
  · simp only [trsv, trsv.docInfo, trsv.table, trsv.violates_1, trsv.violates_2, trsv.violates_3, trsv.violates_4,
      trsv.violates_5, t4, t5, Bool.or_false, Bool.true_and]
    table_norm; chain_steps

theorem trsv_valid_excl (cOk : Bool) (dt : Int) (a : TrsvArgs) (hC : cOk = false → isLetter a.trans 67 = false)
    (h : trsv.valid dt a = true) : trsvExcl cOk dt a := by
  simp only [trsv.valid, allValid, trsv.table, List.all_cons, List.all_nil, trsv.violates_4, trsv.violates_5,
    Bool.and_eq_true, Bool.not_eq_true', Bool.or_eq_false_iff] at h
  exact ⟨hC, h.2.2.2.1.2, h.2.2.2.2.1.2⟩

/-! #### sp_?gemv: position 3 tests the sizes of A only -/
def gemv (a : GemvArgs) : List (Nat × Bool) :=
  [(1, gemv.violates_1 a), (3, gemv.shape_3 a), (5, gemv.violates_5 a), (8, gemv.violates_8 a)]

theorem gemv_eq_doc (dt : Int) (a : GemvArgs) (h3 : gemv.types_3 dt a = false) :
    firstOffender (gemv a) = gemv.docInfo dt a := by
  simp only [gemv, gemv.docInfo, gemv.table, gemv.violates_1, gemv.violates_3, gemv.violates_5, gemv.violates_8,
    gemv.shape_3, h3, Bool.or_false]
  table_norm; chain_steps

theorem gemv_valid_types (dt : Int) (a : GemvArgs) (h : gemv.valid dt a = true) : gemv.types_3 dt a = false := by
  simp only [gemv.valid, allValid, gemv.table, List.all_cons, List.all_nil, gemv.violates_3,
    Bool.and_eq_true, Bool.not_eq_true', Bool.or_eq_false_iff] at h
  exact h.2.2.1.2

end Coded

/-! ### witness records (3 x 3 systems, one right-hand side) -/
namespace Witness

def gssvOk (dt : Int) : GssvArgs :=
  { nprocs := 2, A_nrow := 3, A_ncol := 3, A_Stype := SLU_NC, A_Dtype := dt, A_Mtype := SLU_GE,
    B_ncol := 1, B_lda := 3, B_Stype := SLU_DN, B_Dtype := dt, B_Mtype := SLU_GE }
def gssvBadA : GssvArgs := { gssvOk SLU_D with A_ncol := 4, B_lda := 0 }
/-- B tagged as a compressed-column matrix: documented violation of argument 7, accepted by the code -/
def gssvBadBtype (dt : Int) : GssvArgs := { gssvOk dt with B_Stype := SLU_NC }

def gssvxOk (dt : Int) : GssvxArgs :=
  { nprocs := 1, superlumt_options_fact := FACTORED, superlumt_options_trans := TRANS, superlumt_options_refact := NO,
    superlumt_options_usepr := NO, superlumt_options_lwork := -1,
    A_nrow := 3, A_ncol := 3, A_Stype := SLU_NR, A_Dtype := dt, A_Mtype := SLU_GE,
    equed := BOTH, R := [1, 2, 1], C := [1, 1, 4],
    B_ncol := 2, B_lda := 3, B_Stype := SLU_DN, B_Dtype := dt, B_Mtype := SLU_GE,
    X_ncol := 2, X_lda := 4, X_Stype := SLU_DN, X_Dtype := dt, X_Mtype := SLU_GE, bignum := 1 }
def gssvxBadR (dt : Int) : GssvxArgs := { gssvxOk dt with R := [1, 0, 1], C := [-1, 1, 1], X_ncol := 5 }

def gstrsOk (dt : Int) : GstrsArgs :=
  { trans := TRANS, L_nrow := 3, L_ncol := 3, L_Stype := SLU_SCP, L_Dtype := dt, L_Mtype := SLU_TRLU,
    U_nrow := 3, U_ncol := 3, U_Stype := SLU_NCP, U_Dtype := dt, U_Mtype := SLU_TRU,
    B_lda := 3, B_Stype := SLU_DN, B_Dtype := dt, B_Mtype := SLU_GE }
def gstrsBadLda (dt : Int) : GstrsArgs := { gstrsOk dt with B_lda := 2 }
def gstrsBadL (dt : Int) : GstrsArgs := { gstrsOk dt with L_ncol := 4 }
def gstrsBadU (dt : Int) : GstrsArgs := { gstrsOk dt with U_nrow := -1, U_ncol := -1 }
def gstrsBadLtype (dt : Int) : GstrsArgs := { gstrsOk dt with L_Mtype := SLU_GE }
def gstrsConj (dt : Int) : GstrsArgs := { gstrsOk dt with trans := CONJ }

def gsrfsOk (dt : Int) : GsrfsArgs :=
  { trans := CONJ, A_nrow := 3, A_ncol := 3, A_Stype := SLU_NC, A_Dtype := dt, A_Mtype := SLU_GE,
    L_nrow := 3, L_ncol := 3, L_Stype := SLU_SCP, L_Dtype := dt, L_Mtype := SLU_TRLU,
    U_nrow := 3, U_ncol := 3, U_Stype := SLU_NCP, U_Dtype := dt, U_Mtype := SLU_TRU, equed := ROW,
    B_lda := 3, B_Stype := SLU_DN, B_Dtype := dt, B_Mtype := SLU_GE,
    X_lda := 3, X_Stype := SLU_DN, X_Dtype := dt, X_Mtype := SLU_GE }
def gsrfsBadX (dt : Int) : GsrfsArgs := { gsrfsOk dt with X_lda := 2 }
def gsrfsBadEqued (dt : Int) : GsrfsArgs := { gsrfsOk dt with equed := 4 }

def gsconOk (dt : Int) : GsconArgs :=
  { norm := 105, L_nrow := 3, L_ncol := 3, L_Stype := SLU_SCP, L_Dtype := dt, L_Mtype := SLU_TRLU,
    U_nrow := 3, U_ncol := 3, U_Stype := SLU_NCP, U_Dtype := dt, U_Mtype := SLU_TRU }
def gsconBadU (dt : Int) : GsconArgs := { gsconOk dt with U_Stype := SLU_NC }

def gsequOk (dt : Int) : GsequArgs := { A_nrow := 3, A_ncol := 5, A_Stype := SLU_NC, A_Dtype := dt, A_Mtype := SLU_GE }
def gsequBad (dt : Int) : GsequArgs := { gsequOk dt with A_ncol := -1 }

def trsvOk (dt : Int) : TrsvArgs :=
  { uplo := 108, trans := 84, diag := 85, L_nrow := 3, L_ncol := 3, L_Stype := SLU_SCP, L_Dtype := dt, L_Mtype := SLU_TRLU,
    U_nrow := 3, U_ncol := 3, U_Stype := SLU_NCP, U_Dtype := dt, U_Mtype := SLU_TRU }
def trsvBadDiag (dt : Int) : TrsvArgs := { trsvOk dt with diag := 88 }
/-- trans = 'C': documented, rejected by the code -/
def trsvC (dt : Int) : TrsvArgs := { trsvOk dt with trans := 67 }
def trsvBadLtype (dt : Int) : TrsvArgs := { trsvOk dt with L_Stype := SLU_NC }

def gemvOk (dt : Int) : GemvArgs :=
  { trans := 99, A_nrow := 3, A_ncol := 4, A_Stype := SLU_NCP, A_Dtype := dt, A_Mtype := SLU_GE, incx := 1, incy := -2 }
def gemvBadIncy (dt : Int) : GemvArgs := { gemvOk dt with incy := 0 }
def gemvBadAtype (dt : Int) : GemvArgs := { gemvOk dt with A_Stype := SLU_DN }

end Witness
end Slu
