/- helper lemmas for the ?gscon wiring and the driver decision tables (Props/C12) -/
import SluVerif.Model.Growth
import SluVerif.Proofs.LaconUpper
import SluVerif.Proofs.LaconLower

namespace Slu
open Finset

/-- transpose of a dense matrix function -/
def trD (D : Nat → Nat → Rat) : Nat → Nat → Rat := fun i j => D j i

/-- `‖D‖∞` = max absolute row sum -/
def normInf (n : Nat) (D : Nat → Nat → Rat) : Rat := rmaxTo n fun i => rsum n fun j => rabs (D i j)

theorem matVecT_eq (n : Nat) (B : Nat → Nat → Rat) : matVecT n B = matVec n (trD B) := rfl
theorem matVec_eq_T (n : Nat) (B : Nat → Nat → Rat) : matVec n B = matVecT n (trD B) := rfl
theorem norm1_trD (n : Nat) (D : Nat → Nat → Rat) : norm1 n (trD D) = normInf n D := rfl
theorem normInf_trD (n : Nat) (D : Nat → Nat → Rat) : normInf n (trD D) = norm1 n D := rfl

theorem rmaxTo_nonneg (n : Nat) (f : Nat → Rat) : 0 ≤ rmaxTo n f := by
  unfold rmaxTo
  induction n with
  | zero => simp
  | succ k ih =>
    rw [List.range_succ, List.foldl_append]
    simp only [List.foldl_cons, List.foldl_nil]
    split
    · rename_i h; exact le_trans ih (le_of_lt h)
    · exact ih

end Slu
