/-
Helper lemmas for C11 (Model/Equil.lean): the C macros are max/min/abs, the running max / min scans,
`firstZero`, and the row-maximum pass as a per-row fold.
-/
import SluVerif.Model.Equil
import Mathlib.Algebra.Order.Field.Rat
import Mathlib.Tactic.Linarith
import Mathlib.Tactic.FieldSimp
import Mathlib.Tactic.Positivity

namespace Slu.Equil
open Entry

theorem rmax_eq (a b : Rat) : rmax a b = max a b := by
  unfold rmax; split
  · rename_i h; exact (max_eq_left (le_of_lt h)).symm
  · rename_i h; exact (max_eq_right (not_lt.mp h)).symm

theorem rmin_eq (a b : Rat) : rmin a b = min a b := by
  unfold rmin; split
  · rename_i h; exact (min_eq_left (le_of_lt h)).symm
  · rename_i h; exact (min_eq_right (not_lt.mp h)).symm

theorem rabs_eq (x : Rat) : rabs x = |x| := by
  unfold rabs; split
  · rename_i h; exact (abs_of_neg h).symm
  · rename_i h; exact (abs_of_nonneg (not_lt.mp h)).symm

/-! ### running maximum / minimum -/

/-- running maximum started at `a` -/
def fmax (a : Rat) (l : List Rat) : Rat := l.foldl max a
/-- running minimum started at `a` -/
def fmin (a : Rat) (l : List Rat) : Rat := l.foldl min a

@[simp] theorem fmax_nil (a : Rat) : fmax a [] = a := rfl
@[simp] theorem fmax_cons (a x : Rat) (l : List Rat) : fmax a (x :: l) = fmax (max a x) l := rfl
@[simp] theorem fmin_nil (a : Rat) : fmin a [] = a := rfl
@[simp] theorem fmin_cons (a x : Rat) (l : List Rat) : fmin a (x :: l) = fmin (min a x) l := rfl

theorem fmax_ge_init (a : Rat) (l : List Rat) : a ≤ fmax a l := by
  induction l generalizing a with
  | nil => simp
  | cons x l ih => simp only [fmax_cons]; exact le_trans (le_max_left a x) (ih _)

theorem fmax_ge_mem (a : Rat) (l : List Rat) : ∀ x ∈ l, x ≤ fmax a l := by
  induction l generalizing a with
  | nil => simp
  | cons y l ih =>
    intro x hx
    simp only [fmax_cons]
    rcases List.mem_cons.mp hx with rfl | h
    · exact le_trans (le_max_right a x) (fmax_ge_init _ l)
    · exact ih _ x h

theorem fmax_mem_or_init (a : Rat) (l : List Rat) : fmax a l = a ∨ fmax a l ∈ l := by
  induction l generalizing a with
  | nil => simp
  | cons y l ih =>
    simp only [fmax_cons]
    rcases ih (max a y) with h | h
    · rcases max_choice a y with h2 | h2
      · left; rw [h, h2]
      · right; rw [h, h2]; exact List.mem_cons_self
    · right; exact List.mem_cons_of_mem _ h

theorem fmax_le_iff (a b : Rat) (l : List Rat) : fmax a l ≤ b ↔ a ≤ b ∧ ∀ x ∈ l, x ≤ b := by
  constructor
  · intro h
    exact ⟨le_trans (fmax_ge_init a l) h, fun x hx => le_trans (fmax_ge_mem a l x hx) h⟩
  · intro ⟨h1, h2⟩
    rcases fmax_mem_or_init a l with h | h
    · rw [h]; exact h1
    · exact h2 _ h

theorem fmin_le_init (a : Rat) (l : List Rat) : fmin a l ≤ a := by
  induction l generalizing a with
  | nil => simp
  | cons x l ih => simp only [fmin_cons]; exact le_trans (ih _) (min_le_left a x)

theorem fmin_le_mem (a : Rat) (l : List Rat) : ∀ x ∈ l, fmin a l ≤ x := by
  induction l generalizing a with
  | nil => simp
  | cons y l ih =>
    intro x hx
    simp only [fmin_cons]
    rcases List.mem_cons.mp hx with rfl | h
    · exact le_trans (fmin_le_init _ l) (min_le_right a x)
    · exact ih _ x h

theorem fmin_mem_or_init (a : Rat) (l : List Rat) : fmin a l = a ∨ fmin a l ∈ l := by
  induction l generalizing a with
  | nil => simp
  | cons y l ih =>
    simp only [fmin_cons]
    rcases ih (min a y) with h | h
    · rcases min_choice a y with h2 | h2
      · left; rw [h, h2]
      · right; rw [h, h2]; exact List.mem_cons_self
    · right; exact List.mem_cons_of_mem _ h

theorem le_fmin_iff (a b : Rat) (l : List Rat) : b ≤ fmin a l ↔ b ≤ a ∧ ∀ x ∈ l, b ≤ x := by
  constructor
  · intro h
    exact ⟨le_trans h (fmin_le_init a l), fun x hx => le_trans h (fmin_le_mem a l x hx)⟩
  · intro ⟨h1, h2⟩
    rcases fmin_mem_or_init a l with h | h
    · rw [h]; exact h1
    · exact h2 _ h

/-- the scan of gsequ is the pair (running min from `big`, running max from 0). -/
theorem scanMinMax_eq (big : Rat) (v : List Rat) : scanMinMax big v = (fmin big v, fmax 0 v) := by
  unfold scanMinMax
  suffices h : ∀ (a b : Rat), v.foldl (fun (s : Rat × Rat) x => (rmin s.1 x, rmax s.2 x)) (a, b) = (fmin a v, fmax b v) from h big 0
  induction v with
  | nil => intro a b; rfl
  | cons x v ih =>
    intro a b
    rw [List.foldl_cons, fmin_cons, fmax_cons, ← rmin_eq, ← rmax_eq]
    exact ih _ _

/-- with non-negative data and a positive start, the running minimum is 0 iff some element is 0. -/
theorem fmin_eq_zero_iff (big : Rat) (v : List Rat) (hb : 0 < big) (hv : ∀ x ∈ v, 0 ≤ x) :
    fmin big v = 0 ↔ ∃ x ∈ v, x = 0 := by
  constructor
  · intro h
    rcases fmin_mem_or_init big v with h2 | h2
    · rw [h] at h2; exact absurd h2.symm (ne_of_gt hb)
    · exact ⟨_, h2, h⟩
  · intro ⟨x, hx, hx0⟩
    apply le_antisymm
    · have := fmin_le_mem big v x hx; rw [hx0] at this; exact this
    · exact (le_fmin_iff big 0 v).mpr ⟨le_of_lt hb, hv⟩

/-! ### firstZero -/

theorem firstZero_none_iff (v : List Rat) : firstZero v = none ↔ ∀ x ∈ v, x ≠ 0 := by
  induction v with
  | nil => simp [firstZero]
  | cons x v ih =>
    unfold firstZero
    by_cases hx : x = 0
    · simp [hx]
    · simp [hx, ih]

theorem firstZero_some_iff (v : List Rat) (i : Nat) :
    firstZero v = some i ↔ i < v.length ∧ v.getD i 1 = 0 ∧ ∀ k < i, v.getD k 1 ≠ 0 := by
  induction v generalizing i with
  | nil => simp [firstZero]
  | cons x v ih =>
    unfold firstZero
    by_cases hx : x = 0
    · subst hx
      simp only [beq_self_eq_true, if_true, Option.some.injEq]
      constructor
      · intro h; subst h; simp
      · intro ⟨_, _, h3⟩
        rcases Nat.eq_zero_or_pos i with h | h
        · exact h.symm
        · exact absurd (by simp) (h3 0 h)
    · have hx' : (x == 0) = false := by simpa using hx
      simp only [hx', Bool.false_eq_true, if_false, Option.map_eq_some_iff]
      constructor
      · rintro ⟨j, hj, rfl⟩
        obtain ⟨h1, h2, h3⟩ := (ih j).mp hj
        refine ⟨by simpa using h1, by simpa using h2, ?_⟩
        intro k hk
        cases k with
        | zero => simpa using hx
        | succ k => simpa using h3 k (by omega)
      · intro ⟨h1, h2, h3⟩
        cases i with
        | zero => simp at h2; exact absurd h2 hx
        | succ j =>
          refine ⟨j, (ih j).mpr ⟨by simpa using h1, by simpa using h2, ?_⟩, rfl⟩
          intro k hk
          simpa using h3 (k + 1) (by omega)

end Slu.Equil
