/-
C11 helper lemmas: closed forms of the two halves of gsequ, the clip / reciprocal arithmetic and the
"reported ratio is min/max of the returned factors" argument.
-/
import SluVerif.Proofs.EquilRows

namespace Slu.Equil
open Entry

/-! ### clip and its reciprocal -/

/-- `SUPERLU_MIN(SUPERLU_MAX(x, smlnum), bignum)` -/
def clip (sml big x : Rat) : Rat := min (max x sml) big

theorem clipInv_eq (sml big x : Rat) : clipInv sml big x = 1 / clip sml big x := by
  unfold clipInv clip; rw [rmax_eq, rmin_eq]

theorem clip_ge (sml big x : Rat) (hb : sml ≤ big) : sml ≤ clip sml big x :=
  le_min (le_max_right _ _) hb

theorem clip_le (sml big x : Rat) : clip sml big x ≤ big := min_le_right _ _

theorem clip_pos (sml big x : Rat) (hs : 0 < sml) (hb : sml ≤ big) : 0 < clip sml big x :=
  lt_of_lt_of_le hs (clip_ge sml big x hb)

theorem clip_of_mem (sml big x : Rat) (h1 : sml ≤ x) (h2 : x ≤ big) : clip sml big x = x := by
  unfold clip; rw [max_eq_left h1, min_eq_left h2]

theorem clip_mono (sml big : Rat) {x y : Rat} (h : x ≤ y) : clip sml big x ≤ clip sml big y :=
  min_le_min_right _ (max_le_max_right _ h)

theorem clipInv_pos (sml big x : Rat) (hs : 0 < sml) (hb : sml ≤ big) : 0 < clipInv sml big x := by
  rw [clipInv_eq]; exact one_div_pos.mpr (clip_pos sml big x hs hb)

/-- inside `[smlnum, bignum]` the factor is the exact reciprocal. -/
theorem clipInv_mul_self (sml big x : Rat) (hs : 0 < sml) (h1 : sml ≤ x) (h2 : x ≤ big) :
    clipInv sml big x * x = 1 := by
  rw [clipInv_eq, clip_of_mem sml big x h1 h2]
  have : x ≠ 0 := ne_of_gt (lt_of_lt_of_le hs h1)
  field_simp

theorem clipInv_anti (sml big : Rat) (hs : 0 < sml) (hb : sml ≤ big) {x y : Rat} (h : x ≤ y) :
    clipInv sml big y ≤ clipInv sml big x := by
  rw [clipInv_eq, clipInv_eq]
  exact one_div_le_one_div_of_le (clip_pos sml big x hs hb) (clip_mono sml big h)

/-- the numerator `SUPERLU_MAX(rcmin, smlnum)` of the reported ratio is the clipped minimum. -/
theorem max_min_eq_clip (sml big x : Rat) (hb : sml ≤ big) : max (min x big) sml = clip sml big x := by
  unfold clip
  rcases le_total x big with h | h
  · rw [min_eq_left h]
    exact (min_eq_left (max_le h hb)).symm
  · rw [min_eq_right h, max_eq_left hb]
    have : big ≤ max x sml := le_trans h (le_max_left _ _)
    exact (min_eq_right this).symm

/-- the denominator `SUPERLU_MIN(rcmax, bignum)` is the clipped maximum only when `rcmax ≥ smlnum`. -/
theorem min_eq_clip (sml big x : Rat) (h : sml ≤ x) : min x big = clip sml big x := by
  unfold clip; rw [max_eq_left h]

/-! ### the reported ratio -/

/-- Let `v` be a non-empty list of numbers whose running maximum (from 0) is at least `smlnum`.  Then
`max(rcmin, smlnum) / min(rcmax, bignum)` (as gsequ computes it from the running min / max) is the
quotient (smallest factor) / (largest factor) of the reciprocals `1/clip(v_k)`. -/
theorem ratio_is_min_over_max (sml big : Rat) (hs : 0 < sml) (hb : sml ≤ big) (v : List Rat)
    (hne : v ≠ []) (hmax : sml ≤ fmax 0 v) :
    ∃ ra ∈ v.map (clipInv sml big), ∃ rb ∈ v.map (clipInv sml big),
      (∀ y ∈ v.map (clipInv sml big), ra ≤ y ∧ y ≤ rb) ∧
      max (fmin big v) sml / min (fmax 0 v) big = ra / rb := by
  -- the maximum is attained
  have hM : fmax 0 v ∈ v := by
    rcases fmax_mem_or_init 0 v with h | h
    · exfalso; rw [h] at hmax; exact absurd hmax (not_le.mpr hs)
    · exact h
  -- an element whose clip equals the clipped running minimum and is minimal
  have hm : ∃ a ∈ v, clip sml big a = max (fmin big v) sml ∧ ∀ x ∈ v, clip sml big a ≤ clip sml big x := by
    rcases fmin_mem_or_init big v with h | h
    · -- every element is ≥ big
      obtain ⟨a, ha⟩ := List.exists_mem_of_ne_nil v hne
      have hall : ∀ x ∈ v, big ≤ x := by
        intro x hx; have := fmin_le_mem big v x hx; rw [h] at this; exact this
      have hc : ∀ x ∈ v, clip sml big x = big := by
        intro x hx
        unfold clip
        exact min_eq_right (le_trans (hall x hx) (le_max_left _ _))
      refine ⟨a, ha, ?_, ?_⟩
      · rw [hc a ha, h, max_eq_left hb]
      · intro x hx; rw [hc a ha, hc x hx]
    · refine ⟨fmin big v, h, ?_, ?_⟩
      · have hle : fmin big v ≤ big := fmin_le_init big v
        rw [← max_min_eq_clip sml big _ hb, min_eq_left hle]
      · intro x hx; exact clip_mono sml big (fmin_le_mem big v x hx)
  obtain ⟨a, ha, hca, hamin⟩ := hm
  refine ⟨clipInv sml big (fmax 0 v), List.mem_map.mpr ⟨_, hM, rfl⟩,
          clipInv sml big a, List.mem_map.mpr ⟨_, ha, rfl⟩, ?_, ?_⟩
  · intro y hy
    obtain ⟨x, hx, rfl⟩ := List.mem_map.mp hy
    constructor
    · exact clipInv_anti sml big hs hb (fmax_ge_mem 0 v x hx)
    · rw [clipInv_eq, clipInv_eq]
      exact one_div_le_one_div_of_le (clip_pos sml big a hs hb) (hamin x hx)
  · rw [clipInv_eq, clipInv_eq, ← hca, min_eq_clip sml big _ hmax]
    have h1 := clip_pos sml big (fmax 0 v) hs hb
    have h2 := clip_pos sml big a hs hb
    field_simp

/-! ### closed forms of the two halves -/

section
variable {E : Type} [Entry E]

theorem rowMaxPass_nonneg (A : SpMat E) : ∀ x ∈ rowMaxPass A, 0 ≤ x := by
  intro x hx
  rw [rowMaxPass_eq_map] at hx
  obtain ⟨i, _, rfl⟩ := List.mem_map.mp hx
  exact rowMax_nonneg A i

theorem colMaxPass_nonneg (A : SpMat E) (r : List Rat) : ∀ x ∈ colMaxPass A r, 0 ≤ x := by
  intro x hx
  unfold colMaxPass at hx
  obtain ⟨col, _, rfl⟩ := List.mem_map.mp hx
  rw [colMax_eq]; exact fmax_ge_init 0 _

/-- row half, a zero row exists: early return at the first one; `r` holds the raw maxima. -/
theorem gsequRowPart_zero (sml big : Rat) (hb : 0 < big) (A : SpMat E) (s : GsState) (i : Nat)
    (hz : firstZero (rowMaxPass A) = some i) :
    gsequRowPart sml big A s =
      ({ s with r := rowMaxPass A, amax := fmax 0 (rowMaxPass A), info := (i : Int) + 1 }, false) := by
  have hmin : fmin big (rowMaxPass A) = 0 := by
    apply (fmin_eq_zero_iff big _ hb (rowMaxPass_nonneg A)).mpr
    obtain ⟨h1, h2, _⟩ := (firstZero_some_iff _ _).mp hz
    refine ⟨(rowMaxPass A).getD i 1, ?_, h2⟩
    rw [List.getD_eq_getElem?_getD, List.getElem?_eq_getElem h1]
    exact List.getElem_mem h1
  unfold gsequRowPart
  simp only [scanMinMax_eq, hmin, beq_self_eq_true, if_true, hz]

/-- row half, no zero row: inverted factors and the ratio. -/
theorem gsequRowPart_ok (sml big : Rat) (hb : 0 < big) (A : SpMat E) (s : GsState)
    (hz : firstZero (rowMaxPass A) = none) :
    gsequRowPart sml big A s =
      ({ s with r := (rowMaxPass A).map (clipInv sml big), amax := fmax 0 (rowMaxPass A), info := 0,
                rowcnd := max (fmin big (rowMaxPass A)) sml / min (fmax 0 (rowMaxPass A)) big }, true) := by
  have hmin : fmin big (rowMaxPass A) ≠ 0 := by
    intro h
    obtain ⟨x, hx, hx0⟩ := (fmin_eq_zero_iff big _ hb (rowMaxPass_nonneg A)).mp h
    exact (firstZero_none_iff _).mp hz x hx hx0
  have hmin' : (fmin big (rowMaxPass A) == 0) = false := by simpa using hmin
  unfold gsequRowPart
  simp only [scanMinMax_eq, hmin', Bool.false_eq_true, if_false, rmax_eq, rmin_eq]

/-- column half, a zero column (of `diag(R)·A`) exists. -/
theorem gsequColPart_zero (sml big : Rat) (hb : 0 < big) (A : SpMat E) (s2 : GsState) (j : Nat)
    (hz : firstZero (colMaxPass A s2.r) = some j) :
    gsequColPart sml big A s2 =
      { s2 with c := colMaxPass A s2.r, info := (A.nrow : Int) + (j : Int) + 1 } := by
  have hmin : fmin big (colMaxPass A s2.r) = 0 := by
    apply (fmin_eq_zero_iff big _ hb (colMaxPass_nonneg A _)).mpr
    obtain ⟨h1, h2, _⟩ := (firstZero_some_iff _ _).mp hz
    refine ⟨(colMaxPass A s2.r).getD j 1, ?_, h2⟩
    rw [List.getD_eq_getElem?_getD, List.getElem?_eq_getElem h1]
    exact List.getElem_mem h1
  unfold gsequColPart
  simp only [scanMinMax_eq, hmin, beq_self_eq_true, if_true, hz]

theorem gsequColPart_ok (sml big : Rat) (hb : 0 < big) (A : SpMat E) (s2 : GsState)
    (hz : firstZero (colMaxPass A s2.r) = none) :
    gsequColPart sml big A s2 =
      { s2 with c := (colMaxPass A s2.r).map (clipInv sml big),
                colcnd := max (fmin big (colMaxPass A s2.r)) sml / min (fmax 0 (colMaxPass A s2.r)) big } := by
  have hmin : fmin big (colMaxPass A s2.r) ≠ 0 := by
    intro h
    obtain ⟨x, hx, hx0⟩ := (fmin_eq_zero_iff big _ hb (colMaxPass_nonneg A _)).mp h
    exact (firstZero_none_iff _).mp hz x hx hx0
  have hmin' : (fmin big (colMaxPass A s2.r) == 0) = false := by simpa using hmin
  unfold gsequColPart
  simp only [scanMinMax_eq, hmin', Bool.false_eq_true, if_false, rmax_eq, rmin_eq]

/-- `firstZero` on the row maxima, in terms of the matrix. -/
theorem firstZero_rows_iff (A : SpMat E) (i : Nat) :
    firstZero (rowMaxPass A) = some i ↔
      i < A.nrow ∧ rowMax A i = 0 ∧ ∀ k < i, rowMax A k ≠ 0 := by
  rw [firstZero_some_iff, rowMaxPass_length]
  constructor
  · intro ⟨h1, h2, h3⟩
    refine ⟨h1, ?_, ?_⟩
    · rw [List.getD_eq_getElem?_getD, rowMaxPass_get A i h1] at h2; exact h2
    · intro k hk
      have := h3 k hk
      rw [List.getD_eq_getElem?_getD, rowMaxPass_get A k (by omega)] at this; exact this
  · intro ⟨h1, h2, h3⟩
    refine ⟨h1, ?_, ?_⟩
    · rw [List.getD_eq_getElem?_getD, rowMaxPass_get A i h1]; exact h2
    · intro k hk
      rw [List.getD_eq_getElem?_getD, rowMaxPass_get A k (by omega)]; exact h3 k hk

theorem firstZero_rows_none_iff (A : SpMat E) :
    firstZero (rowMaxPass A) = none ↔ ∀ i < A.nrow, rowMax A i ≠ 0 := by
  rw [firstZero_none_iff, rowMaxPass_eq_map]
  constructor
  · intro h i hi
    exact h _ (List.mem_map.mpr ⟨i, List.mem_range.mpr hi, rfl⟩)
  · intro h x hx
    obtain ⟨i, hi, rfl⟩ := List.mem_map.mp hx
    exact h i (List.mem_range.mp hi)

end

end Slu.Equil

namespace Slu.Equil
open Entry

section
variable {E : Type} [Entry E]

/-- stored entries of column `j` (empty outside the matrix) -/
def SpMat.col (A : SpMat E) (j : Nat) : List (Nat × E) := A.cols.getD j []

omit [Entry E] in
theorem SpMat.col_get (A : SpMat E) (j : Nat) (hj : j < A.ncol) : A.cols[j]? = some (A.col j) := by
  unfold SpMat.col SpMat.ncol at *
  rw [List.getD_eq_getElem?_getD, List.getElem?_eq_getElem hj]; rfl

omit [Entry E] in
theorem SpMat.col_mem_stored (A : SpMat E) (j : Nat) (e : Nat × E) (he : e ∈ A.col j) : e ∈ A.stored := by
  unfold SpMat.col at he
  rw [List.getD_eq_getElem?_getD] at he
  unfold SpMat.stored
  cases h : A.cols[j]? with
  | none => rw [h] at he; simp at he
  | some c =>
    rw [h] at he
    exact List.mem_flatten.mpr ⟨c, List.mem_of_getElem? h, he⟩

/-- largest scaled magnitude `|a|·r[irow]` of column `j` -/
def colMaxS (A : SpMat E) (r : List Rat) (j : Nat) : Rat := fmax 0 (colMags r (A.col j))

theorem colMaxPass_getD (A : SpMat E) (r : List Rat) (j : Nat) (hj : j < A.ncol) :
    (colMaxPass A r)[j]? = some (colMaxS A r j) := by
  rw [colMaxPass_get, A.col_get j hj]; rfl

theorem colMaxPass_eq_map (A : SpMat E) (r : List Rat) :
    colMaxPass A r = (List.range A.ncol).map (colMaxS A r) := by
  apply List.ext_getElem?
  intro j
  by_cases hj : j < A.ncol
  · rw [colMaxPass_getD A r j hj, List.getElem?_map, List.getElem?_range hj]; rfl
  · have h1 : (colMaxPass A r)[j]? = none := by
      apply List.getElem?_eq_none; rw [colMaxPass_length]; omega
    have h2 : ((List.range A.ncol).map (colMaxS A r))[j]? = none := by
      apply List.getElem?_eq_none; simp; omega
    rw [h1, h2]

theorem colMaxS_nonneg (A : SpMat E) (r : List Rat) (j : Nat) : 0 ≤ colMaxS A r j := fmax_ge_init 0 _

theorem colMaxS_ge (A : SpMat E) (r : List Rat) (j : Nat) (e : Nat × E) (he : e ∈ A.col j) :
    mag e.2 * r.getD e.1 0 ≤ colMaxS A r j := by
  apply fmax_ge_mem
  exact List.mem_map.mpr ⟨e, he, rfl⟩

theorem colMaxS_attained (A : SpMat E) (r : List Rat) (j : Nat) :
    colMaxS A r j = 0 ∨ ∃ e ∈ A.col j, mag e.2 * r.getD e.1 0 = colMaxS A r j := by
  rcases fmax_mem_or_init 0 (colMags r (A.col j)) with h | h
  · left; exact h
  · right
    obtain ⟨e, he, hm⟩ := List.mem_map.mp h
    exact ⟨e, he, hm⟩

theorem firstZero_cols_iff (A : SpMat E) (r : List Rat) (j : Nat) :
    firstZero (colMaxPass A r) = some j ↔
      j < A.ncol ∧ colMaxS A r j = 0 ∧ ∀ k < j, colMaxS A r k ≠ 0 := by
  rw [firstZero_some_iff, colMaxPass_length]
  constructor
  · intro ⟨h1, h2, h3⟩
    refine ⟨h1, ?_, ?_⟩
    · rw [List.getD_eq_getElem?_getD, colMaxPass_getD A r j h1] at h2; exact h2
    · intro k hk
      have := h3 k hk
      rw [List.getD_eq_getElem?_getD, colMaxPass_getD A r k (by omega)] at this; exact this
  · intro ⟨h1, h2, h3⟩
    refine ⟨h1, ?_, ?_⟩
    · rw [List.getD_eq_getElem?_getD, colMaxPass_getD A r j h1]; exact h2
    · intro k hk
      rw [List.getD_eq_getElem?_getD, colMaxPass_getD A r k (by omega)]; exact h3 k hk

theorem firstZero_cols_none_iff (A : SpMat E) (r : List Rat) :
    firstZero (colMaxPass A r) = none ↔ ∀ j < A.ncol, colMaxS A r j ≠ 0 := by
  rw [firstZero_none_iff, colMaxPass_eq_map]
  constructor
  · intro h j hj
    exact h _ (List.mem_map.mpr ⟨j, List.mem_range.mpr hj, rfl⟩)
  · intro h x hx
    obtain ⟨j, hj, rfl⟩ := List.mem_map.mp hx
    exact h j (List.mem_range.mp hj)

/-- what the column half leaves alone -/
theorem gsequColPart_frame (sml big : Rat) (hb : 0 < big) (A : SpMat E) (s2 : GsState) :
    (gsequColPart sml big A s2).r = s2.r ∧ (gsequColPart sml big A s2).amax = s2.amax ∧
    (gsequColPart sml big A s2).rowcnd = s2.rowcnd := by
  cases hz : firstZero (colMaxPass A s2.r) with
  | none => rw [gsequColPart_ok sml big hb A s2 hz]; exact ⟨rfl, rfl, rfl⟩
  | some j => rw [gsequColPart_zero sml big hb A s2 j hz]; exact ⟨rfl, rfl, rfl⟩

end

section
variable {E : Type} [Entry E] [Zero E] [LawfulEntry E]

/-- with positive row factors on the rows that occur, a scaled column maximum vanishes exactly when
every stored entry of the column is zero. -/
theorem colMaxS_eq_zero_iff (A : SpMat E) (r : List Rat) (j : Nat)
    (hr : ∀ e ∈ A.col j, 0 < r.getD e.1 0) :
    colMaxS A r j = 0 ↔ ∀ e ∈ A.col j, e.2 = 0 := by
  constructor
  · intro h e he
    have h1 := colMaxS_ge A r j e he
    rw [h] at h1
    have h2 : 0 ≤ mag e.2 := LawfulEntry.mag_nonneg e.2
    have h3 := hr e he
    have h4 : mag e.2 = 0 := by
      by_contra hne
      have : 0 < mag e.2 := lt_of_le_of_ne h2 (Ne.symm hne)
      have : 0 < mag e.2 * r.getD e.1 0 := mul_pos this h3
      linarith
    exact (LawfulEntry.mag_eq_zero e.2).mp h4
  · intro h
    rcases colMaxS_attained A r j with h0 | ⟨e, he, hm⟩
    · exact h0
    · rw [← hm, (LawfulEntry.mag_eq_zero e.2).mpr (h e he), zero_mul]

end

end Slu.Equil
