/- C20 helper lemmas: the format-descriptor parsers. -/
import SluVerif.Proofs.ReadBasic
namespace Slu.Read

theorem noDigHead_cons {c : Char} {s : Str} (h : isDig c = false) : NoDigHead (c :: s) := h

theorem isDig_not_EDF {c : Char} (h : isDig c = true) : isEDF c = false := by
  have h1 := ne_of_isDig h (x := 'E') (by decide)
  have h2 := ne_of_isDig h (x := 'e') (by decide)
  have h3 := ne_of_isDig h (x := 'D') (by decide)
  have h4 := ne_of_isDig h (x := 'd') (by decide)
  have h5 := ne_of_isDig h (x := 'F') (by decide)
  have h6 := ne_of_isDig h (x := 'f') (by decide)
  simp [isEDF, h1, h2, h3, h4, h5, h6]

theorem isDig_not_P {c : Char} (h : isDig c = true) : isP c = false := by
  have h1 := ne_of_isDig h (x := 'p') (by decide)
  have h2 := ne_of_isDig h (x := 'P') (by decide)
  simp [isP, h1, h2]

theorem isDig_not_dotClose {c : Char} (h : isDig c = true) : isDotOrClose c = false := by
  have h1 := ne_of_isDig h (x := '.') (by decide)
  have h2 := ne_of_isDig h (x := ')') (by decide)
  simp [isDotOrClose, h1, h2]

theorem isEDF_not_dig {c : Char} (h : isEDF c = true) : isDig c = false := by
  simp only [isEDF, Bool.or_eq_true, beq_iff_eq] at h
  rcases h with ((((rfl | rfl) | rfl) | rfl) | rfl) | rfl <;> decide

theorem isP_not_dig {c : Char} (h : isP c = true) : isDig c = false := by
  simp only [isP, Bool.or_eq_true, beq_iff_eq] at h
  rcases h with rfl | rfl <;> decide

theorem isP_not_EDF {c : Char} (h : isP c = true) : isEDF c = false := by
  simp only [isP, Bool.or_eq_true, beq_iff_eq] at h
  rcases h with rfl | rfl <;> decide

theorem isDotOrClose_not_dig {c : Char} (h : isDotOrClose c = true) : isDig c = false := by
  simp only [isDotOrClose, Bool.or_eq_true, beq_iff_eq] at h
  rcases h with rfl | rfl <;> decide

/-- **`?ParseIntFormat`** on `pre(nIw)…`: whatever surrounds the descriptor. -/
theorem parseIntFormat_text (d : IntDesc) (tail : Str)
    (hpre : ∀ x ∈ d.pre, (x == '(') = false) (hI : isI d.letter = true)
    (hn : d.n < 2147483648) (hw : d.w < 2147483648) :
    parseIntFormat (d.text ++ tail) = some ((d.n : Int), (d.w : Int)) := by
  unfold parseIntFormat IntDesc.text
  simp only [List.append_assoc, List.cons_append]
  rw [dropThrough_append hpre (by decide)]
  simp only
  rw [atoiC_natDigits hn (noDigHead_cons (isI_not_dig hI)),
    dropUntil_append (fun x hx => isDig_not_I (natDigits_allDig _ x hx)) hI]
  simp only [List.drop_succ_cons, List.drop_zero]
  rw [atoiC_natDigits hw (noDigHead_cons (by decide))]

theorem pfLoop_digits (num : Int) {ds : Str} (hd : AllDig ds) (rest : Str) :
    pfLoop num (ds ++ rest) = pfLoop num rest := by
  induction ds with
  | nil => rfl
  | cons c cs ih =>
    simp only [List.cons_append, pfLoop, isDig_not_EDF hd.head, isDig_not_P hd.head]
    exact ih hd.tail

theorem pfLoop_stop (num : Int) {c : Char} (hc : isEDF c = true) (rest : Str) :
    pfLoop num (c :: rest) = some (num, c :: rest) := by
  simp [pfLoop, hc]

theorem pfLoop_P (num : Int) {p : Char} (hp : isP p = true) {cs : Str} {n : Int} (h : atoiC cs = some n) :
    pfLoop num (p :: cs) = pfLoop n cs := by
  simp [pfLoop, isP_not_EDF hp, hp, h]

def RealDesc.WF (d : RealDesc) : Prop :=
  (∀ x ∈ d.pre, (x == '(') = false) ∧ isEDF d.letter = true ∧ d.n < 2147483648 ∧ d.w < 2147483648 ∧
  (∃ c tl, d.rest = c :: tl ∧ isDotOrClose c = true) ∧
  (∀ k p, d.scale = some (k, p) → isP p = true ∧ k < 2147483648)

/-- **`?ParseFloatFormat`** on `pre([kP]nXw.d…)`. -/
theorem parseFloatFormat_text (d : RealDesc) (tail : Str) (h : d.WF) :
    parseFloatFormat (d.text ++ tail) = some ((d.n : Int), (d.w : Int)) := by
  obtain ⟨hpre, hL, hn, hw, ⟨c, tl, hrest, hc⟩, hs⟩ := h
  unfold parseFloatFormat RealDesc.text
  simp only [List.append_assoc, List.cons_append]
  rw [dropThrough_append hpre (by decide), hrest]
  simp only [List.cons_append]
  have hLd := isEDF_not_dig hL
  have key : ∀ num0 : Int, pfLoop num0 (natDigits d.n ++ d.letter :: (natDigits d.w ++ (c :: (tl ++ tail)))) =
      some (num0, d.letter :: (natDigits d.w ++ (c :: (tl ++ tail)))) := by
    intro num0; rw [pfLoop_digits num0 (natDigits_allDig _), pfLoop_stop num0 hL]
  have fin : (match takeUntil isDotOrClose (List.drop 1 (d.letter :: (natDigits d.w ++ (c :: (tl ++ tail))))) with
      | none => none
      | some fld => match atoiC fld with
        | some size => some ((d.n : Int), size)
        | none => none) = some ((d.n : Int), (d.w : Int)) := by
    simp only [List.drop_succ_cons, List.drop_zero]
    rw [takeUntil_append (fun x hx => isDig_not_dotClose (natDigits_allDig _ x hx)) hc]
    have := atoiC_natDigits hw (rest := []) trivial
    rw [List.append_nil] at this
    simp only [this]
  cases hsc : d.scale with
  | none =>
    simp only [List.nil_append]
    rw [atoiC_natDigits hn (noDigHead_cons hLd)]
    simp only [key]
    exact fin
  | some kp =>
    obtain ⟨k, p⟩ := kp
    obtain ⟨hp, hk⟩ := hs k p hsc
    simp only [List.append_assoc, List.cons_append, List.nil_append]
    rw [atoiC_natDigits hk (noDigHead_cons (isP_not_dig hp))]
    simp only
    rw [pfLoop_digits _ (natDigits_allDig _), pfLoop_P _ hp (atoiC_natDigits hn (noDigHead_cons hLd))]
    simp only [key]
    exact fin

end Slu.Read
