/- ?langs (SRC/?langs.c): the model of the sparse norm routine returns the max-abs / one / infinity
   norm of the dense matrix the column-compressed store denotes. -/
import SluVerif.Proofs.BlasGemv
import Mathlib.Algebra.Order.BigOperators.Group.Finset
import Mathlib.Algebra.Order.Monoid.Defs
import Mathlib.Order.Defs.LinearOrder
set_option linter.unusedSectionVars false
set_option linter.unusedSimpArgs false
set_option linter.unusedVariables false
namespace Slu.Blas
open Finset

/-! ### control flow: facts that need no algebraic law -/
section Ctl
variable {α β : Type} [Zero α] [Zero β] [Add β] [Max β]

/-- `if (SUPERLU_MIN(A->nrow, A->ncol) == 0) value = 0.;` whatever `norm` is -/
theorem langs_empty' (absf : α → β) (norm : Char) (A : NCMat α) (h : min A.nrow A.ncol = 0) :
    langs absf norm A = .val 0 := by
  unfold langs
  exact if_pos h

/-- `'F'`/`'E'` (either case) on a non-empty matrix: `SUPERLU_ABORT("Not implemented.")` -/
theorem langs_frobenius_notImplemented' (absf : α → β) (norm : Char) (A : NCMat α)
    (h : min A.nrow A.ncol ≠ 0) (hn : norm = 'F' ∨ norm = 'f' ∨ norm = 'E' ∨ norm = 'e') :
    langs absf norm A = .notImplemented := by
  unfold langs
  rw [if_neg h]
  rcases hn with rfl | rfl | rfl | rfl
  · have h1 : lsame 'F' 'M' = false := by decide
    have h2 : (lsame 'F' 'O' || 'F' == '1') = false := by decide
    have h3 : lsame 'F' 'I' = false := by decide
    have h4 : (lsame 'F' 'F' || lsame 'F' 'E') = true := by decide
    simp only [h1, h2, h3, h4, if_true, if_false, Bool.false_eq_true]
  · have h1 : lsame 'f' 'M' = false := by decide
    have h2 : (lsame 'f' 'O' || 'f' == '1') = false := by decide
    have h3 : lsame 'f' 'I' = false := by decide
    have h4 : (lsame 'f' 'F' || lsame 'f' 'E') = true := by decide
    simp only [h1, h2, h3, h4, if_true, if_false, Bool.false_eq_true]
  · have h1 : lsame 'E' 'M' = false := by decide
    have h2 : (lsame 'E' 'O' || 'E' == '1') = false := by decide
    have h3 : lsame 'E' 'I' = false := by decide
    have h4 : (lsame 'E' 'F' || lsame 'E' 'E') = true := by decide
    simp only [h1, h2, h3, h4, if_true, if_false, Bool.false_eq_true]
  · have h1 : lsame 'e' 'M' = false := by decide
    have h2 : (lsame 'e' 'O' || 'e' == '1') = false := by decide
    have h3 : lsame 'e' 'I' = false := by decide
    have h4 : (lsame 'e' 'F' || lsame 'e' 'E') = true := by decide
    simp only [h1, h2, h3, h4, if_true, if_false, Bool.false_eq_true]

end Ctl

/-! ### additive loops over a commutative monoid (the codomain of `absf` is not a ring) -/
section Mon
variable {β : Type} [AddCommMonoid β]

/-- running sum `t += g k` -/
theorem foldl_add_eq_sum' (g : Nat → β) (a : β) (n : Nat) :
    (List.range n).foldl (fun t k => t + g k) a = a + ∑ k ∈ range n, g k := by
  induction n with
  | zero => simp
  | succ n ih => rw [foldl_range_succ, ih, sum_range_succ, add_assoc]

/-- scatter-add loop `y[p k] += g k` -/
theorem rd_foldl_acc' (p : Nat → Nat) (g : Nat → β) (y : Array β) (n : Nat)
    (hp : ∀ k < n, p k < y.size) (q : Nat) :
    rd ((List.range n).foldl (fun y k => wr y (p k) (rd y (p k) + g k)) y) q
      = rd y q + ∑ k ∈ range n, if p k = q then g k else 0 := by
  induction n generalizing q with
  | zero => simp
  | succ n ih =>
    have hsz : ((List.range n).foldl (fun y k => wr y (p k) (rd y (p k) + g k)) y).size = y.size :=
      size_foldl_range Array.size _ _ _ (by intro s k; simp)
    rw [foldl_range_succ, rd_wr, sum_range_succ, hsz]
    have hpn := hp n (Nat.lt_succ_self n)
    have ih' := fun q => ih (fun k hk => hp k (Nat.lt_succ_of_lt hk)) q
    by_cases h : q = p n
    · subst h
      simp only [hpn, and_self, if_true, ih' (p n)]
      rw [add_assoc]
    · have h' : ¬ (p n = q) := fun e => h e.symm
      simp only [h, false_and, if_false, h', ih' q, add_zero]

theorem size_foldl_acc' (p : Nat → Nat) (g : Nat → β) (y : Array β) (n : Nat) :
    ((List.range n).foldl (fun y k => wr y (p k) (rd y (p k) + g k)) y).size = y.size :=
  size_foldl_range Array.size _ _ _ (by intro s k; simp)

/-- additive loop bodies compose: if every iteration adds `G j q` to cell `q`, the loop adds the sum -/
theorem rd_foldl_additive' (F : Array β → Nat → Array β) (G : Nat → Nat → β) (n : Nat) (y : Array β)
    (hF : ∀ y' j, j < n → y'.size = y.size → (F y' j).size = y.size ∧ ∀ q, rd (F y' j) q = rd y' q + G j q) :
    ((List.range n).foldl F y).size = y.size ∧
    ∀ q, rd ((List.range n).foldl F y) q = rd y q + ∑ j ∈ range n, G j q := by
  induction n with
  | zero => simp
  | succ n ih =>
    obtain ⟨ih1, ih2⟩ := ih (fun y' j hj hs => hF y' j (Nat.lt_succ_of_lt hj) hs)
    obtain ⟨h1, h2⟩ := hF _ n (Nat.lt_succ_self n) ih1
    rw [foldl_range_succ]
    refine ⟨h1, fun q => ?_⟩
    rw [h2, ih2, sum_range_succ, add_assoc]

theorem rd_replicate_zero (n q : Nat) : rd (Array.replicate n (0 : β)) q = 0 := by
  unfold rd
  by_cases h : q < n <;> simp [Array.getD, h]

end Mon

/-! ### running maximum loops -/
section MaxLoop
variable {β : Type} [LinearOrder β]

/-- `for k: v = SUPERLU_MAX(v, g k)` -/
theorem foldl_max_spec (g : Nat → β) (a : β) (n : Nat) :
    a ≤ (List.range n).foldl (fun v k => max v (g k)) a ∧
    (∀ k < n, g k ≤ (List.range n).foldl (fun v k => max v (g k)) a) ∧
    ((List.range n).foldl (fun v k => max v (g k)) a = a ∨
      ∃ k < n, g k = (List.range n).foldl (fun v k => max v (g k)) a) := by
  induction n with
  | zero => simp
  | succ n ih =>
    rw [foldl_range_succ]
    obtain ⟨i1, i2, i3⟩ := ih
    generalize (List.range n).foldl (fun v k => max v (g k)) a = v at i1 i2 i3 ⊢
    refine ⟨le_trans i1 (le_max_left _ _), ?_, ?_⟩
    · intro k hk
      by_cases e : k = n
      · subst e; exact le_max_right _ _
      · exact le_trans (i2 k (by omega)) (le_max_left _ _)
    · rcases le_total v (g n) with h | h
      · right; exact ⟨n, Nat.lt_succ_self n, (max_eq_right h).symm⟩
      · rw [max_eq_left h]
        rcases i3 with e | ⟨k, hk, e⟩
        · left; exact e
        · right; exact ⟨k, Nat.lt_succ_of_lt hk, e⟩

/-- `for j: for k < c j: v = SUPERLU_MAX(v, g j k)` -/
theorem foldl_max2_spec (c : Nat → Nat) (g : Nat → Nat → β) (a : β) (n : Nat) :
    a ≤ (List.range n).foldl (fun v j => (List.range (c j)).foldl (fun v k => max v (g j k)) v) a ∧
    (∀ j < n, ∀ k < c j, g j k ≤
      (List.range n).foldl (fun v j => (List.range (c j)).foldl (fun v k => max v (g j k)) v) a) ∧
    ((List.range n).foldl (fun v j => (List.range (c j)).foldl (fun v k => max v (g j k)) v) a = a ∨
      ∃ j < n, ∃ k < c j, g j k =
        (List.range n).foldl (fun v j => (List.range (c j)).foldl (fun v k => max v (g j k)) v) a) := by
  induction n with
  | zero => simp
  | succ n ih =>
    rw [foldl_range_succ]
    obtain ⟨i1, i2, i3⟩ := ih
    generalize (List.range n).foldl (fun v j => (List.range (c j)).foldl (fun v k => max v (g j k)) v) a = v
      at i1 i2 i3 ⊢
    obtain ⟨s1, s2, s3⟩ := foldl_max_spec (g n) v (c n)
    refine ⟨le_trans i1 s1, ?_, ?_⟩
    · intro j hj k hk
      by_cases e : j = n
      · subst e; exact s2 k hk
      · exact le_trans (i2 j (by omega) k hk) s1
    · rcases s3 with e | ⟨k, hk, e⟩
      · rw [e]
        rcases i3 with e' | ⟨j, hj, k, hk, e'⟩
        · left; exact e'
        · right; exact ⟨j, Nat.lt_succ_of_lt hj, k, hk, e'⟩
      · right; exact ⟨n, Nat.lt_succ_self n, k, hk, e⟩

end MaxLoop

/-! ### the dense matrix of a store without repeated entries -/
section Dense
variable {α : Type} [CommRing α]

/-- no duplicate row index inside a column (a well-formed NCformat without repeated entries) -/
def NCMat.nodupCols (A : NCMat α) : Prop :=
  ∀ j < A.ncol.toNat, ∀ k < A.clen j, ∀ k' < A.clen j, A.ri (A.cp j + k) = A.ri (A.cp j + k') → k = k'

/-- the dense entry at the row of a stored entry is that stored value -/
theorem NCMat.dense_of_ri (A : NCMat α) (hnd : A.nodupCols) (j : Nat) (hj : j < A.ncol.toNat)
    (k : Nat) (hk : k < A.clen j) : A.dense (A.ri (A.cp j + k)) j = A.nz (A.cp j + k) := by
  unfold NCMat.dense
  rw [sum_eq_single k]
  · rw [if_pos rfl]
  · intro k' hk' hne
    have : ¬ (A.ri (A.cp j + k') = A.ri (A.cp j + k)) :=
      fun e => hne (hnd j hj k' (mem_range.mp hk') k hk e)
    rw [if_neg this]
  · intro h; exact absurd (mem_range.mpr hk) h

/-- a dense entry is 0 (no stored entry in that row) or the single stored value with that row index -/
theorem NCMat.dense_cases (A : NCMat α) (hnd : A.nodupCols) (i j : Nat) (hj : j < A.ncol.toNat) :
    (A.dense i j = 0 ∧ ∀ k < A.clen j, A.ri (A.cp j + k) ≠ i) ∨
    ∃ k < A.clen j, A.ri (A.cp j + k) = i ∧ A.dense i j = A.nz (A.cp j + k) := by
  by_cases h : ∃ k < A.clen j, A.ri (A.cp j + k) = i
  · obtain ⟨k, hk, e⟩ := h
    right
    refine ⟨k, hk, e, ?_⟩
    rw [← e]
    exact A.dense_of_ri hnd j hj k hk
  · left
    have h' : ∀ k < A.clen j, A.ri (A.cp j + k) ≠ i := fun k hk e => h ⟨k, hk, e⟩
    refine ⟨?_, h'⟩
    unfold NCMat.dense
    apply sum_eq_zero
    intro k hk
    rw [if_neg (h' k (mem_range.mp hk))]

end Dense

/-! ### the three norms -/
section Norms
variable {α β : Type} [CommRing α] [LinearOrder β] [AddCommMonoid β] [IsOrderedAddMonoid β]

/-- `|A(i,j)|` as a sum over the column's extent -/
theorem absf_dense_eq_sum (absf : α → β) (habs0 : absf 0 = 0) (A : NCMat α) (hnd : A.nodupCols)
    (i j : Nat) (hj : j < A.ncol.toNat) :
    absf (A.dense i j)
      = ∑ k ∈ range (A.clen j), if A.ri (A.cp j + k) = i then absf (A.nz (A.cp j + k)) else 0 := by
  rcases A.dense_cases hnd i j hj with ⟨h0, hne⟩ | ⟨k, hk, e, hd⟩
  · rw [h0, habs0]
    symm
    apply sum_eq_zero
    intro k hk
    rw [if_neg (hne k (mem_range.mp hk))]
  · rw [hd, sum_eq_single k]
    · rw [if_pos e]
    · intro k' hk' hne
      have : ¬ (A.ri (A.cp j + k') = i) :=
        fun e' => hne (hnd j hj k' (mem_range.mp hk') k hk (e'.trans e.symm))
      rw [if_neg this]
    · intro h; exact absurd (mem_range.mpr hk) h

/-- the column sum of `|A(i,j)|` over the rows is the sum over the stored entries of the column -/
theorem sum_absf_dense_col (absf : α → β) (habs0 : absf 0 = 0) (A : NCMat α) (hnd : A.nodupCols)
    (j : Nat) (hj : j < A.ncol.toNat) (m : Nat) (hr : ∀ k < A.clen j, A.ri (A.cp j + k) < m) :
    ∑ i ∈ range m, absf (A.dense i j) = ∑ k ∈ range (A.clen j), absf (A.nz (A.cp j + k)) := by
  have : ∑ i ∈ range m, absf (A.dense i j)
      = ∑ i ∈ range m, ∑ k ∈ range (A.clen j),
          if A.ri (A.cp j + k) = i then absf (A.nz (A.cp j + k)) else 0 :=
    sum_congr rfl (fun i _ => absf_dense_eq_sum absf habs0 A hnd i j hj)
  rw [this, sum_comm]
  apply sum_congr rfl
  intro k hk
  have hlt := hr k (mem_range.mp hk)
  rw [sum_eq_single (A.ri (A.cp j + k))]
  · rw [if_pos rfl]
  · intro i _ hne
    have : ¬ (A.ri (A.cp j + k) = i) := fun e => hne e.symm
    rw [if_neg this]
  · intro h; exact absurd (mem_range.mpr hlt) h

theorem colAbsSum_eq_sum (absf : α → β) (A : NCMat α) (j : Nat) :
    colAbsSum absf A j = ∑ k ∈ range (A.clen j), absf (A.nz (A.cp j + k)) := by
  unfold colAbsSum
  rw [foldl_add_eq_sum' (fun k => absf (A.nz (A.cp j + k))) 0, zero_add]

/-- `rwork` after the scatter loop: size `nrow`, cell `q` holds the sum of `|Aval|` over the stored
entries with row index `q` -/
theorem rd_rowAbsSums (absf : α → β) (A : NCMat α) (hrows : A.rowsOk) :
    (rowAbsSums absf A).size = A.nrow.toNat ∧
    ∀ q, rd (rowAbsSums absf A) q
      = ∑ j ∈ range A.ncol.toNat, ∑ k ∈ range (A.clen j),
          if A.ri (A.cp j + k) = q then absf (A.nz (A.cp j + k)) else 0 := by
  have key := rd_foldl_additive'
    (fun w j => (List.range (A.clen j)).foldl
        (fun w k => wr w (A.ri (A.cp j + k)) (rd w (A.ri (A.cp j + k)) + absf (A.nz (A.cp j + k)))) w)
    (fun j q => ∑ k ∈ range (A.clen j), if A.ri (A.cp j + k) = q then absf (A.nz (A.cp j + k)) else 0)
    A.ncol.toNat (Array.replicate A.nrow.toNat (0 : β))
    (by
      intro y' j hj hs
      refine ⟨?_, fun q => ?_⟩
      · rw [size_foldl_acc' (fun k => A.ri (A.cp j + k)) (fun k => absf (A.nz (A.cp j + k))) y' _, hs]
      · exact rd_foldl_acc' (fun k => A.ri (A.cp j + k)) (fun k => absf (A.nz (A.cp j + k))) y' _
          (fun k hk => by have := hrows j hj k hk; rw [hs]; simpa using this) q)
  obtain ⟨k1, k2⟩ := key
  refine ⟨k1.trans (by simp), fun q => (k2 q).trans ?_⟩
  rw [rd_replicate_zero, zero_add]

/-- a row of `rwork` is the row sum of `|A(i,j)|` of the dense matrix -/
theorem rd_rowAbsSums_dense (absf : α → β) (habs0 : absf 0 = 0) (A : NCMat α) (hrows : A.rowsOk)
    (hnd : A.nodupCols) (i : Nat) :
    rd (rowAbsSums absf A) i = ∑ j ∈ range A.ncol.toNat, absf (A.dense i j) := by
  rw [(rd_rowAbsSums absf A hrows).2 i]
  apply sum_congr rfl
  intro j hj
  rw [absf_dense_eq_sum absf habs0 A hnd i j (mem_range.mp hj)]

theorem min_ne_zero_of_pos (A : NCMat α) (m n : Nat) (hm : A.nrow = (m : Int)) (hn : A.ncol = (n : Int))
    (hm0 : 0 < m) (hn0 : 0 < n) : ¬ (min A.nrow A.ncol = 0) := by
  rw [hm, hn]; omega

/-- `'M'`: the returned value is the maximum of `|A(i,j)|` over the dense `m × n` matrix -/
theorem langs_max_spec' (absf : α → β) (habs0 : absf 0 = 0) (hnonneg : ∀ a, 0 ≤ absf a)
    (norm : Char) (A : NCMat α) (m n : Nat) (hm : A.nrow = (m : Int)) (hn : A.ncol = (n : Int))
    (hm0 : 0 < m) (hn0 : 0 < n) (hrows : A.rowsOk) (hnd : A.nodupCols)
    (hM : lsame norm 'M' = true) :
    ∃ v, langs absf norm A = .val v ∧
      (∀ i < m, ∀ j < n, absf (A.dense i j) ≤ v) ∧
      (∃ i < m, ∃ j < n, absf (A.dense i j) = v) := by
  have hmin := min_ne_zero_of_pos A m n hm hn hm0 hn0
  have hN : A.ncol.toNat = n := by rw [hn]; exact Int.toNat_natCast n
  have hMt : A.nrow.toNat = m := by rw [hm]; exact Int.toNat_natCast m
  obtain ⟨s1, s2, s3⟩ := foldl_max2_spec A.clen (fun j k => absf (A.nz (A.cp j + k))) (0 : β) A.ncol.toNat
  refine ⟨langsMax absf A, ?_, ?_, ?_⟩
  · unfold langs
    rw [if_neg hmin, if_pos hM]
  · intro i hi j hj
    rcases A.dense_cases hnd i j (by omega) with ⟨h0, _⟩ | ⟨k, hk, _, hd⟩
    · rw [h0, habs0]; exact s1
    · rw [hd]; exact s2 j (by omega) k hk
  · rcases s3 with e | ⟨j, hj, k, hk, e⟩
    · refine ⟨0, hm0, 0, hn0, ?_⟩
      rcases A.dense_cases hnd 0 0 (by omega) with ⟨h0, _⟩ | ⟨k, hk, _, hd⟩
      · rw [h0, habs0]; exact e.symm
      · have h1 : absf (A.dense 0 0) ≤ langsMax absf A := by rw [hd]; exact s2 0 (by omega) k hk
        have h2 : langsMax absf A = 0 := e
        rw [h2] at h1 ⊢
        exact le_antisymm h1 (hnonneg _)
    · refine ⟨A.ri (A.cp j + k), ?_, j, by omega, ?_⟩
      · have := hrows j hj k hk; omega
      · rw [A.dense_of_ri hnd j hj k hk]; exact e

/-- `'O'`/`'1'`: the returned value is the maximum column sum of `|A(i,j)|` -/
theorem langs_one_spec' (absf : α → β) (habs0 : absf 0 = 0) (hnonneg : ∀ a, 0 ≤ absf a)
    (norm : Char) (A : NCMat α) (m n : Nat) (hm : A.nrow = (m : Int)) (hn : A.ncol = (n : Int))
    (hm0 : 0 < m) (hn0 : 0 < n) (hrows : A.rowsOk) (hnd : A.nodupCols)
    (hM : lsame norm 'M' = false) (hO : lsame norm 'O' = true ∨ norm = '1') :
    ∃ v, langs absf norm A = .val v ∧
      (∀ j < n, ∑ i ∈ range m, absf (A.dense i j) ≤ v) ∧
      (∃ j < n, ∑ i ∈ range m, absf (A.dense i j) = v) := by
  have hmin := min_ne_zero_of_pos A m n hm hn hm0 hn0
  have hN : A.ncol.toNat = n := by rw [hn]; exact Int.toNat_natCast n
  have hMt : A.nrow.toNat = m := by rw [hm]; exact Int.toNat_natCast m
  have hcol : ∀ j < n, ∑ i ∈ range m, absf (A.dense i j) = colAbsSum absf A j := by
    intro j hj
    rw [colAbsSum_eq_sum]
    exact sum_absf_dense_col absf habs0 A hnd j (by omega) m
      (fun k hk => by have := hrows j (by omega) k hk; omega)
  have hO' : (lsame norm 'O' || norm == '1') = true := by
    rcases hO with h | h
    · simp [h]
    · simp [h]
  obtain ⟨s1, s2, s3⟩ := foldl_max_spec (fun j => colAbsSum absf A j) (0 : β) A.ncol.toNat
  refine ⟨langsOne absf A, ?_, ?_, ?_⟩
  · unfold langs
    rw [if_neg hmin, hM, if_neg (by simp), if_pos hO']
  · intro j hj
    rw [hcol j hj]
    exact s2 j (by omega)
  · rcases s3 with e | ⟨j, hj, e⟩
    · refine ⟨0, hn0, ?_⟩
      have h1 : ∑ i ∈ range m, absf (A.dense i 0) ≤ langsOne absf A := by
        rw [hcol 0 hn0]; exact s2 0 (by omega)
      have h2 : langsOne absf A = 0 := e
      rw [h2] at h1 ⊢
      exact le_antisymm h1 (sum_nonneg (fun i _ => hnonneg _))
    · exact ⟨j, by omega, by rw [hcol j (by omega)]; exact e⟩

/-- `'I'`: the returned value is the maximum row sum of `|A(i,j)|` -/
theorem langs_inf_spec' (absf : α → β) (habs0 : absf 0 = 0) (hnonneg : ∀ a, 0 ≤ absf a)
    (norm : Char) (A : NCMat α) (m n : Nat) (hm : A.nrow = (m : Int)) (hn : A.ncol = (n : Int))
    (hm0 : 0 < m) (hn0 : 0 < n) (hrows : A.rowsOk) (hnd : A.nodupCols)
    (hM : lsame norm 'M' = false) (hO : lsame norm 'O' = false) (h1 : norm ≠ '1')
    (hI : lsame norm 'I' = true) :
    ∃ v, langs absf norm A = .val v ∧
      (∀ i < m, ∑ j ∈ range n, absf (A.dense i j) ≤ v) ∧
      (∃ i < m, ∑ j ∈ range n, absf (A.dense i j) = v) := by
  have hmin := min_ne_zero_of_pos A m n hm hn hm0 hn0
  have hN : A.ncol.toNat = n := by rw [hn]; exact Int.toNat_natCast n
  have hMt : A.nrow.toNat = m := by rw [hm]; exact Int.toNat_natCast m
  have hrow : ∀ i, ∑ j ∈ range n, absf (A.dense i j) = rd (rowAbsSums absf A) i := by
    intro i
    rw [rd_rowAbsSums_dense absf habs0 A hrows hnd i, hN]
  have hO' : ¬ ((lsame norm 'O' || norm == '1') = true) := by
    simp [hO, h1]
  obtain ⟨s1, s2, s3⟩ := foldl_max_spec (fun i => rd (rowAbsSums absf A) i) (0 : β) A.nrow.toNat
  refine ⟨langsInf absf A, ?_, ?_, ?_⟩
  · unfold langs
    rw [if_neg hmin, hM, if_neg (by simp), if_neg hO', if_pos hI]
  · intro i hi
    rw [hrow i]
    exact s2 i (by omega)
  · rcases s3 with e | ⟨i, hi, e⟩
    · refine ⟨0, hm0, ?_⟩
      have h1 : ∑ j ∈ range n, absf (A.dense 0 j) ≤ langsInf absf A := by
        rw [hrow 0]; exact s2 0 (by omega)
      have h2 : langsInf absf A = 0 := e
      rw [h2] at h1 ⊢
      exact le_antisymm h1 (sum_nonneg (fun j _ => hnonneg _))
    · exact ⟨i, by omega, by rw [hrow i]; exact e⟩

end Norms

/-! ### non-vacuity: a concrete 2×3 store over `Int`

```
      [ 1  0 -5 ]
  A = [-2  3  4 ]      colptr = 0 2 3 5, rowind = 0 1 | 1 | 0 1, nzval = 1 -2 | 3 | -5 4
```
max-abs = 5, one-norm = 9 (column 2), infinity-norm = 9 (row 1). -/
section Examples

def exLA : NCMat Int :=
  { nrow := 2, ncol := 3, nnz := 5, colptr := #[0, 2, 3, 5], rowind := #[0, 1, 1, 0, 1],
    nzval := #[1, -2, 3, -5, 4] }

def exAbs : Int → Int := fun a => (a.natAbs : Int)

theorem exLA_rowsOk : exLA.rowsOk := by unfold NCMat.rowsOk; decide
theorem exLA_nodupCols : exLA.nodupCols := by unfold NCMat.nodupCols; decide
theorem exAbs_zero : exAbs 0 = 0 := by decide
theorem exAbs_nonneg : ∀ a, 0 ≤ exAbs a := fun a => Int.natCast_nonneg _

/-- the hypotheses of `langs_max_spec'` are satisfiable, and the `v` it yields is the computed `5` -/
example : langs exAbs 'M' exLA = .val 5 ∧
    ∃ v, langs exAbs 'm' exLA = .val v ∧ (∀ i < 2, ∀ j < 3, exAbs (exLA.dense i j) ≤ v) ∧
      (∃ i < 2, ∃ j < 3, exAbs (exLA.dense i j) = v) :=
  ⟨by decide, langs_max_spec' exAbs exAbs_zero exAbs_nonneg 'm' exLA 2 3 rfl rfl (by decide) (by decide)
    exLA_rowsOk exLA_nodupCols (by decide)⟩

/-- the hypotheses of `langs_one_spec'` are satisfiable (both for `'O'` and for `'1'`) -/
example : langs exAbs 'O' exLA = .val 9 ∧ langs exAbs '1' exLA = .val 9 ∧
    ∃ v, langs exAbs '1' exLA = .val v ∧ (∀ j < 3, ∑ i ∈ range 2, exAbs (exLA.dense i j) ≤ v) ∧
      (∃ j < 3, ∑ i ∈ range 2, exAbs (exLA.dense i j) = v) :=
  ⟨by decide, by decide,
    langs_one_spec' exAbs exAbs_zero exAbs_nonneg '1' exLA 2 3 rfl rfl (by decide) (by decide)
      exLA_rowsOk exLA_nodupCols (by decide) (Or.inr rfl)⟩

/-- the hypotheses of `langs_inf_spec'` are satisfiable -/
example : langs exAbs 'I' exLA = .val 9 ∧
    ∃ v, langs exAbs 'i' exLA = .val v ∧ (∀ i < 2, ∑ j ∈ range 3, exAbs (exLA.dense i j) ≤ v) ∧
      (∃ i < 2, ∑ j ∈ range 3, exAbs (exLA.dense i j) = v) :=
  ⟨by decide, langs_inf_spec' exAbs exAbs_zero exAbs_nonneg 'i' exLA 2 3 rfl rfl (by decide) (by decide)
    exLA_rowsOk exLA_nodupCols (by decide) (by decide) (by decide) (by decide)⟩

example : langs exAbs 'F' exLA = .notImplemented :=
  langs_frobenius_notImplemented' exAbs 'F' exLA (by decide) (Or.inl rfl)

example : langs exAbs 'M' { exLA with ncol := 0 } = .val 0 :=
  langs_empty' exAbs 'M' _ (by decide)

end Examples

end Slu.Blas
