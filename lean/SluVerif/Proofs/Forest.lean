/- forests (parent arrays, root's parent = n), descendants, and the structure of the recursive
   postorder `po`: its elements are exactly the descendants, no repetition, subtrees are segments. -/
import SluVerif.Proofs.Postorder
namespace Slu.Pre

theorem flatMap_congr' {α β : Type} {l : List α} {f g : α → List β} (h : ∀ a ∈ l, f a = g a) :
    l.flatMap f = l.flatMap g := by
  rw [List.flatMap_def, List.flatMap_def, List.map_congr_left h]

/-- `parent` encodes a forest on the vertices `0..n-1` with the library's convention `parent[root] = n`:
right length, values in range, and acyclic (witnessed by a rank that increases towards the roots). -/
def IsForest (n : Nat) (parent : Array Nat) : Prop :=
  parent.size = n ∧ (∀ v, v < n → getN parent v ≤ n) ∧
    ∃ rank : Nat → Nat, ∀ v, v < n → rank v < rank (getN parent v)

/-- an elimination-tree shaped array (`v < parent[v] ≤ n`) is a forest -/
theorem isForest_of_increasing {n : Nat} {parent : Array Nat} (hs : parent.size = n)
    (h : ∀ v, v < n → v < getN parent v ∧ getN parent v ≤ n) : IsForest n parent :=
  ⟨hs, fun v hv => (h v hv).2, ⟨fun v => v, fun v hv => (h v hv).1⟩⟩

/-- `Desc par n v x`: `x` lies in the subtree rooted at `v` (`v` is an ancestor of `x`, or `x` itself) -/
inductive Desc (par : Nat → Nat) (n : Nat) : Nat → Nat → Prop
  | refl (v : Nat) : Desc par n v v
  | step {v x : Nat} : x < n → Desc par n v (par x) → Desc par n v x

theorem Desc.trans {par : Nat → Nat} {n a b c : Nat} (h1 : Desc par n a b) (h2 : Desc par n b c) : Desc par n a c := by
  induction h2 with
  | refl => exact h1
  | step hx _ ih => exact Desc.step hx ih

theorem Desc.le {par : Nat → Nat} {n v x : Nat} (h : Desc par n v x) (hv : v ≤ n) : x ≤ n := by
  cases h with
  | refl => exact hv
  | step hx _ => exact Nat.le_of_lt hx

theorem Desc.chain {par : Nat → Nat} {n a b x : Nat} (h1 : Desc par n a x) (h2 : Desc par n b x) :
    Desc par n a b ∨ Desc par n b a := by
  induction h1 generalizing b with
  | refl => exact Or.inr h2
  | step hx h ih =>
      cases h2 with
      | refl => exact Or.inl (Desc.step hx h)
      | step _ h2' => exact ih h2'

/-- hypotheses on the parent function shared by the lemmas below -/
structure FCtx (par : Nat → Nat) (n : Nat) (rank : Nat → Nat) : Prop where
  hp : ∀ w, w < n → par w ≤ n
  hr : ∀ w, w < n → rank w < rank (par w)

section
variable {par : Nat → Nat} {n : Nat} {rank : Nat → Nat}

theorem Desc.rank_le (c : FCtx par n rank) {v x : Nat} (h : Desc par n v x) : rank x ≤ rank v := by
  induction h with
  | refl => exact Nat.le_refl _
  | step hx _ ih => have := c.hr _ hx; omega

theorem Desc.eq_of_rank (c : FCtx par n rank) {v x : Nat} (h : Desc par n v x) (hr : rank v ≤ rank x) : x = v := by
  cases h with
  | refl => rfl
  | step hx h' =>
      have := c.hr _ hx
      have := h'.rank_le c
      omega

theorem mem_po_desc {f v x : Nat} (h : x ∈ po (kids par n) f v) : Desc par n v x := by
  induction f generalizing v x with
  | zero =>
      simp only [po, List.mem_singleton] at h
      subst h; exact Desc.refl _
  | succ f ih =>
      simp only [po, List.mem_append, List.mem_flatMap, List.mem_singleton] at h
      rcases h with ⟨k, hk, hx⟩ | h
      · have hk' := (mem_kids par).1 hk
        have h1 : Desc par n v k := by
          have := Desc.step hk'.1 (Desc.refl (par k))
          rw [hk'.2] at this; exact this
        exact h1.trans (ih hx)
      · subst h; exact Desc.refl _

theorem self_mem_po (f v : Nat) : v ∈ po (kids par n) f v := by
  cases f <;> simp [po]

theorem mem_po_of_kid (c : FCtx par n rank) {f v y k : Nat} (hy : y ∈ po (kids par n) f v) (hr : rank v ≤ f)
    (hk : k < n) (hpk : par k = y) : k ∈ po (kids par n) f v := by
  induction f generalizing v with
  | zero =>
      simp only [po, List.mem_singleton] at hy
      subst hy
      have := c.hr k hk
      rw [hpk] at this; omega
  | succ f ih =>
      simp only [po, List.mem_append, List.mem_flatMap, List.mem_singleton] at hy ⊢
      rcases hy with ⟨k', hk', hy⟩ | hy
      · have hk2 := (mem_kids par).1 hk'
        have : rank k' ≤ f := by have := c.hr k' hk2.1; rw [hk2.2] at this; omega
        exact Or.inl ⟨k', hk', ih hy this⟩
      · subst hy
        exact Or.inl ⟨k, (mem_kids par).2 ⟨hk, hpk⟩, self_mem_po f k⟩

theorem desc_mem_po (c : FCtx par n rank) {f v x : Nat} (h : Desc par n v x) (hr : rank v ≤ f) :
    x ∈ po (kids par n) f v := by
  induction h with
  | refl => exact self_mem_po f _
  | step hx _ ih => exact mem_po_of_kid c ih hr hx rfl

theorem mem_po_iff (c : FCtx par n rank) {f v x : Nat} (hr : rank v ≤ f) :
    x ∈ po (kids par n) f v ↔ Desc par n v x := ⟨mem_po_desc, fun h => desc_mem_po c h hr⟩

theorem po_nodup (c : FCtx par n rank) (f v : Nat) : (po (kids par n) f v).Nodup := by
  induction f generalizing v with
  | zero => simp [po]
  | succ f ih =>
      simp only [po]
      rw [List.nodup_append]
      refine ⟨?_, by simp, ?_⟩
      · unfold List.Nodup
        rw [List.pairwise_flatMap]
        refine ⟨fun k _ => ih k, ?_⟩
        have hpw : (kids par n v).Pairwise (· < ·) := kidsFrom_pairwise par
        refine List.Pairwise.imp_of_mem ?_ hpw
        intro k1 k2 hk1 hk2 hlt x hx1 y hy2 hxy
        subst hxy
        have h1 := (mem_kids par).1 hk1
        have h2 := (mem_kids par).1 hk2
        have d1 : Desc par n k1 x := mem_po_desc hx1
        have d2 : Desc par n k2 x := mem_po_desc hy2
        have key : ∀ a b : Nat, a < n → b < n → par a = v → par b = v → a ≠ b → Desc par n a b → False := by
          intro a b ha hb hpa hpb hne hd
          cases hd with
          | refl => exact hne rfl
          | step _ h' =>
              rw [hpb] at h'
              have := h'.rank_le c
              have := c.hr a ha
              rw [hpa] at this; omega
        rcases Desc.chain d1 d2 with h | h
        · exact key k1 k2 h1.1 h2.1 h1.2 h2.2 (by omega) h
        · exact key k2 k1 h2.1 h1.1 h2.2 h1.2 (by omega) h
      · intro a ha b hb hab
        simp only [List.mem_singleton] at hb
        subst hb; subst hab
        simp only [List.mem_flatMap] at ha
        obtain ⟨k, hk, hx⟩ := ha
        have hk' := (mem_kids par).1 hk
        have := (mem_po_desc hx).rank_le c
        have := c.hr k hk'.1
        rw [hk'.2] at this; omega

/-- fuel beyond the rank does not matter -/
theorem po_fuel_irrel (c : FCtx par n rank) : ∀ {f f' v : Nat}, rank v ≤ f → rank v ≤ f' →
    po (kids par n) f v = po (kids par n) f' v := by
  intro f
  induction f with
  | zero =>
      intro f' v h0 _
      cases f' with
      | zero => rfl
      | succ f' =>
          have : kids par n v = [] := by
            apply List.eq_nil_iff_forall_not_mem.2
            intro k hk
            have hk' := (mem_kids par).1 hk
            have := c.hr k hk'.1
            rw [hk'.2] at this; omega
          simp [po, this]
  | succ f ih =>
      intro f' v h1 h2
      cases f' with
      | zero =>
          have : kids par n v = [] := by
            apply List.eq_nil_iff_forall_not_mem.2
            intro k hk
            have hk' := (mem_kids par).1 hk
            have := c.hr k hk'.1
            rw [hk'.2] at this; omega
          simp [po, this]
      | succ f' =>
          simp only [po]
          congr 1
          apply flatMap_congr'
          intro k hk
          have hk' := (mem_kids par).1 hk
          have := c.hr k hk'.1
          rw [hk'.2] at this
          exact ih (by omega) (by omega)

/-- the postorder of a subtree is a contiguous segment of the postorder of any enclosing subtree -/
theorem po_segment (c : FCtx par n rank) {f v x : Nat} (hr : rank v ≤ f) (hx : x ∈ po (kids par n) f v) :
    ∃ A B, po (kids par n) f v = A ++ po (kids par n) (rank x) x ++ B := by
  induction f generalizing v with
  | zero =>
      simp only [po, List.mem_singleton] at hx
      subst hx
      refine ⟨[], [], ?_⟩
      rw [po_fuel_irrel c (Nat.le_refl _) hr]; simp
  | succ f ih =>
      have hx0 := hx
      simp only [po, List.mem_append, List.mem_flatMap, List.mem_singleton] at hx
      rcases hx with ⟨k, hk, hx⟩ | hx
      · have hk' := (mem_kids par).1 hk
        have hrk : rank k ≤ f := by have := c.hr k hk'.1; rw [hk'.2] at this; omega
        obtain ⟨A, B, hAB⟩ := ih hrk hx
        obtain ⟨l1, l2, hl⟩ := List.append_of_mem hk
        refine ⟨l1.flatMap (po (kids par n) f) ++ A, B ++ l2.flatMap (po (kids par n) f) ++ [v], ?_⟩
        simp only [po, hl, List.flatMap_append, List.flatMap_cons, hAB, List.append_assoc]
      · subst hx
        exact ⟨[], [], by rw [po_fuel_irrel c (Nat.le_refl _) hr]; simp⟩

theorem rank_bounded (r : Nat → Nat) : ∀ n : Nat, ∃ R, ∀ u, u ≤ n → r u ≤ R
  | 0 => ⟨r 0, fun u hu => by
      have : u = 0 := by omega
      subst this; exact Nat.le_refl _⟩
  | n + 1 => by
      obtain ⟨R, hR⟩ := rank_bounded r n
      refine ⟨max R (r (n + 1)), fun u hu => ?_⟩
      by_cases h : u = n + 1
      · subst h; exact Nat.le_max_right _ _
      · exact Nat.le_trans (hR u (by omega)) (Nat.le_max_left _ _)

/-- every vertex hangs below the dummy root `n` -/
theorem desc_root (c : FCtx par n rank) : ∀ v, v ≤ n → Desc par n n v := by
  obtain ⟨R, hR⟩ := rank_bounded rank n
  have : ∀ m v, v ≤ n → R - rank v ≤ m → Desc par n n v := by
    intro m
    induction m with
    | zero =>
        intro v hv hm
        by_cases h : v = n
        · subst h; exact Desc.refl _
        · have hvn : v < n := by omega
          have := c.hr v hvn
          have := hR _ (c.hp v hvn)
          omega
    | succ m ih =>
        intro v hv hm
        by_cases h : v = n
        · subst h; exact Desc.refl _
        · have hvn : v < n := by omega
          have h1 := c.hr v hvn
          have h2 := hR _ (c.hp v hvn)
          exact Desc.step hvn (ih _ (c.hp v hvn) (by omega))
  intro v hv
  exact this _ v hv (Nat.le_refl _)

/-- the postorder of the whole forest (below the dummy root) lists `0..n` exactly once -/
theorem po_root_perm (c : FCtx par n rank) : (po (kids par n) (rank n) n).Perm (List.range (n + 1)) := by
  rw [List.perm_ext_iff_of_nodup (po_nodup c _ _) List.nodup_range]
  intro x
  rw [mem_po_iff c (Nat.le_refl _), List.mem_range]
  constructor
  · intro h; have := h.le (Nat.le_refl _); omega
  · intro h; exact desc_root c x (by omega)

theorem po_root_length (c : FCtx par n rank) : (po (kids par n) (rank n) n).length = n + 1 := by
  rw [(po_root_perm c).length_eq]; simp

end

end Slu.Pre
