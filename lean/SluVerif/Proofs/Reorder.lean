/- a topological renumbering of the elimination tree (in particular a postorder) is an equivalent
   reordering: the filled graph is the same up to the renumbering, and the elimination tree of the
   renumbered graph is the renumbered elimination tree. -/
import SluVerif.Proofs.Fill
namespace Slu.Pre

theorem desc_proper {par : Nat → Nat} {n a b : Nat} (h : Desc par n a b) (hne : a ≠ b) :
    b < n ∧ Desc par n a (par b) := by
  cases h with
  | refl => exact absurd rfl hne
  | step hx h' => exact ⟨hx, h'⟩

/-- data of a renumbering `q` of `0..n-1` (inverse `g`), extended by `q n = n`, that numbers every vertex
before its etree parent, and the renumbered graph `G'` -/
structure Reorder (G G' : Nat → Nat → Bool) (n : Nat) (par : Nat → Nat) (q g : Nat → Nat) : Prop where
  hs : ∀ a b, G a b = G b a
  hs' : ∀ a b, G' a b = G' b a
  he : IsEtree G n par
  qlt : ∀ v, v < n → q v < n
  glt : ∀ x, x < n → g x < n
  gq : ∀ v, v < n → g (q v) = v
  qg : ∀ x, x < n → q (g x) = x
  qn : q n = n
  topo : ∀ v, v < n → q v < q (par v)
  graph : ∀ a b, a < n → b < n → G' (q a) (q b) = G a b

section reorder
variable {G G' : Nat → Nat → Bool} {n : Nat} {par q g : Nat → Nat}

theorem Reorder.q_desc (R : Reorder G G' n par q g) {a b : Nat} (h : Desc par n a b) (hne : a ≠ b) : q b < q a := by
  induction h with
  | refl => exact absurd rfl hne
  | @step x hx h' ih =>
      have h1 := R.topo x hx
      by_cases hax : a = par x
      · rw [hax]; exact h1
      · have := ih hax; omega

theorem Reorder.q_inj (R : Reorder G G' n par q g) {a b : Nat} (ha : a < n) (hb : b < n) (h : q a = q b) : a = b := by
  have := congrArg g h
  rwa [R.gq a ha, R.gq b hb] at this

/-- an edge of the filled graph joins a vertex with one of its ancestors -/
theorem Reorder.fill_anc (R : Reorder G G' n par q g) {a b : Nat} (ha : a < n) (hb : b < n)
    (hF : fill G n a b = true) (hq : q b < q a) : Desc par n a b ∧ b < a := by
  rcases Nat.lt_trichotomy a b with hlt | heq | hgt
  · -- then b would be an ancestor of a, numbered later
    have hd := etree_anc R.hs R.he (b - a) b a (Nat.le_refl _) (by rw [fill_symm R.hs]; exact hF) hlt hb
    have := R.q_desc hd (by omega)
    omega
  · subst heq; omega
  · exact ⟨etree_anc R.hs R.he (a - b) a b (Nat.le_refl _) hF hgt ha, hgt⟩

/-- filled edge between `a` and a smaller `b` from: `a` has an original entry in the subtree of `b` -/
theorem fill_of_subtree (hs : ∀ a b, G a b = G b a) (he : IsEtree G n par) {a b i : Nat}
    (hG : G a i = true) (hd : Desc par n b i) (hba : b < a) (han : a < n) : fill G n a b = true := by
  have hib := desc_le he hd
  exact row_subtree_bwd hs he hd (fill_mono (Nat.zero_le _) hG) (by omega) hba han

/-- (⇒) every fill edge of the renumbered graph is a fill edge of the original one -/
theorem Reorder.fill_fwd (R : Reorder G G' n par q g) :
    ∀ t a b, a < n → b < n → fill G' t (q a) (q b) = true → fill G n a b = true := by
  intro t
  induction t with
  | zero =>
      intro a b ha hb h
      have : G a b = true := by rw [← R.graph a b ha hb]; exact h
      exact fill_mono (Nat.zero_le _) this
  | succ t ih =>
      intro a b ha hb h
      rcases (fill_succ_iff G' t _ _).1 h with h' | ⟨h1, h2, h3, h4, h5⟩
      · exact ih a b ha hb h'
      · -- eliminated vertex t = q x
        have htn : t < n := by have := R.qlt a ha; omega
        have hx := R.glt t htn
        have hqx := R.qg t htn
        have h4' : fill G' t (q a) (q (g t)) = true := by rw [hqx]; exact h4
        have h5' : fill G' t (q (g t)) (q b) = true := by rw [hqx]; exact h5
        have h1 : q (g t) < q a := by rw [hqx]; exact h1
        have h2 : q (g t) < q b := by rw [hqx]; exact h2
        have Fa := ih a (g t) ha hx h4'
        have Fb := ih (g t) b hx hb h5'
        rw [fill_symm R.hs] at Fb
        obtain ⟨da, xa⟩ := R.fill_anc ha hx Fa h1
        obtain ⟨db, xb⟩ := R.fill_anc hb hx Fb h2
        have hab : a ≠ b := fun e => h3 (by rw [e])
        -- a and b are both ancestors of x
        have key : ∀ a b, a < n → b < n → Desc par n a b → a ≠ b → fill G n a (g t) = true → g t < a →
            Desc par n b (g t) → fill G n a b = true := by
          intro a b ha hb hdab hne Fa xa db
          have hba : b < a := by have := desc_le R.he hdab; omega
          obtain ⟨i, _, hGi, hdi⟩ := row_subtree_fwd R.hs R.he (g t) (g t) a (Nat.le_refl _) Fa xa ha
          exact fill_of_subtree R.hs R.he hGi (db.trans hdi) hba ha
        rcases Desc.chain da db with hd | hd
        · exact key a b ha hb hd hab Fa xa db
        · rw [fill_symm R.hs]
          exact key b a hb ha hd (fun e => hab e.symm) Fb xb da

/-- (⇐) every fill edge of the original graph is a fill edge of the renumbered one -/
theorem Reorder.fill_bwd (R : Reorder G G' n par q g) :
    ∀ (m b : Nat), b ≤ m → ∀ a i, b < a → a < n → G a i = true → Desc par n b i →
      fill G' n (q a) (q b) = true := by
  intro m
  induction m with
  | zero =>
      intro b hb a i hba han hG hd
      have hb0 : b = 0 := by omega
      subst hb0
      have := desc_le R.he hd
      have hi0 : i = 0 := by omega
      subst hi0
      have : G' (q a) (q 0) = true := by rw [R.graph a 0 han (by omega)]; exact hG
      exact fill_mono (Nat.zero_le _) this
  | succ m ih =>
      intro b hb a i hba han hG hd
      have hbn : b < n := by omega
      -- `a` is an ancestor of `b`
      have hFab : fill G n a b = true := fill_of_subtree R.hs R.he hG hd hba han
      have hdab : Desc par n a b := etree_anc R.hs R.he (a - b) a b (Nat.le_refl _) hFab hba han
      -- walk from i up to b
      have walk : ∀ x, Desc par n b x → fill G' n (q a) (q x) = true → fill G' n (q a) (q b) = true := by
        intro x hdx
        induction hdx with
        | refl => exact id
        | @step x hx hdp ihx =>
            intro hFx
            apply ihx
            -- p = par x lies on the path, p ≤ b < a
            have hpb := desc_le R.he hdp
            have hxp := (R.he x hx).1
            have hpn : par x < n := by omega
            -- the parent edge (p, x) is a fill edge of G, hence (strong induction, x < b) of G'
            have hFpx : fill G n (par x) x = true := (R.he x hx).2.2.1 hpn
            obtain ⟨i', _, hGi', hdi'⟩ := row_subtree_fwd R.hs R.he x x (par x) (Nat.le_refl _) hFpx hxp hpn
            have hF'px := ih x (by omega) (par x) i' hxp hpn hGi' hdi'
            -- numbering: q x < q p ≤ q b < q a
            have hq1 := R.topo x hx
            have hq2 : q x < q a := by
              have h1 : Desc par n a x := hdab.trans (Desc.step hx hdp)
              exact R.q_desc h1 (by omega)
            have hne : q a ≠ q (par x) := by
              intro e; have := R.q_inj han hpn e; omega
            have e1 : fill G' (q x) (q a) (q x) = true := fill_stable' (Or.inr (Nat.le_refl _)) (by have := R.qlt x hx; omega) hFx
            have e2 : fill G' (q x) (q x) (q (par x)) = true := by
              rw [fill_symm R.hs']
              exact fill_stable' (Or.inr (Nat.le_refl _)) (by have := R.qlt x hx; omega) hF'px
            exact fill_mono (by have := R.qlt x hx; omega)
              ((fill_succ_iff G' (q x) _ _).2 (Or.inr ⟨hq2, hq1, hne, e1, e2⟩))
      apply walk i hd
      have hin : i < n := by have := desc_le R.he hd; omega
      have : G' (q a) (q i) = true := by rw [R.graph a i han hin]; exact hG
      exact fill_mono (Nat.zero_le _) this

/-- the filled graphs coincide -/
theorem Reorder.fill_eq (R : Reorder G G' n par q g) {a b : Nat} (ha : a < n) (hb : b < n) :
    fill G' n (q a) (q b) = fill G n a b := by
  rw [Bool.eq_iff_iff]
  constructor
  · exact R.fill_fwd n a b ha hb
  · intro hF
    have key : ∀ a b, a < n → b < a → fill G n a b = true → fill G' n (q a) (q b) = true := by
      intro a b ha hba hF
      obtain ⟨i, _, hGi, hdi⟩ := row_subtree_fwd R.hs R.he b b a (Nat.le_refl _) hF hba ha
      exact R.fill_bwd b b (Nat.le_refl _) a i hba ha hGi hdi
    rcases Nat.lt_trichotomy a b with hlt | heq | hgt
    · rw [fill_symm R.hs']; exact key b a hb hlt (by rw [fill_symm R.hs]; exact hF)
    · subst heq
      -- a self loop of the filled graph is an original self loop
      have hGa : G a a = true := by
        rcases fill_decomp hF with h0 | ⟨s, _, _, _, hne, _⟩
        · exact h0
        · exact absurd rfl hne
      have h0 : G' (q a) (q a) = true := by rw [R.graph a a ha ha]; exact hGa
      exact fill_mono (Nat.zero_le _) h0
    · exact key a b ha hgt hF

/-- **the renumbered elimination tree is the elimination tree of the renumbered graph** -/
theorem Reorder.isEtree (R : Reorder G G' n par q g) : IsEtree G' n (fun x => q (par (g x))) := by
  intro j' hj'
  show j' < q (par (g j')) ∧ q (par (g j')) ≤ n ∧ (q (par (g j')) < n → fill G' n (q (par (g j'))) j' = true) ∧
    ∀ i, j' < i → i < q (par (g j')) → fill G' n i j' = false
  have hj := R.glt j' hj'
  have hqj := R.qg j' hj'
  obtain ⟨a1, a2, a3, a4⟩ := R.he (g j') hj
  have hq1 := R.topo (g j') hj
  rw [hqj] at hq1
  refine ⟨hq1, ?_, ?_, ?_⟩
  · by_cases hp : par (g j') = n
    · simp only [hp, R.qn]; exact Nat.le_refl _
    · exact Nat.le_of_lt (R.qlt _ (by omega))
  · intro hlt
    have hpn : par (g j') < n := by
      by_cases hp : par (g j') = n
      · simp only [hp, R.qn] at hlt; omega
      · omega
    have := R.fill_eq hpn hj
    rw [hqj] at this
    rw [this]; exact a3 hpn
  · intro i' hi1 hi2
    have hi'n : i' < n := by
      by_cases hp : par (g j') = n
      · simp only [hp, R.qn] at hi2; exact hi2
      · have := R.qlt (par (g j')) (by omega); omega
    have hi := R.glt i' hi'n
    have hqi := R.qg i' hi'n
    cases hF : fill G' n i' j' with
    | false => rfl
    | true =>
        exfalso
        rw [← hqi, ← hqj, R.fill_eq hi hj] at hF
        obtain ⟨hd, hlt⟩ := R.fill_anc hi hj hF (by rw [hqi, hqj]; exact hi1)
        -- g i' is a proper ancestor of g j', hence an ancestor of its parent
        obtain ⟨_, hd'⟩ := desc_proper hd (by omega)
        by_cases hip : g i' = par (g j')
        · rw [← hip, hqi] at hi2; omega
        · have := R.q_desc hd' hip
          rw [hqi] at this; omega

end reorder

end Slu.Pre
