/- sp_colorder, non-symmetric mode: the etree it reports is the column elimination tree of the FINAL
   A·Pc (after the postorder has been multiplied into perm_c). -/
import SluVerif.Proofs.Reorder
import SluVerif.Proofs.LiuInst
namespace Slu.Pre

theorem isEtree_congr_par {G : Nat → Nat → Bool} {n : Nat} {par par' : Nat → Nat}
    (h : ∀ j, j < n → par' j = par j) (he : IsEtree G n par) : IsEtree G n par' := by
  intro j hj
  rw [h j hj]
  exact he j hj

theorem list_getD_lt {l : List Nat} {i : Nat} (d : Nat) (h : i < l.length) : l.getD i d = l[i] := by
  rw [List.getD_eq_getElem?_getD, List.getElem?_eq_getElem h]; rfl

/-- the postorder has an inverse on `0..n-1` -/
theorem post_inverse {n : Nat} {parent : Array Nat} {rank : Nat → Nat}
    (hp : ∀ v, v < n → getN parent v ≤ n) (hr : ∀ v, v < n → rank v < rank (getN parent v)) :
    ∃ g : Nat → Nat, (∀ x, x < n → g x < n ∧ getN (treePostorder n parent) (g x) = x) ∧
      (∀ v, v < n → g (getN (treePostorder n parent) v) = v) := by
  have c := fctx_of hp hr
  have hlen : (poAll n parent rank).length = n + 1 := po_root_length c
  have hnd : (poAll n parent rank).Nodup := po_nodup c _ _
  refine ⟨fun x => (poAll n parent rank).getD x 0, ?_, ?_⟩
  · intro x hx
    have hlt : x < (poAll n parent rank).length := by omega
    simp only [list_getD_lt 0 hlt]
    have hmem := List.getElem_mem hlt
    have hle := (mem_poAll c).1 hmem
    have hidx := hnd.idxOf_getElem x hlt
    refine ⟨?_, by rw [post_get hp hr hle]; exact hidx⟩
    by_cases h : (poAll n parent rank)[x] = n
    · rw [h, q_root c] at hidx; omega
    · omega
  · intro v hv
    rw [post_get hp hr (Nat.le_of_lt hv)]
    have hmem := (mem_poAll c).2 (Nat.le_of_lt hv)
    have hlt := List.idxOf_lt_length_iff.2 hmem
    simp only [list_getD_lt 0 hlt]
    exact List.getElem_idxOf hlt

theorem ataAdj_symm (colbeg colend rowind : Array Nat) (nr a b : Nat) :
    ataAdj colbeg colend rowind nr a b = ataAdj colbeg colend rowind nr b a := by
  rw [Bool.eq_iff_iff, ataAdj_iff, ataAdj_iff]
  constructor
  · rintro ⟨h1, r, h2, h3, h4⟩; exact ⟨fun e => h1 e.symm, r, h2, h4, h3⟩
  · rintro ⟨h1, r, h2, h3, h4⟩; exact ⟨fun e => h1 e.symm, r, h2, h4, h3⟩

theorem ataAdj_congr {cb ce cb' ce' rowind : Array Nat} {nr a b a' b' : Nat}
    (ha : colRange cb' ce' a' = colRange cb ce a) (hb : colRange cb' ce' b' = colRange cb ce b)
    (hab : a' = b' ↔ a = b) :
    ataAdj cb' ce' rowind nr a' b' = ataAdj cb ce rowind nr a b := by
  unfold ataAdj hasEntry
  rw [ha, hb]
  congr 1
  simp only [ne_eq, hab]

section final
variable (m n : Nat) (colptr rowind pc : Array Nat) (et0 part0 : Array Nat)

/-- **colorder_final_etree** — non-symmetric mode, any pattern with row indices `< m`, any bijection
`perm_c`: the etree reported by `sp_colorder` IS the column elimination tree (reference: naive symbolic
elimination on `(A·Pc')ᵀ(A·Pc')`) of the final `A·Pc'`, `Pc' = post ∘ Pc`, given by the returned view. -/
theorem colorder_final_etree_ref
    (hrows : ∀ c, c < n → ∀ p, p ∈ colRange (viewBeg n colptr pc) (viewEnd n colptr pc) c → getN rowind p < m) :
    (colorder m n colptr rowind pc false false et0 part0).etree =
      etreeRef n (ataAdj (colorder m n colptr rowind pc false false et0 part0).colbeg
                          (colorder m n colptr rowind pc false false et0 part0).colend rowind m) := by
  have hinc := colorderEt0_increasing m n colptr rowind pc false
  have hp := hinc.hp
  have hr := hinc.hr
  have het0 : colorderEt0 m n colptr rowind pc false =
      etreeRef n (ataAdj (viewBeg n colptr pc) (viewEnd n colptr pc) rowind m) := by
    unfold colorderEt0
    simp only [Bool.false_eq_true, if_false]
    exact colEtree_eq_ref _ _ _ _ _ hrows
  have hpost := colorderPost_permOn m n colptr rowind pc false
  obtain ⟨g, hg1, hg2⟩ := post_inverse hp hr
  have hPO := postordered_relabel hinc.1 hp hr
  -- the view after the postorder
  have hcb : ∀ c, c < n → getN (colorder m n colptr rowind pc false false et0 part0).colbeg
      (getN (colorderPost m n colptr rowind pc false) c) = getN (viewBeg n colptr pc) c := by
    intro c hc; rw [colorder_colbeg]; exact scatter_get _ hpost (by simp) hc
  have hce : ∀ c, c < n → getN (colorder m n colptr rowind pc false false et0 part0).colend
      (getN (colorderPost m n colptr rowind pc false) c) = getN (viewEnd n colptr pc) c := by
    intro c hc; rw [colorder_colend]; exact scatter_get _ hpost (by simp) hc
  have hrange : ∀ c, c < n → colRange (colorder m n colptr rowind pc false false et0 part0).colbeg
      (colorder m n colptr rowind pc false false et0 part0).colend (getN (colorderPost m n colptr rowind pc false) c)
      = colRange (viewBeg n colptr pc) (viewEnd n colptr pc) c := by
    intro c hc; unfold colRange; rw [hcb c hc, hce c hc]
  have R : Reorder (ataAdj (viewBeg n colptr pc) (viewEnd n colptr pc) rowind m)
      (ataAdj (colorder m n colptr rowind pc false false et0 part0).colbeg
              (colorder m n colptr rowind pc false false et0 part0).colend rowind m) n
      (getN (colorderEt0 m n colptr rowind pc false)) (getN (colorderPost m n colptr rowind pc false)) g := by
    refine ⟨ataAdj_symm _ _ _ _, ataAdj_symm _ _ _ _, ?_, hpost.1, fun x hx => (hg1 x hx).1, hg2,
      fun x hx => (hg1 x hx).2, colorderPost_root m n colptr rowind pc false, ?_, ?_⟩
    · rw [het0]; exact etreeRef_isEtree n _
    · intro v hv
      have := (hPO.2.1 _ (hpost.1 v hv)).1
      unfold colorderPost at this ⊢
      rwa [relabel_get hp hr hv] at this
    · intro a b ha hb
      exact ataAdj_congr (hrange a ha) (hrange b hb)
        ⟨fun e => hpost.2 a b ha hb e, fun e => by rw [e]⟩
  have hE := R.isEtree
  apply eq_etreeRef_of_isEtree
  · rw [colorder_etree]; simp [relabelEtree, scatter_size]
  · refine isEtree_congr_par ?_ hE
    intro j hj
    rw [colorder_etree]
    have h1 := hg1 j hj
    have := relabel_get hp hr h1.1
    unfold colorderPost at h1
    rw [h1.2] at this
    exact this

end final

end Slu.Pre
