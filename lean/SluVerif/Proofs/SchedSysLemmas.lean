/- per-event description of `step` (Model/SchedSys.lean) in functional form -/
import SluVerif.Proofs.SchedFrame

namespace Slu
open Slu.Gen

def wk (s : Sys) (i : Nat) : Worker := s.ws.getD i dfltW

theorem wk_set (ws : Array Worker) (w i : Nat) (x : Worker) (hw : w < ws.size) :
    (ws.setIfInBounds w x).getD i dfltW = if i = w then x else ws.getD i dfltW := by
  by_cases h : i = w
  · subst h; simp [Array.getD, hw]
  · simp only [Array.getD, Array.size_setIfInBounds, h, if_false]
    split
    · next hi =>
      rw [Array.getInternal_eq_getElem, Array.getInternal_eq_getElem, Array.getElem_setIfInBounds]
      · simp [Ne.symm h]
      · exact hi
    · rfl

theorem wk_oob (s : Sys) (i : Nat) (h : s.ws.size ≤ i) : wk s i = dfltW := by
  unfold wk; simp [Array.getD, Nat.not_lt.2 h]

theorem enabled_loop (c : PanelCfg) (s : Sys) (w : Nat) :
    enabled c s (.loop w) = (match (wk s w).phase with | .head => true | _ => false) := rfl
theorem enabled_sched (c : PanelCfg) (s : Sys) (w : Nat) :
    enabled c s (.sched w) = (match (wk s w).phase with | .calling => true | _ => false) := rfl
theorem enabled_finish (c : PanelCfg) (s : Sys) (w : Nat) :
    enabled c s (.finish w) = (match (wk s w).phase with | .working p b => chainReleased c s.sh p b | _ => false) := rfl

/-- an enabled event belongs to an existing worker -/
theorem enabled_lt (c : PanelCfg) (s : Sys) (e : Ev) (h : enabled c s e = true) :
    match e with | .loop w => w < s.ws.size | .sched w => w < s.ws.size | .finish w => w < s.ws.size := by
  cases e with
  | loop w =>
    show w < s.ws.size
    by_contra hc
    rw [enabled_loop, wk_oob s w (by omega)] at h; cases h
  | sched w =>
    show w < s.ws.size
    by_contra hc
    rw [enabled_sched, wk_oob s w (by omega)] at h; cases h
  | finish w =>
    show w < s.ws.size
    by_contra hc
    rw [enabled_finish, wk_oob s w (by omega)] at h; cases h

theorem step_disabled (c : PanelCfg) (s : Sys) (e : Ev) (h : enabled c s e = false) : step c s e = s := by
  unfold step; simp [h]

theorem step_loop (c : PanelCfg) (s : Sys) (w : Nat) (h : enabled c s (.loop w) = true) :
    (step c s (.loop w)).sh = s.sh ∧ (step c s (.loop w)).ws.size = s.ws.size ∧ (wk s w).phase = .head ∧
    ∀ i, wk (step c s (.loop w)) i =
      if i = w then { wk s w with phase := if s.sh.tasksRemain > 0 then .calling else .exited } else wk s i := by
  have hw : w < s.ws.size := enabled_lt c s _ h
  have hph : (wk s w).phase = .head := by
    rw [enabled_loop] at h
    cases hp : (wk s w).phase <;> rw [hp] at h <;> first | rfl | cases h
  have hs : step c s (.loop w) = Sys.mk s.sh (s.ws.setIfInBounds w
      ({ wk s w with phase := if s.sh.tasksRemain > 0 then .calling else .exited } : Worker)) := by
    unfold step; simp only [h, Bool.not_true, Bool.false_eq_true, if_false]; rfl
  rw [hs]
  refine ⟨rfl, by simp, hph, ?_⟩
  intro i
  unfold wk
  rw [wk_set _ _ _ _ hw]

theorem step_finish (c : PanelCfg) (s : Sys) (w : Nat) (h : enabled c s (.finish w) = true) :
    ∃ p b, (wk s w).phase = .working p b ∧ chainReleased c s.sh p b = true ∧
    (step c s (.finish w)).sh = finishPanel s.sh p ∧ (step c s (.finish w)).ws.size = s.ws.size ∧
    ∀ i, wk (step c s (.finish w)) i = if i = w then { wk s w with phase := .head } else wk s i := by
  have hw : w < s.ws.size := enabled_lt c s _ h
  have h0 := h
  rw [enabled_finish] at h
  cases hp : (wk s w).phase with
  | working p b =>
    rw [hp] at h
    have hp' : (s.ws.getD w dfltW).phase = .working p b := hp
    refine ⟨p, b, rfl, h, ?_, ?_, ?_⟩
    · unfold step; simp only [h0, Bool.not_true, Bool.false_eq_true, if_false, hp']
    · unfold step; simp only [h0, Bool.not_true, Bool.false_eq_true, if_false, hp']; simp
    · intro i
      unfold step; simp only [h0, Bool.not_true, Bool.false_eq_true, if_false, hp']
      unfold wk
      rw [wk_set _ _ _ _ hw]
  | head => rw [hp] at h; cases h
  | calling => rw [hp] at h; cases h
  | exited => rw [hp] at h; cases h

/-- the worker record after its scheduler call -/
def schedWorker (c : PanelCfg) (s : Sys) (w : Nat) : Worker :=
  let r := schedule c s.sh (wk s w).cur 0
  let ph : Phase := match r.2.1 with | some p => .working p r.2.2 | none => .head
  let lb : Int := match r.2.1 with | some _ => (r.2.2 : Int) | none => (wk s w).lastB
  { cur := r.2.1, phase := ph, lastB := lb }

theorem step_sched (c : PanelCfg) (s : Sys) (w : Nat) (h : enabled c s (.sched w) = true) :
    (wk s w).phase = .calling ∧
    (step c s (.sched w)).sh = (schedule c s.sh (wk s w).cur 0).1 ∧ (step c s (.sched w)).ws.size = s.ws.size ∧
    ∀ i, wk (step c s (.sched w)) i = if i = w then schedWorker c s w else wk s i := by
  have hw : w < s.ws.size := enabled_lt c s _ h
  have hph : (wk s w).phase = .calling := by
    rw [enabled_sched] at h
    cases hp : (wk s w).phase <;> rw [hp] at h <;> first | rfl | cases h
  have hs : step c s (.sched w) = Sys.mk (schedule c s.sh (wk s w).cur 0).1 (s.ws.setIfInBounds w (schedWorker c s w)) := by
    unfold step; simp only [h, Bool.not_true, Bool.false_eq_true, if_false]; rfl
  rw [hs]
  refine ⟨hph, rfl, by simp, ?_⟩
  intro i
  unfold wk
  rw [wk_set _ _ _ _ hw]

theorem schedWorker_cur (c : PanelCfg) (s : Sys) (w : Nat) :
    (schedWorker c s w).cur = (schedule c s.sh (wk s w).cur 0).2.1 := rfl

theorem schedWorker_phase (c : PanelCfg) (s : Sys) (w : Nat) :
    (schedWorker c s w).phase = (match (schedule c s.sh (wk s w).cur 0).2.1 with
                                  | some p => .working p (schedule c s.sh (wk s w).cur 0).2.2 | none => .head) := rfl

end Slu
