/- sp_?gemv / sp_?gemm: the column sweeps of Model/Blas.lean compute the dense definition -/
import SluVerif.Proofs.BlasMem
import SluVerif.Proofs.BlasGemvOps
set_option linter.unusedSectionVars false
set_option linter.unusedSimpArgs false
namespace Slu.Blas
open Finset
variable {α : Type}

section Defs
variable [CommRing α]

/-- the dense matrix an `NCformat` store denotes: entry `(i, j)` is the sum of the stored values of
column `j` whose row index is `i` (one term for a matrix without duplicate entries). -/
def NCMat.dense (A : NCMat α) (i j : Nat) : α :=
  ∑ k ∈ range (A.clen j), if A.ri (A.cp j + k) = i then A.nz (A.cp j + k) else 0

/-- every stored row index of the first `ncol` columns is `< nrow` -/
def NCMat.rowsOk (A : NCMat α) : Prop :=
  ∀ j < A.ncol.toNat, ∀ k < A.clen j, A.ri (A.cp j + k) < A.nrow.toNat

end Defs

section Ring
variable [CommRing α] [DecidableEq α]

/-- additive loop bodies compose: if every iteration adds `G j q` to cell `q`, the loop adds the sum -/
theorem rd_foldl_additive (F : Array α → Nat → Array α) (G : Nat → Nat → α) (n : Nat) (y : Array α)
    (hF : ∀ y' j, j < n → y'.size = y.size → (F y' j).size = y.size ∧ ∀ q, rd (F y' j) q = rd y' q + G j q) :
    ((List.range n).foldl F y).size = y.size ∧
    ∀ q, rd ((List.range n).foldl F y) q = rd y q + ∑ j ∈ range n, G j q := by
  induction n with
  | zero => simp
  | succ n ih =>
    obtain ⟨ih1, ih2⟩ := ih (fun y' j hj hs => hF y' j (Nat.lt_succ_of_lt hj) hs)
    obtain ⟨h1, h2⟩ := hF _ n (Nat.lt_succ_self n) ih1
    rw [foldl_range_succ]
    refine ⟨h1, fun q => ?_⟩
    rw [h2, ih2, sum_range_succ]; ring

theorem rd_axpyCol (A : NCMat α) (j : Nat) (temp : α) (yoff : Nat) (y : Array α)
    (hb : ∀ k < A.clen j, yoff + A.ri (A.cp j + k) < y.size) (q : Nat) :
    rd (axpyCol A j temp yoff y) q
      = rd y q + ∑ k ∈ range (A.clen j), if yoff + A.ri (A.cp j + k) = q then temp * A.nz (A.cp j + k) else 0 :=
  rd_foldl_acc (fun k => yoff + A.ri (A.cp j + k)) (fun k => temp * A.nz (A.cp j + k)) y _ hb q

theorem size_axpyCol (A : NCMat α) (j : Nat) (temp : α) (yoff : Nat) (y : Array α) :
    (axpyCol A j temp yoff y).size = y.size :=
  size_foldl_acc (fun k => yoff + A.ri (A.cp j + k)) (fun k => temp * A.nz (A.cp j + k)) y _

/-- the `notran` sweep adds `alpha * Σ_j A(i,j) x_j` to `y[yoff+i]` for `i < nrow`, nothing elsewhere -/
theorem gemvN_spec (alpha : α) (A : NCMat α) (x : Array α) (xoff : Nat) (incx : Int) (yoff : Nat) (y : Array α)
    (hrows : A.rowsOk) (hy : yoff + A.nrow.toNat ≤ y.size) :
    (gemvN alpha A x xoff incx yoff y).size = y.size ∧
    (∀ i < A.nrow.toNat, rd (gemvN alpha A x xoff incx yoff y) (yoff + i)
        = rd y (yoff + i) + alpha * ∑ j ∈ range A.ncol.toNat, A.dense i j * rd x (xoff + spos A.ncol incx j)) ∧
    (∀ q, (∀ i < A.nrow.toNat, q ≠ yoff + i) → rd (gemvN alpha A x xoff incx yoff y) q = rd y q) := by
  have hb : ∀ j < A.ncol.toNat, ∀ k < A.clen j, ∀ y' : Array α, y'.size = y.size → yoff + A.ri (A.cp j + k) < y'.size := by
    intro j hj k hk y' hs; have := hrows j hj k hk; omega
  have key := rd_foldl_additive
    (fun y j => if rd x (xoff + spos A.ncol incx j) ≠ 0 then
        axpyCol A j (alpha * rd x (xoff + spos A.ncol incx j)) yoff y else y)
    (fun j q => ∑ k ∈ range (A.clen j), if yoff + A.ri (A.cp j + k) = q then
        (alpha * rd x (xoff + spos A.ncol incx j)) * A.nz (A.cp j + k) else 0)
    A.ncol.toNat y
    (by
      intro y' j hj hs
      by_cases hx : rd x (xoff + spos A.ncol incx j) = 0
      · simp [hx, hs]
      · simp only [ne_eq, hx, not_false_eq_true, if_true]
        exact ⟨by rw [size_axpyCol, hs], fun q => rd_axpyCol A j _ yoff y' (fun k hk => hb j hj k hk y' hs) q⟩)
  obtain ⟨k1, k2⟩ := key
  refine ⟨k1, ?_, ?_⟩
  · intro i hi
    show rd ((List.range A.ncol.toNat).foldl _ y) (yoff + i) = _
    rw [k2, mul_sum]
    congr 1
    apply sum_congr rfl
    intro j _
    unfold NCMat.dense
    rw [sum_mul, mul_sum]
    apply sum_congr rfl
    intro k _
    by_cases h : A.ri (A.cp j + k) = i
    · simp [h]; ring
    · have : ¬ (yoff + A.ri (A.cp j + k) = yoff + i) := by omega
      simp [h, this]
  · intro q hq
    show rd ((List.range A.ncol.toNat).foldl _ y) q = _
    rw [k2]
    have : ∑ j ∈ range A.ncol.toNat, ∑ k ∈ range (A.clen j),
        (if yoff + A.ri (A.cp j + k) = q then (alpha * rd x (xoff + spos A.ncol incx j)) * A.nz (A.cp j + k) else 0) = 0 := by
      apply sum_eq_zero; intro j hj
      apply sum_eq_zero; intro k hk
      have := hrows j (mem_range.mp hj) k (mem_range.mp hk)
      have h2 : ¬ (yoff + A.ri (A.cp j + k) = q) := fun e => hq _ this e.symm
      simp [h2]
    rw [this, add_zero]

theorem dotCol_eq_sum (A : NCMat α) (j : Nat) (x : Array α) (xoff : Nat) :
    dotCol A j x xoff = ∑ k ∈ range (A.clen j), A.nz (A.cp j + k) * rd x (xoff + A.ri (A.cp j + k)) := by
  unfold dotCol
  rw [foldl_add_eq_sum (fun k => A.nz (A.cp j + k) * rd x (xoff + A.ri (A.cp j + k))) 0, zero_add]

/-- with row indices in range, the column dot product is `Σ_i A(i,j) x_i` -/
theorem dotCol_eq_dense (A : NCMat α) (j : Nat) (x : Array α) (xoff : Nat) (m : Nat)
    (hr : ∀ k < A.clen j, A.ri (A.cp j + k) < m) :
    dotCol A j x xoff = ∑ i ∈ range m, A.dense i j * rd x (xoff + i) := by
  rw [dotCol_eq_sum]
  unfold NCMat.dense
  simp only [sum_mul]
  rw [sum_comm]
  apply sum_congr rfl
  intro k hk
  have hlt := hr k (mem_range.mp hk)
  rw [sum_eq_single (A.ri (A.cp j + k))]
  · simp
  · intro i _ hne
    have : ¬ (A.ri (A.cp j + k) = i) := fun e => hne e.symm
    simp [this]
  · intro h; exact absurd (mem_range.mpr hlt) h


theorem spos_one (len : Int) (i : Nat) : spos len 1 i = i := by
  unfold spos kstart; simp

/-- positions of a strided vector of `n` elements are in bounds and pairwise distinct -/
theorem spos_facts (n : Nat) (inc : Int) (hinc : inc ≠ 0) (off sz : Nat)
    (hsz : n = 0 ∨ off + (n - 1) * inc.natAbs < sz) :
    (∀ i < n, off + spos (n : Int) inc i < sz) ∧
    (∀ i < n, ∀ j < n, off + spos (n : Int) inc i = off + spos (n : Int) inc j → i = j) := by
  refine ⟨?_, ?_⟩
  · intro i hi
    rw [spos_eq_sposN n inc i hi]
    have := sposN_le n inc i hi
    rcases hsz with h | h
    · omega
    · omega
  · intro i hi j hj e
    rw [spos_eq_sposN n inc i hi, spos_eq_sposN n inc j hj] at e
    exact sposN_inj n inc hinc i j hi hj (by omega)

/-- the transposed sweep adds `alpha * Σ_i A(i,j) x_i` to the `j`-th strided cell of `y` -/
theorem gemvT_spec (alpha : α) (A : NCMat α) (x : Array α) (xoff yoff : Nat) (incy : Int) (y : Array α)
    (n : Nat) (hn : A.ncol = (n : Int)) (hiy : incy ≠ 0)
    (hrows : A.rowsOk) (hy : n = 0 ∨ yoff + (n - 1) * incy.natAbs < y.size) :
    (gemvT alpha A x xoff yoff incy y).size = y.size ∧
    (∀ j < n, rd (gemvT alpha A x xoff yoff incy y) (yoff + spos (n : Int) incy j)
        = rd y (yoff + spos (n : Int) incy j)
          + alpha * ∑ i ∈ range A.nrow.toNat, A.dense i j * rd x (xoff + i)) ∧
    (∀ q, (∀ j < n, q ≠ yoff + spos (n : Int) incy j) → rd (gemvT alpha A x xoff yoff incy y) q = rd y q) := by
  obtain ⟨hb, hinj⟩ := spos_facts n incy hiy yoff y.size hy
  have hN : A.ncol.toNat = n := by rw [hn]; exact Int.toNat_natCast n
  unfold gemvT
  rw [hN, hn]
  have key := rd_foldl_acc (fun j => yoff + spos (n : Int) incy j) (fun j => alpha * dotCol A j x xoff) y n hb
  refine ⟨size_foldl_acc _ _ y n, ?_, ?_⟩
  · intro j hj
    rw [key]
    congr 1
    rw [sum_eq_single j]
    · simp only [if_true]
      rw [dotCol_eq_dense A j x xoff A.nrow.toNat (fun k hk => hrows j (by omega) k hk)]
    · intro j' hj' hne
      have : ¬ (yoff + spos (n : Int) incy j' = yoff + spos (n : Int) incy j) :=
        fun e => hne (hinj j' (mem_range.mp hj') j hj e)
      rw [if_neg this]
    · intro h; exact absurd (mem_range.mpr hj) h
  · intro q hq
    rw [key]
    have : ∑ k ∈ range n, (if yoff + spos (n : Int) incy k = q then alpha * dotCol A k x xoff else 0) = 0 := by
      apply sum_eq_zero; intro k hk
      have : ¬ (yoff + spos (n : Int) incy k = q) := fun e => hq k (mem_range.mp hk) e.symm
      rw [if_neg this]
    rw [this, add_zero]

/-- "First form y := beta*y": every strided cell is multiplied by beta (set to 0 when beta = 0) -/
theorem scaleY_spec (beta : α) (len : Nat) (incy : Int) (yoff : Nat) (y : Array α) (hiy : incy ≠ 0)
    (hy : len = 0 ∨ yoff + (len - 1) * incy.natAbs < y.size) :
    (scaleY beta (len : Int) incy yoff y).size = y.size ∧
    (∀ i < len, rd (scaleY beta (len : Int) incy yoff y) (yoff + spos (len : Int) incy i)
        = beta * rd y (yoff + spos (len : Int) incy i)) ∧
    (∀ q, (∀ i < len, q ≠ yoff + spos (len : Int) incy i) → rd (scaleY beta (len : Int) incy yoff y) q = rd y q) := by
  obtain ⟨hb, hinj⟩ := spos_facts len incy hiy yoff y.size hy
  have hL : ((len : Int)).toNat = len := Int.toNat_natCast len
  unfold scaleY
  rw [hL]
  by_cases h1 : beta = 1
  · simp [h1]
  simp only [h1, if_false]
  by_cases hi1 : incy = 1
  · subst hi1
    simp only [if_true]
    simp only [spos_one] at hb hinj ⊢
    by_cases h0 : beta = 0
    · simp only [h0, if_true]
      obtain ⟨a, b, c⟩ := rd_foldl_map (fun i => yoff + i) (fun _ _ => (0 : α)) y len hb hinj
      exact ⟨c, fun i hi => by rw [a i hi]; simp, fun q hq => b q (fun i hi e => hq i hi e.symm)⟩
    · simp only [h0, if_false]
      obtain ⟨a, b, c⟩ := rd_foldl_map (fun i => yoff + i) (fun _ v => beta * v) y len hb hinj
      exact ⟨c, fun i hi => a i hi, fun q hq => b q (fun i hi e => hq i hi e.symm)⟩
  · simp only [hi1, if_false]
    by_cases h0 : beta = 0
    · simp only [h0, if_true]
      obtain ⟨a, b, c⟩ := rd_foldl_map (fun i => yoff + spos (len : Int) incy i) (fun _ _ => (0 : α)) y len hb hinj
      exact ⟨c, fun i hi => by rw [a i hi]; simp, fun q hq => b q (fun i hi e => hq i hi e.symm)⟩
    · simp only [h0, if_false]
      obtain ⟨a, b, c⟩ := rd_foldl_map (fun i => yoff + spos (len : Int) incy i) (fun _ v => beta * v) y len hb hinj
      exact ⟨c, fun i hi => a i hi, fun q hq => b q (fun i hi e => hq i hi e.symm)⟩

end Ring
end Slu.Blas
