/-
Preservation of the system invariant by one scheduler critical section (event `sched w`).
-/
import SluVerif.Proofs.SchedInv

namespace Slu
open Slu.Gen
open Classical

theorem cnt_ge_two (l : List Nat) (P : Nat → Prop) (hnd : l.Nodup) (a b : Nat) (ha : a ∈ l) (hb : b ∈ l)
    (hab : a ≠ b) (hPa : P a) (hPb : P b) : 2 ≤ cnt l P := by
  have h1 := cnt_remove_one l P (fun x => P x ∧ x ≠ a) a hnd ha hPa (fun h => h.2 rfl)
    (fun x _ hx => ⟨fun hp => ⟨hp, hx⟩, fun hp => hp.1⟩)
  have h2 : 0 < cnt l (fun x => P x ∧ x ≠ a) := (cnt_pos_iff _ _).2 ⟨b, hb, hPb, fun e => hab e.symm⟩
  omega

theorem nodup_lt_length (l : List Nat) (n : Nat) (hnd : l.Nodup) (hlt : ∀ x ∈ l, x < n) : l.length ≤ n := by
  have hsub : l ⊆ List.range n := fun x hx => List.mem_range.2 (hlt x hx)
  have := (List.subperm_of_subset hnd hsub).length_le
  simpa using this

theorem nodup_subset_length (l m : List Nat) (hnd : l.Nodup) (hsub : ∀ x ∈ l, x ∈ m) : l.length ≤ m.length :=
  (List.subperm_of_subset hnd hsub).length_le

theorem qlist_length (sh : Sh) : (qlist sh).length = sh.tail := by simp [qlist]

theorem mem_qlist (sh : Sh) (x : Nat) : x ∈ qlist sh ↔ ∃ k, k < sh.tail ∧ getN sh.queue k = x := by
  simp [qlist]

/-- everything the `sched` event does, in terms of the old state -/
structure SchedEffect (K : Cfg) (s s' : Sys) (w : Nat) (cur got : Option Nat) : Prop where
  cur_eq : (wk s w).cur = cur
  calling : (wk s w).phase = .calling
  wk_w_cur : (wk s' w).cur = got
  wk_w_some : ∀ p, got = some p → (wk s' w).phase = .working p (schedule K.c s.sh cur 0).2.2
  wk_w_none : got = none → (wk s' w).phase = .head
  wk_other : ∀ i, i ≠ w → wk s' i = wk s i
  size_eq : s'.sh.size = s.sh.size
  ssz : s'.sh.state.size = K.c.n + 1
  usz : s'.sh.ukids.size = K.c.n + 1
  qok : QueueOk s'.sh
  uk : ∀ d, ukd s' d = ukd s d - (if ∃ q, cur = some q ∧ d = K.dad q then 1 else 0)
  picked : Picked K.c s.sh cur got
  none_same : got = none → (∀ p, stt s' p = stt s p) ∧ s'.sh.tasksRemain = s.sh.tasksRemain
  some_take : ∀ j, got = some j → j < K.c.n ∧ stt s j > BUSY ∧ s'.sh.tasksRemain = s.sh.tasksRemain - 1 ∧
      ∀ p, stt s' p = if p = j then BUSY
                      else if p = K.dad j ∧ K.dad j < K.c.n ∧ ukd s' (K.dad j) = 1 then CANPIPE else stt s p
  queue : (s'.sh.tail = s.sh.tail ∧ s'.sh.queue = s.sh.queue) ∨
          (∃ j, got = some j ∧ s'.sh.tail = s.sh.tail + 1 ∧ s'.sh.queue = s.sh.queue.setIfInBounds s.sh.tail (K.dad j) ∧
                K.dad j < K.c.n ∧ ukd s' (K.dad j) = 1)

theorem sched_effect (K : Cfg) (W : CfgWF K) (s : Sys) (inv : SysInv K s) (w : Nat)
    (h : enabled K.c s (.sched w) = true) :
    ∃ got, SchedEffect K s (step K.c s (.sched w)) w (wk s w).cur got := by
  obtain ⟨hph, hsh, hsz, hwk⟩ := step_sched K.c s w h
  have hnw : ¬ isWorking (wk s w) := by
    intro ⟨p, b, hpb⟩; rw [hph] at hpb; cases hpb
  have hcurq : ∀ q, (wk s w).cur = some q → stt s q = DONE ∧ q ∈ K.panels := fun q hq => inv.own_i w q hq hnw
  have hdad : ∀ j, j ∈ K.panels → j < dadPanel K.c s.sh j ∧ dadPanel K.c s.sh j ≤ K.c.n := by
    intro j hj; rw [inv.dad_eq]; exact W.dad_gt j hj
  have hroot : ∀ q, (wk s w).cur = some q → dadPanel K.c s.sh q = K.c.n → getZ s.sh.ukids K.c.n - 1 ≠ 0 := by
    intro q hq hdq
    rw [inv.dad_eq] at hdq
    obtain ⟨hqd, hqp⟩ := hcurq q hq
    obtain ⟨r, hr, hdr, hcase⟩ := inv.root_left
    have hrq : r ≠ q := by
      intro e; subst e
      rcases hcase with h1 | ⟨i, hi1, hi2⟩
      · exact h1 hqd
      · have := inv.own_u i w r hi1 hq
        subst this
        exact hi2 hph
    have hur : unrep s r := by
      rcases hcase with h1 | ⟨i, hi1, _⟩
      · exact Or.inl h1
      · exact Or.inr ⟨i, hi1⟩
    have huq : unrep s q := Or.inr ⟨w, hq⟩
    have h2 := cnt_ge_two K.panels (fun x => K.dad x = K.c.n ∧ unrep s x) W.nodup r q hr hqp hrq ⟨hdr, hur⟩ ⟨hdq, huq⟩
    have hk := inv.kids K.c.n (Or.inr rfl)
    unfold ukd at hk
    rw [hk]; omega
  obtain ⟨f1, f2, f3, f4, f5, f6, f7, f8⟩ := schedule_frame K.c s.sh (wk s w).cur 0 inv.qok inv.ssz inv.usz
    (fun j => j ∈ K.panels) W.lt hdad (fun j hj hd => by rw [inv.dad_eq] at hd ⊢; exact W.dad_pan j hj hd)
    (fun q hq => (hcurq q hq).2) (fun k _ h2 => inv.qpan k h2) hroot
  have hq := schedule_queue K.c s.sh (wk s w).cur 0 inv.qok
  refine ⟨(schedule K.c s.sh (wk s w).cur 0).2.1, ?_⟩
  have hukd : ∀ d, ukd (step K.c s (.sched w)) d = ukd s d - (if ∃ q, (wk s w).cur = some q ∧ d = K.dad q then 1 else 0) := by
    intro d
    unfold ukd
    rw [hsh, f5 d]
    unfold ukAfter
    cases hc : (wk s w).cur with
    | none => simp
    | some q =>
      simp only [Option.some.injEq, exists_eq_left']
      rw [inv.dad_eq]
      split <;> simp
  have hstt : ∀ p, stt (step K.c s (.sched w)) p = getN (schedule K.c s.sh (wk s w).cur 0).1.state p := by
    intro p; unfold stt; rw [hsh]
  refine ⟨rfl, hph, ?_, ?_, ?_, ?_, ?_, ?_, ?_, ?_, hukd, f6, ?_, ?_, ?_⟩
  · rw [hwk w, if_pos rfl]; rfl
  · intro p hp; rw [hwk w, if_pos rfl, schedWorker_phase, hp]
  · intro hp; rw [hwk w, if_pos rfl, schedWorker_phase, hp]
  · intro i hi; rw [hwk i, if_neg hi]
  · rw [hsh]; exact f2
  · rw [hsh]; exact f3
  · rw [hsh]; exact f4
  · rw [hsh]; exact f1
  · intro hn
    obtain ⟨a, b⟩ := f7 hn
    refine ⟨fun p => by rw [hstt, a]; rfl, by rw [hsh]; exact b⟩
  · intro j hj
    obtain ⟨a, b, c, d⟩ := f8 j hj
    refine ⟨a, b, by rw [hsh]; exact c, ?_⟩
    intro p
    rw [hstt, d p, inv.dad_eq]
    have hu : ukd (step K.c s (.sched w)) (K.dad j) = ukAfter K.c s.sh (wk s w).cur (K.dad j) := by
      unfold ukd; rw [hsh, f5]
    rw [hu]
    rfl
  · rcases hq with ⟨a, b⟩ | ⟨j, a, b, c, d, e⟩
    · left; rw [hsh]; exact ⟨a, b⟩
    · right
      refine ⟨j, a, by rw [hsh]; exact b, ?_, ?_, ?_⟩
      · rw [hsh, c, inv.dad_eq]
      · rw [← inv.dad_eq]; exact d
      · unfold ukd; rw [hsh, ← inv.dad_eq]; exact e

end Slu

namespace Slu
open Slu.Gen
open Classical

/-- state facts of the `sched` event that do not depend on which panel (if any) was handed out -/
structure SchedState (s s' : Sys) (got : Option Nat) : Prop where
  le_same : ∀ p, stt s p ≤ BUSY → stt s' p = stt s p
  done_iff : ∀ p, stt s' p = DONE ↔ stt s p = DONE
  unready : ∀ p, stt s' p = UNREADY → stt s p = UNREADY
  gt_iff : ∀ p, got ≠ some p → (stt s' p > BUSY ↔ stt s p > BUSY)
  busy : ∀ p, stt s' p = BUSY → (got = some p ∨ stt s p = BUSY)
  took : ∀ j, got = some j → stt s' j = BUSY ∧ stt s j > BUSY
  valid : ∀ p, stt s p ≤ UNREADY → stt s' p ≤ UNREADY

theorem sched_state (K : Cfg) (s s' : Sys) (w : Nat) (cur got : Option Nat) (E : SchedEffect K s s' w cur got)
    (hdadU : ∀ j, got = some j → K.dad j < K.c.n → stt s (K.dad j) = UNREADY) : SchedState s s' got := by
  cases got with
  | none =>
    obtain ⟨h1, _⟩ := E.none_same rfl
    refine ⟨fun p _ => h1 p, fun p => (by rw [h1]), fun p hp => (by rw [← h1]; exact hp), fun p _ => (by rw [h1]),
      fun p hp => Or.inr (by rw [← h1]; exact hp), fun j hj => (by cases hj), fun p hp => (by rw [h1]; exact hp)⟩
  | some j =>
    obtain ⟨hjn, hjs, _, hst⟩ := E.some_take j rfl
    have hU : K.dad j < K.c.n → stt s (K.dad j) = UNREADY := hdadU j rfl
    refine ⟨?_, ?_, ?_, ?_, ?_, ?_, ?_⟩
    · intro p hp
      rw [hst p]
      have h1 : p ≠ j := by intro e; subst e; omega
      rw [if_neg h1]
      split
      · next hc =>
        have := hU hc.2.1
        rw [← hc.1] at this
        simp only [UNREADY, BUSY] at *; omega
      · rfl
    · intro p
      rw [hst p]
      by_cases h1 : p = j
      · subst h1
        simp only [if_true]
        simp only [BUSY, DONE] at *; omega
      · rw [if_neg h1]
        split
        · next hc =>
          have := hU hc.2.1
          rw [← hc.1] at this
          simp only [UNREADY, CANPIPE, DONE] at *; omega
        · rfl
    · intro p hp
      rw [hst p] at hp
      by_cases h1 : p = j
      · rw [if_pos h1] at hp; simp [BUSY, UNREADY] at hp
      · rw [if_neg h1] at hp
        split at hp
        · simp [CANPIPE, UNREADY] at hp
        · exact hp
    · intro p hp
      have h1 : p ≠ j := fun e => hp (by rw [e])
      rw [hst p, if_neg h1]
      split
      · next hc =>
        have := hU hc.2.1
        rw [← hc.1] at this
        simp only [UNREADY, CANPIPE, BUSY] at *; omega
      · rfl
    · intro p hp
      by_cases h1 : p = j
      · left; rw [h1]
      · right
        rw [hst p, if_neg h1] at hp
        split at hp
        · simp [CANPIPE, BUSY] at hp
        · exact hp
    · intro j' hj'
      simp only [Option.some.injEq] at hj'
      subst hj'
      refine ⟨by rw [hst j, if_pos rfl], hjs⟩
    · intro p hp
      rw [hst p]
      split
      · simp [BUSY, UNREADY]
      · split
        · simp [CANPIPE, UNREADY]
        · exact hp

end Slu

namespace Slu
open Slu.Gen
open Classical

theorem sysInv_sched (K : Cfg) (W : CfgWF K) (s : Sys) (inv : SysInv K s) (w : Nat)
    (h : enabled K.c s (.sched w) = true) : SysInv K (step K.c s (.sched w)) := by
  obtain ⟨got, E⟩ := sched_effect K W s inv w h
  generalize step K.c s (.sched w) = s' at E ⊢
  generalize hcur0 : (wk s w).cur = cur at E
  have hnw : ¬ isWorking (wk s w) := by
    intro ⟨p, b, hpb⟩; rw [E.calling] at hpb; cases hpb
  have hcurq : ∀ q, cur = some q → stt s q = DONE ∧ q ∈ K.panels := fun q hq => inv.own_i w q (by rw [hcur0]; exact hq) hnw
  -- the panel handed out is a panel, and its parent (if any) is still UNREADY
  have hgot : ∀ j, got = some j → j ∈ K.panels ∧ j < K.c.n ∧ stt s j > BUSY := by
    intro j hj
    obtain ⟨a, b, _, _⟩ := E.some_take j hj
    refine ⟨?_, a, b⟩
    have hp := E.picked
    rw [hj] at hp
    generalize hsj : some j = sj at hp
    cases hp with
    | none => cases hsj
    | dad q h1 h2 h3 =>
      simp only [Option.some.injEq] at hsj
      rw [inv.dad_eq] at hsj
      subst hsj
      exact W.dad_pan q (hcurq q h1).2 a
    | queue j' k h1 h2 h3 h4 =>
      simp only [Option.some.injEq] at hsj
      subst hsj
      rw [← h4]; exact inv.qpan k h3
  have hdadU : ∀ j, got = some j → K.dad j < K.c.n → stt s (K.dad j) = UNREADY := by
    intro j hj hdn
    obtain ⟨hjp, _, hjs⟩ := hgot j hj
    by_contra hne
    have := inv.closed (K.dad j) (W.dad_pan j hjp hdn) hne j hjp rfl
    omega
  have S := sched_state K s s' w cur got E hdadU
  -- workers
  have hcur' : ∀ i, (wk s' i).cur = if i = w then got else (wk s i).cur := by
    intro i
    by_cases e : i = w
    · subst e; rw [if_pos rfl]; exact E.wk_w_cur
    · rw [if_neg e, E.wk_other i e]
  have hwork' : ∀ i p b, (wk s' i).phase = .working p b ↔
      ((i = w ∧ got = some p ∧ b = (schedule K.c s.sh cur 0).2.2) ∨ (i ≠ w ∧ (wk s i).phase = .working p b)) := by
    intro i p b
    by_cases e : i = w
    · subst e
      constructor
      · intro hp
        cases hg : got with
        | none => rw [E.wk_w_none hg] at hp; cases hp
        | some j =>
          rw [E.wk_w_some j hg] at hp
          simp only [Phase.working.injEq] at hp
          left; exact ⟨rfl, by rw [hp.1], hp.2.symm⟩
      · rintro (⟨_, hg, hb⟩ | ⟨hne, _⟩)
        · rw [E.wk_w_some p hg, hb]
        · exact absurd rfl hne
    · rw [E.wk_other i e]
      constructor
      · intro hp; right; exact ⟨e, hp⟩
      · rintro (⟨he, _⟩ | ⟨_, hp⟩)
        · exact absurd he e
        · exact hp
  have hhas' : ∀ q, hasCur s' q ↔ (got = some q ∨ ∃ i, i ≠ w ∧ (wk s i).cur = some q) := by
    intro q
    unfold hasCur
    constructor
    · rintro ⟨i, hi⟩
      rw [hcur' i] at hi
      by_cases e : i = w
      · rw [if_pos e] at hi; left; exact hi
      · rw [if_neg e] at hi; right; exact ⟨i, e, hi⟩
    · rintro (hg | ⟨i, e, hi⟩)
      · exact ⟨w, by rw [hcur' w, if_pos rfl]; exact hg⟩
      · exact ⟨i, by rw [hcur' i, if_neg e]; exact hi⟩
  have hhas : ∀ q, hasCur s q ↔ (cur = some q ∨ ∃ i, i ≠ w ∧ (wk s i).cur = some q) := by
    intro q
    unfold hasCur
    constructor
    · rintro ⟨i, hi⟩
      by_cases e : i = w
      · subst e; left; rw [← hcur0]; exact hi
      · right; exact ⟨i, e, hi⟩
    · rintro (hg | ⟨i, _, hi⟩)
      · exact ⟨w, by rw [hcur0]; exact hg⟩
      · exact ⟨i, hi⟩
  -- unreported panels: only the reported one changes
  have hU1 : ∀ q, cur ≠ some q → (unrep s' q ↔ unrep s q) := by
    intro q hq
    unfold unrep
    rw [hhas', hhas]
    constructor
    · rintro (h1 | h1 | h1)
      · left; intro hd; exact h1 ((S.done_iff q).2 hd)
      · left
        have := (S.took q h1).2
        intro hd; rw [hd] at this; simp [DONE, BUSY] at this
      · right; right; exact h1
    · rintro (h1 | h1 | h1)
      · left; intro hd; exact h1 ((S.done_iff q).1 hd)
      · exact absurd h1 hq
      · right; right; exact h1
  have hU2 : ∀ q, cur = some q → ¬ unrep s' q ∧ unrep s q := by
    intro q hq
    obtain ⟨hd, hqp⟩ := hcurq q hq
    refine ⟨?_, Or.inr ((hhas q).2 (Or.inl hq))⟩
    unfold unrep
    rw [hhas']
    rintro (h1 | h1 | ⟨i, e, hi⟩)
    · exact h1 ((S.done_iff q).2 hd)
    · have := (S.took q h1).2
      rw [hd] at this; simp [DONE, BUSY] at this
    · exact e (inv.own_u i w q hi (by rw [hcur0]; exact hq))
  -- the counters
  have hkids : ∀ d, (d ∈ K.panels ∨ d = K.c.n) → ukd s' d = (cnt K.panels (fun q => K.dad q = d ∧ unrep s' q) : Int) := by
    intro d hd
    rw [E.uk d, inv.kids d hd]
    by_cases hc : ∃ q, cur = some q ∧ d = K.dad q
    · rw [if_pos hc]
      obtain ⟨q0, hq0, hdq⟩ := hc
      obtain ⟨hn, hy⟩ := hU2 q0 hq0
      have := cnt_remove_one K.panels (fun q => K.dad q = d ∧ unrep s q) (fun q => K.dad q = d ∧ unrep s' q) q0 W.nodup
        (hcurq q0 hq0).2 ⟨hdq.symm, hy⟩ (fun hh => hn hh.2)
        (fun x _ hx => by
          have : cur ≠ some x := by rw [hq0]; intro e; simp only [Option.some.injEq] at e; exact hx e.symm
          rw [hU1 x this])
      rw [this]; push_cast; omega
    · rw [if_neg hc]
      simp only [sub_zero]
      congr 1
      apply cnt_congr
      intro x _
      by_cases hx : cur = some x
      · have hne : K.dad x ≠ d := fun e => hc ⟨x, hx, e.symm⟩
        simp [hne]
      · rw [hU1 x hx]
  -- queue
  have hqsz : s'.sh.queue.size = K.c.n := by
    rcases E.queue with ⟨_, b⟩ | ⟨j, _, _, c, _, _⟩
    · rw [b]; exact inv.qsz
    · rw [c]; simp [inv.qsz]
  have hqnew : ∀ j, got = some j → s'.sh.tail = s.sh.tail + 1 → K.dad j < K.c.n →
      (qlist s.sh ++ [K.dad j]).Nodup ∧ s.sh.tail < K.c.n := by
    intro j hj _ hdn
    obtain ⟨hjp, _, _⟩ := hgot j hj
    have hun := hdadU j hj hdn
    have hnd : (qlist s.sh ++ [K.dad j]).Nodup := by
      rw [List.nodup_append]
      refine ⟨inv.qnodup, by simp, ?_⟩
      intro a ha b hb
      simp only [List.mem_singleton] at hb
      subst hb
      obtain ⟨k, hk, hka⟩ := (mem_qlist _ _).1 ha
      intro e
      have := inv.qstate k hk
      rw [hka, e] at this
      exact this hun
    refine ⟨hnd, ?_⟩
    have hsub : ∀ x ∈ qlist s.sh ++ [K.dad j], x ∈ K.panels := by
      intro x hx
      rcases List.mem_append.1 hx with h1 | h1
      · obtain ⟨k, hk, hka⟩ := (mem_qlist _ _).1 h1
        rw [← hka]; exact inv.qpan k hk
      · simp only [List.mem_singleton] at h1
        subst h1; exact W.dad_pan j hjp hdn
    have h1 := nodup_subset_length _ _ hnd hsub
    have h2 := nodup_lt_length K.panels K.c.n W.nodup W.lt
    simp only [List.length_append, qlist_length, List.length_singleton] at h1
    omega
  have hqget : ∀ k, k < s'.sh.tail → getN s'.sh.queue k = getN s.sh.queue k ∨
      (k = s.sh.tail ∧ ∃ j, got = some j ∧ getN s'.sh.queue k = K.dad j ∧ K.dad j < K.c.n ∧ ukd s' (K.dad j) = 1 ∧ s'.sh.tail = s.sh.tail + 1) := by
    intro k hk
    rcases E.queue with ⟨_, b⟩ | ⟨j, hj, a, c, d, e⟩
    · left; rw [b]
    · by_cases hkt : k = s.sh.tail
      · right
        refine ⟨hkt, j, hj, ?_, d, e, a⟩
        rw [c, hkt, getN_set _ _ _ _ (by rw [inv.qsz]; exact (hqnew j hj a d).2), if_pos rfl]
      · left; rw [c, getN_set_ne _ _ _ _ hkt]
  have hqold : ∀ k, k < s'.sh.tail → k ≠ s.sh.tail → k < s.sh.tail := by
    intro k hk hne
    rcases E.queue with ⟨a, _⟩ | ⟨j, _, a, _, _, _⟩
    · rw [a] at hk; exact hk
    · rw [a] at hk; omega
  refine ⟨?_, E.ssz, E.usz, E.qok, ?_, ?_, ?_, hqsz, ?_, ?_, ?_, ?_, ?_, hkids, ?_, ?_, ?_⟩
  · -- dad_eq
    intro j; rw [dadPanel_congr K.c _ s.sh E.size_eq]; exact inv.dad_eq j
  · -- qpan
    intro k hk
    rcases hqget k hk with h1 | ⟨hkt, j, hj, h2, hdn, _, _⟩
    · by_cases hkt : k = s.sh.tail
      · -- the entry at the old tail was rewritten only in the append case; otherwise tail' = tail and k < tail
        rcases E.queue with ⟨a, _⟩ | ⟨j, hj, a, c, d, e⟩
        · rw [a] at hk; omega
        · rw [c, hkt, getN_set _ _ _ _ (by rw [inv.qsz]; exact (hqnew j hj a d).2), if_pos rfl]
          exact W.dad_pan j (hgot j hj).1 d
      · rw [h1]; exact inv.qpan k (hqold k hk hkt)
    · rw [h2]; exact W.dad_pan j (hgot j hj).1 hdn
  · -- qstate
    intro k hk
    rcases hqget k hk with h1 | ⟨hkt, j, hj, h2, hdn, hu1, _⟩
    · by_cases hkt : k = s.sh.tail
      · rcases E.queue with ⟨a, _⟩ | ⟨j, hj, a, c, d, e⟩
        · rw [a] at hk; omega
        · rw [c, hkt, getN_set _ _ _ _ (by rw [inv.qsz]; exact (hqnew j hj a d).2), if_pos rfl]
          obtain ⟨_, _, _, hst⟩ := E.some_take j hj
          have hne : K.dad j ≠ j := by have := (W.dad_gt j (hgot j hj).1).1; omega
          rw [hst, if_neg hne, if_pos ⟨rfl, d, e⟩]; simp [CANPIPE, UNREADY]
      · rw [h1]
        intro hu
        exact inv.qstate k (hqold k hk hkt) (S.unready _ hu)
    · rw [h2]
      obtain ⟨_, _, _, hst⟩ := E.some_take j hj
      have hne : K.dad j ≠ j := by have := (W.dad_gt j (hgot j hj).1).1; omega
      rw [hst, if_neg hne, if_pos ⟨rfl, hdn, hu1⟩]; simp [CANPIPE, UNREADY]
  · -- qnodup
    rcases E.queue with ⟨a, b⟩ | ⟨j, hj, a, c, d, e⟩
    · have : qlist s'.sh = qlist s.sh := by unfold qlist; rw [a, b]
      rw [this]; exact inv.qnodup
    · obtain ⟨hnd, hlt⟩ := hqnew j hj a d
      have : qlist s'.sh = qlist s.sh ++ [K.dad j] := by
        unfold qlist
        rw [a, List.range_succ, List.map_append, List.map_singleton, c,
          getN_set _ _ _ _ (by rw [inv.qsz]; exact hlt), if_pos rfl]
        congr 1
        apply List.map_congr_left
        intro k hk
        have := List.mem_range.1 hk
        rw [getN_set_ne _ _ _ _ (by omega)]
      rw [this]; exact hnd
  · -- own_w
    intro i p b hp
    rcases (hwork' i p b).1 hp with ⟨hi, hg, _⟩ | ⟨hi, hp0⟩
    · subst hi
      refine ⟨by rw [hcur' i, if_pos rfl]; exact hg, (S.took p hg).1, (hgot p hg).1⟩
    · obtain ⟨c1, c2, c3⟩ := inv.own_w i p b hp0
      refine ⟨by rw [hcur' i, if_neg hi]; exact c1, ?_, c3⟩
      rw [S.le_same p (by rw [c2]), c2]
  · -- own_i
    intro i q hq hnw'
    rw [hcur' i] at hq
    by_cases e : i = w
    · subst e
      rw [if_pos rfl] at hq
      exfalso
      apply hnw'
      exact ⟨q, _, E.wk_w_some q hq⟩
    · rw [if_neg e] at hq
      have hnw0 : ¬ isWorking (wk s i) := by
        intro ⟨p, b, hpb⟩
        exact hnw' ⟨p, b, (hwork' i p b).2 (Or.inr ⟨e, hpb⟩)⟩
      obtain ⟨c1, c2⟩ := inv.own_i i q hq hnw0
      exact ⟨(S.done_iff q).2 c1, c2⟩
  · -- own_u
    intro i i' q h1 h2
    rw [hcur' i] at h1
    rw [hcur' i'] at h2
    by_cases e : i = w <;> by_cases e' : i' = w
    · rw [e, e']
    · exfalso
      rw [if_pos e] at h1; rw [if_neg e'] at h2
      have hgt := (S.took q h1).2
      by_cases hw : isWorking (wk s i')
      · obtain ⟨p, b, hpb⟩ := hw
        obtain ⟨c1, c2, _⟩ := inv.own_w i' p b hpb
        rw [h2] at c1; simp only [Option.some.injEq] at c1; subst c1
        rw [c2] at hgt; simp [BUSY] at hgt
      · have := (inv.own_i i' q h2 hw).1
        rw [this] at hgt; simp [DONE, BUSY] at hgt
    · exfalso
      rw [if_neg e] at h1; rw [if_pos e'] at h2
      have hgt := (S.took q h2).2
      by_cases hw : isWorking (wk s i)
      · obtain ⟨p, b, hpb⟩ := hw
        obtain ⟨c1, c2, _⟩ := inv.own_w i p b hpb
        rw [h1] at c1; simp only [Option.some.injEq] at c1; subst c1
        rw [c2] at hgt; simp [BUSY] at hgt
      · have := (inv.own_i i q h1 hw).1
        rw [this] at hgt; simp [DONE, BUSY] at hgt
    · rw [if_neg e] at h1; rw [if_neg e'] at h2
      exact inv.own_u i i' q h1 h2
  · -- busy_owned
    intro p hp hb
    rcases S.busy p hb with hg | hb0
    · exact ⟨w, _, E.wk_w_some p hg⟩
    · obtain ⟨i, b, hib⟩ := inv.busy_owned p hp hb0
      have hiw : i ≠ w := by
        intro e; subst e; rw [E.calling] at hib; cases hib
      exact ⟨i, b, (hwork' i p b).2 (Or.inr ⟨hiw, hib⟩)⟩
  · -- valid
    intro p hp; exact S.valid p (inv.valid p hp)
  · -- closed
    intro d hd hne q hq hdq
    -- children of `d` that are still unreported in s'
    by_cases hgd : got = some d
    · -- d is the panel handed out
      obtain ⟨_, hdn, hds⟩ := hgot d hgd
      have hqd : got ≠ some q := by
        rw [hgd]; intro e; simp only [Option.some.injEq] at e
        have := (W.dad_gt q hq).1; omega
      by_cases hdu : stt s d = UNREADY
      · -- taken through the "last child reported" route: every child is reported
        have hp := E.picked
        rw [hgd] at hp
        generalize hsj : some d = sj at hp
        cases hp with
        | none => cases hsj
        | dad q0 h1 h2 h3 =>
          simp only [Option.some.injEq] at hsj
          rw [inv.dad_eq] at hsj h2
          have hk := hkids d (Or.inl hd)
          have hu := E.uk d
          rw [if_pos ⟨q0, h1, hsj⟩] at hu
          have h0 : ukd s' d = 0 := by
            rw [hu]; unfold ukd; rw [hsj]; exact h2
          rw [h0] at hk
          have hz : cnt K.panels (fun x => K.dad x = d ∧ unrep s' x) = 0 := by exact_mod_cast hk.symm
          have hnq := (cnt_zero_iff _ _).1 hz q hq
          have hdone : stt s' q = DONE := by
            by_contra hc
            exact hnq ⟨hdq, Or.inl hc⟩
          rw [hdone]; simp [DONE, BUSY]
        | queue j' k h1 h2 h3 h4 =>
          simp only [Option.some.injEq] at hsj
          subst hsj
          exfalso
          have := inv.qstate k h3
          rw [h4] at this
          exact this hdu
      · have h1 := inv.closed d hd hdu q hq hdq
        rw [S.le_same q h1]; exact h1
    · by_cases hsd : stt s d = UNREADY
      · -- d was UNREADY and is not any more: it was made CANPIPE by the hand-out of its child j
        cases hg : got with
        | none =>
          obtain ⟨h1, _⟩ := E.none_same hg
          rw [h1 d] at hne; exact absurd hsd hne
        | some j =>
          obtain ⟨hjn, hjs, _, hst⟩ := E.some_take j hg
          have hdj : d ≠ j := by intro e; apply hgd; rw [hg, e]
          have hd' := hst d
          rw [if_neg hdj] at hd'
          by_cases hc : d = K.dad j ∧ K.dad j < K.c.n ∧ ukd s' (K.dad j) = 1
          · obtain ⟨hc1, hc2, hc3⟩ := hc
            -- exactly one unreported child in s': j
            have hk := hkids d (Or.inl hd)
            rw [hc1, hc3] at hk
            have h1 : cnt K.panels (fun x => K.dad x = K.dad j ∧ unrep s' x) = 1 := by exact_mod_cast hk.symm
            have hju : unrep s' j := Or.inl (by rw [(S.took j hg).1]; simp [BUSY, DONE])
            by_cases hqj : q = j
            · rw [hqj, (S.took j hg).1]
            · have := cnt_one_unique K.panels _ W.nodup h1 j (hgot j hg).1 ⟨rfl, hju⟩
              by_contra hgt
              have hqu : unrep s' q := Or.inl (by intro e; rw [e] at hgt; simp [DONE, BUSY] at hgt)
              exact hqj (this q hq ⟨by rw [hdq, hc1], hqu⟩)
          · rw [if_neg hc] at hd'
            rw [hd'] at hne; exact absurd hsd hne
      · have h1 := inv.closed d hd hsd q hq hdq
        rw [S.le_same q h1]; exact h1
  · -- tasks
    cases hg : got with
    | none =>
      obtain ⟨h1, h2⟩ := E.none_same hg
      rw [h2, inv.tasks]
      congr 1
      apply cnt_congr
      intro x _; rw [h1]
    | some j =>
      obtain ⟨_, hjs, ht, _⟩ := E.some_take j hg
      rw [ht, inv.tasks]
      have := cnt_remove_one K.panels (fun p => stt s p > BUSY) (fun p => stt s' p > BUSY) j W.nodup (hgot j hg).1 hjs
        (by rw [(S.took j hg).1]; simp) (fun x _ hx => by
          have : got ≠ some x := by rw [hg]; intro e; simp only [Option.some.injEq] at e; exact hx e.symm
          rw [S.gt_iff x this])
      rw [this]; push_cast; omega
  · -- root_left
    obtain ⟨r, hr, hdr, hcase⟩ := inv.root_left
    refine ⟨r, hr, hdr, ?_⟩
    rcases hcase with h1 | ⟨i, hi1, hi2⟩
    · left; intro hd; exact h1 ((S.done_iff r).1 hd)
    · right
      have hiw : i ≠ w := by intro e; subst e; exact hi2 E.calling
      refine ⟨i, by rw [hcur' i, if_neg hiw]; exact hi1, ?_⟩
      rw [E.wk_other i hiw]; exact hi2

end Slu
