/- the library's disjoint-set `find` with PATH HALVING: returns the root, keeps the structure valid and
   does not change the partition (every element keeps its representative).  `m` = number of elements in
   use (the arrays are longer: Liu's algorithm activates the elements one by one). -/
import SluVerif.Proofs.EtreeBasic
namespace Slu.Pre

/-- parent-pointer structure of the disjoint sets on the elements `0..m-1`: pointers stay inside and
strictly climb a rank until they reach a self-loop (the set's name). -/
def UFValid (pp : Array Nat) (m : Nat) (rank : Nat → Nat) : Prop :=
  m ≤ pp.size ∧ ∀ i, i < m → getN pp i < m ∧ (getN pp i ≠ i → rank i < rank (getN pp i))

/-- `RepD pp m i r d`: following the pointers from `i` ends, after `d` steps, in the self-loop `r` -/
inductive RepD (pp : Array Nat) (m : Nat) : Nat → Nat → Nat → Prop
  | root {r : Nat} : r < m → getN pp r = r → RepD pp m r r 0
  | step {i r d : Nat} : i < m → getN pp i ≠ i → RepD pp m (getN pp i) r d → RepD pp m i r (d + 1)

/-- `Rep pp m i r`: `r` is the representative (root) of `i` -/
def Rep (pp : Array Nat) (m i r : Nat) : Prop := ∃ d, RepD pp m i r d

theorem Rep.root {pp : Array Nat} {m r : Nat} (h1 : r < m) (h2 : getN pp r = r) : Rep pp m r r := ⟨0, RepD.root h1 h2⟩
theorem Rep.step {pp : Array Nat} {m i r : Nat} (h1 : i < m) (h2 : getN pp i ≠ i) (h3 : Rep pp m (getN pp i) r) :
    Rep pp m i r := by
  obtain ⟨d, hd⟩ := h3; exact ⟨d + 1, RepD.step h1 h2 hd⟩

theorem RepD.is_root {pp : Array Nat} {m i r d : Nat} (h : RepD pp m i r d) : r < m ∧ getN pp r = r := by
  induction h with
  | root h1 h2 => exact ⟨h1, h2⟩
  | step _ _ _ ih => exact ih

theorem Rep.is_root {pp : Array Nat} {m i r : Nat} (h : Rep pp m i r) : r < m ∧ getN pp r = r := by
  obtain ⟨d, hd⟩ := h; exact hd.is_root

theorem RepD.lt {pp : Array Nat} {m i r d : Nat} (h : RepD pp m i r d) : i < m := by
  cases h with
  | root h1 _ => exact h1
  | step h1 _ _ => exact h1

theorem Rep.lt {pp : Array Nat} {m i r : Nat} (h : Rep pp m i r) : i < m := by
  obtain ⟨d, hd⟩ := h; exact hd.lt

theorem RepD.unique {pp : Array Nat} {m i r r' d d' : Nat} (h : RepD pp m i r d) (h' : RepD pp m i r' d') :
    r = r' ∧ d = d' := by
  induction h generalizing d' with
  | root h1 h2 =>
      cases h' with
      | root => exact ⟨rfl, rfl⟩
      | step _ hne _ => exact absurd h2 hne
  | step h1 hne _ ih =>
      cases h' with
      | root _ h2 => exact absurd h2 hne
      | step _ _ h3 => obtain ⟨e1, e2⟩ := ih h3; exact ⟨e1, by omega⟩

theorem Rep.unique {pp : Array Nat} {m i r r' : Nat} (h : Rep pp m i r) (h' : Rep pp m i r') : r = r' := by
  obtain ⟨d, hd⟩ := h; obtain ⟨d', hd'⟩ := h'; exact (hd.unique hd').1

/-- inversion -/
theorem Rep.cases_on' {pp : Array Nat} {m i r : Nat} (h : Rep pp m i r) :
    (i = r ∧ getN pp r = r) ∨ (getN pp i ≠ i ∧ Rep pp m (getN pp i) r) := by
  obtain ⟨d, hd⟩ := h
  cases hd with
  | root h1 h2 => exact Or.inl ⟨rfl, h2⟩
  | step _ h2 h3 => exact Or.inr ⟨h2, ⟨_, h3⟩⟩

theorem UFValid.rank_mono {pp : Array Nat} {m : Nat} {rank : Nat → Nat} (hv : UFValid pp m rank) {i : Nat} (hi : i < m) :
    rank i ≤ rank (getN pp i) := by
  by_cases h : getN pp i = i
  · rw [h]; exact Nat.le_refl _
  · exact Nat.le_of_lt ((hv.2 i hi).2 h)

/-- the pointer path is duplicate free, so it is shorter than `m` -/
theorem RepD.depth_lt {pp : Array Nat} {m : Nat} {rank : Nat → Nat} (hv : UFValid pp m rank) {i r d : Nat}
    (h : RepD pp m i r d) : d < m := by
  have : ∃ l : List Nat, l.length = d + 1 ∧ (∀ x, x ∈ l → x < m ∧ rank i ≤ rank x) ∧
      l.Pairwise (fun a b => rank a < rank b) := by
    induction h with
    | @root r h1 _ => exact ⟨[r], rfl, by simp [h1], by simp⟩
    | @step i r d h1 hne _ ih =>
        obtain ⟨l, hl1, hl2, hl3⟩ := ih
        have hr := (hv.2 i h1).2 hne
        refine ⟨i :: l, by simp [hl1], ?_, ?_⟩
        · intro x hx
          rcases List.mem_cons.1 hx with h | h
          · subst h; exact ⟨h1, Nat.le_refl _⟩
          · have := hl2 x h; exact ⟨this.1, by omega⟩
        · refine List.Pairwise.cons ?_ hl3
          intro x hx
          have := (hl2 x hx).2; omega
  obtain ⟨l, hl1, hl2, hl3⟩ := this
  have hnd : l.Nodup := by
    unfold List.Nodup
    refine List.Pairwise.imp ?_ hl3
    intro a b hab he; subst he; omega
  have hsub : l ⊆ List.range m := by
    intro x hx; exact List.mem_range.2 (hl2 x hx).1
  have := hnd.length_le_of_subset hsub
  simp at this; omega

/-- one halving step `pp[i] = pp[pp[i]]` keeps the structure valid -/
theorem halve_valid {pp : Array Nat} {m : Nat} {rank : Nat → Nat} (hv : UFValid pp m rank) {i : Nat} (hi : i < m) :
    UFValid (pp.setIfInBounds i (getN pp (getN pp i))) m rank := by
  refine ⟨by simpa using hv.1, ?_⟩
  intro j hj
  simp only [getN_set]
  have hp := (hv.2 i hi).1
  have hg := (hv.2 _ hp).1
  split
  · rename_i he
    rw [← he.1]
    refine ⟨hg, fun hne => ?_⟩
    have h1 := hv.rank_mono hi
    by_cases h2 : getN pp (getN pp i) = getN pp i
    · rw [h2] at hne ⊢
      exact (hv.2 i hi).2 hne
    · have := (hv.2 _ hp).2 h2
      omega
  · exact hv.2 j hj

/-- ... every element keeps its representative and does not get deeper (forward direction,
strengthened for the induction) -/
theorem halve_rep_fwd {pp : Array Nat} {m : Nat} {rank : Nat → Nat} (hv : UFValid pp m rank) {i : Nat} (hi : i < m)
    {j r d : Nat} (h : RepD pp m j r d) :
    (∃ d1, d1 ≤ d ∧ RepD (pp.setIfInBounds i (getN pp (getN pp i))) m j r d1) ∧
    (∃ d2, d2 ≤ d ∧ RepD (pp.setIfInBounds i (getN pp (getN pp i))) m (getN pp j) r d2) := by
  have his : i < pp.size := Nat.lt_of_lt_of_le hi hv.1
  induction h with
  | @root r h1 h2 =>
      have : RepD (pp.setIfInBounds i (getN pp (getN pp i))) m r r 0 := by
        apply RepD.root h1
        rw [getN_set]
        split
        · rename_i he; rw [he.1, h2, h2]
        · exact h2
      rw [h2]; exact ⟨⟨0, Nat.le_refl _, this⟩, ⟨0, Nat.le_refl _, this⟩⟩
  | @step j r d h1 hne _ ih =>
      obtain ⟨⟨d1, hd1, ih1⟩, ⟨d2, hd2, ih2⟩⟩ := ih
      refine ⟨?_, ⟨d1, by omega, ih1⟩⟩
      by_cases hji : i = j
      · subst hji
        refine ⟨d2 + 1, by omega, RepD.step h1 ?_ ?_⟩
        · rw [getN_set]; simp only [his, and_true, if_true]
          intro hg
          have hp := (hv.2 i hi).1
          have r1 := (hv.2 i hi).2 hne
          have r2 := hv.rank_mono hp
          rw [hg] at r2; omega
        · rw [getN_set]; simp only [his, and_true, if_true]
          exact ih2
      · refine ⟨d1 + 1, by omega, RepD.step h1 ?_ ?_⟩
        · rw [getN_set]; simp only [hji, false_and, if_false]; exact hne
        · rw [getN_set]; simp only [hji, false_and, if_false]; exact ih1

theorem halve_rep_bwd {pp : Array Nat} {m : Nat} {rank : Nat → Nat} (hv : UFValid pp m rank) {i : Nat} (hi : i < m)
    {j r d : Nat} (h : RepD (pp.setIfInBounds i (getN pp (getN pp i))) m j r d) : Rep pp m j r := by
  have hp := (hv.2 i hi).1
  have his : i < pp.size := Nat.lt_of_lt_of_le hi hv.1
  generalize hpp' : pp.setIfInBounds i (getN pp (getN pp i)) = pp' at h
  induction h with
  | @root r h1 h2 =>
      subst hpp'
      rw [getN_set] at h2
      split at h2
      · rename_i he
        have hir := he.1
        subst hir
        by_cases hpi : getN pp i = i
        · exact Rep.root h1 hpi
        · have r1 := (hv.2 i hi).2 hpi
          have r2 := hv.rank_mono hp
          rw [h2] at r2; omega
      · exact Rep.root h1 h2
  | @step j r d h1 hne _ ih =>
      subst hpp'
      rw [getN_set] at hne ih
      split at hne
      · rename_i he
        have hij := he.1
        subst hij
        rw [if_pos he] at ih
        by_cases hpi : getN pp i = i
        · rw [hpi, hpi] at hne; exact absurd rfl hne
        · apply Rep.step hi hpi
          by_cases hpp : getN pp (getN pp i) = getN pp i
          · rw [hpp] at ih; exact ih
          · exact Rep.step hp hpp ih
      · rename_i hne'
        rw [if_neg hne'] at ih
        exact Rep.step h1 hne ih

theorem halve_rep_iff {pp : Array Nat} {m : Nat} {rank : Nat → Nat} (hv : UFValid pp m rank) {i : Nat} (hi : i < m)
    (j r : Nat) : Rep (pp.setIfInBounds i (getN pp (getN pp i))) m j r ↔ Rep pp m j r := by
  constructor
  · rintro ⟨d, hd⟩; exact halve_rep_bwd hv hi hd
  · rintro ⟨d, hd⟩
    obtain ⟨⟨d1, _, h1⟩, _⟩ := halve_rep_fwd hv hi hd
    exact ⟨d1, h1⟩

/-- the `while (gp != p)` loop: fuel larger than the depth of `i` is enough -/
theorem findLoop_spec (m : Nat) (rank : Nat → Nat) :
    ∀ (fuel i : Nat) (pp : Array Nat) (r d : Nat), UFValid pp m rank → RepD pp m i r d → d < fuel →
      (findLoop fuel i (getN pp i) (getN pp (getN pp i)) pp).1 = r ∧
      UFValid (findLoop fuel i (getN pp i) (getN pp (getN pp i)) pp).2 m rank ∧
      (findLoop fuel i (getN pp i) (getN pp (getN pp i)) pp).2.size = pp.size ∧
      ∀ j r', Rep (findLoop fuel i (getN pp i) (getN pp (getN pp i)) pp).2 m j r' ↔ Rep pp m j r' := by
  intro fuel
  induction fuel with
  | zero => intro i pp r d _ _ h; omega
  | succ f ih =>
      intro i pp r d hv hrep hf
      have hi := hrep.lt
      have hp := (hv.2 i hi).1
      have hg := (hv.2 _ hp).1
      unfold findLoop
      by_cases hgp : getN pp (getN pp i) = getN pp i
      · rw [if_pos hgp]
        refine ⟨?_, hv, rfl, fun j r => Iff.rfl⟩
        have : Rep pp m i (getN pp i) := by
          by_cases hpi : getN pp i = i
          · rw [hpi]; exact Rep.root hi hpi
          · exact Rep.step hi hpi (Rep.root hp hgp)
        exact this.unique ⟨d, hrep⟩
      · rw [if_neg hgp]
        have hpi : getN pp i ≠ i := by
          intro h; apply hgp; rw [h, h]
        -- i → p → gp, so d ≥ 2
        cases hrep with
        | root _ h2 => exact absurd h2 hpi
        | @step _ _ d1 _ _ hrep1 =>
          cases hrep1 with
          | root _ h2 => exact absurd h2 hgp
          | @step _ _ d2 _ _ hrep2 =>
            have hv1 := halve_valid hv hi
            have hs1 : (pp.setIfInBounds i (getN pp (getN pp i))).size = pp.size := by simp
            obtain ⟨⟨d', hd', hrep'⟩, _⟩ := halve_rep_fwd hv hi hrep2
            have := ih (getN pp (getN pp i)) (pp.setIfInBounds i (getN pp (getN pp i))) r d' hv1 hrep' (by omega)
            obtain ⟨h1, h2, h3, h4⟩ := this
            exact ⟨h1, h2, by rw [h3, hs1], fun j r => (h4 j r).trans (halve_rep_iff hv hi j r)⟩

/-- `find (i, pp)` as the library runs it: the model's fuel `pp.size + 1` is always enough -/
theorem ufFind_spec {pp : Array Nat} {m : Nat} {rank : Nat → Nat} (hv : UFValid pp m rank) {i r : Nat}
    (hrep : Rep pp m i r) :
    (ufFind i pp).1 = r ∧ UFValid (ufFind i pp).2 m rank ∧ (ufFind i pp).2.size = pp.size ∧
      ∀ j r', Rep (ufFind i pp).2 m j r' ↔ Rep pp m j r' := by
  obtain ⟨d, hd⟩ := hrep
  have := hd.depth_lt hv
  exact findLoop_spec m rank (pp.size + 1) i pp r d hv hd (by have := hv.1; omega)

/-- in a valid structure every element has a representative -/
theorem UFValid.total {pp : Array Nat} {m : Nat} {rank : Nat → Nat} (hv : UFValid pp m rank) :
    ∀ i, i < m → ∃ r, Rep pp m i r := by
  -- induction on R - rank i for a bound R of the ranks
  have hR : ∃ R, ∀ u, u ≤ m → rank u ≤ R := by
    have : ∀ k : Nat, ∃ R, ∀ u, u ≤ k → rank u ≤ R := by
      intro k
      induction k with
      | zero =>
          refine ⟨rank 0, fun u hu => ?_⟩
          have : u = 0 := by omega
          subst this; exact Nat.le_refl _
      | succ k ih =>
          obtain ⟨R, hR⟩ := ih
          refine ⟨max R (rank (k + 1)), fun u hu => ?_⟩
          by_cases h : u = k + 1
          · subst h; exact Nat.le_max_right _ _
          · exact Nat.le_trans (hR u (by omega)) (Nat.le_max_left _ _)
    exact this m
  obtain ⟨R, hR⟩ := hR
  have : ∀ k i, i < m → R - rank i ≤ k → ∃ r, Rep pp m i r := by
    intro k
    induction k with
    | zero =>
        intro i hi hk
        by_cases h : getN pp i = i
        · exact ⟨i, Rep.root hi h⟩
        · have h1 := (hv.2 i hi).2 h
          have h2 := hR _ (Nat.le_of_lt (hv.2 i hi).1)
          omega
    | succ k ih =>
        intro i hi hk
        by_cases h : getN pp i = i
        · exact ⟨i, Rep.root hi h⟩
        · have h1 := (hv.2 i hi).2 h
          have h2 := hR _ (Nat.le_of_lt (hv.2 i hi).1)
          obtain ⟨r, hr⟩ := ih _ (hv.2 i hi).1 (by omega)
          exact ⟨r, Rep.step hi h hr⟩
  intro i hi
  exact this _ i hi (Nat.le_refl _)


/-! ### make_set and make_link -/

theorem makeset_valid {pp : Array Nat} {k : Nat} {rank : Nat → Nat} (hv : UFValid pp k rank) (hk : k < pp.size) :
    UFValid (pp.setIfInBounds k k) (k + 1) rank := by
  refine ⟨by simp only [Array.size_setIfInBounds]; omega, ?_⟩
  intro i hi
  rw [getN_set]
  by_cases hik : k = i
  · subst hik; simp [hk]
  · simp only [hik, false_and, if_false]
    have := hv.2 i (by omega)
    exact ⟨by omega, this.2⟩

theorem makeset_rep {pp : Array Nat} {k : Nat} {rank : Nat → Nat} (hv : UFValid pp k rank) (hk : k < pp.size)
    (i r : Nat) : Rep (pp.setIfInBounds k k) (k + 1) i r ↔ ((i = k ∧ r = k) ∨ (i < k ∧ Rep pp k i r)) := by
  constructor
  · rintro ⟨d, hd⟩
    generalize hpp' : pp.setIfInBounds k k = pp' at hd
    induction hd with
    | @root r h1 h2 =>
        subst hpp'
        by_cases hrk : r = k
        · exact Or.inl ⟨hrk, hrk⟩
        · right
          rw [getN_set] at h2
          have : ¬ (k = r ∧ k < pp.size) := fun h => hrk h.1.symm
          rw [if_neg this] at h2
          exact ⟨by omega, Rep.root (by omega) h2⟩
    | @step i r d h1 hne _ ih =>
        subst hpp'
        have hik : i ≠ k := by
          intro h; subst h
          rw [getN_set] at hne; simp [hk] at hne
        have hget : getN (pp.setIfInBounds k k) i = getN pp i := by
          rw [getN_set]; have : ¬ (k = i ∧ k < pp.size) := fun h => hik h.1.symm
          rw [if_neg this]
        rw [hget] at hne ih
        have hil : i < k := by omega
        right
        refine ⟨hil, ?_⟩
        rcases ih with ⟨h, _⟩ | ⟨_, h⟩
        · have := (hv.2 i hil).1; omega
        · exact Rep.step hil hne h
  · rintro (⟨h1, h2⟩ | ⟨h1, ⟨d, hd⟩⟩)
    · subst h1; subst h2
      exact Rep.root (by omega) (by rw [getN_set]; simp [hk])
    · clear h1
      induction hd with
      | @root r h1 h2 =>
          refine Rep.root (by omega) ?_
          rw [getN_set]; have : ¬ (k = r ∧ k < pp.size) := fun h => by omega
          rw [if_neg this]; exact h2
      | @step i r d h1 hne _ ih =>
          have hget : getN (pp.setIfInBounds k k) i = getN pp i := by
            rw [getN_set]; have : ¬ (k = i ∧ k < pp.size) := fun h => by omega
            rw [if_neg this]
          exact Rep.step (by omega) (by rw [hget]; exact hne) (by rw [hget]; exact ih)

section link
variable {pp : Array Nat} {m : Nat} {rank : Nat → Nat} {c r0 : Nat}

theorem link_rep (hv : UFValid pp m rank) (hc : c < m) (hcr : getN pp c = c) (hr : r0 < m) (hrr : getN pp r0 = r0)
    (hne : c ≠ r0) (i r : Nat) :
    Rep (pp.setIfInBounds c r0) m i r ↔ ((Rep pp m i c ∧ r = r0) ∨ (¬ Rep pp m i c ∧ Rep pp m i r)) := by
  have hcs : c < pp.size := Nat.lt_of_lt_of_le hc hv.1
  have hget : ∀ x, x ≠ c → getN (pp.setIfInBounds c r0) x = getN pp x := by
    intro x hx
    rw [getN_set]; have : ¬ (c = x ∧ c < pp.size) := fun h => hx h.1.symm
    rw [if_neg this]
  have hgetc : getN (pp.setIfInBounds c r0) c = r0 := by rw [getN_set]; simp [hcs]
  have hr0root : Rep pp m r0 r0 := Rep.root hr hrr
  have hcroot : Rep pp m c c := Rep.root hc hcr
  constructor
  · rintro ⟨d, hd⟩
    generalize hpp' : pp.setIfInBounds c r0 = pp' at hd
    induction hd with
    | @root r h1 h2 =>
        subst hpp'
        have hrc : r ≠ c := by
          intro h; subst h; rw [hgetc] at h2; exact hne h2.symm
        rw [hget r hrc] at h2
        right
        refine ⟨fun h => hrc (h.unique (Rep.root h1 h2)).symm, Rep.root h1 h2⟩
    | @step i r d h1 hne' _ ih =>
        subst hpp'
        by_cases hic : i = c
        · subst hic
          rw [hgetc] at ih
          rcases ih with ⟨h, _⟩ | ⟨_, h⟩
          · exact absurd (h.unique hr0root) hne
          · exact Or.inl ⟨hcroot, h.unique hr0root⟩
        · rw [hget i hic] at hne' ih
          rcases ih with ⟨h, e⟩ | ⟨h1', h2'⟩
          · exact Or.inl ⟨Rep.step h1 hne' h, e⟩
          · right
            refine ⟨fun h => ?_, Rep.step h1 hne' h2'⟩
            rcases h.cases_on' with ⟨e, _⟩ | ⟨_, h'⟩
            · exact hic e
            · exact h1' h'
  · rintro (⟨⟨d, hd⟩, e⟩ | ⟨hn, ⟨d, hd⟩⟩)
    · rw [e]
      generalize hcc : c = c' at hd
      induction hd with
      | @root x h1 h2 =>
          subst hcc
          refine Rep.step hc (by rw [hgetc]; exact hne.symm) ?_
          rw [hgetc]
          exact Rep.root hr (by rw [hget r0 hne.symm]; exact hrr)
      | @step i x d h1 hne' _ ih =>
          subst hcc
          have hic : i ≠ c := by intro h; subst h; exact hne' hcr
          exact Rep.step h1 (by rw [hget i hic]; exact hne') (by rw [hget i hic]; exact ih rfl)
    · induction hd with
      | @root r h1 h2 =>
          have hrc : r ≠ c := by intro h; subst h; exact hn hcroot
          exact Rep.root h1 (by rw [hget r hrc]; exact h2)
      | @step i r d h1 hne' hd' ih =>
          have hic : i ≠ c := by intro h; subst h; exact hne' hcr
          have hn' : ¬ Rep pp m (getN pp i) c := fun h => hn (Rep.step h1 hne' h)
          exact Rep.step h1 (by rw [hget i hic]; exact hne') (by rw [hget i hic]; exact ih hn')

theorem link_valid (hv : UFValid pp m rank) (hc : c < m) (hcr : getN pp c = c) (hr : r0 < m) (hrr : getN pp r0 = r0)
    (hne : c ≠ r0) : ∃ rank', UFValid (pp.setIfInBounds c r0) m rank' := by
  classical
  have hcs : c < pp.size := Nat.lt_of_lt_of_le hc hv.1
  refine ⟨fun x => rank x + (if Rep pp m x c then 0 else rank c + 1), by simpa using hv.1, ?_⟩
  intro i hi
  rw [getN_set]
  by_cases hic : c = i
  · subst hic
    simp only [hcs, and_self, if_true]
    refine ⟨hr, fun _ => ?_⟩
    have h1 : Rep pp m c c := Rep.root hc hcr
    have h2 : ¬ Rep pp m r0 c := fun h => hne (h.unique (Rep.root hr hrr))
    simp only [h1, h2, if_true, if_false]
    omega
  · simp only [hic, false_and, if_false]
    refine ⟨(hv.2 i hi).1, fun hne' => ?_⟩
    have hr' := (hv.2 i hi).2 hne'
    have hiff : Rep pp m i c ↔ Rep pp m (getN pp i) c := by
      constructor
      · intro h
        rcases h.cases_on' with ⟨e, _⟩ | ⟨_, h'⟩
        · exact absurd e.symm hic
        · exact h'
      · intro h; exact Rep.step hi hne' h
    by_cases hb : Rep pp m i c
    · have hb' := hiff.1 hb
      simp only [hb, hb', if_true]; omega
    · have hb' : ¬ Rep pp m (getN pp i) c := fun h => hb (hiff.2 h)
      simp only [hb, hb', if_false]; omega

end link

end Slu.Pre
