/-
Further functional facts about one scheduler critical section, needed for the progress (no-deadlock) theorem:
the column flags set at a hand-out, the `bcol` computation, and how far the queue head moves.
-/
import SluVerif.Proofs.SchedInit

namespace Slu
open Slu.Gen

/-- writing `v` into the slots `j .. j+w-1` -/
def fillN (a : Array Nat) (j w v : Nat) : Array Nat := (List.range' j w).foldl (fun s i => s.setIfInBounds i v) a

theorem fillN_size (a : Array Nat) (j w v : Nat) : (fillN a j w v).size = a.size := by
  unfold fillN
  induction w generalizing a j with
  | zero => rfl
  | succ w ih =>
    rw [List.range'_succ, List.foldl_cons, ih]; simp

theorem getN_fillN (a : Array Nat) (j w v k : Nat) (h : j + w ≤ a.size) :
    getN (fillN a j w v) k = if j ≤ k ∧ k < j + w then v else getN a k := by
  unfold fillN
  induction w generalizing a j with
  | zero => simp
  | succ w ih =>
    rw [List.range'_succ, List.foldl_cons]
    rw [ih (a.setIfInBounds j v) (j + 1) (by simp only [Array.size_setIfInBounds]; omega)]
    by_cases hk : k = j
    · subst hk
      rw [if_neg (by omega), getN_set _ _ _ _ (by omega), if_pos rfl, if_pos (by omega)]
    · rw [getN_set_ne _ _ _ _ hk]
      by_cases h1 : j + 1 ≤ k ∧ k < j + 1 + w
      · rw [if_pos h1, if_pos (by omega)]
      · rw [if_neg h1, if_neg (by omega)]

theorem takePanel_spin (c : PanelCfg) (sh1 : Sh) (j : Nat) :
    (takePanel c sh1 j).1.spin = fillN sh1.spin j (getZ sh1.size j).toNat 1 := rfl
theorem finishPanel_spin (sh : Sh) (j : Nat) : (finishPanel sh j).spin = fillN sh.spin j (getZ sh.size j).toNat 0 := rfl
theorem takePanel_typ (c : PanelCfg) (sh1 : Sh) (j : Nat) : (takePanel c sh1 j).1.typ = sh1.typ := rfl

theorem climbDone_congr (c : PanelCfg) (x y : Sh) (h1 : x.state = y.state) (h2 : x.size = y.size) (fuel b : Nat) :
    climbDone c x fuel b = climbDone c y fuel b := by
  induction fuel generalizing b with
  | zero => rfl
  | succ f ih =>
    unfold climbDone
    rw [h1, dadPanel_congr c x y h2 b, ih]

/-- the `bcol` returned with panel `j` and the `fb_cols` update, in terms of the final state -/
theorem takePanel_fb (c : PanelCfg) (sh1 : Sh) (j : Nat) :
    (takePanel c sh1 j).2 = climbDone c (takePanel c sh1 j).1 (c.n + 1) (getN sh1.fb j) ∧
    (takePanel c sh1 j).1.fb = sh1.fb.setIfInBounds (dadPanel c sh1 j) (takePanel c sh1 j).2 := by
  constructor
  · unfold takePanel
    simp only
    apply climbDone_congr <;> rfl
  · rfl

/-- when the dequeue loop comes back empty-handed with enough fuel, every pending entry was stale -/
theorem dequeue_none (fuel : Nat) (sh : Sh) (hq : QueueOk sh) (hf : sh.tail - sh.head ≤ fuel) (sh' : Sh)
    (hr : dequeue sh fuel = (sh', none)) :
    ∀ k, sh.head ≤ k → k < sh.tail → getN sh.state (getN sh.queue k) < CANGO := by
  induction fuel generalizing sh with
  | zero =>
    intro k h1 h2; omega
  | succ fuel ih =>
    unfold dequeue at hr
    by_cases hc : sh.count ≤ 0
    · intro k h1 h2
      obtain ⟨q1, q2⟩ := hq
      omega
    · rw [if_neg hc] at hr
      obtain ⟨q1, q2⟩ := hq
      have hlt : sh.head < sh.tail := by omega
      simp only at hr
      by_cases hs : getN sh.state (getN sh.queue sh.head) ≥ CANGO
      · rw [if_pos hs] at hr
        simp only [Prod.mk.injEq] at hr
        cases hr.2
      · rw [if_neg hs] at hr
        have hq' : QueueOk { sh with head := sh.head + 1, count := sh.count - 1 } := by
          refine ⟨by simp only; omega, ?_⟩
          simp only; push_cast; omega
        have := ih { sh with head := sh.head + 1, count := sh.count - 1 } hq' (by simp only; omega) hr
        intro k h1 h2
        by_cases hk : k = sh.head
        · rw [hk]; omega
        · exact this k (by simp only; omega) h2

/-- which way the critical section went, and where the queue head ends up -/
theorem schedule_head (c : PanelCfg) (sh : Sh) (cur : Option Nat) (b0 : Nat) (hq : QueueOk sh)
    (hfuel : sh.tail - sh.head ≤ c.n + 1) :
    (∃ q, cur = some q ∧ (schedule c sh cur b0).2.1 = some (dadPanel c sh q) ∧ getZ sh.ukids (dadPanel c sh q) - 1 = 0 ∧
        (schedule c sh cur b0).1.head = sh.head) ∨
    ((∀ q, cur = some q → ¬ (getZ sh.ukids (dadPanel c sh q) - 1 = 0 ∧ getN sh.state (dadPanel c sh q) > BUSY)) ∧
      (((schedule c sh cur b0).2.1 = none ∧ ∀ k, sh.head ≤ k → k < sh.tail → getN sh.state (getN sh.queue k) < CANGO) ∨
       (∃ j k, (schedule c sh cur b0).2.1 = some j ∧ sh.head ≤ k ∧ k < sh.tail ∧ getN sh.queue k = j ∧
          (schedule c sh cur b0).1.head = k + 1 ∧
          ∀ k', sh.head ≤ k' → k' < k → getN sh.state (getN sh.queue k') < CANGO))) := by
  -- the state on which the dequeue loop runs differs from `sh` in `ukids` only
  have key : ∀ (shA : Sh), shA.state = sh.state → shA.queue = sh.queue → shA.head = sh.head → shA.tail = sh.tail →
      shA.size = sh.size → QueueOk shA → ∀ sh1 got, dequeue shA (c.n + 1) = (sh1, got) →
      ((got = none ∧ ∀ k, sh.head ≤ k → k < sh.tail → getN sh.state (getN sh.queue k) < CANGO) ∨
       (∃ j k, got = some j ∧ sh.head ≤ k ∧ k < sh.tail ∧ getN sh.queue k = j ∧ sh1.head = k + 1 ∧
          ∀ k', sh.head ≤ k' → k' < k → getN sh.state (getN sh.queue k') < CANGO)) := by
    intro shA e1 e2 e3 e4 e5 hqA sh1 got hr
    cases got with
    | none =>
      left
      refine ⟨rfl, ?_⟩
      have := dequeue_none (c.n + 1) shA hqA (by rw [e3, e4]; exact hfuel) sh1 hr
      intro k h1 h2
      have := this k (by rw [e3]; exact h1) (by rw [e4]; exact h2)
      rw [e1, e2] at this; exact this
    | some j =>
      right
      obtain ⟨_, _, _, a4⟩ := dequeue_spec _ shA hqA sh1 (some j) hr
      obtain ⟨h1, k, h2, h3, h4, h5, h6⟩ := a4 j rfl
      refine ⟨j, k, rfl, by rw [← e3]; exact h2, by rw [← e4]; exact h3, by rw [← e2]; exact h4, h5, ?_⟩
      intro k' g1 g2
      have := h6 k' (by rw [e3]; exact g1) g2
      rw [e1, e2] at this; exact this
  cases hp : pickPanel c sh cur with
  | mk sh1 got =>
    have hsch : ∀ x, got = x → (schedule c sh cur b0).2.1 = x ∧ (schedule c sh cur b0).1.head = sh1.head := by
      intro x hx
      unfold schedule; rw [hp]
      cases got with
      | none => subst hx; exact ⟨rfl, rfl⟩
      | some j => subst hx; exact ⟨rfl, takePanel_head c sh1 j⟩
    unfold pickPanel at hp
    cases cur with
    | none =>
      right
      refine ⟨fun q h => (by cases h), ?_⟩
      simp only at hp
      rcases key sh rfl rfl rfl rfl rfl hq sh1 got hp with ⟨g, h⟩ | ⟨j, k, g, h1, h2, h3, h4, h5⟩
      · left; exact ⟨(hsch none g).1, h⟩
      · right; exact ⟨j, k, (hsch (some j) g).1, h1, h2, h3, by rw [(hsch (some j) g).2]; exact h4, h5⟩
    | some q =>
      simp only at hp
      split at hp
      · next hcond =>
        left
        simp only [Prod.mk.injEq] at hp
        obtain ⟨e1, e2⟩ := hp
        simp only [Bool.and_eq_true, beq_iff_eq, decide_eq_true_eq] at hcond
        refine ⟨q, rfl, (hsch _ e2.symm).1, hcond.1, ?_⟩
        rw [(hsch _ e2.symm).2, ← e1]
      · next hcond =>
        right
        refine ⟨?_, ?_⟩
        · intro q' hq' hc
          simp only [Option.some.injEq] at hq'
          subst hq'
          apply hcond
          simp only [Bool.and_eq_true, beq_iff_eq, decide_eq_true_eq]
          exact hc
        · rcases key { sh with ukids := sh.ukids.setIfInBounds (dadPanel c sh q) (getZ sh.ukids (dadPanel c sh q) - 1) } rfl rfl rfl rfl rfl hq sh1 got hp with ⟨g, h⟩ | ⟨j, k, g, h1, h2, h3, h4, h5⟩
          · left; exact ⟨(hsch none g).1, h⟩
          · right; exact ⟨j, k, (hsch (some j) g).1, h1, h2, h3, by rw [(hsch (some j) g).2]; exact h4, h5⟩

/-- column flags, `fb_cols` and `bcol` after the critical section -/
theorem schedule_pipe (c : PanelCfg) (sh : Sh) (cur : Option Nat) (b0 : Nat) (hq : QueueOk sh) :
    ((schedule c sh cur b0).2.1 = none → (schedule c sh cur b0).1.spin = sh.spin ∧ (schedule c sh cur b0).1.fb = sh.fb) ∧
    (∀ j, (schedule c sh cur b0).2.1 = some j →
        (schedule c sh cur b0).1.spin = fillN sh.spin j (getZ sh.size j).toNat 1 ∧
        (schedule c sh cur b0).2.2 = climbDone c (schedule c sh cur b0).1 (c.n + 1) (getN sh.fb j) ∧
        (schedule c sh cur b0).1.fb = sh.fb.setIfInBounds (dadPanel c sh j) (schedule c sh cur b0).2.2) ∧
    (schedule c sh cur b0).1.typ = sh.typ := by
  cases hp : pickPanel c sh cur with
  | mk sh1 got =>
    obtain ⟨a1, a2, a3, a4, a5, a6, a7, a8, a9⟩ := pickPanel_spec c sh cur hq sh1 got hp
    obtain ⟨f1, f2, f3, f4⟩ := pickPanel_frame c sh cur hq sh1 got hp
    cases got with
    | none =>
      have hr : schedule c sh cur b0 = (sh1, none, b0) := by unfold schedule; rw [hp]
      rw [hr]
      exact ⟨fun _ => ⟨a8, f3⟩, fun j h => (by cases h), f4⟩
    | some j =>
      have hr : schedule c sh cur b0 = ((takePanel c sh1 j).1, some j, (takePanel c sh1 j).2) := by unfold schedule; rw [hp]
      rw [hr]
      refine ⟨fun h => (by cases h), ?_, (by rw [takePanel_typ, f4])⟩
      intro j' hj'
      simp only [Option.some.injEq] at hj'
      subst hj'
      obtain ⟨g1, g2⟩ := takePanel_fb c sh1 j
      refine ⟨by rw [takePanel_spin, a8, a7], by rw [g1, f3], ?_⟩
      simp only
      rw [g2, f3, dadPanel_congr c sh1 sh a7]

end Slu
