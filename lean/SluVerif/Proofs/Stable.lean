/- TreePostorder leaves an already postordered forest unchanged (children lists are built with the
   lower-numbered child first, so the walk meets the vertices in increasing order). -/
import SluVerif.Proofs.Blocks
namespace Slu.Pre

theorem po_sorted {n : Nat} {parent : Array Nat} (h : PostorderedIC n parent) :
    ∀ f v, v ≤ n → v ≤ f → (po (kids (getN parent) n) f v).Pairwise (· < ·) := by
  obtain ⟨_, hinc, hic⟩ := h
  have hlt : ∀ x, x < n → x < getN parent x := fun x hx => (hinc x hx).1
  intro f
  induction f with
  | zero => intro v _ _; simp [po]
  | succ f ih =>
      intro v hv hvf
      simp only [po]
      rw [List.pairwise_append]
      have hkid : ∀ k, k ∈ kids (getN parent) n v → k < n ∧ getN parent k = v ∧ k < v := by
        intro k hk
        have := (mem_kids (getN parent)).1 hk
        exact ⟨this.1, this.2, by have := hlt k this.1; omega⟩
      refine ⟨?_, by simp, ?_⟩
      · rw [List.pairwise_flatMap]
        refine ⟨fun k hk => ih k (by have := hkid k hk; omega) (by have := hkid k hk; omega), ?_⟩
        have hpw : (kids (getN parent) n v).Pairwise (· < ·) := kidsFrom_pairwise (getN parent)
        refine List.Pairwise.imp_of_mem ?_ hpw
        intro k1 k2 hk1 hk2 h12 x hx y hy
        have h1 := hkid k1 hk1
        have h2 := hkid k2 hk2
        have dx : Desc (getN parent) n k1 x := mem_po_desc hx
        have dy : Desc (getN parent) n k2 y := mem_po_desc hy
        have hxk := dx.le_of_increasing hlt
        apply Nat.lt_of_not_le
        intro hyx
        have hd := hic k2 y k1 h2.1 (by omega) (by omega) dy
        cases hd with
        | refl => omega
        | step _ h' =>
            rw [h1.2.1] at h'
            have := h'.le_of_increasing hlt
            omega
      · intro a ha b hb
        simp only [List.mem_singleton] at hb
        subst hb
        simp only [List.mem_flatMap] at ha
        obtain ⟨k, hk, hak⟩ := ha
        have := (mem_po_desc hak).le_of_increasing hlt
        have := hkid k hk
        omega

/-- **postorder_stable** -/
theorem treePostorder_stable {n : Nat} {parent : Array Nat} (h : PostorderedIC n parent) :
    ∀ v, v ≤ n → getN (treePostorder n parent) v = v := by
  have hp : ∀ v, v < n → getN parent v ≤ n := fun v hv => (h.2.1 v hv).2
  have hr : ∀ v, v < n → (fun x => x) v < (fun x => x) (getN parent v) := fun v hv => (h.2.1 v hv).1
  have c := fctx_of hp hr
  have hs := po_sorted h n n (Nat.le_refl _) (Nat.le_refl _)
  have hperm := po_root_perm c
  have heq : poAll n parent (fun x => x) = List.range (n + 1) :=
    List.Perm.eq_of_pairwise (fun a b _ _ h1 h2 => by omega) hs List.pairwise_lt_range hperm
  intro v hv
  rw [post_get hp hr hv, heq]
  have hlt : v < (List.range (n + 1)).length := by simp; omega
  have := List.nodup_range.idxOf_getElem v hlt
  rwa [List.getElem_range] at this

end Slu.Pre
