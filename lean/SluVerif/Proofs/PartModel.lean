/- the supernode partitions computed by the model of qrnzcnt (first pass) and cholnzcnt always describe
   consecutive blocks covering 0..n-1 (for every etree / adjacency input, even inconsistent ones). -/
import SluVerif.Proofs.Blocks
import SluVerif.Proofs.Colorder
namespace Slu.Pre

/-- blocks `[0,b1), [b1,b2), .. ` ending exactly at `b`, built from the left -/
inductive BlocksTo (part : Array Nat) : Nat → Prop
  | zero : BlocksTo part 0
  | snoc {b : Nat} (s : Nat) : BlocksTo part b → 1 ≤ s → getN part b = s →
      (∀ j, b < j → j < b + s → getN part j = 0) → BlocksTo part (b + s)

theorem BlocksTo.frame {part part' : Array Nat} {b : Nat} (h : BlocksTo part b)
    (he : ∀ j, j < b → getN part' j = getN part j) : BlocksTo part' b := by
  induction h with
  | zero => exact BlocksTo.zero
  | @snoc b s _ h1 h2 h3 ih =>
      refine BlocksTo.snoc s (ih (fun j hj => he j (by omega))) h1 ?_ ?_
      · rw [he b (by omega)]; exact h2
      · intro j hj1 hj2; rw [he j hj2]; exact h3 j hj1 hj2

theorem BlocksTo.toBlocks {part : Array Nat} {n b : Nat} (h : BlocksTo part b) (hb : Blocks part n b) :
    Blocks part n 0 := by
  induction h with
  | zero => exact hb
  | @snoc b s _ h1 h2 h3 ih =>
      have hle : b + s ≤ n := by
        cases hb with
        | done => exact Nat.le_refl _
        | block s' _ _ h _ _ => omega
      exact ih (Blocks.block s h2 h1 hle h3 hb)

/-- state of the partition builder: blocks up to `xsup`, nothing written from `xsup` on -/
structure PInv (n : Nat) (part : Array Nat) (xsup : Nat) : Prop where
  sz : part.size = n
  bl : BlocksTo part xsup
  zr : ∀ j, xsup ≤ j → getN part j = 0

theorem PInv.close {n k : Nat} {part : Array Nat} {xsup : Nat} (h : PInv n part xsup) (hlt : xsup < k) (hk : k ≤ n) :
    PInv n (part.setIfInBounds xsup (k - xsup)) k := by
  have hx : xsup < part.size := by rw [h.sz]; omega
  refine ⟨by simp [h.sz], ?_, ?_⟩
  · have hb : BlocksTo (part.setIfInBounds xsup (k - xsup)) xsup := by
      apply h.bl.frame
      intro j hj; rw [getN_set]
      have : ¬ (xsup = j ∧ xsup < part.size) := fun hh => by omega
      rw [if_neg this]
    have := BlocksTo.snoc (k - xsup) hb (by omega) (by rw [getN_set]; simp [hx]) (by
      intro j hj1 hj2
      rw [getN_set]
      have : ¬ (xsup = j ∧ xsup < part.size) := fun hh => by omega
      rw [if_neg this]
      exact h.zr j (by omega))
    have e : xsup + (k - xsup) = k := by omega
    rwa [e] at this
  · intro j hj
    rw [getN_set]
    have : ¬ (xsup = j ∧ xsup < part.size) := fun hh => by omega
    rw [if_neg this]
    exact h.zr j (by omega)

/-- writing the value that is already there (0) changes nothing -/
theorem PInv.rewrite0 {n : Nat} {part : Array Nat} {xsup : Nat} (h : PInv n part xsup) :
    PInv n (part.setIfInBounds xsup 0) xsup := by
  have hget : ∀ j, getN (part.setIfInBounds xsup 0) j = getN part j := by
    intro j; rw [getN_set]; split
    · rename_i hh; rw [← hh.1]; exact (h.zr xsup (Nat.le_refl _)).symm
    · rfl
  exact ⟨by simp [h.sz], h.bl.frame (fun j _ => hget j), fun j hj => by rw [hget]; exact h.zr j hj⟩

theorem PInv.finish {n : Nat} {part : Array Nat} {xsup : Nat} (h : PInv n part xsup) (hlt : xsup < n ∨ n = 0 ∧ xsup = 0) :
    checkPartSuper n (part.setIfInBounds xsup (n - xsup)) = true := by
  rcases hlt with hlt | ⟨h0, hx0⟩
  · have hc := h.close hlt (Nat.le_refl _)
    unfold checkPartSuper
    simp only [Bool.and_eq_true, beq_iff_eq]
    exact ⟨hc.sz, checkBlocksFrom_complete _ n n 0 (by omega) (hc.bl.toBlocks Blocks.done)⟩
  · subst h0; subst hx0
    have : part = #[] := Array.eq_empty_of_size_eq_zero h.sz
    subst this
    decide

/-- builder state together with the loop index: `xsup` lags behind `k` -/
def PSt (n k : Nat) (part : Array Nat) (xsup : Nat) : Prop := PInv n part xsup ∧ xsup ≤ k

theorem PSt.closeIf {n k : Nat} {part : Array Nat} {xsup : Nat} (h : PSt n k part xsup) (hk : k < n)
    (c : Prop) [Decidable c] (hc : c → xsup ≠ k) :
    PSt n k (if c then closeBlock k (part, xsup) else (part, xsup)).1
            (if c then closeBlock k (part, xsup) else (part, xsup)).2 := by
  split
  · rename_i hcc
    have := hc hcc
    exact ⟨h.1.close (by have := h.2; omega) (by omega), Nat.le_refl _⟩
  · exact h

/-! ### qrnzcnt, first pass -/

theorem qrRow_inv {n k : Nat} (hk : k < n) (adjncy : Array Nat) (st : Array Nat × Array (Option Nat) × Nat) (j : Nat)
    (h : PSt n k st.1 st.2.2) : PSt n k (qrRow k adjncy st j).1 (qrRow k adjncy st j).2.2 := by
  unfold qrRow
  simp only
  split
  · exact h.closeIf hk _ (fun hc => hc.2)
  · exact h

theorem qrRows_inv {n k : Nat} (hk : k < n) (adjncy : Array Nat) :
    ∀ (l : List Nat) (st : Array Nat × Array (Option Nat) × Nat), PSt n k st.1 st.2.2 →
      PSt n k (l.foldl (qrRow k adjncy) st).1 (l.foldl (qrRow k adjncy) st).2.2
  | [], _, h => h
  | j :: l, st, h => qrRows_inv hk adjncy l _ (qrRow_inv hk adjncy st j h)

theorem qrStep_inv {n k : Nat} (hk : k < n) (xadj adjncy perm etpar : Array Nat)
    (st : Array Nat × Array Nat × Array (Option Nat) × Nat)
    (h : PInv n st.1 st.2.2.2 ∧ (st.2.2.2 < k ∨ (k = 0 ∧ st.2.2.2 = 0))) :
    PInv n (qrStep xadj adjncy perm etpar st k).1 (qrStep xadj adjncy perm etpar st k).2.2.2 ∧
      ((qrStep xadj adjncy perm etpar st k).2.2.2 < k + 1 ∨ (k + 1 = 0 ∧ (qrStep xadj adjncy perm etpar st k).2.2.2 = 0)) := by
  unfold qrStep
  simp only
  have h0 : PSt n k st.1 st.2.2.2 := ⟨h.1, by rcases h.2 with h | ⟨_, h⟩ <;> omega⟩
  have h1 := h0.closeIf hk (k ≠ 0 ∧ 2 ≤ getN (st.2.1.setIfInBounds (getN etpar k) (getN st.2.1 (getN etpar k) + 1)) k)
    (fun hc => by
      rcases h.2 with h | ⟨h, _⟩
      · omega
      · exact absurd h hc.1)
  have h2 := qrRows_inv hk adjncy (colRangeP xadj (getN perm k)) (_, st.2.2.1, _) h1
  exact ⟨h2.1, Or.inl (Nat.lt_succ_of_le h2.2)⟩

/-- **part_super_blocks (model, qrnzcnt)** -/
theorem qrPart_blocks (n : Nat) (xadj adjncy perm etpar : Array Nat) :
    checkPartSuper n (qrPart n xadj adjncy perm etpar) = true := by
  unfold qrPart
  simp only
  have key := foldl_range_inv (qrStep xadj adjncy perm etpar)
    (fun k st => PInv n st.1 st.2.2.2 ∧ (st.2.2.2 < k ∨ (k = 0 ∧ st.2.2.2 = 0)))
    (Array.replicate n 0, Array.replicate (n + 1) 0, Array.replicate n none, 0) n
    ⟨⟨by simp, BlocksTo.zero, fun j _ => by rw [getN_replicate]; split <;> rfl⟩, Or.inr ⟨rfl, rfl⟩⟩
    (fun k st hk hI => qrStep_inv hk xadj adjncy perm etpar st hI)
  exact key.1.finish key.2

/-! ### cholnzcnt -/

theorem cholStep_inv {n k : Nat} (hk : k < n) (xadj adjncy perm invp fdesc nchild : Array Nat)
    (st : Array Nat × Array (Option Nat) × Nat)
    (h : PInv n st.1 st.2.2 ∧ (st.2.2 < k ∨ (k = 0 ∧ st.2.2 = 0))) :
    PInv n (cholStep xadj adjncy perm invp fdesc nchild st k).1 (cholStep xadj adjncy perm invp fdesc nchild st k).2.2 ∧
      ((cholStep xadj adjncy perm invp fdesc nchild st k).2.2 < k + 1 ∨
        (k + 1 = 0 ∧ (cholStep xadj adjncy perm invp fdesc nchild st k).2.2 = 0)) := by
  unfold cholStep
  simp only
  split
  · refine ⟨?_, Or.inl (Nat.lt_succ_self k)⟩
    unfold closeBlock
    simp only
    rcases h.2 with hlt | ⟨h0, hx0⟩
    · exact h.1.close hlt (by omega)
    · -- lownbr = 0 = xsup: `part_super_L[0] = 0` rewrites the 0 that is there
      subst h0
      rw [hx0] at h ⊢
      exact h.1.rewrite0
  · refine ⟨h.1, Or.inl ?_⟩
    show st.2.2 < k + 1
    rcases h.2 with h | ⟨_, h⟩ <;> omega

/-- **part_super_blocks (model, cholnzcnt)** -/
theorem cholPart_blocks (n : Nat) (xadj adjncy perm invp etpar : Array Nat) :
    checkPartSuper n (cholPart n xadj adjncy perm invp etpar) = true := by
  unfold cholPart
  simp only
  have key := foldl_range_inv (cholStep xadj adjncy perm invp (cholPre n etpar).1 (cholPre n etpar).2)
    (fun k st => PInv n st.1 st.2.2 ∧ (st.2.2 < k ∨ (k = 0 ∧ st.2.2 = 0)))
    (Array.replicate n 0, Array.replicate n none, 0) n
    ⟨⟨by simp, BlocksTo.zero, fun j _ => by rw [getN_replicate]; split <;> rfl⟩, Or.inr ⟨rfl, rfl⟩⟩
    (fun k st hk hI => cholStep_inv hk xadj adjncy perm invp _ _ st hI)
  exact key.1.finish key.2

/-- whatever `sp_colorder` (model) reports as `part_super_h` passes the block check -/
theorem colorder_part_blocks (m n : Nat) (colptr rowind pc : Array Nat) (symm : Bool) (et0 part0 : Array Nat) :
    checkPartSuper n (colorder m n colptr rowind pc symm false et0 part0).part = true := by
  unfold colorder
  simp only [Bool.false_eq_true, if_false]
  split
  · exact cholPart_blocks _ _ _ _ _ _
  · exact qrPart_blocks _ _ _ _ _

end Slu.Pre
