/- termination of the lacon dialogue: a rank on the static state decreases with every call -/
import SluVerif.Model.Lacon
import Mathlib.Tactic.Linarith

namespace Slu

/-- rank of the static state while a request is pending (`kase ≠ 0`) -/
def laconRankJ (st : LaconSt) : Nat :=
  match st.jump with
  | 2 => 10
  | 3 => 13 - 2 * st.iter
  | 4 => 12 - 2 * st.iter
  | 5 => 1
  | _ => 11

def laconRank (st : LaconSt) (io : LaconIO) : Nat := if io.kase = 0 then 12 else laconRankJ st

/-- iteration counter stays in `2..5` inside the main loop -/
def laconIterOk (st : LaconSt) : Prop := (st.jump = 3 ∨ st.jump = 4) → 2 ≤ st.iter ∧ st.iter ≤ 5

theorem laconCall_rank (n : Nat) (st : LaconSt) (io : LaconIO) (hg : io.kase = 0 ∨ laconIterOk st) :
    (laconCall n st io).2.kase = 0 ∨
    (((laconCall n st io).2.kase = 1 ∨ (laconCall n st io).2.kase = 2) ∧ laconIterOk (laconCall n st io).1
      ∧ laconRankJ (laconCall n st io).1 < laconRank st io) := by
  unfold laconCall laconRank
  by_cases hk : io.kase = 0
  · simp [hk, laconIterOk, laconRankJ]
  · have hg' : laconIterOk st := by rcases hg with h | h; exact absurd h hk; exact h
    simp only [hk, if_false]
    unfold laconIterOk at hg'
    split
    · -- jump 2
      simp [l50, laconIterOk, laconRankJ, *]
    · -- jump 3
      rename_i hj
      have := hg' (Or.inl hj)
      split
      · right; simp only [l120, laconIterOk, laconRankJ, hj]; refine ⟨Or.inl trivial, ?_, ?_⟩ <;> omega
      · split
        · right; simp only [l120, laconIterOk, laconRankJ, hj]; refine ⟨Or.inl trivial, ?_, ?_⟩ <;> omega
        · right; simp only [laconIterOk, laconRankJ, hj]; refine ⟨Or.inr trivial, ?_, ?_⟩ <;> omega
    · -- jump 4
      rename_i hj
      have := hg' (Or.inr hj)
      split
      · rename_i h
        have h5 : st.iter < 5 := h.2
        right; simp only [l50, laconIterOk, laconRankJ, hj]; refine ⟨Or.inl trivial, ?_, ?_⟩ <;> omega
      · right; simp only [l120, laconIterOk, laconRankJ, hj]; refine ⟨Or.inl trivial, ?_, ?_⟩ <;> omega
    · -- jump 5
      left; split <;> simp [l150]
    · -- jump 1 / default
      rename_i h2 h3 h4 h5
      split
      · left; simp [l150]
      · right
        refine ⟨Or.inr rfl, ?_, ?_⟩
        · simp [laconIterOk]
        · simp only [laconRankJ]
          omega

theorem laconRank_pos (st : LaconSt) (io : LaconIO) (hg : io.kase = 0 ∨ laconIterOk st) : 1 ≤ laconRank st io := by
  unfold laconRank
  by_cases hk : io.kase = 0
  · simp [hk]
  · have hg' : laconIterOk st := by rcases hg with h | h; exact absurd h hk; exact h
    unfold laconIterOk at hg'
    simp only [hk, if_false]
    unfold laconRankJ
    split
    · omega
    · rename_i hj; have := hg' (Or.inl hj); omega
    · rename_i hj; have := hg' (Or.inr hj); omega
    · omega
    · omega

/-- the request handed to the operator and the state the next call sees -/
def laconNextIO (apply applyT : RVec → RVec) (io : LaconIO) : LaconIO :=
  { io with x := if io.kase = 1 then apply io.x else applyT io.x }

theorem laconLoop_succ (n : Nat) (apply applyT : RVec → RVec) (f : Nat) (st : LaconSt) (io : LaconIO) (k : Nat) :
    laconLoop n apply applyT (f + 1) st io k =
      if (laconCall n st io).2.kase = 0 then { st := (laconCall n st io).1, io := (laconCall n st io).2, applies := k }
      else laconLoop n apply applyT f (laconCall n st io).1 (laconNextIO apply applyT (laconCall n st io).2) (k + 1) := by
  rfl

theorem laconLoop_terminates (n : Nat) (apply applyT : RVec → RVec) :
    ∀ (fuel : Nat) (st : LaconSt) (io : LaconIO) (k : Nat), (io.kase = 0 ∨ laconIterOk st) → laconRank st io ≤ fuel →
      (laconLoop n apply applyT fuel st io k).io.kase = 0 ∧
      (laconLoop n apply applyT fuel st io k).applies + 1 ≤ k + laconRank st io := by
  intro fuel
  induction fuel with
  | zero =>
    intro st io k hg hr
    have := laconRank_pos st io hg
    omega
  | succ f ih =>
    intro st io k hg hr
    have hstep := laconCall_rank n st io hg
    have hpos := laconRank_pos st io hg
    rw [laconLoop_succ]
    by_cases h0 : (laconCall n st io).2.kase = 0
    · rw [if_pos h0]
      exact ⟨h0, by simp only; omega⟩
    · rw [if_neg h0]
      rcases hstep with h | ⟨hk, hok, hlt⟩
      · exact absurd h h0
      · have hr' : laconRank (laconCall n st io).1 (laconNextIO apply applyT (laconCall n st io).2)
            = laconRankJ (laconCall n st io).1 := by
          unfold laconRank laconNextIO; simp [h0]
        have := ih (laconCall n st io).1 (laconNextIO apply applyT (laconCall n st io).2)
            (k + 1) (Or.inr hok) (by rw [hr']; omega)
        rw [hr'] at this
        exact ⟨this.1, by omega⟩

end Slu
