/- abstract correctness of triangular sweeps that process the unknowns block by block in a
   dependency-respecting order.  Two invariants:
     InvN  column-oriented ("axpy") sweeps      — used for inv(L)x, inv(U)x and the dense ?trsv N kernels
     InvT  row-oriented ("dot product") sweeps  — used for inv(Lᵀ)x, inv(Uᵀ)x and the dense ?trsv T kernels
   Vectors are functions `Nat → K` here; the array level is in BlasTrsvKern/BlasTrsvStep. -/
import Mathlib.Algebra.BigOperators.Ring.Finset
import Mathlib.Algebra.BigOperators.Intervals
import Mathlib.Algebra.Field.Defs
import Mathlib.Tactic.Ring
import Mathlib.Tactic.Linarith
namespace Slu.Blas
open Finset
variable {K : Type} [Field K]

/-- after the columns in `P` have been eliminated: the processed unknowns are final, and every
other cell holds the right-hand side minus the contributions of the processed columns. -/
def InvN (n : Nat) (M : Nat → Nat → K) (P : Finset Nat) (ξ b : Nat → K) : Prop :=
  ∀ i < n, b i = (if i ∈ P then 0 else ξ i) + ∑ j ∈ P, M i j * ξ j

theorem InvN_init (n : Nat) (M : Nat → Nat → K) (b : Nat → K) : InvN n M ∅ b b := by
  intro i _; simp

theorem InvN_final (n : Nat) (M : Nat → Nat → K) (ξ b : Nat → K) (h : InvN n M (range n) ξ b) :
    ∀ i < n, ∑ j ∈ range n, M i j * ξ j = b i := by
  intro i hi
  have := h i hi
  simp only [mem_range, hi, if_true, zero_add] at this
  exact this.symm

/-- eliminating the block of columns `B` (disjoint from `P`; processed rows have no entry in it) -/
theorem InvN_step (n : Nat) (M : Nat → Nat → K) (P B : Finset Nat) (ξ ξ' b : Nat → K)
    (hdisj : Disjoint P B) (hstruct : ∀ i ∈ P, ∀ j ∈ B, M i j = 0)
    (ha : ∀ i ∈ B, ξ i = ∑ j ∈ B, M i j * ξ' j)
    (hb : ∀ i < n, i ∉ B → ξ' i = ξ i - ∑ j ∈ B, M i j * ξ' j)
    (hP : ∀ j ∈ P, j < n)
    (h : InvN n M P ξ b) : InvN n M (P ∪ B) ξ' b := by
  intro i hi
  have hPfix : ∀ j ∈ P, ξ' j = ξ j := by
    intro j hj
    have hjB : j ∉ B := fun hB => (disjoint_left.mp hdisj) hj hB
    rw [hb j (hP j hj) hjB, sum_eq_zero (fun k hk => by rw [hstruct j hj k hk, zero_mul]), sub_zero]
  have hsumP : ∑ j ∈ P, M i j * ξ' j = ∑ j ∈ P, M i j * ξ j :=
    sum_congr rfl (fun j hj => by rw [hPfix j hj])
  rw [sum_union hdisj, hsumP, h i hi]
  by_cases hiP : i ∈ P
  · have hiB : i ∉ B := fun hB => (disjoint_left.mp hdisj) hiP hB
    have : ∑ j ∈ B, M i j * ξ' j = 0 := sum_eq_zero (fun k hk => by rw [hstruct i hiP k hk, zero_mul])
    simp [hiP, this]
  · by_cases hiB : i ∈ B
    · simp only [hiP, if_false, mem_union, hiB, or_true, if_true, zero_add]
      rw [ha i hiB]; ring
    · simp only [hiP, if_false, mem_union, hiB, or_false]
      rw [hb i hi hiB]; ring

/-- after the rows in `P` have been solved: they satisfy their equations (with the current values),
the other cells still hold the right-hand side. -/
def InvT (n : Nat) (T : Nat → Nat → K) (P : Finset Nat) (ξ b : Nat → K) : Prop :=
  (∀ i ∈ P, b i = ∑ j ∈ range n, T i j * ξ j) ∧ (∀ i < n, i ∉ P → ξ i = b i)

theorem InvT_init (n : Nat) (T : Nat → Nat → K) (b : Nat → K) : InvT n T ∅ b b :=
  ⟨fun i hi => absurd hi (notMem_empty i), fun _ _ _ => rfl⟩

theorem InvT_final (n : Nat) (T : Nat → Nat → K) (ξ b : Nat → K) (h : InvT n T (range n) ξ b) :
    ∀ i < n, ∑ j ∈ range n, T i j * ξ j = b i :=
  fun i hi => (h.1 i (mem_range.mpr hi)).symm

/-- solving the block of rows `B` (rows solved earlier do not involve the unknowns of `B`) -/
theorem InvT_step (n : Nat) (T : Nat → Nat → K) (P B : Finset Nat) (ξ ξ' b : Nat → K)
    (hstruct : ∀ i ∈ P, ∀ j ∈ B, T i j = 0)
    (hc : ∀ i ∈ B, ξ i = ∑ j ∈ range n, T i j * ξ' j)
    (hd : ∀ i < n, i ∉ B → ξ' i = ξ i)
    (hPB : Disjoint P B) (hBn : ∀ j ∈ B, j < n)
    (h : InvT n T P ξ b) : InvT n T (P ∪ B) ξ' b := by
  refine ⟨?_, ?_⟩
  · intro i hi
    rcases mem_union.mp hi with hiP | hiB
    · rw [h.1 i hiP]
      apply sum_congr rfl
      intro j hj
      by_cases hjB : j ∈ B
      · rw [hstruct i hiP j hjB, zero_mul, zero_mul]
      · rw [hd j (mem_range.mp hj) hjB]
    · have hiP : i ∉ P := fun hP => (disjoint_left.mp hPB) hP hiB
      rw [← h.2 i (hBn i hiB) hiP, hc i hiB]
  · intro i hin hi
    have hiP : i ∉ P := fun hP => hi (mem_union_left _ hP)
    have hiB : i ∉ B := fun hB => hi (mem_union_right _ hB)
    rw [hd i hin hiB, h.2 i hin hiP]

end Slu.Blas
