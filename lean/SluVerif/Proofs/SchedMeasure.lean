/-
A termination measure for the scheduler/worker model:  Φ(s) = #panels not handed out + #panels not finished + #panels not
reported to their parent.  Every `finish` lowers Φ by one, every scheduler call lowers it by (1 if a panel is handed out) +
(1 if a finished panel is reported), nothing raises it.  Hence along ANY run the number of productive steps is at most
Φ(initial) = 3·#panels; together with `global_progress` (some productive step is always possible while a panel is unfinished)
this is termination under a fair scheduler: only empty polls can be repeated, and they change nothing.
-/
import SluVerif.Proofs.SchedProgInit

namespace Slu
open Slu.Gen
open Classical

noncomputable def phi (K : Cfg) (s : Sys) : Nat :=
  cnt K.panels (fun p => stt s p > BUSY) + cnt K.panels (fun p => stt s p ≠ DONE) + cnt K.panels (fun p => unrep s p)

/-- how much an event achieves -/
def gain (c : PanelCfg) (s : Sys) : Ev → Nat
  | .loop _ => 0
  | .finish w => if enabled c s (.finish w) then 1 else 0
  | .sched w => if enabled c s (.sched w) then
                  (if (wk s w).cur.isSome then 1 else 0) + (if (schedule c s.sh (wk s w).cur 0).2.1.isSome then 1 else 0)
                else 0

theorem gain_loop (c : PanelCfg) (s : Sys) (w : Nat) : gain c s (.loop w) = 0 := rfl
theorem gain_finish (c : PanelCfg) (s : Sys) (w : Nat) : gain c s (.finish w) = if enabled c s (.finish w) then 1 else 0 := rfl
theorem gain_sched (c : PanelCfg) (s : Sys) (w : Nat) :
    gain c s (.sched w) = if enabled c s (.sched w) then
      (if (wk s w).cur.isSome then 1 else 0) + (if (schedule c s.sh (wk s w).cur 0).2.1.isSome then 1 else 0) else 0 := rfl

theorem phi_loop (K : Cfg) (s : Sys) (w : Nat) (h : enabled K.c s (.loop w) = true) :
    phi K (step K.c s (.loop w)) = phi K s := by
  obtain ⟨hsh, _, _, hwk⟩ := step_loop K.c s w h
  have hcur : ∀ i, (wk (step K.c s (.loop w)) i).cur = (wk s i).cur := by
    intro i; rw [hwk i]; split
    · next e => subst e; rfl
    · rfl
  have hst : ∀ p, stt (step K.c s (.loop w)) p = stt s p := fun p => by unfold stt; rw [hsh]
  unfold phi
  congr 1
  · congr 1
    · exact cnt_congr _ _ _ (fun q _ => by rw [hst])
    · exact cnt_congr _ _ _ (fun q _ => by rw [hst])
  · exact cnt_congr _ _ _ (fun q _ => by unfold unrep; rw [hst, hasCur_congr _ _ hcur])

theorem phi_finish (K : Cfg) (W : CfgWF K) (s : Sys) (inv : SysInv K s) (w : Nat) (h : enabled K.c s (.finish w) = true) :
    phi K (step K.c s (.finish w)) + 1 = phi K s := by
  obtain ⟨p, b, hph, _, hsh, _, hwk⟩ := step_finish K.c s w h
  obtain ⟨hcw, hbusy, hpp⟩ := inv.own_w w p b hph
  have hpn : p < K.c.n := W.lt p hpp
  have hcur : ∀ i, (wk (step K.c s (.finish w)) i).cur = (wk s i).cur := by
    intro i; rw [hwk i]; split
    · next e => subst e; rfl
    · rfl
  have hst : ∀ x, stt (step K.c s (.finish w)) x = if x = p then DONE else stt s x := by
    intro x; unfold stt; rw [hsh, finishPanel_state, getN_set _ _ _ _ (by rw [inv.ssz]; omega)]
  have h1 : cnt K.panels (fun q => stt (step K.c s (.finish w)) q > BUSY) = cnt K.panels (fun q => stt s q > BUSY) := by
    apply cnt_congr
    intro q _
    rw [hst]
    by_cases e : q = p
    · subst e; rw [if_pos rfl, hbusy]; simp [DONE, BUSY]
    · rw [if_neg e]
  have h2 : cnt K.panels (fun q => stt s q ≠ DONE) = cnt K.panels (fun q => stt (step K.c s (.finish w)) q ≠ DONE) + 1 := by
    apply cnt_remove_one K.panels _ _ p W.nodup hpp
    · rw [hbusy]; simp [BUSY, DONE]
    · rw [hst, if_pos rfl]; simp
    · intro q _ hq; rw [hst, if_neg hq]
  have h3 : cnt K.panels (fun q => unrep (step K.c s (.finish w)) q) = cnt K.panels (fun q => unrep s q) := by
    apply cnt_congr
    intro q _
    unfold unrep
    rw [hst, hasCur_congr _ _ hcur]
    by_cases e : q = p
    · subst e
      simp only [if_true, ne_eq, not_true_eq_false, false_or]
      constructor
      · intro hc; exact Or.inr hc
      · intro _; exact ⟨w, hcw⟩
    · simp only [e, if_false]
  unfold phi
  rw [h1, h3, h2]; omega

/-- what a scheduler call does to the set of unreported panels -/
theorem sched_unrep (K : Cfg) (W : CfgWF K) (s : Sys) (inv : SysInv K s) (w : Nat) (h : enabled K.c s (.sched w) = true) :
    ∃ got, SchedEffect K s (step K.c s (.sched w)) w (wk s w).cur got ∧
      SchedState s (step K.c s (.sched w)) got ∧
      (∀ q, (wk s w).cur ≠ some q → (unrep (step K.c s (.sched w)) q ↔ unrep s q)) ∧
      (∀ q, (wk s w).cur = some q → q ∈ K.panels ∧ ¬ unrep (step K.c s (.sched w)) q ∧ unrep s q) ∧
      (∀ j, got = some j → j ∈ K.panels) := by
  have inv' := sysInv_sched K W s inv w h
  obtain ⟨got, E⟩ := sched_effect K W s inv w h
  refine ⟨got, E, ?_⟩
  have hnw : ¬ isWorking (wk s w) := by
    intro ⟨p, b, hpb⟩; rw [E.calling] at hpb; cases hpb
  have hcurq : ∀ q, (wk s w).cur = some q → stt s q = DONE ∧ q ∈ K.panels := fun q hq => inv.own_i w q hq hnw
  have hgotp : ∀ j, got = some j → j ∈ K.panels := fun j hj => (inv'.own_w w j _ (E.wk_w_some j hj)).2.2
  have hdadU : ∀ j, got = some j → K.dad j < K.c.n → stt s (K.dad j) = UNREADY := by
    intro j hj hdn
    obtain ⟨_, hjs, _, _⟩ := E.some_take j hj
    by_contra hne
    have := inv.closed (K.dad j) (W.dad_pan j (hgotp j hj) hdn) hne j (hgotp j hj) rfl
    omega
  have S := sched_state K s _ w _ got E hdadU
  have hcur' : ∀ i, (wk (step K.c s (.sched w)) i).cur = if i = w then got else (wk s i).cur := by
    intro i
    by_cases e : i = w
    · subst e; rw [if_pos rfl]; exact E.wk_w_cur
    · rw [if_neg e, E.wk_other i e]
  have hhas' : ∀ q, hasCur (step K.c s (.sched w)) q ↔ (got = some q ∨ ∃ i, i ≠ w ∧ (wk s i).cur = some q) := by
    intro q
    unfold hasCur
    constructor
    · rintro ⟨i, hi⟩
      rw [hcur' i] at hi
      by_cases e : i = w
      · rw [if_pos e] at hi; left; exact hi
      · rw [if_neg e] at hi; right; exact ⟨i, e, hi⟩
    · rintro (hg | ⟨i, e, hi⟩)
      · exact ⟨w, by rw [hcur' w, if_pos rfl]; exact hg⟩
      · exact ⟨i, by rw [hcur' i, if_neg e]; exact hi⟩
  have hhas : ∀ q, hasCur s q ↔ ((wk s w).cur = some q ∨ ∃ i, i ≠ w ∧ (wk s i).cur = some q) := by
    intro q
    unfold hasCur
    constructor
    · rintro ⟨i, hi⟩
      by_cases e : i = w
      · subst e; left; exact hi
      · right; exact ⟨i, e, hi⟩
    · rintro (hg | ⟨i, _, hi⟩)
      · exact ⟨w, hg⟩
      · exact ⟨i, hi⟩
  refine ⟨S, ?_, ?_, hgotp⟩
  · intro q hq
    unfold unrep
    rw [hhas', hhas]
    constructor
    · rintro (h1 | h1 | h1)
      · left; intro hd; exact h1 ((S.done_iff q).2 hd)
      · left
        have := (S.took q h1).2
        intro hd; rw [hd] at this; simp [DONE, BUSY] at this
      · right; right; exact h1
    · rintro (h1 | h1 | h1)
      · left; intro hd; exact h1 ((S.done_iff q).1 hd)
      · exact absurd h1 hq
      · right; right; exact h1
  · intro q hq
    obtain ⟨hd, hqp⟩ := hcurq q hq
    refine ⟨hqp, ?_, Or.inr ((hhas q).2 (Or.inl hq))⟩
    unfold unrep
    rw [hhas']
    rintro (h1 | h1 | ⟨i, e, hi⟩)
    · exact h1 ((S.done_iff q).2 hd)
    · have := (S.took q h1).2
      rw [hd] at this; simp [DONE, BUSY] at this
    · exact e (inv.own_u i w q hi hq)

theorem phi_sched (K : Cfg) (W : CfgWF K) (s : Sys) (inv : SysInv K s) (w : Nat) (h : enabled K.c s (.sched w) = true) :
    phi K (step K.c s (.sched w)) + gain K.c s (.sched w) = phi K s := by
  obtain ⟨hph, hsh, hsz, hwk⟩ := step_sched K.c s w h
  obtain ⟨got, E, S, hU1, hU2, hgotp⟩ := sched_unrep K W s inv w h
  have hgot_eq : (schedule K.c s.sh (wk s w).cur 0).2.1 = got := by
    have := E.wk_w_cur
    rw [hwk w, if_pos rfl, schedWorker_cur] at this
    exact this
  -- untaken
  have h1 : cnt K.panels (fun q => stt s q > BUSY) =
      cnt K.panels (fun q => stt (step K.c s (.sched w)) q > BUSY) + (if got.isSome then 1 else 0) := by
    cases hg : got with
    | none =>
      simp only [Option.isSome_none, Bool.false_eq_true, if_false, Nat.add_zero]
      apply cnt_congr
      intro q _
      rw [S.gt_iff q (by rw [hg]; simp)]
    | some j =>
      simp only [Option.isSome_some, if_true]
      apply cnt_remove_one K.panels _ _ j W.nodup (hgotp j hg) (S.took j hg).2
      · rw [(S.took j hg).1]; simp
      · intro x _ hx
        rw [S.gt_iff x (by rw [hg]; intro e; simp only [Option.some.injEq] at e; exact hx e.symm)]
  -- not finished: unchanged
  have h2 : cnt K.panels (fun q => stt (step K.c s (.sched w)) q ≠ DONE) = cnt K.panels (fun q => stt s q ≠ DONE) := by
    apply cnt_congr
    intro q _
    exact not_congr (S.done_iff q)
  -- unreported
  have h3 : cnt K.panels (fun q => unrep s q) =
      cnt K.panels (fun q => unrep (step K.c s (.sched w)) q) + (if (wk s w).cur.isSome then 1 else 0) := by
    cases hc : (wk s w).cur with
    | none =>
      simp only [Option.isSome_none, Bool.false_eq_true, if_false, Nat.add_zero]
      apply cnt_congr
      intro q _
      rw [hU1 q (by rw [hc]; simp)]
    | some q0 =>
      simp only [Option.isSome_some, if_true]
      obtain ⟨a, b, c⟩ := hU2 q0 hc
      apply cnt_remove_one K.panels _ _ q0 W.nodup a c b
      intro x _ hx
      rw [hU1 x (by rw [hc]; intro e; simp only [Option.some.injEq] at e; exact hx e.symm)]
  rw [gain_sched, if_pos h, hgot_eq]
  unfold phi
  rw [h1, h2, h3]
  omega

/-- Φ never increases, and drops by exactly what the event achieves -/
theorem phi_step (K : Cfg) (W : CfgWF K) (s : Sys) (inv : SysInv K s) (e : Ev) :
    phi K (step K.c s e) + gain K.c s e = phi K s := by
  by_cases h : enabled K.c s e = true
  · cases e with
    | loop w => rw [phi_loop K s w h, gain_loop]; rfl
    | sched w => exact phi_sched K W s inv w h
    | finish w =>
      have := phi_finish K W s inv w h
      rw [gain_finish, if_pos h]; exact this
  · have hd : enabled K.c s e = false := by simpa using h
    rw [step_disabled K.c s e hd]
    cases e with
    | loop w => rw [gain_loop]; rfl
    | sched w => rw [gain_sched, hd]; rfl
    | finish w => rw [gain_finish, hd]; rfl

/-- total achievement of a run -/
def gains (c : PanelCfg) : Sys → List Ev → Nat
  | _, [] => 0
  | s, e :: es => gain c s e + gains c (step c s e) es

theorem phi_run (K : Cfg) (W : CfgWF K) (evs : List Ev) :
    ∀ s, SysInv K s → phi K (runEv K.c s evs) + gains K.c s evs = phi K s := by
  induction evs with
  | nil => intro s _; rfl
  | cons e es ih =>
    intro s inv
    have h1 := phi_step K W s inv e
    have h2 := ih (step K.c s e) (sysInv_step K W s inv e)
    show phi K (runEv K.c (step K.c s e) es) + (gain K.c s e + gains K.c (step K.c s e) es) = phi K s
    omega

theorem cnt_le_length (l : List Nat) (P : Nat → Prop) : cnt l P ≤ l.length := by
  unfold cnt; exact List.length_filter_le _ _

/-- **Bounded work.**  Along every run of the model — any forest passing `initOk`, any number of workers, any interleaving —
the number of finished panels plus hand-outs plus reports is at most three times the number of panels: a run cannot keep
doing productive steps, and (`global_progress`) a productive step is possible as long as a panel is unfinished. -/
theorem global_gains_bounded (c : PanelCfg) (sh : Sh) (nw : Nat) (h : initOk c sh = true) (evs : List Ev) :
    gains c (sysOf sh nw) evs ≤ 3 * (panelsOf c.n sh).length := by
  have W := cfgWF_of_initOk c sh h
  have inv := sysInv_of_initOk c sh nw h
  have := phi_run (cfgOf c sh) W evs (sysOf sh nw) inv
  have hb : phi (cfgOf c sh) (sysOf sh nw) ≤ 3 * (panelsOf c.n sh).length := by
    unfold phi
    have a := cnt_le_length (cfgOf c sh).panels (fun p => stt (sysOf sh nw) p > BUSY)
    have b := cnt_le_length (cfgOf c sh).panels (fun p => stt (sysOf sh nw) p ≠ DONE)
    have d := cnt_le_length (cfgOf c sh).panels (fun p => unrep (sysOf sh nw) p)
    have e : (cfgOf c sh).panels.length = (panelsOf c.n sh).length := rfl
    omega
  have e : (cfgOf c sh).c = c := rfl
  rw [e] at this
  omega

end Slu
