/- instances of `liuRun_eq_ref`: sp_symetree, and sp_coletree through the first-column-star lemma -/
import SluVerif.Proofs.Liu
namespace Slu.Pre

theorem contains_map_eq_any (l : List Nat) (f : Nat → Nat) (x : Nat) :
    (l.map f).contains x = l.any (fun p => f p == x) := by
  rw [Bool.eq_iff_iff]
  simp only [List.contains_iff_mem, List.mem_map, List.any_eq_true, beq_iff_eq]

/-- **symetree_eq_ref** — for every pattern, `sp_symetree` returns the elimination tree (first fill
neighbour above, by naive symbolic elimination) of the symmetrised strict upper triangle. -/
theorem symEtree_eq_ref (colbeg colend rowind : Array Nat) (n : Nat) :
    symEtree colbeg colend rowind n = etreeRef n (symAdj colbeg colend rowind) := by
  have h1 : symEtree colbeg colend rowind n =
      (liuRun n (fun col => (colRange colbeg colend col).map (getN rowind))).parent := rfl
  rw [h1, liuRun_eq_ref]
  apply etreeRef_congr
  intro a b _ _
  unfold liuGraph symAdj hasEntry
  rw [contains_map_eq_any, contains_map_eq_any, Bool.or_comm]

theorem symEtreeRef_eq (colbeg colend rowind : Array Nat) (n : Nat) :
    symEtreeRef colbeg colend rowind n = etreeRef n (symAdj colbeg colend rowind) := by
  unfold symEtreeRef
  apply etreeRef_congr
  intro a b ha hb
  exact tabGet_tabulate n _ ha hb


/-! ### column elimination tree: first-column stars -/

theorem hasEntry_iff (colbeg colend rowind : Array Nat) (r c : Nat) :
    hasEntry colbeg colend rowind r c = true ↔ ∃ p, p ∈ colRange colbeg colend c ∧ getN rowind p = r := by
  unfold hasEntry
  simp only [List.any_eq_true, beq_iff_eq]

section firstcol
variable (colbeg colend rowind : Array Nat) (nr nc : Nat)

/-- invariant of the `firstcol` computation after the columns `< k` (and, inside column `k`, after the
rows in `seen`) -/
structure FCInv (k : Nat) (seen : List Nat) (fc : Array Nat) : Prop where
  sz : fc.size = nr
  le : ∀ r, r < nr → getN fc r ≤ nc
  low : ∀ r c, r < nr → c < k → hasEntry colbeg colend rowind r c = true → getN fc r ≤ c
  cur : ∀ r, r < nr → r ∈ seen → getN fc r ≤ k
  ent : ∀ r, r < nr → getN fc r < nc → getN fc r ≤ k ∧ hasEntry colbeg colend rowind r (getN fc r) = true

theorem fc_inner {k : Nat} (hk : k < nc) :
    ∀ (ps : List Nat) (seen : List Nat) (fc : Array Nat), (∀ p, p ∈ ps → p ∈ colRange colbeg colend k) →
      FCInv colbeg colend rowind nr nc k seen fc →
      FCInv colbeg colend rowind nr nc k ((ps.map (getN rowind)).reverse ++ seen)
        (ps.foldl (fun fc p => fc.setIfInBounds (getN rowind p) (min (getN fc (getN rowind p)) k)) fc) := by
  intro ps
  induction ps with
  | nil => intro seen fc _ h; simpa using h
  | cons p ps ih =>
      intro seen fc hps h
      have hp := hps p (by simp)
      have := ih (getN rowind p :: seen) (fc.setIfInBounds (getN rowind p) (min (getN fc (getN rowind p)) k))
        (fun q hq => hps q (List.mem_cons_of_mem _ hq)) ?_
      · simpa using this
      · refine ⟨by simp [h.sz], ?_, ?_, ?_, ?_⟩
        · intro r hr; rw [getN_set]; split
          · have := h.le (getN rowind p); omega
          · exact h.le r hr
        · intro r c hr hc he; rw [getN_set]; split
          · rename_i heq; rw [heq.1]; have := h.low r c hr hc he; omega
          · exact h.low r c hr hc he
        · intro r hr hmem; rw [getN_set]; split
          · omega
          · rename_i hne
            rcases List.mem_cons.1 hmem with e | hm
            · exfalso; apply hne; exact ⟨e.symm, by rw [h.sz, ← e]; exact hr⟩
            · exact h.cur r hr hm
        · intro r hr; rw [getN_set]; split
          · rename_i heq
            intro hlt
            rw [← heq.1]
            by_cases hmin : getN fc (getN rowind p) ≤ k
            · rw [Nat.min_eq_left hmin] at hlt ⊢
              have := h.ent (getN rowind p) (by rw [heq.1]; exact hr) hlt
              exact ⟨hmin, this.2⟩
            · rw [Nat.min_eq_right (by omega)]
              exact ⟨Nat.le_refl _, (hasEntry_iff _ _ _ _ _).2 ⟨p, hp, rfl⟩⟩
          · exact h.ent r hr

theorem firstCol_spec :
    FCInv colbeg colend rowind nr nc nc [] (firstCol colbeg colend rowind nr nc) := by
  unfold firstCol
  have := foldl_range_inv
    (fun fc col => (colRange colbeg colend col).foldl (fun fc p =>
      fc.setIfInBounds (getN rowind p) (min (getN fc (getN rowind p)) col)) fc)
    (fun k fc => FCInv colbeg colend rowind nr nc k [] fc) (Array.replicate nr nc) nc ?_ ?_
  · exact this
  · refine ⟨by simp, ?_, ?_, ?_, ?_⟩
    · intro r hr; rw [getN_replicate]; simp [hr]
    · intro r c _ hc; omega
    · intro r _ hm; cases hm
    · intro r hr hlt; rw [getN_replicate] at hlt; simp [hr] at hlt
  · intro k fc hk h
    have h1 := fc_inner colbeg colend rowind nr nc hk (colRange colbeg colend k) [] fc (fun p hp => hp) h
    refine ⟨h1.sz, h1.le, ?_, (fun r _ hm => by cases hm), ?_⟩
    · intro r c hr hc he
      by_cases hck : c = k
      · subst hck
        obtain ⟨p, hp, hpr⟩ := (hasEntry_iff _ _ _ _ _).1 he
        apply h1.cur r hr
        simp only [List.append_nil, List.mem_reverse, List.mem_map]
        exact ⟨p, hp, hpr⟩
      · exact h1.low r c hr (by omega) he
    · intro r hr hlt
      have := h1.ent r hr hlt
      exact ⟨by omega, this.2⟩

end firstcol

/-! ### filled graphs of a graph and of a sub/super graph -/

theorem fill_mono_graph {G H : Nat → Nat → Bool} {n : Nat}
    (hGH : ∀ a b, a < n → b < n → G a b = true → H a b = true) :
    ∀ k a b, a < n → b < n → fill G k a b = true → fill H k a b = true
  | 0, a, b, ha, hb, h => hGH a b ha hb h
  | k + 1, a, b, ha, hb, h => by
      rcases (fill_succ_iff G k a b).1 h with h' | ⟨h1, h2, h3, h4, h5⟩
      · exact (fill_succ_iff H k a b).2 (Or.inl (fill_mono_graph hGH k a b ha hb h'))
      · exact (fill_succ_iff H k a b).2 (Or.inr ⟨h1, h2, h3,
          fill_mono_graph hGH k a k ha (by omega) h4, fill_mono_graph hGH k k b (by omega) hb h5⟩)

/-- if every edge of `K` is a fill edge of `S`, so is every fill edge of `K` -/
theorem fill_closure {K S : Nat → Nat → Bool} {n : Nat}
    (hKS : ∀ a b, a < n → b < n → K a b = true → fill S n a b = true) :
    ∀ k a b, a < n → b < n → fill K k a b = true → fill S n a b = true
  | 0, a, b, ha, hb, h => hKS a b ha hb h
  | k + 1, a, b, ha, hb, h => by
      rcases (fill_succ_iff K k a b).1 h with h' | ⟨h1, h2, h3, h4, h5⟩
      · exact fill_closure hKS k a b ha hb h'
      · have e1 := fill_closure hKS k a k ha (by omega) h4
        have e2 := fill_closure hKS k k b (by omega) hb h5
        have e1' : fill S k a k = true := fill_stable' (Or.inr (Nat.le_refl _)) (by omega) e1
        have e2' : fill S k k b = true := fill_stable' (Or.inl (Nat.le_refl _)) (by omega) e2
        exact fill_mono (by omega) ((fill_succ_iff S k a b).2 (Or.inr ⟨h1, h2, h3, e1', e2'⟩))

theorem isEtree_congr {G H : Nat → Nat → Bool} {n : Nat} {par : Nat → Nat}
    (h : ∀ a b, a < n → b < n → fill G n a b = fill H n a b) (he : IsEtree G n par) : IsEtree H n par := by
  intro j hj
  obtain ⟨h1, h2, h3, h4⟩ := he j hj
  refine ⟨h1, h2, fun hlt => ?_, fun i hi1 hi2 => ?_⟩
  · rw [← h _ _ hlt hj]; exact h3 hlt
  · rw [← h _ _ (by omega) hj]; exact h4 i hi1 hi2


/-! ### sp_coletree -/

theorem ataAdj_iff (colbeg colend rowind : Array Nat) (nr a b : Nat) :
    ataAdj colbeg colend rowind nr a b = true ↔
      (a ≠ b ∧ ∃ r, r < nr ∧ hasEntry colbeg colend rowind r a = true ∧ hasEntry colbeg colend rowind r b = true) := by
  unfold ataAdj
  simp only [Bool.and_eq_true, decide_eq_true_eq, List.any_eq_true, List.mem_range]

section star
variable (colbeg colend rowind : Array Nat) (nr nc : Nat)

/-- the row lists Liu's loop sees in `sp_coletree`: every row index replaced by the first column of that row -/
def starRows (col : Nat) : List Nat :=
  (colRange colbeg colend col).map (fun p => getN (firstCol colbeg colend rowind nr nc) (getN rowind p))

theorem colEtree_eq_liuRun :
    colEtree colbeg colend rowind nr nc = (liuRun nc (starRows colbeg colend rowind nr nc)).parent := rfl

theorem star_lt {a b : Nat} (h : b < a) :
    liuGraph (starRows colbeg colend rowind nr nc) a b = true ↔
      ∃ p, p ∈ colRange colbeg colend a ∧ getN (firstCol colbeg colend rowind nr nc) (getN rowind p) = b := by
  rw [liuGraph_lt _ h]
  unfold starRows
  simp only [List.mem_map]

variable (hrows : ∀ c, c < nc → ∀ p, p ∈ colRange colbeg colend c → getN rowind p < nr)
include hrows

theorem star_sub_ata {a b : Nat} (ha : a < nc) (hb : b < nc)
    (h : liuGraph (starRows colbeg colend rowind nr nc) a b = true) :
    ataAdj colbeg colend rowind nr a b = true := by
  have hfc := firstCol_spec colbeg colend rowind nr nc
  have key : ∀ a b, a < nc → b < nc → b < a → liuGraph (starRows colbeg colend rowind nr nc) a b = true →
      ∃ r, r < nr ∧ hasEntry colbeg colend rowind r a = true ∧ hasEntry colbeg colend rowind r b = true := by
    intro a b ha hb hlt h
    obtain ⟨p, hp, hpb⟩ := (star_lt colbeg colend rowind nr nc hlt).1 h
    have hr := hrows a ha p hp
    refine ⟨getN rowind p, hr, (hasEntry_iff _ _ _ _ _).2 ⟨p, hp, rfl⟩, ?_⟩
    have := (hfc.ent _ hr (by rw [hpb]; exact hb)).2
    rwa [hpb] at this
  rw [ataAdj_iff]
  rcases Nat.lt_trichotomy a b with hlt | heq | hgt
  · rw [liuGraph_symm] at h
    obtain ⟨r, h1, h2, h3⟩ := key b a hb ha hlt h
    exact ⟨by omega, r, h1, h3, h2⟩
  · subst heq
    unfold liuGraph at h; simp at h
  · obtain ⟨r, h1, h2, h3⟩ := key a b ha hb hgt h
    exact ⟨by omega, r, h1, h2, h3⟩

omit hrows in
theorem ata_sub_fill_star {a b : Nat} (ha : a < nc) (hb : b < nc)
    (h : ataAdj colbeg colend rowind nr a b = true) :
    fill (liuGraph (starRows colbeg colend rowind nr nc)) nc a b = true := by
  have hfc := firstCol_spec colbeg colend rowind nr nc
  obtain ⟨hne, r, hr, hea, heb⟩ := (ataAdj_iff _ _ _ _ _ _).1 h
  have hfa := hfc.low r a hr ha hea
  have hfb := hfc.low r b hr hb heb
  -- an entry (r, c) with first column f < c gives the star edge (c, f)
  have hedge : ∀ c, c < nc → hasEntry colbeg colend rowind r c = true →
      getN (firstCol colbeg colend rowind nr nc) r < c →
      liuGraph (starRows colbeg colend rowind nr nc) c (getN (firstCol colbeg colend rowind nr nc) r) = true := by
    intro c _ hec hlt
    obtain ⟨p, hp, hpr⟩ := (hasEntry_iff _ _ _ _ _).1 hec
    exact (star_lt colbeg colend rowind nr nc hlt).2 ⟨p, hp, by rw [hpr]⟩
  generalize hf : getN (firstCol colbeg colend rowind nr nc) r = f at hfa hfb hedge
  by_cases hfa' : f = a
  · subst hfa'
    have := hedge b hb heb (by omega)
    rw [liuGraph_symm] at this
    exact fill_mono (Nat.zero_le _) this
  · by_cases hfb' : f = b
    · subst hfb'
      exact fill_mono (Nat.zero_le _) (hedge a ha hea (by omega))
    · have e1 : fill (liuGraph (starRows colbeg colend rowind nr nc)) f a f = true :=
        fill_mono (Nat.zero_le _) (hedge a ha hea (by omega))
      have e2 : fill (liuGraph (starRows colbeg colend rowind nr nc)) f f b = true := by
        have := hedge b hb heb (by omega)
        rw [liuGraph_symm] at this
        exact fill_mono (Nat.zero_le _) this
      exact fill_mono (by omega) ((fill_succ_iff _ f a b).2 (Or.inr ⟨by omega, by omega, hne, e1, e2⟩))

theorem fill_star_eq_ata {a b : Nat} (ha : a < nc) (hb : b < nc) :
    fill (liuGraph (starRows colbeg colend rowind nr nc)) nc a b = fill (ataAdj colbeg colend rowind nr) nc a b := by
  rw [Bool.eq_iff_iff]
  constructor
  · exact fill_mono_graph (fun a b ha hb h => star_sub_ata colbeg colend rowind nr nc hrows ha hb h) nc a b ha hb
  · exact fill_closure (fun a b ha hb h => ata_sub_fill_star colbeg colend rowind nr nc ha hb h) nc a b ha hb

/-- **coletree_eq_ref** — for every `nr × nc` pattern with row indices in range, `sp_coletree` returns the
elimination tree of AᵀA (columns adjacent when they share a row), computed by naive symbolic elimination. -/
theorem colEtree_eq_ref :
    colEtree colbeg colend rowind nr nc = etreeRef nc (ataAdj colbeg colend rowind nr) := by
  apply eq_etreeRef_of_isEtree (colEtree_increasing colbeg colend rowind nr nc).1
  rw [colEtree_eq_liuRun, liuRun_eq_ref]
  exact isEtree_congr (fun a b ha hb => fill_star_eq_ata colbeg colend rowind nr nc hrows ha hb)
    (etreeRef_isEtree nc _)

end star

/-- the tabulated reference the driver prints is the same array -/
theorem colEtreeRef_eq (colbeg colend rowind : Array Nat) (nr nc : Nat) :
    colEtreeRef colbeg colend rowind nr nc = etreeRef nc (ataAdj colbeg colend rowind nr) := by
  unfold colEtreeRef
  apply etreeRef_congr
  intro a b ha hb
  rw [tabGet_tabulate nc _ ha hb]
  unfold ataAdj
  congr 1
  have e : ∀ r c, r < nr → c < nc → tabGet (Array.ofFn (n := nr) (fun r => Array.ofFn (n := nc) (fun c => hasEntry colbeg colend rowind r.1 c.1))) r c
      = hasEntry colbeg colend rowind r c := by
    intro r c hr hc
    unfold tabGet
    simp [Array.getD_eq_getD_getElem?, hr, hc]
  rw [Bool.eq_iff_iff]
  simp only [List.any_eq_true, List.mem_range]
  constructor
  · rintro ⟨r, hr, h⟩; exact ⟨r, hr, by rw [← e r a hr ha, ← e r b hr hb]; exact h⟩
  · rintro ⟨r, hr, h⟩; exact ⟨r, hr, by rw [e r a hr ha, e r b hr hb]; exact h⟩

end Slu.Pre
